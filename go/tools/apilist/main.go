// apilist prints every exported function and method of the non-internal packages of /repo that takes
// externally supplied bytes: a parameter (or, for methods, the receiver) whose type is, or is a named
// type with underlying type, []byte, [][]byte, [N]byte, *[N]byte, or a slice of such.  String
// parameters (merlin labels, signing contexts) are reported with kind "string".
//
// Output: one line per function, `<pkg>.<Recv>.<Name> <kinds of byte params>`; sorted.
//
// With -check FILE the table `var p1Coverage = map[string]string{…}` of stream P1 (go/harness/s_panic.go) is
// compared with the list: every listed function must be a key (value = the P1 ops that call it, or
// "skip: reason"), and every key must be a listed function.  Exit status 1 on a difference — so a byte-taking
// API that is added to the library later is noticed.
//
//	cd /verif/go/tools && go run ./apilist -repo /repo [-check ../harness/s_panic.go]
package main

import (
	"flag"
	"fmt"
	"go/ast"
	"go/parser"
	"go/token"
	"go/types"
	"os"
	"sort"
	"strconv"
	"strings"

	"golang.org/x/tools/go/packages"
)

func byteKind(t types.Type, depth int) string {
	switch u := t.Underlying().(type) {
	case *types.Basic:
		if u.Kind() == types.String && depth == 0 {
			return "string"
		}
		if u.Kind() == types.Uint8 && depth > 0 {
			return "byte"
		}
	case *types.Slice:
		if k := byteKind(u.Elem(), depth+1); k != "" && k != "string" {
			return "[]" + k
		}
	case *types.Array:
		if k := byteKind(u.Elem(), depth+1); k != "" && k != "string" {
			return fmt.Sprintf("[%d]%s", u.Len(), k)
		}
	case *types.Pointer:
		if _, ok := u.Elem().Underlying().(*types.Array); ok {
			if k := byteKind(u.Elem(), depth); k != "" {
				return "*" + k
			}
		}
	}
	return ""
}

func main() {
	repo := flag.String("repo", "/repo", "module root")
	withStrings := flag.Bool("strings", true, "also list functions whose only byte-like parameter is a string")
	check := flag.String("check", "", "Go source file holding the p1Coverage table to compare with")
	flag.Parse()
	cfg := &packages.Config{Mode: packages.NeedName | packages.NeedTypes | packages.NeedTypesInfo | packages.NeedSyntax | packages.NeedImports | packages.NeedDeps, Dir: *repo}
	pkgs, err := packages.Load(cfg, "./...")
	if err != nil {
		fmt.Fprintln(os.Stderr, err)
		os.Exit(2)
	}
	var out []string
	for _, p := range pkgs {
		if strings.Contains(p.PkgPath, "/internal") {
			continue
		}
		short := strings.TrimPrefix(p.PkgPath, "github.com/oasisprotocol/curve25519-voi/")
		sc := p.Types.Scope()
		emit := func(recv string, f *types.Func) {
			if !f.Exported() {
				return
			}
			sig := f.Type().(*types.Signature)
			var kinds []string
			if r := sig.Recv(); r != nil {
				if k := byteKind(r.Type(), 0); k != "" && k != "string" {
					kinds = append(kinds, "recv:"+k)
				}
			}
			for i := 0; i < sig.Params().Len(); i++ {
				v := sig.Params().At(i)
				k := byteKind(v.Type(), 0)
				if k == "" || (k == "string" && !*withStrings) {
					continue
				}
				kinds = append(kinds, v.Name()+":"+k)
			}
			if len(kinds) == 0 {
				return
			}
			name := short + "." + f.Name()
			if recv != "" {
				name = short + "." + recv + "." + f.Name()
			}
			out = append(out, name+" "+strings.Join(kinds, ","))
		}
		for _, n := range sc.Names() {
			o := sc.Lookup(n)
			switch o := o.(type) {
			case *types.Func:
				emit("", o)
			case *types.TypeName:
				if !o.Exported() {
					continue
				}
				// methods with value and pointer receivers; interface methods
				if it, ok := o.Type().Underlying().(*types.Interface); ok {
					for i := 0; i < it.NumMethods(); i++ {
						emit(o.Name(), it.Method(i))
					}
					continue
				}
				ms := types.NewMethodSet(types.NewPointer(o.Type()))
				for i := 0; i < ms.Len(); i++ {
					if f, ok := ms.At(i).Obj().(*types.Func); ok {
						// skip methods promoted from embedded fields of other packages
						if f.Pkg() != p.Types {
							continue
						}
						emit(o.Name(), f)
					}
				}
			}
		}
	}
	sort.Strings(out)
	var uniq []string
	for i, l := range out {
		if i == 0 || l != out[i-1] {
			uniq = append(uniq, l)
		}
	}
	if *check == "" {
		for _, l := range uniq {
			fmt.Println(l)
		}
		return
	}
	cov, err := coverageTable(*check)
	if err != nil {
		fmt.Fprintln(os.Stderr, err)
		os.Exit(2)
	}
	bad, covered, skipped := 0, 0, 0
	listed := map[string]bool{}
	for _, l := range uniq {
		name := strings.SplitN(l, " ", 2)[0]
		listed[name] = true
		v, ok := cov[name]
		switch {
		case !ok:
			fmt.Println("NOT COVERED:", l)
			bad++
		case strings.HasPrefix(v, "skip:"):
			skipped++
		default:
			covered++
		}
	}
	for k := range cov {
		if !listed[k] {
			fmt.Println("STALE ENTRY (no such exported byte-taking function):", k)
			bad++
		}
	}
	fmt.Printf("apilist: %d exported byte-taking functions, %d exercised by P1, %d skipped with a reason, %d problems\n", len(uniq), covered, skipped, bad)
	if bad > 0 {
		os.Exit(1)
	}
}

// coverageTable extracts the string->string composite literal assigned to `p1Coverage`.
func coverageTable(file string) (map[string]string, error) {
	fset := token.NewFileSet()
	f, err := parser.ParseFile(fset, file, nil, 0)
	if err != nil {
		return nil, err
	}
	out := map[string]string{}
	found := false
	ast.Inspect(f, func(n ast.Node) bool {
		vs, ok := n.(*ast.ValueSpec)
		if !ok || len(vs.Names) != 1 || vs.Names[0].Name != "p1Coverage" || len(vs.Values) != 1 {
			return true
		}
		cl, ok := vs.Values[0].(*ast.CompositeLit)
		if !ok {
			return true
		}
		found = true
		for _, e := range cl.Elts {
			kv := e.(*ast.KeyValueExpr)
			k, _ := strconv.Unquote(kv.Key.(*ast.BasicLit).Value)
			v, _ := strconv.Unquote(kv.Value.(*ast.BasicLit).Value)
			out[k] = v
		}
		return false
	})
	if !found {
		return nil, fmt.Errorf("no p1Coverage table in %s", file)
	}
	return out, nil
}
