// Field-level mode (-flevel): the same go/ssa interpreter, but values of type internal/field.Element are ABSTRACT.
//
// An Element in memory keeps its real shape (a struct holding a limb array); in field-level mode limb 0 holds a
// handle FldV{id} of a node of the field-level program and the remaining limbs hold FldPad{}.  Struct copies (`*fe = *t`)
// therefore move handles around for free.  The LEAF operations of internal/field (the functions whose bodies touch limbs)
// are not interpreted: each becomes one field-level instruction.  Their limb-level bodies are the business of the L0
// obligations (IR_Field*), which establish exactly the contracts that the field-level instructions are given in
// Voi/FIR (value modulo p, limb bounds).  Everything above the leaves (curve/models.go, edwards.go, montgomery.go,
// the addition chains of field.go, ...) is interpreted as usual, so the emitted program is what the code does.
//
// Any limb-level access to an abstract Element by non-leaf code hits FldV / FldPad in an arithmetic instruction and makes
// the translation fail (never a silent mis-translation).
package main

import (
	"fmt"
	"go/token"
	"go/types"
	"math/big"
	"os"
	"path/filepath"
	"runtime/debug"
	"sort"
	"strings"

	"golang.org/x/tools/go/ssa"
)

type FldV struct{ id int }
type FldPad struct{}
type BoolF struct{ id int } // 0/1 integer produced by a field predicate (Equal, IsNegative, IsZero) or a symbolic choice

type ByteV struct{ id, i int }       // byte i of the 32-byte string node id
type Bit7 struct{ id int }           // (predicate node id) << 7, as a byte
type CondF struct {                  // a Go bool: (node id != 0) != neg
	id  int
	neg bool
}
type fdec struct {
	id     int
	neg, d bool
	segEnd int
}

type FOp struct {
	kind    string
	a, b, c int
	k       int
	n       *big.Int
	limbs   []*big.Int
}

type FEmitter struct {
	ops     []FOp
	nin     int
	inKinds []string // "fe" | "bool"
	consts  map[string]int
	summ    map[string]bool
	// branches on predicate values (decision-tree mode, like forkMode of the limb level)
	script    []bool
	decisions []fdec
	root      map[int]int // bytes node -> the node it was derived from by changing bit 255 only
}

func (e *FEmitter) rootOf(id int) int {
	for {
		r, ok := e.root[id]
		if !ok {
			return id
		}
		id = r
	}
}

// freadBytes: the 32-byte string node held by 32 byte cells
func (in *Interp) freadBytes(cells []*Cell) int {
	if len(cells) != 32 {
		fail("field-level: byte string of %d bytes (in %s)", len(cells), in.curFn)
	}
	if _, conc := cells[0].val.(Conc); conc {
		v := new(big.Int)
		for i, c := range cells {
			cv, ok := c.val.(Conc)
			if !ok {
				fail("field-level: byte string partly symbolic (in %s)", in.curFn)
			}
			v.Add(v, new(big.Int).Lsh(cv.v, uint(8*i)))
		}
		return in.fl.emit(FOp{kind: "bytesConst", n: v})
	}
	top, ok := cells[31].val.(ByteV)
	if !ok || top.i != 31 {
		fail("field-level: byte 31 of a byte string is %T (in %s)", cells[31].val, in.curFn)
	}
	r := in.fl.rootOf(top.id)
	for i, c := range cells[:31] {
		b, ok := c.val.(ByteV)
		if !ok || b.i != i || in.fl.rootOf(b.id) != r {
			fail("field-level: byte string assembled from different values (in %s)", in.curFn)
		}
	}
	return top.id
}

func (in *Interp) fwriteBytes(cells []*Cell, id int) {
	if len(cells) != 32 {
		fail("field-level: byte string of %d bytes (in %s)", len(cells), in.curFn)
	}
	for i, c := range cells {
		c.val = ByteV{id, i}
	}
}

func sliceCells(v Value, what string) []*Cell {
	s, ok := v.(SliceV)
	if !ok {
		fail("field-level: %s is %T, not a byte slice", what, v)
	}
	return s.cells
}

func (e *FEmitter) emit(o FOp) int {
	e.ops = append(e.ops, o)
	return e.nin + len(e.ops) - 1
}

var p25519 = new(big.Int).Sub(new(big.Int).Lsh(big.NewInt(1), 255), big.NewInt(19))

func isElem(t types.Type) bool {
	n, ok := t.(*types.Named)
	if !ok {
		return false
	}
	o := n.Obj()
	return o.Name() == "Element" && o.Pkg() != nil && o.Pkg().Path() == modulePath+"/internal/field"
}

func elemCells(c *Cell, f func(*Cell)) {
	if isElem(c.typ) {
		f(c)
		return
	}
	for _, k := range c.kids {
		elemCells(k, f)
	}
}

func limbCells(c *Cell) []*Cell {
	var ls []*Cell
	leaves(c, func(l *Cell) {
		if b, ok := l.typ.Underlying().(*types.Basic); ok && b.Info()&types.IsInteger != 0 {
			ls = append(ls, l)
		}
	})
	return ls
}

// fread returns the field-level node held by an Element cell (concrete limbs become a constant node).
func (in *Interp) fread(c *Cell) int {
	ls := limbCells(c)
	if len(ls) != 5 && len(ls) != 10 {
		fail("field-level: Element with %d limbs", len(ls))
	}
	if f, ok := ls[0].val.(FldV); ok {
		for _, l := range ls[1:] {
			if _, ok := l.val.(FldPad); !ok {
				fail("field-level: Element partially overwritten at limb level (in %s)", in.curFn)
			}
		}
		return f.id
	}
	var limbs []*big.Int
	for _, l := range ls {
		cv, ok := l.val.(Conc)
		if !ok {
			fail("field-level: Element limb is %T (in %s)", l.val, in.curFn)
		}
		limbs = append(limbs, cv.v)
	}
	v := new(big.Int)
	if len(limbs) == 5 {
		for i, l := range limbs {
			v.Add(v, new(big.Int).Lsh(l, uint(51*i)))
		}
	} else {
		sh := 0
		for i, l := range limbs {
			v.Add(v, new(big.Int).Lsh(l, uint(sh)))
			if i%2 == 0 {
				sh += 26
			} else {
				sh += 25
			}
		}
	}
	v.Mod(v, p25519)
	key := v.String()
	for _, l := range limbs {
		key += "," + l.String()
	}
	if id, ok := in.fl.consts[key]; ok {
		return id
	}
	id := in.fl.emit(FOp{kind: "const", n: v, limbs: limbs})
	in.fl.consts[key] = id
	return id
}

func (in *Interp) fwrite(c *Cell, id int) {
	ls := limbCells(c)
	for i, l := range ls {
		if i == 0 {
			l.val = FldV{id}
		} else {
			l.val = FldPad{}
		}
	}
}

func elemPtr(v Value, what string) *Cell {
	p, ok := v.(PtrV)
	if !ok || !isElem(p.c.typ) {
		fail("field-level: %s is not a *field.Element (%T)", what, v)
	}
	return p.c
}

// choice operands: Conc 0/1 or BoolF
func (in *Interp) fchoice(v Value) (conc int, id int) {
	switch x := v.(type) {
	case Conc:
		if x.v.Sign() == 0 {
			return 0, -1
		}
		if x.v.Cmp(big.NewInt(1)) == 0 {
			return 1, -1
		}
		fail("field-level: choice %s is neither 0 nor 1", x.v)
	case BoolF:
		return -1, x.id
	}
	fail("field-level: choice is %T (in %s)", v, in.curFn)
	return
}

// fcall intercepts the leaf operations of internal/field.
func (in *Interp) fcall(fn *ssa.Function, args []Value) (Value, bool) {
	if fn.Pkg != nil && fn.Pkg.Pkg.Path() == modulePath+"/internal/subtle" && fn.Name() == "ConstantTimeCompareBytes" {
		a, b := sliceCells(args[0], "argument"), sliceCells(args[1], "argument")
		_, ca := a[0].val.(Conc)
		_, cb := b[0].val.(Conc)
		if len(a) == 32 && len(b) == 32 && !(ca && cb) {
			return BoolF{in.fl.emit(FOp{kind: "bytesEq", a: in.freadBytes(a), b: in.freadBytes(b)})}, true
		}
		return nil, false
	}
	if fn.Pkg == nil || fn.Pkg.Pkg.Path() != modulePath+"/internal/field" {
		return nil, false
	}
	fl := in.fl
	name := fn.Name()
	recv := fn.Signature.Recv()
	if recv == nil {
		switch name {
		case "feMul":
			a, b := in.fread(elemPtr(args[1], "arg")), in.fread(elemPtr(args[2], "arg"))
			in.fwrite(elemPtr(args[0], "out"), fl.emit(FOp{kind: "mul", a: a, b: b}))
			return nil, true
		case "BatchInvert":
			if fl.summ[name] {
				fail("field-level: BatchInvert cannot be summarised")
			}
		}
		return nil, false
	}
	if pt, ok := recv.Type().(*types.Pointer); !ok || !isElem(pt.Elem()) {
		return nil, false
	}
	bin := func(kind string) (Value, bool) {
		a, b := in.fread(elemPtr(args[1], "arg")), in.fread(elemPtr(args[2], "arg"))
		in.fwrite(elemPtr(args[0], "receiver"), fl.emit(FOp{kind: kind, a: a, b: b}))
		return args[0], true
	}
	un := func(kind string) (Value, bool) {
		a := in.fread(elemPtr(args[1], "arg"))
		in.fwrite(elemPtr(args[0], "receiver"), fl.emit(FOp{kind: kind, a: a}))
		return args[0], true
	}
	sel := func(dst *Cell, a, b int, choice Value) {
		// choice = 0 -> a, choice = 1 -> b
		c, id := in.fchoice(choice)
		switch c {
		case 0:
			in.fwrite(dst, a)
		case 1:
			in.fwrite(dst, b)
		default:
			in.fwrite(dst, fl.emit(FOp{kind: "sel", c: id, a: a, b: b}))
		}
	}
	switch name {
	case "Add":
		return bin("add")
	case "Sub":
		return bin("sub")
	case "Mul":
		return bin("mul")
	case "Neg":
		return un("neg")
	case "Square":
		return un("sq")
	case "Square2":
		return un("sq2")
	case "Mul121666":
		return un("m121666")
	case "Pow2k":
		k, ok := args[2].(Conc)
		if !ok || k.v.Sign() <= 0 {
			fail("field-level: Pow2k with a non-constant or zero k")
		}
		a := in.fread(elemPtr(args[1], "arg"))
		in.fwrite(elemPtr(args[0], "receiver"), fl.emit(FOp{kind: "pow2k", a: a, k: int(k.v.Int64())}))
		return args[0], true
	case "ConditionalSelect":
		a, b := in.fread(elemPtr(args[1], "arg")), in.fread(elemPtr(args[2], "arg"))
		sel(elemPtr(args[0], "receiver"), a, b, args[3])
		return nil, true
	case "ConditionalAssign":
		dst := elemPtr(args[0], "receiver")
		a, b := in.fread(dst), in.fread(elemPtr(args[1], "arg"))
		sel(dst, a, b, args[2])
		return nil, true
	case "ConditionalSwap":
		x, y := elemPtr(args[0], "receiver"), elemPtr(args[1], "arg")
		a, b := in.fread(x), in.fread(y)
		sel(x, a, b, args[2])
		sel(y, b, a, args[2])
		return nil, true
	case "Equal":
		a, b := in.fread(elemPtr(args[0], "receiver")), in.fread(elemPtr(args[1], "arg"))
		return BoolF{fl.emit(FOp{kind: "eq", a: a, b: b})}, true
	case "IsNegative":
		return BoolF{fl.emit(FOp{kind: "isNeg", a: in.fread(elemPtr(args[0], "receiver"))})}, true
	case "IsZero":
		return BoolF{fl.emit(FOp{kind: "isZero", a: in.fread(elemPtr(args[0], "receiver"))})}, true
	case "Invert":
		if fl.summ[name] {
			return un("inv")
		}
	case "SqrtRatioI":
		if fl.summ[name] {
			u, v := in.fread(elemPtr(args[1], "arg")), in.fread(elemPtr(args[2], "arg"))
			in.fwrite(elemPtr(args[0], "receiver"), fl.emit(FOp{kind: "sqrtV", a: u, b: v}))
			ok := fl.emit(FOp{kind: "sqrtOk", a: u, b: v})
			return TupleV{[]Value{args[0], BoolF{ok}}}, true
		}
	case "SetBytes":
		cells := sliceCells(args[1], "argument of SetBytes")
		if len(cells) != 32 {
			return nil, false // the length error path is ordinary code
		}
		in.fwrite(elemPtr(args[0], "receiver"), fl.emit(FOp{kind: "fromBytes", a: in.freadBytes(cells)}))
		return TupleV{[]Value{args[0], NilV{}}}, true
	case "ToBytes":
		cells := sliceCells(args[1], "argument of ToBytes")
		if len(cells) != 32 {
			return nil, false
		}
		in.fwriteBytes(cells, fl.emit(FOp{kind: "toBytes", a: in.fread(elemPtr(args[0], "receiver"))}))
		return NilV{}, true
	case "SetBytesWide", "reduce", "UnsafeInner":
		fail("field-level: %s is not modelled at field level", name)
	}
	return nil, false
}

// fbinop: integer operations on predicate results.
func (in *Interp) fbinop(op token.Token, x, y Value) (Value, bool) {
	// bytes of encodings: the sign bit of an encoding (b[31] >> 7), and b[31] ^= sign << 7
	if bv, ok := x.(ByteV); ok {
		if c, isC := y.(Conc); isC && op == token.SHR && bv.i == 31 && c.v.Cmp(big.NewInt(7)) == 0 {
			return BoolF{in.fl.emit(FOp{kind: "topBit", a: bv.id})}, true
		}
		if b7, is7 := y.(Bit7); is7 && op == token.XOR && bv.i == 31 {
			id := in.fl.emit(FOp{kind: "xorTop", a: bv.id, b: b7.id})
			in.fl.root[id] = bv.id
			return ByteV{id, 31}, true
		}
		fail("field-level: %s on a byte of an encoding (in %s)", op, in.curFn)
	}
	if _, ok := y.(ByteV); ok {
		fail("field-level: %s on a byte of an encoding (in %s)", op, in.curFn)
	}
	if b, ok := x.(BoolF); ok && op == token.SHL {
		if c, isC := y.(Conc); isC && c.v.Cmp(big.NewInt(7)) == 0 {
			return Bit7{b.id}, true
		}
	}
	if b, ok := x.(BoolF); ok && (op == token.EQL || op == token.NEQ) {
		if c, isC := y.(Conc); isC && (c.v.Sign() == 0 || c.v.Cmp(big.NewInt(1)) == 0) {
			// (b == 1), (b != 0): true iff b != 0;  (b == 0), (b != 1): true iff b == 0
			pos := (op == token.EQL) == (c.v.Sign() != 0)
			return CondF{b.id, !pos}, true
		}
	}
	if cx, ok := x.(CondF); ok && (op == token.EQL || op == token.NEQ) {
		if c, isC := y.(Conc); isC {
			same := (op == token.EQL) == (c.v.Sign() != 0)
			return CondF{cx.id, cx.neg != !same}, true
		}
	}
	bx, okx := x.(BoolF)
	by, oky := y.(BoolF)
	if !okx && !oky {
		if _, p := x.(FldV); p {
			fail("field-level: limb arithmetic on an abstract Element (in %s)", in.curFn)
		}
		if _, p := x.(FldPad); p {
			fail("field-level: limb arithmetic on an abstract Element (in %s)", in.curFn)
		}
		if _, p := y.(FldV); p {
			fail("field-level: limb arithmetic on an abstract Element (in %s)", in.curFn)
		}
		if _, p := y.(FldPad); p {
			fail("field-level: limb arithmetic on an abstract Element (in %s)", in.curFn)
		}
		return nil, false
	}
	fl := in.fl
	id := func(v Value, ok bool, b BoolF) int {
		if ok {
			return b.id
		}
		c, isC := v.(Conc)
		if !isC || (c.v.Sign() != 0 && c.v.Cmp(big.NewInt(1)) != 0) {
			fail("field-level: %s of a predicate result and %T (in %s)", op, v, in.curFn)
		}
		return fl.emit(FOp{kind: "bconst", n: c.v})
	}
	a, b := id(x, okx, bx), id(y, oky, by)
	switch op {
	case token.OR:
		return BoolF{fl.emit(FOp{kind: "bor", a: a, b: b})}, true
	case token.AND:
		return BoolF{fl.emit(FOp{kind: "band", a: a, b: b})}, true
	case token.XOR:
		return BoolF{fl.emit(FOp{kind: "bxor", a: a, b: b})}, true
	}
	fail("field-level: %s on a predicate result (a branch or comparison on a value derived from field elements; in %s)", op, in.curFn)
	return nil, false
}

type FTarget struct {
	Name      string   `json:"name"`
	Group     string   `json:"group"`
	Pkg       string   `json:"pkg"`
	Tags      string   `json:"tags"`
	Fn        string   `json:"fn"`
	Args      []string `json:"args"` // in | out | inout (pointer to a value containing Elements) | bool (0/1 int) | const:<n>
	Ret       string   `json:"ret"`  // "" | "out"
	Summarise []string `json:"summarise"`
}

type FResult struct {
	Wrap    string
	T       FTarget
	Ops     []FOp
	Nin     int
	InKinds []string // "fe" | "bool" | "ybytes"
	Outs    []int
	NLimbs  int
	Err     string
	Tree    *FNode // non-nil when the function branches on predicate values
	HasErr  bool   // the function returns an error value
}

// FNode: run Ops, then branch on predicate value Cond (then-branch iff (value != 0) != Neg), or stop: Ok = the function
// returned a nil error (or has no error result), Outs = its outputs (empty on an error leaf).
type FNode struct {
	Ops  []FOp
	Cond int
	Neg  bool
	T, E *FNode
	Leaf bool
	Ok   bool
	Outs []int
}

func isBytes32(t types.Type) bool {
	a, ok := t.Underlying().(*types.Array)
	if !ok || a.Len() != 32 {
		return false
	}
	b, ok := a.Elem().Underlying().(*types.Basic)
	return ok && b.Kind() == types.Uint8
}

func objCells(c *Cell, fe func(*Cell), by func(*Cell)) {
	if isElem(c.typ) {
		fe(c)
		return
	}
	if isBytes32(c.typ) {
		by(c)
		return
	}
	for _, k := range c.kids {
		objCells(k, fe, by)
	}
}

type fpanicLeaf struct{}

type frunRes struct {
	panicked  bool
	ops       []FOp
	nin       int
	inKinds   []string
	outs      []int
	ok        bool
	hasErr    bool
	decisions []fdec
	nlimbs    int
	wrap      string
}

// frun: one execution of the target following `script` at branches on predicate values
func frun(prog *ssa.Program, pkg *ssa.Package, globals map[*ssa.Global]*Cell, t FTarget, script []bool) (res frunRes) {
	fn := findFunc(pkg, t.Fn)
	if fn == nil {
		fail("function %s not found in %s", t.Fn, t.Pkg)
	}
	fl := &FEmitter{consts: map[string]int{}, summ: map[string]bool{}, script: script, root: map[int]int{}}
	for _, s := range t.Summarise {
		fl.summ[s] = true
	}
	in := &Interp{prog: prog, em: &Emitter{consts: map[string]int{}}, globals: globals, declass: map[string]bool{}, fl: fl,
		initComplete: func() bool { v, _ := initCompleteByProg.Load(prog); b, _ := v.(bool); return b }()}
	if len(t.Args) != len(fn.Params) {
		fail("target %s: %d arg specs for %d parameters", t.Name, len(t.Args), len(fn.Params))
	}
	var args []Value
	var outCells []*Cell
	for i, spec := range t.Args {
		pt := fn.Params[i].Type()
		kind, param := spec, ""
		if j := strings.Index(spec, ":"); j >= 0 {
			kind, param = spec[:j], spec[j+1:]
		}
		switch kind {
		case "in", "out", "inout":
			p, ok := pt.Underlying().(*types.Pointer)
			if !ok {
				fail("arg %d of %s is not a pointer", i, t.Name)
			}
			c := newCell(p.Elem())
			objCells(c, func(e *Cell) {
				res.nlimbs = len(limbCells(e))
				if kind != "out" {
					in.fwrite(e, fl.nin)
					fl.nin++
					fl.inKinds = append(fl.inKinds, "fe")
				}
				if kind != "in" {
					outCells = append(outCells, e)
				}
			}, func(e *Cell) {
				if kind != "out" {
					in.fwriteBytes(e.kids, fl.nin)
					fl.nin++
					fl.inKinds = append(fl.inKinds, "ybytes")
				}
				if kind != "in" {
					outCells = append(outCells, e)
				}
			})
			args = append(args, PtrV{c})
		case "bool":
			args = append(args, BoolF{fl.nin})
			fl.nin++
			fl.inKinds = append(fl.inKinds, "bool")
		case "const":
			bi, ok := new(big.Int).SetString(param, 10)
			if !ok {
				fail("bad const %s", param)
			}
			n, _ := width(pt)
			args = append(args, Conc{norm(bi, n)})
		default:
			fail("unknown field-level arg spec %q", spec)
		}
	}
	res.wrap = fgenWrap(fn, t)
	if len(fl.ops) != 0 {
		fail("internal: ops emitted before inputs were numbered")
	}
	var ret Value
	func() {
		defer func() {
			if e := recover(); e != nil {
				if _, ok := e.(fpanicLeaf); ok {
					res.panicked = true
					return
				}
				panic(e)
			}
		}()
		ret = in.call(fn, args, nil)
	}()
	res.ok = true
	if res.panicked {
		// the function panics on this path: a leaf that returns the empty output list
		res.ops, res.nin, res.inKinds, res.decisions = fl.ops, fl.nin, fl.inKinds, fl.decisions
		return
	}
	var retOuts []int
	rs := fn.Signature.Results()
	var walk func(v Value, ty types.Type)
	walk = func(v Value, ty types.Type) {
		if isElem(ty) {
			c := newCell(ty)
			c.store(v)
			retOuts = append(retOuts, in.fread(c))
			return
		}
		if isBytes32(ty) {
			c := newCell(ty)
			c.store(v)
			retOuts = append(retOuts, in.freadBytes(c.kids))
			return
		}
		if n, ok := ty.(*types.Named); ok && n.Obj().Name() == "error" && n.Obj().Pkg() == nil {
			res.hasErr = true
			if _, isNil := v.(NilV); !isNil {
				res.ok = false
			}
			return
		}
		switch u := ty.Underlying().(type) {
		case *types.Pointer:
			if p, ok := v.(PtrV); ok && t.Ret == "out" {
				objCells(p.c, func(e *Cell) { retOuts = append(retOuts, in.fread(e)) }, func(e *Cell) { retOuts = append(retOuts, in.freadBytes(e.kids)) })
			}
		case *types.Array:
			for _, e := range v.(AggV).elems {
				walk(e, u.Elem())
			}
		case *types.Struct:
			for i, e := range v.(AggV).elems {
				walk(e, u.Field(i).Type())
			}
		case *types.Tuple:
			for i, e := range v.(TupleV).elems {
				walk(e, u.At(i).Type())
			}
		case *types.Basic:
			if t.Ret != "out" {
				return
			}
			switch b := v.(type) {
			case BoolF:
				retOuts = append(retOuts, b.id)
			case CondF:
				if b.neg {
					one := fl.emit(FOp{kind: "bconst", n: big.NewInt(1)})
					retOuts = append(retOuts, fl.emit(FOp{kind: "bxor", a: b.id, b: one}))
				} else {
					retOuts = append(retOuts, b.id)
				}
			case Conc:
				retOuts = append(retOuts, fl.emit(FOp{kind: "bconst", n: b.v}))
			default:
				fail("field-level: result of type %s is %T", ty, v)
			}
		}
	}
	// the error result first: on an error leaf nothing else is read
	if rs.Len() > 0 {
		last := rs.At(rs.Len() - 1).Type()
		if n, ok := last.(*types.Named); ok && n.Obj().Name() == "error" && n.Obj().Pkg() == nil {
			var ev Value = ret
			if rs.Len() > 1 {
				ev = ret.(TupleV).elems[rs.Len()-1]
			}
			walk(ev, last)
		}
	}
	if res.ok {
		for _, c := range outCells {
			if isElem(c.typ) {
				res.outs = append(res.outs, in.fread(c))
			} else {
				res.outs = append(res.outs, in.freadBytes(c.kids))
			}
		}
		if rs.Len() == 1 {
			walk(ret, rs.At(0).Type())
		} else if rs.Len() > 1 {
			for i := 0; i < rs.Len(); i++ {
				walk(ret.(TupleV).elems[i], rs.At(i).Type())
			}
		}
		res.outs = append(res.outs, retOuts...)
	}
	res.ops, res.nin, res.inKinds, res.decisions = fl.ops, fl.nin, fl.inKinds, fl.decisions
	return
}

func ftranslate(prog *ssa.Program, pkg *ssa.Package, globals map[*ssa.Global]*Cell, t FTarget) (res FResult) {
	res.T = t
	defer func() {
		if e := recover(); e != nil {
			if te, ok := e.(transErr); ok {
				res.Err = te.msg
				return
			}
			res.Err = fmt.Sprintf("internal error: %v", e)
			if os.Getenv("GO2IR_TRACE") != "" {
				fmt.Fprintf(os.Stderr, "go2ir: internal error in %s: %v\n%s\n", t.Name, e, debug.Stack())
			}
		}
	}()
	r := frun(prog, pkg, globals, t, nil)
	res.Wrap, res.Nin, res.InKinds, res.NLimbs, res.HasErr = r.wrap, r.nin, r.inKinds, r.nlimbs, r.hasErr
	if len(r.decisions) == 0 && r.ok {
		res.Ops, res.Outs = r.ops, r.outs
		return
	}
	nodes := 0
	var build func(prefix []bool, from int) *FNode
	build = func(prefix []bool, from int) *FNode {
		nodes++
		if nodes > 4096 {
			fail("field-level decision tree larger than 4096 nodes")
		}
		rr := frun(prog, pkg, globals, t, prefix)
		if len(rr.decisions) < len(prefix) {
			fail("internal: decisions are not reproducible")
		}
		if len(rr.decisions) == len(prefix) {
			return &FNode{Ops: rr.ops[from:], Leaf: true, Ok: rr.ok, Outs: rr.outs}
		}
		d := rr.decisions[len(prefix)]
		n := &FNode{Ops: rr.ops[from:d.segEnd], Cond: d.id, Neg: d.neg}
		n.T = build(append(append([]bool{}, prefix...), true), d.segEnd)
		n.E = build(append(append([]bool{}, prefix...), false), d.segEnd)
		return n
	}
	res.Tree = build(nil, 0)
	return
}

func fopLean(o FOp) string {
	switch o.kind {
	case "const":
		ls := make([]string, len(o.limbs))
		for i, l := range o.limbs {
			ls[i] = l.String()
		}
		return fmt.Sprintf(".const %s [%s]", o.n, strings.Join(ls, ", "))
	case "bconst":
		return fmt.Sprintf(".bconst %s", o.n)
	case "bytesConst":
		return fmt.Sprintf(".bytesConst %s", o.n)
	case "add", "sub", "mul", "eq", "bor", "band", "bxor", "sqrtV", "sqrtOk", "xorTop", "bytesEq":
		return fmt.Sprintf(".%s %d %d", o.kind, o.a, o.b)
	case "neg", "sq", "sq2", "m121666", "isNeg", "isZero", "inv", "fromBytes", "toBytes", "topBit":
		return fmt.Sprintf(".%s %d", o.kind, o.a)
	case "pow2k":
		return fmt.Sprintf(".pow2k %d %d", o.a, o.k)
	case "sel":
		return fmt.Sprintf(".sel %d %d %d", o.c, o.a, o.b)
	}
	panic("fopLean: " + o.kind)
}

// shallow rendering over Nat with the executable specification's field operations (Voi.Spec.Fp)
func fopShallow(o FOp) string {
	v := func(i int) string { return fmt.Sprintf("v%d", i) }
	switch o.kind {
	case "const":
		return o.n.String()
	case "bconst", "bytesConst":
		return o.n.String()
	case "fromBytes", "toBytes", "topBit":
		return fmt.Sprintf("FIR.%s %s", o.kind, v(o.a))
	case "xorTop", "bytesEq":
		return fmt.Sprintf("FIR.%s %s %s", o.kind, v(o.a), v(o.b))
	case "add", "sub", "mul":
		return fmt.Sprintf("Fp.%s %s %s", o.kind, v(o.a), v(o.b))
	case "neg", "sq", "inv":
		return fmt.Sprintf("Fp.%s %s", o.kind, v(o.a))
	case "sq2":
		return fmt.Sprintf("FIR.sq2 %s", v(o.a))
	case "m121666":
		return fmt.Sprintf("FIR.m121666 %s", v(o.a))
	case "pow2k":
		return fmt.Sprintf("FIR.pow2k %s %d", v(o.a), o.k)
	case "eq":
		return fmt.Sprintf("FIR.feq %s %s", v(o.a), v(o.b))
	case "isNeg":
		return fmt.Sprintf("FIR.fisNeg %s", v(o.a))
	case "isZero":
		return fmt.Sprintf("FIR.fisZero %s", v(o.a))
	case "bor", "band", "bxor":
		return fmt.Sprintf("FIR.%s %s %s", o.kind, v(o.a), v(o.b))
	case "sel":
		return fmt.Sprintf("FIR.sel %s %s %s", v(o.c), v(o.a), v(o.b))
	case "sqrtV":
		return fmt.Sprintf("FIR.sqrtV %s %s", v(o.a), v(o.b))
	case "sqrtOk":
		return fmt.Sprintf("FIR.sqrtOk %s %s", v(o.a), v(o.b))
	}
	panic("fopShallow: " + o.kind)
}

func ftreeLean(n *FNode, ind string) string {
	var ops []string
	for _, o := range n.Ops {
		ops = append(ops, fopLean(o))
	}
	os := "[" + strings.Join(ops, ", ") + "]"
	if n.Leaf {
		return fmt.Sprintf("%s.leaf %s %v %s", ind, os, n.Ok, intList(n.Outs))
	}
	return fmt.Sprintf("%s.node %s %d %v\n%s(\n%s)\n%s(\n%s)", ind, os, n.Cond, n.Neg, ind, ftreeLean(n.T, ind+" "), ind, ftreeLean(n.E, ind+" "))
}

func ftreeTxt(n *FNode) string {
	var ops []string
	for _, o := range n.Ops {
		ops = append(ops, fopTxt(o))
	}
	os := strings.Join(ops, " ; ")
	if n.Leaf {
		ok := "err"
		if n.Ok {
			ok = "ok"
		}
		outs := strings.Trim(strings.ReplaceAll(intList(n.Outs), " ", ""), "[]")
		if outs == "" {
			outs = "-"
		}
		return fmt.Sprintf("( L %s | %s %s )", os, ok, outs)
	}
	neg := 0
	if n.Neg {
		neg = 1
	}
	return fmt.Sprintf("( N %s | %d %d %s %s )", os, n.Cond, neg, ftreeTxt(n.T), ftreeTxt(n.E))
}

// shallow rendering of a tree: nested lets and ifs, `none` on an error leaf
func ftreeShallow(n *FNode, next int, ind string) string {
	var sb strings.Builder
	for _, o := range n.Ops {
		fmt.Fprintf(&sb, "%slet v%d := %s\n", ind, next, fopShallow(o))
		next++
	}
	if n.Leaf {
		if !n.Ok {
			fmt.Fprintf(&sb, "%snone\n", ind)
			return sb.String()
		}
		outs := make([]string, len(n.Outs))
		for i, o := range n.Outs {
			outs[i] = fmt.Sprintf("v%d", o)
		}
		fmt.Fprintf(&sb, "%ssome [%s]\n", ind, strings.Join(outs, ", "))
		return sb.String()
	}
	fmt.Fprintf(&sb, "%sif FIR.cond v%d %v then\n%s%selse\n%s", ind, n.Cond, n.Neg, ftreeShallow(n.T, next, ind+"  "), ind, ftreeShallow(n.E, next, ind+"  "))
	return sb.String()
}

func fopTxt(o FOp) string { return strings.TrimPrefix(strings.NewReplacer("[", "", "]", "", ",", "").Replace(fopLean(o)), ".") }

// fgenWrap: Go source of a closure that runs the REAL function on field elements given as 32-byte strings (stream T2)
func fgenWrap(fn *ssa.Function, t FTarget) string {
	var sb strings.Builder
	q := func(ty types.Type) string {
		return types.TypeString(ty, func(p *types.Package) string {
			if p == fn.Pkg.Pkg {
				return ""
			}
			return p.Name()
		})
	}
	fmt.Fprintf(&sb, "\tverifFL[%q] = func(in [][]byte, bools []int) (out [][]byte, bout []int, failed bool) {\n", t.Group+"."+t.Name)
	var callArgs, post []string
	for i, spec := range t.Args {
		pt := fn.Params[i].Type()
		kind, param := spec, ""
		if j := strings.Index(spec, ":"); j >= 0 {
			kind, param = spec[:j], spec[j+1:]
		}
		v := fmt.Sprintf("a%d", i)
		switch kind {
		case "in", "out", "inout":
			el := pt.Underlying().(*types.Pointer).Elem()
			fmt.Fprintf(&sb, "\t\tvar %s %s\n", v, q(el))
			if kind != "out" {
				fmt.Fprintf(&sb, "\t\tin = verifFLFill(&%s, in)\n", v)
			}
			if kind != "in" {
				post = append(post, fmt.Sprintf("\t\tout, bout = verifFLRead(&%s, out, bout)\n", v))
			}
			callArgs = append(callArgs, "&"+v)
		case "bool":
			fmt.Fprintf(&sb, "\t\t%s := %s(bools[0])\n\t\tbools = bools[1:]\n", v, q(pt))
			callArgs = append(callArgs, v)
		case "const":
			callArgs = append(callArgs, fmt.Sprintf("%s(%s)", q(pt), param))
		}
	}
	call := ""
	if fn.Signature.Recv() != nil {
		call = fmt.Sprintf("(%s).%s(%s)", callArgs[0], fn.Name(), strings.Join(callArgs[1:], ", "))
	} else {
		call = fmt.Sprintf("%s(%s)", fn.Name(), strings.Join(callArgs, ", "))
	}
	nres := fn.Signature.Results().Len()
	if nres > 0 {
		rs := make([]string, nres)
		var pre []string
		for i := range rs {
			rs[i] = fmt.Sprintf("r%d", i)
			rt := fn.Signature.Results().At(i).Type()
			if n, ok := rt.(*types.Named); ok && n.Obj().Name() == "error" && n.Obj().Pkg() == nil {
				pre = append(pre, fmt.Sprintf("\t\tif r%d != nil {\n\t\t\treturn nil, nil, true\n\t\t}\n", i))
			} else if t.Ret == "out" {
				post = append(post, fmt.Sprintf("\t\tout, bout = verifFLRead(&r%d, out, bout)\n", i))
			} else {
				pre = append(pre, fmt.Sprintf("\t\t_ = r%d\n", i))
			}
		}
		fmt.Fprintf(&sb, "\t\t%s := %s\n", strings.Join(rs, ", "), call)
		post = append(pre, post...)
	} else {
		fmt.Fprintf(&sb, "\t\t%s\n", call)
	}
	for _, l := range post {
		sb.WriteString(l)
	}
	sb.WriteString("\t\t_, _ = in, bools\n\t\treturn out, bout, false\n\t}\n")
	return sb.String()
}

func frender(results []FResult, leanDir, txt, gowrap string) int {
	exit := 0
	if leanDir != "" {
		os.MkdirAll(leanDir, 0o755)
		old, _ := filepath.Glob(filepath.Join(leanDir, "FL_*.lean"))
		for _, f := range old {
			os.Remove(f)
		}
	}
	sort.SliceStable(results, func(i, j int) bool {
		if results[i].T.Group != results[j].T.Group {
			return results[i].T.Group < results[j].T.Group
		}
		return results[i].T.Name < results[j].T.Name
	})
	var txtb strings.Builder
	for _, r := range results {
		var sb strings.Builder
		g := r.T.Group
		fmt.Fprintf(&sb, "/- GENERATED by go2ir -flevel from %s (%s, tags %q) — do not edit, never committed -/\nimport Voi.FIR.Basic\nnamespace Voi.Gen.%s\nopen Voi.FIR Voi.Spec\n\n", r.T.Pkg, r.T.Fn, r.T.Tags, g)
		if r.Err != "" {
			fmt.Fprintf(&sb, "def %s_untranslatable : String := %q\n", r.T.Name, r.Err)
			fmt.Fprintf(os.Stderr, "go2ir: %s.%s: UNTRANSLATABLE: %s\n", g, r.T.Name, r.Err)
			exit = 1
		} else {
			kinds := make([]string, len(r.InKinds))
			for i, k := range r.InKinds {
				kinds[i] = map[string]string{"fe": "true", "bool": "false", "ybytes": "false"}[k]
			}
			fmt.Fprintf(&sb, "def %s_nin : Nat := %d\n", r.T.Name, r.Nin)
			fmt.Fprintf(&sb, "def %s_nlimbs : Nat := %d\n", r.T.Name, r.NLimbs)
			fmt.Fprintf(&sb, "def %s_inFe : List Bool := [%s]\n", r.T.Name, strings.Join(kinds, ", "))
			kindStr0 := ""
			for _, k := range r.InKinds {
				kindStr0 += k[:1]
			}
			fmt.Fprintf(&sb, "def %s_inKinds : String := %q\n", r.T.Name, kindStr0)
			if r.Tree != nil {
				fmt.Fprintf(&sb, "def %s_tree : FTree :=\n%s\n\n", r.T.Name, ftreeLean(r.Tree, " "))
				sb.WriteString("/-- the same tree as an ordinary Lean function (`none` = the function returned an error) -/\n")
				fmt.Fprintf(&sb, "def %s_tsh", r.T.Name)
				if r.Nin > 0 {
					sb.WriteString(" (")
					for i := 0; i < r.Nin; i++ {
						fmt.Fprintf(&sb, "v%d ", i)
					}
					sb.WriteString(": Nat)")
				}
				sb.WriteString(" : Option (List Nat) :=\n")
				sb.WriteString(ftreeShallow(r.Tree, r.Nin, "  "))
				var ins0, ins1 []string
				for i, k := range r.InKinds {
					for s, dst := range []*[]string{&ins0, &ins1} {
						if k == "bool" {
							*dst = append(*dst, fmt.Sprint((s+i)%2))
						} else {
							x := new(big.Int).Exp(big.NewInt(int64(3+2*i+7*s)), big.NewInt(int64(97+i)), p25519)
							*dst = append(*dst, x.String())
						}
					}
				}
				fmt.Fprintf(&sb, "\n/-- deep tree and shallow function agree on two sample input vectors -/\ndef %s_linkSample : Bool :=\n  (%s_tree.eval [%s] == %s_tsh %s) &&\n  (%s_tree.eval [%s] == %s_tsh %s)\n",
					r.T.Name, r.T.Name, strings.Join(ins0, ", "), r.T.Name, strings.Join(ins0, " "), r.T.Name, strings.Join(ins1, ", "), r.T.Name, strings.Join(ins1, " "))
				fmt.Fprintf(&txtb, "ftree %s.%s %d %s %s\n", g, r.T.Name, r.Nin, kindStr0, ftreeTxt(r.Tree))
				fmt.Fprintf(&sb, "\nend Voi.Gen.%s\n", g)
				if leanDir != "" {
					if err := os.WriteFile(filepath.Join(leanDir, "FL_"+g+"_"+r.T.Name+".lean"), []byte(sb.String()), 0o644); err != nil {
						panic(err)
					}
				}
				continue
			}
			fmt.Fprintf(&sb, "def %s_outs : List Nat := %s\n", r.T.Name, intList(r.Outs))
			fmt.Fprintf(&sb, "def %s_prog : List FOp := [\n", r.T.Name)
			for i, o := range r.Ops {
				sep := ","
				if i == len(r.Ops)-1 {
					sep = ""
				}
				fmt.Fprintf(&sb, "  %s%s\n", fopLean(o), sep)
			}
			sb.WriteString("]\n\n/-- the same program as an ordinary Lean function over the executable field specification -/\n")
			fmt.Fprintf(&sb, "def %s_sh", r.T.Name)
			if r.Nin > 0 {
				sb.WriteString(" (")
				for i := 0; i < r.Nin; i++ {
					fmt.Fprintf(&sb, "v%d ", i)
				}
				sb.WriteString(": Nat)")
			}
			sb.WriteString(" : List Nat :=\n")
			for i, o := range r.Ops {
				fmt.Fprintf(&sb, "  let v%d := %s\n", r.Nin+i, fopShallow(o))
			}
			outs := make([]string, len(r.Outs))
			for i, o := range r.Outs {
				outs[i] = fmt.Sprintf("v%d", o)
			}
			fmt.Fprintf(&sb, "  [%s]\n", strings.Join(outs, ", "))
			// deep program and shallow function are rendered from the same op list; a kernel-evaluated agreement test on two
			// fixed input vectors guards the two renderers against each other (a test, not a proof)
			fmt.Fprintf(&sb, "\n/-- deep program and shallow function agree on two sample input vectors -/\ndef %s_linkSample : Bool :=\n", r.T.Name)
			for s := 0; s < 2; s++ {
				var ins []string
				for i, k := range r.InKinds {
					if k == "bool" {
						ins = append(ins, fmt.Sprint((s+i)%2))
					} else {
						x := new(big.Int).Exp(big.NewInt(int64(3+2*i+7*s)), big.NewInt(int64(97+i)), p25519)
						ins = append(ins, x.String())
					}
				}
				fmt.Fprintf(&sb, "  (exec %s_prog %s_outs [%s] == %s_sh %s)", r.T.Name, r.T.Name, strings.Join(ins, ", "), r.T.Name, strings.Join(ins, " "))
				if s == 0 {
					sb.WriteString(" &&\n")
				} else {
					sb.WriteString("\n")
				}
			}
			kindStr := "-"
			if len(r.InKinds) > 0 {
				kindStr = ""
				for _, k := range r.InKinds {
					kindStr += k[:1]
				}
			}
			fmt.Fprintf(&txtb, "fprog %s.%s %d %s %s", g, r.T.Name, r.Nin, kindStr, strings.Trim(strings.ReplaceAll(intList(r.Outs), " ", ""), "[]"))
			for _, o := range r.Ops {
				fmt.Fprintf(&txtb, " ; %s", fopTxt(o))
			}
			txtb.WriteString("\n")
		}
		fmt.Fprintf(&sb, "\nend Voi.Gen.%s\n", g)
		if leanDir != "" {
			if err := os.WriteFile(filepath.Join(leanDir, "FL_"+g+"_"+r.T.Name+".lean"), []byte(sb.String()), 0o644); err != nil {
				panic(err)
			}
		}
	}
	if gowrap != "" {
		filepath.Walk(gowrap, func(p string, fi os.FileInfo, err error) error {
			if err == nil && !fi.IsDir() && strings.HasPrefix(filepath.Base(p), "verif_fl_") {
				os.Remove(p)
			}
			return nil
		})
		type gk struct{ pkg, group string }
		by := map[gk][]FResult{}
		var order []gk
		for _, r := range results {
			k := gk{r.T.Pkg, r.T.Group}
			if _, ok := by[k]; !ok {
				order = append(order, k)
			}
			by[k] = append(by[k], r)
		}
		for _, k := range order {
			cons := "verif && !force32bit"
			if strings.Contains(by[k][0].T.Tags, "force32bit") {
				cons = "verif && force32bit"
			}
			var sb strings.Builder
			imp := ""
			if !strings.HasSuffix(k.pkg, "internal/field") {
				imp = "import \"" + modulePath + "/internal/field\"\n\nvar _ field.Element\n\n"
			}
			fmt.Fprintf(&sb, "// Code generated by go2ir -flevel; DO NOT EDIT.\n\n//go:build %s\n\npackage %s\n\n%sfunc init() {\n", cons, filepath.Base(k.pkg), imp)
			for _, r := range by[k] {
				if r.Err == "" {
					kinds := ""
					for _, kd := range r.InKinds {
						kinds += kd[:1]
					}
					fmt.Fprintf(&sb, "\tverifFLSig[%q] = %q\n", r.T.Group+"."+r.T.Name, kinds)
					sb.WriteString(r.Wrap)
				}
			}
			sb.WriteString("}\n")
			dir := filepath.Join(gowrap, k.pkg)
			os.MkdirAll(dir, 0o755)
			if err := os.WriteFile(filepath.Join(dir, "verif_fl_"+strings.ToLower(k.group)+".go"), []byte(sb.String()), 0o644); err != nil {
				panic(err)
			}
		}
	}
	if txt != "" {
		os.MkdirAll(filepath.Dir(txt), 0o755)
		if err := os.WriteFile(txt, []byte(txtb.String()), 0o644); err != nil {
			panic(err)
		}
	}
	return exit
}
