package main

// asm2ir: translate the straight-line amd64 assembly of internal/field/field_u64_amd64.s into the same IR as the Go
// translator.  Supported subset (everything the file uses): MOVQ, MULQ, IMUL3Q, ADDQ, ADCQ, SHLQ (2- and 3-operand),
// SHRQ, ANDQ, DECQ, JNZ, RET; operands: registers, $imm, off(REG) through a pointer argument, name+off(FP).
// Pointer arguments are modelled as 5-limb arrays (inputs symbolic for sources, outputs collected from the destination);
// the loop counter of fePow2k is concrete (public), so `DECQ/JNZ` is executed, not emitted.  Anything else: untranslatable.

import (
	"bufio"
	"fmt"
	"math/big"
	"os"
	"regexp"
	"strconv"
	"strings"
)

type asmPtr struct {
	arg string
	off int
}

type asmTarget struct {
	Name  string            // Lean name
	Group string            // Lean group
	File  string            // path under repo
	Text  string            // TEXT symbol
	In    []string          // pointer arguments whose 5 limbs are symbolic inputs (in order)
	Out   string            // pointer argument collected as output
	Ints  map[string]uint64 // concrete integer arguments
	Limbs int
}

func asmTranslate(repo string, t asmTarget) (res Result) {
	res.T = Target{Name: t.Name, Group: t.Group, Pkg: t.File, Fn: t.Text, Tags: "amd64 assembly"}
	defer func() {
		if e := recover(); e != nil {
			if te, ok := e.(transErr); ok {
				res.Err = te.msg
				return
			}
			res.Err = fmt.Sprintf("internal error: %v", e)
		}
	}()
	fh, err := os.Open(repo + "/" + t.File)
	if err != nil {
		fail("cannot open %s", t.File)
	}
	defer fh.Close()
	var lines []string
	in := false
	sc := bufio.NewScanner(fh)
	for sc.Scan() {
		l := sc.Text()
		if i := strings.Index(l, "//"); i >= 0 {
			l = l[:i]
		}
		l = strings.TrimSpace(l)
		if l == "" {
			continue
		}
		if strings.HasPrefix(l, "TEXT") {
			in = strings.HasPrefix(l, "TEXT ·"+t.Text+"(SB)")
			continue
		}
		if in {
			lines = append(lines, l)
		}
	}
	if len(lines) == 0 {
		fail("TEXT %s not found in %s", t.Text, t.File)
	}
	em := &Emitter{consts: map[string]int{}}
	mem := map[string][]Value{}
	for _, a := range t.In {
		for i := 0; i < t.Limbs; i++ {
			mem[a] = append(mem[a], SymV{em.nin})
			em.nin++
			res.InBits = append(res.InBits, 64)
		}
	}
	if _, ok := mem[t.Out]; !ok {
		for i := 0; i < t.Limbs; i++ {
			mem[t.Out] = append(mem[t.Out], Conc{big.NewInt(0)})
		}
	}
	regs := map[string]Value{}
	var cf Value = Conc{big.NewInt(0)}
	zf := false // only ever set by DECQ on a concrete counter
	labels := map[string]int{}
	for i, l := range lines {
		if strings.HasSuffix(l, ":") {
			labels[strings.TrimSuffix(l, ":")] = i
		}
	}
	id := func(v Value) int {
		switch x := v.(type) {
		case SymV:
			return x.id
		case Conc:
			return em.constant(x.v)
		}
		fail("asm: value %T used in arithmetic", v)
		return 0
	}
	memRe := regexp.MustCompile(`^(-?\d*)\(([A-Z0-9]+)\)$`)
	fpRe := regexp.MustCompile(`^([a-z_0-9]+)\+(\d+)\(FP\)$`)
	load := func(op string) Value {
		if strings.HasPrefix(op, "$") {
			n, err := strconv.ParseUint(strings.TrimPrefix(op, "$"), 0, 64)
			if err != nil {
				fail("asm: bad immediate %s", op)
			}
			return Conc{new(big.Int).SetUint64(n)}
		}
		if m := fpRe.FindStringSubmatch(op); m != nil {
			if v, ok := t.Ints[m[1]]; ok {
				return Conc{new(big.Int).SetUint64(v)}
			}
			return asmPtr{arg: m[1]}
		}
		if m := memRe.FindStringSubmatch(op); m != nil {
			p, ok := regs[m[2]].(asmPtr)
			if !ok {
				fail("asm: memory operand %s through a register that does not hold an argument pointer", op)
			}
			off := 0
			if m[1] != "" {
				off, _ = strconv.Atoi(m[1])
			}
			off += p.off
			if off%8 != 0 || off/8 >= len(mem[p.arg]) {
				fail("asm: access %s outside the %d-limb object %s", op, t.Limbs, p.arg)
			}
			return mem[p.arg][off/8]
		}
		v, ok := regs[op]
		if !ok {
			fail("asm: read of uninitialised register %s", op)
		}
		return v
	}
	store := func(op string, v Value) {
		if m := memRe.FindStringSubmatch(op); m != nil {
			p, ok := regs[m[2]].(asmPtr)
			if !ok {
				fail("asm: store through a non-pointer register in %s", op)
			}
			off := 0
			if m[1] != "" {
				off, _ = strconv.Atoi(m[1])
			}
			off += p.off
			if off%8 != 0 || off/8 >= len(mem[p.arg]) {
				fail("asm: store %s outside the object %s", op, p.arg)
			}
			mem[p.arg][off/8] = v
			return
		}
		regs[op] = v
	}
	low64 := func(x int) Value { return SymV{em.emit(Op{kind: "low", a: x, k: 64})} }
	steps := 0
	for pc := 0; pc < len(lines); pc++ {
		steps++
		if steps > 200000 {
			fail("asm: step limit")
		}
		l := lines[pc]
		if strings.HasSuffix(l, ":") {
			continue
		}
		f := strings.SplitN(l, " ", 2)
		mn := f[0]
		var ops []string
		if len(f) > 1 {
			for _, o := range strings.Split(f[1], ",") {
				ops = append(ops, strings.TrimSpace(o))
			}
		}
		switch mn {
		case "MOVQ":
			store(ops[1], load(ops[0]))
		case "MULQ": // DX:AX = AX * src
			w := em.emit(Op{kind: "mul", a: id(regs["AX"]), b: id(load(ops[0]))})
			regs["DX"] = SymV{em.emit(Op{kind: "shr", a: w, k: 64})}
			regs["AX"] = low64(w)
		case "IMUL3Q": // dst = src * imm (must not lose bits: the code relies on 19*x fitting a word)
			w := em.emit(Op{kind: "mul", a: id(load(ops[1])), b: id(load(ops[0]))})
			store(ops[2], SymV{em.emit(Op{kind: "wrap", a: w, k: 64})})
		case "ADDQ":
			w := em.emit(Op{kind: "add", a: id(load(ops[1])), b: id(load(ops[0]))})
			cf = SymV{em.emit(Op{kind: "shr", a: w, k: 64})}
			store(ops[1], low64(w))
		case "ADCQ":
			w0 := em.emit(Op{kind: "add", a: id(load(ops[1])), b: id(load(ops[0]))})
			w := em.emit(Op{kind: "add", a: w0, b: id(cf)})
			cf = SymV{em.emit(Op{kind: "shr", a: w, k: 64})}
			store(ops[1], low64(w))
		case "ANDQ":
			a, b := load(ops[1]), load(ops[0])
			if c, ok := b.(Conc); ok {
				p1 := new(big.Int).Add(c.v, big.NewInt(1))
				if new(big.Int).And(p1, c.v).Sign() == 0 {
					store(ops[1], SymV{em.emit(Op{kind: "low", a: id(a), k: p1.BitLen() - 1})})
					break
				}
			}
			store(ops[1], SymV{em.emit(Op{kind: "and", a: id(a), b: id(b)})})
		case "SHRQ":
			k, _ := strconv.ParseUint(strings.TrimPrefix(ops[0], "$"), 0, 8)
			store(ops[1], SymV{em.emit(Op{kind: "shr", a: id(load(ops[1])), k: int(k)})})
		case "SHLQ":
			k, _ := strconv.ParseUint(strings.TrimPrefix(ops[0], "$"), 0, 8)
			if len(ops) == 2 {
				s := em.emit(Op{kind: "shl", a: id(load(ops[1])), k: int(k)})
				store(ops[1], SymV{em.emit(Op{kind: "wrap", a: s, k: 64})})
			} else { // SHLD: dst = (dst << k) | (src >> (64-k))
				s := em.emit(Op{kind: "shl", a: id(load(ops[2])), k: int(k)})
				hi := em.emit(Op{kind: "wrap", a: s, k: 64})
				lo := em.emit(Op{kind: "shr", a: id(load(ops[1])), k: 64 - int(k)})
				store(ops[2], SymV{em.emit(Op{kind: "or", a: hi, b: lo})})
			}
		case "DECQ":
			c, ok := load(ops[0]).(Conc)
			if !ok {
				fail("asm: DECQ on a symbolic (input-dependent) value")
			}
			n := new(big.Int).Sub(c.v, big.NewInt(1))
			n.And(n, mask(64))
			store(ops[0], Conc{n})
			zf = n.Sign() == 0
		case "JNZ":
			if !zf {
				pc = labels[ops[0]]
			}
		case "RET":
			pc = len(lines)
		default:
			fail("asm: unsupported instruction %q", l)
		}
	}
	for i, v := range mem[t.Out] {
		x, ok := func() (int, bool) {
			switch y := v.(type) {
			case SymV:
				return y.id, true
			case Conc:
				return em.constant(y.v), true
			}
			return 0, false
		}()
		if !ok {
			fail("asm: output limb %d is %T", i, v)
		}
		res.Outs = append(res.Outs, x)
		res.OutBits = append(res.OutBits, 64)
	}
	res.Ops = em.ops
	res.Nin = em.nin
	return
}

var asmTargets = []asmTarget{
	{Name: "feMul", Group: "FieldAsm", File: "internal/field/field_u64_amd64.s", Text: "feMul", In: []string{"a", "b"}, Out: "out", Limbs: 5},
	{Name: "fePow2k1", Group: "FieldAsm", File: "internal/field/field_u64_amd64.s", Text: "fePow2k", In: []string{"a"}, Out: "out", Ints: map[string]uint64{"k": 1}, Limbs: 5},
	{Name: "fePow2k2", Group: "FieldAsm", File: "internal/field/field_u64_amd64.s", Text: "fePow2k", In: []string{"a"}, Out: "out", Ints: map[string]uint64{"k": 2}, Limbs: 5},
}
