// go2ir regenerates the limb-level part of the Lean model from /repo's current source.
//
// It is a partial evaluator over go/ssa: the integer inputs of a target function are symbolic,
// everything else (loop counters, indices, pointers, constants, package-level tables) is concrete.
// Every arithmetic instruction on a symbolic value emits one instruction of the straight-line IR
// of lean/Voi/IR/Basic.lean; a branch, an index, a shift count or a slice bound that depends on a
// symbolic value makes translation FAIL (this is also the limb-level constant-time argument: a
// function that translates has input-independent control flow and memory addressing).
//
//	go2ir -repo /repo -targets targets.json -lean ../../lean/Voi/Gen -txt gen/ir.txt
package main

import (
	"runtime/debug"
	"crypto/sha256"
	"crypto/sha512"
	"encoding/json"
	"flag"
	"fmt"
	"go/constant"
	"go/token"
	"go/types"
	"math/big"
	"os"
	"path/filepath"
	"sort"
	"strings"
	"sync"

	"golang.org/x/tools/go/packages"
	"golang.org/x/tools/go/ssa"
	"golang.org/x/tools/go/ssa/ssautil"
)

// ---------------------------------------------------------------- values
type Value interface{}

type Conc struct{ v *big.Int } // integers and booleans (0/1); always reduced to its type's width (two's complement pattern)
type SymV struct{ id int }     // IR variable
type PtrV struct{ c *Cell }
type AggV struct{ elems []Value }
type TupleV struct{ elems []Value }
type SliceV struct {
	cells []*Cell
	rest  []*Cell // spare capacity (cells between len and cap), shared with the backing array
	nilS  bool
}
type StringV struct{ s string }

// HashObj models a crypto hash instance as a trusted primitive (Go's standard library is outside the verified code):
// concrete input is hashed for real, symbolic input yields opaque symbolic output bytes.
type HashObj struct {
	kind string
	buf  []Value
}
type FuncV struct {
	fn   *ssa.Function
	free []Value
}
type NilV struct{}

// IfaceV is a non-nil interface value: dynamic type and value.
type IfaceV struct {
	dyn types.Type
	v   Value
}
type Unknown struct{ why string }

// Cell is a node of a memory object: scalar (val) or aggregate (kids).
type Cell struct {
	val  Value
	kids []*Cell
	typ  types.Type
}

func zeroValue(t types.Type) Value {
	switch u := t.Underlying().(type) {
	case *types.Basic:
		if u.Info()&(types.IsInteger|types.IsBoolean) != 0 {
			return Conc{big.NewInt(0)}
		}
		if u.Info()&types.IsString != 0 {
			return StringV{""}
		}
		return Unknown{"basic " + u.String()}
	case *types.Pointer, *types.Signature, *types.Interface, *types.Map, *types.Chan:
		return NilV{}
	case *types.Slice:
		return SliceV{nilS: true}
	}
	return Unknown{"zero of " + t.String()}
}

func newCell(t types.Type) *Cell {
	c := &Cell{typ: t}
	switch u := t.Underlying().(type) {
	case *types.Array:
		for i := int64(0); i < u.Len(); i++ {
			c.kids = append(c.kids, newCell(u.Elem()))
		}
	case *types.Struct:
		for i := 0; i < u.NumFields(); i++ {
			c.kids = append(c.kids, newCell(u.Field(i).Type()))
		}
	default:
		c.val = zeroValue(t)
	}
	return c
}

func isAgg(t types.Type) bool {
	switch t.Underlying().(type) {
	case *types.Array, *types.Struct:
		return true
	}
	return false
}

func (c *Cell) load() Value {
	if isAgg(c.typ) {
		a := AggV{}
		for _, k := range c.kids {
			a.elems = append(a.elems, k.load())
		}
		return a
	}
	return c.val
}

func (c *Cell) store(v Value) {
	if isAgg(c.typ) {
		a, ok := v.(AggV)
		if !ok {
			panic(fmt.Sprintf("store of non-aggregate %T into %s", v, c.typ))
		}
		for i, k := range c.kids {
			k.store(a.elems[i])
		}
		return
	}
	c.val = v
}

func zeroAgg(t types.Type) Value { return newCell(t).load() }

// ---------------------------------------------------------------- IR
type Op struct {
	kind    string
	a, b, k int
	n       *big.Int
}

type Emitter struct {
	ops    []Op
	nin    int
	consts map[string]int
	// constant-time mode only needs to know THAT translation succeeds: count instructions instead of storing them
	countOnly bool
	count     int
}

func (e *Emitter) emit(o Op) int {
	if e.countOnly {
		e.count++
		return e.nin + e.count - 1
	}
	e.ops = append(e.ops, o)
	return e.nin + len(e.ops) - 1
}
// def returns the instruction that defines value id (nil for inputs and in count-only mode)
func (e *Emitter) def(id int) *Op {
	if e.countOnly || id < e.nin || id-e.nin >= len(e.ops) {
		return nil
	}
	return &e.ops[id-e.nin]
}
func (e *Emitter) constant(n *big.Int) int {
	k := n.String()
	if id, ok := e.consts[k]; ok {
		return id
	}
	id := e.emit(Op{kind: "const", n: new(big.Int).Set(n)})
	e.consts[k] = id
	return id
}

// ---------------------------------------------------------------- interpreter
type Interp struct {
	prog    *ssa.Program
	em      *Emitter
	globals map[*ssa.Global]*Cell
	steps   int
	inInit  bool
	depth   int
	module  string
	// declassification (constant-time mode): functions whose comparisons on secret-derived values are public by design
	declass     map[string]bool
	declassNow  bool
	declassVal  bool
	declassUsed int
	// all interpreted package initialisers ran to completion: a variable nobody stored to holds its zero value
	initComplete bool
	curFn        string
	// witness search: concrete values for the symbolic inputs, and the control-flow / memory-index trace of the run
	concrete []uint64
	trace    []string
	tracing  bool
	// decision-tree mode (variable-time predicates over public bytes): comparisons on symbolic values are emitted as IR
	// instructions, a branch on such a value follows `script` (then `true`) and is recorded
	forkMode  bool
	script    []bool
	decisions []bool
	condVars  []int
	segEnds   []int
	asmCalls  int // constant-time mode: number of summarised calls of assembly routines
	fl        *FEmitter // field-level mode (flevel.go): internal/field.Element values are abstract
}

type frame struct {
	fn     *ssa.Function
	locals map[ssa.Value]Value
	free   []Value
}

var modulePath = "github.com/oasisprotocol/curve25519-voi"

type transErr struct{ msg string }

func fail(format string, a ...interface{}) { panic(transErr{fmt.Sprintf(format, a...)}) }

func width(t types.Type) (int, bool) { // bits, signed
	b, ok := t.Underlying().(*types.Basic)
	if !ok {
		fail("not a basic type: %s", t)
	}
	switch b.Kind() {
	case types.Bool, types.UntypedBool:
		return 1, false
	case types.Uint8:
		return 8, false
	case types.Int8:
		return 8, true
	case types.Uint16:
		return 16, false
	case types.Int16:
		return 16, true
	case types.Uint32:
		return 32, false
	case types.Int32:
		return 32, true
	case types.Uint64, types.Uint, types.Uintptr:
		return 64, false
	case types.Int64, types.Int, types.UntypedInt:
		return 64, true
	}
	fail("unsupported basic type %s", t)
	return 0, false
}

func mask(n int) *big.Int { return new(big.Int).Sub(new(big.Int).Lsh(big.NewInt(1), uint(n)), big.NewInt(1)) }

// norm reduces to the n-bit pattern
func norm(v *big.Int, n int) *big.Int { return new(big.Int).And(v, mask(n)) }

// signedVal interprets the n-bit pattern as signed
func signedVal(v *big.Int, n int) *big.Int {
	if v.Bit(n-1) == 1 {
		return new(big.Int).Sub(v, new(big.Int).Lsh(big.NewInt(1), uint(n)))
	}
	return new(big.Int).Set(v)
}

func (in *Interp) constVal(c *ssa.Const) Value {
	if c.Value == nil {
		return zeroValueOrAgg(c.Type())
	}
	switch c.Value.Kind() {
	case constant.Bool:
		if constant.BoolVal(c.Value) {
			return Conc{big.NewInt(1)}
		}
		return Conc{big.NewInt(0)}
	case constant.Int:
		bi, ok := new(big.Int).SetString(c.Value.ExactString(), 10)
		if !ok {
			fail("bad int const %s", c.Value)
		}
		n, _ := width(c.Type())
		return Conc{norm(bi, n)}
	case constant.String:
		return StringV{constant.StringVal(c.Value)}
	}
	return Unknown{"const " + c.Value.String()}
}

func zeroValueOrAgg(t types.Type) Value {
	if isAgg(t) {
		return zeroAgg(t)
	}
	return zeroValue(t)
}

func (in *Interp) get(f *frame, v ssa.Value) Value {
	switch x := v.(type) {
	case *ssa.Const:
		return in.constVal(x)
	case *ssa.Global:
		return PtrV{in.global(x)}
	case *ssa.Function:
		return FuncV{fn: x}
	case *ssa.FreeVar:
		for i, fv := range f.fn.FreeVars {
			if fv == x {
				return f.free[i]
			}
		}
		fail("free var not found")
	case *ssa.Builtin:
		return x
	}
	r, ok := f.locals[v]
	if !ok {
		fail("value %s (%T) not defined in %s", v.Name(), v, f.fn.Name())
	}
	return r
}

func (in *Interp) global(g *ssa.Global) *Cell {
	c, ok := in.globals[g]
	if !ok {
		c = newCell(g.Type().(*types.Pointer).Elem())
		if g.Pkg != nil && g.Pkg.Pkg.Path() == "golang.org/x/sys/cpu" {
			// CPU feature flags: the assembly build is analysed as on a machine that has every feature (AVX2 paths taken)
			leaves(c, func(l *Cell) {
				if b, ok := l.typ.Underlying().(*types.Basic); ok && b.Kind() == types.Bool {
					l.val = Conc{big.NewInt(1)}
				}
			})
			in.globals[g] = c
			return c
		}
		// package-level variables are only trusted once the interpreted initialiser has stored into them
		if g.Name() != "init$guard" && !in.initComplete {
			leaves(c, func(l *Cell) { l.val = Unknown{"package-level variable " + g.Name() + " not initialised by the interpreted init"} })
		}
		in.globals[g] = c
	}
	return c
}

func (in *Interp) symOrConst(v Value) (int, bool) { // returns IR id for either
	switch x := v.(type) {
	case SymV:
		return x.id, true
	case Conc:
		return in.em.constant(x.v), true
	}
	return 0, false
}

func isSym(v Value) bool { _, ok := v.(SymV); return ok }

func (in *Interp) binop(op token.Token, x, y Value, t types.Type, xt types.Type) Value {
	if in.fl != nil {
		if r, ok := in.fbinop(op, x, y); ok {
			return r
		}
	}
	// an error value built by fmt.Errorf / errors.New in a package initialiser is opaque but certainly not nil
	if op == token.EQL || op == token.NEQ {
		ux, isUx := x.(Unknown)
		uy, isUy := y.(Unknown)
		_, xn := x.(NilV)
		_, yn := y.(NilV)
		isErr := func(u Unknown) bool { return u.why == "external fmt.Errorf" || u.why == "external errors.New" }
		if (isUx && yn && isErr(ux)) || (isUy && xn && isErr(uy)) {
			if op == token.EQL {
				return Conc{big.NewInt(0)}
			}
			return Conc{big.NewInt(1)}
		}
	}
	if _, ok := x.(Unknown); ok {
		return x
	}
	if _, ok := y.(Unknown); ok {
		return y
	}
	// == / != of arrays and structs (e.g. `*p == noncanonicalSignBits[i]` on [32]byte): element-wise, combined like bytes.Equal
	if xa, ok := x.(AggV); ok {
		if ya, ok := y.(AggV); ok && (op == token.EQL || op == token.NEQ) && len(xa.elems) == len(ya.elems) {
			var ets []types.Type
			switch u := xt.Underlying().(type) {
			case *types.Array:
				for range xa.elems {
					ets = append(ets, u.Elem())
				}
			case *types.Struct:
				for i := 0; i < u.NumFields(); i++ {
					ets = append(ets, u.Field(i).Type())
				}
			default:
				fail("comparison of aggregate values of type %s", xt)
			}
			var acc Value = Conc{big.NewInt(1)}
			for i := range xa.elems {
				e := in.binop(token.EQL, xa.elems[i], ya.elems[i], types.Typ[types.Bool], ets[i])
				if c, ok := e.(Conc); ok {
					if c.v.Sign() == 0 {
						acc = Conc{big.NewInt(0)}
						break
					}
					continue
				}
				if c, ok := acc.(Conc); ok && c.v.Sign() != 0 {
					acc = e
					continue
				}
				ia, _ := in.symOrConst(acc)
				ie, _ := in.symOrConst(e)
				acc = SymV{in.em.emit(Op{kind: "and", a: ia, b: ie})}
			}
			if op == token.EQL {
				return acc
			}
			if c, ok := acc.(Conc); ok {
				return Conc{big.NewInt(1 - c.v.Int64())}
			}
			ia, _ := in.symOrConst(acc)
			return SymV{in.em.emit(Op{kind: "subw", a: in.em.constant(big.NewInt(1)), b: ia, k: 1})}
		}
	}
	// pointer / nil comparisons
	switch op {
	case token.EQL, token.NEQ:
		_, xn := x.(NilV)
		_, yn := y.(NilV)
		if sx, ok := x.(SliceV); ok {
			if sy, ok := y.(SliceV); ok && (sx.nilS || sy.nilS) {
				eq := sx.nilS && sy.nilS && len(sx.cells) == 0 && len(sy.cells) == 0
				if sx.nilS != sy.nilS {
					eq = false
				}
				if (op == token.EQL) == eq {
					return Conc{big.NewInt(1)}
				}
				return Conc{big.NewInt(0)}
			}
		}
		xp, xisp := x.(PtrV)
		yp, yisp := y.(PtrV)
		_, xi := x.(IfaceV)
		_, yi := y.(IfaceV)
		if (xi && yn) || (yi && xn) {
			if op == token.EQL {
				return Conc{big.NewInt(0)}
			}
			return Conc{big.NewInt(1)}
		}
		if xn || yn || xisp || yisp {
			eq := (xn && yn) || (xisp && yisp && xp.c == yp.c)
			if sx, ok := x.(SliceV); ok && yn {
				eq = sx.nilS
			}
			if (op == token.EQL) == eq {
				return Conc{big.NewInt(1)}
			}
			return Conc{big.NewInt(0)}
		}
		if sx, ok := x.(SliceV); ok {
			_ = sx
			fail("slice comparison")
		}
	}
	if xs, ok := x.(StringV); ok {
		if ys, ok := y.(StringV); ok {
			switch op {
			case token.ADD:
				return StringV{xs.s + ys.s}
			case token.EQL:
				if xs.s == ys.s {
					return Conc{big.NewInt(1)}
				}
				return Conc{big.NewInt(0)}
			case token.NEQ:
				if xs.s != ys.s {
					return Conc{big.NewInt(1)}
				}
				return Conc{big.NewInt(0)}
			}
		}
		return Unknown{"string op"}
	}
	xc, xconc := x.(Conc)
	yc, yconc := y.(Conc)
	n, signed := width(xt)
	if xconc && yconc {
		a, b := xc.v, yc.v
		if signed {
			a, b = signedVal(a, n), signedVal(b, n)
		}
		bres := func(c bool) Value {
			if c {
				return Conc{big.NewInt(1)}
			}
			return Conc{big.NewInt(0)}
		}
		switch op {
		case token.ADD:
			return Conc{norm(new(big.Int).Add(a, b), n)}
		case token.SUB:
			return Conc{norm(new(big.Int).Sub(a, b), n)}
		case token.MUL:
			return Conc{norm(new(big.Int).Mul(a, b), n)}
		case token.QUO:
			if b.Sign() == 0 {
				fail("division by zero")
			}
			return Conc{norm(new(big.Int).Quo(a, b), n)}
		case token.REM:
			if b.Sign() == 0 {
				fail("division by zero")
			}
			return Conc{norm(new(big.Int).Rem(a, b), n)}
		case token.AND:
			return Conc{norm(new(big.Int).And(xc.v, yc.v), n)}
		case token.OR:
			return Conc{norm(new(big.Int).Or(xc.v, yc.v), n)}
		case token.XOR:
			return Conc{norm(new(big.Int).Xor(xc.v, yc.v), n)}
		case token.AND_NOT:
			return Conc{norm(new(big.Int).AndNot(xc.v, yc.v), n)}
		case token.SHL:
			if yc.v.Cmp(big.NewInt(int64(n))) >= 0 {
				return Conc{big.NewInt(0)}
			}
			return Conc{norm(new(big.Int).Lsh(xc.v, uint(yc.v.Int64())), n)}
		case token.SHR:
			sh := uint(4096)
			if yc.v.IsInt64() && yc.v.Int64() < 4096 {
				sh = uint(yc.v.Int64())
			}
			return Conc{norm(new(big.Int).Rsh(a, sh), n)}
		case token.EQL:
			return bres(a.Cmp(b) == 0)
		case token.NEQ:
			return bres(a.Cmp(b) != 0)
		case token.LSS:
			return bres(a.Cmp(b) < 0)
		case token.LEQ:
			return bres(a.Cmp(b) <= 0)
		case token.GTR:
			return bres(a.Cmp(b) > 0)
		case token.GEQ:
			return bres(a.Cmp(b) >= 0)
		}
		fail("unsupported concrete binop %s", op)
	}
	if in.inInit {
		return Unknown{"symbolic in init"}
	}
	// at least one symbolic operand
	if !(isSym(x) || xconc) || !(isSym(y) || yconc) {
		fail("binop %s on %T, %T", op, x, y)
	}
	em := in.em
	id := func(v Value) int { i, _ := in.symOrConst(v); return i }
	switch op {
	case token.ADD:
		if yconc && yc.v.Sign() == 0 {
			return x
		}
		if xconc && xc.v.Sign() == 0 {
			return y
		}
		t := em.emit(Op{kind: "add", a: id(x), b: id(y)})
		return SymV{em.emit(Op{kind: "wrap", a: t, k: n})}
	case token.MUL:
		if (yconc && yc.v.Sign() == 0) || (xconc && xc.v.Sign() == 0) {
			return Conc{big.NewInt(0)}
		}
		if yconc && yc.v.Cmp(big.NewInt(1)) == 0 {
			return x
		}
		if xconc && xc.v.Cmp(big.NewInt(1)) == 0 {
			return y
		}
		t := em.emit(Op{kind: "mul", a: id(x), b: id(y)})
		return SymV{em.emit(Op{kind: "wrap", a: t, k: n})}
	case token.SUB:
		if yconc && yc.v.Sign() == 0 {
			return x
		}
		// peephole: x - ((x >> k) << k) is the low k bits of x (a mask written as a subtraction); emitted as `low`, which
		// the analyses know never borrows.  (Like every emitted program this one is compared with the real function by T0.)
		if xs, ok := x.(SymV); ok {
			if ys, ok := y.(SymV); ok {
				d := em.def(ys.id)
				if d != nil && (d.kind == "wrap" || d.kind == "low") && d.k == n {
					d = em.def(d.a) // the n-bit truncation of the left shift (emitted as `low` since shifts became bit slicing)
				}
				if d != nil && d.kind == "shl" {
					if d2 := em.def(d.a); d2 != nil && d2.kind == "shr" && d2.k == d.k && d2.a == xs.id && d.k < n {
						return SymV{em.emit(Op{kind: "low", a: xs.id, k: d.k})}
					}
				}
			}
		}
		return SymV{em.emit(Op{kind: "subw", a: id(x), b: id(y), k: n})}
	case token.SHL, token.SHR:
		if !yconc {
			fail("shift by a symbolic (input-dependent) amount")
		}
		if yc.v.Cmp(big.NewInt(int64(n))) >= 0 {
			if op == token.SHR && signed {
				fail("arithmetic shift of a symbolic signed value by >= its width")
			}
			return Conc{big.NewInt(0)}
		}
		k := int(yc.v.Int64())
		if k == 0 {
			return x
		}
		if op == token.SHR {
			if signed {
				// arithmetic shift of the n-bit two's-complement pattern u: with the biased value b = (u + 2^(n-1)) mod 2^n
				// (= x + 2^(n-1) for the signed value x), floor(x / 2^k) = floor(b / 2^k) - 2^(n-1-k); back to a pattern mod 2^n.
				half := new(big.Int).Lsh(big.NewInt(1), uint(n-1))
				t1 := em.emit(Op{kind: "add", a: id(x), b: em.constant(half)})
				t2 := em.emit(Op{kind: "low", a: t1, k: n})
				t3 := em.emit(Op{kind: "shr", a: t2, k: k})
				corr := new(big.Int).Sub(new(big.Int).Lsh(big.NewInt(1), uint(n)), new(big.Int).Lsh(big.NewInt(1), uint(n-1-k)))
				t4 := em.emit(Op{kind: "add", a: t3, b: em.constant(corr)})
				return SymV{em.emit(Op{kind: "low", a: t4, k: n})}
			}
			return SymV{em.emit(Op{kind: "shr", a: id(x), k: k})}
		}
		// a left shift that pushes bits out of the word is bit slicing the source wrote on purpose (`w1<<13 | w0>>51`), not
		// an arithmetic overflow: `low`, not `wrap`.  Where the shifted-out bits mattered (a carry chain), the value
		// congruence of the function's specification no longer holds.
		t := em.emit(Op{kind: "shl", a: id(x), k: k})
		return SymV{em.emit(Op{kind: "low", a: t, k: n})}
	case token.AND, token.AND_NOT:
		if op == token.AND_NOT {
			if yconc {
				y = Conc{norm(new(big.Int).Not(yc.v), n)}
				yc, _ = y.(Conc)
			} else {
				y = SymV{em.emit(Op{kind: "subw", a: em.constant(mask(n)), b: id(y), k: n})}
			}
		}
		if xconc && !yconc {
			x, y = y, x
			xc, xconc = x.(Conc)
			yc, yconc = y.(Conc)
		}
		if yconc {
			if yc.v.Sign() == 0 {
				return Conc{big.NewInt(0)}
			}
			if yc.v.Cmp(mask(n)) == 0 {
				return x
			}
			// mask of the form 2^k - 1
			p1 := new(big.Int).Add(yc.v, big.NewInt(1))
			if new(big.Int).And(p1, yc.v).Sign() == 0 {
				return SymV{em.emit(Op{kind: "low", a: id(x), k: p1.BitLen() - 1})}
			}
			// contiguous mask (2^a - 1) << b  (decision-tree mode: keep predicates arithmetic):  ((x >> b) mod 2^a) << b
			if in.forkMode {
				b := int(yc.v.TrailingZeroBits())
				m := new(big.Int).Rsh(yc.v, uint(b))
				m1 := new(big.Int).Add(m, big.NewInt(1))
				if new(big.Int).And(m1, m).Sign() == 0 {
					t := em.emit(Op{kind: "shr", a: id(x), k: b})
					t = em.emit(Op{kind: "low", a: t, k: m1.BitLen() - 1})
					return SymV{em.emit(Op{kind: "shl", a: t, k: b})}
				}
			}
		}
		return SymV{em.emit(Op{kind: "and", a: id(x), b: id(y)})}
	case token.OR:
		if yconc && yc.v.Sign() == 0 {
			return x
		}
		if xconc && xc.v.Sign() == 0 {
			return y
		}
		if in.forkMode && (xconc || yconc) {
			// x | c = x + c - (x & c)
			if xconc {
				x, y = y, x
				yc = y.(Conc)
			}
			a := in.binop(token.AND, x, y, t, xt)
			s1 := em.emit(Op{kind: "add", a: id(x), b: id(y)})
			return SymV{em.emit(Op{kind: "subw", a: s1, b: id(a), k: n + 1})}
		}
		return SymV{em.emit(Op{kind: "or", a: id(x), b: id(y)})}
	case token.XOR:
		if yconc && yc.v.Sign() == 0 {
			return x
		}
		if xconc && xc.v.Sign() == 0 {
			return y
		}
		return SymV{em.emit(Op{kind: "xor", a: id(x), b: id(y)})}
	case token.EQL, token.NEQ, token.LSS, token.LEQ, token.GTR, token.GEQ:
		if in.forkMode {
			if signed {
				fail("signed comparison on a symbolic value (decision-tree mode supports unsigned only)")
			}
			not := func(v int) int { return em.emit(Op{kind: "eq", a: v, b: em.constant(big.NewInt(0))}) }
			switch op {
			case token.EQL:
				return SymV{em.emit(Op{kind: "eq", a: id(x), b: id(y)})}
			case token.NEQ:
				return SymV{not(em.emit(Op{kind: "eq", a: id(x), b: id(y)}))}
			case token.LSS:
				return SymV{em.emit(Op{kind: "lt", a: id(x), b: id(y)})}
			case token.GTR:
				return SymV{em.emit(Op{kind: "lt", a: id(y), b: id(x)})}
			case token.LEQ:
				return SymV{not(em.emit(Op{kind: "lt", a: id(y), b: id(x)}))}
			case token.GEQ:
				return SymV{not(em.emit(Op{kind: "lt", a: id(x), b: id(y)}))}
			}
		}
		if in.declassNow {
			// a documented declassification point: the comparison result is public by design; explore it with the scripted value
			in.declassUsed++
			if in.declassVal {
				return Conc{big.NewInt(1)}
			}
			return Conc{big.NewInt(0)}
		}
		fail("comparison %s on a symbolic (input-dependent) value in %s", op, in.curFn)
	}
	if (op == token.REM || op == token.QUO) && yconc && !signed && yc.v.Sign() > 0 && new(big.Int).And(yc.v, new(big.Int).Sub(yc.v, big.NewInt(1))).Sign() == 0 {
		// unsigned x % 2^k / x / 2^k: a mask / a shift
		k := yc.v.BitLen() - 1
		if k == 0 {
			if op == token.REM {
				return Conc{big.NewInt(0)}
			}
			return x
		}
		if op == token.REM {
			return SymV{em.emit(Op{kind: "low", a: id(x), k: k})}
		}
		return SymV{em.emit(Op{kind: "shr", a: id(x), k: k})}
	}
	fail("unsupported symbolic binop %s", op)
	return nil
}

func (in *Interp) convert(v Value, from, to types.Type) Value {
	if _, ok := v.(Unknown); ok {
		return v
	}
	switch v.(type) {
	case BoolF, ByteV, Bit7:
		return v // 0/1 resp. a byte in every integer type
	}
	fb, ok1 := from.Underlying().(*types.Basic)
	tb, ok2 := to.Underlying().(*types.Basic)
	if sv, isStr := v.(StringV); isStr {
		if st, ok := to.Underlying().(*types.Slice); ok {
			out := SliceV{}
			for i := 0; i < len(sv.s); i++ {
				c := newCell(st.Elem())
				c.val = Conc{big.NewInt(int64(sv.s[i]))}
				out.cells = append(out.cells, c)
			}
			return out
		}
		return sv
	}
	if sl, isSl := v.(SliceV); isSl {
		if tb2, ok := to.Underlying().(*types.Basic); ok && tb2.Info()&types.IsString != 0 {
			b := make([]byte, len(sl.cells))
			for i, c := range sl.cells {
				cv, ok := c.val.(Conc)
				if !ok {
					return Unknown{"string of symbolic bytes"}
				}
				b[i] = byte(cv.v.Int64())
			}
			return StringV{string(b)}
		}
	}
	if !ok1 || !ok2 || fb.Info()&types.IsInteger == 0 || tb.Info()&types.IsInteger == 0 {
		return Unknown{fmt.Sprintf("convert %s -> %s", from, to)}
	}
	nf, sf := width(from)
	nt, _ := width(to)
	switch x := v.(type) {
	case Conc:
		a := x.v
		if sf {
			a = signedVal(a, nf)
		}
		return Conc{norm(a, nt)}
	case SymV:
		if nt < nf {
			return SymV{in.em.emit(Op{kind: "low", a: x.id, k: nt})}
		}
		if nt > nf && sf {
			// sign extension: b = (u + 2^(nf-1)) mod 2^nf = x + 2^(nf-1); x mod 2^nt = (b + 2^nt - 2^(nf-1)) mod 2^nt
			half := new(big.Int).Lsh(big.NewInt(1), uint(nf-1))
			t1 := in.em.emit(Op{kind: "add", a: x.id, b: in.em.constant(half)})
			t2 := in.em.emit(Op{kind: "low", a: t1, k: nf})
			corr := new(big.Int).Sub(new(big.Int).Lsh(big.NewInt(1), uint(nt)), half)
			t3 := in.em.emit(Op{kind: "add", a: t2, b: in.em.constant(corr)})
			return SymV{in.em.emit(Op{kind: "low", a: t3, k: nt})}
		}
		return x
	}
	fail("convert of %T", v)
	return nil
}

func leaves(c *Cell, f func(*Cell)) {
	if isAgg(c.typ) {
		for _, k := range c.kids {
			leaves(k, f)
		}
		return
	}
	f(c)
}

const maxSteps = 400_000_000

func (in *Interp) hashSum(h *HashObj) []Value {
	conc := true
	raw := make([]byte, len(h.buf))
	for i, v := range h.buf {
		c, ok := v.(Conc)
		if !ok {
			conc = false
			break
		}
		raw[i] = byte(c.v.Int64())
	}
	n := map[string]int{"sha512": 64, "sha256": 32}[h.kind]
	out := make([]Value, n)
	if conc {
		var d []byte
		switch h.kind {
		case "sha512":
			x := sha512.Sum512(raw)
			d = x[:]
		case "sha256":
			x := sha256.Sum256(raw)
			d = x[:]
		}
		for i := range out {
			out[i] = Conc{big.NewInt(int64(d[i]))}
		}
		return out
	}
	for i := range out {
		out[i] = SymV{in.em.emit(Op{kind: "opaque"})}
	}
	return out
}

func (in *Interp) hashMethod(h *HashObj, name string, args []Value) Value {
	switch name {
	case "Write":
		s, ok := args[0].(SliceV)
		if !ok {
			fail("hash.Write of %T", args[0])
		}
		for _, c := range s.cells {
			h.buf = append(h.buf, c.load())
		}
		return TupleV{[]Value{Conc{big.NewInt(int64(len(s.cells)))}, NilV{}}}
	case "Reset":
		h.buf = nil
		return nil
	case "Size":
		return Conc{big.NewInt(int64(map[string]int{"sha512": 64, "sha256": 32}[h.kind]))}
	case "BlockSize":
		return Conc{big.NewInt(int64(map[string]int{"sha512": 128, "sha256": 64}[h.kind]))}
	case "Sum":
		dst, _ := args[0].(SliceV)
		d := in.hashSum(h)
		if len(d) <= len(dst.rest) {
			for i, v := range d {
				dst.rest[i].store(v)
			}
			return SliceV{cells: append(append([]*Cell{}, dst.cells...), dst.rest[:len(d)]...), rest: dst.rest[len(d):]}
		}
		ns := SliceV{}
		for _, c := range dst.cells {
			nc := &Cell{typ: types.Typ[types.Uint8], val: c.load()}
			ns.cells = append(ns.cells, nc)
		}
		for _, v := range d {
			ns.cells = append(ns.cells, &Cell{typ: types.Typ[types.Uint8], val: v})
		}
		return ns
	}
	fail("unsupported hash method %s", name)
	return nil
}

func (in *Interp) call(fn *ssa.Function, args []Value, free []Value) Value {
	if in.fl != nil && !in.inInit {
		if r, ok := in.fcall(fn, args); ok {
			return r
		}
	}
	switch fn.String() {
	case "crypto/sha512.New":
		return IfaceV{v: &HashObj{kind: "sha512"}}
	case "crypto/sha256.New":
		return IfaceV{v: &HashObj{kind: "sha256"}}
	case "(crypto.Hash).New", "(crypto.Hash).Size", "(crypto.Hash).Available", "(crypto.Hash).HashFunc":
		id, ok := args[0].(Conc)
		if !ok {
			fail("crypto.Hash value is symbolic")
		}
		kind := map[int64]string{5: "sha256", 7: "sha512"}[id.v.Int64()]
		switch fn.Name() {
		case "HashFunc":
			return args[0]
		case "Available":
			if kind != "" {
				return Conc{big.NewInt(1)}
			}
			return Conc{big.NewInt(0)}
		case "Size":
			if kind == "" {
				fail("crypto.Hash(%d).Size: only SHA-256 / SHA-512 are modelled", id.v.Int64())
			}
			return Conc{big.NewInt(int64(map[string]int{"sha512": 64, "sha256": 32}[kind]))}
		}
		if kind == "" {
			fail("crypto.Hash(%d).New: only SHA-256 / SHA-512 are modelled", id.v.Int64())
		}
		return IfaceV{v: &HashObj{kind: kind}}
	case "bytes.Equal":
		a, ok1 := args[0].(SliceV)
		b, ok2 := args[1].(SliceV)
		if !ok1 || !ok2 {
			fail("bytes.Equal on %T, %T", args[0], args[1])
		}
		if len(a.cells) != len(b.cells) {
			return Conc{big.NewInt(0)}
		}
		var acc Value = Conc{big.NewInt(1)}
		for i := range a.cells {
			e := in.binop(token.EQL, a.cells[i].load(), b.cells[i].load(), types.Typ[types.Bool], types.Typ[types.Uint8])
			if c, ok := e.(Conc); ok {
				if c.v.Sign() == 0 {
					return Conc{big.NewInt(0)}
				}
				continue
			}
			if c, ok := acc.(Conc); ok && c.v.Sign() != 0 {
				acc = e
				continue
			}
			ia, _ := in.symOrConst(acc)
			ie, _ := in.symOrConst(e)
			acc = SymV{in.em.emit(Op{kind: "and", a: ia, b: ie})}
		}
		return acc
	case "crypto/sha512.Sum512", "crypto/sha256.Sum256":
		h := &HashObj{kind: map[string]string{"crypto/sha512.Sum512": "sha512", "crypto/sha256.Sum256": "sha256"}[fn.String()]}
		in.hashMethod(h, "Write", args)
		return AggV{in.hashSum(h)}
	}
	if fn.Pkg != nil && !in.inInit {
		switch fn.Pkg.Pkg.Path() {
		case "fmt", "errors":
			// error construction on a failure path: an opaque non-nil value
			return IfaceV{v: Unknown{"error value"}}
		}
	}
	if r, ok := in.intrinsic(fn, args); ok {
		return r
	}
	if (in.em.countOnly || concreteInputs != nil) && !in.inInit && fn.Name() == "keccakF1600Bytes" && fn.Pkg != nil && strings.HasSuffix(fn.Pkg.Pkg.Path(), "/internal/strobe") {
		// assembly build: the wrapper reinterprets the 200-byte state as 25 words through unsafe.Pointer and calls the
		// assembly permutation; summarised like any other assembly routine (see asmSummary)
		if k, ok := fn.Pkg.Members["keccakF1600"].(*ssa.Function); ok && k.Blocks == nil {
			p, ok := args[0].(PtrV)
			if !ok || len(p.c.kids) != 200 {
				fail("keccakF1600Bytes: unexpected argument")
			}
			conc := true
			for _, c := range p.c.kids {
				if _, ok := c.val.(Conc); !ok {
					conc = false
				}
			}
			in.asmCalls++
			if conc {
				var st [25]uint64
				for i, c := range p.c.kids {
					st[i/8] |= c.val.(Conc).v.Uint64() << (8 * uint(i%8))
				}
				keccakF1600Ref(&st)
				for i, c := range p.c.kids {
					c.val = Conc{new(big.Int).SetUint64((st[i/8] >> (8 * uint(i%8))) & 0xff)}
				}
			} else {
				for _, c := range p.c.kids {
					c.val = SymV{in.em.emit(Op{kind: "opaque"})}
				}
			}
			return nil
		}
	}
	if in.inInit && in.depth > 0 {
		// package initialisers: other packages' init() are run separately (module) or not needed (external);
		// functions outside the module are not interpreted, their results are Unknown
		if fn.Name() == "init" && fn.Synthetic != "" {
			return nil
		}
		if fn.Pkg == nil || !strings.HasPrefix(fn.Pkg.Pkg.Path(), in.module) {
			return Unknown{"external " + fn.String()}
		}
	}
	in.depth++
	defer func() { in.depth-- }()
	if in.declass[fn.String()] && !in.declassNow {
		in.declassNow = true
		defer func() { in.declassNow = false }()
	}
	if fn.Blocks == nil && (strings.HasPrefix(fn.String(), "crypto/internal/boring/sig.") || strings.HasPrefix(fn.String(), "crypto/internal/fips140deps/godebug.") || fn.String() == "runtime.KeepAlive") {
		return nil
	}
	if fn.Blocks == nil {
		if in.inInit {
			return Unknown{"external " + fn.String()}
		}
		if (in.em.countOnly || concreteInputs != nil) && fn.Pkg != nil && strings.HasPrefix(fn.Pkg.Pkg.Path(), modulePath) {
			return in.asmSummary(fn, args)
		}
		fail("call to function without body: %s", fn.String())
	}
	f := &frame{fn: fn, locals: map[ssa.Value]Value{}, free: free}
	for i, p := range fn.Params {
		f.locals[p] = args[i]
	}
	var prev *ssa.BasicBlock
	b := fn.Blocks[0]
	for {
		var next *ssa.BasicBlock
		if in.tracing && len(in.trace) < 20_000_000 {
			in.trace = append(in.trace, fmt.Sprintf("%s#%d", fn.Name(), b.Index))
		}
		// phis first (parallel assignment)
		var phiVals []Value
		var phis []*ssa.Phi
		for _, ins := range b.Instrs {
			ph, ok := ins.(*ssa.Phi)
			if !ok {
				break
			}
			idx := -1
			for i, p := range b.Preds {
				if p == prev {
					idx = i
				}
			}
			if idx < 0 {
				fail("phi without matching predecessor")
			}
			phis = append(phis, ph)
			phiVals = append(phiVals, in.get(f, ph.Edges[idx]))
		}
		for i, ph := range phis {
			f.locals[ph] = phiVals[i]
		}
		for _, ins := range b.Instrs[len(phis):] {
			in.steps++
			in.curFn = fn.String()
			if in.steps > maxSteps {
				fail("step limit exceeded")
			}
			switch x := ins.(type) {
			case *ssa.Alloc:
				f.locals[x] = PtrV{newCell(x.Type().(*types.Pointer).Elem())}
			case *ssa.FieldAddr:
				p, ok := in.get(f, x.X).(PtrV)
				if !ok {
					fail("FieldAddr on %T in %s", in.get(f, x.X), fn.Name())
				}
				f.locals[x] = PtrV{p.c.kids[x.Field]}
			case *ssa.Field:
				a, ok := in.get(f, x.X).(AggV)
				if !ok {
					fail("Field on %T", in.get(f, x.X))
				}
				f.locals[x] = a.elems[x.Field]
			case *ssa.IndexAddr:
				idx, ok := in.get(f, x.Index).(Conc)
				if !ok {
					if _, u := in.get(f, x.Index).(Unknown); u && in.inInit {
						f.locals[x] = Unknown{"index"}
						continue
					}
					fail("memory index depends on a symbolic (input-dependent) value in %s", fn.Name())
				}
				i := int(idx.v.Int64())
				if in.tracing && len(in.trace) < 20_000_000 {
					in.trace = append(in.trace, fmt.Sprintf("%s[idx %d]", fn.Name(), i))
				}
				switch base := in.get(f, x.X).(type) {
				case PtrV:
					if i < 0 || i >= len(base.c.kids) {
						fail("index %d out of range (%d) in %s", i, len(base.c.kids), fn.Name())
					}
					f.locals[x] = PtrV{base.c.kids[i]}
				case SliceV:
					if i < 0 || i >= len(base.cells) {
						fail("slice index %d out of range (%d) in %s", i, len(base.cells), fn.Name())
					}
					f.locals[x] = PtrV{base.cells[i]}
				default:
					fail("IndexAddr on %T", base)
				}
			case *ssa.Index:
				idx, ok := in.get(f, x.Index).(Conc)
				if !ok {
					fail("array index depends on a symbolic (input-dependent) value in %s", fn.Name())
				}
				if sv, isStr := in.get(f, x.X).(StringV); isStr {
					f.locals[x] = Conc{big.NewInt(int64(sv.s[int(idx.v.Int64())]))}
					continue
				}
				a, ok := in.get(f, x.X).(AggV)
				if !ok {
					fail("Index on %T", in.get(f, x.X))
				}
				f.locals[x] = a.elems[int(idx.v.Int64())]
			case *ssa.UnOp:
				v := in.get(f, x.X)
				switch x.Op {
				case token.MUL:
					p, ok := v.(PtrV)
					if !ok {
						if in.inInit {
							f.locals[x] = Unknown{"deref"}
							continue
						}
						fail("deref of %T in %s", v, fn.Name())
					}
					f.locals[x] = p.c.load()
				case token.SUB:
					n, _ := width(x.X.Type())
					f.locals[x] = in.binop(token.SUB, Conc{big.NewInt(0)}, v, x.Type(), x.X.Type())
					_ = n
				case token.XOR:
					n, _ := width(x.X.Type())
					f.locals[x] = in.binop(token.XOR, v, Conc{mask(n)}, x.Type(), x.X.Type())
					if s, ok := v.(SymV); ok {
						// ^x = (2^n-1) - x : keep it arithmetic instead of an opaque xor
						f.locals[x] = SymV{in.em.emit(Op{kind: "subw", a: in.em.constant(mask(n)), b: s.id, k: n})}
					}
				case token.NOT:
					if cf, isC := v.(CondF); isC {
						f.locals[x] = CondF{cf.id, !cf.neg}
						continue
					}
					c, ok := v.(Conc)
					if !ok {
						if _, u := v.(Unknown); u {
							f.locals[x] = v
							continue
						}
						if sv, isSym := v.(SymV); isSym && in.forkMode {
							f.locals[x] = SymV{in.em.emit(Op{kind: "eq", a: sv.id, b: in.em.constant(big.NewInt(0))})}
							continue
						}
						fail("boolean not of symbolic value")
					}
					f.locals[x] = Conc{new(big.Int).Xor(c.v, big.NewInt(1))}
				default:
					fail("unsupported unop %s", x.Op)
				}
			case *ssa.BinOp:
				f.locals[x] = in.binop(x.Op, in.get(f, x.X), in.get(f, x.Y), x.Type(), x.X.Type())
			case *ssa.Store:
				p, ok := in.get(f, x.Addr).(PtrV)
				if !ok {
					if in.inInit {
						continue
					}
					fail("store through %T", in.get(f, x.Addr))
				}
				p.c.store(in.get(f, x.Val))
			case *ssa.Convert:
				f.locals[x] = in.convert(in.get(f, x.X), x.X.Type(), x.Type())
			case *ssa.ChangeType:
				f.locals[x] = in.get(f, x.X)
			case *ssa.Extract:
				t, ok := in.get(f, x.Tuple).(TupleV)
				if !ok {
					f.locals[x] = Unknown{"extract"}
					continue
				}
				f.locals[x] = t.elems[x.Index]
			case *ssa.Slice:
				f.locals[x] = in.slice(f, x)
			case *ssa.MakeClosure:
				var fv []Value
				for _, b := range x.Bindings {
					fv = append(fv, in.get(f, b))
				}
				f.locals[x] = FuncV{fn: x.Fn.(*ssa.Function), free: fv}
			case *ssa.MakeInterface:
				f.locals[x] = IfaceV{dyn: x.X.Type(), v: in.get(f, x.X)}
			case *ssa.ChangeInterface:
				f.locals[x] = in.get(f, x.X)
			case *ssa.TypeAssert:
				v := in.get(f, x.X)
				iv, isI := v.(IfaceV)
				okA := false
				var res Value = zeroValueOrAgg(x.AssertedType)
				if isI {
					if types.IsInterface(x.AssertedType) {
						okA = types.Implements(iv.dyn, x.AssertedType.Underlying().(*types.Interface))
						if okA {
							res = iv
						}
					} else if types.Identical(iv.dyn, x.AssertedType) {
						okA = true
						res = iv.v
					}
				} else if _, u := v.(Unknown); u {
					f.locals[x] = v
					continue
				}
				if x.CommaOk {
					b := big.NewInt(0)
					if okA {
						b = big.NewInt(1)
					}
					f.locals[x] = TupleV{[]Value{res, Conc{b}}}
				} else {
					if !okA {
						fail("failed type assertion to %s in %s", x.AssertedType, fn.Name())
					}
					f.locals[x] = res
				}
			case *ssa.MakeSlice:
				n, ok := in.get(f, x.Len).(Conc)
				if !ok {
					fail("make([]T, n) with a symbolic length")
				}
				et := x.Type().Underlying().(*types.Slice).Elem()
				s := SliceV{}
				for i := int64(0); i < n.v.Int64(); i++ {
					s.cells = append(s.cells, newCell(et))
				}
				if cp, ok := in.get(f, x.Cap).(Conc); ok {
					for i := n.v.Int64(); i < cp.v.Int64(); i++ {
						s.rest = append(s.rest, newCell(et))
					}
				} else {
					fail("make([]T, n, c) with a symbolic capacity")
				}
				f.locals[x] = s
			case *ssa.Call:
				f.locals[x] = in.doCall(f, &x.Call)
			case *ssa.Return:
				switch len(x.Results) {
				case 0:
					return nil
				case 1:
					return in.get(f, x.Results[0])
				}
				t := TupleV{}
				for _, r := range x.Results {
					t.elems = append(t.elems, in.get(f, r))
				}
				return t
			case *ssa.Jump:
				next = b.Succs[0]
			case *ssa.If:
				if sv, isSym := in.get(f, x.Cond).(SymV); isSym && in.forkMode {
					d := true
					if len(in.decisions) < len(in.script) {
						d = in.script[len(in.decisions)]
					}
					in.decisions = append(in.decisions, d)
					in.condVars = append(in.condVars, sv.id)
					in.segEnds = append(in.segEnds, len(in.em.ops))
					if len(in.decisions) > 4096 {
						fail("decision tree deeper than 4096")
					}
					if d {
						next = b.Succs[0]
					} else {
						next = b.Succs[1]
					}
					continue
				}
				if cf, isC := in.get(f, x.Cond).(CondF); isC && in.fl != nil {
					d := true
					if len(in.fl.decisions) < len(in.fl.script) {
						d = in.fl.script[len(in.fl.decisions)]
					}
					in.fl.decisions = append(in.fl.decisions, fdec{id: cf.id, neg: cf.neg, d: d, segEnd: len(in.fl.ops)})
					if len(in.fl.decisions) > 64 {
						fail("field-level decision tree deeper than 64")
					}
					if d {
						next = b.Succs[0]
					} else {
						next = b.Succs[1]
					}
					continue
				}
				c, ok := in.get(f, x.Cond).(Conc)
				if !ok {
					if _, u := in.get(f, x.Cond).(Unknown); u {
						fail("branch on an unsupported value in %s (%s)", fn.Name(), in.get(f, x.Cond).(Unknown).why)
					}
					fail("branch depends on a symbolic (input-dependent) value in %s", fn.Name())
				}
				if c.v.Sign() != 0 {
					next = b.Succs[0]
				} else {
					next = b.Succs[1]
				}
			case *ssa.Panic:
				if in.fl != nil {
					panic(fpanicLeaf{}) // field-level mode: a leaf of its own (to be proved unreachable)
				}
				fail("reached panic(...) in %s", fn.Name())
			case *ssa.DebugRef:
			case *ssa.RunDefers:
			case *ssa.Lookup, *ssa.MakeMap, *ssa.MapUpdate, *ssa.Range, *ssa.Next, *ssa.Defer, *ssa.Go, *ssa.Send, *ssa.Select, *ssa.MakeChan, *ssa.SliceToArrayPointer:
				if v, ok := ins.(ssa.Value); ok {
					f.locals[v] = Unknown{fmt.Sprintf("%T", ins)}
				}
			default:
				fail("unsupported instruction %T in %s", ins, fn.Name())
			}
		}
		if next == nil {
			fail("block without terminator in %s", fn.Name())
		}
		prev, b = b, next
	}
}

// asmSummary: constant-time mode only.  A function of the module that has no Go body is one of the hand-written amd64
// assembly routines (field arithmetic, AVX2 vector arithmetic, SSE2 table lookups, Keccak-f).  Their *control flow and
// addressing* are pinned separately (lib/asmlint.py against lib/asm_skeleton.json: straight-line code or counted loops,
// no data-indexed addressing), so for the leak analysis a call is a primitive whose memory effects are over-approximated:
// every leaf reachable through a pointer argument becomes an opaque (secret) value; scalar arguments are only read.
// In witness mode (all inputs concrete) the leaves become a deterministic pseudo-random function of everything the
// routine could read.  A routine that returns a value is not summarised (none exists in the tree).
func (in *Interp) asmSummary(fn *ssa.Function, args []Value) Value {
	if fn.Signature.Results().Len() != 0 {
		fail("assembly routine %s returns a value: no summary", fn.String())
	}
	// public data stays public: when everything the routine can read is concrete, the field routines are evaluated
	// through their generic Go twins (same contract, possibly another limb distribution) and Keccak-f by a reference
	// implementation, so that later branches on public values (decoding a public point, transcript framing) are decided
	concAll := true
	for _, a := range args {
		switch x := a.(type) {
		case PtrV:
			leaves(x.c, func(l *Cell) {
				if _, ok := l.val.(Conc); !ok {
					concAll = false
				}
			})
		case Conc:
		default:
			concAll = false
		}
	}
	if concAll {
		if twin := map[string]string{"feMul": "feMulGeneric", "fePow2k": "fePow2kGeneric"}[fn.Name()]; twin != "" && strings.HasSuffix(fn.Pkg.Pkg.Path(), "/internal/field") {
			if g, ok := fn.Pkg.Members[twin].(*ssa.Function); ok && g.Blocks != nil {
				return in.call(g, args, nil)
			}
		}
		if fn.Name() == "keccakF1600" && strings.HasSuffix(fn.Pkg.Pkg.Path(), "/internal/strobe") {
			if p, ok := args[0].(PtrV); ok && len(p.c.kids) == 25 {
				var st [25]uint64
				for i, k := range p.c.kids {
					st[i] = k.val.(Conc).v.Uint64()
				}
				keccakF1600Ref(&st)
				for i, k := range p.c.kids {
					k.val = Conc{new(big.Int).SetUint64(st[i])}
				}
				return nil
			}
		}
	}
	var cells []*Cell
	allConc := true
	h := sha256.New()
	h.Write([]byte(fn.String()))
	for _, a := range args {
		switch x := a.(type) {
		case PtrV:
			leaves(x.c, func(l *Cell) {
				cells = append(cells, l)
				if c, ok := l.val.(Conc); ok {
					h.Write(c.v.Bytes())
					h.Write([]byte{0})
				} else {
					allConc = false
				}
			})
		case Conc:
			h.Write(x.v.Bytes())
			h.Write([]byte{1})
		case SymV:
			allConc = false
		case NilV:
		default:
			fail("assembly routine %s called with an argument of kind %T: no summary", fn.String(), a)
		}
	}
	in.asmCalls++
	seed := h.Sum(nil)
	for i, l := range cells {
		n, _ := width(l.typ)
		if n == 0 {
			fail("assembly routine %s reaches a non-integer leaf (%s)", fn.String(), l.typ)
		}
		if allConc && concreteInputs != nil {
			d := sha256.Sum256(append(append([]byte{}, seed...), byte(i), byte(i>>8), byte(i>>16)))
			l.val = Conc{norm(new(big.Int).SetBytes(d[:8]), n)}
		} else {
			l.val = SymV{in.em.emit(Op{kind: "opaque"})}
		}
	}
	return nil
}

func (in *Interp) slice(f *frame, x *ssa.Slice) Value {
	var cells, rest []*Cell
	switch base := in.get(f, x.X).(type) {
	case PtrV:
		cells = base.c.kids
	case SliceV:
		cells, rest = base.cells, base.rest
	case StringV:
		lo, hi := 0, len(base.s)
		if x.Low != nil {
			lo = int(in.get(f, x.Low).(Conc).v.Int64())
		}
		if x.High != nil {
			hi = int(in.get(f, x.High).(Conc).v.Int64())
		}
		return StringV{base.s[lo:hi]}
	case Unknown:
		return base
	default:
		fail("slice of %T", base)
	}
	all := append(append([]*Cell{}, cells...), rest...)
	lo, hi, max := 0, len(cells), len(all)
	bound := func(v ssa.Value) int {
		c, ok := in.get(f, v).(Conc)
		if !ok {
			fail("slice bound depends on a symbolic (input-dependent) value in %s", f.fn.Name())
		}
		return int(c.v.Int64())
	}
	if x.Low != nil {
		lo = bound(x.Low)
	}
	if x.High != nil {
		hi = bound(x.High)
	}
	if x.Max != nil {
		max = bound(x.Max)
	}
	if lo < 0 || hi > len(all) || lo > hi || max > len(all) || hi > max {
		fail("slice bounds out of range [%d:%d:%d] of %d in %s", lo, hi, max, len(all), f.fn.Name())
	}
	return SliceV{cells: all[lo:hi], rest: all[hi:max]}
}

func (in *Interp) doCall(f *frame, c *ssa.CallCommon) Value {
	var args []Value
	for _, a := range c.Args {
		args = append(args, in.get(f, a))
	}
	if c.IsInvoke() {
		iv, ok := in.get(f, c.Value).(IfaceV)
		if !ok {
			if in.inInit {
				return Unknown{"invoke"}
			}
			if _, isU := in.get(f, c.Value).(Unknown); isU && c.Method.Name() == "Error" {
				return StringV{"error"} // the text of an opaque error value (only ever used to build a panic message)
			}
			fail("interface method call %s on %T", c.Method.Name(), in.get(f, c.Value))
		}
		if h, isH := iv.v.(*HashObj); isH {
			return in.hashMethod(h, c.Method.Name(), args)
		}
		m := in.prog.LookupMethod(iv.dyn, c.Method.Pkg(), c.Method.Name())
		if m == nil {
			fail("method %s not found on %s", c.Method.Name(), iv.dyn)
		}
		return in.call(m, append([]Value{iv.v}, args...), nil)
	}
	switch callee := c.Value.(type) {
	case *ssa.Builtin:
		switch callee.Name() {
		case "len", "cap":
			switch a := args[0].(type) {
			case SliceV:
				if callee.Name() == "cap" {
					return Conc{big.NewInt(int64(len(a.cells) + len(a.rest)))}
				}
				return Conc{big.NewInt(int64(len(a.cells)))}
			case StringV:
				return Conc{big.NewInt(int64(len(a.s)))}
			case Unknown:
				return a
			}
			fail("len of %T", args[0])
		case "min", "max":
			// on concrete (public) integers only: loop bounds, sizes
			best, ok := args[0].(Conc)
			if !ok {
				fail("builtin %s on a symbolic (input-dependent) value", callee.Name())
			}
			n, signed := width(c.Args[0].Type())
			val := func(v Conc) *big.Int {
				if signed {
					return signedVal(v.v, n)
				}
				return v.v
			}
			for _, a := range args[1:] {
				v, ok := a.(Conc)
				if !ok {
					fail("builtin %s on a symbolic (input-dependent) value", callee.Name())
				}
				if (callee.Name() == "min") == (val(v).Cmp(val(best)) < 0) {
					best = v
				}
			}
			return best
		case "clear":
			if s, ok := args[0].(SliceV); ok {
				for _, cl := range s.cells {
					leaves(cl, func(l *Cell) { l.val = zeroValue(l.typ) })
				}
				return nil
			}
			fail("builtin clear on %T", args[0])
		case "append":
			dst, ok := args[0].(SliceV)
			if !ok {
				return Unknown{"append"}
			}
			var vals []Value
			switch src := args[1].(type) {
			case SliceV:
				for _, c := range src.cells {
					vals = append(vals, c.load())
				}
			case StringV:
				for i := 0; i < len(src.s); i++ {
					vals = append(vals, Conc{big.NewInt(int64(src.s[i]))})
				}
			default:
				return Unknown{"append"}
			}
			if len(vals) <= len(dst.rest) {
				for i, v := range vals {
					dst.rest[i].store(v)
				}
				return SliceV{cells: append(append([]*Cell{}, dst.cells...), dst.rest[:len(vals)]...), rest: dst.rest[len(vals):]}
			}
			var et types.Type
			if st, ok := c.Args[0].Type().Underlying().(*types.Slice); ok {
				et = st.Elem()
			} else {
				return Unknown{"append"}
			}
			ns := SliceV{}
			for _, c := range dst.cells {
				nc := newCell(et)
				nc.store(c.load())
				ns.cells = append(ns.cells, nc)
			}
			for _, v := range vals {
				nc := newCell(et)
				nc.store(v)
				ns.cells = append(ns.cells, nc)
			}
			return ns
		case "copy":
			d, ok1 := args[0].(SliceV)
			if str, isStr := args[1].(StringV); isStr && ok1 {
				n := len(d.cells)
				if len(str.s) < n {
					n = len(str.s)
				}
				for i := 0; i < n; i++ {
					d.cells[i].store(Conc{big.NewInt(int64(str.s[i]))})
				}
				return Conc{big.NewInt(int64(n))}
			}
			s, ok2 := args[1].(SliceV)
			if !ok1 || !ok2 {
				return Unknown{"copy"}
			}
			n := len(d.cells)
			if len(s.cells) < n {
				n = len(s.cells)
			}
			vals := make([]Value, n)
			for i := 0; i < n; i++ {
				vals[i] = s.cells[i].load()
			}
			for i := 0; i < n; i++ {
				d.cells[i].store(vals[i])
			}
			return Conc{big.NewInt(int64(n))}
		}
		if in.inInit {
			return Unknown{"builtin " + callee.Name()}
		}
		fail("unsupported builtin %s", callee.Name())
	case *ssa.Function:
		return in.call(callee, args, nil)
	case *ssa.MakeClosure:
		fv := in.get(f, callee).(FuncV)
		return in.call(fv.fn, args, fv.free)
	default:
		v := in.get(f, c.Value)
		if fv, ok := v.(FuncV); ok {
			return in.call(fv.fn, args, fv.free)
		}
		if in.inInit {
			return Unknown{"dynamic call"}
		}
		fail("dynamic call through %T", v)
	}
	return nil
}

// intrinsics: math/bits and encoding/binary helpers with exact wide semantics
func (in *Interp) intrinsic(fn *ssa.Function, args []Value) (Value, bool) {
	name := fn.String()
	em := in.em
	id := func(v Value) int {
		i, ok := in.symOrConst(v)
		if !ok {
			fail("intrinsic %s on %T", name, v)
		}
		return i
	}
	allConc := true
	for _, a := range args {
		if _, ok := a.(Conc); !ok {
			allConc = false
		}
	}
	switch name {
	case "math/bits.Mul64":
		if allConc {
			p := new(big.Int).Mul(args[0].(Conc).v, args[1].(Conc).v)
			return TupleV{[]Value{Conc{new(big.Int).Rsh(p, 64)}, Conc{norm(p, 64)}}}, true
		}
		if in.inInit {
			return Unknown{"sym"}, true
		}
		w := em.emit(Op{kind: "mul", a: id(args[0]), b: id(args[1])})
		hi := em.emit(Op{kind: "shr", a: w, k: 64})
		lo := em.emit(Op{kind: "low", a: w, k: 64})
		return TupleV{[]Value{SymV{hi}, SymV{lo}}}, true
	case "math/bits.Add64":
		if allConc {
			s := new(big.Int).Add(new(big.Int).Add(args[0].(Conc).v, args[1].(Conc).v), args[2].(Conc).v)
			return TupleV{[]Value{Conc{norm(s, 64)}, Conc{new(big.Int).Rsh(s, 64)}}}, true
		}
		if in.inInit {
			return Unknown{"sym"}, true
		}
		var w int
		if c, ok := args[2].(Conc); ok && c.v.Sign() == 0 {
			w = em.emit(Op{kind: "add", a: id(args[0]), b: id(args[1])})
		} else {
			t := em.emit(Op{kind: "add", a: id(args[0]), b: id(args[1])})
			w = em.emit(Op{kind: "add", a: t, b: id(args[2])})
		}
		lo := em.emit(Op{kind: "low", a: w, k: 64})
		hi := em.emit(Op{kind: "shr", a: w, k: 64})
		return TupleV{[]Value{SymV{lo}, SymV{hi}}}, true
	case "math/bits.Sub64":
		if allConc {
			d := new(big.Int).Sub(new(big.Int).Sub(args[0].(Conc).v, args[1].(Conc).v), args[2].(Conc).v)
			br := big.NewInt(0)
			if d.Sign() < 0 {
				br = big.NewInt(1)
			}
			return TupleV{[]Value{Conc{norm(d, 64)}, Conc{br}}}, true
		}
		fail("bits.Sub64 on symbolic values is not supported")
	case "(encoding/binary.littleEndian).Uint64", "(encoding/binary.littleEndian).Uint32", "(encoding/binary.littleEndian).Uint16":
		nb := map[string]int{"64": 8, "32": 4, "16": 2}[name[len(name)-2:]]
		s, ok := args[len(args)-1].(SliceV)
		if !ok {
			return Unknown{"binary on non-slice"}, true
		}
		if len(s.cells) < nb {
			fail("binary.LittleEndian read of %d bytes from a %d-byte slice", nb, len(s.cells))
		}
		conc := true
		for i := 0; i < nb; i++ {
			if _, ok := s.cells[i].val.(Conc); !ok {
				conc = false
			}
		}
		if conc {
			v := new(big.Int)
			for i := nb - 1; i >= 0; i-- {
				v.Lsh(v, 8)
				v.Or(v, s.cells[i].val.(Conc).v)
			}
			return Conc{v}, true
		}
		if in.inInit {
			return Unknown{"sym"}, true
		}
		acc := id(s.cells[0].val)
		for i := 1; i < nb; i++ {
			sh := em.emit(Op{kind: "shl", a: id(s.cells[i].val), k: 8 * i})
			acc = em.emit(Op{kind: "add", a: acc, b: sh})
		}
		return SymV{acc}, true
	case "(encoding/binary.littleEndian).PutUint64", "(encoding/binary.littleEndian).PutUint32":
		nb := map[string]int{"64": 8, "32": 4}[name[len(name)-2:]]
		s, ok := args[len(args)-2].(SliceV)
		if !ok {
			return Unknown{"binary on non-slice"}, true
		}
		if len(s.cells) < nb {
			fail("binary.LittleEndian write of %d bytes to a %d-byte slice", nb, len(s.cells))
		}
		v := args[len(args)-1]
		for i := 0; i < nb; i++ {
			switch x := v.(type) {
			case Conc:
				s.cells[i].store(Conc{norm(new(big.Int).Rsh(x.v, uint(8*i)), 8)})
			case SymV:
				t := x.id
				if i > 0 {
					t = em.emit(Op{kind: "shr", a: x.id, k: 8 * i})
				}
				s.cells[i].store(SymV{em.emit(Op{kind: "low", a: t, k: 8})})
			default:
				return Unknown{"put"}, true
			}
		}
		return nil, true
	}
	return nil, false
}

// ---------------------------------------------------------------- targets
type Target struct {
	Name  string   `json:"name"`  // Lean identifier prefix, e.g. "feMulGeneric"
	Group string   `json:"group"` // Lean namespace / file, e.g. "FieldU64"
	Pkg   string   `json:"pkg"`   // import path suffix, e.g. "internal/field"
	Tags  string   `json:"tags"`  // build tags
	Fn    string   `json:"fn"`    // "feMulGeneric" or "(*Element).reduce"
	Args  []string `json:"args"`  // per parameter: in | out | inout | const:<n> | sym | inbytes:<n> | outbytes:<n> | zero
	Ret   string   `json:"ret"`   // "" | "out": integer leaves of the result value are outputs
	// constant-time mode (-ct): "ct" = must translate (no input-dependent branch / index / shift / length),
	// "leak" = negative control: a variable-time routine that must be REJECTED (sanity check of the detector)
	Expect  string   `json:"expect"`
	script  []bool   // decision-tree mode: decisions to follow on this run
	Fork    bool     `json:"fork"`    // decision-tree mode: explore both outcomes of every branch on a symbolic value
	Tier    string   `json:"tier"`    // "thorough": skipped unless -tier thorough
	Declass []string `json:"declass"` // functions (ssa names) in which comparisons on symbolic values are documented declassifications
}

type Result struct {
	T       Target
	Ops     []Op
	Nin     int
	InBits  []int
	Outs    []int // IR ids, -1-k for a constant output (materialised as const op)
	OutBits []int
	Err     string
	Wrap    string // Go source of the T0 wrapper closure body
	NOps    int
	// decision-tree mode
	Decisions []bool
	CondVars  []int
	SegEnds   []int
	Tree      *DNode
}

// DNode is a node of the decision tree of a variable-time predicate: run Ops, then branch on value Cond (non-zero =
// then-branch), or stop with outputs Outs.
type DNode struct {
	Ops  []Op
	Cond int
	T, E *DNode
	Outs []int
	Leaf bool
}

func findFunc(pkg *ssa.Package, name string) *ssa.Function {
	if strings.HasPrefix(name, "(") {
		// method: (*T).m or (T).m
		close := strings.Index(name, ")")
		recv := name[1:close]
		m := name[close+2:]
		ptr := strings.HasPrefix(recv, "*")
		tn := strings.TrimPrefix(recv, "*")
		obj := pkg.Pkg.Scope().Lookup(tn)
		if obj == nil {
			return nil
		}
		var t types.Type = obj.Type()
		if ptr {
			t = types.NewPointer(t)
		}
		sel := pkg.Prog.MethodSets.MethodSet(t).Lookup(pkg.Pkg, m)
		if sel == nil {
			return nil
		}
		return pkg.Prog.MethodValue(sel)
	}
	return pkg.Func(name)
}

func translate(prog *ssa.Program, pkg *ssa.Package, globals map[*ssa.Global]*Cell, t Target) (res Result) {
	res = translate1(prog, pkg, globals, t, false)
	if len(t.Declass) > 0 && res.Err == "" {
		// explore the other outcome of the declassified comparisons too
		r2 := translate1(prog, pkg, globals, t, true)
		if r2.Err != "" {
			r2.Err = "(declassified comparisons = true) " + r2.Err
			return r2
		}
		res.Ops = append(res.Ops, r2.Ops...)
		res.NOps += r2.NOps
	}
	return res
}

func translate1(prog *ssa.Program, pkg *ssa.Package, globals map[*ssa.Global]*Cell, t Target, declassVal bool) (res Result) {
	res.T = t
	defer func() {
		if e := recover(); e != nil {
			if te, ok := e.(transErr); ok {
				res.Err = te.msg
				return
			}
			res.Err = fmt.Sprintf("internal error: %v", e)
			if os.Getenv("GO2IR_TRACE") != "" {
				fmt.Fprintf(os.Stderr, "go2ir: internal error in %s: %v\n%s\n", t.Name, e, debug.Stack())
			}
		}
	}()
	fn := findFunc(pkg, t.Fn)
	if fn == nil {
		fail("function %s not found in %s", t.Fn, t.Pkg)
	}
	em := &Emitter{consts: map[string]int{}, countOnly: ctCountOnly}
	in := &Interp{prog: prog, em: em, globals: globals, forkMode: t.Fork, script: t.script, declass: map[string]bool{}, declassVal: declassVal, initComplete: func() bool { v, _ := initCompleteByProg.Load(prog); b, _ := v.(bool); return b }()}
	for _, d := range t.Declass {
		in.declass[d] = true
	}
	if len(t.Args) != len(fn.Params) {
		fail("target %s: %d arg specs for %d parameters", t.Name, len(t.Args), len(fn.Params))
	}
	var args []Value
	var outCells []*Cell
	newSym := func(ty types.Type) Value {
		n, _ := width(ty)
		res.InBits = append(res.InBits, n)
		id := em.nin
		em.nin++
		if concreteInputs != nil {
			v := new(big.Int).SetUint64(concreteInputs[id%len(concreteInputs)])
			return Conc{norm(v, n)}
		}
		return SymV{id}
	}
	if concreteInputs != nil {
		in.tracing = true
	}
	// inputs must be numbered before any op is emitted
	for i, spec := range t.Args {
		pt := fn.Params[i].Type()
		kind, param := spec, ""
		if j := strings.Index(spec, ":"); j >= 0 {
			kind, param = spec[:j], spec[j+1:]
		}
		switch kind {
		case "in", "out", "inout", "zero":
			p, ok := pt.Underlying().(*types.Pointer)
			if !ok {
				fail("arg %d of %s is not a pointer", i, t.Name)
			}
			c := newCell(p.Elem())
			if kind == "in" || kind == "inout" {
				leaves(c, func(l *Cell) {
					if b, ok := l.typ.Underlying().(*types.Basic); ok && b.Info()&types.IsInteger != 0 {
						l.val = newSym(l.typ)
					}
				})
			}
			if kind == "out" || kind == "inout" {
				leaves(c, func(l *Cell) {
					if b, ok := l.typ.Underlying().(*types.Basic); ok && b.Info()&types.IsInteger != 0 {
						outCells = append(outCells, l)
					}
				})
			}
			args = append(args, PtrV{c})
		case "mix":
			// a byte slice made of segments: sN = N symbolic (secret) bytes, cN = N concrete (public) bytes
			sl := SliceV{}
			et := pt.Underlying().(*types.Slice).Elem()
			for _, seg := range strings.Split(param, ",") {
				var n int
				fmt.Sscanf(seg[1:], "%d", &n)
				for j := 0; j < n; j++ {
					c := newCell(et)
					if seg[0] == 's' {
						c.val = newSym(et)
					} else {
						c.val = Conc{big.NewInt(int64((len(sl.cells)*7 + 1) & 0xff))}
					}
					sl.cells = append(sl.cells, c)
				}
			}
			args = append(args, sl)
		case "inptrs":
			// a slice of N pointers to fresh objects whose integer leaves are all symbolic
			var n int
			fmt.Sscanf(param, "%d", &n)
			et := pt.Underlying().(*types.Slice).Elem()
			sl := SliceV{}
			for j := 0; j < n; j++ {
				obj := newCell(et.Underlying().(*types.Pointer).Elem())
				leaves(obj, func(l *Cell) {
					if b, ok := l.typ.Underlying().(*types.Basic); ok && b.Info()&types.IsInteger != 0 {
						l.val = newSym(l.typ)
					}
				})
				pc := newCell(et)
				pc.val = PtrV{obj}
				sl.cells = append(sl.cells, pc)
			}
			args = append(args, sl)
		case "global":
			m, ok := pkg.Members[param].(*ssa.Global)
			if !ok {
				fail("no package-level variable %s", param)
			}
			args = append(args, in.global(m).load())
		case "const":
			bi, ok := new(big.Int).SetString(param, 10)
			if !ok {
				fail("bad const %s", param)
			}
			n, _ := width(pt)
			args = append(args, Conc{norm(bi, n)})
		case "sym":
			args = append(args, newSym(pt))
		case "inbytes", "outbytes":
			var n int
			fmt.Sscanf(param, "%d", &n)
			s := SliceV{}
			et := pt.Underlying().(*types.Slice).Elem()
			for j := 0; j < n; j++ {
				c := newCell(et)
				if kind == "inbytes" {
					c.val = newSym(et)
				} else {
					outCells = append(outCells, c)
				}
				s.cells = append(s.cells, c)
			}
			args = append(args, s)
		default:
			fail("unknown arg spec %q", spec)
		}
	}
	res.Wrap = genWrap(fn, t)
	ret := in.call(fn, args, nil)
	lastTrace = in.trace
	var outVals []Value
	var outTypes []types.Type
	for _, c := range outCells {
		outVals = append(outVals, c.val)
		outTypes = append(outTypes, c.typ)
	}
	if t.Ret == "out" {
		var walk func(v Value, ty types.Type)
		walk = func(v Value, ty types.Type) {
			switch u := ty.Underlying().(type) {
			case *types.Array:
				for _, e := range v.(AggV).elems {
					walk(e, u.Elem())
				}
			case *types.Struct:
				for i, e := range v.(AggV).elems {
					walk(e, u.Field(i).Type())
				}
			case *types.Tuple:
				for i, e := range v.(TupleV).elems {
					walk(e, u.At(i).Type())
				}
			case *types.Slice:
				if sl, ok := v.(SliceV); ok {
					for _, c := range sl.cells {
						walk(c.load(), u.Elem())
					}
				}
			case *types.Basic:
				if u.Info()&(types.IsInteger|types.IsBoolean) != 0 {
					outVals = append(outVals, v)
					outTypes = append(outTypes, ty)
				}
			}
		}
		walk(ret, fn.Signature.Results().At(0).Type())
		if fn.Signature.Results().Len() > 1 {
			fail("ret=out supports single results only")
		}
	}
	for i, v := range outVals {
		id, ok := in.symOrConst(v)
		if !ok {
			fail("output %d is %T", i, v)
		}
		n, _ := width(outTypes[i])
		res.Outs = append(res.Outs, id)
		res.OutBits = append(res.OutBits, n)
	}
	res.Ops = em.ops
	res.NOps = len(em.ops) + em.count
	res.Nin = em.nin
	res.Decisions, res.CondVars, res.SegEnds = in.decisions, in.condVars, in.segEnds
	return
}

// translateFork explores every path of a target in decision-tree mode (one deterministic re-execution per tree node).
func translateFork(prog *ssa.Program, pkg *ssa.Package, globals map[*ssa.Global]*Cell, t Target) Result {
	nodes := 0
	var first Result
	var build func(prefix []bool) (*DNode, string)
	build = func(prefix []bool) (*DNode, string) {
		nodes++
		if nodes > 5000 {
			return nil, "decision tree has more than 5000 nodes"
		}
		tt := t
		tt.script = prefix
		r := translate1(prog, pkg, globals, tt, false)
		if r.Err != "" {
			return nil, r.Err
		}
		if nodes == 1 {
			first = r
		}
		d := len(prefix)
		start := 0
		if d > 0 {
			start = r.SegEnds[d-1]
		}
		if len(r.Decisions) == d {
			return &DNode{Ops: r.Ops[start:], Outs: r.Outs, Leaf: true}, ""
		}
		n := &DNode{Ops: r.Ops[start:r.SegEnds[d]], Cond: r.CondVars[d]}
		var e string
		if n.T, e = build(append(append([]bool{}, prefix...), true)); e != "" {
			return nil, e
		}
		if n.E, e = build(append(append([]bool{}, prefix...), false)); e != "" {
			return nil, e
		}
		return n, ""
	}
	root, err := build(nil)
	res := first
	res.T = t
	res.Ops = nil
	if err != "" {
		res.Err = err
		return res
	}
	res.Tree = root
	return res
}

func treeLean(n *DNode, ind string) string {
	var sb strings.Builder
	ops := make([]string, len(n.Ops))
	for i, o := range n.Ops {
		ops[i] = opLean(o)
	}
	if n.Leaf {
		fmt.Fprintf(&sb, "%s(.leaf [%s] %s)", ind, strings.Join(ops, ", "), intList(n.Outs))
		return sb.String()
	}
	fmt.Fprintf(&sb, "%s(.node [%s] %d\n%s\n%s)", ind, strings.Join(ops, ", "), n.Cond, treeLean(n.T, ind+" "), treeLean(n.E, ind+" "))
	return sb.String()
}

func treeTxt(n *DNode) string {
	ops := make([]string, len(n.Ops))
	for i, o := range n.Ops {
		ops[i] = opTxt(o)
	}
	if n.Leaf {
		return fmt.Sprintf("( L %s | %s )", strings.Join(ops, " ; "), strings.Trim(strings.ReplaceAll(intList(n.Outs), " ", ""), "[]"))
	}
	return fmt.Sprintf("( N %s | %d %s %s )", strings.Join(ops, " ; "), n.Cond, treeTxt(n.T), treeTxt(n.E))
}

// treeShallow renders the decision tree as an ordinary Lean function (shallow embedding) made of nested `if`s whose
// conditions are arithmetic propositions over the inputs, every intermediate value inlined.  This is the form the
// canonicity theorems are proved about (one lemma application per `if`, then omega per path).
func treeShallow(name string, nin int, root *DNode) string {
	var sb strings.Builder
	args := make([]string, nin)
	for i := range args {
		args[i] = fmt.Sprintf("x%d", i)
	}
	fmt.Fprintf(&sb, "def %s_sh (%s : Nat) : List Nat :=\n", name, strings.Join(args, " "))
	type ex struct {
		s    string
		cond bool
		c0   bool // the constant 0
	}
	var rec func(n *DNode, next int, env map[int]ex, ind string)
	rec = func(n *DNode, next int, env0 map[int]ex, ind string) {
		env := map[int]ex{}
		for k, v := range env0 {
			env[k] = v
		}
		nat := func(id int) string {
			if id < nin {
				return fmt.Sprintf("x%d", id)
			}
			e := env[id]
			if e.cond {
				return "(if " + e.s + " then 1 else 0)"
			}
			return e.s
		}
		for _, o := range n.Ops {
			id := next
			next++
			switch o.kind {
			case "const":
				env[id] = ex{s: o.n.String(), c0: o.n.Sign() == 0}
			case "add":
				env[id] = ex{s: fmt.Sprintf("(%s + %s)", nat(o.a), nat(o.b))}
			case "mul":
				env[id] = ex{s: fmt.Sprintf("(%s * %s)", nat(o.a), nat(o.b))}
			case "subw":
				env[id] = ex{s: fmt.Sprintf("((%s + 2^%d - %s %% 2^%d) %% 2^%d)", nat(o.a), o.k, nat(o.b), o.k, o.k)}
			case "shr":
				env[id] = ex{s: fmt.Sprintf("(%s / 2^%d)", nat(o.a), o.k)}
			case "shl":
				env[id] = ex{s: fmt.Sprintf("(%s * 2^%d)", nat(o.a), o.k)}
			case "low", "wrap":
				env[id] = ex{s: fmt.Sprintf("(%s %% 2^%d)", nat(o.a), o.k)}
			case "lt":
				env[id] = ex{s: fmt.Sprintf("(%s < %s)", nat(o.a), nat(o.b)), cond: true}
			case "eq":
				if env[o.a].cond && env[o.b].c0 {
					env[id] = ex{s: "(¬" + env[o.a].s + ")", cond: true}
				} else {
					env[id] = ex{s: fmt.Sprintf("(%s = %s)", nat(o.a), nat(o.b)), cond: true}
				}
			case "and":
				if env[o.a].cond && env[o.b].cond {
					env[id] = ex{s: "(" + env[o.a].s + " ∧ " + env[o.b].s + ")", cond: true}
				} else {
					env[id] = ex{s: fmt.Sprintf("(%s &&& %s)", nat(o.a), nat(o.b))}
				}
			case "or":
				env[id] = ex{s: fmt.Sprintf("(%s ||| %s)", nat(o.a), nat(o.b))}
			case "xor":
				env[id] = ex{s: fmt.Sprintf("(%s ^^^ %s)", nat(o.a), nat(o.b))}
			default:
				panic("shallow: " + o.kind)
			}
		}
		if n.Leaf {
			outs := make([]string, len(n.Outs))
			for i, o := range n.Outs {
				outs[i] = nat(o)
			}
			fmt.Fprintf(&sb, "%s[%s]\n", ind, strings.Join(outs, ", "))
			return
		}
		c := env[n.Cond].s
		if !env[n.Cond].cond {
			c = nat(n.Cond) + " ≠ 0"
		}
		fmt.Fprintf(&sb, "%sif %s then\n", ind, c)
		rec(n.T, next, env, ind+"  ")
		fmt.Fprintf(&sb, "%selse\n", ind)
		rec(n.E, next, env, ind+"  ")
	}
	rec(root, nin, map[int]ex{}, "  ")
	return sb.String()
}

func treeStats(n *DNode) (leaves, depth int) {
	if n.Leaf {
		return 1, 0
	}
	l1, d1 := treeStats(n.T)
	l2, d2 := treeStats(n.E)
	if d2 > d1 {
		d1 = d2
	}
	return l1 + l2, d1 + 1
}

// genWrap renders a Go closure that calls the real function on a flat vector of input integers and returns the flat
// vector of outputs, in exactly the variable order used by the IR program (stream T0 compares the two).
func genWrap(fn *ssa.Function, t Target) string {
	var sb strings.Builder
	q := func(ty types.Type) string {
		return types.TypeString(ty, func(p *types.Package) string {
			if p == fn.Pkg.Pkg {
				return ""
			}
			return p.Name()
		})
	}
	fmt.Fprintf(&sb, "\tverifT0[%q] = func(in []uint64) []uint64 {\n\t\tp := 0\n\t\tvar out []uint64\n\t\t_ = p\n", t.Group+"."+t.Name)
	var callArgs []string
	var post []string
	for i, spec := range t.Args {
		pt := fn.Params[i].Type()
		kind, param := spec, ""
		if j := strings.Index(spec, ":"); j >= 0 {
			kind, param = spec[:j], spec[j+1:]
		}
		v := fmt.Sprintf("a%d", i)
		switch kind {
		case "in", "out", "inout", "zero":
			el := pt.Underlying().(*types.Pointer).Elem()
			fmt.Fprintf(&sb, "\t\tvar %s %s\n", v, q(el))
			if kind == "in" || kind == "inout" {
				fmt.Fprintf(&sb, "\t\tp += verifFill(&%s, in[p:])\n", v)
			}
			if kind == "out" || kind == "inout" {
				post = append(post, fmt.Sprintf("\t\tout = append(out, verifRead(&%s)...)\n", v))
			}
			callArgs = append(callArgs, "&"+v)
		case "const":
			callArgs = append(callArgs, fmt.Sprintf("%s(%s)", q(pt), param))
		case "sym":
			fmt.Fprintf(&sb, "\t\t%s := %s(in[p])\n\t\tp++\n", v, q(pt))
			callArgs = append(callArgs, v)
		case "inbytes":
			fmt.Fprintf(&sb, "\t\t%s := make([]byte, %s)\n\t\tfor i := range %s {\n\t\t\t%s[i] = byte(in[p])\n\t\t\tp++\n\t\t}\n", v, param, v, v)
			callArgs = append(callArgs, v)
		case "outbytes":
			fmt.Fprintf(&sb, "\t\t%s := make([]byte, %s)\n", v, param)
			post = append(post, fmt.Sprintf("\t\tfor _, b := range %s {\n\t\t\tout = append(out, uint64(b))\n\t\t}\n", v))
			callArgs = append(callArgs, v)
		}
	}
	call := ""
	if fn.Signature.Recv() != nil {
		call = fmt.Sprintf("(%s).%s(%s)", callArgs[0], fn.Name(), strings.Join(callArgs[1:], ", "))
	} else {
		call = fmt.Sprintf("%s(%s)", fn.Name(), strings.Join(callArgs, ", "))
	}
	if t.Ret == "out" {
		fmt.Fprintf(&sb, "\t\tr := %s\n", call)
		post = append(post, "\t\tout = append(out, verifRead(&r)...)\n")
	} else if fn.Signature.Results().Len() > 0 {
		blanks := make([]string, fn.Signature.Results().Len())
		for i := range blanks {
			blanks[i] = "_"
		}
		fmt.Fprintf(&sb, "\t\t%s = %s\n", strings.Join(blanks, ", "), call)
	} else {
		fmt.Fprintf(&sb, "\t\t%s\n", call)
	}
	for _, l := range post {
		sb.WriteString(l)
	}
	sb.WriteString("\t\treturn out\n\t}\n")
	return sb.String()
}

func runInit(prog *ssa.Program, pkg *ssa.Package, globals map[*ssa.Global]*Cell, module string) (err string) {
	defer func() {
		if e := recover(); e != nil {
			if te, ok := e.(transErr); ok {
				err = te.msg
				return
			}
			err = fmt.Sprintf("internal error in init: %v", e)
		}
	}()
	in := &Interp{prog: prog, em: &Emitter{consts: map[string]int{}}, globals: globals, inInit: true, module: module}
	initFn := pkg.Func("init")
	// skip the imported packages' init calls: interpret, treating calls to other packages' init as no-ops
	in.callInit(initFn)
	return ""
}

func (in *Interp) callInit(fn *ssa.Function) {
	// a copy of the block walker restricted to what package initialisers use; calls to "init" of other packages are skipped
	origIntrinsic := fn
	_ = origIntrinsic
	in.call(fn, nil, nil)
}

func opLean(o Op) string {
	switch o.kind {
	case "const":
		return fmt.Sprintf(".const %s", o.n.String())
	case "add", "mul", "and", "or", "xor":
		return fmt.Sprintf(".%s %d %d", o.kind, o.a, o.b)
	case "subw":
		return fmt.Sprintf(".subw %d %d %d", o.a, o.b, o.k)
	case "shr", "shl", "low", "wrap":
		return fmt.Sprintf(".%s %d %d", o.kind, o.a, o.k)
	case "lt", "eq":
		return fmt.Sprintf(".%s %d %d", o.kind, o.a, o.b)
	case "opaque":
		panic("opaque values (hash outputs) are only allowed in constant-time mode")
	}
	panic("bad op " + o.kind)
}
func opTxt(o Op) string { return strings.TrimPrefix(opLean(o), ".") }

func main() {
	var (
		repo    = flag.String("repo", "/repo", "repository root")
		targets = flag.String("targets", "", "targets.json")
		leanDir = flag.String("lean", "", "output directory for Voi/Gen/*.lean")
		txt     = flag.String("txt", "", "output text file (programs for the driver)")
		module  = flag.String("module", "github.com/oasisprotocol/curve25519-voi", "module path")
		witness = flag.String("witness", "", "constant-time witness search for the named target (name@tags): run it on pairs of concrete secrets and compare control-flow/index traces; writes a replay file")
		witOut  = flag.String("witness-out", "", "replay file for -witness")
		overlay = flag.String("overlay", "", "directory whose files are grafted onto the repository tree (export/<pkg path>/*.go, build tag verif)")
		ctOut   = flag.String("ct", "", "constant-time mode: translate every target, write only a summary (json) to this file")
		gowrap  = flag.String("gowrap", "", "output directory for generated Go wrappers (export/<pkg>/verif_t0_<group>.go) used by stream T0")
		tier    = flag.String("tier", "quick", "quick | thorough (targets marked thorough are skipped in quick)")
		asm     = flag.Bool("asm", false, "also translate the amd64 field assembly (group FieldAsm)")
		flevel  = flag.String("flevel", "", "field-level mode: ftargets.json (internal/field.Element abstract; output FL_<Group>_<fn>.lean and -txt)")
		globals = flag.String("globals", "", "comma separated <pkg>:<tags>:<LeanGroup> triples: dump every package-level variable after interpreting the initialisers")
	)
	flag.Parse()
	modulePath = *module
	ctCountOnly = *ctOut != ""
	if *globals != "" {
		dumpGlobals(*repo, *module, *globals, *leanDir)
		return
	}
	var ts []Target
	var fts []FTarget
	if *flevel != "" {
		b, err := os.ReadFile(*flevel)
		if err != nil {
			panic(err)
		}
		if err := json.Unmarshal(b, &fts); err != nil {
			panic(err)
		}
		for _, f := range fts {
			ts = append(ts, Target{Name: f.Name, Group: f.Group, Pkg: f.Pkg, Tags: f.Tags})
		}
	} else {
	b, err := os.ReadFile(*targets)
	if err != nil {
		panic(err)
	}
	if err := json.Unmarshal(b, &ts); err != nil {
		panic(err)
	}
	}
	var fresults []FResult
	ftByName := map[string]FTarget{}
	for _, f := range fts {
		ftByName[f.Group+"."+f.Name] = f
	}
	// group by (pkg, tags) so that each configuration is loaded once
	type key struct{ pkg, tags string }
	byKey := map[key][]Target{}
	var keys []key
	for _, t := range ts {
		if t.Tier == "thorough" && *tier != "thorough" {
			continue
		}
		k := key{t.Pkg, t.Tags}
		if _, ok := byKey[k]; !ok {
			keys = append(keys, k)
		}
		byKey[k] = append(byKey[k], t)
	}
	var results []Result
	var mu sync.Mutex
	resByKey := map[key][]Result{}
	addRes := func(k key, r Result) { mu.Lock(); resByKey[k] = append(resByKey[k], r); mu.Unlock() }
	sem := make(chan struct{}, 6)
	var wg sync.WaitGroup
	for _, k := range keys {
		k := k
		wg.Add(1)
		sem <- struct{}{}
		go func() {
			defer func() { <-sem; wg.Done() }()
			func() {
		cfg := &packages.Config{Mode: packages.LoadAllSyntax, Dir: *repo, BuildFlags: []string{"-tags=" + strings.ReplaceAll(k.tags, " ", ",")},
			Env: append(os.Environ(), "GOFLAGS=-mod=mod", "GOPROXY=off", "GOSUMDB=off", "GOTOOLCHAIN=local")}
		if *overlay != "" {
			cfg.BuildFlags = []string{"-tags=verif," + strings.ReplaceAll(k.tags, " ", ",")}
			cfg.Overlay = map[string][]byte{}
			filepath.Walk(*overlay, func(p string, fi os.FileInfo, err error) error {
				if err == nil && !fi.IsDir() && strings.HasSuffix(p, ".go") && !strings.Contains(filepath.Base(p), "verif_t0") && !strings.HasSuffix(p, "_opt.go") && !strings.HasSuffix(p, "_stub.go") {
					rel, _ := filepath.Rel(*overlay, p)
					b, _ := os.ReadFile(p)
					cfg.Overlay[filepath.Join(*repo, rel)] = b
				}
				return nil
			})
		}
		pkgs, err := packages.Load(cfg, *module+"/"+k.pkg)
		if err != nil || len(pkgs) != 1 || len(pkgs[0].Errors) > 0 {
			msg := fmt.Sprint(err)
			if len(pkgs) > 0 {
				msg += fmt.Sprint(pkgs[0].Errors)
			}
			for _, t := range byKey[k] {
				addRes(k, Result{T: t, Err: "package load failed: " + msg})
				if *flevel != "" {
					mu.Lock()
					fresults = append(fresults, FResult{T: ftByName[t.Group+"."+t.Name], Err: "package load failed: " + msg})
					mu.Unlock()
				}
			}
			return
		}
		prog, _ := ssautil.AllPackages(pkgs, ssa.InstantiateGenerics)
		prog.Build()
		spkg := prog.Package(pkgs[0].Types)
		globals := map[*ssa.Global]*Cell{}
		// initialise dependencies' package-level variables first (same module only), then the package itself
		var order []*ssa.Package
		seen := map[*types.Package]bool{}
		var visit func(p *types.Package)
		visit = func(p *types.Package) {
			if seen[p] {
				return
			}
			seen[p] = true
			for _, imp := range p.Imports() {
				visit(imp)
			}
			if strings.HasPrefix(p.Path(), *module) {
				if sp := prog.Package(p); sp != nil {
					order = append(order, sp)
				}
			}
		}
		visit(pkgs[0].Types)
		initErr := ""
		for _, sp := range order {
			if e := runInit(prog, sp, globals, *module); e != "" {
				initErr = sp.Pkg.Path() + ": " + e
				fmt.Fprintf(os.Stderr, "go2ir: init of %s (tags %q) stopped: %s\n", sp.Pkg.Path(), k.tags, e)
			}
		}
		if initErr == "" {
			initCompleteByProg.Store(prog, true)
			for _, c := range globals {
				leaves(c, func(l *Cell) {
					if u, ok := l.val.(Unknown); ok && strings.HasPrefix(u.why, "package-level variable") {
						l.val = zeroValue(l.typ)
					}
				})
			}
		}
		if *witness != "" {
			for _, t := range byKey[k] {
				if t.Name+"@"+t.Tags != *witness {
					continue
				}
				found := witnessSearch(prog, spkg, globals, t, *witOut)
				if found {
					os.Exit(3)
				}
				os.Exit(0)
			}
			return
		}
		if *flevel != "" {
			for _, t := range byKey[k] {
				fr := ftranslate(prog, spkg, globals, ftByName[t.Group+"."+t.Name])
				if fr.Err != "" && initErr != "" {
					fr.Err += " (package init: " + initErr + ")"
				}
				mu.Lock()
				fresults = append(fresults, fr)
				mu.Unlock()
			}
			return
		}
		for _, t := range byKey[k] {
			var r Result
			if t.Fork {
				r = translateFork(prog, spkg, globals, t)
			} else {
				r = translate(prog, spkg, globals, t)
			}
			if r.Err != "" && initErr != "" {
				r.Err += " (package init: " + initErr + ")"
			}
			addRes(k, r)
		}
	
			}()
		}()
	}
	wg.Wait()
	if *flevel != "" {
		os.Exit(frender(fresults, *leanDir, *txt, *gowrap))
	}
	for _, k := range keys {
		results = append(results, resByKey[k]...)
	}
	if *ctOut == "" && *witness == "" && *asm {
		for _, at := range asmTargets {
			results = append(results, asmTranslate(*repo, at))
		}
	}
	if *ctOut != "" {
		type ctRes struct {
			Name, Pkg, Fn, Tags, Expect, Err string
			Ok                                bool
			Ops, Inputs                       int
		}
		var out []ctRes
		for _, r := range results {
			out = append(out, ctRes{Name: r.T.Name, Pkg: r.T.Pkg, Fn: r.T.Fn, Tags: r.T.Tags, Expect: r.T.Expect, Err: r.Err, Ok: r.Err == "", Ops: r.NOps, Inputs: r.Nin})
		}
		js, _ := json.MarshalIndent(out, "", " ")
		os.MkdirAll(filepath.Dir(*ctOut), 0o755)
		if err := os.WriteFile(*ctOut, js, 0o644); err != nil {
			panic(err)
		}
		if *leanDir != "" {
			var sb strings.Builder
			sb.WriteString("/- GENERATED by go2ir -ct: outcome of translating each constant-time entry point with ALL secret inputs symbolic.\n   (name, translated, expected to translate, #IR instructions) — do not edit, never committed. -/\nnamespace Voi.Gen.CT\n\ndef results : List (String × Bool × Bool × Nat) := [\n")
			for i, r := range out {
				sep := ","
				if i == len(out)-1 {
					sep = ""
				}
				fmt.Fprintf(&sb, "  (%q, %v, %v, %d)%s\n", r.Name+"@"+r.Tags, r.Ok, r.Expect != "leak", r.Ops, sep)
			}
			sb.WriteString("]\n\nend Voi.Gen.CT\n")
			os.MkdirAll(*leanDir, 0o755)
			if err := os.WriteFile(filepath.Join(*leanDir, "CT.lean"), []byte(sb.String()), 0o644); err != nil {
				panic(err)
			}
		}
		return
	}
	// ---- render
	groups := map[string][]Result{}
	var gnames []string
	for _, r := range results {
		if _, ok := groups[r.T.Group]; !ok {
			gnames = append(gnames, r.T.Group)
		}
		groups[r.T.Group] = append(groups[r.T.Group], r)
	}
	sort.Strings(gnames)
	if *leanDir != "" {
		os.MkdirAll(*leanDir, 0o755)
		old, _ := filepath.Glob(filepath.Join(*leanDir, "IR*.lean"))
		for _, f := range old {
			os.Remove(f)
		}
	}
	var txtb strings.Builder
	exit := 0
	for _, g := range gnames {
		for _, r := range groups[g] {
			var sb strings.Builder
			fmt.Fprintf(&sb, "/- GENERATED by go2ir from %s (%s, tags %q) — do not edit, never committed -/\nimport Voi.IR.Tree\nnamespace Voi.Gen.%s\nopen Voi.IR\n\n", r.T.Pkg, r.T.Fn, r.T.Tags, g)
			if r.Err != "" {
				fmt.Fprintf(&sb, "def %s_untranslatable : String := %q\n", r.T.Name, r.Err)
				fmt.Fprintf(os.Stderr, "go2ir: %s.%s: UNTRANSLATABLE: %s\n", g, r.T.Name, r.Err)
				exit = 1
			} else {
				if r.Tree != nil {
					lv, dp := treeStats(r.Tree)
					fmt.Fprintf(&sb, "-- decision tree: %d leaves, depth %d\n", lv, dp)
					fmt.Fprintf(&sb, "def %s_nin : Nat := %d\ndef %s_inBits : List Nat := %s\n", r.T.Name, r.Nin, r.T.Name, intList(r.InBits))
					fmt.Fprintf(&sb, "set_option maxRecDepth 1000000 in\ndef %s_tree : DTree :=\n%s\n\n", r.T.Name, treeLean(r.Tree, " "))
					sb.WriteString("/-- the same tree as an ordinary Lean function (shallow embedding) -/\n")
					sb.WriteString(treeShallow(r.T.Name, r.Nin, r.Tree))
					fmt.Fprintf(&txtb, "tree %s.%s %d %s %s\n", g, r.T.Name, r.Nin, strings.Trim(strings.ReplaceAll(intList(r.InBits), " ", ""), "[]"), treeTxt(r.Tree))
					fmt.Fprintf(&sb, "\nend Voi.Gen.%s\n", g)
					if *leanDir != "" {
						if err := os.WriteFile(filepath.Join(*leanDir, "IR_"+g+"_"+r.T.Name+".lean"), []byte(sb.String()), 0o644); err != nil {
							panic(err)
						}
					}
					continue
				}
				fmt.Fprintf(&sb, "def %s_nin : Nat := %d\n", r.T.Name, r.Nin)
				fmt.Fprintf(&sb, "def %s_inBits : List Nat := %s\n", r.T.Name, intList(r.InBits))
				fmt.Fprintf(&sb, "def %s_outs : List Nat := %s\n", r.T.Name, intList(r.Outs))
				fmt.Fprintf(&sb, "def %s_outBits : List Nat := %s\n", r.T.Name, intList(r.OutBits))
				fmt.Fprintf(&sb, "set_option maxRecDepth 1000000 in\ndef %s_prog : List Op := [\n", r.T.Name)
				for i, o := range r.Ops {
					sep := ","
					if i == len(r.Ops)-1 {
						sep = ""
					}
					fmt.Fprintf(&sb, "  %s%s\n", opLean(o), sep)
				}
				fmt.Fprintf(&sb, "]\n")
				fmt.Fprintf(&txtb, "prog %s.%s %d %s %s", g, r.T.Name, r.Nin, strings.Trim(strings.ReplaceAll(intList(r.InBits), " ", ""), "[]"), strings.Trim(strings.ReplaceAll(intList(r.Outs), " ", ""), "[]"))
				for _, o := range r.Ops {
					fmt.Fprintf(&txtb, " ; %s", opTxt(o))
				}
				fmt.Fprintf(&txtb, "\n")
			}
			fmt.Fprintf(&sb, "\nend Voi.Gen.%s\n", g)
			if *leanDir != "" {
				if err := os.WriteFile(filepath.Join(*leanDir, "IR_"+g+"_"+r.T.Name+".lean"), []byte(sb.String()), 0o644); err != nil {
					panic(err)
				}
			}
		}
	}
	if *gowrap != "" {
		filepath.Walk(*gowrap, func(p string, fi os.FileInfo, err error) error {
			if err == nil && !fi.IsDir() && strings.HasPrefix(filepath.Base(p), "verif_t0_") {
				os.Remove(p) // the field-level wrappers (verif_fl_*, written by -flevel) live in the same tree
			}
			return nil
		})
		for _, g := range gnames {
			rs := groups[g]
			if g == "FieldAsm" {
				continue // hand-written wrappers (verif_t0_isasm.go): only the assembly build has these symbols
			}
			var sb strings.Builder
			cons := "verif && !force32bit"
			if strings.Contains(rs[0].T.Tags, "force32bit") {
				cons = "verif && force32bit"
			}
			byPkg := map[string][]Result{}
			var pkgOrder []string
			for _, r := range rs {
				if _, ok := byPkg[r.T.Pkg]; !ok {
					pkgOrder = append(pkgOrder, r.T.Pkg)
				}
				byPkg[r.T.Pkg] = append(byPkg[r.T.Pkg], r)
			}
			for _, pk := range pkgOrder {
				sb.Reset()
				fmt.Fprintf(&sb, "// Code generated by go2ir; DO NOT EDIT.\n\n//go:build %s\n\npackage %s\n\nfunc init() {\n", cons, filepath.Base(pk))
				for _, r := range byPkg[pk] {
					if r.Err == "" {
						sb.WriteString(r.Wrap)
					}
				}
				sb.WriteString("}\n")
				dir := filepath.Join(*gowrap, pk)
				os.MkdirAll(dir, 0o755)
				if err := os.WriteFile(filepath.Join(dir, "verif_t0_"+strings.ToLower(g)+".go"), []byte(sb.String()), 0o644); err != nil {
					panic(err)
				}
			}
		}
	}
	if *txt != "" {
		os.MkdirAll(filepath.Dir(*txt), 0o755)
		if err := os.WriteFile(*txt, []byte(txtb.String()), 0o644); err != nil {
			panic(err)
		}
	}
	os.Exit(exit)
}

func intList(l []int) string {
	s := make([]string, len(l))
	for i, x := range l {
		s[i] = fmt.Sprint(x)
	}
	return "[" + strings.Join(s, ", ") + "]"
}

// ---------------------------------------------------------------- constant dump (C20)

// flatten collects the integer leaves reachable from a value, following pointers and slices (each cell once).
func flatten(v Value, seen map[*Cell]bool, out *[]string, ok *bool) {
	switch x := v.(type) {
	case Conc:
		*out = append(*out, x.v.String())
	case AggV:
		for _, e := range x.elems {
			flatten(e, seen, out, ok)
		}
	case PtrV:
		flattenCell(x.c, seen, out, ok)
	case SliceV:
		for _, c := range x.cells {
			flattenCell(c, seen, out, ok)
		}
	case NilV, nil:
	case Unknown:
		if strings.HasPrefix(x.why, "package-level variable") && zeroUnwritten {
			// never stored to by a COMPLETED initialiser: the Go zero value
			*out = append(*out, "0")
		} else {
			*ok = false
		}
	case FuncV, *ssa.Builtin:
	default:
		*ok = false
	}
}

var zeroUnwritten bool
var ctCountOnly bool

// witness search state (set by -witness)
var concreteInputs []uint64
var lastTrace []string
var initCompleteByProg sync.Map // *ssa.Program -> bool

func flattenCell(c *Cell, seen map[*Cell]bool, out *[]string, ok *bool) {
	if seen[c] {
		return
	}
	seen[c] = true
	if isAgg(c.typ) {
		for _, k := range c.kids {
			flattenCell(k, seen, out, ok)
		}
		return
	}
	flatten(c.val, seen, out, ok)
}

func dumpGlobals(repo, module, spec, leanDir string) {
	os.MkdirAll(leanDir, 0o755)
	old, _ := filepath.Glob(filepath.Join(leanDir, "Consts_*.lean"))
	for _, f := range old {
		os.Remove(f)
	}
	exit := 0
	for _, triple := range strings.Split(spec, ",") {
		f := strings.Split(triple, ":")
		pkgPath, tags, group := f[0], f[1], f[2]
		cfg := &packages.Config{Mode: packages.LoadAllSyntax, Dir: repo, BuildFlags: []string{"-tags=" + tags},
			Env: append(os.Environ(), "GOFLAGS=-mod=mod", "GOPROXY=off", "GOSUMDB=off", "GOTOOLCHAIN=local")}
		pkgs, err := packages.Load(cfg, module+"/"+pkgPath)
		var sb strings.Builder
		fmt.Fprintf(&sb, "/- GENERATED by go2ir -globals from %s (tags %q): package-level variables after interpreting the initialisers.\n   Integer leaves in declaration order, pointers and slices followed. Do not edit, never committed. -/\nnamespace Voi.Gen.Consts.%s\n\n", pkgPath, tags, group)
		if err != nil || len(pkgs) != 1 || len(pkgs[0].Errors) > 0 {
			fmt.Fprintf(&sb, "def load_failed : String := %q\n", fmt.Sprint(err))
			exit = 1
		} else {
			prog, _ := ssautil.AllPackages(pkgs, ssa.InstantiateGenerics)
			prog.Build()
			globals := map[*ssa.Global]*Cell{}
			var order []*ssa.Package
			seenP := map[*types.Package]bool{}
			var visit func(p *types.Package)
			visit = func(p *types.Package) {
				if seenP[p] {
					return
				}
				seenP[p] = true
				for _, imp := range p.Imports() {
					visit(imp)
				}
				if strings.HasPrefix(p.Path(), module) {
					if sp := prog.Package(p); sp != nil {
						order = append(order, sp)
					}
				}
			}
			visit(pkgs[0].Types)
			zeroUnwritten = true
			for _, sp := range order {
				if e := runInit(prog, sp, globals, module); e != "" {
					zeroUnwritten = false
					fmt.Fprintf(os.Stderr, "go2ir: init of %s (tags %q) stopped: %s\n", sp.Pkg.Path(), tags, e)
					fmt.Fprintf(&sb, "-- init of %s stopped: %s\n", sp.Pkg.Path(), strings.ReplaceAll(e, "\n", " "))
				}
			}
			spkg := prog.Package(pkgs[0].Types)
			var names []string
			for n, m := range spkg.Members {
				if _, ok := m.(*ssa.Global); ok && n != "init$guard" {
					names = append(names, n)
				}
			}
			sort.Strings(names)
			byBody := map[string]string{}
			for _, n := range names {
				g := spkg.Members[n].(*ssa.Global)
				c, okc := globals[g]
				if !okc && zeroUnwritten {
					// never touched by any completed initialiser: the zero value
					c, okc = newCell(g.Type().(*types.Pointer).Elem()), true
				}
				var out []string
				ok := okc
				if okc {
					flattenCell(c, map[*Cell]bool{}, &out, &ok)
				}
				lean := strings.ReplaceAll(n, "$", "_")
				if !ok {
					fmt.Fprintf(&sb, "def %s_unavailable : String := \"not computed by the interpreted initialiser\"\n", lean)
					continue
				}
				if len(out) == 0 {
					continue
				}
				body := strings.Join(out, ", ")
				if prev, dup := byBody[body]; dup && len(out) > 64 {
					fmt.Fprintf(&sb, "def %s : List Nat := %s  -- same object / same content\n", lean, prev)
					continue
				}
				if len(out) > 5000 && strings.HasPrefix(n, "packed") {
					// the packed byte tables: their content is consumed by the interpreted unpack code, whose results are dumped
					fmt.Fprintf(&sb, "def %s_size : Nat := %d\n", lean, len(out))
					continue
				}
				byBody[body] = lean
				fmt.Fprintf(&sb, "set_option maxRecDepth 1000000 in\ndef %s : List Nat := [%s]\n", lean, body)
			}
		}
		fmt.Fprintf(&sb, "\nend Voi.Gen.Consts.%s\n", group)
		if err := os.WriteFile(filepath.Join(leanDir, "Consts_"+group+".lean"), []byte(sb.String()), 0o644); err != nil {
			panic(err)
		}
	}
	os.Exit(exit)
}

// witnessSearch runs the target on pairs of concrete assignments to its (secret) inputs and compares the sequence of
// executed basic blocks and memory indices.  A differing pair is a concrete replay for a constant-time violation.
func witnessSearch(prog *ssa.Program, pkg *ssa.Package, globals map[*ssa.Global]*Cell, t Target, out string) bool {
	// number of inputs: one symbolic dry run on a copy is not available (translation fails), so use patterns that repeat
	pats := [][]uint64{}
	rnd := uint64(0x9e3779b97f4a7c15)
	next := func() uint64 {
		rnd ^= rnd << 13
		rnd ^= rnd >> 7
		rnd ^= rnd << 17
		return rnd
	}
	mk := func(f func(i int) uint64) []uint64 {
		v := make([]uint64, 4099)
		for i := range v {
			v[i] = f(i)
		}
		return v
	}
	pats = append(pats, mk(func(i int) uint64 { return 0 }), mk(func(i int) uint64 { return ^uint64(0) }),
		mk(func(i int) uint64 { return 1 }), mk(func(i int) uint64 { return uint64(i*37 + 5) }))
	for k := 0; k < 6; k++ {
		pats = append(pats, mk(func(i int) uint64 { return next() }))
	}
	type run struct {
		in    []uint64
		trace []string
		err   string
	}
	var runs []run
	for _, p := range pats {
		concreteInputs = p
		r := translate1(prog, pkg, globals, t, false)
		runs = append(runs, run{p, lastTrace, r.Err})
		concreteInputs = nil
	}
	for i := 1; i < len(runs); i++ {
		a, b := runs[0], runs[i]
		n := len(a.trace)
		if len(b.trace) < n {
			n = len(b.trace)
		}
		d := -1
		for j := 0; j < n; j++ {
			if a.trace[j] != b.trace[j] {
				d = j
				break
			}
		}
		if d < 0 && len(a.trace) != len(b.trace) {
			d = n
		}
		if d >= 0 {
			var sb strings.Builder
			fmt.Fprintf(&sb, "# constant-time witness for %s (%s, tags %q)\n# the two secret assignments below drive the code through different control flow / memory indices\n", t.Name, t.Fn, t.Tags)
			ev := func(tr []string, j int) string {
				if j < len(tr) {
					return tr[j]
				}
				return "<end of trace>"
			}
			fmt.Fprintf(&sb, "# first divergence at event %d: run A executes %s, run B executes %s\n", d, ev(a.trace, d), ev(b.trace, d))
			fmt.Fprintf(&sb, "# trace lengths: A=%d B=%d\n", len(a.trace), len(b.trace))
			fmt.Fprintf(&sb, "CT witness %s@%s\nA: every symbolic input i takes pattern value %v…\nB: every symbolic input i takes pattern value %v…\n", t.Name, t.Tags, a.in[:4], b.in[:4])
			if out != "" {
				os.WriteFile(out, []byte(sb.String()), 0o644)
			}
			fmt.Print(sb.String())
			return true
		}
	}
	return false
}

// keccakF1600Ref: reference Keccak-f[1600] (FIPS 202), used only to keep public transcript state concrete when the
// assembly permutation is summarised.
func keccakF1600Ref(a *[25]uint64) {
	rc := [24]uint64{0x0000000000000001, 0x0000000000008082, 0x800000000000808A, 0x8000000080008000, 0x000000000000808B, 0x0000000080000001,
		0x8000000080008081, 0x8000000000008009, 0x000000000000008A, 0x0000000000000088, 0x0000000080008009, 0x000000008000000A,
		0x000000008000808B, 0x800000000000008B, 0x8000000000008089, 0x8000000000008003, 0x8000000000008002, 0x8000000000000080,
		0x000000000000800A, 0x800000008000000A, 0x8000000080008081, 0x8000000000008080, 0x0000000080000001, 0x8000000080008008}
	rot := [25]uint{0, 1, 62, 28, 27, 36, 44, 6, 55, 20, 3, 10, 43, 25, 39, 41, 45, 15, 21, 8, 18, 2, 61, 56, 14}
	for r := 0; r < 24; r++ {
		var c [5]uint64
		for x := 0; x < 5; x++ {
			c[x] = a[x] ^ a[x+5] ^ a[x+10] ^ a[x+15] ^ a[x+20]
		}
		for x := 0; x < 5; x++ {
			d := c[(x+4)%5] ^ (c[(x+1)%5]<<1 | c[(x+1)%5]>>63)
			for y := 0; y < 25; y += 5 {
				a[y+x] ^= d
			}
		}
		var b [25]uint64
		for x := 0; x < 5; x++ {
			for y := 0; y < 5; y++ {
				v := a[x+5*y]
				k := rot[x+5*y]
				if k != 0 {
					v = v<<k | v>>(64-k)
				}
				b[y+5*((2*x+3*y)%5)] = v
			}
		}
		for y := 0; y < 25; y += 5 {
			for x := 0; x < 5; x++ {
				a[y+x] = b[y+x] ^ (^b[y+(x+1)%5] & b[y+(x+2)%5])
			}
		}
		a[0] ^= rc[r]
	}
}
