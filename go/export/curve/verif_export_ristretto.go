//go:build verif

package curve

import "github.com/oasisprotocol/curve25519-voi/internal/field"

// VerifRistrettoFromEdwards builds a RistrettoPoint whose internal representative is the
// *Edwards* point encoded by enc (decoded with SetCompressedY), with all four extended
// coordinates multiplied by lambda (a field element, bit 255 ignored, reduced).  It lets the
// harness present every coset representative P+T (T in E[4]) in any projective scaling to
// the ristretto encoder and to Equal.  ok is false when enc does not decode or lambda = 0.
func VerifRistrettoFromEdwards(enc, lambda [32]byte) (*RistrettoPoint, bool) {
	var (
		c   CompressedEdwardsY
		ep  EdwardsPoint
		lam field.Element
	)
	copy(c[:], enc[:])
	if _, err := ep.SetCompressedY(&c); err != nil {
		return nil, false
	}
	if _, err := lam.SetBytes(lambda[:]); err != nil {
		return nil, false
	}
	if lam.IsZero() == 1 {
		return nil, false
	}
	var rp RistrettoPoint
	rp.inner.inner.X.Mul(&ep.inner.X, &lam)
	rp.inner.inner.Y.Mul(&ep.inner.Y, &lam)
	rp.inner.inner.Z.Mul(&ep.inner.Z, &lam)
	rp.inner.inner.T.Mul(&ep.inner.T, &lam)
	return &rp, true
}

// VerifRistrettoInnerEdwards returns the Edwards encoding of the internal representative of p
// (used only for diagnostics; never compared between the two sides).
func VerifRistrettoInnerEdwards(p *RistrettoPoint) []byte {
	var c CompressedEdwardsY
	c.SetEdwardsPoint(&p.inner)
	return c[:]
}
