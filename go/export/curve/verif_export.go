//go:build verif

package curve

// Verification-only exports (grafted into the build with `go build -overlay`; never part of /repo).

import "github.com/oasisprotocol/curve25519-voi/internal/field"

// VerifPointScaled decodes enc and returns the same point in the projective representation
// (X·λ, Y·λ, Z·λ, T·λ), where λ is the field element encoded by lambda (low 255 bits, reduced
// mod p).  ok is false when enc does not decode or λ = 0.
//
// The scaled quadruple still satisfies X·Y = Z·T, so it is a valid extended representation of
// the same affine point; every predicate/encoding must give the same answer as for λ = 1.
func VerifPointScaled(enc [32]byte, lambda [32]byte) (*EdwardsPoint, bool) {
	var (
		c CompressedEdwardsY = enc
		p EdwardsPoint
		l field.Element
	)
	if _, err := p.SetCompressedY(&c); err != nil {
		return nil, false
	}
	if _, err := l.SetBytes(lambda[:]); err != nil {
		return nil, false
	}
	if l.IsZero() == 1 {
		return nil, false
	}
	p.inner.X.Mul(&p.inner.X, &l)
	p.inner.Y.Mul(&p.inner.Y, &l)
	p.inner.Z.Mul(&p.inner.Z, &l)
	p.inner.T.Mul(&p.inner.T, &l)
	return &p, true
}

// VerifPointLoosen rewrites the four coordinates of p into unreduced limb representations of the same values
// (see field.VerifLoosen); the point it denotes is unchanged.
func VerifPointLoosen(p *EdwardsPoint, r byte) {
	field.VerifLoosen(&p.inner.X, uint64(r&3))
	field.VerifLoosen(&p.inner.Y, uint64((r>>2)&3))
	field.VerifLoosen(&p.inner.Z, uint64((r>>4)&3))
	field.VerifLoosen(&p.inner.T, uint64((r>>6)&3))
}

// VerifVectorizedEdwards reports whether the AVX2 point-arithmetic backend is active.
func VerifVectorizedEdwards() bool { return supportsVectorizedEdwards }

// VerifPointConsistent reports whether the internal extended coordinates of p are a valid
// representation of a curve point: Z != 0, X*Y = Z*T and -X^2 + Y^2 = Z^2 + d*T^2.
// (The canonical encoding only depends on X/Z and Y/Z, so a wrong T would otherwise go unnoticed
// until the point is used as an operand.)
func VerifPointConsistent(p *EdwardsPoint) bool {
	var xy, zt, xx, yy, zz, tt, lhs, rhs field.Element
	if p.inner.Z.IsZero() == 1 {
		return false
	}
	xy.Mul(&p.inner.X, &p.inner.Y)
	zt.Mul(&p.inner.Z, &p.inner.T)
	if xy.Equal(&zt) != 1 {
		return false
	}
	xx.Square(&p.inner.X)
	yy.Square(&p.inner.Y)
	zz.Square(&p.inner.Z)
	tt.Square(&p.inner.T)
	lhs.Sub(&yy, &xx)
	rhs.Mul(&tt, &constEDWARDS_D)
	rhs.Add(&rhs, &zz)
	return lhs.Equal(&rhs) == 1
}
