//go:build verif

package scalar

// Support code for stream T0: the generated wrappers (verif_t0_<group>.go, written by go2ir at regeneration time)
// register one closure per translated limb function; values are moved in and out of the real (unexported) types by
// walking their integer leaves in declaration order — the same order go2ir numbers IR variables in.

import (
	"reflect"
	"sort"
	"unsafe"
)

var verifT0 = map[string]func(in []uint64) []uint64{}

// VerifT0 calls the real function registered under name on a flat input vector.
func VerifT0(name string, in []uint64) ([]uint64, bool) {
	f, ok := verifT0[name]
	if !ok {
		return nil, false
	}
	return f(in), true
}

func VerifT0Names() []string {
	var out []string
	for k := range verifT0 {
		out = append(out, k)
	}
	sort.Strings(out)
	return out
}

func verifLeaves(v reflect.Value, f func(reflect.Value)) {
	switch v.Kind() {
	case reflect.Struct:
		for i := 0; i < v.NumField(); i++ {
			fv := v.Field(i)
			verifLeaves(reflect.NewAt(fv.Type(), unsafe.Pointer(fv.UnsafeAddr())).Elem(), f)
		}
	case reflect.Array:
		for i := 0; i < v.Len(); i++ {
			verifLeaves(v.Index(i), f)
		}
	case reflect.Bool:
		f(v)
	case reflect.Uint8, reflect.Uint16, reflect.Uint32, reflect.Uint64, reflect.Uint, reflect.Int, reflect.Int8, reflect.Int16, reflect.Int32, reflect.Int64:
		f(v)
	}
}

func verifFill(ptr interface{}, in []uint64) int {
	n := 0
	verifLeaves(reflect.ValueOf(ptr).Elem(), func(l reflect.Value) {
		if l.CanUint() {
			l.SetUint(in[n])
		} else {
			l.SetInt(int64(in[n]))
		}
		n++
	})
	return n
}

func verifRead(ptr interface{}) []uint64 {
	var out []uint64
	verifLeaves(reflect.ValueOf(ptr).Elem(), func(l reflect.Value) {
		if l.Kind() == reflect.Bool {
			if l.Bool() {
				out = append(out, 1)
			} else {
				out = append(out, 0)
			}
		} else if l.CanUint() {
			out = append(out, l.Uint())
		} else {
			out = append(out, uint64(l.Int()))
		}
	})
	return out
}
