//go:build verif

package scalar

// Verification-only exports for stream K0 (property C20): the unexported scalar constants as the
// running binary holds them.  Grafted into the build with `go build -overlay`; never part of /repo.

import "encoding/binary"

// VerifKConst returns the 32-byte little-endian packing (the library's own unpackedScalar.ToBytes)
// of constL, constR, constRR, or the four words of `order` as 32 little-endian bytes.
func VerifKConst(name string) ([]byte, bool) {
	var out [ScalarSize]byte
	switch name {
	case "L":
		constL.ToBytes(out[:])
	case "R":
		constR.ToBytes(out[:])
	case "RR":
		constRR.ToBytes(out[:])
	case "order":
		for i, w := range order {
			binary.LittleEndian.PutUint64(out[8*i:], w)
		}
	default:
		return nil, false
	}
	return out[:], true
}
