//go:build verif

package curve

// Verification-only exports for stream K0 (property C20): the precomputed tables and point / field
// constants exactly as the RUNNING binary holds them, in whatever build configuration this is.
// Grafted into the build with `go build -overlay`; never part of /repo.
//
// Every table entry is reported as two canonical 32-byte Edwards encodings:
//
//	enc(P)      the point the entry denotes, obtained with the library's own conversion
//	            (identity + entry: setAffineNiels / setCached)
//	enc(B + P)  the entry used as the second operand of the library's mixed addition with the
//	            base point as first operand.  The first conversion never reads the 2·d·x·y
//	            (resp. 2·d·T) component, because the identity has T = 0; this one does.
//
// so a harmless change of representation cannot produce a disagreement and a wrong component
// of any entry must.

import "github.com/oasisprotocol/curve25519-voi/internal/field"

func verifKEnc(p *EdwardsPoint) []byte {
	var c CompressedEdwardsY
	c.SetEdwardsPoint(p)
	return append([]byte{}, c[:]...)
}

func verifKNiels(e *affineNielsPoint) (p, bp []byte, ok bool) {
	var (
		pt, sumPt EdwardsPoint
		sum       completedPoint
	)
	pt.setAffineNiels(e)
	sumPt.setCompleted(sum.AddEdwardsAffineNiels(ED25519_BASEPOINT_POINT, e))
	return verifKEnc(&pt), verifKEnc(&sumPt), true
}

func verifKCached(e *cachedPoint) (p, bp []byte, ok bool) {
	// only reached when the vector backend is active (the tables are nil otherwise)
	var (
		pt, sumPt EdwardsPoint
		b, sum    extendedPoint
	)
	pt.setCached(e)
	b.SetEdwards(ED25519_BASEPOINT_POINT)
	sumPt.setExtended(sum.AddExtendedCached(&b, e))
	return verifKEnc(&pt), verifKEnc(&sumPt), true
}

func verifKBase(tbl *EdwardsBasepointTable, which string, i, j int) (p, bp []byte, ok bool) {
	if i < 0 || i >= 32 || j < 0 || j >= 8 {
		return nil, nil, false
	}
	serial, vector := tbl.inner != nil, tbl.innerVector != nil
	switch which {
	case "active": // the one the library's dispatch (edwardsBasepointTableMul) would use
		if supportsVectorizedEdwards {
			serial = false
		} else {
			vector = false
		}
	case "serial":
		vector = false
	case "vector":
		serial = false
	default:
		return nil, nil, false
	}
	switch {
	case vector:
		return verifKCached(&tbl.innerVector[i][j])
	case serial:
		return verifKNiels(&tbl.inner[i][j])
	}
	return nil, nil, false
}

// VerifKBase returns entry (i, j) of ED25519_BASEPOINT_TABLE; which = "active" (the table the
// library's dispatch uses in this process), "serial" (inner) or "vector" (innerVector).
// ok is false when that table does not exist in this process.
func VerifKBase(which string, i, j int) (p, bp []byte, ok bool) {
	return verifKBase(ED25519_BASEPOINT_TABLE, which, i, j)
}

// VerifKRistrettoBase is the same for the copy held by RISTRETTO_BASEPOINT_TABLE.
func VerifKRistrettoBase(which string, i, j int) (p, bp []byte, ok bool) {
	return verifKBase(&RISTRETTO_BASEPOINT_TABLE.inner, which, i, j)
}

var verifKUnpacked *edwardsBasepointTableGeneric

// VerifKBaseUnpacked returns entry (i, j) of a fresh unpackEdwardsBasepointTable() (the serial table
// is dropped at start-up when the vector backend is active; the packed bytes and the unpack code are
// still in the binary).
func VerifKBaseUnpacked(i, j int) (p, bp []byte, ok bool) {
	if i < 0 || i >= 32 || j < 0 || j >= 8 {
		return nil, nil, false
	}
	if verifKUnpacked == nil {
		verifKUnpacked = unpackEdwardsBasepointTable()
	}
	return verifKNiels(&verifKUnpacked[i][j])
}

// VerifKOdd returns entry j of constAFFINE_ODD_MULTIPLES_OF_BASEPOINT (shl128 = false) or of
// constAFFINE_ODD_MULTIPLES_OF_B_SHL_128 (shl128 = true).
func VerifKOdd(shl128 bool, j int) (p, bp []byte, ok bool) {
	if j < 0 || j >= 64 {
		return nil, nil, false
	}
	if shl128 {
		return verifKNiels(&constAFFINE_ODD_MULTIPLES_OF_B_SHL_128[j])
	}
	return verifKNiels(&constAFFINE_ODD_MULTIPLES_OF_BASEPOINT[j])
}

// VerifKVecOdd returns entry j of constVECTOR_ODD_MULTIPLES_OF_BASEPOINT resp.
// constVECTOR_ODD_MULTIPLES_OF_B_SHL_128; ok is false when the table was not built (nil).
func VerifKVecOdd(shl128 bool, j int) (p, bp []byte, ok bool) {
	tbl := constVECTOR_ODD_MULTIPLES_OF_BASEPOINT
	if shl128 {
		tbl = constVECTOR_ODD_MULTIPLES_OF_B_SHL_128
	}
	if tbl == nil || j < 0 || j >= 64 {
		return nil, nil, false
	}
	return verifKCached(&tbl[j])
}

// VerifKVecIdentity returns the encoding of constEXTENDEDPOINT_IDENTITY converted back to a serial
// point; ok is false when the vector backend is not active.
func VerifKVecIdentity() (p []byte, ok bool) {
	if !supportsVectorizedEdwards {
		return nil, false
	}
	var pt EdwardsPoint
	id := constEXTENDEDPOINT_IDENTITY
	pt.setExtended(&id)
	return verifKEnc(&pt), true
}

// VerifKPoint returns the canonical encoding of a point constant and whether its stored extended
// coordinates are a consistent representation (Z != 0, X·Y = Z·T, on the curve).
// Names: B, RB (the inner point of RISTRETTO_BASEPOINT_POINT), BSHL128, T0 … T7 (EIGHT_TORSION).
func VerifKPoint(name string) (enc []byte, consistent, ok bool) {
	var p *EdwardsPoint
	switch name {
	case "B":
		p = ED25519_BASEPOINT_POINT
	case "RB":
		p = &RISTRETTO_BASEPOINT_POINT.inner
	case "BSHL128":
		p = constB_SHL_128
	default:
		if len(name) == 2 && name[0] == 'T' && name[1] >= '0' && name[1] <= '7' {
			p = EIGHT_TORSION[name[1]-'0']
		}
	}
	if p == nil {
		return nil, false, false
	}
	return verifKEnc(p), VerifPointConsistent(p), true
}

// VerifKField returns the canonical 32-byte encoding of a field-element constant of this package.
func VerifKField(name string) ([]byte, bool) {
	var fe *field.Element
	switch name {
	case "D":
		fe = &constEDWARDS_D
	case "D2":
		fe = &constEDWARDS_D2
	case "MINUS_ONE":
		fe = &constMINUS_ONE
	case "SQRT_AD_MINUS_ONE":
		fe = &constSQRT_AD_MINUS_ONE
	case "INVSQRT_A_MINUS_D":
		fe = &constINVSQRT_A_MINUS_D
	case "ONE_MINUS_D_SQ":
		fe = &constONE_MINUS_EDWARDS_D_SQUARED
	case "D_MINUS_ONE_SQ":
		fe = &constEDWARDS_D_MINUS_ONE_SQUARED
	default:
		return nil, false
	}
	var out [field.ElementSize]byte
	if err := fe.ToBytes(out[:]); err != nil {
		return nil, false
	}
	return out[:], true
}

// VerifKNoncanonicalSignBits returns the two 32-byte strings of noncanonicalSignBits.
func VerifKNoncanonicalSignBits(i int) ([]byte, bool) {
	if i < 0 || i >= len(noncanonicalSignBits) {
		return nil, false
	}
	return append([]byte{}, noncanonicalSignBits[i][:]...), true
}
