//go:build verif

// Verification exports for package strobe (grafted into the build with `go build -overlay`;
// never part of the shipped package).
package strobe

// VerifKeccakF applies whichever keccakF1600 this build selects (the amd64 assembly by default,
// the pure Go version in keccakf.go under `-tags purego` or on other architectures) to 25 lanes.
//
// The two implementations are mutually exclusive by build constraint (keccakf.go:
// `!amd64 || purego || !gc`, keccakf_amd64.{go,s}: `amd64 && !purego && gc`), so a single binary
// can expose only one of them; the harness is built once per configuration.
func VerifKeccakF(st *[25]uint64) { keccakF1600(st) }

// VerifKeccakFBytes applies keccakF1600Bytes (the byte-array wrapper that Strobe.runF calls).
func VerifKeccakFBytes(st *[25 * 8]byte) { keccakF1600Bytes(st) }

// VerifZero returns the zero value of Strobe (never initialised).
func VerifZero() *Strobe { return &Strobe{} }

// VerifNew is New returning a pointer.
func VerifNew(proto string) *Strobe {
	s := New(proto)
	return &s
}

// VerifKEY is KEY with an explicit `more` (the exported method always passes false).
func (s *Strobe) VerifKEY(data []byte, more bool) {
	keyCopy := make([]byte, len(data))
	copy(keyCopy, data)
	s.operate(flagA|flagC, keyCopy, more)
}

// VerifPRF is PRF with an explicit `more` (the exported method always passes false).
func (s *Strobe) VerifPRF(dest []byte, more bool) {
	for i := range dest {
		dest[i] = 0
	}
	s.operate(flagI|flagA|flagC, dest, more)
}
