//go:build verif

package lattice

import (
	"encoding/binary"
	"math/big"

	"github.com/oasisprotocol/curve25519-voi/curve/scalar"
)

// verifInt128String renders the two's-complement pair (hi int64, lo uint64) as a signed decimal.
func verifInt128String(x Int128) string {
	v := new(big.Int).SetInt64(x.hi)
	v.Lsh(v, 64)
	v.Add(v, new(big.Int).SetUint64(x.lo))
	return v.String()
}

// VerifFindShortVector calls the real FindShortVector on the scalar whose 32-byte little-endian
// representation is k (built with scalar.NewFromBits exactly like the scalars that reach
// edwardsMulAbglsvPorninVartime: unreduced, bit 255 masked) and returns (d_0, d_1) in decimal.
func VerifFindShortVector(k [32]byte) (d0, d1 string) {
	s, err := scalar.NewFromBits(k[:])
	if err != nil {
		panic("verif: NewFromBits: " + err.Error())
	}
	a, b := FindShortVector(s)
	return verifInt128String(a), verifInt128String(b)
}

// ---- word-level primitives (little-endian byte strings: 64 bytes = int512, 48 bytes = int384, 16 bytes = Int128)

func verifLoad512(b []byte) *int512 {
	var x int512
	for i := range x {
		x[i] = binary.LittleEndian.Uint64(b[8*i:])
	}
	return &x
}

func verifLoad384(b []byte) *int384 {
	var x int384
	for i := range x {
		x[i] = binary.LittleEndian.Uint64(b[8*i:])
	}
	return &x
}

func verifStore(limbs []uint64) []byte {
	out := make([]byte, 8*len(limbs))
	for i, l := range limbs {
		binary.LittleEndian.PutUint64(out[8*i:], l)
	}
	return out
}

func verifLoad128(b []byte) Int128 {
	return Int128{lo: binary.LittleEndian.Uint64(b[0:8]), hi: int64(binary.LittleEndian.Uint64(b[8:16]))}
}

func verifStore128(x Int128) []byte { return verifStore([]uint64{x.lo, uint64(x.hi)}) }

// VerifWordLen reports the byte length of a w-bit word, 0 if w is not 512 or 384.
func VerifWordLen(w int) int {
	if w == 512 || w == 384 {
		return w / 8
	}
	return 0
}

func VerifBitLen(w int, x []byte) uint {
	if w == 512 {
		return verifLoad512(x).BitLen()
	}
	return verifLoad384(x).BitLen()
}

func VerifIsNegative(w int, x []byte) bool {
	if w == 512 {
		return verifLoad512(x).IsNegative()
	}
	return verifLoad384(x).IsNegative()
}

func VerifPositiveLt(w int, x, y []byte) bool {
	if w == 512 {
		return verifLoad512(x).PositiveLt(verifLoad512(y))
	}
	return verifLoad384(x).PositiveLt(verifLoad384(y))
}

func VerifSafeToShrink(x []byte) bool { return verifLoad512(x).SafeToShrink() }

// VerifAddShifted computes a + (b << s) with the receiver aliasing a, as FindShortVector calls it.
func VerifAddShifted(w int, a, b []byte, s uint) []byte {
	if w == 512 {
		x := verifLoad512(a)
		x.AddShifted(x, verifLoad512(b), s)
		return verifStore(x[:])
	}
	x := verifLoad384(a)
	x.AddShifted(x, verifLoad384(b), s)
	return verifStore(x[:])
}

// VerifSubShifted computes a - (b << s) with the receiver aliasing a.
func VerifSubShifted(w int, a, b []byte, s uint) []byte {
	if w == 512 {
		x := verifLoad512(a)
		x.SubShifted(x, verifLoad512(b), s)
		return verifStore(x[:])
	}
	x := verifLoad384(a)
	x.SubShifted(x, verifLoad384(b), s)
	return verifStore(x[:])
}

// VerifAdd512 computes a + b with the receiver aliasing a (N_v = k*k + 1).
func VerifAdd512(a, b []byte) []byte {
	x := verifLoad512(a)
	x.Add(x, verifLoad512(b))
	return verifStore(x[:])
}

// VerifMul512 is int512.Mul on two scalars built with NewFromBits.
func VerifMul512(a, b [32]byte) []byte {
	sa, err := scalar.NewFromBits(a[:])
	if err != nil {
		panic("verif: NewFromBits: " + err.Error())
	}
	sb, err := scalar.NewFromBits(b[:])
	if err != nil {
		panic("verif: NewFromBits: " + err.Error())
	}
	x := (&int512{}).Mul(sa, sb)
	return verifStore(x[:])
}

func VerifFromInt512(a []byte) []byte {
	x := (&int384{}).FromInt512(verifLoad512(a))
	return verifStore(x[:])
}

// VerifInt128 applies one Int128 operation: add, sub (x, y), shl (x, n), neg, abs, isneg, iszero (x).
func VerifInt128(op string, x, y []byte, n uint) ([]byte, bool) {
	a := verifLoad128(x)
	switch op {
	case "add":
		return verifStore128(a.add(verifLoad128(y))), true
	case "sub":
		return verifStore128(a.sub(verifLoad128(y))), true
	case "shl":
		return verifStore128(a.shl(n)), true
	case "neg":
		return verifStore128(a.neg()), true
	case "abs":
		return verifStore128(a.Abs()), true
	case "isneg":
		if a.IsNegative() {
			return []byte{1}, true
		}
		return []byte{0}, true
	case "iszero":
		if a.isZero() {
			return []byte{1}, true
		}
		return []byte{0}, true
	}
	return nil, false
}

func VerifInt128FromScalar(k [32]byte) []byte {
	s, err := scalar.NewFromBits(k[:])
	if err != nil {
		panic("verif: NewFromBits: " + err.Error())
	}
	return verifStore128(newInt128FromScalar(s))
}

// VerifLatticeConsts returns ellSquared(), constELL_LOWER_HALF, i512One, i128One, i128Zero and
// Mul(BASEPOINT_ORDER, 1) (the multiplier used for the initial p).
func VerifLatticeConsts() [][]byte {
	e := ellSquared()
	l := (&int512{}).Mul(scalar.BASEPOINT_ORDER, scalar.One())
	return [][]byte{verifStore(e[:]), verifStore128(constELL_LOWER_HALF), verifStore(i512One[:]), verifStore128(i128One),
		verifStore128(i128Zero), verifStore(l[:])}
}
