//go:build verif

package elligator

// Verification-only exports for stream K0 (property C20): the unexported Elligator 2 constants as
// the running binary holds them.  Grafted into the build with `go build -overlay`; never part of /repo.

import "github.com/oasisprotocol/curve25519-voi/internal/field"

// VerifKConst returns the canonical 32-byte encoding of a field-element constant of this package.
func VerifKConst(name string) ([]byte, bool) {
	var fe *field.Element
	switch name {
	case "Zero":
		fe = &constFieldZero
	case "A":
		fe = &constMONTGOMERY_A
	case "NEG_A":
		fe = &constMONTGOMERY_NEG_A
	case "A_SQUARED":
		fe = &constMONTGOMERY_A_SQUARED
	case "SQRT_NEG_A_PLUS_TWO":
		fe = &constMONTGOMERY_SQRT_NEG_A_PLUS_TWO
	case "U_FACTOR":
		fe = &constMONTGOMERY_U_FACTOR
	case "V_FACTOR":
		fe = &constMONTGOMERY_V_FACTOR
	default:
		return nil, false
	}
	var out [field.ElementSize]byte
	if err := fe.ToBytes(out[:]); err != nil {
		return nil, false
	}
	return out[:], true
}
