//go:build verif

package elligator

import (
	"github.com/oasisprotocol/curve25519-voi/curve"
	"github.com/oasisprotocol/curve25519-voi/internal/field"
)

// VerifEdwardsFlavor applies EdwardsFlavor to the field element given as 32 bytes (bit 255
// ignored, value taken mod p, exactly field.Element.SetBytes) and returns the canonical
// encoding of the resulting Edwards point (before any cofactor clearing).
func VerifEdwardsFlavor(fe32 []byte) []byte {
	var r field.Element
	if _, err := r.SetBytes(fe32); err != nil {
		panic("verif: " + err.Error())
	}
	var c curve.CompressedEdwardsY
	c.SetEdwardsPoint(EdwardsFlavor(&r))
	return c[:]
}

// VerifMontgomeryFlavor applies montgomeryFlavor and returns the canonical bytes of (u, v).
func VerifMontgomeryFlavor(fe32 []byte) ([]byte, []byte) {
	var r field.Element
	if _, err := r.SetBytes(fe32); err != nil {
		panic("verif: " + err.Error())
	}
	u, v := montgomeryFlavor(&r)
	var ub, vb [field.ElementSize]byte
	_ = u.ToBytes(ub[:])
	_ = v.ToBytes(vb[:])
	return ub[:], vb[:]
}
