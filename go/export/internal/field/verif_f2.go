//go:build verif

package field

// Field-level entry points for stream F2 (values in and out as canonical / arbitrary 32-byte strings).

func verifFromBytes(b []byte) *Element {
	var e Element
	if _, err := e.SetBytes(b); err != nil {
		panic("verif: bad length")
	}
	return &e
}

func verifOut(e *Element) []byte {
	var b [32]byte
	_ = e.ToBytes(b[:])
	return b[:]
}

// VerifF2 evaluates one field operation. Arguments are 32-byte strings (decoded with SetBytes, so bit 255 is ignored and
// values >= p are accepted) except for setwide (64 bytes); k is the repetition count of pow2k.
func VerifF2(op string, args [][]byte, k uint) ([][]byte, int) {
	switch op {
	case "setbytes":
		return [][]byte{verifOut(verifFromBytes(args[0]))}, 0
	case "setwide":
		var e Element
		if _, err := e.SetBytesWide(args[0]); err != nil {
			return nil, -1
		}
		return [][]byte{verifOut(&e)}, 0
	case "add", "sub", "mul":
		a, b := verifFromBytes(args[0]), verifFromBytes(args[1])
		var o Element
		switch op {
		case "add":
			o.Add(a, b)
		case "sub":
			o.Sub(a, b)
		case "mul":
			o.Mul(a, b)
		}
		return [][]byte{verifOut(&o)}, 0
	case "neg", "sq", "sq2", "mul121666", "invert", "pow2k":
		a := verifFromBytes(args[0])
		var o Element
		switch op {
		case "neg":
			o.Neg(a)
		case "sq":
			o.Square(a)
		case "sq2":
			o.Square2(a)
		case "mul121666":
			o.Mul121666(a)
		case "invert":
			o.Invert(a)
		case "pow2k":
			o.Pow2k(a, k)
		}
		return [][]byte{verifOut(&o)}, 0
	case "sqrtratio":
		u, v := verifFromBytes(args[0]), verifFromBytes(args[1])
		var o Element
		_, ok := o.SqrtRatioI(u, v)
		return [][]byte{verifOut(&o)}, ok
	case "invsqrt":
		a := verifFromBytes(args[0])
		_, ok := a.InvSqrt()
		return [][]byte{verifOut(a)}, ok
	case "isneg":
		return nil, verifFromBytes(args[0]).IsNegative()
	case "iszero":
		return nil, verifFromBytes(args[0]).IsZero()
	case "equal":
		return nil, verifFromBytes(args[0]).Equal(verifFromBytes(args[1]))
	case "condneg":
		a := verifFromBytes(args[0])
		a.ConditionalNegate(int(k))
		return [][]byte{verifOut(a)}, 0
	case "condsel":
		a, b := verifFromBytes(args[0]), verifFromBytes(args[1])
		var o Element
		o.ConditionalSelect(a, b, int(k))
		return [][]byte{verifOut(&o)}, 0
	case "batchinvert":
		es := make([]*Element, len(args))
		for i := range args {
			es[i] = verifFromBytes(args[i])
		}
		BatchInvert(es)
		out := make([][]byte, len(es))
		for i := range es {
			out[i] = verifOut(es[i])
		}
		return out, 0
	}
	return nil, -2
}
