//go:build verif && amd64 && !purego && !force32bit

package field

func init() { verifUsesAsm = true }
