//go:build verif && amd64 && !purego && !force32bit

package field

// Only in the build that links field_u64_amd64.s: the assembly routines against the IR programs asm2ir translated from
// that very file (group FieldAsm; exact limb comparison).
func init() {
	verifUsesAsm = true
	verifT0["FieldAsm.feMul"] = func(in []uint64) []uint64 {
		var o, a, b Element
		p := verifFill(&a, in)
		verifFill(&b, in[p:])
		feMul(&o, &a, &b)
		return verifRead(&o)
	}
	verifT0["FieldAsm.fePow2k1"] = func(in []uint64) []uint64 {
		var o, a Element
		verifFill(&a, in)
		fePow2k(&o, &a, 1)
		return verifRead(&o)
	}
	verifT0["FieldAsm.fePow2k2"] = func(in []uint64) []uint64 {
		var o, a Element
		verifFill(&a, in)
		fePow2k(&o, &a, 2)
		return verifRead(&o)
	}
}
