//go:build verif && (amd64 || arm64 || ppc64le || ppc64 || s390x || force64bit) && !force32bit

package field

// VerifLoosen replaces the limbs of e by an *unreduced* representation of the same value: k·p is added limb-wise
// (k = 0, 1, 2; p = (2^51-19, 2^51-1, 2^51-1, 2^51-1, 2^51-1)), so that limbs reach ~3·2^51 > 2^52 — inside the documented
// headroom (< 2^54, and a carry-less sum of two such elements is still < 2^54).  Used by the harness to present points
// whose coordinates are in unreduced form to every group operation (serial formulas and the AVX2 lane packing).
func VerifLoosen(e *Element, k uint64) {
	if k > 2 {
		k = 2
	}
	e.inner[0] += k * 2251799813685229
	for i := 1; i < 5; i++ {
		e.inner[i] += k * 2251799813685247
	}
}
