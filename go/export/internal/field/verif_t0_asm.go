//go:build verif && !force32bit

package field

// The dispatching entry points feMul / fePow2k (amd64 assembly in the default build, the generic Go code under purego)
// are compared with the IR programs regenerated from the generic Go source: "<ir program>@<entry>".
func init() {
	verifT0["FieldU64.feMulGeneric@feMul"] = func(in []uint64) []uint64 {
		var o, a, b Element
		p := verifFill(&a, in)
		verifFill(&b, in[p:])
		feMul(&o, &a, &b)
		return verifRead(&o)
	}
	verifT0["FieldU64.fePow2kGeneric1@fePow2k"] = func(in []uint64) []uint64 {
		var o, a Element
		verifFill(&a, in)
		fePow2k(&o, &a, 1)
		return verifRead(&o)
	}
	verifT0["FieldU64.fePow2kGeneric2@fePow2k"] = func(in []uint64) []uint64 {
		var o, a Element
		verifFill(&a, in)
		fePow2k(&o, &a, 2)
		return verifRead(&o)
	}
	verifT0["FieldU64.feMulGeneric@Mul.aliased"] = func(in []uint64) []uint64 {
		var a, b Element
		p := verifFill(&a, in)
		verifFill(&b, in[p:])
		a.Mul(&a, &b)
		return verifRead(&a)
	}
}
