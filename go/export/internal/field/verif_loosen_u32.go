//go:build verif && ((386 || arm || mips || mipsle || wasm || mips64le || mips64 || riscv64 || loong64 || force32bit) && !force64bit)

package field

// VerifLoosen: the 32-bit representation has no spare headroom for operands of the group formulas (19·limb must fit a
// word after one carry-less addition), so points are presented in reduced form there.
func VerifLoosen(e *Element, k uint64) {}
