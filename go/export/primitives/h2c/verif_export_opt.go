//go:build verif && !verif_nohooks_h2c

// OPTIONAL hooks (file name *_opt.go): they reach unexported helpers.  If a rewrite of the package renames or re-shapes
// those helpers this file stops compiling; bin/build-harness then builds with the tag verif_nohooks_h2c (the stubs in
// verif_export_stub.go answer "hook unavailable", the affected requests are skipped and counted), and go2ir never loads
// *_opt.go files.  The exported suites stay fully compared.

package h2c

import (
	"github.com/oasisprotocol/curve25519-voi/curve"
	"github.com/oasisprotocol/curve25519-voi/internal/field"
)

// VerifUniformToField exposes uniformToField25519 (48 big-endian bytes -> field element),
// returning the canonical little-endian bytes of the result.
func VerifUniformToField(b []byte) []byte {
	fe := uniformToField25519(b)
	var out [field.ElementSize]byte
	_ = fe.ToBytes(out[:])
	return out[:]
}

// VerifEncodeToCurve exposes encodeToCurve (the tail of the _NU_ suites after expansion).
func VerifEncodeToCurve(b []byte) *curve.EdwardsPoint {
	var ub [encodeToCurveSize]byte
	if len(b) != len(ub) {
		panic("verif: bad length")
	}
	copy(ub[:], b)
	return encodeToCurve(&ub)
}

// VerifHashToCurve exposes hashToCurve (the tail of the _RO_ suites after expansion).
func VerifHashToCurve(b []byte) *curve.EdwardsPoint {
	var ub [hashToCurveSize]byte
	if len(b) != len(ub) {
		panic("verif: bad length")
	}
	copy(ub[:], b)
	return hashToCurve(&ub)
}
