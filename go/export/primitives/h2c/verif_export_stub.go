//go:build verif && verif_nohooks_h2c

package h2c

import "github.com/oasisprotocol/curve25519-voi/curve"

// Stubs used when verif_export_opt.go no longer compiles against the package's unexported helpers.
const verifHookUnavailable = "verif: hook unavailable"

func VerifUniformToField(b []byte) []byte          { panic(verifHookUnavailable) }
func VerifEncodeToCurve(b []byte) *curve.EdwardsPoint { panic(verifHookUnavailable) }
func VerifHashToCurve(b []byte) *curve.EdwardsPoint   { panic(verifHookUnavailable) }
