//go:build verif

package ecvrf

func verifCTProve(sk, alpha []byte) []byte { return Prove(sk, alpha) }
