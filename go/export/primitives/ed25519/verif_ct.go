//go:build verif

package ed25519

import "crypto"

// Entry points for the constant-time check (go2ir -ct): fixed public shape, secret bytes symbolic.

type verifEntropy struct{ b []byte }

func (r *verifEntropy) Read(p []byte) (int, error) { n := copy(p, r.b); r.b = r.b[n:]; return n, nil }

func verifCTSignPure(priv, msg []byte) []byte {
	sig, _ := PrivateKey(priv).Sign(nil, msg, &Options{})
	return sig
}

func verifCTSignCtx(priv, msg []byte) []byte {
	sig, _ := PrivateKey(priv).Sign(nil, msg, &Options{Context: "verif context"})
	return sig
}

func verifCTSignPh(priv, msg []byte) []byte {
	sig, _ := PrivateKey(priv).Sign(nil, msg, &Options{Hash: crypto.SHA512, Context: "c"})
	return sig
}

func verifCTSignRandomized(priv, msg, entropy []byte) []byte {
	sig, _ := PrivateKey(priv).Sign(&verifEntropy{entropy}, msg, &Options{AddedRandomness: true})
	return sig
}
