//go:build verif

package sr25519

type verifEntropy struct{ b []byte }

func (r *verifEntropy) Read(p []byte) (int, error) { n := copy(p, r.b); r.b = r.b[n:]; return n, nil }

func verifCTExpandUniform(msk []byte) []byte {
	var m MiniSecretKey
	copy(m[:], msk)
	b, _ := m.ExpandUniform().MarshalBinary()
	return b
}

func verifCTExpandEd25519(msk []byte) []byte {
	var m MiniSecretKey
	copy(m[:], msk)
	b, _ := m.ExpandEd25519().MarshalBinary()
	return b
}

func verifCTSign(msk, msg, entropy []byte) []byte {
	var m MiniSecretKey
	copy(m[:], msk)
	kp := m.ExpandUniform().KeyPair()
	t := NewSigningContext([]byte("verif")).NewTranscriptBytes(msg)
	sig, err := kp.Sign(&verifEntropy{entropy}, t)
	if err != nil {
		return nil
	}
	b, _ := sig.MarshalBinary()
	return b
}
