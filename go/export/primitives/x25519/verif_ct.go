//go:build verif

package x25519

func verifCTX25519(k, u []byte) []byte {
	out, _ := X25519(k, u)
	return out
}
