package main

// Stream F2: the internal/field API (whatever backend this build selects) against arithmetic modulo p in the Lean Spec.
// Unlike T0 (regenerated program vs. the code it was generated from) this compares with an independent definition, so a
// wrong constant or a dropped bit in one backend's decoding/encoding shows up here.

import (
	"bytes"
	"math/big"
	"strconv"

	"github.com/oasisprotocol/curve25519-voi/internal/field"
)

func f2Vals(g *Gen) [][]byte {
	var out [][]byte
	add := func(n *big.Int) {
		if n.Sign() >= 0 && n.BitLen() <= 256 {
			out = append(out, leBytes(n, 32))
		}
	}
	two255 := new(big.Int).Lsh(bi1, 255)
	for e := int64(-20); e <= 20; e++ {
		add(big.NewInt(e))
		add(new(big.Int).Add(refP, big.NewInt(e)))
		add(new(big.Int).Add(two255, big.NewInt(e)))
		add(new(big.Int).Add(new(big.Int).Add(two255, refP), big.NewInt(e)))
	}
	add(new(big.Int).Sub(new(big.Int).Lsh(bi1, 256), bi1))
	add(refSqrtM1)
	add(fsub(bi0, refSqrtM1))
	add(refD)
	for _, sh := range []uint{25, 26, 51, 52, 64, 77, 102, 128, 153, 204, 230, 254} {
		for e := int64(-1); e <= 1; e++ {
			add(new(big.Int).Add(new(big.Int).Lsh(bi1, sh), big.NewInt(e)))
		}
	}
	// word-structured values: only one 64-bit / 32-bit word non-zero (a zero/equality test folding the encoding a word at a
	// time must look at every word), all words equal, words cancelling under XOR
	for j := 0; j < 8; j++ {
		b := make([]byte, 32)
		copy(b[4*j:], g.Bytes(4))
		b[31] &= 0x7f
		out = append(out, b)
		if j%2 == 0 {
			c := make([]byte, 32)
			copy(c[4*j:], g.Bytes(8))
			c[31] &= 0x7f
			out = append(out, c)
		}
	}
	{
		w := g.Bytes(8)
		eq := bytes.Repeat(w, 4)
		eq[31] &= 0x7f
		out = append(out, eq)
		x := append(append(append(g.Bytes(8), g.Bytes(8)...), g.Bytes(8)...), make([]byte, 8)...)
		for i := 0; i < 8; i++ {
			x[24+i] = x[i] ^ x[8+i] ^ x[16+i]
		}
		x[31] &= 0x7f
		out = append(out, x)
	}
	for _, pat := range []byte{0xff, 0x7f, 0x80, 0x55, 0xaa, 0x01} {
		b := make([]byte, 32)
		for i := range b {
			b[i] = pat
		}
		out = append(out, b)
	}
	return out
}

func genF2(g *Gen) {
	vals := f2Vals(g)
	pick := func() []byte {
		switch g.Intn(3) {
		case 0:
			return vals[g.Intn(len(vals))]
		case 1: // a square or its i-multiple (exercises both sqrt branches)
			x := leInt(g.Bytes(32))
			x.Mod(x, refP)
			x = fmul(x, x)
			if g.Bool() {
				x = fmul(x, refSqrtM1)
			}
			return leBytes(x, 32)
		}
		return g.Bytes(32)
	}
	// deterministic prefix: every special value through the unary ops and the decoders
	for _, v := range vals {
		g.Emit("special", "F2", "setbytes", hx(v))
		g.Emit("special", "F2", "invert", hx(v))
		g.Emit("special", "F2", "isneg", hx(v))
		g.Emit("special", "F2", "iszero", hx(v))
		g.Emit("special", "F2", "neg", hx(v))
		g.Emit("special", "F2", "sq2", hx(v))
		g.Emit("special", "F2", "sqrtratio", hx(v), hx(leBytes(bi1, 32)))
		g.Emit("special", "F2", "sqrtratio", hx(leBytes(bi1, 32)), hx(v))
	}
	// wide decoding: bit 255 and bit 511 set/clear, all-ones halves, values around multiples of p
	for _, lo := range [][]byte{make([]byte, 32), leBytes(new(big.Int).Lsh(bi1, 255), 32), vals[len(vals)-6], leBytes(refP, 32)} {
		for _, hi := range [][]byte{make([]byte, 32), leBytes(new(big.Int).Lsh(bi1, 255), 32), vals[len(vals)-6], leBytes(bi1, 32), leBytes(refP, 32)} {
			g.Emit("wide.special", "F2", "setwide", hx(append(append([]byte{}, lo...), hi...)))
		}
	}
	for !g.Full() {
		a, b := pick(), pick()
		g.Emit("bin", "F2", []string{"add", "sub", "mul"}[g.Intn(3)], hx(a), hx(b))
		g.Emit("un", "F2", []string{"neg", "sq", "sq2", "mul121666", "invert", "setbytes", "invsqrt"}[g.Intn(7)], hx(a))
		g.Emit("pow2k", "F2", "pow2k", hx(a), itoa([]int{1, 2, 3, 5, 50, 100, 252}[g.Intn(7)]))
		g.Emit("sqrtratio", "F2", "sqrtratio", hx(a), hx(b))
		g.Emit("pred", "F2", []string{"isneg", "iszero"}[g.Intn(2)], hx(a))
		if g.Intn(2) == 0 {
			b = a // equal values in different (possibly non-canonical) spellings
			if g.Bool() {
				n := new(big.Int).Add(new(big.Int).Mod(leInt(a), refP), refP)
				if n.BitLen() <= 255 {
					b = leBytes(n, 32)
				}
			}
		}
		g.Emit("equal", "F2", "equal", hx(a), hx(b))
		g.Emit("cond", "F2", []string{"condneg", "condsel"}[g.Intn(2)], hx(a), hx(pick()), itoa(g.Intn(2)))
		w := g.Bytes(64)
		if g.Intn(3) == 0 {
			w[31] |= 0x80
		}
		if g.Intn(3) == 0 {
			w[63] |= 0x80
		}
		g.Emit("wide", "F2", "setwide", hx(w))
		if g.Intn(4) == 0 {
			n := g.Intn(6)
			line := []string{"F2", "batchinvert"}
			for i := 0; i < n; i++ {
				v := pick()
				if g.Intn(5) == 0 {
					v = make([]byte, 32) // zeros stay zero
				}
				line = append(line, hx(v))
			}
			g.Emit("batchinvert", line...)
		}
		if g.Intn(20) == 0 {
			g.Emit("wide.len", "F2", "setwide", hx(g.Bytes(63+2*g.Intn(2))))
		}
	}
}

func execF2(op string, a []string) string {
	var args [][]byte
	k := uint(0)
	switch op {
	case "pow2k":
		args = [][]byte{unhex(a[0])}
		n, _ := strconv.Atoi(a[1])
		k = uint(n)
	case "condneg":
		args = [][]byte{unhex(a[0])}
		n, _ := strconv.Atoi(a[2])
		k = uint(n)
	case "condsel":
		args = [][]byte{unhex(a[0]), unhex(a[1])}
		n, _ := strconv.Atoi(a[2])
		k = uint(n)
	default:
		for _, s := range a {
			args = append(args, unhex(s))
		}
	}
	out, flag := field.VerifF2(op, args, k)
	if flag == -1 {
		return "err"
	}
	if flag == -2 {
		return "bad-op"
	}
	r := "ok"
	for _, o := range out {
		r += " " + hx(o)
	}
	switch op {
	case "sqrtratio", "invsqrt", "isneg", "iszero", "equal":
		r += " " + itoa(flag)
	}
	return r
}

func init() { register(&Stream{Name: "F2", Gen: genF2, Exec: execF2}) }
