package main

// Stream E1: ECVRF-EDWARDS25519-SHA512-ELL2 (RFC 9381), property C15.
//
// ops (ver ∈ cur | v10: challenge with / without the public key)
//   vrf.prove ver sk alpha                 Prove / Prove_v10 → ok <pi80> (panic doc on a bad key length)
//   vrf.provernd ver sk alpha entropy      ProveWithAddedRandomness(_v10) with bytes.NewReader(entropy) → ok <pi80> | err
//   vrf.verify ver pk pi alpha             Verify / Verify_v10 → ok <beta64> | err
//   vrf.hash pi                            ProofToHash → ok <beta64> | err
//
// All proofs that get mutated are produced by an independent big.Int reference prover (below), so
// the request stream does not change when the library does.

import (
	"sync"
	"bytes"
	"crypto/sha512"
	"math/big"

	"github.com/oasisprotocol/curve25519-voi/primitives/ed25519"
	"github.com/oasisprotocol/curve25519-voi/primitives/ed25519/extra/ecvrf"
)

// ---------------------------------------------------------------------------------------------
// reference prover (generators only)

var vrfDST = []byte("ECVRF_edwards25519_XMD:SHA-512_ELL2_NU_\x04")

type vrfExt struct{ X, Y, Z, T *big.Int }

var vrfD2 = fadd(refD, refD)

// unified extended-coordinate addition (a = −1), complete on edwards25519
func vrfExtAdd(P, Q vrfExt) vrfExt {
	A := fmul(fsub(P.Y, P.X), fsub(Q.Y, Q.X))
	B := fmul(fadd(P.Y, P.X), fadd(Q.Y, Q.X))
	C := fmul(fmul(P.T, vrfD2), Q.T)
	D := fmul(fadd(P.Z, P.Z), Q.Z)
	E, F, G, H := fsub(B, A), fsub(D, C), fadd(D, C), fadd(B, A)
	return vrfExt{fmul(E, F), fmul(G, H), fmul(F, G), fmul(E, H)}
}

// vrfMul is scalar multiplication without per-step inversions (refMul is too slow for ~10³ calls).
func vrfMul(n *big.Int, P rpt) rpt {
	base := vrfExt{P.x, P.y, big.NewInt(1), fmul(P.x, P.y)}
	acc := vrfExt{big.NewInt(0), big.NewInt(1), big.NewInt(1), big.NewInt(0)}
	for i := n.BitLen() - 1; i >= 0; i-- {
		acc = vrfExtAdd(acc, acc)
		if n.Bit(i) == 1 {
			acc = vrfExtAdd(acc, base)
		}
	}
	zi := finv(acc.Z)
	return rpt{fmul(acc.X, zi), fmul(acc.Y, zi)}
}

type vrfKey struct {
	seed []byte
	x    *big.Int // secret scalar
	hi   []byte   // second half of SHA-512(seed)
	Y    rpt
	Yb   []byte
	sk   []byte // seed ‖ Yb
}

func vrfRefKey(seed []byte) *vrfKey {
	hb := leBytes(refH(seed), 64)
	k := &vrfKey{seed: seed, x: refClamp(hb), hi: hb[32:]}
	k.Y = vrfMul(k.x, refB)
	k.Yb = refEncode(k.Y)
	k.sk = append(append([]byte{}, seed...), k.Yb...)
	return k
}

func vrfRefH(salt, alpha []byte) rpt {
	u := new(big.Int).Mod(h2cBE(h2cRefXmd512(vrfDST, append(append([]byte{}, salt...), alpha...), 48)), refP)
	return vrfMul(big.NewInt(8), h2cRefMapEdwards(u))
}

// vrfRefChallenge: the first 16 bytes of SHA-512(04 02 [Y] H Gamma U V 00) as a little-endian integer.
func vrfRefChallenge(y, hb, gb, ub, vb []byte) *big.Int {
	h := sha512.New()
	h.Write([]byte{4, 2})
	h.Write(y)
	h.Write(hb)
	h.Write(gb)
	h.Write(ub)
	h.Write(vb)
	h.Write([]byte{0})
	return leInt(h.Sum(nil)[:16])
}

func vrfRefNonce(hi, hb []byte) *big.Int {
	return new(big.Int).Mod(refH(hi, hb), refL)
}

// vrfRefProve builds (Gamma + T_tg) ‖ c ‖ s for the public-key string yb (used as salt and, if withY,
// in the challenge), secret x and nonce k.  With tg = 0 and yb the honest key this is ECVRF_prove.
func vrfRefProve(x *big.Int, yb, alpha []byte, k *big.Int, withY bool, tg int) (pi []byte, c *big.Int) {
	H := vrfRefH(yb, alpha)
	hb := refEncode(H)
	G := refAdd(vrfMul(x, H), refTorsion[tg])
	gb := refEncode(G)
	var y []byte
	if withY {
		y = yb
	}
	c = vrfRefChallenge(y, hb, gb, refEncode(vrfMul(k, refB)), refEncode(vrfMul(k, H)))
	s := new(big.Int).Mod(new(big.Int).Add(k, new(big.Int).Mul(c, x)), refL)
	pi = append(append(append([]byte{}, gb...), leBytes(c, 16)...), leBytes(s, 32)...)
	return pi, c
}

func vrfVer(withY bool) string {
	if withY {
		return "cur"
	}
	return "v10"
}

// ---------------------------------------------------------------------------------------------

var vrfKeyBufs = sync.Pool{New: func() interface{} { return new([64]byte) }}

func genE1(g *Gen) {
	em := func(class string, fields ...string) {
		if !g.Full() {
			g.Emit(class, fields...)
		}
	}
	alphaLens := []int{0, 1, 2, 31, 32, 33, 63, 64, 65, 79, 80, 100, 127, 128, 200, 255, 256, 300}
	randK := func() *big.Int { return new(big.Int).Mod(leInt(g.Bytes(40)), refL) }
	verify := func(class string, withY bool, pk, pi, alpha []byte) {
		em(class, "E1", "vrf.verify", vrfVer(withY), hx(pk), hx(pi), hx(alpha))
	}
	hash := func(class string, pi []byte) { em(class, "E1", "vrf.hash", hx(pi)) }
	two256 := new(big.Int).Lsh(bi1, 256)
	setS := func(pi []byte, s *big.Int) []byte {
		return append(append([]byte{}, pi[:48]...), leBytes(new(big.Int).Mod(s, two256), 32)...)
	}
	setG := func(pi []byte, gb []byte) []byte { return append(append([]byte{}, gb...), pi[32:]...) }
	badKeys := append(append([][]byte{}, refSmall...), refNonCanon...)

	// every alpha length 0..140 once (one Prove each): hash_to_curve assembles salt ‖ alpha ‖ framing ‖ DST, and a buffer
	// or block boundary in that assembly is hit by exactly one length
	{
		key := vrfRefKey(g.Bytes(32))
		for n := 0; n <= 140; n++ {
			em("prove.alphalen", "E1", "vrf.prove", []string{"cur", "v10"}[n%2], hx(key.sk), hx(g.Bytes(n)))
		}
	}
	for round := 0; !g.Full(); round++ {
		key := vrfRefKey(g.Bytes(32))
		var alpha []byte
		if g.Intn(3) == 0 {
			alpha = g.Bytes(g.Intn(301))
		} else {
			alpha = g.Bytes(alphaLens[(round+g.Intn(3))%len(alphaLens)])
		}
		withY := round%2 == 0 // the format most mutations of this round are made for

		// --- proving
		em("prove.cur", "E1", "vrf.prove", "cur", hx(key.sk), hx(alpha))
		em("prove.v10", "E1", "vrf.prove", "v10", hx(key.sk), hx(alpha))
		ent := g.Bytes(32)
		em("provernd."+vrfVer(withY), "E1", "vrf.provernd", vrfVer(withY), hx(key.sk), hx(alpha), hx(ent))
		if round%4 == 0 {
			// only the first 32 bytes of the entropy stream are used
			em("provernd.longentropy", "E1", "vrf.provernd", vrfVer(!withY), hx(key.sk), hx(alpha), hx(append(append([]byte{}, ent...), g.Bytes(1+g.Intn(40))...)))
			em("provernd.shortentropy", "E1", "vrf.provernd", vrfVer(withY), hx(key.sk), hx(alpha), hx(g.Bytes([]int{0, 1, 16, 31}[g.Intn(4)])))
			em("provernd.zeroentropy", "E1", "vrf.provernd", vrfVer(withY), hx(key.sk), hx(alpha), hx(make([]byte, 32)))
		}
		if round%8 == 1 {
			for _, l := range []int{0, 32, 63, 65} {
				bad := append(append([]byte{}, key.sk...), 0)[:l]
				em("prove.badkeylen", "E1", "vrf.prove", vrfVer(withY), hx(bad), hx(alpha))
				em("provernd.badkeylen", "E1", "vrf.provernd", vrfVer(withY), hx(bad), hx(alpha), hx(ent))
			}
			// private key whose stored public half belongs to another key: the library trusts sk[32:]
			other := vrfRefKey(g.Bytes(32))
			mixed := append(append([]byte{}, key.seed...), other.Yb...)
			em("prove.mismatchedpk", "E1", "vrf.prove", vrfVer(withY), hx(mixed), hx(alpha))
			pm, _ := vrfRefProve(key.x, other.Yb, alpha, randK(), withY, 0)
			verify("verify.mismatchedpk", withY, other.Yb, pm, alpha) // valid-looking proof for the wrong secret: rejected
		}

		// --- honest proofs from the reference prover; all four (prove format, verify format) pairs
		H := vrfRefH(key.Yb, alpha)
		kDet := vrfRefNonce(key.hi, refEncode(H))
		piCur, _ := vrfRefProve(key.x, key.Yb, alpha, kDet, true, 0)
		piV10, _ := vrfRefProve(key.x, key.Yb, alpha, kDet, false, 0)
		verify("verify.honest.cur", true, key.Yb, piCur, alpha)
		verify("verify.honest.v10", false, key.Yb, piV10, alpha)
		verify("verify.cross.cur-as-v10", false, key.Yb, piCur, alpha)
		verify("verify.cross.v10-as-cur", true, key.Yb, piV10, alpha)
		hash("hash.honest", piCur)
		pi := piCur
		if !withY {
			pi = piV10
		}
		// any nonce gives a valid proof with the same output
		piR, _ := vrfRefProve(key.x, key.Yb, alpha, randK(), withY, 0)
		verify("verify.randomnonce", withY, key.Yb, piR, alpha)

		// --- altered proofs
		s := leInt(pi[48:])
		verify("verify.s+L", withY, key.Yb, setS(pi, new(big.Int).Add(s, refL)), alpha)
		hash("hash.s+L", setS(pi, new(big.Int).Add(s, refL)))
		for _, sv := range []*big.Int{bi0, bi1, new(big.Int).Sub(refL, bi1), refL, new(big.Int).Add(refL, bi1), new(big.Int).Lsh(bi1, 252),
			new(big.Int).Lsh(bi1, 253), new(big.Int).Sub(two256, bi1), new(big.Int).Add(s, bi1), new(big.Int).Sub(s, bi1)}[round/2%2*5 : round/2%2*5+5] {
			verify("verify.sraw", withY, key.Yb, setS(pi, sv), alpha)
			if sv.Cmp(refL) >= 0 || g.Intn(4) == 0 {
				hash("hash.sraw", setS(pi, sv))
			}
		}
		for i := 0; i < 6; i++ {
			j := g.Intn(640)
			if i == 0 {
				j = g.Intn(256) // Gamma
			} else if i == 1 {
				j = 256 + g.Intn(128) // c
			} else if i == 2 {
				j = 384 + g.Intn(256) // s
			}
			m := append([]byte{}, pi...)
			m[j/8] ^= 1 << (j % 8)
			verify("verify.bitflip", withY, key.Yb, m, alpha)
			if i < 3 {
				hash("hash.bitflip", m)
			}
		}
		// Gamma shifted by a torsion point: rejected, but the output (a function of 8·Gamma) is unchanged
		G, _ := refDecode(pi[:32])
		for _, ti := range []int{1 + g.Intn(7), 4} {
			gt := refEncode(refAdd(G, refTorsion[ti]))
			verify("verify.gamma+T", withY, key.Yb, setG(pi, gt), alpha)
			hash("hash.gamma+T", setG(pi, gt))
		}
		verify("verify.gamma.neg", withY, key.Yb, setG(pi, refEncode(refNeg(G))), alpha)
		ncg := g.Pick(refNonCanon)
		verify("verify.gamma.noncanon", withY, key.Yb, setG(pi, ncg), alpha)
		hash("hash.gamma.noncanon", setG(pi, ncg))
		smg := g.Pick(refSmall)
		verify("verify.gamma.small", withY, key.Yb, setG(pi, smg), alpha)
		hash("hash.gamma.small", setG(pi, smg))
		rg := g.Bytes(32)
		verify("verify.gamma.random", withY, key.Yb, setG(pi, rg), alpha)
		hash("hash.gamma.random", setG(pi, rg))
		// honest Gamma with y replaced by y + p is only expressible for y < 19; instead: sign bit flipped
		fg := append([]byte{}, pi[:32]...)
		fg[31] ^= 0x80
		verify("verify.gamma.signflip", withY, key.Yb, setG(pi, fg), alpha)
		for _, l := range []int{0, 1, 32, 48, 79, 81, 96, 160} {
			var m []byte
			if l <= 80 {
				m = pi[:l]
			} else {
				m = append(append([]byte{}, pi...), make([]byte, l-80)...)
			}
			if l == 79+2*(round/2%2) || g.Intn(6) == 0 {
				verify("verify.len", withY, key.Yb, m, alpha)
				hash("hash.len", m)
			}
		}
		verify("verify.zero", withY, key.Yb, make([]byte, 80), alpha)
		if round%8 == 0 {
			hash("hash.zero", make([]byte, 80))
			hash("hash.random", g.Bytes(80))
		}

		// --- other input / other key
		a2 := append(append([]byte{}, alpha...), byte(g.Intn(256)))
		verify("verify.alpha.extended", withY, key.Yb, pi, a2)
		if len(alpha) > 0 {
			a3 := append([]byte{}, alpha...)
			j := g.Intn(8 * len(a3))
			a3[j/8] ^= 1 << (j % 8)
			verify("verify.alpha.bitflip", withY, key.Yb, pi, a3)
			verify("verify.alpha.truncated", withY, key.Yb, pi, alpha[:len(alpha)-1])
		}
		other := vrfRefKey(g.Bytes(32))
		verify("verify.otherkey", withY, other.Yb, pi, alpha)
		yf := append([]byte{}, key.Yb...)
		j := g.Intn(256)
		yf[j/8] ^= 1 << (j % 8)
		verify("verify.key.bitflip", withY, yf, pi, alpha)
		verify("verify.key.small", withY, g.Pick(refSmall), pi, alpha)
		verify("verify.key.noncanon", withY, g.Pick(refNonCanon), pi, alpha)
		verify("verify.key.bad", withY, g.Pick(badKeys), make([]byte, 80), alpha)
		verify("verify.key.random", withY, g.Bytes(32), pi, alpha)
		verify("verify.key.len", withY, append(append([]byte{}, key.Yb...), 0, 0)[:[]int{0, 1, 31, 33, 34}[g.Intn(5)]], pi, alpha)
		// honest key shifted by a torsion point (mixed order, canonical, not small): proof for Y does not fit
		ti := 1 + g.Intn(7)
		yt := refEncode(refAdd(key.Y, refTorsion[ti]))
		verify("verify.key+T", withY, yt, pi, alpha)

		// --- small-order public key with a proof that satisfies the RFC's equations: for Y = T_i, Gamma = T_j and
		// s = k one gets U = k·B − c·Y = k·B and V = k·H − c·Gamma = k·H as soon as lcm(ord Y, ord Gamma) | c.
		// Only ECVRF_validate_key (§5.4.5) stands between this and acceptance.
		if round%3 == 1 {
			ordOf := func(i int) int64 {
				switch {
				case i == 0:
					return 1
				case i == 4:
					return 2
				case i%2 == 0:
					return 4
				}
				return 8
			}
			ty := []int{0, 0, 4, 2, 6, 1}[g.Intn(6)]
			tg := []int{0, 0, 4, ty}[g.Intn(4)]
			ord := ordOf(ty)
			if o := ordOf(tg); o > ord {
				ord = o
			}
			yb, gb := refEncode(refTorsion[ty]), refEncode(refTorsion[tg])
			Hs := vrfRefH(yb, alpha)
			hb := refEncode(Hs)
			for try := 0; try < 40; try++ {
				k := randK()
				var y []byte
				if withY {
					y = yb
				}
				c := vrfRefChallenge(y, hb, gb, refEncode(vrfMul(k, refB)), refEncode(vrfMul(k, Hs)))
				if new(big.Int).Mod(c, big.NewInt(ord)).Sign() == 0 {
					p2 := append(append(append([]byte{}, gb...), leBytes(c, 16)...), leBytes(k, 32)...)
					verify("verify.crafted.smallkey", withY, yb, p2, alpha)
					hash("hash.crafted.smallgamma", p2)
					break
				}
			}
		}

		// --- crafted ACCEPTING cases outside the honest distribution.
		// (a) public key Y' = x·B + T with ord(T) | c: then c·Y' = c·x·B and the RFC's equations hold.
		// (b) Gamma' = x·H + T with ord(T) | c likewise.  The output equals the honest one (8·T = 0).
		// Grind the nonce until the challenge is divisible by ord(T); T4 has order 2, T2/T6 order 4.
		if round%3 == 0 {
			tj := []int{4, 4, 2, 6, 4, 1}[g.Intn(6)]
			ord := int64(8)
			if tj == 4 {
				ord = 2
			} else if tj%2 == 0 {
				ord = 4
			}
			ytb := refEncode(refAdd(key.Y, refTorsion[tj]))
			for try := 0; try < 40; try++ {
				p2, c := vrfRefProve(key.x, ytb, alpha, randK(), withY, 0)
				if new(big.Int).Mod(c, big.NewInt(ord)).Sign() == 0 {
					verify("verify.crafted.key+T.valid", withY, ytb, p2, alpha)
					break
				} else if try == 0 {
					verify("verify.crafted.key+T.invalid", withY, ytb, p2, alpha)
				}
			}
			for try := 0; try < 40; try++ {
				p2, c := vrfRefProve(key.x, key.Yb, alpha, randK(), withY, tj)
				if new(big.Int).Mod(c, big.NewInt(ord)).Sign() == 0 {
					verify("verify.crafted.gamma+T.valid", withY, key.Yb, p2, alpha)
					hash("hash.crafted.gamma+T", p2)
					break
				} else if try == 0 {
					verify("verify.crafted.gamma+T.invalid", withY, key.Yb, p2, alpha)
				}
			}
		}
	}
}

func execE1(op string, a []string) string {
	switch op {
	case "vrf.prove":
		sk, alpha := ed25519.PrivateKey(unhex(a[1])), unhex(a[2])
		if len(sk) == 64 {
			// the caller's key lives in a buffer that is overwritten in place from call to call (one buffer per goroutine
			// at a time: a pool): nothing may be remembered about a key by reference
			buf := vrfKeyBufs.Get().(*[64]byte)
			defer vrfKeyBufs.Put(buf)
			copy(buf[:], sk)
			sk = ed25519.PrivateKey(buf[:])
		}
		if a[0] == "v10" {
			return "ok " + hx(ecvrf.Prove_v10(sk, alpha))
		}
		return "ok " + hx(ecvrf.Prove(sk, alpha))
	case "vrf.provernd":
		sk, alpha := ed25519.PrivateKey(unhex(a[1])), unhex(a[2])
		rd := bytes.NewReader(unhex(a[3]))
		var (
			pi  []byte
			err error
		)
		if a[0] == "v10" {
			pi, err = ecvrf.ProveWithAddedRandomness_v10(rd, sk, alpha)
		} else {
			pi, err = ecvrf.ProveWithAddedRandomness(rd, sk, alpha)
		}
		if err != nil {
			return "err"
		}
		return "ok " + hx(pi)
	case "vrf.verify":
		pk, pi, alpha := ed25519.PublicKey(unhex(a[1])), unhex(a[2]), unhex(a[3])
		var (
			ok   bool
			beta []byte
		)
		if a[0] == "v10" {
			ok, beta = ecvrf.Verify_v10(pk, pi, alpha)
		} else {
			ok, beta = ecvrf.Verify(pk, pi, alpha)
		}
		if !ok {
			if beta != nil {
				return "bad-beta-on-failure " + hx(beta)
			}
			return "err"
		}
		return "ok " + hx(beta)
	case "vrf.hash":
		beta, err := ecvrf.ProofToHash(unhex(a[0]))
		if err != nil {
			return "err"
		}
		return "ok " + hx(beta)
	}
	return "bad-op"
}

func init() {
	register(&Stream{Name: "E1", Gen: genE1, Exec: execE1})
}
