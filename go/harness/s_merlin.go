package main

// Streams for property C13 (Merlin / STROBE):
//
//	M1  Merlin transcripts and raw STROBE operation histories (stateful; small integer ids)
//	S0  the Keccak-f[1600] permutation selected by the build (amd64 assembly, or keccakf.go under -tags purego)
//
// M1 ops (byte strings hex, "-" = empty; integers decimal; every id space is a separate map):
//
//	m.new id label                -> ok                       NewTranscript(label)
//	m.append id label msg         -> ok                       AppendMessage (also checks msg is not modified)
//	m.extract id label n          -> ok <n bytes>             ExtractBytes into a DIRTY buffer; a clone extracting into a
//	                                                          zeroed buffer must agree, else `fail dirty-dest`
//	m.clone id newid              -> ok                       Clone
//	m.rng id rngid                -> ok                       BuildRng
//	m.rekey rngid label witness   -> ok                       RekeyWithWitnessBytes (also checks witness is not modified)
//	m.final rngid newid entropy   -> ok | err                 Finalize(reader yielding exactly `entropy`); err iff < 32 bytes;
//	                                                          on success exactly 32 bytes must have been consumed
//	m.read newid n                -> ok <n bytes>             transcriptRng.Read into a dirty buffer
//	st.new id proto               -> ok                       strobe.New
//	st.zero id                    -> ok                       the zero value Strobe{} (uninitialised)
//	st.clone id newid             -> ok
//	st.ad id meta more data       -> ok | panic doc           AD / MetaAD
//	st.key id more data           -> ok | panic doc           KEY (more=1 through the export)
//	st.prf id more n              -> ok <n bytes> | panic doc PRF (more=1 through the export), dirty buffer
//
// S0 ops:  keccakf st200 -> ok st200   (VerifKeccakF on 25 little-endian lanes)
//
//	keccakf.bytes st200 -> ok st200   (keccakF1600Bytes, the wrapper runF calls)
//
// Generator classes: m.* = Merlin histories (20-60 ops, up to 6 live transcripts, up to 4 RNG builders, ids restart at 0
// per history); `.hdrT` = the label length makes the AD/PRF/KEY header start at offset T of the block, `+end` = the
// message length makes the NEXT operation's header start at a target offset; m.twin = clone + identical extractions
// (equal outputs) + divergence; m.split = the same bytes split differently between label and message on two clones
// (different outputs); m.final.short = < 32 bytes of entropy (err, builder still usable); m.uaf = builder used after
// Finalize (the library nils its state on purpose: `panic runtime`).  st.* = raw STROBE histories: `.chunk` = one
// message fed as 2-4 `more` pieces (cuts on/next to block boundaries, empty pieces) while a clone gets it `.whole`,
// then both PRF (`st.prf.cmp`, equal outputs); st.mismatch = `more` with other flags (panic doc, state unchanged);
// st.uninit = operation on Strobe{} (panic doc).
//
// The generators keep a *shadow cursor* (pos mod 166 only — no cryptography, no library results) so that they
// can choose label/data lengths that place the 2-byte operation header at chosen offsets relative to the block
// boundary (header starting at 163, 164 [ends exactly on the boundary], 165 [straddles], 0, 1).

import (
	"bytes"
	"encoding/binary"
	"io"
	"strconv"

	"github.com/oasisprotocol/curve25519-voi/internal/strobe"
	"github.com/oasisprotocol/curve25519-voi/primitives/merlin"
)

const m1Rate = 166

type m1Maps struct {
	ts   map[int]*merlin.Transcript
	rbs  map[int]*merlin.TranscriptRngBuilder
	rngs map[int]io.Reader
	sts  map[int]*strobe.Strobe
}

var m1 m1Maps

func m1Reset() {
	m1 = m1Maps{
		ts:   map[int]*merlin.Transcript{},
		rbs:  map[int]*merlin.TranscriptRngBuilder{},
		rngs: map[int]io.Reader{},
		sts:  map[int]*strobe.Strobe{},
	}
}

func m1Atoi(s string) int {
	n, err := strconv.Atoi(s)
	if err != nil {
		panic("harness: bad int " + s)
	}
	return n
}

// m1Dirty returns a buffer of n non-zero, position dependent bytes.
func m1Dirty(n, salt int) []byte {
	d := make([]byte, n)
	for i := range d {
		d[i] = byte(i*7+salt) | 1
	}
	return d
}

func execM1(op string, a []string) string {
	switch op {
	case "m.new":
		m1.ts[m1Atoi(a[0])] = merlin.NewTranscript(string(unhex(a[1])))
		return "ok"
	case "m.append":
		t := m1.ts[m1Atoi(a[0])]
		msg := unhex(a[2])
		orig := append([]byte{}, msg...)
		t.AppendMessage(string(unhex(a[1])), msg)
		if !bytes.Equal(orig, msg) {
			return "fail msg-modified"
		}
		return "ok"
	case "m.extract":
		id := m1Atoi(a[0])
		t := m1.ts[id]
		label := string(unhex(a[1]))
		n := m1Atoi(a[2])
		c := t.Clone()
		d := m1Dirty(n, id)
		t.ExtractBytes(d, label)
		z := make([]byte, n)
		c.ExtractBytes(z, label)
		if !bytes.Equal(d, z) {
			return "fail dirty-dest"
		}
		return "ok " + hx(d)
	case "m.clone":
		m1.ts[m1Atoi(a[1])] = m1.ts[m1Atoi(a[0])].Clone()
		return "ok"
	case "m.rng":
		m1.rbs[m1Atoi(a[1])] = m1.ts[m1Atoi(a[0])].BuildRng()
		return "ok"
	case "m.rekey":
		rb := m1.rbs[m1Atoi(a[0])]
		w := unhex(a[2])
		orig := append([]byte{}, w...)
		if rb.RekeyWithWitnessBytes(string(unhex(a[1])), w) != rb {
			return "fail rekey-return"
		}
		if !bytes.Equal(orig, w) {
			return "fail witness-modified"
		}
		return "ok"
	case "m.final":
		rb := m1.rbs[m1Atoi(a[0])]
		ent := unhex(a[2])
		rd := bytes.NewReader(ent)
		r, err := rb.Finalize(rd)
		if err != nil {
			if r != nil {
				return "fail final-err-nonnil"
			}
			return "err"
		}
		if rd.Len() != len(ent)-32 {
			return "fail entropy-consumed"
		}
		m1.rngs[m1Atoi(a[1])] = r
		return "ok"
	case "m.read":
		id := m1Atoi(a[0])
		n := m1Atoi(a[1])
		d := m1Dirty(n, id+3)
		k, err := m1.rngs[id].Read(d)
		if err != nil {
			return "err"
		}
		if k != n {
			return "fail read-count"
		}
		return "ok " + hx(d)
	case "st.new":
		m1.sts[m1Atoi(a[0])] = strobe.VerifNew(string(unhex(a[1])))
		return "ok"
	case "st.zero":
		m1.sts[m1Atoi(a[0])] = strobe.VerifZero()
		return "ok"
	case "st.clone":
		m1.sts[m1Atoi(a[1])] = m1.sts[m1Atoi(a[0])].Clone()
		return "ok"
	case "st.ad":
		s := m1.sts[m1Atoi(a[0])]
		data := unhex(a[3])
		orig := append([]byte{}, data...)
		if a[1] == "1" {
			s.MetaAD(data, a[2] == "1")
		} else {
			s.AD(data, a[2] == "1")
		}
		if !bytes.Equal(orig, data) {
			return "fail data-modified"
		}
		return "ok"
	case "st.key":
		s := m1.sts[m1Atoi(a[0])]
		data := unhex(a[2])
		orig := append([]byte{}, data...)
		if a[1] == "1" {
			s.VerifKEY(data, true)
		} else {
			s.KEY(data)
		}
		if !bytes.Equal(orig, data) {
			return "fail key-modified"
		}
		return "ok"
	case "st.prf":
		id := m1Atoi(a[0])
		s := m1.sts[id]
		d := m1Dirty(m1Atoi(a[2]), id+5)
		if a[1] == "1" {
			s.VerifPRF(d, true)
		} else {
			s.PRF(d)
		}
		return "ok " + hx(d)
	}
	return "bad-op"
}

func execS0(op string, a []string) string {
	b := unhex(a[0])
	if len(b) != 200 {
		return "bad-op"
	}
	switch op {
	case "keccakf":
		var st [25]uint64
		for i := range st {
			st[i] = binary.LittleEndian.Uint64(b[8*i:])
		}
		strobe.VerifKeccakF(&st)
		out := make([]byte, 200)
		for i := range st {
			binary.LittleEndian.PutUint64(out[8*i:], st[i])
		}
		return "ok " + hx(out)
	case "keccakf.bytes":
		var st [200]byte
		copy(st[:], b)
		strobe.VerifKeccakFBytes(&st)
		return "ok " + hx(st[:])
	}
	return "bad-op"
}

// ---------------------------------------------------------------------------------------------
// generators

var m1Lens = []int{0, 1, 2, 3, 4, 5, 160, 161, 162, 163, 164, 165, 166, 167, 168, 169, 170, 331, 332, 333, 334, 335, 500, 1024}
var m1LabelLens = []int{0, 1, 5, 7, 9, 11, 60, 156, 158, 160, 162, 164, 166, 330}

// header start offsets of interest: 164 = header ends exactly on the boundary, 165 = header straddles it
var m1Targets = []int{163, 164, 165, 0, 1}

func m1PickLen(g *Gen) int {
	if g.Intn(8) == 0 {
		return 6 + g.Intn(154)
	}
	return m1Lens[g.Intn(len(m1Lens))]
}

// m1Data: random, all-zero or all-ones content
func m1Data(g *Gen, n int) []byte {
	switch g.Intn(10) {
	case 0:
		return make([]byte, n)
	case 1:
		return bytes.Repeat([]byte{0xff}, n)
	}
	return g.Bytes(n)
}

func m1Mod(x int) int { return ((x % m1Rate) + m1Rate) % m1Rate }

// m1LenFor returns a length n >= 0 with (pos + n) mod 166 == target, sometimes one or two blocks longer.
func m1LenFor(g *Gen, pos, target int) int {
	n := m1Mod(target - pos)
	switch g.Intn(6) {
	case 0:
		n += m1Rate
	case 1:
		n += 2 * m1Rate
	}
	return n
}

// shadow cursor arithmetic (pos mod 166 only)
func m1ShHdr(pos int, c bool) int {
	if c {
		return 0 // a C operation forces a permutation after its header (unless already at 0)
	}
	return m1Mod(pos + 2)
}

// position after `MetaAD(label); MetaAD(le32, more)`
func m1ShFrame(pos, labelLen int) int { return m1Mod(m1ShHdr(pos, false) + labelLen + 4) }

type m1Obj struct {
	id     int
	pos    int // shadow cursor
	rekeys int
}

// labelAndClass chooses a label length: random from the list, or such that the header FOLLOWING the frame
// (AD / PRF / KEY) starts at one of the target offsets.
func m1Label(g *Gen, pos int) (label []byte, class string) {
	if g.Intn(2) == 0 {
		t := m1Targets[g.Intn(len(m1Targets))]
		// pos + 2 + L + 4 == t (mod 166)
		L := m1LenFor(g, m1Mod(pos+6), t)
		return g.Bytes(L), ".hdr" + itoa(t)
	}
	return g.Bytes(m1LabelLens[g.Intn(len(m1LabelLens))]), ".rnd"
}

func genMerlinHistory(g *Gen) {
	next := 0
	newID := func() int { next++; return next - 1 }
	var ts, rbs, rngs []*m1Obj
	nops := 20 + g.Intn(41)
	mkNew := func() {
		l := m1LabelLens[g.Intn(len(m1LabelLens))]
		if g.Intn(3) == 0 {
			l = m1PickLen(g)
		}
		o := &m1Obj{id: newID()}
		// New("Merlin v1.0"): header + 11 bytes; AppendMessage("dom-sep", label)
		o.pos = m1Mod(m1ShHdr(m1ShFrame(13, 7), false) + l)
		g.Emit("m.new", "M1", "m.new", itoa(o.id), hx(g.Bytes(l)))
		ts = append(ts, o)
	}
	mkNew()
	if g.Bool() {
		mkNew()
	}
	appendOp := func(t *m1Obj) {
		label, cl := m1Label(g, t.pos)
		p := m1ShHdr(m1ShFrame(t.pos, len(label)), false)
		var n int
		if g.Intn(2) == 0 {
			// message length such that the NEXT operation's header starts at a target offset
			tg := m1Targets[g.Intn(len(m1Targets))]
			n = m1LenFor(g, p, tg)
			cl += "+end"
		} else {
			n = m1PickLen(g)
		}
		g.Emit("m.append"+cl, "M1", "m.append", itoa(t.id), hx(label), hx(m1Data(g, n)))
		t.pos = m1Mod(p + n)
	}
	extractOp := func(t *m1Obj, label []byte, cl string, n int) {
		g.Emit("m.extract"+cl, "M1", "m.extract", itoa(t.id), hx(label), itoa(n))
		t.pos = m1Mod(n) // PRF starts at 0
	}
	for step := 0; step < nops && !g.Full(); step++ {
		t := ts[g.Intn(len(ts))]
		r := g.Intn(100)
		switch {
		case r < 30:
			appendOp(t)
		case r < 50:
			label, cl := m1Label(g, t.pos)
			extractOp(t, label, cl, m1PickLen(g))
		case r < 58 && len(ts) < 6:
			c := &m1Obj{id: newID(), pos: t.pos}
			g.Emit("m.clone", "M1", "m.clone", itoa(t.id), itoa(c.id))
			ts = append(ts, c)
		case r < 65 && len(ts) < 6:
			// twins: clone, the same extraction on both (equal output), then a divergent append on one, and
			// the same extraction again on both (different output; the origin must be unaffected by the clone's append)
			c := &m1Obj{id: newID(), pos: t.pos}
			g.Emit("m.twin", "M1", "m.clone", itoa(t.id), itoa(c.id))
			ts = append(ts, c)
			label, _ := m1Label(g, t.pos)
			n := m1PickLen(g)
			extractOp(t, label, ".twin", n)
			extractOp(c, label, ".twin", n)
			first, second := t, c
			if g.Bool() {
				first, second = c, t
			}
			appendOp(first)
			label2 := g.Bytes(g.Intn(12))
			extractOp(second, label2, ".twin", 32)
			extractOp(first, label2, ".twin", 32)
		case r < 69 && len(ts) < 6:
			// the same bytes split differently between label and message (and one order swap): the framing
			// le32(len) makes the absorbed streams differ, so the challenges differ
			c := &m1Obj{id: newID(), pos: t.pos}
			g.Emit("m.split", "M1", "m.clone", itoa(t.id), itoa(c.id))
			ts = append(ts, c)
			whole := g.Bytes(2 + g.Intn(40))
			if g.Intn(4) == 0 {
				// a label that ends in what looks like the length prefix of the rest
				whole = append(append(g.Bytes(3), 2, 0, 0, 0), g.Bytes(2)...)
			}
			k := g.Intn(len(whole) + 1)
			k2 := (k + 1 + g.Intn(len(whole))) % (len(whole) + 1)
			for _, x := range []struct {
				o *m1Obj
				k int
			}{{t, k}, {c, k2}} {
				g.Emit("m.split", "M1", "m.append", itoa(x.o.id), hx(whole[:x.k]), hx(whole[x.k:]))
				x.o.pos = m1Mod(m1ShHdr(m1ShFrame(x.o.pos, x.k), false) + len(whole) - x.k)
			}
			extractOp(t, []byte("c"), ".split", 16)
			extractOp(c, []byte("c"), ".split", 16)
		case r < 72 && len(ts) < 6:
			mkNew()
		case r < 80 && len(rbs) < 4:
			b := &m1Obj{id: newID(), pos: t.pos}
			g.Emit("m.rng", "M1", "m.rng", itoa(t.id), itoa(b.id))
			rbs = append(rbs, b)
		case r < 91 && len(rbs) > 0:
			i := g.Intn(len(rbs))
			b := rbs[i]
			if b.rekeys < 2 && g.Intn(3) != 0 {
				label, cl := m1Label(g, b.pos)
				wl := []int{0, 1, 31, 32, 33, 64, 165, 166, 167, 200, 332}[g.Intn(11)]
				g.Emit("m.rekey"+cl, "M1", "m.rekey", itoa(b.id), hx(label), hx(m1Data(g, wl)))
				b.pos = m1Mod(wl)
				b.rekeys++
				break
			}
			// finalize: short entropy first (error, builder stays usable), then enough
			if g.Intn(4) == 0 {
				el := []int{0, 1, 16, 31}[g.Intn(4)]
				g.Emit("m.final.short", "M1", "m.final", itoa(b.id), itoa(newID()), hx(g.Bytes(el)))
			}
			el, cl := 32, "m.final.32"
			if g.Intn(4) == 0 {
				el, cl = []int{33, 40, 64}[g.Intn(3)], "m.final.long"
			}
			rg := &m1Obj{id: newID(), pos: 32}
			g.Emit(cl, "M1", "m.final", itoa(b.id), itoa(rg.id), hx(m1Data(g, el)))
			rngs = append(rngs, rg)
			rbs = append(rbs[:i], rbs[i+1:]...)
			if g.Intn(5) == 0 {
				// use after Finalize: the library nils the builder's state "to crash on further calls"
				if g.Bool() {
					g.Emit("m.uaf", "M1", "m.rekey", itoa(b.id), hx(g.Bytes(3)), hx(g.Bytes(8)))
				} else {
					g.Emit("m.uaf", "M1", "m.final", itoa(b.id), itoa(newID()), hx(g.Bytes(32)))
				}
			}
			g.Emit("m.read", "M1", "m.read", itoa(rg.id), itoa(m1PickLen(g)))
		case len(rngs) > 0:
			rg := rngs[g.Intn(len(rngs))]
			g.Emit("m.read", "M1", "m.read", itoa(rg.id), itoa(m1PickLen(g)))
			if g.Intn(3) == 0 {
				// a zero-length read is still a framed operation: it must change what later reads return
				g.Emit("m.read.zero", "M1", "m.read", itoa(rg.id), "0")
				g.Emit("m.read.afterzero", "M1", "m.read", itoa(rg.id), itoa(1+g.Intn(40)))
			}
		default:
			appendOp(t)
		}
	}
	// flush: finalize what is left and read from everything so that every state influences some output
	for _, b := range rbs {
		if g.Full() {
			return
		}
		rg := newID()
		g.Emit("m.final.32", "M1", "m.final", itoa(b.id), itoa(rg), hx(g.Bytes(32)))
		g.Emit("m.read", "M1", "m.read", itoa(rg), "64")
	}
	for _, t := range ts {
		if g.Full() {
			return
		}
		g.Emit("m.extract.flush", "M1", "m.extract", itoa(t.id), hx([]byte("flush")), "32")
	}
}

// raw STROBE histories: `more` continuations, meta flags, KEY/PRF with more, flag mismatches, uninitialised use
type m1StObj struct {
	id    int
	pos   int
	flags int // 0 AD, 1 metaAD, 2 KEY, 3 PRF
}

func genStrobeHistory(g *Gen) {
	next := 0
	newID := func() int { next++; return next - 1 }
	var live []*m1StObj
	b01 := func(b bool) string {
		if b {
			return "1"
		}
		return "0"
	}
	mk := func() {
		pl := []int{0, 1, 11, 18, 162, 163, 164, 165, 166, 167, 330}[g.Intn(11)]
		o := &m1StObj{id: newID(), pos: m1Mod(2 + pl), flags: 1}
		g.Emit("st.new", "M1", "st.new", itoa(o.id), hx(g.Bytes(pl)))
		live = append(live, o)
	}
	mk()
	// emit one operation; kind 0 AD, 1 metaAD, 2 KEY, 3 PRF
	emit := func(class string, o *m1StObj, kind int, more bool, n int) {
		switch kind {
		case 0, 1:
			g.Emit(class, "M1", "st.ad", itoa(o.id), b01(kind == 1), b01(more), hx(m1Data(g, n)))
		case 2:
			g.Emit(class, "M1", "st.key", itoa(o.id), b01(more), hx(m1Data(g, n)))
		case 3:
			g.Emit(class, "M1", "st.prf", itoa(o.id), b01(more), itoa(n))
		}
		if !more {
			o.pos = m1ShHdr(o.pos, kind >= 2)
			o.flags = kind
		}
		o.pos = m1Mod(o.pos + n)
	}
	kindName := []string{"ad", "meta", "key", "prf"}
	nops := 20 + g.Intn(41)
	for step := 0; step < nops && !g.Full(); step++ {
		o := live[g.Intn(len(live))]
		r := g.Intn(100)
		switch {
		case r < 30:
			// plain operation; half of the time the length makes the next header start at a target offset
			kind := g.Intn(4)
			n := m1PickLen(g)
			cl := ".rnd"
			if g.Bool() {
				tg := m1Targets[g.Intn(len(m1Targets))]
				n = m1LenFor(g, m1ShHdr(o.pos, kind >= 2), tg)
				cl = ".end"
			}
			emit("st."+kindName[kind]+cl, o, kind, false, n)
		case r < 55:
			// chunked operation: more=0 then 1..3 continuations; a clone gets the same total in one call;
			// both then produce output (equal)
			kind := g.Intn(4)
			var c *m1StObj
			if len(live) < 6 {
				c = &m1StObj{id: newID(), pos: o.pos, flags: o.flags}
				g.Emit("st.clone", "M1", "st.clone", itoa(o.id), itoa(c.id))
				live = append(live, c)
			}
			total := m1PickLen(g)
			data := m1Data(g, total)
			k := 2 + g.Intn(3)
			cuts := []int{0}
			for i := 1; i < k; i++ {
				var cut int
				switch g.Intn(3) {
				case 0: // cut on / next to a block boundary of the sponge
					p0 := m1ShHdr(o.pos, kind >= 2)
					cut = m1Mod(-p0) + []int{-1, 0, 1}[g.Intn(3)] + m1Rate*g.Intn(2)
				case 1:
					cut = cuts[len(cuts)-1] // empty chunk
				default:
					cut = g.Intn(total + 1)
				}
				if cut < cuts[len(cuts)-1] {
					cut = cuts[len(cuts)-1]
				}
				if cut > total {
					cut = total
				}
				cuts = append(cuts, cut)
			}
			cuts = append(cuts, total)
			for i := 0; i+1 < len(cuts); i++ {
				seg := data[cuts[i]:cuts[i+1]]
				more := i > 0
				cl := "st." + kindName[kind] + ".chunk"
				switch kind {
				case 0, 1:
					g.Emit(cl, "M1", "st.ad", itoa(o.id), b01(kind == 1), b01(more), hx(seg))
				case 2:
					g.Emit(cl, "M1", "st.key", itoa(o.id), b01(more), hx(seg))
				case 3:
					g.Emit(cl, "M1", "st.prf", itoa(o.id), b01(more), itoa(len(seg)))
				}
			}
			o.pos = m1Mod(m1ShHdr(o.pos, kind >= 2) + total)
			o.flags = kind
			if c != nil {
				cl := "st." + kindName[kind] + ".whole"
				switch kind {
				case 0, 1:
					g.Emit(cl, "M1", "st.ad", itoa(c.id), b01(kind == 1), "0", hx(data))
				case 2:
					g.Emit(cl, "M1", "st.key", itoa(c.id), "0", hx(data))
				case 3:
					g.Emit(cl, "M1", "st.prf", itoa(c.id), "0", itoa(total))
				}
				c.pos, c.flags = o.pos, kind
				emit("st.prf.cmp", o, 3, false, 40)
				emit("st.prf.cmp", c, 3, false, 40)
			}
		case r < 65:
			// continuation of whatever the current operation is (right after New: the proto meta-AD)
			emit("st."+kindName[o.flags]+".more", o, o.flags, true, m1PickLen(g))
		case r < 75:
			// `more` with the wrong flags: documented panic, state unchanged
			kind := (o.flags + 1 + g.Intn(3)) % 4
			switch kind {
			case 0, 1:
				g.Emit("st.mismatch", "M1", "st.ad", itoa(o.id), b01(kind == 1), "1", hx(g.Bytes(g.Intn(5))))
			case 2:
				g.Emit("st.mismatch", "M1", "st.key", itoa(o.id), "1", hx(g.Bytes(g.Intn(5))))
			case 3:
				g.Emit("st.mismatch", "M1", "st.prf", itoa(o.id), "1", itoa(g.Intn(5)))
			}
			emit("st.prf.after-panic", o, 3, false, 16)
		case r < 80:
			// uninitialised state: every operation panics
			z := newID()
			g.Emit("st.zero", "M1", "st.zero", itoa(z))
			switch g.Intn(3) {
			case 0:
				g.Emit("st.uninit", "M1", "st.ad", itoa(z), b01(g.Bool()), b01(g.Bool()), hx(g.Bytes(g.Intn(4))))
			case 1:
				g.Emit("st.uninit", "M1", "st.key", itoa(z), b01(g.Bool()), hx(g.Bytes(g.Intn(4))))
			default:
				g.Emit("st.uninit", "M1", "st.prf", itoa(z), b01(g.Bool()), itoa(g.Intn(4)))
			}
		case r < 86 && len(live) < 6:
			c := &m1StObj{id: newID(), pos: o.pos, flags: o.flags}
			g.Emit("st.clone", "M1", "st.clone", itoa(o.id), itoa(c.id))
			live = append(live, c)
		case r < 90 && len(live) < 6:
			mk()
		default:
			emit("st.prf.rnd", o, 3, false, m1PickLen(g))
		}
	}
	for _, o := range live {
		if g.Full() {
			return
		}
		emit("st.prf.flush", o, 3, false, 32)
	}
}

// genMerlinBig: lengths at and above 2^16 (and, in the thorough tier, 2^22: the compiled Lean driver overflows its stack
// on a 2^24-byte message, so the fourth byte of the length is not exercised) in every place Merlin frames a length as
// LE32 — message, challenge, witness, RNG read.  Object ids 900.. so that they never collide with a history's.
func genMerlinBig(g *Gen) {
	g.Emit("m.big.new", "M1", "m.new", "900", hx([]byte("big lengths")))
	for _, n := range []int{65535, 65536, 65537, 66000 + g.Intn(60000)} {
		g.Emit("m.big.append", "M1", "m.append", "900", hx([]byte("m")), hx(m1Data(g, n)))
		g.Emit("m.big.extract32", "M1", "m.extract", "900", hx([]byte("c")), "32")
	}
	g.Emit("m.big.extract", "M1", "m.extract", "900", hx([]byte("c")), itoa(65536+g.Intn(300)))
	g.Emit("m.big.extract32", "M1", "m.extract", "900", hx([]byte("c")), "32")
	g.Emit("m.big.rng", "M1", "m.rng", "900", "900")
	g.Emit("m.big.rekey", "M1", "m.rekey", "900", hx([]byte("w")), hx(m1Data(g, 65536+g.Intn(300))))
	g.Emit("m.big.final", "M1", "m.final", "900", "900", hx(g.Bytes(32)))
	g.Emit("m.big.read", "M1", "m.read", "900", itoa(65536+g.Intn(300)))
	g.Emit("m.big.read32", "M1", "m.read", "900", "32")
	if g.Tier == "thorough" {
		g.Emit("m.big22.append", "M1", "m.append", "900", hx([]byte("m")), hx(m1Data(g, 1<<22+1+g.Intn(50))))
		g.Emit("m.big.extract32", "M1", "m.extract", "900", hx([]byte("c")), "32")
	}
}

// Stream M2: one whole transcript history per request (stateless, so it can be executed from many goroutines at once).
func genM2(g *Gen) {
	for !g.Full() {
		f := []string{"M2", "m.script", hx(g.Bytes(m1LabelLens[g.Intn(len(m1LabelLens))]))}
		k := 1 + g.Intn(4)
		for i := 0; i < k; i++ {
			f = append(f, hx(m1Data(g, 1+m1PickLen(g))))
		}
		f = append(f, itoa([]int{1, 32, 64, 165, 166, 167, 400}[g.Intn(7)]))
		g.Emit("script", f...)
	}
}

func execM2(op string, a []string) string {
	if op != "m.script" || len(a) < 2 {
		return "bad-op"
	}
	t := merlin.NewTranscript(string(unhex(a[0])))
	for _, m := range a[1 : len(a)-1] {
		t.AppendMessage("a", unhex(m))
	}
	out := make([]byte, m1Atoi(a[len(a)-1]))
	t.ExtractBytes(out, "c")
	return "ok " + hx(out)
}

func genM1(g *Gen) {
	genMerlinBig(g)
	for !g.Full() {
		if g.Intn(10) < 3 {
			genStrobeHistory(g)
		} else {
			genMerlinHistory(g)
		}
	}
}

func genS0(g *Gen) {
	emit := func(class string, st []byte) {
		g.Emit(class, "S0", "keccakf", hx(st))
		g.Emit(class+".bytes", "S0", "keccakf.bytes", hx(st))
	}
	zero := func() []byte { return make([]byte, 200) }
	emit("zero", zero())
	emit("ones", bytes.Repeat([]byte{0xff}, 200))
	prev := zero()
	for i := 0; !g.Full(); i++ {
		st := zero()
		switch i % 8 {
		case 0: // single bit
			b := g.Intn(1600)
			st[b/8] = 1 << (b % 8)
			emit("bit", st)
		case 1: // single lane: random, all-ones, or a single byte
			l := g.Intn(25)
			switch g.Intn(3) {
			case 0:
				copy(st[8*l:], g.Bytes(8))
			case 1:
				copy(st[8*l:], bytes.Repeat([]byte{0xff}, 8))
			default:
				st[8*l+g.Intn(8)] = byte(1 + g.Intn(255))
			}
			emit("lane", st)
		case 2: // all ones except one bit
			st = bytes.Repeat([]byte{0xff}, 200)
			b := g.Intn(1600)
			st[b/8] ^= 1 << (b % 8)
			emit("ones-bit", st)
		case 3: // sparse
			for k := 0; k < 2+g.Intn(6); k++ {
				b := g.Intn(1600)
				st[b/8] ^= 1 << (b % 8)
			}
			emit("sparse", st)
		case 4: // one row/column pattern: the same lane value in a whole column or plane
			v := g.Bytes(8)
			x := g.Intn(5)
			for y := 0; y < 5; y++ {
				if g.Bool() {
					copy(st[8*(x+5*y):], v) // column x
				} else {
					copy(st[8*(y+5*x):], v) // plane x
				}
			}
			emit("column-plane", st)
		case 5: // rate part only (what STROBE absorbs into): capacity zero
			copy(st, g.Bytes(168))
			emit("rate-only", st)
		case 6: // chained: a pseudo-random walk seeded from the generator (no library output involved)
			for j := range prev {
				prev[j] = prev[j]*5 + byte(j) + byte(g.Intn(256))
			}
			emit("walk", append([]byte{}, prev...))
		default:
			emit("random", g.Bytes(200))
		}
	}
}

func init() {
	m1Reset()
	register(&Stream{Name: "M1", Gen: genM1, Exec: execM1, Reset: m1Reset})
	register(&Stream{Name: "M2", Gen: genM2, Exec: execM2})
	register(&Stream{Name: "S0", Gen: genS0, Exec: execS0})
}
