package main

import (
	"crypto"
	stded "crypto/ed25519"
	"math/big"
	"strconv"
	"sync"

	"github.com/oasisprotocol/curve25519-voi/primitives/ed25519"
	"github.com/oasisprotocol/curve25519-voi/primitives/ed25519/extra/cache"
)

// flags: 0..31 bit i = {AllowSmallOrderA, AllowSmallOrderR, AllowNonCanonicalA, AllowNonCanonicalR, CofactorlessVerify};
// "nil" = Options.Verify left nil (library default).  hash: 0, 512 (SHA-512, i.e. Ed25519ph) or 256 (an unsupported hash).
func mkOpts(flags, hash, ctx string) *ed25519.Options {
	o := &ed25519.Options{Context: string(unhex(ctx))}
	if flags != "nil" {
		n, _ := strconv.Atoi(flags)
		o.Verify = &ed25519.VerifyOptions{
			AllowSmallOrderA: n&1 != 0, AllowSmallOrderR: n&2 != 0, AllowNonCanonicalA: n&4 != 0,
			AllowNonCanonicalR: n&8 != 0, CofactorlessVerify: n&16 != 0,
		}
	}
	switch hash {
	case "512":
		o.Hash = crypto.SHA512
	case "256":
		o.Hash = crypto.SHA256
	}
	return o
}

type edCase struct {
	f   int // -1 pure, 0 ctx, 1 ph
	ctx []byte
	msg []byte
}

// refSign builds a signature with A and R shifted by torsion points and S offset by dS (mod 2^256).
func refSign(seed []byte, c edCase, ta, tr int, dS *big.Int) (pk, sig []byte) {
	h := refH(seed)
	hb := leBytes(h, 64)
	a := refClamp(hb)
	prefix := hb[32:]
	A := refAdd(refMul(a, refB), refTorsion[ta])
	Ab := refEncode(A)
	d := refDom2(c.f, c.ctx)
	r := new(big.Int).Mod(refH(d, prefix, c.msg), refL)
	R := refAdd(refMul(r, refB), refTorsion[tr])
	Rb := refEncode(R)
	k := new(big.Int).Mod(refH(d, Rb, Ab, c.msg), refL)
	S := new(big.Int).Mod(new(big.Int).Add(r, new(big.Int).Mul(k, a)), refL)
	S.Add(S, dS)
	S.Mod(S, new(big.Int).Lsh(bi1, 256))
	return Ab, append(Rb, leBytes(S, 32)...)
}

func genV1(g *Gen) {
	modes := []edCase{{-1, nil, nil}, {0, []byte("c"), nil}, {0, g.Bytes(17), nil}, {0, g.Bytes(255), nil}, {1, nil, nil}, {1, []byte("ctx"), nil}}
	emit := func(class string, flags int, c edCase, pk, msg, sig []byte) {
		hash := "0"
		if c.f == 1 {
			hash = "512"
		}
		fl := itoa(flags)
		g.Emit(class, "V1", "verify", fl, hash, hx(c.ctx), hx(pk), hx(msg), hx(sig))
		g.Emit(class+".x", "V1", "verifyx", fl, hash, hx(c.ctx), hx(pk), hx(msg), hx(sig))
		if flags == 23 && c.f == -1 {
			g.Emit(class+".std", "V1", "stdverify", hx(pk), hx(msg), hx(sig))
		}
	}
	L2 := new(big.Int).Lsh(refL, 1)
	for round := 0; !g.Full(); round++ {
		for flags := 0; flags < 32 && !g.Full(); flags++ {
			// rotate through the modes so that every (flags, mode) pair is hit over rounds
			c := modes[(round+flags)%len(modes)]
			seed := g.Bytes(32)
			if c.f == 1 {
				c.msg = g.Bytes(64)
			} else {
				c.msg = g.Bytes(g.Intn(80))
			}
			pk, sig := refSign(seed, c, 0, 0, bi0)
			emit("honest", flags, c, pk, c.msg, sig)
			for _, tt := range [][2]int{{1 + g.Intn(7), 0}, {0, 1 + g.Intn(7)}, {1 + g.Intn(7), 1 + g.Intn(7)}} {
				pk2, sig2 := refSign(seed, c, tt[0], tt[1], bi0)
				emit("torsion", flags, c, pk2, c.msg, sig2)
			}
			for _, dS := range []*big.Int{refL, L2, big.NewInt(-1), bi1, new(big.Int).Lsh(bi1, 255), new(big.Int).Lsh(bi1, 252)} {
				pk3, sig3 := refSign(seed, c, 0, 0, dS)
				emit("dS", flags, c, pk3, c.msg, sig3)
			}
			for _, sraw := range []*big.Int{bi0, new(big.Int).Sub(refL, bi1), refL, new(big.Int).Add(refL, bi1), new(big.Int).Lsh(bi1, 253), new(big.Int).Sub(new(big.Int).Lsh(bi1, 256), bi1)} {
				emit("Sraw", flags, c, pk, c.msg, append(append([]byte{}, sig[:32]...), leBytes(sraw, 32)...))
			}
			for i := 0; i < 3; i++ {
				s2 := append([]byte{}, sig...)
				j := g.Intn(512)
				s2[j/8] ^= 1 << (j % 8)
				emit("flip", flags, c, pk, c.msg, s2)
			}
			pool := append(append([][]byte{}, refSmall...), refNonCanon...)
			for i := 0; i < 4; i++ {
				emit("small0", flags, c, g.Pick(pool), c.msg, append(append([]byte{}, g.Pick(pool)...), make([]byte, 32)...))
			}
			// small-order A, R = [r]B, S = r: the cofactored equation holds
			{
				Ab := g.Pick(refSmall)
				r := new(big.Int).Mod(leInt(g.Bytes(40)), refL)
				emit("smallA", flags, c, Ab, c.msg, append(refEncode(refMul(r, refB)), leBytes(r, 32)...))
			}
			// honest A, small-order R, S = k*a: cofactored holds
			{
				hb := leBytes(refH(seed), 64)
				a := refClamp(hb)
				A0 := refEncode(refMul(a, refB))
				Rb := g.Pick(refSmall)
				k := new(big.Int).Mod(refH(refDom2(c.f, c.ctx), Rb, A0, c.msg), refL)
				emit("smallR", flags, c, A0, c.msg, append(append([]byte{}, Rb...), leBytes(new(big.Int).Mod(new(big.Int).Mul(k, a), refL), 32)...))
			}
			// non-canonical A that is NOT small order is impossible (all non-canonical y<19 ... most are not on curve); use non-canonical R with honest rest
			{
				emit("noncanR", flags, c, pk, c.msg, append(append([]byte{}, g.Pick(refNonCanon)...), sig[32:]...))
			}
			for _, n := range []int{0, 1, 32, 63, 65, 96, 128} {
				var s2 []byte
				if n <= 64 {
					s2 = sig[:n]
				} else {
					s2 = append(append([]byte{}, sig...), make([]byte, n-64)...)
				}
				emit("len", flags, c, pk, c.msg, s2)
			}
			emit("randA", flags, c, g.Bytes(32), c.msg, sig)
			emit("randR", flags, c, pk, c.msg, append(g.Bytes(32), sig[32:]...))
			// wrong message / key
			emit("wrongmsg", flags, c, pk, append(append([]byte{}, c.msg...), 1), sig)
			// bad options / lengths (documented panics)
			if flags%8 == round%8 {
				g.Emit("badopt", "V1", "verify", itoa(flags), "0", hx(g.Bytes(256)), hx(pk), hx(c.msg), hx(sig))
				g.Emit("badopt", "V1", "verify", itoa(flags), "512", "-", hx(pk), hx(g.Bytes(63)), hx(sig))
				g.Emit("badopt", "V1", "verify", itoa(flags), "256", "-", hx(pk), hx(c.msg), hx(sig))
				g.Emit("badopt", "V1", "verify", itoa(flags), "0", "-", hx(pk[:31]), hx(c.msg), hx(sig))
				g.Emit("badopt", "V1", "verifyx", itoa(flags), "0", "-", hx(pk[:31]), hx(c.msg), hx(sig))
				g.Emit("nilopt", "V1", "verify", "nil", "0", "-", hx(pk), hx(c.msg), hx(sig))
			}
		}
	}
}

var (
	v1Shared sync.Map // public key bytes -> *ed25519.ExpandedPublicKey, shared by all goroutines
	v1CV     *cache.Verifier
	v1CVOnce sync.Once
)

func execV1(op string, a []string) string {
	switch op {
	case "verify":
		return b2s(ed25519.VerifyWithOptions(unhex(a[3]), unhex(a[4]), unhex(a[5]), mkOpts(a[0], a[1], a[2])))
	case "verifyx":
		// The expanded key is a SHARED object: one per public key for the whole process, used by whichever goroutines
		// happen to verify under that key at the same time (precomputed objects are documented as safe to share), and the
		// same question is put to one shared caching verifier with a deliberately tiny LRU (constant eviction).
		pkb := unhex(a[3])
		var xp *ed25519.ExpandedPublicKey
		if v, ok := v1Shared.Load(string(pkb)); ok {
			xp = v.(*ed25519.ExpandedPublicKey)
		} else {
			x, err := ed25519.NewExpandedPublicKey(pkb)
			if err != nil {
				return "err"
			}
			v, _ := v1Shared.LoadOrStore(string(pkb), x)
			xp = v.(*ed25519.ExpandedPublicKey)
		}
		o := mkOpts(a[0], a[1], a[2])
		r1 := ed25519.VerifyExpandedWithOptions(xp, unhex(a[4]), unhex(a[5]), o)
		if o != nil && len(pkb) == ed25519.PublicKeySize {
			v1CVOnce.Do(func() { v1CV = cache.NewVerifier(cache.NewLRUCache(1)) })
			if r2 := v1CV.VerifyWithOptions(pkb, unhex(a[4]), unhex(a[5]), o); r2 != r1 {
				return "cache-mismatch " + b2s(r1) + " " + b2s(r2)
			}
		}
		return b2s(r1)
	case "stdverify":
		return b2s(stded.Verify(unhex(a[0]), unhex(a[1]), unhex(a[2])))
	}
	return "bad-op"
}

// ---- K1: key generation and signing
type fixedReader struct{ b []byte }

func (r *fixedReader) Read(p []byte) (int, error) {
	n := copy(p, r.b)
	r.b = r.b[n:]
	if n == 0 {
		return 0, errShort
	}
	return n, nil
}

type errT string

func (e errT) Error() string { return string(e) }

const errShort = errT("short entropy")

func genK1(g *Gen) {
	lens := []int{0, 1, 31, 32, 63, 64, 111, 112, 127, 128, 129, 300}
	for !g.Full() {
		seed := g.Bytes(32)
		g.Emit("newkey", "K1", "newkey", hx(seed))
		priv := append(append([]byte{}, seed...), refEncode(refMul(refClamp(leBytes(refH(seed), 64)), refB))...)
		for _, hash := range []string{"0", "512"} {
			var ctx []byte
			switch g.Intn(4) {
			case 1:
				ctx = g.Bytes(1)
			case 2:
				ctx = g.Bytes(17)
			case 3:
				ctx = g.Bytes(255)
			}
			msg := g.Bytes(lens[g.Intn(len(lens))])
			if hash == "512" {
				msg = g.Bytes(64)
			}
			ent := "nil"
			if g.Intn(3) == 0 {
				ent = hx(g.Bytes(32))
			}
			sv := itoa(g.Intn(2))
			fl := []string{"nil", "2", "23", "3", "15"}[g.Intn(5)]
			g.Emit("sign", "K1", "sign", fl, hash, hx(ctx), ent, sv, hx(priv), hx(msg))
			if hash == "0" && len(ctx) == 0 && ent == "nil" {
				g.Emit("stdsign", "K1", "stdsign", hx(priv), hx(msg))
			}
		}
		// error paths: context too long, bad prehash length, unsupported hash, bad key length, incompatible flags, short entropy
		switch g.Intn(6) {
		case 0:
			g.Emit("signerr", "K1", "sign", "nil", "0", hx(g.Bytes(256)), "nil", "0", hx(priv), hx(g.Bytes(5)))
		case 1:
			g.Emit("signerr", "K1", "sign", "nil", "512", "-", "nil", "0", hx(priv), hx(g.Bytes(63)))
		case 2:
			g.Emit("signerr", "K1", "sign", "nil", "256", "-", "nil", "0", hx(priv), hx(g.Bytes(32)))
		case 3:
			g.Emit("signerr", "K1", "sign", "nil", "0", "-", "nil", "0", hx(priv[:63]), hx(g.Bytes(5)))
		case 4:
			g.Emit("signerr", "K1", "sign", "24", "0", "-", "nil", "0", hx(priv), hx(g.Bytes(5)))
		case 5:
			// entropy source that runs dry: without dom2, with a context, pre-hashed; the signature requested right
			// afterwards (any key, no options) must be unaffected by the aborted call
			switch g.Intn(3) {
			case 0:
				g.Emit("signerr", "K1", "sign", "nil", "0", "-", hx(g.Bytes(31)), "0", hx(priv), hx(g.Bytes(5)))
			case 1:
				g.Emit("signerr.ctx", "K1", "sign", "nil", "0", hx(g.Bytes(1+g.Intn(40))), hx(g.Bytes(1+g.Intn(31))), "0", hx(priv), hx(g.Bytes(5)))
			case 2:
				g.Emit("signerr.ph", "K1", "sign", "nil", "512", "-", hx(g.Bytes(1+g.Intn(31))), "0", hx(priv), hx(g.Bytes(64)))
			}
			m := g.Bytes(lens[g.Intn(len(lens))])
			g.Emit("sign.aftererr", "K1", "sign", "nil", "0", "-", "nil", itoa(g.Intn(2)), hx(priv), hx(m))
			g.Emit("stdsign", "K1", "stdsign", hx(priv), hx(m))
		}
		if g.Intn(8) == 0 {
			g.Emit("newkeylen", "K1", "newkey", hx(g.Bytes(31+2*g.Intn(2))))
		}
	}
}

func execK1(op string, a []string) string {
	switch op {
	case "newkey":
		return "ok " + hx(ed25519.NewKeyFromSeed(unhex(a[0])))
	case "sign":
		o := mkOpts(a[0], a[1], a[2])
		var rd *fixedReader
		if a[3] != "nil" {
			o.AddedRandomness = true
			rd = &fixedReader{unhex(a[3])}
		}
		o.SelfVerify = a[4] == "1"
		var sig []byte
		var err error
		if rd != nil {
			sig, err = ed25519.PrivateKey(unhex(a[5])).Sign(rd, unhex(a[6]), o)
		} else {
			sig, err = ed25519.PrivateKey(unhex(a[5])).Sign(nil, unhex(a[6]), o)
		}
		if err != nil {
			return "err"
		}
		return "ok " + hx(sig)
	case "stdsign":
		return "ok " + hx(stded.Sign(stded.PrivateKey(unhex(a[0])), unhex(a[1])))
	}
	return "bad-op"
}

func init() {
	register(&Stream{Name: "V1", Gen: genV1, Exec: execV1})
	register(&Stream{Name: "K1", Gen: genK1, Exec: execK1})
}
