package main

// Stream L1 (property C16): internal/lattice.FindShortVector on adversarially structured scalars.
//
//	L1 fsv <k: 32 bytes LE hex>   ->  ok <d0> <d1>     (signed decimal, the two Int128 results)
//
// The Lean side runs the integer-level model of Pornin's Algorithm 4 and answers `ok d0 d1` only if
// every range assertion of the fixed-width refinement held (else `range-violation`/`fuel-exhausted`).
//
// Word-level primitives of big_int.go / int128.go (W = 512 | 384; words are W/8 bytes LE two's complement,
// Int128 = 16 bytes LE); the Lean side states each as arithmetic modulo 2^W:
//
//	L1 bitlen W x | isneg W x | plt W x y | shrink x512       -> ok <n> | bool b
//	L1 addsh W a b s | subsh W a b s | add a512 b512          -> ok <word>     a ± (b << s) mod 2^W
//	L1 mul a32 b32 | from512 x512 | i128.fromscalar k32       -> ok <word>
//	L1 i128.add x y | i128.sub x y | i128.shl x n | i128.neg x | i128.abs x   -> ok <16 bytes>
//	L1 i128.isneg x | i128.iszero x                           -> bool b
//	L1 consts                                                  -> ok <ell^2> <ell mod 2^128> <1> <1> <0> <ell>

import (
	"math/big"
	"strconv"

	"github.com/oasisprotocol/curve25519-voi/internal/lattice"
)

func init() { register(&Stream{Name: "L1", Gen: genL1, Exec: execL1}) }

func execL1(op string, a []string) string {
	arg := func(i, n int) []byte { // argument i as exactly n bytes, nil if malformed
		if i >= len(a) {
			return nil
		}
		b := unhex(a[i])
		if len(b) != n {
			return nil
		}
		return b
	}
	width := func() (int, int) { // W and its byte length from a[0]
		if len(a) == 0 {
			return 0, 0
		}
		w, _ := strconv.Atoi(a[0])
		return w, lattice.VerifWordLen(w)
	}
	bl := func(b bool) string { return b2s(b) }
	switch op {
	case "fsv":
		if len(a) != 1 {
			return "bad-op"
		}
		b := arg(0, 32)
		if b == nil {
			return "err"
		}
		var k [32]byte
		copy(k[:], b)
		d0, d1 := lattice.VerifFindShortVector(k)
		return "ok " + d0 + " " + d1
	case "bitlen", "isneg":
		w, n := width()
		x := arg(1, n)
		if n == 0 || x == nil || len(a) != 2 {
			return "err"
		}
		if op == "bitlen" {
			return "ok " + strconv.FormatUint(uint64(lattice.VerifBitLen(w, x)), 10)
		}
		return bl(lattice.VerifIsNegative(w, x))
	case "plt":
		w, n := width()
		x, y := arg(1, n), arg(2, n)
		if n == 0 || x == nil || y == nil || len(a) != 3 {
			return "err"
		}
		return bl(lattice.VerifPositiveLt(w, x, y))
	case "shrink":
		x := arg(0, 64)
		if x == nil || len(a) != 1 {
			return "err"
		}
		return bl(lattice.VerifSafeToShrink(x))
	case "addsh", "subsh":
		w, n := width()
		x, y := arg(1, n), arg(2, n)
		if n == 0 || x == nil || y == nil || len(a) != 4 {
			return "err"
		}
		sh, err := strconv.ParseUint(a[3], 10, 32)
		if err != nil {
			return "err"
		}
		if op == "addsh" {
			return "ok " + hx(lattice.VerifAddShifted(w, x, y, uint(sh)))
		}
		return "ok " + hx(lattice.VerifSubShifted(w, x, y, uint(sh)))
	case "add":
		x, y := arg(0, 64), arg(1, 64)
		if x == nil || y == nil || len(a) != 2 {
			return "err"
		}
		return "ok " + hx(lattice.VerifAdd512(x, y))
	case "mul":
		x, y := arg(0, 32), arg(1, 32)
		if x == nil || y == nil || len(a) != 2 {
			return "err"
		}
		var p, q [32]byte
		copy(p[:], x)
		copy(q[:], y)
		return "ok " + hx(lattice.VerifMul512(p, q))
	case "from512":
		x := arg(0, 64)
		if x == nil || len(a) != 1 {
			return "err"
		}
		return "ok " + hx(lattice.VerifFromInt512(x))
	case "i128.fromscalar":
		x := arg(0, 32)
		if x == nil || len(a) != 1 {
			return "err"
		}
		var k [32]byte
		copy(k[:], x)
		return "ok " + hx(lattice.VerifInt128FromScalar(k))
	case "i128.add", "i128.sub":
		x, y := arg(0, 16), arg(1, 16)
		if x == nil || y == nil || len(a) != 2 {
			return "err"
		}
		r, _ := lattice.VerifInt128(op[5:], x, y, 0)
		return "ok " + hx(r)
	case "i128.shl":
		x := arg(0, 16)
		if x == nil || len(a) != 2 {
			return "err"
		}
		sh, err := strconv.ParseUint(a[1], 10, 32)
		if err != nil {
			return "err"
		}
		r, _ := lattice.VerifInt128("shl", x, nil, uint(sh))
		return "ok " + hx(r)
	case "i128.neg", "i128.abs":
		x := arg(0, 16)
		if x == nil || len(a) != 1 {
			return "err"
		}
		r, _ := lattice.VerifInt128(op[5:], x, nil, 0)
		return "ok " + hx(r)
	case "i128.isneg", "i128.iszero":
		x := arg(0, 16)
		if x == nil || len(a) != 1 {
			return "err"
		}
		r, _ := lattice.VerifInt128(op[5:], x, nil, 0)
		return bl(r[0] == 1)
	case "consts":
		if len(a) != 0 {
			return "err"
		}
		out := "ok"
		for _, c := range lattice.VerifLatticeConsts() {
			out += " " + hx(c)
		}
		return out
	}
	return "bad-op"
}

// ---- generator for the word-level primitives

var latShifts = []int{0, 1, 2, 31, 32, 33, 62, 63, 64, 65, 66, 127, 128, 129, 191, 192, 193, 255, 256, 257, 319, 320,
	321, 383, 384, 385, 447, 448, 449, 510, 511, 512, 513, 575, 576, 577, 640, 1000, 1024}

// latWord returns a w-bit two's-complement word (as a signed big.Int) from a mix of boundary shapes.
func latWord(g *Gen, w int) (string, *big.Int) {
	j := uint(g.Intn(w))
	p := new(big.Int).Lsh(bi1, j)
	switch g.Intn(12) {
	case 0:
		return "zero", big.NewInt(0)
	case 1:
		return "m1", big.NewInt(-1)
	case 2:
		return "pow2", p
	case 3:
		return "npow2", new(big.Int).Neg(p)
	case 4:
		return "pow2m1", new(big.Int).Sub(p, bi1)
	case 5:
		return "npow2m1", new(big.Int).Sub(new(big.Int).Neg(p), bi1)
	case 6:
		return "npow2p1", new(big.Int).Add(new(big.Int).Neg(p), bi1)
	case 7:
		return "pow2p1", new(big.Int).Add(p, bi1)
	case 8: // extremes
		m := new(big.Int).Lsh(bi1, uint(w-1))
		if g.Bool() {
			return "min", new(big.Int).Neg(m)
		}
		return "max", new(big.Int).Sub(m, bi1)
	case 9: // a random number of random significant bits, random sign
		v := leInt(g.Bytes(w / 8))
		v.Rsh(v, uint(g.Intn(w)))
		if g.Bool() {
			v.Neg(v)
		}
		return "randlen", v
	case 10: // limb-aligned patterns
		b := make([]byte, w/8)
		for i := 0; i < len(b); i += 8 {
			switch g.Intn(3) {
			case 0:
				for k := 0; k < 8; k++ {
					b[i+k] = 0xff
				}
			case 1:
				copy(b[i:], g.Bytes(8))
			}
		}
		return "limbs", leInt(b)
	default:
		return "rand", leInt(g.Bytes(w / 8))
	}
}

func latEnc(v *big.Int, w int) string {
	m := new(big.Int).Lsh(bi1, uint(w))
	return hx(leBytes(new(big.Int).Mod(v, m), w/8))
}

func genL1Words(g *Gen, budget int) {
	g.Emit("w.consts", "L1", "consts")
	// BitLen / IsNegative at the powers of two of either sign (where a two's-complement bit length is easy to get wrong)
	for _, w := range []int{512, 384} {
		for _, j := range []int{0, 1, 63, 64, 254, 255, w - 2, w - 1} {
			p := new(big.Int).Lsh(bi1, uint(j))
			for _, v := range []*big.Int{p, new(big.Int).Sub(p, bi1), new(big.Int).Neg(p), new(big.Int).Sub(new(big.Int).Neg(p), bi1)} {
				// keep the value inside the signed range of the word
				if v.BitLen() >= w && !(v.Sign() < 0 && new(big.Int).Neg(v).Cmp(new(big.Int).Lsh(bi1, uint(w-1))) == 0) {
					continue
				}
				if !g.Full() {
					g.Emit("w.bitlen.fixed", "L1", "bitlen", itoa(w), latEnc(v, w))
				}
			}
		}
	}
	shift := func() int {
		if g.Intn(3) == 0 {
			return g.Intn(600)
		}
		return latShifts[g.Intn(len(latShifts))]
	}
	for n := len(g.lines); n < budget && !g.Full(); n++ {
		w := 512
		if g.Bool() {
			w = 384
		}
		ws := itoa(w)
		cx, x := latWord(g, w)
		_, y := latWord(g, w)
		switch g.Intn(20) {
		case 0, 1:
			g.Emit("w.bitlen."+cx, "L1", "bitlen", ws, latEnc(x, w))
		case 2:
			g.Emit("w.isneg", "L1", "isneg", ws, latEnc(x, w))
		case 3:
			if g.Intn(4) == 0 {
				y = new(big.Int).Add(x, big.NewInt(int64(g.Intn(3)-1)))
			}
			g.Emit("w.plt", "L1", "plt", ws, latEnc(x, w), latEnc(y, w))
		case 4:
			if g.Bool() { // around the 2^383 threshold
				x = new(big.Int).Add(new(big.Int).Lsh(bi1, 383), big.NewInt(int64(g.Intn(3)-1)))
			}
			g.Emit("w.shrink", "L1", "shrink", latEnc(x, 512))
		case 5, 6, 7:
			g.Emit("w.addsh", "L1", "addsh", ws, latEnc(x, w), latEnc(y, w), itoa(shift()))
		case 8, 9, 10:
			g.Emit("w.subsh", "L1", "subsh", ws, latEnc(x, w), latEnc(y, w), itoa(shift()))
		case 11:
			switch g.Intn(3) {
			case 0:
				g.Emit("w.add", "L1", "add", latEnc(x, 512), latEnc(y, 512))
			case 1:
				a, b := g.Bytes(32), g.Bytes(32)
				if g.Intn(4) == 0 {
					for i := range a {
						a[i] = 0xff
					}
				}
				if g.Intn(4) == 0 {
					for i := range b {
						b[i] = 0xff
					}
				}
				g.Emit("w.mul", "L1", "mul", hx(a), hx(b))
			default:
				g.Emit("w.from512", "L1", "from512", latEnc(x, 512))
			}
		case 12, 13:
			_, a := latWord(g, 128)
			_, b := latWord(g, 128)
			op := "i128.add"
			if g.Bool() {
				op = "i128.sub"
			}
			g.Emit("w."+op, "L1", op, latEnc(a, 128), latEnc(b, 128))
		case 14, 15:
			_, a := latWord(g, 128)
			sh := shift()
			if g.Bool() {
				sh = g.Intn(140)
			}
			g.Emit("w.i128.shl", "L1", "i128.shl", latEnc(a, 128), itoa(sh))
		case 16, 17, 18:
			_, a := latWord(g, 128)
			op := []string{"i128.neg", "i128.abs", "i128.isneg", "i128.iszero"}[g.Intn(4)]
			g.Emit("w."+op, "L1", op, latEnc(a, 128))
		default:
			g.Emit("w.i128.fromscalar", "L1", "i128.fromscalar", hx(g.Bytes(32)))
		}
	}
}

var latTwo255 = new(big.Int).Lsh(bi1, 255)

func latBig(x int64) *big.Int { return big.NewInt(x) }

// latFib returns F_0..F_n (F_0 = 0, F_1 = 1).
func latFib(n int) []*big.Int {
	f := []*big.Int{big.NewInt(0), big.NewInt(1)}
	for i := 2; i <= n; i++ {
		f = append(f, new(big.Int).Add(f[i-1], f[i-2]))
	}
	return f
}

// latCFBackwards evaluates [0; a_1, a_2, ..., a_m] = P/Q from the last quotient backwards.
func latCFBackwards(as []*big.Int) (P, Q *big.Int) {
	P, Q = big.NewInt(0), big.NewInt(1)
	for i := len(as) - 1; i >= 0; i-- {
		// 1/(a_i + P/Q) = Q/(a_i*Q + P)
		P, Q = Q, new(big.Int).Add(new(big.Int).Mul(as[i], Q), P)
	}
	return
}

// latConvergents returns the convergents p_i/q_i of num/den (num, den > 0).
func latConvergents(num, den *big.Int, max int) (ps, qs []*big.Int) {
	n, d := new(big.Int).Set(num), new(big.Int).Set(den)
	p0, p1 := big.NewInt(0), big.NewInt(1) // p_{-2}, p_{-1}
	q0, q1 := big.NewInt(1), big.NewInt(0)
	for i := 0; i < max && d.Sign() != 0; i++ {
		a, r := new(big.Int).QuoRem(n, d, new(big.Int))
		p0, p1 = p1, new(big.Int).Add(new(big.Int).Mul(a, p1), p0)
		q0, q1 = q1, new(big.Int).Add(new(big.Int).Mul(a, q1), q0)
		ps = append(ps, p1)
		qs = append(qs, q1)
		n, d = d, r
	}
	return
}

// latQuotientPool: partial quotients used for crafted continued fractions.
func latQuotientPool() []*big.Int {
	var out []*big.Int
	for _, v := range []int64{1, 2, 3, 4, 5, 7, 8, 15, 16, 31, 32, 63, 64, 255, 256, 65535, 65536, 1<<31 - 1, 1 << 31, 1<<32 - 1, 1 << 32} {
		out = append(out, big.NewInt(v))
	}
	for _, sh := range []uint{63, 64, 65, 100, 126, 127, 128} {
		p := new(big.Int).Lsh(bi1, sh)
		out = append(out, p, new(big.Int).Sub(p, bi1), new(big.Int).Add(p, bi1))
	}
	return out
}

func genL1(g *Gen) {
	L := refL
	seen := map[string]bool{}
	emit := func(class string, k *big.Int) {
		if g.Full() || k.Sign() < 0 || k.Cmp(latTwo255) >= 0 {
			return
		}
		h := hx(leBytes(k, 32))
		if seen[h] { // the crafted lists overlap (2^j - 1, F_n, p_i + 1, ...): one request per scalar
			return
		}
		seen[h] = true
		g.Emit(class, "L1", "fsv", h)
	}
	// emit k and, for some, k + j*L (unreduced representatives < 2^255 take a different first step: N_v > N_u)
	emitLifted := func(class string, k *big.Int) {
		emit(class, k)
		if g.Intn(3) == 0 {
			j := int64(1 + g.Intn(7))
			emit(class+".lift", new(big.Int).Add(new(big.Int).Mod(k, L), new(big.Int).Mul(L, big.NewInt(j))))
		}
	}
	// a budgeted, seed-dependent selection out of a long deterministic list (everything if the budget allows)
	emitSome := func(class string, list []*big.Int, budget int, lifted bool) {
		idx := make([]int, len(list))
		for i := range idx {
			idx[i] = i
		}
		if budget < len(list) {
			for i := len(idx) - 1; i > 0; i-- {
				j := g.Intn(i + 1)
				idx[i], idx[j] = idx[j], idx[i]
			}
			idx = idx[:budget]
		}
		for _, i := range idx {
			if lifted {
				emitLifted(class, list[i])
			} else {
				emit(class, list[i])
			}
		}
	}
	add := func(a *big.Int, e int64) *big.Int { return new(big.Int).Add(a, big.NewInt(e)) }

	// ---- the word-level primitives (a fifth of the budget)
	genL1Words(g, g.N/5)

	// ---- fixed boundary values
	halfL := new(big.Int).Rsh(L, 1)
	sqrtL := new(big.Int).Sqrt(L)
	for _, k := range []*big.Int{
		latBig(0), latBig(1), latBig(2), latBig(3), add(L, -1), L, add(L, 1), add(latTwo255, -1), add(latTwo255, -2),
		add(halfL, -1), halfL, add(halfL, 1), add(halfL, 2),
		add(sqrtL, -1), sqrtL, add(sqrtL, 1), add(sqrtL, 2),
		new(big.Int).Mul(sqrtL, sqrtL), add(new(big.Int).Mul(sqrtL, sqrtL), -1), add(new(big.Int).Mul(sqrtL, add(sqrtL, 1)), 0),
	} {
		emit("fixed", k)
	}
	// sqrt(L)*c and L/c for small c: one huge partial quotient at the start
	for c := int64(2); c <= 9; c++ {
		emit("fixed.div", new(big.Int).Div(L, big.NewInt(c)))
		emit("fixed.div", add(new(big.Int).Div(L, big.NewInt(c)), 1))
		emit("fixed.sqrtmul", new(big.Int).Mul(sqrtL, big.NewInt(c)))
	}
	// bit 255 set: Scalar.SetBits masks it (both sides reduce modulo 2^255)
	for i := 0; i < 4; i++ {
		b := g.Bytes(32)
		b[31] |= 0x80
		if !g.Full() {
			g.Emit("bit255", "L1", "fsv", hx(b))
		}
	}
	// ---- kL + e and the other scalar boundary values
	for _, k := range refScalarBoundary() {
		emit("boundary", k)
	}

	// ---- 2^j, 2^j ± 1 for all j < 255 (budgeted; complete from n >= 3825)
	var pow2 []*big.Int
	for j := uint(0); j < 255; j++ {
		p := new(big.Int).Lsh(bi1, j)
		pow2 = append(pow2, p, add(p, -1), add(p, 1))
	}
	emitSome("pow2", pow2, g.N/5, false)

	// ---- L - 2^j, L >> j, (L >> j) + 1
	var lsh []*big.Int
	for j := uint(0); j < 253; j++ {
		p := new(big.Int).Lsh(bi1, j)
		lsh = append(lsh, new(big.Int).Sub(L, p), new(big.Int).Rsh(L, j), add(new(big.Int).Rsh(L, j), 1))
	}
	emitSome("lshift", lsh, g.N/25, true)

	// ---- Fibonacci-ratio scalars floor(L*F_n/F_{n+1}) (k/L = [0;1,1,...,1,huge]) and the F_n themselves
	fib := latFib(620)
	var fibs []*big.Int
	for n := 1; n+1 < len(fib) && fib[n+1].BitLen() <= 258; n++ {
		q := new(big.Int).Div(new(big.Int).Mul(L, fib[n]), fib[n+1])
		fibs = append(fibs, q, add(q, 1))
		if fib[n].BitLen() <= 255 {
			fibs = append(fibs, fib[n])
		}
		// L*F_n/F_{n+2} = L/phi^2-like
		if n+2 < len(fib) {
			fibs = append(fibs, new(big.Int).Div(new(big.Int).Mul(L, fib[n]), fib[n+2]))
		}
	}
	emitSome("fib", fibs, g.N/12, true)

	// ---- convergents p_i/q_i of L/phi (phi = F_601/F_600 to far more than 512 bits): denominators, numerators,
	//      and the neighbours of floor(L/phi), floor(L/phi^2)
	var conv []*big.Int
	{
		num := new(big.Int).Mul(L, fib[600])
		ps, qs := latConvergents(num, fib[601], 400)
		for i := range ps {
			for _, v := range []*big.Int{ps[i], qs[i]} {
				if v.BitLen() <= 255 {
					conv = append(conv, v, add(v, 1), add(v, -1))
				}
			}
		}
		lphi := new(big.Int).Div(num, fib[601])
		lphi2 := new(big.Int).Div(new(big.Int).Mul(L, fib[600]), fib[602])
		for e := int64(-2); e <= 2; e++ {
			emitLifted("conv.lphi", add(lphi, e))
			emitLifted("conv.lphi", add(lphi2, e))
		}
	}
	emitSome("conv", conv, g.N/20, true)

	// ---- k/L with a prescribed head of the continued fraction: k = floor(L * [0; a_1, ..., a_m]) (+0/1),
	//      the expansion evaluated backwards; long runs of equal partial quotients, period two, a huge
	//      quotient inside a run of ones, growing quotients, random geometric quotients.
	pool := latQuotientPool()
	small := pool[:12]
	crafted := func() (string, *big.Int) {
		var as []*big.Int
		class := ""
		// denominators grow until they exceed 2^(target) so that the head is long enough to govern the reduction
		target := 130 + g.Intn(140)
		size := func() int { _, Q := latCFBackwards(as); return Q.BitLen() }
		switch g.Intn(7) {
		case 0: // constant run
			class = "cf.const"
			a := pool[g.Intn(len(pool))]
			for len(as) == 0 || size() < target {
				as = append(as, a)
			}
		case 1: // period two
			class = "cf.period2"
			a, b := pool[g.Intn(len(pool))], pool[g.Intn(len(pool))]
			for len(as) == 0 || size() < target {
				as = append(as, a, b)
			}
		case 2: // random small prefix, then a constant run
			class = "cf.prefix"
			for i := g.Intn(12); i > 0; i-- {
				as = append(as, big.NewInt(int64(1+g.Intn(9))))
			}
			a := small[g.Intn(len(small))]
			for len(as) == 0 || size() < target {
				as = append(as, a)
			}
		case 3: // ones, one huge quotient 2^e (+-1), ones
			class = "cf.spike"
			for i := g.Intn(180); i > 0; i-- {
				as = append(as, big.NewInt(1))
			}
			h := new(big.Int).Lsh(bi1, uint(1+g.Intn(200)))
			as = append(as, add(h, int64(g.Intn(3)-1)))
			for size() < target {
				as = append(as, big.NewInt(1))
			}
		case 4: // growing quotients a, a+d, a+2d, ... or a, a*m, a*m^2, ...
			class = "cf.grow"
			dbl := g.Bool()
			a := big.NewInt(int64(1 + g.Intn(8)))
			step := big.NewInt(int64(1 + g.Intn(5)))
			mul := big.NewInt(int64(2 + g.Intn(3)))
			for len(as) == 0 || size() < target {
				as = append(as, new(big.Int).Set(a))
				if dbl {
					a.Mul(a, mul)
				} else {
					a.Add(a, step)
				}
			}
		case 5: // random: mostly tiny, sometimes a random-size quotient
			class = "cf.random"
			for len(as) == 0 || size() < target {
				if g.Intn(6) == 0 {
					q := leInt(g.Bytes(16))
					q.Rsh(q, uint(g.Intn(128)))
					as = append(as, add(q, 1))
				} else {
					as = append(as, big.NewInt(int64(1+g.Intn(3))))
				}
			}
		default: // a run of equal quotients placed after a random head (run not at the start)
			class = "cf.midrun"
			for i := 1 + g.Intn(20); i > 0; i-- {
				q := leInt(g.Bytes(8))
				q.Rsh(q, uint(g.Intn(64)))
				as = append(as, add(q, 1))
			}
			a := pool[g.Intn(len(pool))]
			for size() < target {
				as = append(as, a)
			}
		}
		P, Q := latCFBackwards(as)
		k := new(big.Int).Div(new(big.Int).Mul(L, P), Q)
		k.Add(k, big.NewInt(int64(g.Intn(2))))
		return class, k
	}

	// ---- fill: crafted continued fractions and random scalars, interleaved
	for !g.Full() {
		switch g.Intn(10) {
		case 0, 1, 2, 3, 4:
			c, k := crafted()
			emitLifted(c, k)
		case 5, 6:
			k := leInt(g.Bytes(32))
			k.SetBit(k, 255, 0)
			emit("rand255", k)
		case 7:
			k := leInt(g.Bytes(32))
			emit("randmodL", k.Mod(k, L))
		case 8:
			k := leInt(g.Bytes(32))
			k.Rsh(k, uint(1+g.Intn(255)))
			emit("randsmall", k)
		default:
			// near 2^127 / sqrt(L): the exit test fires at once or after very few steps
			k := leInt(g.Bytes(17))
			k.Rsh(k, uint(g.Intn(12)))
			emit("rand128", k)
		}
	}
}
