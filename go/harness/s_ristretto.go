package main

// Stream T1 (property C11): ristretto255 is the RFC 9496 group encoding.
//
//	r.decode b            CompressedRistretto.SetBytes + RistrettoPoint.SetCompressed, any length -> ok <re-encoded> | err
//	r.unmarshal b         RistrettoPoint.UnmarshalBinary on a receiver holding the generator       -> ok enc | err <enc of receiver afterwards>
//	r.cunmarshal b        CompressedRistretto.UnmarshalBinary on a receiver holding the generator   -> ok bytes | err <receiver afterwards>
//	r.encode ed lam       encoding of the internal representative (Edwards point ed scaled by lam)  -> ok enc | err
//	r.coset e0 l0 … e3 l3 the four representatives of one element                                   -> ok enc (all equal) | differ e0 e1 e2 e3 | err
//	r.equal eP lP eQ lQ   RistrettoPoint.Equal on two internal representatives                       -> bool | err
//	r.isidentityE ed lam  IsIdentity on an internal representative                                   -> bool | err
//	r.uniform b           SetUniformBytes, any length                                                -> ok enc | err
//	r.add a b / r.sub a b / r.neg a / r.isidentity a / r.set a / r.xpoint a    (ristretto encodings) -> ok enc | bool | err
//	r.mul s a / r.mulbase s / r.tblmul s a / r.dsm a A b / r.xdsm a A b        (s: 32 bytes, reduced mod L by SetBytesModOrder)
//	r.tsm a A b C / r.xtsm a A b C   IsIdentity([δa]A + [δb]B − [δ]C)                                -> bool
//	r.msm n m s1..sn P1..Pm / r.msmvt …   (n ≠ m: documented panic)   r.sum n P1..Pn
//	r.xmsm a b c d  s×a P×b (static, expanded)  s×c P×d (dynamic)
//	r.condsel a b c       ConditionalSelect

import (
	"math/big"
	"strconv"
	"strings"

	"github.com/oasisprotocol/curve25519-voi/curve"
	"github.com/oasisprotocol/curve25519-voi/curve/scalar"
)

// ---- reference ristretto encoding (big.Int), used by the generator only, to obtain valid
// encodings and coset representatives without asking the library

func t1IsNeg(a *big.Int) bool { return a.Bit(0) == 1 }

// t1SqrtRatioM1 is RFC 9496 §4.2 SQRT_RATIO_M1.
func t1SqrtRatioM1(u, v *big.Int) (bool, *big.Int) {
	u = new(big.Int).Mod(u, refP)
	v3 := fmul(fmul(v, v), v)
	v7 := fmul(fmul(v3, v3), v)
	e := new(big.Int).Rsh(new(big.Int).Sub(refP, big.NewInt(5)), 3)
	r := fmul(fmul(u, v3), new(big.Int).Exp(fmul(u, v7), e, refP))
	check := fmul(v, fmul(r, r))
	nu := fsub(bi0, u)
	correct := check.Cmp(u) == 0
	flipped := check.Cmp(nu) == 0
	flippedI := check.Cmp(fmul(nu, refSqrtM1)) == 0
	if flipped || flippedI {
		r = fmul(r, refSqrtM1)
	}
	if t1IsNeg(r) {
		r = fsub(bi0, r)
	}
	return correct || flipped, r
}

var t1InvSqrtAMinusD = func() *big.Int {
	_, r := t1SqrtRatioM1(bi1, fsub(big.NewInt(-1), refD))
	return r
}()

// t1RistEncode is RFC 9496 §4.3.2 on an affine representative (z = 1).
func t1RistEncode(P rpt) []byte {
	x0, y0 := P.x, P.y
	t0 := fmul(x0, y0)
	u1 := fmul(fadd(bi1, y0), fsub(bi1, y0))
	u2 := fmul(x0, y0)
	_, invsqrt := t1SqrtRatioM1(bi1, fmul(u1, fmul(u2, u2)))
	den1 := fmul(invsqrt, u1)
	den2 := fmul(invsqrt, u2)
	zInv := fmul(fmul(den1, den2), t0)
	ix0 := fmul(x0, refSqrtM1)
	iy0 := fmul(y0, refSqrtM1)
	ench := fmul(den1, t1InvSqrtAMinusD)
	x, y, denInv := x0, y0, den2
	if t1IsNeg(fmul(t0, zInv)) {
		x, y, denInv = iy0, ix0, ench
	}
	if t1IsNeg(fmul(x, zInv)) {
		y = fsub(bi0, y)
	}
	s := fmul(denInv, fsub(bi1, y))
	if t1IsNeg(s) {
		s = fsub(bi0, s)
	}
	return leBytes(s, 32)
}

// t1Mul is refMul in extended coordinates (one inversion at the end instead of two per step) and
// t1MulB is the same for the base point with a radix-16 table; same results as ref.go's refMul,
// only faster, so that the generator stays within its time budget.
type t1Ext struct{ X, Y, Z, T *big.Int }

var t1D2 = fadd(refD, refD)

func t1ExtAdd(p, q t1Ext) t1Ext {
	A := fmul(fsub(p.Y, p.X), fsub(q.Y, q.X))
	B := fmul(fadd(p.Y, p.X), fadd(q.Y, q.X))
	C := fmul(fmul(p.T, t1D2), q.T)
	D := fmul(fadd(p.Z, p.Z), q.Z)
	E, F, G, H := fsub(B, A), fsub(D, C), fadd(D, C), fadd(B, A)
	return t1Ext{fmul(E, F), fmul(G, H), fmul(F, G), fmul(E, H)}
}
func t1ExtZero() t1Ext        { return t1Ext{big.NewInt(0), big.NewInt(1), big.NewInt(1), big.NewInt(0)} }
func t1ExtOf(P rpt) t1Ext     { return t1Ext{P.x, P.y, big.NewInt(1), fmul(P.x, P.y)} }
func t1ExtAffine(p t1Ext) rpt { zi := finv(p.Z); return rpt{fmul(p.X, zi), fmul(p.Y, zi)} }

func t1Mul(n *big.Int, P rpt) rpt {
	base, acc := t1ExtOf(P), t1ExtZero()
	for i := n.BitLen() - 1; i >= 0; i-- {
		acc = t1ExtAdd(acc, acc)
		if n.Bit(i) == 1 {
			acc = t1ExtAdd(acc, base)
		}
	}
	return t1ExtAffine(acc)
}

var t1BTable [][16]t1Ext // t1BTable[i][j] = [j * 16^i]B

func t1MulB(n *big.Int) rpt {
	if t1BTable == nil {
		cur := t1ExtOf(refB)
		for i := 0; i < 64; i++ {
			var row [16]t1Ext
			row[0] = t1ExtZero()
			for j := 1; j < 16; j++ {
				row[j] = t1ExtAdd(row[j-1], cur)
			}
			t1BTable = append(t1BTable, row)
			cur = t1ExtAdd(row[15], cur)
		}
	}
	if n.Sign() < 0 || n.BitLen() > 256 {
		panic("harness: t1MulB scalar out of range")
	}
	acc := t1ExtZero()
	for i := 0; i < 64; i++ {
		d := int(n.Bit(4*i)) | int(n.Bit(4*i+1))<<1 | int(n.Bit(4*i+2))<<2 | int(n.Bit(4*i+3))<<3
		if d != 0 {
			acc = t1ExtAdd(acc, t1BTable[i][d])
		}
	}
	return t1ExtAffine(acc)
}

// ---- RFC 9496 appendix A vectors
var t1RfcMultiples = []string{
	"0000000000000000000000000000000000000000000000000000000000000000",
	"e2f2ae0a6abc4e71a884a961c500515f58e30b6aa582dd8db6a65945e08d2d76",
	"6a493210f7499cd17fecb510ae0cea23a110e8d5b901f8acadd3095c73a3b919",
	"94741f5d5d52755ece4f23f044ee27d5d1ea1e2bd196b462166b16152a9d0259",
	"da80862773358b466ffadfe0b3293ab3d9fd53c5ea6c955358f568322daf6a57",
	"e882b131016b52c1d3337080187cf768423efccbb517bb495ab812c4160ff44e",
	"f64746d3c92b13050ed8d80236a7f0007c3b3f962f5ba793d19a601ebb1df403",
	"44f53520926ec81fbd5a387845beb7df85a96a24ece18738bdcfa6a7822a176d",
	"903293d8f2287ebe10e2374dc1a53e0bc887e592699f02d077d5263cdd55601c",
	"02622ace8f7303a31cafc63f8fc48fdc16e1c8c8d234b2f0d6685282a9076031",
	"20706fd788b2720a1ed2a5dad4952b01f413bcf0e7564de8cdc816689e2db95f",
	"bce83f8ba5dd2fa572864c24ba1810f9522bc6004afe95877ac73241cafdab42",
	"e4549ee16b9aa03099ca208c67adafcafa4c3f3e4e5303de6026e3ca8ff84460",
	"aa52e000df2e16f55fb1032fc33bc42742dad6bd5a8fc0be0167436c5948501f",
	"46376b80f409b29dc2b5f6f0c52591990896e5716f41477cd30085ab7f10301e",
	"e0c418f7c8d9c4cdd7395b93ea124f3ad99021bb681dfc3302a9d99a2e53e64e",
}

var t1RfcBad = []string{
	// non-canonical field encodings
	"00ffffffffffffffffffffffffffffffffffffffffffffffffffffffffffffff",
	"ffffffffffffffffffffffffffffffffffffffffffffffffffffffffffffff7f",
	"f3ffffffffffffffffffffffffffffffffffffffffffffffffffffffffffff7f",
	"edffffffffffffffffffffffffffffffffffffffffffffffffffffffffffff7f",
	// negative field elements
	"0100000000000000000000000000000000000000000000000000000000000000",
	"01ffffffffffffffffffffffffffffffffffffffffffffffffffffffffffff7f",
	"ed57ffd8c914fb201471d1c3d245ce3c746fcbe63a3679d51b6a516ebebe0e20",
	"c34c4e1826e5d403b78e246e88aa051c36ccf0aafebffe137d148a2bf9104562",
	"c940e5a4404157cfb1628b108db051a8d439e1a421394ec4ebccb9ec92a8ac78",
	"47cfc5497c53dc8e61c91d17fd626ffb1c49e2bca94eed052281b510b1117a24",
	"f1c6165d33367351b0da8f6e4511010c68174a03b6581212c71c0e1d026c3c72",
	"87260f7a2f12495118360f02c26a470f450dadf34a413d21042b43b9d93e1309",
	// non-square x^2
	"26948d35ca62e643e26a83177332e6b6afeb9d08e4268b650f1f5bbd8d81d371",
	"4eac077a713c57b4f4397629a4145982c661f48044dd3f96427d40b147d9742f",
	"de6a7b00deadc788eb6b6c8d20c0ae96c2f2019078fa604fee5b87d6e989ad7b",
	"bcab477be20861e01e4a0e295284146a510150d9817763caf1a6f4b422d67042",
	"2a292df7e32cababbd9de088d1d1abec9fc0440f637ed2fba145094dc14bea08",
	"f4a9e534fc0d216c44b218fa0c42d99635a0127ee2e53c712f70609649fdff22",
	"8268436f8c4126196cf64b3c7ddbda90746a378625f9813dd9b8457077256731",
	"2810e5cbc2cc4d4eece54f61c6f69758e289aa7ab440b3cbeaa21995c2f4232b",
	// negative xy value
	"3eb858e78f5a7254d8c9731174a94f76755fd3941c0ac93735c07ba14579630e",
	"a45fdc55c76448c049a1ab33f17023edfb2be3581e9c7aade8a6125215e04220",
	"d483fe813c6ba647ebbfd3ec41adca1c6130c2beeee9d9bf065c8d151c5f396e",
	"8a2e1d30050198c65a54483123960ccc38aef6848e1ec8f5f780e8523769ba32",
	"32888462f8b486c68ad7dd9610be5192bbeaf3b443951ac1a8118419d9fa097b",
	"227142501b9d4355ccba290404bde41575b037693cef1f438c47f8fbf35d1165",
	"5c37cc491da847cfeb9281d407efc41e15144c876e0170b499a96a22ed31e01e",
	"445425117cb8c90edcbc7c1cc0e74f747f2c1efa5630a967c64f287792a48a4b",
	// s = -1, which causes y = 0
	"ecffffffffffffffffffffffffffffffffffffffffffffffffffffffffffff7f",
}

// inputs of the A.3 one-way-map vectors (the RFC gives them as hashes of labels; these are the 64-byte strings)
var t1RfcUniform = []string{
	"5d1be09e3d0c82fc538112490e35701979d99e06ca3e2b5b54bffe8b4dc772c14d98b696a1bbfb5ca32c436cc61c16563790306c79eaca7705668b47dffe5bb6",
	"f116b34b8f17ceb56e8732a60d913dd10cce47a6d53bee9204be8b44f6678b270102a56902e2488c46120e9276cfe54638286b9e4b3cdb470b542d46c2068d38",
	"8422e1bbdaab52938b81fd602effb6f89110e1e57208ad12d9ad767e2e25510c27140775f9337088b982d83d7fcf0b2fa1edffe51952cbe7365e95c86eaf325c",
	"ac22415129b61427bf464e17baee8db65940c233b98afce8d17c57beeb7876c2150d15af1cb1fb824bbd14955f2b57d08d388aab431a391cfc33d5bafb5dbbaf",
	"165d697a1ef3d5cf3c38565beefcf88c0f282b8e7dbd28544c483432f1cec7675debea8ebb4e5fe7d6f6e5db15f15587ac4d4d4a1de7191e0c1ca6664abcc413",
	"a836e6c9a9ca9f1e8d486273ad56a78c70cf18f0ce10abb1c7172ddd605d7fd2979854f47ae1ccf204a33102095b4200e5befc0465accc263175485f0e17ea5c",
	"2cdc11eaeb95daf01189417cdddbf95952993aa9cb9c640eb5058d09702c74622c9965a697a3b345ec24ee56335b556e677b30e6f90ac77d781064f866a3c982",
	// the four inputs that map to the same element (non-reduced / masked-bit variants)
	"edffffffffffffffffffffffffffffffffffffffffffffffffffffffffffffff1200000000000000000000000000000000000000000000000000000000000000",
	"edffffffffffffffffffffffffffffffffffffffffffffffffffffffffffff7fffffffffffffffffffffffffffffffffffffffffffffffffffffffffffffffff",
	"0000000000000000000000000000000000000000000000000000000000000080ffffffffffffffffffffffffffffffffffffffffffffffffffffffffffffff7f",
	"00000000000000000000000000000000000000000000000000000000000000001200000000000000000000000000000000000000000000000000000000000080",
}

// ---- generator

// t1Elem is a group element known to the generator through an affine representative in 2E.
type t1Elem struct {
	P   rpt
	enc []byte
}

var t1EvenTorsion = []int{0, 2, 4, 6}

func t1RandElem(g *Gen) t1Elem {
	var P rpt
	switch g.Intn(8) {
	case 0:
		P = t1MulB(big.NewInt(int64(g.Intn(16)))) // the RFC's multiples (incl. the identity)
	case 1:
		P = refTorsion[t1EvenTorsion[g.Intn(4)]] // a representative of the identity
	default:
		P = t1MulB(new(big.Int).Mod(leInt(g.Bytes(40)), refL))
	}
	if g.Intn(3) == 0 {
		P = refAdd(P, refTorsion[t1EvenTorsion[g.Intn(4)]])
	}
	return t1Elem{P, t1RistEncode(P)}
}

// t1Lambda draws a projective scaling factor (as 32 bytes; never ≡ 0).
func t1Lambda(g *Gen) []byte {
	switch g.Intn(8) {
	case 0:
		return leBytes(bi1, 32)
	case 1:
		return leBytes(new(big.Int).Sub(refP, bi1), 32)
	case 2:
		return leBytes(big.NewInt(int64(2+g.Intn(5))), 32)
	case 3:
		return leBytes(refSqrtM1, 32)
	case 4:
		// non-canonical: p + k (≡ k), k = 1..18
		return leBytes(new(big.Int).Add(refP, big.NewInt(int64(1+g.Intn(18)))), 32)
	}
	for {
		b := g.Bytes(32) // bit 255 may be set: it is ignored
		v := new(big.Int).Mod(new(big.Int).SetBit(leInt(b), 255, 0), refP)
		if v.Sign() != 0 {
			return b
		}
	}
}

// t1Scalar draws a 32-byte scalar string (reduced mod L by the callee).
func t1Scalar(g *Gen) []byte {
	two := func(sh uint) *big.Int { return new(big.Int).Lsh(bi1, sh) }
	switch g.Intn(8) {
	case 0:
		sp := []*big.Int{big.NewInt(0), big.NewInt(1), big.NewInt(2), big.NewInt(8), new(big.Int).Sub(refL, bi1), refL, new(big.Int).Add(refL, bi1),
			new(big.Int).Rsh(refL, 1), new(big.Int).Add(new(big.Int).Rsh(refL, 1), bi1), two(252), two(253), new(big.Int).Sub(two(255), bi1), two(255),
			new(big.Int).Sub(two(256), bi1), new(big.Int).Lsh(refL, 3), new(big.Int).Sub(new(big.Int).Lsh(refL, 3), bi1)}
		return leBytes(sp[g.Intn(len(sp))], 32)
	case 1:
		return leBytes(big.NewInt(int64(g.Intn(64))), 32)
	case 2:
		return leBytes(new(big.Int).Sub(refL, big.NewInt(int64(g.Intn(64)))), 32)
	case 3:
		return g.Bytes(32) // unreduced
	}
	return leBytes(new(big.Int).Mod(leInt(g.Bytes(40)), refL), 32)
}

func t1Flip(g *Gen, b []byte) []byte {
	c := append([]byte{}, b...)
	j := g.Intn(len(c) * 8)
	c[j/8] ^= 1 << (j % 8)
	return c
}

// t1DecodeInput draws an input for the three decoders together with its class label.
func t1DecodeInput(g *Gen) (string, []byte) {
	two255 := new(big.Int).Lsh(bi1, 255)
	switch g.Intn(16) {
	case 0:
		return "dec.rfc.mult", unhex(t1RfcMultiples[g.Intn(len(t1RfcMultiples))])
	case 1:
		return "dec.rfc.bad", unhex(t1RfcBad[g.Intn(len(t1RfcBad))])
	case 2, 3, 4:
		return "dec.valid", t1RandElem(g).enc
	case 5:
		return "dec.valid.flip", t1Flip(g, t1RandElem(g).enc)
	case 6:
		return "dec.random", g.Bytes(32)
	case 7:
		// random non-negative canonical s (even, < 2^255): accepted iff square / sign conditions hold
		b := g.Bytes(32)
		b[0] &^= 1
		b[31] &= 0x7f
		return "dec.random.even", b
	case 8:
		// boundary s: 0, 1, small, p-1, p, p+1..p+18, 2^255-1, 2^255, 2^256-1
		var sp []*big.Int
		for i := int64(0); i <= 20; i++ {
			sp = append(sp, big.NewInt(i))
		}
		for i := int64(-3); i <= 18; i++ {
			sp = append(sp, new(big.Int).Add(refP, big.NewInt(i)))
		}
		sp = append(sp, new(big.Int).Sub(two255, bi1), two255, new(big.Int).Sub(new(big.Int).Lsh(bi1, 256), bi1),
			new(big.Int).Rsh(refP, 1), new(big.Int).Add(new(big.Int).Rsh(refP, 1), bi1), refSqrtM1, fsub(bi0, refSqrtM1))
		return "dec.boundary", leBytes(sp[g.Intn(len(sp))], 32)
	case 9:
		// the negation of a valid s: odd, otherwise fine
		e := t1RandElem(g)
		return "dec.negative", leBytes(fsub(bi0, leInt(e.enc)), 32)
	case 10:
		// a valid s with bit 255 set, or shifted by p (fits in 256 bits)
		e := t1RandElem(g)
		if g.Bool() {
			return "dec.valid.bit255", leBytes(new(big.Int).Add(leInt(e.enc), two255), 32)
		}
		return "dec.valid.plusp", leBytes(new(big.Int).Add(leInt(e.enc), refP), 32)
	case 11, 12:
		// wrong lengths 0..96 (a valid encoding truncated or extended, or random)
		l := g.Intn(97)
		if l == 32 {
			l = 31 + 2*g.Intn(2)
		}
		b := g.Bytes(l)
		if g.Bool() {
			copy(b, t1RandElem(g).enc)
		}
		return "dec.len", b
	case 13:
		// small even s (2..2^16): valid about a quarter of the time
		return "dec.small.even", leBytes(big.NewInt(int64(2*g.Intn(1<<15))), 32)
	}
	return "dec.valid", t1RandElem(g).enc
}

func t1UniformInput(g *Gen) (string, []byte) {
	half := func() []byte {
		switch g.Intn(10) {
		case 0:
			return make([]byte, 32)
		case 1:
			b := make([]byte, 32)
			for i := range b {
				b[i] = 0xff
			}
			return b
		case 2:
			return leBytes(new(big.Int).Add(refP, big.NewInt(int64(g.Intn(19)))), 32) // t ≥ p
		case 3:
			b := leBytes(big.NewInt(int64(g.Intn(20))), 32)
			if g.Bool() {
				b[31] |= 0x80
			}
			return b
		case 4:
			return leBytes(new(big.Int).Sub(refP, big.NewInt(int64(1+g.Intn(20)))), 32)
		case 5:
			return leBytes(refSqrtM1, 32)
		}
		return g.Bytes(32)
	}
	switch g.Intn(10) {
	case 0:
		return "uni.rfc", unhex(t1RfcUniform[g.Intn(len(t1RfcUniform))])
	case 1:
		l := []int{0, 1, 31, 32, 33, 63, 65, 95, 96, 128}[g.Intn(10)]
		return "uni.len", g.Bytes(l)
	case 2, 3, 4:
		return "uni.halves", append(half(), half()...)
	case 5:
		// equal halves, and halves that differ only in sign / masked bit
		h := half()
		h2 := append([]byte{}, h...)
		if g.Bool() {
			h2[31] ^= 0x80
		}
		return "uni.samehalves", append(h, h2...)
	}
	return "uni.random", g.Bytes(64)
}

func genT1(g *Gen) {
	// fixed part: every RFC vector once
	for _, v := range t1RfcMultiples {
		g.Emit("dec.rfc.mult", "T1", "r.decode", v)
	}
	for _, v := range t1RfcBad {
		g.Emit("dec.rfc.bad", "T1", "r.decode", v)
	}
	for _, v := range t1RfcUniform {
		g.Emit("uni.rfc", "T1", "r.uniform", v)
	}
	for i := 0; i < 16; i++ {
		g.Emit("mulbase.rfc", "T1", "r.mulbase", hx(leBytes(big.NewInt(int64(i)), 32)))
	}
	for i := int64(0); i < 19; i++ {
		g.Emit("dec.boundary", "T1", "r.decode", hx(leBytes(new(big.Int).Add(refP, big.NewInt(i)), 32)))
	}
	pippenger := false
	for !g.Full() {
		switch g.Intn(40) {
		case 0, 1, 2, 3, 4, 5, 6, 7, 14:
			c, b := t1DecodeInput(g)
			g.Emit(c, "T1", "r.decode", hx(b))
		case 8, 9:
			c, b := t1DecodeInput(g)
			g.Emit("un."+c, "T1", "r.unmarshal", hx(b))
		case 10, 11:
			c, b := t1DecodeInput(g)
			g.Emit("cun."+c, "T1", "r.cunmarshal", hx(b))
		case 12, 13:
			// the four coset representatives of one element, each in its own scaling
			e := t1RandElem(g)
			var all []string
			for _, t := range t1EvenTorsion {
				ed, lam := hx(refEncode(refAdd(e.P, refTorsion[t]))), hx(t1Lambda(g))
				g.Emit("enc.coset", "T1", "r.encode", ed, lam)
				all = append(all, ed, lam)
			}
			g.Emit("enc.coset4", append([]string{"T1", "r.coset"}, all...)...)
		case 15:
			// export failure paths: lambda ≡ 0, undecodable Edwards string
			e := t1RandElem(g)
			switch g.Intn(3) {
			case 0:
				g.Emit("enc.bad", "T1", "r.encode", hx(refEncode(e.P)), hx(make([]byte, 32)))
			case 1:
				g.Emit("enc.bad", "T1", "r.encode", hx(refEncode(e.P)), hx(leBytes(refP, 32)))
			default:
				g.Emit("enc.bad", "T1", "r.encode", hx(g.Bytes(32)), hx(t1Lambda(g)))
			}
		case 16, 17, 18, 19:
			e := t1RandElem(g)
			ti, tj := t1EvenTorsion[g.Intn(4)], t1EvenTorsion[g.Intn(4)]
			Pi := refAdd(e.P, refTorsion[ti])
			var Q rpt
			class := "eq.same"
			switch g.Intn(6) {
			case 0, 1, 2:
				Q = refAdd(e.P, refTorsion[tj])
			case 3:
				Q = refAdd(t1RandElem(g).P, refTorsion[tj])
				class = "eq.other"
			case 4:
				Q = refAdd(refNeg(e.P), refTorsion[tj])
				class = "eq.neg"
			default:
				Q = refAdd(refAdd(e.P, t1MulB(big.NewInt(int64(1+g.Intn(3))))), refTorsion[tj])
				class = "eq.near"
			}
			g.Emit(class, "T1", "r.equal", hx(refEncode(Pi)), hx(t1Lambda(g)), hx(refEncode(Q)), hx(t1Lambda(g)))
			if g.Intn(4) == 0 {
				g.Emit("isidE", "T1", "r.isidentityE", hx(refEncode(Pi)), hx(t1Lambda(g)))
			}
		case 20:
			g.Emit("isidE.torsion", "T1", "r.isidentityE", hx(refEncode(refTorsion[t1EvenTorsion[g.Intn(4)]])), hx(t1Lambda(g)))
		case 21, 22, 23, 24:
			c, b := t1UniformInput(g)
			g.Emit(c, "T1", "r.uniform", hx(b))
		case 25, 26:
			a, b := t1RandElem(g), t1RandElem(g)
			op := []string{"r.add", "r.sub"}[g.Intn(2)]
			switch g.Intn(6) {
			case 0:
				b = a
			case 1:
				b = t1Elem{refNeg(a.P), t1RistEncode(refNeg(a.P))}
			}
			g.Emit("grp.addsub", "T1", op, hx(a.enc), hx(b.enc))
		case 27:
			a := t1RandElem(g)
			switch g.Intn(5) {
			case 0:
				g.Emit("grp.neg", "T1", "r.neg", hx(a.enc))
			case 1:
				g.Emit("grp.isid", "T1", "r.isidentity", hx(a.enc))
			case 2:
				g.Emit("grp.set", "T1", "r.set", hx(a.enc))
			case 3:
				g.Emit("grp.xpoint", "T1", "r.xpoint", hx(a.enc))
			default:
				g.Emit("grp.condsel", "T1", "r.condsel", hx(a.enc), hx(t1RandElem(g).enc), itoa(g.Intn(2)))
			}
		case 28:
			// invalid operands are errors
			_, bad := t1DecodeInput(g)
			g.Emit("grp.badarg", "T1", "r.add", hx(t1RandElem(g).enc), hx(bad))
		case 29, 30:
			g.Emit("grp.mul", "T1", "r.mul", hx(t1Scalar(g)), hx(t1RandElem(g).enc))
		case 31:
			if g.Intn(4) == 0 {
				g.Emit("grp.tblmul", "T1", "r.tblmul", hx(t1Scalar(g)), hx(t1RandElem(g).enc))
			} else {
				g.Emit("grp.mulbase", "T1", "r.mulbase", hx(t1Scalar(g)))
			}
		case 32, 33:
			op := []string{"r.dsm", "r.xdsm"}[g.Intn(2)]
			g.Emit("grp.dsm", "T1", op, hx(t1Scalar(g)), hx(t1RandElem(g).enc), hx(t1Scalar(g)))
		case 34:
			// [δa]A + [δb]B − [δ]C is the identity iff C = aA + bB
			op := []string{"r.tsm", "r.xtsm"}[g.Intn(2)]
			A := t1RandElem(g)
			a, b := t1Scalar(g), t1Scalar(g)
			am, bm := new(big.Int).Mod(leInt(a), refL), new(big.Int).Mod(leInt(b), refL)
			C := refAdd(t1Mul(am, A.P), t1MulB(bm))
			class := "grp.tsm.eq"
			switch g.Intn(3) {
			case 0:
				C = refAdd(C, refTorsion[t1EvenTorsion[g.Intn(4)]]) // another representative: still the identity
			case 1:
				C = refAdd(C, refB)
				class = "grp.tsm.ne"
			}
			g.Emit(class, "T1", op, hx(a), hx(A.enc), hx(b), hx(t1RistEncode(C)))
		case 35, 36, 37:
			op := []string{"r.msm", "r.msmvt"}[g.Intn(2)]
			n := g.Intn(7)
			m := n
			class := "grp.msm"
			if g.Intn(10) == 0 {
				m = g.Intn(7)
				if m != n {
					class = "grp.msm.mismatch"
				}
			}
			if op == "r.msmvt" && !pippenger && len(g.lines) > g.N/2 {
				// one large instance per run reaches the Pippenger path (threshold 190)
				pippenger = true
				n, m, class = 190+g.Intn(8), 0, "grp.msm.pippenger"
				m = n
			}
			f := []string{"T1", op, itoa(n), itoa(m)}
			for i := 0; i < n; i++ {
				f = append(f, hx(t1Scalar(g)))
			}
			var base []t1Elem
			for i := 0; i < m; i++ {
				if i < 8 || g.Intn(8) == 0 {
					base = append(base, t1RandElem(g))
				}
				f = append(f, hx(base[g.Intn(len(base))].enc))
			}
			g.Emit(class, f...)
		case 38:
			n := g.Intn(6)
			f := []string{"T1", "r.sum", itoa(n)}
			for i := 0; i < n; i++ {
				f = append(f, hx(t1RandElem(g).enc))
			}
			g.Emit("grp.sum", f...)
		case 39:
			cnt := [4]int{}
			cnt[0] = g.Intn(4)
			cnt[1] = cnt[0]
			cnt[2] = g.Intn(4)
			cnt[3] = cnt[2]
			class := "grp.xmsm"
			if g.Intn(8) == 0 {
				cnt[1+2*g.Intn(2)] = g.Intn(4)
				if cnt[0] != cnt[1] || cnt[2] != cnt[3] {
					class = "grp.xmsm.mismatch"
				}
			}
			f := []string{"T1", "r.xmsm", itoa(cnt[0]), itoa(cnt[1]), itoa(cnt[2]), itoa(cnt[3])}
			for j := 0; j < 4; j++ {
				for i := 0; i < cnt[j]; i++ {
					if j%2 == 0 {
						f = append(f, hx(t1Scalar(g)))
					} else {
						f = append(f, hx(t1RandElem(g).enc))
					}
				}
			}
			g.Emit(class, f...)
		}
	}
}

// ---- executor

func t1Dec(s string) (*curve.RistrettoPoint, bool) {
	c, err := curve.NewCompressedRistretto().SetBytes(unhex(s))
	if err != nil {
		return nil, false
	}
	p, err := curve.NewRistrettoPoint().SetCompressed(c)
	if err != nil {
		return nil, false
	}
	return p, true
}

func t1Enc(p *curve.RistrettoPoint) string {
	var c curve.CompressedRistretto
	c.SetRistrettoPoint(p)
	return hx(c[:])
}

func t1Sc(s string) (*scalar.Scalar, bool) {
	sc, err := scalar.NewFromBytesModOrder(unhex(s))
	return sc, err == nil
}

func t1FromEd(ed, lam string) (*curve.RistrettoPoint, bool) {
	e, l := unhex(ed), unhex(lam)
	if len(e) != 32 || len(l) != 32 {
		return nil, false
	}
	var ea, la [32]byte
	copy(ea[:], e)
	copy(la[:], l)
	return curve.VerifRistrettoFromEdwards(ea, la)
}

// t1Lists parses "<counts…> items…" into groups of scalars (even groups) and points (odd groups).
func t1Lists(a []string, groups int) (ss [][]*scalar.Scalar, ps [][]*curve.RistrettoPoint, ok bool) {
	cnt := make([]int, groups)
	for i := range cnt {
		cnt[i], _ = strconv.Atoi(a[i])
	}
	rest := a[groups:]
	for j := 0; j < groups; j++ {
		if len(rest) < cnt[j] {
			return nil, nil, false
		}
		if j%2 == 0 {
			l := []*scalar.Scalar{}
			for _, s := range rest[:cnt[j]] {
				sc, ok := t1Sc(s)
				if !ok {
					return nil, nil, false
				}
				l = append(l, sc)
			}
			ss = append(ss, l)
		} else {
			l := []*curve.RistrettoPoint{}
			for _, s := range rest[:cnt[j]] {
				p, ok := t1Dec(s)
				if !ok {
					return nil, nil, false
				}
				l = append(l, p)
			}
			ps = append(ps, l)
		}
		rest = rest[cnt[j]:]
	}
	return ss, ps, len(rest) == 0
}

func execT1(op string, a []string) string {
	switch op {
	case "r.decode":
		p, ok := t1Dec(a[0])
		if !ok {
			return "err"
		}
		b, err := p.MarshalBinary()
		if err != nil {
			return "err"
		}
		return "ok " + hx(b)
	case "r.unmarshal":
		p := curve.NewRistrettoPoint().Set(curve.RISTRETTO_BASEPOINT_POINT)
		if err := p.UnmarshalBinary(unhex(a[0])); err != nil {
			return "err " + t1Enc(p)
		}
		return "ok " + t1Enc(p)
	case "r.cunmarshal":
		var c curve.CompressedRistretto
		c.SetRistrettoPoint(curve.RISTRETTO_BASEPOINT_POINT)
		if err := c.UnmarshalBinary(unhex(a[0])); err != nil {
			return "err " + hx(c[:])
		}
		b, _ := c.MarshalBinary()
		return "ok " + hx(b)
	case "r.encode":
		p, ok := t1FromEd(a[0], a[1])
		if !ok {
			return "err"
		}
		return "ok " + t1Enc(p)
	case "r.coset":
		var encs []string
		for i := 0; i < 4; i++ {
			p, ok := t1FromEd(a[2*i], a[2*i+1])
			if !ok {
				return "err"
			}
			encs = append(encs, t1Enc(p))
		}
		if encs[0] == encs[1] && encs[0] == encs[2] && encs[0] == encs[3] {
			return "ok " + encs[0]
		}
		return "differ " + strings.Join(encs, " ")
	case "r.equal":
		p, ok1 := t1FromEd(a[0], a[1])
		q, ok2 := t1FromEd(a[2], a[3])
		if !ok1 || !ok2 {
			return "err"
		}
		e1, e2 := p.Equal(q), q.Equal(p)
		if e1 != e2 {
			return "asymmetric"
		}
		return b2s(e1 == 1)
	case "r.isidentityE":
		p, ok := t1FromEd(a[0], a[1])
		if !ok {
			return "err"
		}
		return b2s(p.IsIdentity())
	case "r.uniform":
		p, err := curve.NewRistrettoPoint().SetUniformBytes(unhex(a[0]))
		if err != nil {
			return "err"
		}
		return "ok " + t1Enc(p)
	case "r.add", "r.sub":
		p, ok1 := t1Dec(a[0])
		q, ok2 := t1Dec(a[1])
		if !ok1 || !ok2 {
			return "err"
		}
		var r curve.RistrettoPoint
		if op == "r.add" {
			r.Add(p, q)
		} else {
			r.Sub(p, q)
		}
		return "ok " + t1Enc(&r)
	case "r.neg", "r.isidentity", "r.set", "r.xpoint":
		p, ok := t1Dec(a[0])
		if !ok {
			return "err"
		}
		var r curve.RistrettoPoint
		switch op {
		case "r.neg":
			r.Neg(p)
		case "r.isidentity":
			return b2s(p.IsIdentity())
		case "r.set":
			r.Set(p)
		case "r.xpoint":
			x := curve.NewExpandedRistrettoPoint(p)
			r.SetExpanded(x)
			if x.Point().Equal(&r) != 1 {
				return "inconsistent"
			}
		}
		return "ok " + t1Enc(&r)
	case "r.condsel":
		p, ok1 := t1Dec(a[0])
		q, ok2 := t1Dec(a[1])
		if !ok1 || !ok2 {
			return "err"
		}
		c, _ := strconv.Atoi(a[2])
		var r curve.RistrettoPoint
		r.ConditionalSelect(p, q, c)
		return "ok " + t1Enc(&r)
	case "r.mul", "r.tblmul":
		s, ok1 := t1Sc(a[0])
		p, ok2 := t1Dec(a[1])
		if !ok1 || !ok2 {
			return "err"
		}
		var r curve.RistrettoPoint
		if op == "r.mul" {
			r.Mul(p, s)
		} else {
			tbl := curve.NewRistrettoBasepointTable(p)
			if tbl.Basepoint().Equal(p) != 1 {
				return "inconsistent"
			}
			r.MulBasepoint(tbl, s)
		}
		return "ok " + t1Enc(&r)
	case "r.mulbase":
		s, ok := t1Sc(a[0])
		if !ok {
			return "err"
		}
		var r curve.RistrettoPoint
		r.MulBasepoint(curve.RISTRETTO_BASEPOINT_TABLE, s)
		return "ok " + t1Enc(&r)
	case "r.dsm", "r.xdsm":
		sa, ok1 := t1Sc(a[0])
		A, ok2 := t1Dec(a[1])
		sb, ok3 := t1Sc(a[2])
		if !ok1 || !ok2 || !ok3 {
			return "err"
		}
		var r curve.RistrettoPoint
		if op == "r.dsm" {
			r.DoubleScalarMulBasepointVartime(sa, A, sb)
		} else {
			r.ExpandedDoubleScalarMulBasepointVartime(sa, curve.NewExpandedRistrettoPoint(A), sb)
		}
		return "ok " + t1Enc(&r)
	case "r.tsm", "r.xtsm":
		sa, ok1 := t1Sc(a[0])
		A, ok2 := t1Dec(a[1])
		sb, ok3 := t1Sc(a[2])
		C, ok4 := t1Dec(a[3])
		if !ok1 || !ok2 || !ok3 || !ok4 {
			return "err"
		}
		var r curve.RistrettoPoint
		if op == "r.tsm" {
			r.TripleScalarMulBasepointVartime(sa, A, sb, C)
		} else {
			r.ExpandedTripleScalarMulBasepointVartime(sa, curve.NewExpandedRistrettoPoint(A), sb, C)
		}
		return b2s(r.IsIdentity())
	case "r.msm", "r.msmvt":
		ss, ps, ok := t1Lists(a, 2)
		if !ok {
			return "err"
		}
		var r curve.RistrettoPoint
		if op == "r.msm" {
			r.MultiscalarMul(ss[0], ps[0])
		} else {
			r.MultiscalarMulVartime(ss[0], ps[0])
		}
		want := t1Enc(&r)
		// once more with the receiver being one of the operand points (in-place accumulation)
		if n := len(ps[0]); n > 0 {
			_, ps2, _ := t1Lists(a, 2)
			al := ps2[0][n-1]
			if op == "r.msm" {
				al.MultiscalarMul(ss[0], ps2[0])
			} else {
				al.MultiscalarMulVartime(ss[0], ps2[0])
			}
			if got := t1Enc(al); got != want {
				return "alias-mismatch " + want + " " + got
			}
		}
		return "ok " + want
	case "r.sum":
		n, _ := strconv.Atoi(a[0])
		var ps []*curve.RistrettoPoint
		for _, s := range a[1:] {
			p, ok := t1Dec(s)
			if !ok {
				return "err"
			}
			ps = append(ps, p)
		}
		if len(ps) != n {
			return "err"
		}
		var r curve.RistrettoPoint
		r.Sum(ps)
		return "ok " + t1Enc(&r)
	case "r.xmsm":
		ss, ps, ok := t1Lists(a, 4)
		if !ok {
			return "err"
		}
		var xs []*curve.ExpandedRistrettoPoint
		for _, p := range ps[0] {
			xs = append(xs, curve.NewExpandedRistrettoPoint(p))
		}
		var r curve.RistrettoPoint
		r.ExpandedMultiscalarMulVartime(ss[0], xs, ss[1], ps[1])
		return "ok " + t1Enc(&r)
	}
	return "bad-op"
}

func init() {
	register(&Stream{Name: "T1", Gen: genT1, Exec: execT1})
}

// Stream T3: a burst of adjacent Ristretto multiscalar requests of 40–60 terms (T1 lines, executed and modelled as such),
// meant for the 16-goroutine run: scratch space shared between concurrent calls shows as a wrong sum (seed C11-m8).
func genT3(g *Gen) {
	for i := 0; !g.Full(); i++ {
		op := []string{"r.msmvt", "r.msm", "r.msmvt"}[i%3]
		n := 40 + g.Intn(20)
		f := []string{"T1", op, itoa(n), itoa(n)}
		for j := 0; j < n; j++ {
			f = append(f, hx(t1Scalar(g)))
		}
		var base []t1Elem
		for j := 0; j < n; j++ {
			if j < 8 || g.Intn(8) == 0 {
				base = append(base, t1RandElem(g))
			}
			f = append(f, hx(base[g.Intn(len(base))].enc))
		}
		g.Emit("burst."+op, f...)
	}
}

func init() {
	register(&Stream{Name: "T3", Gen: genT3, Exec: func(op string, a []string) string { return "bad-op" }})
}
