package main

// Streams for package curve (Edwards side):
//
//	D1  decode / unmarshal / canonicity / encode / predicates / Edwards<->Montgomery maps   (property C10)
//	G1  group law and every scalar-multiplication entry point                               (property C03)
//
// Argument formats
//
//	point token  = 32-byte encoding (decoded with SetCompressedY), or 64 bytes enc||lambda: the same point in the
//	               projective representation (lambda*X, lambda*Y, lambda*Z, lambda*T) built by curve.VerifPointScaled.
//	scalar token = 32 bytes little endian, < 2^255, loaded with scalar.NewFromBits (NOT reduced).
//
// D1 ops:  decode b | unmarshal b | cunmarshal b | iscanon b | pred enc lambda | equal enc lambda enc lambda |
//          encode enc lambda | tomont enc lambda | frommont u sign
// G1 ops:  add P Q | sub P Q | neg P | dbl P | mul8 P | sum n P.. | mul s P | mulbase s | mulbasetbl s P | xpoint P |
//          dsm a A b | xdsm a A b | tsm a A b C | xtsm a A b C | msm ns np s.. P.. | msmvt ns np s.. P.. |
//          xmsmvt nss nsp nds ndp s.. P.. s.. P..

import (
	"fmt"
	"math/big"
	"strconv"

	"github.com/oasisprotocol/curve25519-voi/curve"
	"github.com/oasisprotocol/curve25519-voi/curve/scalar"
)

// ---------------------------------------------------------------------------------------------
// generator side: points with known decomposition [a]B + T_t (big.Int reference arithmetic only)

type cvPt struct {
	a   *big.Int // discrete logarithm of the prime-order component w.r.t. B, mod L
	t   int      // torsion component T_t = t*T1
	P   rpt
	enc []byte
}

func cvNew(a *big.Int, t int, P rpt) cvPt {
	return cvPt{new(big.Int).Mod(a, refL), ((t % 8) + 8) % 8, P, refEncode(P)}
}
func cvMk(a *big.Int, t int) cvPt {
	a = new(big.Int).Mod(a, refL)
	return cvNew(a, t, refAdd(refMul(a, refB), refTorsion[t]))
}
func cvAdd(x, y cvPt) cvPt { return cvNew(new(big.Int).Add(x.a, y.a), x.t+y.t, refAdd(x.P, y.P)) }
func cvNeg(x cvPt) cvPt    { return cvNew(new(big.Int).Neg(x.a), -x.t, refNeg(x.P)) }
func cvTor(t int) cvPt     { return cvNew(bi0, t, refTorsion[t]) }

type cvPool struct {
	g    *Gen
	pts  []cvPt // [a]B + T_t, a random
	spec []cvPt // O, T_1..T_7, B
}

func cvNewPool(g *Gen, n int) *cvPool {
	pl := &cvPool{g: g}
	for t := 0; t < 8; t++ {
		pl.spec = append(pl.spec, cvTor(t))
	}
	pl.spec = append(pl.spec, cvMk(bi1, 0))
	var bases []cvPt
	for i := 0; i < 5; i++ {
		bases = append(bases, cvMk(leInt(g.Bytes(40)), 0))
	}
	for i := 0; i < n; i++ {
		x := bases[g.Intn(len(bases))]
		if g.Bool() {
			x = cvAdd(x, bases[g.Intn(len(bases))])
		}
		if len(pl.pts) > 0 && g.Bool() {
			x = cvAdd(x, pl.pts[g.Intn(len(pl.pts))])
		}
		switch g.Intn(4) {
		case 2: // any torsion component
			x = cvAdd(x, cvTor(1+g.Intn(7)))
		case 3: // 2- and 4-torsion mixes
			x = cvAdd(x, cvTor([]int{4, 2, 6}[g.Intn(3)]))
		}
		pl.pts = append(pl.pts, x)
	}
	return pl
}

// fresh returns a new point (one reference addition) and remembers it.
func (pl *cvPool) fresh() cvPt {
	x := cvAdd(pl.pts[pl.g.Intn(len(pl.pts))], pl.pts[pl.g.Intn(len(pl.pts))])
	if pl.g.Intn(3) == 0 {
		x = cvAdd(x, cvTor(pl.g.Intn(8)))
	}
	pl.pts = append(pl.pts, x)
	return x
}

func (pl *cvPool) pick() cvPt {
	switch r := pl.g.Intn(20); {
	case r < 3:
		return pl.spec[pl.g.Intn(len(pl.spec))]
	case r < 6:
		return pl.fresh()
	}
	return pl.pts[pl.g.Intn(len(pl.pts))]
}

// cvLambda returns the 32-byte encoding of a non-zero field element (sometimes non-canonical bytes).
func cvLambda(g *Gen) []byte {
	var n *big.Int
	switch g.Intn(10) {
	case 0:
		n = big.NewInt(1)
	case 1:
		n = new(big.Int).Sub(refP, bi1)
	case 2:
		n = big.NewInt(2)
	case 3: // non-canonical bytes: p+1 = 1, 2^255-1 = 18
		n = new(big.Int).Add(refP, big.NewInt(int64(1+g.Intn(18))))
	case 4: // bit 255 set (ignored by the field decoder)
		n = leInt(g.Bytes(32))
		n.SetBit(n, 255, 1)
	default:
		n = leInt(g.Bytes(32))
	}
	v := new(big.Int).SetBit(new(big.Int).Set(n), 255, 0)
	if v.Mod(v, refP).Sign() == 0 {
		n = big.NewInt(1)
	}
	return leBytes(n, 32)
}

// tok renders a point argument: mostly the canonical encoding, sometimes a projectively scaled one.
func (pl *cvPool) tok(x cvPt) string {
	switch pl.g.Intn(8) {
	case 0, 1:
		return hx(x.enc) + hx(cvLambda(pl.g))
	case 2: // unreduced limbs (64-bit backends): each coordinate gets 0..2 extra multiples of p, limb-wise
		r := []byte{0xaa, 0x55, 0xa6, 0x2a, 0x82, byte(pl.g.Intn(256))}[pl.g.Intn(6)]
		r &^= (r >> 1) & 0x55 // digits are 0,1,2 (3 -> 2)
		return hx(x.enc) + hx(cvLambda(pl.g)) + hx([]byte{r})
	}
	return hx(x.enc)
}

// scalars: the shared boundary set plus digit patterns that maximise carries in the radix-2^w / NAF recodings
func cvScalarList() []*big.Int {
	out := refScalarBoundary()
	m := new(big.Int).Sub(new(big.Int).Lsh(bi1, 255), bi1)
	for w := uint(4); w <= 8; w++ {
		for _, dg := range []int64{1 << (w - 1), 1<<(w-1) - 1, 1<<(w-1) + 1, 1<<w - 1, 1} {
			n := new(big.Int)
			for sh := uint(0); sh < 255; sh += w {
				n.Or(n, new(big.Int).Lsh(big.NewInt(dg), sh))
			}
			out = append(out, n.And(n, m))
		}
	}
	return out
}

var cvScalars = cvScalarList()

func cvSc(g *Gen) *big.Int {
	switch r := g.Intn(10); {
	case r < 4:
		return cvScalars[g.Intn(len(cvScalars))]
	case r == 4:
		return big.NewInt(int64(g.Intn(1 << 16)))
	case r == 5:
		n := leInt(g.Bytes(32))
		return n.Rsh(n, uint(1+g.Intn(255)))
	}
	n := leInt(g.Bytes(32))
	return n.SetBit(n, 255, 0)
}
func cvScTok(n *big.Int) string { return hx(leBytes(n, 32)) }

var cvMaxScalar = new(big.Int).Sub(new(big.Int).Lsh(bi1, 255), bi1)

// Montgomery helpers (generator side)
var cvA = big.NewInt(486662)

func cvMontU(P rpt) *big.Int { return fmul(fadd(bi1, P.y), finv(fsub(bi1, P.y))) }

// cvMontClass: "curve", "twist" or "zero" for the value u^3 + A u^2 + u
func cvMontClass(u *big.Int) string {
	u = new(big.Int).Mod(u, refP)
	r := fadd(fadd(fmul(fmul(u, u), u), fmul(cvA, fmul(u, u))), u)
	if r.Sign() == 0 {
		return "zero"
	}
	e := new(big.Int).Rsh(new(big.Int).Sub(refP, bi1), 1)
	if new(big.Int).Exp(r, e, refP).Cmp(bi1) == 0 {
		return "curve"
	}
	return "twist"
}

// ---------------------------------------------------------------------------------------------
// D1

func genD1(g *Gen) {
	pl := cvNewPool(g, 40)
	two255 := new(big.Int).Lsh(bi1, 255)
	// decode-type ops on one input; `all` also runs both UnmarshalBinary methods
	dec := func(class string, b []byte, all bool) {
		h := hx(b)
		g.Emit(class, "D1", "decode", h)
		if len(b) == 32 {
			g.Emit(class, "D1", "iscanon", h)
		}
		if all || g.Intn(3) == 0 {
			g.Emit(class, "D1", "unmarshal", h)
		}
		if all || g.Intn(3) == 0 {
			g.Emit(class, "D1", "cunmarshal", h)
		}
	}
	lam1 := hx(leBytes(bi1, 32))

	// ---- deterministic part: every special encoding once
	for _, b := range refNonCanon {
		dec("noncanon", b, true)
	}
	{
		var ys []*big.Int
		for y := int64(0); y < 40; y++ {
			ys = append(ys, big.NewInt(y))
		}
		for e := int64(-2); e <= 18; e++ {
			ys = append(ys, new(big.Int).Add(refP, big.NewInt(e)))
		}
		for e := int64(20); e >= 1; e-- {
			ys = append(ys, new(big.Int).Sub(two255, big.NewInt(e)))
		}
		ys = append(ys, new(big.Int).Lsh(bi1, 254), new(big.Int).Sub(refP, big.NewInt(19)))
		seen := map[string]bool{}
		for _, y := range ys {
			for s := uint(0); s < 2; s++ {
				n := new(big.Int).SetBit(new(big.Int).Set(y), 255, s)
				b := leBytes(n, 32)
				if seen[string(b)] {
					continue
				}
				seen[string(b)] = true
				dec("yspecial", b, false)
			}
		}
	}
	for t := 0; t < 8; t++ {
		dec("torsion", pl.spec[t].enc, true)
	}
	dec("basepoint", pl.spec[8].enc, true)
	// every length 0..96: a valid encoding cut or extended, so that only the length can be the reason for rejection
	for n := 0; n <= 96; n++ {
		src := append(append(append([]byte{}, pl.pts[n%len(pl.pts)].enc...), g.Bytes(32)...), g.Bytes(32)...)
		b := src[:n]
		h := hx(b)
		g.Emit("len", "D1", "unmarshal", h)
		g.Emit("len", "D1", "cunmarshal", h)
		if n%3 == 0 || n == 31 || n == 32 || n == 33 {
			g.Emit("len", "D1", "decode", h)
			g.Emit("len", "D1", "iscanon", h)
			g.Emit("len", "D1", "frommont", h, "0")
		}
	}
	// canonicity, byte position by byte position: all-ones except ONE byte (every index 0..31), for first bytes at and
	// around 0xed and both values of the sign bit — the succeed-fast test must look at every one of the 32 bytes
	for j := 0; j < 32; j++ {
		for _, b0 := range []byte{0xec, 0xed, 0xff} {
			for _, b31 := range []byte{0x7f, 0xff} {
				for _, v := range []byte{0xfe, 0x00} {
					b := make([]byte, 32)
					for k := range b {
						b[k] = 0xff
					}
					b[0], b[31] = b0, b31
					if j == 31 {
						b[j] = v &^ 0x80 | (b31 & 0x80)
						if v == 0xfe {
							b[j] = 0x7e | (b31 & 0x80)
						}
					} else if j > 0 {
						b[j] = v
					}
					g.Emit("canonbyte", "D1", "iscanon", hx(b))
					if j%5 == 0 {
						g.Emit("canonbyte", "D1", "decode", hx(b))
					}
				}
			}
		}
	}
	g.Emit("len", "D1", "unmarshal", "nil")
	g.Emit("len", "D1", "cunmarshal", "nil")
	g.Emit("len", "D1", "decode", "nil")
	// Montgomery specials: low-order u's, their non-canonical aliases, -1 in all spellings, u = 9
	{
		lo1, _ := new(big.Int).SetString("325606250916557431795983626356110631294008115727848805560023387167927233504", 10)
		lo2, _ := new(big.Int).SetString("39382357235489614581723060781553021112529911719440698176882885853963445705823", 10)
		us := []*big.Int{bi0, bi1, bi2, big.NewInt(9), lo1, lo2,
			new(big.Int).Sub(refP, bi1), refP, new(big.Int).Add(refP, bi1), new(big.Int).Add(refP, big.NewInt(9)),
			new(big.Int).Sub(refP, bi2), new(big.Int).Add(refP, big.NewInt(18)), new(big.Int).Rsh(refP, 1)}
		for _, u := range us {
			for _, hi := range []uint{0, 1} {
				b := leBytes(new(big.Int).SetBit(new(big.Int).Set(u), 255, hi), 32)
				for _, sign := range []string{"0", "1"} {
					g.Emit("mont.special."+cvMontClass(u), "D1", "frommont", hx(b), sign)
				}
			}
		}
		// only bit 0 of the sign argument is used
		for _, sign := range []string{"2", "3", "128", "254", "255"} {
			g.Emit("mont.signbyte", "D1", "frommont", hx(leBytes(big.NewInt(9), 32)), sign)
		}
	}
	// predicates / encodings of the special points, unscaled and scaled
	for i := 0; i < 9; i++ {
		x := pl.spec[i]
		g.Emit("pred.special", "D1", "pred", hx(x.enc), lam1)
		g.Emit("pred.special", "D1", "pred", hx(x.enc), hx(cvLambda(g)))
		g.Emit("enc.special", "D1", "encode", hx(x.enc), hx(cvLambda(g)))
		g.Emit("tomont.special", "D1", "tomont", hx(x.enc), lam1)
		g.Emit("tomont.special", "D1", "tomont", hx(x.enc), hx(cvLambda(g)))
		g.Emit("equal.special", "D1", "equal", hx(x.enc), hx(cvLambda(g)), hx(pl.spec[(i+4)%8].enc), hx(cvLambda(g)))
		g.Emit("equal.special", "D1", "equal", hx(x.enc), hx(cvLambda(g)), hx(x.enc), hx(cvLambda(g)))
	}
	for _, b := range refSmall[8:] { // non-canonical spellings of small-order points
		g.Emit("pred.noncanon", "D1", "pred", hx(b), hx(cvLambda(g)))
		g.Emit("enc.noncanon", "D1", "encode", hx(b), hx(cvLambda(g)))
	}

	// ---- randomised part
	for !g.Full() {
		for i := 0; i < 6; i++ {
			dec("rand32", g.Bytes(32), false)
		}
		for i := 0; i < 3; i++ {
			dec("valid", pl.pick().enc, true)
		}
		for i := 0; i < 2; i++ {
			b := append([]byte{}, pl.pick().enc...)
			j := g.Intn(256)
			b[j/8] ^= 1 << (j % 8)
			dec("bitflip", b, false)
		}
		for i := 0; i < 3; i++ { // strings around the succeed-fast canonicity test: bytes 1..30 = ff except perhaps one
			b := make([]byte, 32)
			for j := range b {
				b[j] = 0xff
			}
			b[0] = []byte{0xec, 0xed, 0xee, 0xff, 0x00, byte(g.Intn(256))}[g.Intn(6)]
			b[31] = []byte{0x7f, 0xff, 0x7e, 0xfe, byte(g.Intn(256))}[g.Intn(5)]
			if g.Intn(3) == 0 {
				b[1+g.Intn(30)] = byte(g.Intn(256))
			}
			dec("canonedge", b, false)
		}
		for i := 0; i < 8; i++ {
			x := pl.pick()
			g.Emit(fmt.Sprintf("pred.t%d", x.t), "D1", "pred", hx(x.enc), hx(cvLambda(g)))
		}
		{
			x := pl.spec[g.Intn(8)] // pure torsion, scaled
			g.Emit("pred.torsion", "D1", "pred", hx(x.enc), hx(cvLambda(g)))
		}
		// equality: same point in two scalings, and points agreeing in x only / y only / neither
		{
			x := pl.pick()
			t4 := cvTor(4)
			rel := []struct {
				n string
				q cvPt
			}{{"same", x}, {"neg", cvNeg(x)}, {"plusT4", cvAdd(x, t4)}, {"negplusT4", cvAdd(cvNeg(x), t4)}, {"other", pl.pick()}}
			for _, r := range rel {
				g.Emit("equal."+r.n, "D1", "equal", hx(x.enc), hx(cvLambda(g)), hx(r.q.enc), hx(cvLambda(g)))
			}
		}
		for i := 0; i < 2; i++ {
			g.Emit("encode", "D1", "encode", hx(pl.pick().enc), hx(cvLambda(g)))
			g.Emit("tomont", "D1", "tomont", hx(pl.pick().enc), hx(cvLambda(g)))
		}
		for i := 0; i < 3; i++ {
			u := g.Bytes(32)
			g.Emit("mont.rand."+cvMontClass(new(big.Int).SetBit(leInt(u), 255, 0)), "D1", "frommont", hx(u), itoa(g.Intn(2)))
		}
		for i := 0; i < 2; i++ { // u of a valid point (round trip), both signs; sometimes non-canonical spelling not possible (u+p >= 2^255 mostly)
			x := pl.pick()
			u := cvMontU(x.P)
			b := leBytes(u, 32)
			if g.Bool() {
				b[31] |= 0x80
			}
			g.Emit("mont.valid", "D1", "frommont", hx(b), "0")
			g.Emit("mont.valid", "D1", "frommont", hx(b), "1")
		}
		{
			n := g.Intn(97)
			if n == 32 {
				n = 64
			}
			b := g.Bytes(n)
			if op := []string{"unmarshal", "cunmarshal", "decode", "frommont"}[g.Intn(4)]; op == "frommont" {
				g.Emit("len.rand", "D1", op, hx(b), itoa(g.Intn(2)))
			} else {
				g.Emit("len.rand", "D1", op, hx(b))
			}
		}
	}
}

// cvEnc renders a result point as its canonical encoding.  The internal representation is checked as well
// (Z != 0, X*Y = Z*T, curve equation): the encoding alone would not reveal a wrong T coordinate.
func cvEnc(p *curve.EdwardsPoint) string {
	if !curve.VerifPointConsistent(p) {
		return "inconsistent-representation"
	}
	b, err := p.MarshalBinary()
	if err != nil {
		panic("harness: MarshalBinary failed")
	}
	return hx(b)
}

// cvPoint2 builds a point from an encoding and a scaling factor
func cvPoint2(enc, lam string) *curve.EdwardsPoint {
	e, l := unhex(enc), unhex(lam)
	if len(e) != 32 || len(l) != 32 {
		return nil
	}
	var ea, la [32]byte
	copy(ea[:], e)
	copy(la[:], l)
	p, ok := curve.VerifPointScaled(ea, la)
	if !ok {
		return nil
	}
	return p
}

func execD1(op string, a []string) string {
	switch op {
	case "decode":
		c, err := curve.NewCompressedEdwardsYFromBytes(unhex(a[0]))
		if err != nil {
			return "err"
		}
		var p curve.EdwardsPoint
		if _, err := p.SetCompressedY(c); err != nil {
			return "err"
		}
		return "ok " + cvEnc(&p)
	case "unmarshal":
		var p curve.EdwardsPoint
		p.Set(curve.ED25519_BASEPOINT_POINT)
		if err := p.UnmarshalBinary(unhex(a[0])); err != nil {
			return "err " + cvEnc(&p)
		}
		return "ok " + cvEnc(&p)
	case "cunmarshal":
		c := *curve.ED25519_BASEPOINT_COMPRESSED
		err := c.UnmarshalBinary(unhex(a[0]))
		b, _ := c.MarshalBinary()
		if err != nil {
			return "err " + hx(b)
		}
		return "ok " + hx(b)
	case "iscanon":
		c, err := curve.NewCompressedEdwardsYFromBytes(unhex(a[0]))
		if err != nil {
			return "err"
		}
		return b2s(c.IsCanonicalVartime())
	case "pred":
		p := cvPoint2(a[0], a[1])
		if p == nil {
			return "err"
		}
		r := "bools"
		for _, v := range []bool{p.IsIdentity(), p.IsSmallOrder(), p.IsTorsionFree()} {
			if v {
				r += " 1"
			} else {
				r += " 0"
			}
		}
		return r
	case "equal":
		p, q := cvPoint2(a[0], a[1]), cvPoint2(a[2], a[3])
		if p == nil || q == nil {
			return "err"
		}
		e1, e2 := p.Equal(q), q.Equal(p)
		if e1 != e2 || (e1 != 0 && e1 != 1) {
			return "asymmetric-equal"
		}
		return b2s(e1 == 1)
	case "encode":
		p := cvPoint2(a[0], a[1])
		if p == nil {
			return "err"
		}
		var c curve.CompressedEdwardsY
		c.SetEdwardsPoint(p)
		if cvEnc(p) != hx(c[:]) {
			return "marshal-mismatch"
		}
		return "ok " + hx(c[:])
	case "tomont":
		p := cvPoint2(a[0], a[1])
		if p == nil {
			return "err"
		}
		var m curve.MontgomeryPoint
		m.SetEdwards(p)
		return "ok " + hx(m[:])
	case "frommont":
		m, err := curve.NewMontgomeryPoint().SetBytes(unhex(a[0]))
		if err != nil {
			return "err"
		}
		sign, _ := strconv.Atoi(a[1])
		var p curve.EdwardsPoint
		if _, err := p.SetMontgomery(m, uint8(sign)); err != nil {
			return "err"
		}
		return "ok " + cvEnc(&p)
	}
	return "bad-op"
}

// ---------------------------------------------------------------------------------------------
// G1

var (
	cvSmallSizes = []int{0, 1, 2, 3, 7, 8, 9}
	cvLargeSizes = []int{189, 190, 191, 379, 380, 381, 499, 500, 501, 799, 800, 801}
	cvVariants   = []string{"mix", "maxscalar", "samepoint", "torsion", "identity", "patterns", "cancel"}
)

type cvLarge struct {
	op      string
	n       int
	variant int
}

// cvTerms builds n (scalar, point) tokens for a multiscalar multiplication
func cvTerms(g *Gen, pl *cvPool, n, variant int) (ss, ps []string) {
	same := pl.pick()
	var prevS *big.Int
	var prevP cvPt
	for i := 0; i < n; i++ {
		s := cvSc(g)
		p := pl.pick()
		if variant == 6 && i%2 == 1 { // (s, P), (s, -P): the partial sums keep returning to earlier values / the identity
			s, p = prevS, cvNeg(prevP)
		}
		prevS, prevP = s, p
		switch variant {
		case 1: // every scalar 2^255-1: terminal carry of every recoding, in every column
			s = cvMaxScalar
		case 2:
			p = same
		case 3:
			p = pl.spec[g.Intn(8)]
		case 4:
			p = pl.spec[0]
		case 5:
			s = cvScalars[g.Intn(len(cvScalars))]
		}
		ss = append(ss, cvScTok(s))
		ps = append(ps, pl.tok(p))
	}
	return
}

func cvEmitMsm(g *Gen, pl *cvPool, class, op string, n, variant int) {
	ss, ps := cvTerms(g, pl, n, variant)
	if op == "xmsmvt" {
		k := []int{0, n, n / 2, g.Intn(n + 1)}[g.Intn(4)]
		if n >= 150 {
			// large cases are few (each costs a second of model time): make every one of them mix static and dynamic
			// terms (all-dynamic is msmvt; all-static keeps one chance in eight), incl. the lopsided 1 / n-1 splits
			k = []int{1, n - 1, n / 2, n / 2, 1 + g.Intn(n-1), 1 + g.Intn(n-1), 1 + g.Intn(n-1), n}[g.Intn(8)]
		}
		f := []string{"G1", op, itoa(k), itoa(k), itoa(n - k), itoa(n - k)}
		f = append(append(append(append(f, ss[:k]...), ps[:k]...), ss[k:]...), ps[k:]...)
		g.Emit(class, f...)
		return
	}
	f := []string{"G1", op, itoa(n), itoa(n)}
	g.Emit(class, append(append(f, ss...), ps...)...)
}

func genG1(g *Gen) {
	pl := cvNewPool(g, 48)
	O, B := pl.spec[0], pl.spec[8]
	zero := cvScTok(bi0)

	// ---- deterministic part
	for i := 0; i < 8; i++ {
		for j := 0; j < 8; j++ {
			g.Emit("torsion.add", "G1", "add", hx(pl.spec[i].enc), hx(pl.spec[j].enc))
		}
		g.Emit("torsion.sub", "G1", "sub", hx(pl.spec[i].enc), hx(pl.spec[(i*3+1)%8].enc))
		g.Emit("torsion.sub", "G1", "sub", hx(pl.spec[i].enc), hx(pl.spec[i].enc))
		g.Emit("torsion.neg", "G1", "neg", hx(pl.spec[i].enc))
		g.Emit("torsion.dbl", "G1", "dbl", hx(pl.spec[i].enc))
		g.Emit("torsion.mul8", "G1", "mul8", hx(pl.spec[i].enc))
		g.Emit("torsion.mul", "G1", "mul", cvScTok(cvSc(g)), hx(pl.spec[i].enc))
		g.Emit("torsion.xpoint", "G1", "xpoint", hx(pl.spec[i].enc))
		g.Emit("torsion.tbl", "G1", "mulbasetbl", cvScTok(cvSc(g)), hx(pl.spec[i].enc))
	}
	for _, b := range refSmall[8:] { // non-canonical spellings as operands
		g.Emit("noncanon.in", "G1", "add", hx(b), pl.tok(pl.pick()))
		g.Emit("noncanon.in", "G1", "mul", cvScTok(cvSc(g)), hx(b))
	}
	for _, s := range []*big.Int{bi0, bi1, bi2, big.NewInt(8), new(big.Int).Sub(refL, bi1), refL, new(big.Int).Add(refL, bi1), cvMaxScalar} {
		P := pl.pick()
		st := cvScTok(s)
		g.Emit("keyscalar", "G1", "mul", st, pl.tok(P))
		g.Emit("keyscalar", "G1", "mulbase", st)
		g.Emit("keyscalar", "G1", "mulbasetbl", st, pl.tok(P))
		g.Emit("keyscalar", "G1", "dsm", st, pl.tok(P), st)
		g.Emit("keyscalar", "G1", "xdsm", st, pl.tok(P), zero)
		g.Emit("keyscalar", "G1", "dsm", zero, pl.tok(P), st)
		g.Emit("keyscalar", "G1", "tsm", st, pl.tok(P), st, pl.tok(pl.pick()))
		g.Emit("keyscalar", "G1", "xtsm", st, hx(O.enc), zero, hx(O.enc))
	}
	// documented panics: slice length mismatch
	{
		s1, s2, s3 := cvScTok(cvSc(g)), cvScTok(cvSc(g)), cvScTok(cvSc(g))
		p1, p2, p3 := hx(B.enc), hx(pl.pick().enc), hx(pl.pick().enc)
		g.Emit("panic", "G1", "msm", "1", "0", s1)
		g.Emit("panic", "G1", "msm", "0", "1", p1)
		g.Emit("panic", "G1", "msm", "2", "3", s1, s2, p1, p2, p3)
		g.Emit("panic", "G1", "msmvt", "1", "0", s1)
		g.Emit("panic", "G1", "msmvt", "0", "2", p1, p2)
		g.Emit("panic", "G1", "msmvt", "3", "2", s1, s2, s3, p1, p2)
		g.Emit("panic", "G1", "xmsmvt", "1", "0", "0", "0", s1)
		g.Emit("panic", "G1", "xmsmvt", "0", "1", "1", "1", p1, s2, p2)
		g.Emit("panic", "G1", "xmsmvt", "1", "1", "2", "1", s1, p1, s2, s3, p2)
		g.Emit("panic", "G1", "xmsmvt", "0", "0", "0", "1", p3)
		g.Emit("panic", "G1", "xmsmvt", "2", "1", "1", "2", s1, s2, p1, s3, p2, p3)
	}
	for _, n := range append(append([]int{}, cvSmallSizes...), 100) {
		for _, op := range []string{"msm", "msmvt", "xmsmvt"} {
			cvEmitMsm(g, pl, fmt.Sprintf("small.%s", op), op, n, 0)
		}
	}

	// ---- large multiscalar multiplications (>= 189 terms): all of them in tier thorough, a seed-dependent sample otherwise
	var large []cvLarge
	for _, op := range []string{"msmvt", "xmsmvt"} {
		for _, n := range cvLargeSizes {
			for v := range cvVariants {
				large = append(large, cvLarge{op, n, v})
			}
		}
	}
	for _, n := range []int{190, 500} { // the constant-time Straus has no threshold; two sizes suffice
		large = append(large, cvLarge{"msm", n, 0}, cvLarge{"msm", n, 1})
	}
	emitLarge := func(c cvLarge) {
		cvEmitMsm(g, pl, fmt.Sprintf("large.%s.%d.%s", c.op, c.n, cvVariants[c.variant]), c.op, c.n, c.variant)
	}
	var queue []cvLarge
	if g.Tier == "thorough" {
		for _, c := range large {
			emitLarge(c)
		}
		for _, op := range []string{"msm", "msmvt", "xmsmvt"} {
			for v := range cvVariants {
				emitLarge(cvLarge{op, 1024, v})
			}
		}
	} else {
		// one case next to the Straus/Pippenger threshold, one next to a window threshold, then uniform picks
		k := g.N / 150
		if k < 4 {
			k = 4
		}
		for len(queue) < k {
			c := large[g.Intn(len(large))]
			switch len(queue) {
			case 0: // always: the expanded entry point just above the Straus/Pippenger threshold (mixed static/dynamic terms)
				c.op, c.n = "xmsmvt", []int{191, 192, 200}[g.Intn(3)]
			case 1:
				c.op, c.n = "msmvt", []int{189, 190, 191}[g.Intn(3)]
			case 2: // always: the widest window (w = 8 from 800 terms on) of the variable-time bucket method, with its extra top digit
				c.op, c.n = "msmvt", []int{800, 801}[g.Intn(2)]
			case 3:
				c.n = []int{499, 500, 501, 799}[g.Intn(4)]
			}
			queue = append(queue, c)
		}
	}

	// ---- randomised part
	for round := 0; !g.Full(); round++ {
		if len(queue) > 0 && round%3 == 0 {
			emitLarge(queue[0])
			queue = queue[1:]
		}
		// group law; operands related in the ways that break incomplete formulas
		for i := 0; i < 3; i++ {
			P := pl.pick()
			var Q cvPt
			rel := g.Intn(8)
			switch rel {
			case 0:
				Q = P
			case 1:
				Q = cvNeg(P)
			case 2:
				Q = cvAdd(P, cvTor(1+g.Intn(7)))
			case 3:
				Q = cvAdd(cvNeg(P), cvTor(1+g.Intn(7)))
			case 4:
				Q = O
			default:
				Q = pl.pick()
			}
			cls := []string{"same", "neg", "plusT", "negplusT", "zero", "rand", "rand", "rand"}[rel]
			if g.Bool() {
				P, Q = Q, P
			}
			g.Emit("add."+cls, "G1", "add", pl.tok(P), pl.tok(Q))
			g.Emit("sub."+cls, "G1", "sub", pl.tok(P), pl.tok(Q))
		}
		g.Emit("neg", "G1", "neg", pl.tok(pl.pick()))
		g.Emit("dbl", "G1", "dbl", pl.tok(pl.pick()))
		g.Emit("mul8", "G1", "mul8", pl.tok(pl.pick()))
		{
			n := g.Intn(10)
			f := []string{"G1", "sum", itoa(n)}
			for i := 0; i < n; i++ {
				f = append(f, pl.tok(pl.pick()))
			}
			g.Emit("sum", f...)
		}
		for i := 0; i < 3; i++ {
			g.Emit("mul", "G1", "mul", cvScTok(cvSc(g)), pl.tok(pl.pick()))
		}
		for i := 0; i < 2; i++ {
			g.Emit("mulbase", "G1", "mulbase", cvScTok(cvSc(g)))
		}
		g.Emit("mulbasetbl", "G1", "mulbasetbl", cvScTok(cvSc(g)), pl.tok(pl.pick()))
		g.Emit("xpoint", "G1", "xpoint", pl.tok(pl.pick()))
		for i := 0; i < 2; i++ {
			g.Emit("dsm", "G1", "dsm", cvScTok(cvSc(g)), pl.tok(pl.pick()), cvScTok(cvSc(g)))
			g.Emit("xdsm", "G1", "xdsm", cvScTok(cvSc(g)), pl.tok(pl.pick()), cvScTok(cvSc(g)))
		}
		// triple product: C chosen so that aA + bB - C is a torsion point (b solved from the known discrete logs), or not
		for i := 0; i < 5; i++ {
			op := "tsm"
			if i >= 3 {
				op = "xtsm"
			}
			A, C := pl.pick(), pl.pick()
			a := cvSc(g)
			b := new(big.Int).Mul(a, A.a)
			b.Sub(C.a, b).Mod(b, refL)
			// unreduced representative b + kL < 2^255
			if k := int64(g.Intn(8)); k > 0 {
				if c := new(big.Int).Add(b, new(big.Int).Mul(refL, big.NewInt(k))); c.BitLen() <= 255 {
					b = c
				}
			}
			cls := "torsion"
			switch g.Intn(6) {
			case 0:
				b = new(big.Int).Add(b, bi1)
				if b.BitLen() > 255 {
					b.Sub(b, bi2)
				}
				cls = "offby1"
			case 1:
				C = cvAdd(C, pl.pick())
				cls = "wrongC"
			case 2:
				b = cvSc(g)
				cls = "rand"
			case 3:
				C = cvAdd(C, cvTor(1+g.Intn(7)))
				cls = "torsionC"
			}
			g.Emit(op+"."+cls, "G1", op, cvScTok(a), pl.tok(A), cvScTok(b), pl.tok(C))
		}
		for _, op := range []string{"msm", "msmvt", "xmsmvt"} {
			n := cvSmallSizes[g.Intn(len(cvSmallSizes))]
			if round%8 == 7 {
				n = []int{10 + g.Intn(60), 100}[g.Intn(2)]
			}
			cvEmitMsm(g, pl, "small."+op, op, n, []int{0, 0, 0, 1, 2, 3, 4, 5, 6}[g.Intn(9)])
		}
		if round%10 == 9 { // undecodable operand / wrong scalar length: the harness answers err on both sides
			g.Emit("badarg", "G1", "add", hx(leBytes(bi2, 32)), hx(B.enc))
			g.Emit("badarg", "G1", "mul", hx(g.Bytes(31)), hx(B.enc))
		}
	}
}

func cvPtArg(tok string) *curve.EdwardsPoint {
	b := unhex(tok)
	switch len(b) {
	case 32:
		var c curve.CompressedEdwardsY
		copy(c[:], b)
		var p curve.EdwardsPoint
		if _, err := p.SetCompressedY(&c); err != nil {
			return nil
		}
		return &p
	case 64:
		var e, l [32]byte
		copy(e[:], b[:32])
		copy(l[:], b[32:])
		p, ok := curve.VerifPointScaled(e, l)
		if !ok {
			return nil
		}
		return p
	case 65: // enc ‖ λ ‖ r: additionally, the limbs of the four coordinates are left unreduced as the byte r says
		var e, l [32]byte
		copy(e[:], b[:32])
		copy(l[:], b[32:64])
		p, ok := curve.VerifPointScaled(e, l)
		if !ok {
			return nil
		}
		curve.VerifPointLoosen(p, b[64])
		return p
	}
	return nil
}

// cvExpanded presents P as an ExpandedEdwardsPoint.  Depending on a bit of the (request-determined) token `sel` the value
// is either fresh, or a by-value copy taken from a working variable that is afterwards re-targeted to another point
// (expanded points are values: a copy must keep denoting P whatever happens to the variable it was copied from), or a
// variable that held another point first, or an expanded point whose Point() result the caller has since modified.
func cvExpanded(P *curve.EdwardsPoint, sel string) *curve.ExpandedEdwardsPoint {
	mode := 0
	if len(sel) > 0 {
		mode = int(sel[len(sel)-1]) % 4
	}
	switch mode {
	case 3:
		// the point handed out by Point() belongs to the caller: changing it must not change what the expanded point denotes
		work := curve.NewExpandedEdwardsPoint(P)
		q := work.Point()
		q.Add(q, curve.ED25519_BASEPOINT_POINT)
		return work
	case 1:
		work := curve.NewExpandedEdwardsPoint(P)
		snap := *work
		var other curve.EdwardsPoint
		other.Add(P, curve.ED25519_BASEPOINT_POINT)
		work.SetEdwardsPoint(&other)
		return &snap
	case 2:
		var other curve.EdwardsPoint
		other.Add(P, curve.ED25519_BASEPOINT_POINT)
		work := curve.NewExpandedEdwardsPoint(&other)
		work.SetEdwardsPoint(P)
		return work
	}
	return curve.NewExpandedEdwardsPoint(P)
}

func cvScArg(tok string) *scalar.Scalar {
	s, err := scalar.NewFromBits(unhex(tok))
	if err != nil {
		return nil
	}
	return s
}

func cvPtArgs(toks []string) ([]*curve.EdwardsPoint, bool) {
	out := make([]*curve.EdwardsPoint, 0, len(toks))
	for _, t := range toks {
		p := cvPtArg(t)
		if p == nil {
			return nil, false
		}
		out = append(out, p)
	}
	return out, true
}

func cvScArgs(toks []string) ([]*scalar.Scalar, bool) {
	out := make([]*scalar.Scalar, 0, len(toks))
	for _, t := range toks {
		s := cvScArg(t)
		if s == nil {
			return nil, false
		}
		out = append(out, s)
	}
	return out, true
}

// cvRecv returns a receiver that already holds a non-trivial point, so that a routine that forgets to
// initialise its output is noticed.
func cvRecv() *curve.EdwardsPoint {
	var r curve.EdwardsPoint
	r.Set(curve.ED25519_BASEPOINT_POINT)
	var t curve.EdwardsPoint
	return r.Add(&r, t.Set(curve.ED25519_BASEPOINT_POINT))
}

// cvBoth reports the result; `aliased` is the same operation computed with the receiver aliasing an operand.
func cvBoth(fresh, aliased *curve.EdwardsPoint) string {
	if aliased != nil && cvEnc(fresh) != cvEnc(aliased) {
		return "alias-mismatch " + cvEnc(fresh) + " " + cvEnc(aliased)
	}
	return "ok " + cvEnc(fresh)
}

func cvCopy(p *curve.EdwardsPoint) *curve.EdwardsPoint {
	var r curve.EdwardsPoint
	return r.Set(p)
}

func execG1(op string, a []string) string {
	switch op {
	case "add", "sub":
		P, Q := cvPtArg(a[0]), cvPtArg(a[1])
		if P == nil || Q == nil {
			return "err"
		}
		r, al, ar := cvRecv(), cvCopy(P), cvCopy(Q)
		if op == "add" {
			r.Add(P, Q)
			al.Add(al, Q)
			ar.Add(P, ar)
		} else {
			r.Sub(P, Q)
			al.Sub(al, Q)
			ar.Sub(P, ar)
		}
		if cvEnc(al) != cvEnc(ar) {
			return "alias-mismatch " + cvEnc(al) + " " + cvEnc(ar)
		}
		return cvBoth(r, al)
	case "neg":
		P := cvPtArg(a[0])
		if P == nil {
			return "err"
		}
		al := cvCopy(P)
		return cvBoth(cvRecv().Neg(P), al.Neg(al))
	case "dbl":
		P := cvPtArg(a[0])
		if P == nil {
			return "err"
		}
		al := cvCopy(P)
		return cvBoth(cvRecv().Add(P, P), al.Add(al, al))
	case "mul8":
		P := cvPtArg(a[0])
		if P == nil {
			return "err"
		}
		al := cvCopy(P)
		return cvBoth(cvRecv().MulByCofactor(P), al.MulByCofactor(al))
	case "sum":
		n, _ := strconv.Atoi(a[0])
		if len(a) != 1+n {
			return "bad-op"
		}
		ps, ok := cvPtArgs(a[1:])
		if !ok {
			return "err"
		}
		return cvBoth(cvRecv().Sum(ps), nil)
	case "mul":
		s, P := cvScArg(a[0]), cvPtArg(a[1])
		if s == nil || P == nil {
			return "err"
		}
		al := cvCopy(P)
		return cvBoth(cvRecv().Mul(P, s), al.Mul(al, s))
	case "mulbase":
		s := cvScArg(a[0])
		if s == nil {
			return "err"
		}
		return cvBoth(cvRecv().MulBasepoint(curve.ED25519_BASEPOINT_TABLE, s), nil)
	case "mulbasetbl":
		s, P := cvScArg(a[0]), cvPtArg(a[1])
		if s == nil || P == nil {
			return "err"
		}
		tbl := curve.NewEdwardsBasepointTable(P)
		return "ok " + cvEnc(cvRecv().MulBasepoint(tbl, s)) + " " + cvEnc(tbl.Basepoint())
	case "xpoint":
		P := cvPtArg(a[0])
		if P == nil {
			return "err"
		}
		x := curve.NewExpandedEdwardsPoint(P)
		q := x.Point()
		enc := cvEnc(q)
		q.Add(q, curve.ED25519_BASEPOINT_POINT) // the returned point is the caller's: x must keep denoting P
		return "ok " + enc + " " + cvEnc(cvRecv().SetExpanded(x))
	case "dsm", "xdsm":
		x, A, y := cvScArg(a[0]), cvPtArg(a[1]), cvScArg(a[2])
		if x == nil || A == nil || y == nil {
			return "err"
		}
		if op == "dsm" {
			al := cvCopy(A)
			return cvBoth(cvRecv().DoubleScalarMulBasepointVartime(x, A, y), al.DoubleScalarMulBasepointVartime(x, al, y))
		}
		return cvBoth(cvRecv().ExpandedDoubleScalarMulBasepointVartime(x, cvExpanded(A, a[0]), y), nil)
	case "tsm", "xtsm":
		x, A, y, C := cvScArg(a[0]), cvPtArg(a[1]), cvScArg(a[2]), cvPtArg(a[3])
		if x == nil || A == nil || y == nil || C == nil {
			return "err"
		}
		r := cvRecv()
		if op == "tsm" {
			r.TripleScalarMulBasepointVartime(x, A, y, C)
			// the receiver may be either point argument
			alA, alC := cvCopy(A), cvCopy(C)
			alA.TripleScalarMulBasepointVartime(x, alA, y, C)
			alC.TripleScalarMulBasepointVartime(x, A, y, alC)
			if alA.IsSmallOrder() != r.IsSmallOrder() || alC.IsSmallOrder() != r.IsSmallOrder() {
				return "alias-mismatch"
			}
		} else {
			r.ExpandedTripleScalarMulBasepointVartime(x, cvExpanded(A, a[0]), y, C)
			alC := cvCopy(C)
			alC.ExpandedTripleScalarMulBasepointVartime(x, cvExpanded(A, a[0]), y, alC)
			if alC.IsSmallOrder() != r.IsSmallOrder() {
				return "alias-mismatch"
			}
		}
		return b2s(r.IsSmallOrder())
	case "msm", "msmvt":
		ns, _ := strconv.Atoi(a[0])
		np, _ := strconv.Atoi(a[1])
		if len(a) != 2+ns+np {
			return "bad-op"
		}
		ss, ok1 := cvScArgs(a[2 : 2+ns])
		ps, ok2 := cvPtArgs(a[2+ns:])
		if !ok1 || !ok2 {
			return "err"
		}
		// aliased variant: the receiver is the last operand point itself
		var al *curve.EdwardsPoint
		if len(ps) > 0 && len(ps) <= 64 {
			ps2, _ := cvPtArgs(a[2+ns:])
			al = ps2[len(ps2)-1]
			if op == "msm" {
				al.MultiscalarMul(ss, ps2)
			} else {
				al.MultiscalarMulVartime(ss, ps2)
			}
		}
		if op == "msm" {
			return cvBoth(cvRecv().MultiscalarMul(ss, ps), al)
		}
		return cvBoth(cvRecv().MultiscalarMulVartime(ss, ps), al)
	case "xmsmvt":
		var n [4]int
		for i := range n {
			n[i], _ = strconv.Atoi(a[i])
		}
		r := a[4:]
		if len(r) != n[0]+n[1]+n[2]+n[3] {
			return "bad-op"
		}
		ss, ok1 := cvScArgs(r[:n[0]])
		sp, ok2 := cvPtArgs(r[n[0] : n[0]+n[1]])
		ds, ok3 := cvScArgs(r[n[0]+n[1] : n[0]+n[1]+n[2]])
		dp, ok4 := cvPtArgs(r[n[0]+n[1]+n[2]:])
		if !ok1 || !ok2 || !ok3 || !ok4 {
			return "err"
		}
		xs := make([]*curve.ExpandedEdwardsPoint, 0, len(sp))
		for i, p := range sp {
			xs = append(xs, cvExpanded(p, a[4+i%len(a[4:])]))
		}
		return cvBoth(cvRecv().ExpandedMultiscalarMulVartime(ss, xs, ds, dp), nil)
	}
	return "bad-op"
}

func init() {
	register(&Stream{Name: "D1", Gen: genD1, Exec: execD1})
	register(&Stream{Name: "G1", Gen: genG1, Exec: execG1})
}

// Stream G3: a burst of adjacent Pippenger-sized multiscalar requests (G1 lines, executed and modelled as such).  Run from
// 16 goroutines, many of them are inside the bucket method at the same time: per-call scratch space (buckets, digit
// arrays, point lists) that is accidentally shared between calls then shows as a wrong sum (seeds C03-m8, C11-m8).
func genG3(g *Gen) {
	pl := cvNewPool(g, 32)
	for i := 0; !g.Full(); i++ {
		op := []string{"msmvt", "xmsmvt", "msmvt"}[i%3]
		n := []int{190, 191, 200, 195}[i%4]
		if op == "xmsmvt" && n == 190 {
			n = 191 // the expanded entry point switches at > 190
		}
		cvEmitMsm(g, pl, fmt.Sprintf("burst.%s.%d", op, n), op, n, i%len(cvVariants))
	}
}

func init() {
	register(&Stream{Name: "G3", Gen: genG3, Exec: func(op string, a []string) string { return "bad-op" }})
}
