package main

// Stream X1 (property C07): X25519 is the RFC 7748 function on every input.
//
//	x.mult k32 u32      x25519.ScalarMult                         -> ok out
//	x.model k32 u32     same call (the Lean side answers from the code-shaped Model) -> ok out
//	x.mmul s32 u32      curve.MontgomeryPoint.Mul with scalar.NewFromBits(s) (NO clamping; bit 255 masked) -> ok out
//	x.base k32          x25519.ScalarBaseMult                     -> ok out
//	x.x25519 k u        x25519.X25519(k, u), any lengths          -> ok out | err
//	x.x25519bp k        x25519.X25519(k, x25519.Basepoint) (the package's own slice: fixed-base path) -> ok out | err
//	x.dh skA skB        PrivateKey.Public / DiffieHellman in both directions -> ok ssAB ssBA
//	x.dhraw sk pub      PrivateKey.DiffieHellman(pub) + SharedSecret.IsZero -> ok ss 00|01
//	x.edpriv sk64       x25519.EdPrivateKeyToX25519 (64-byte keys only) -> ok k
//	x.edpub pk          x25519.EdPublicKeyToX25519, any length    -> ok u | err
//	x.edpair seed32     ed25519.NewKeyFromSeed, both conversions, X25519(xsk, Basepoint) -> ok xsk xpk xpk'

import (
	"fmt"
	"math/big"

	"github.com/oasisprotocol/curve25519-voi/curve"
	"github.com/oasisprotocol/curve25519-voi/curve/scalar"
	"github.com/oasisprotocol/curve25519-voi/primitives/ed25519"
	"github.com/oasisprotocol/curve25519-voi/primitives/x25519"
)

var (
	x1Two255 = new(big.Int).Lsh(bi1, 255)
	// the two u-coordinates of order 8 (RFC 7748 §6.1 / the well-known small-order list)
	x1Ord8a, _ = new(big.Int).SetString("325606250916557431795983626356110631294008115727848805560023387167927233504", 10)
	x1Ord8b, _ = new(big.Int).SetString("39382357235489614581723060781553021112529911719440698176882885853963445705823", 10)
)

func x1Add(a *big.Int, b int64) *big.Int { return new(big.Int).Add(a, big.NewInt(b)) }
func x1Sum(a, b *big.Int) *big.Int       { return new(big.Int).Add(a, b) }

// x1Low12 is the list of the 12 low-order / non-canonical u encodings (as 256-bit integers).
func x1Low12() []*big.Int {
	p2 := new(big.Int).Lsh(refP, 1)
	return []*big.Int{
		big.NewInt(0), big.NewInt(1), x1Ord8a, x1Ord8b, x1Add(refP, -1), refP, x1Add(refP, 1),
		x1Sum(x1Ord8a, refP), x1Sum(x1Ord8b, refP), x1Add(p2, -1), p2, x1Add(p2, 1),
	}
}

// x1OnCurve reports whether u (reduced) is the u-coordinate of a point of Curve25519 (not of the twist).
func x1OnCurve(u *big.Int) bool {
	u = new(big.Int).Mod(u, refP)
	// v^2 = u^3 + 486662 u^2 + u
	r := fadd(fadd(fmul(fmul(u, u), u), fmul(big.NewInt(486662), fmul(u, u))), u)
	if r.Sign() == 0 {
		return true
	}
	e := new(big.Int).Rsh(x1Add(refP, -1), 1)
	return new(big.Int).Exp(r, e, refP).Cmp(bi1) == 0
}

func x1b32(n *big.Int) []byte { return leBytes(new(big.Int).Mod(n, new(big.Int).Lsh(bi1, 256)), 32) }

type x1U struct {
	class string
	b     []byte
}

// x1PickU draws a u-coordinate from the boundary classes of C07's quantifier.
func x1PickU(g *Gen, low []*big.Int) x1U {
	switch g.Intn(12) {
	case 0, 1:
		return x1U{"u.low12", x1b32(low[g.Intn(len(low))])}
	case 2:
		for {
			x := low[g.Intn(len(low))]
			if x.Cmp(x1Two255) < 0 {
				return x1U{"u.low12.bit255", x1b32(x1Sum(x, x1Two255))}
			}
		}
	case 3:
		// non-canonical: u in [p, 2^255), optionally with bit 255 as well
		n := x1Add(refP, int64(g.Intn(19)))
		if g.Intn(3) == 0 {
			return x1U{"u.noncanon.bit255", x1b32(x1Sum(n, x1Two255))}
		}
		return x1U{"u.noncanon", x1b32(n)}
	case 4:
		sp := []*big.Int{big.NewInt(9), big.NewInt(2), big.NewInt(3), big.NewInt(4), big.NewInt(8), x1Add(refP, -2), x1Add(refP, -9),
			x1Add(x1Two255, -1), x1Add(x1Two255, -18), x1Add(x1Two255, 9), x1Add(new(big.Int).Lsh(bi1, 256), -1), x1Add(x1Two255, 0),
			new(big.Int).Lsh(bi1, 254), x1Add(new(big.Int).Lsh(bi1, 254), -1), big.NewInt(486662), x1Add(refP, -486662), big.NewInt(121665), big.NewInt(121666)}
		return x1U{"u.special", x1b32(sp[g.Intn(len(sp))])}
	case 5, 6:
		// a point on the twist (reduced, canonical)
		for {
			u := new(big.Int).Mod(leInt(g.Bytes(32)), refP)
			if !x1OnCurve(u) {
				if g.Intn(4) == 0 {
					return x1U{"u.twist.bit255", x1b32(x1Sum(u, x1Two255))}
				}
				return x1U{"u.twist", x1b32(u)}
			}
		}
	case 7, 8:
		for {
			u := new(big.Int).Mod(leInt(g.Bytes(32)), refP)
			if x1OnCurve(u) {
				if g.Intn(4) == 0 {
					return x1U{"u.curve.bit255", x1b32(x1Sum(u, x1Two255))}
				}
				return x1U{"u.curve", x1b32(u)}
			}
		}
	case 9:
		// sparse / dense patterns
		b := make([]byte, 32)
		pat := []byte{0x00, 0xff, 0x55, 0xaa, 0x80, 0x01, 0x7f, 0xfe}[g.Intn(8)]
		for i := range b {
			b[i] = pat
		}
		b[g.Intn(32)] ^= byte(1 << g.Intn(8))
		return x1U{"u.pattern", b}
	}
	return x1U{"u.random", g.Bytes(32)}
}

// x1PickK draws a scalar; the clamping-relevant bits 0, 1, 2, 254, 255 are exercised in every combination.
func x1PickK(g *Gen) (string, []byte) {
	switch g.Intn(10) {
	case 0:
		return "k.zero", make([]byte, 32)
	case 1:
		b := make([]byte, 32)
		for i := range b {
			b[i] = 0xff
		}
		return "k.ones", b
	case 2:
		sp := []*big.Int{big.NewInt(1), big.NewInt(7), big.NewInt(8), new(big.Int).Lsh(bi1, 254), x1Add(x1Two255, -1), x1Add(x1Two255, 0),
			x1Add(new(big.Int).Lsh(bi1, 254), -8), x1Add(new(big.Int).Lsh(bi1, 254), 8), refL, new(big.Int).Lsh(refL, 3), new(big.Int).Lsh(refL, 2),
			x1Add(x1Two255, -8), x1Add(new(big.Int).Lsh(bi1, 253), 0)}
		return "k.special", x1b32(sp[g.Intn(len(sp))])
	case 3, 4, 5, 6:
		// random body, the five clamping-relevant bits set to a chosen combination
		b := g.Bytes(32)
		m := g.Intn(32)
		b[0] = b[0]&^7 | byte(m&7)
		b[31] = b[31]&^0xc0 | byte(m>>3)<<6
		return "k.clampbits", b
	case 7:
		// alternating / run patterns that drive the swap condition bits[i+1]^bits[i]
		b := make([]byte, 32)
		pat := []byte{0x55, 0xaa, 0x33, 0xcc, 0x0f, 0xf0, 0x01, 0x80}[g.Intn(8)]
		for i := range b {
			b[i] = pat
		}
		return "k.pattern", b
	}
	return "k.random", g.Bytes(32)
}

// x1CraftResult returns a (scalar bytes, u bytes) pair whose X25519 output is a string of the given pattern.
// r is drawn from the pattern until it is the u-coordinate of a point P of the prime-order subgroup (decode on the
// Edwards side: y = (u-1)/(u+1); [L]P = O); then for a random clamped scalar s the input is u([s^-1 mod L] P).
func x1CraftResult(g *Gen, pat int) (k, u []byte, ok bool) {
	for try := 0; try < 200; try++ {
		r := make([]byte, 32)
		switch pat {
		case 0: // XOR of the four 64-bit words is zero
			copy(r, g.Bytes(24))
			r[23] &= 0x7f
			for i := 0; i < 8; i++ {
				r[24+i] = r[i] ^ r[8+i] ^ r[16+i]
			}
		case 1: // XOR of the eight 32-bit words is zero
			copy(r, g.Bytes(28))
			for i := 0; i < 4; i++ {
				for j := 0; j < 7; j++ {
					r[28+i] ^= r[4*j+i]
				}
			}
		case 2: // bytes sum to 0 mod 256
			copy(r, g.Bytes(31))
			var sm byte
			for _, b := range r[:31] {
				sm += b
			}
			r[31] = -sm
		case 3: // a single bit
			r[g.Intn(32)] = 1 << uint(g.Intn(8))
		case 4: // only the top 64-bit word non-zero
			copy(r[24:], g.Bytes(8))
		case 5: // only one byte non-zero, not the first
			r[1+g.Intn(31)] = byte(1 + g.Intn(255))
		case 6: // all four words equal
			copy(r, g.Bytes(8))
			for i := 8; i < 32; i++ {
				r[i] = r[i-8]
			}
		}
		if r[31]&0x80 != 0 {
			continue
		}
		rv := leInt(r)
		if rv.Sign() == 0 || rv.Cmp(refP) >= 0 || new(big.Int).Add(rv, bi1).Cmp(refP) == 0 {
			continue
		}
		y := fmul(fsub(rv, bi1), finv(fadd(rv, bi1)))
		P, dec := refDecode(leBytes(y, 32))
		if !dec || !refIsZero(refMul(refL, P)) || refIsZero(P) {
			continue
		}
		kb := g.Bytes(32)
		sc := refClamp(append(append([]byte{}, kb...), make([]byte, 32)...))
		t := new(big.Int).ModInverse(new(big.Int).Mod(sc, refL), refL)
		if t == nil {
			continue
		}
		Q := refMul(t, P)
		uq := fmul(fadd(bi1, Q.y), finv(fsub(bi1, Q.y)))
		return kb, leBytes(uq, 32), true
	}
	return nil, nil, false
}

func genX1(g *Gen) {
	low := x1Low12()
	lens := []int{0, 1, 16, 31, 32, 32, 32, 33, 63, 64}
	// every one of the 12 encodings (and its bit-255 variant where it fits) once, deterministically
	for _, x := range low {
		_, k := x1PickK(g)
		g.Emit("u.low12", "X1", "x.mult", hx(k), hx(x1b32(x)))
		g.Emit("chk.low12", "X1", "x.x25519", hx(k), hx(x1b32(x)))
		if x.Cmp(x1Two255) < 0 {
			g.Emit("u.low12.bit255", "X1", "x.mult", hx(k), hx(x1b32(x1Sum(x, x1Two255))))
			g.Emit("chk.low12.bit255", "X1", "x.x25519", hx(k), hx(x1b32(x1Sum(x, x1Two255))))
		}
	}
	for i := 0; i < 19; i++ {
		_, k := x1PickK(g)
		g.Emit("u.noncanon", "X1", "x.mult", hx(k), hx(x1b32(x1Add(refP, int64(i)))))
	}
	// look-alikes of the base point 9: the same bytes except ONE byte (every index), incl. the top byte — a routine that
	// recognises the base point by content must compare all 32 bytes (modulo the masked bit 255 only)
	for j := 0; j < 32; j++ {
		for _, d := range []byte{0x01, 0x40, 0x80, 0xff} {
			u := x1b32(big.NewInt(9))
			u[j] ^= d
			_, k := x1PickK(g)
			g.Emit("bp.lookalike", "X1", "x.x25519", hx(k), hx(u))
			if j == 31 || j%8 == 0 {
				g.Emit("bp.lookalike", "X1", "x.mult", hx(k), hx(u))
			}
		}
	}
	// shared secrets with STRUCTURE: (k, u) crafted (with the independent big-integer reference) so that X25519(k, u) is a
	// chosen non-zero string r whose words cancel in a wrong all-zero test (XOR of the four 64-bit or eight 32-bit words
	// is 0, bytes sum to 0 mod 256, a single bit, a single non-zero byte/word): the zero check must look at every bit
	for pat := 0; pat < 7; pat++ {
		if k, u, ok := x1CraftResult(g, pat); ok {
			cl := fmt.Sprintf("chk.result.pat%d", pat)
			g.Emit(cl, "X1", "x.x25519", hx(k), hx(u))
			g.Emit(cl, "X1", "x.mult", hx(k), hx(u))
			g.Emit(cl, "X1", "x.dhraw", hx(k), hx(u))
		}
	}
	for !g.Full() {
		u := x1PickU(g, low)
		kc, k := x1PickK(g)
		switch g.Intn(20) {
		case 0, 1, 2, 3, 4, 5:
			g.Emit(u.class, "X1", "x.mult", hx(k), hx(u.b))
			if g.Intn(4) == 0 {
				g.Emit("model."+u.class, "X1", "x.model", hx(k), hx(u.b))
			}
		case 6, 7:
			g.Emit(kc, "X1", "x.mult", hx(k), hx(u.b))
			g.Emit("model."+kc, "X1", "x.model", hx(k), hx(u.b))
			// the same pair WITHOUT clamping through curve.MontgomeryPoint.Mul (exercises the last swap on bits[0])
			g.Emit("mmul."+kc, "X1", "x.mmul", hx(k), hx(u.b))
			if g.Intn(3) == 0 {
				g.Emit("mmul.small", "X1", "x.mmul", hx(x1b32(big.NewInt(int64(g.Intn(20))))), hx(u.b))
			}
		case 8, 9:
			g.Emit("base."+kc, "X1", "x.base", hx(k))
			if g.Intn(2) == 0 {
				// the same scalar on u = 9 through the ladder (an equal copy of the base point)
				g.Emit("base.copy", "X1", "x.mult", hx(k), hx(x1b32(big.NewInt(9))))
			}
		case 10, 11:
			// checked entry point, correct lengths: error iff the output is all zero
			g.Emit("chk."+u.class, "X1", "x.x25519", hx(k), hx(u.b))
		case 12:
			// checked entry point, arbitrary lengths 0..64
			lk, lu := lens[g.Intn(len(lens))], lens[g.Intn(len(lens))]
			if g.Intn(3) == 0 {
				lk, lu = g.Intn(65), g.Intn(65)
			}
			kk, uu := g.Bytes(lk), g.Bytes(lu)
			if lu >= 32 && g.Intn(2) == 0 {
				copy(uu, u.b) // a low-order / special prefix with a wrong total length
			}
			if lk == 32 && lu == 32 {
				g.Emit("chk.len.3232", "X1", "x.x25519", hx(kk), hx(uu))
			} else {
				g.Emit("chk.len", "X1", "x.x25519", hx(kk), hx(uu))
			}
		case 13:
			// the package's Basepoint slice itself vs an equal copy
			if g.Intn(6) == 0 {
				kk := g.Bytes(lens[g.Intn(len(lens))])
				g.Emit("bp.len", "X1", "x.x25519bp", hx(kk))
				g.Emit("bp.len", "X1", "x.x25519", hx(kk), hx(x1b32(big.NewInt(9))))
			} else {
				g.Emit("bp.alias", "X1", "x.x25519bp", hx(k))
				g.Emit("bp.copy", "X1", "x.x25519", hx(k), hx(x1b32(big.NewInt(9))))
			}
		case 14:
			_, k2 := x1PickK(g)
			g.Emit("dh", "X1", "x.dh", hx(k), hx(k2))
		case 15:
			g.Emit("dhraw."+u.class, "X1", "x.dhraw", hx(k), hx(u.b))
		case 16:
			if g.Intn(2) == 0 {
				g.Emit("edpriv.random", "X1", "x.edpriv", hx(g.Bytes(64)))
			} else {
				seed := g.Bytes(32)
				if g.Intn(4) == 0 {
					seed = k
				}
				pub := refEncode(refMul(refClamp(leBytes(refH(seed), 64)), refB))
				g.Emit("edpriv.key", "X1", "x.edpriv", hx(append(append([]byte{}, seed...), pub...)))
			}
		case 17, 18:
			switch g.Intn(8) {
			case 0:
				g.Emit("edpub.small", "X1", "x.edpub", hx(g.Pick(refSmall)))
			case 1:
				g.Emit("edpub.noncanon", "X1", "x.edpub", hx(g.Pick(refNonCanon)))
			case 2:
				g.Emit("edpub.random", "X1", "x.edpub", hx(g.Bytes(32)))
			case 3:
				l := g.Intn(65)
				b := g.Bytes(l)
				if l != 32 {
					copy(b, refEncode(refB))
					g.Emit("edpub.len", "X1", "x.edpub", hx(b))
				} else {
					g.Emit("edpub.random", "X1", "x.edpub", hx(b))
				}
			case 4:
				// y in {0, 1, 2, p-1, p-2, ...} x sign
				ys := []*big.Int{big.NewInt(0), big.NewInt(1), big.NewInt(2), x1Add(refP, -1), x1Add(refP, -2), big.NewInt(int64(g.Intn(40)))}
				n := new(big.Int).Set(ys[g.Intn(len(ys))])
				if g.Bool() {
					n.SetBit(n, 255, 1)
				}
				g.Emit("edpub.specialy", "X1", "x.edpub", hx(x1b32(n)))
			case 5:
				// torsion-shifted valid key
				P := refAdd(refMul(leInt(g.Bytes(32)), refB), refTorsion[g.Intn(8)])
				g.Emit("edpub.torsion", "X1", "x.edpub", hx(refEncode(P)))
			default:
				P := refMul(leInt(g.Bytes(32)), refB)
				g.Emit("edpub.valid", "X1", "x.edpub", hx(refEncode(P)))
			}
		case 19:
			seed := g.Bytes(32)
			if g.Intn(4) == 0 {
				seed = k
			}
			g.Emit("edpair", "X1", "x.edpair", hx(seed))
		}
	}
}

func x1Arr(b []byte) *[32]byte {
	if len(b) != 32 {
		panic("harness: x25519 array argument must be 32 bytes")
	}
	var a [32]byte
	copy(a[:], b)
	return &a
}

func execX1(op string, a []string) string {
	switch op {
	case "x.mult", "x.model":
		var dst [32]byte
		x25519.ScalarMult(&dst, x1Arr(unhex(a[0])), x1Arr(unhex(a[1])))
		// in place: the destination is the scalar array / the point array itself
		k2, u2 := x1Arr(unhex(a[0])), x1Arr(unhex(a[1]))
		x25519.ScalarMult(k2, k2, x1Arr(unhex(a[1])))
		x25519.ScalarMult(u2, x1Arr(unhex(a[0])), u2)
		if *k2 != dst || *u2 != dst {
			return "alias-mismatch " + hx(dst[:]) + " " + hx(k2[:]) + " " + hx(u2[:])
		}
		return "ok " + hx(dst[:])
	case "x.mmul":
		sc, err := scalar.NewFromBits(unhex(a[0]))
		if err != nil {
			return "err"
		}
		var mp curve.MontgomeryPoint
		if _, err := mp.SetBytes(unhex(a[1])); err != nil {
			return "err"
		}
		var out curve.MontgomeryPoint
		out.Mul(&mp, sc)
		al := mp
		al.Mul(&al, sc)
		if al != out {
			return "alias-mismatch " + hx(out[:]) + " " + hx(al[:])
		}
		return "ok " + hx(out[:])
	case "x.base":
		var dst [32]byte
		x25519.ScalarBaseMult(&dst, x1Arr(unhex(a[0])))
		return "ok " + hx(dst[:])
	case "x.x25519":
		out, err := x25519.X25519(unhex(a[0]), unhex(a[1]))
		if err != nil {
			return "err"
		}
		return "ok " + hx(out)
	case "x.x25519bp":
		out, err := x25519.X25519(unhex(a[0]), x25519.Basepoint)
		if err != nil {
			return "err"
		}
		return "ok " + hx(out)
	case "x.dh":
		skA := x25519.PrivateKey(*x1Arr(unhex(a[0])))
		skB := x25519.PrivateKey(*x1Arr(unhex(a[1])))
		pubA, pubB := skA.Public(), skB.Public()
		ssAB := skA.DiffieHellman(pubB)
		ssBA := skB.DiffieHellman(pubA)
		return "ok " + hx(ssAB[:]) + " " + hx(ssBA[:])
	case "x.dhraw":
		sk := x25519.PrivateKey(*x1Arr(unhex(a[0])))
		pub := x25519.PublicKey(*x1Arr(unhex(a[1])))
		ss := sk.DiffieHellman(&pub)
		z := "00"
		if ss.IsZero() {
			z = "01"
		}
		return "ok " + hx(ss[:]) + " " + z
	case "x.edpriv":
		sk := unhex(a[0])
		if len(sk) != 64 {
			panic("harness: x.edpriv takes 64-byte keys only (shorter keys are a known finding)")
		}
		return "ok " + hx(x25519.EdPrivateKeyToX25519(ed25519.PrivateKey(sk)))
	case "x.edpub":
		out, ok := x25519.EdPublicKeyToX25519(ed25519.PublicKey(unhex(a[0])))
		if !ok {
			return "err"
		}
		return "ok " + hx(out)
	case "x.edpair":
		priv := ed25519.NewKeyFromSeed(unhex(a[0]))
		xsk := x25519.EdPrivateKeyToX25519(priv)
		xpk, ok := x25519.EdPublicKeyToX25519(priv.Public().(ed25519.PublicKey))
		if !ok {
			return "err"
		}
		xpk2, err := x25519.X25519(xsk, x25519.Basepoint)
		if err != nil {
			return "err"
		}
		return "ok " + hx(xsk) + " " + hx(xpk) + " " + hx(xpk2)
	}
	return "bad-op"
}

func init() {
	register(&Stream{Name: "X1", Gen: genX1, Exec: execX1})
}
