//go:build amd64 && !purego && !force32bit

package main

import "golang.org/x/sys/cpu"

// k0VectorExpected: is the AVX2 point-arithmetic backend expected to be active in this process?
// Derived from the build constraints of curve/edwards_vector_amd64.go and the CPU feature bits
// (which honour GODEBUG=cpu.avx2=off), NOT from the library's own supportsVectorizedEdwards.
func k0VectorExpected() bool { return cpu.Initialized && cpu.X86.HasAVX2 }
