package main

// Stream P1 (property C19): untrusted input never panics or leaves partial state.
//
// One op per exported byte-taking entry point of every non-internal package (the table p1Coverage below
// names every function that `go/tools/apilist` finds; `apilist -check s_panic.go` compares the two lists).
//
//	request:  P1 <api> <arg>*          byte strings as hex ("-" empty, "nil" nil slice), integers decimal
//	reply:    ok [<hex>*] | ok rcv=<hex> | bool 0|1 | err | err rcv=<hex> | panic doc | panic runtime
//
// Receiver state.  Every API with a receiver is called on a receiver that was PRE-SET to a non-neutral
// value (p1EdB, p1RistB, p1Mont9, p1Sc0, … below), and the reply carries the receiver's serialisation
// after the call (`rcv=`), so that "a failed decode leaves the identity / zero / nil key behind" (or, for
// the Set* family, "leaves the destination untouched") is observed and compared with the Lean model.
//
// Panics.  An explicit panic is `panic doc`, a Go runtime error `panic runtime` (as in main.go), with ONE
// refinement: the library documents "will panic if opts is nil" for the *WithOptions entry points and
// realises it as a nil-pointer dereference; for exactly those calls (options argument nil, runtime error
// is a nil dereference) the reply is `panic doc`.
//
// `panic runtime` is expected only in the two known classes known.d4 (x25519.EdPrivateKeyToX25519) and
// known.d5 (ed25519.PrivateKey.Public/Seed) on private keys shorter than 32 bytes.

import (
	"bytes"
	"crypto"
	"math/big"
	"runtime"
	"strconv"
	"strings"

	"golang.org/x/crypto/sha3"

	"github.com/oasisprotocol/curve25519-voi/curve"
	"github.com/oasisprotocol/curve25519-voi/curve/scalar"
	"github.com/oasisprotocol/curve25519-voi/primitives/ed25519"
	"github.com/oasisprotocol/curve25519-voi/primitives/ed25519/extra/cache"
	"github.com/oasisprotocol/curve25519-voi/primitives/ed25519/extra/ecvrf"
	"github.com/oasisprotocol/curve25519-voi/primitives/h2c"
	"github.com/oasisprotocol/curve25519-voi/primitives/merlin"
	"github.com/oasisprotocol/curve25519-voi/primitives/sr25519"
	"github.com/oasisprotocol/curve25519-voi/primitives/x25519"
)

// p1Coverage: exported function (as printed by go/tools/apilist) -> P1 ops that call it, or "skip: reason".
var p1Coverage = map[string]string{
	"curve.CompressedEdwardsY.Equal":              "skip: fixed-size array receiver/argument, no failure mode (stream D1)",
	"curve.CompressedEdwardsY.Identity":           "skip: no input",
	"curve.CompressedEdwardsY.IsCanonicalVartime": "skip: fixed-size array receiver, total predicate (stream D1 `canon`)",
	"curve.CompressedEdwardsY.MarshalBinary":      "used to observe receivers (cey.*)",
	"curve.CompressedEdwardsY.SetBytes":           "cey.setbytes",
	"curve.CompressedEdwardsY.SetEdwardsPoint":    "skip: no byte input (used to observe receivers)",
	"curve.CompressedEdwardsY.UnmarshalBinary":    "cey.unmarshal",
	"curve.CompressedRistretto.Equal":             "skip: fixed-size array receiver/argument, no failure mode",
	"curve.CompressedRistretto.Identity":          "skip: no input",
	"curve.CompressedRistretto.MarshalBinary":     "used to observe receivers (cr.*)",
	"curve.CompressedRistretto.SetBytes":          "cr.setbytes",
	"curve.CompressedRistretto.SetRistrettoPoint": "skip: no byte input (used to observe receivers)",
	"curve.CompressedRistretto.UnmarshalBinary":   "cr.unmarshal",
	"curve.EdwardsPoint.SetCompressedY":           "ep.setcompressed",
	"curve.EdwardsPoint.SetMontgomery":            "ep.setmontgomery",
	"curve.EdwardsPoint.UnmarshalBinary":          "ep.unmarshal",
	"curve.MontgomeryPoint.Equal":                 "skip: fixed-size array receiver/argument, no failure mode",
	"curve.MontgomeryPoint.Mul":                   "mp.mul",
	"curve.MontgomeryPoint.SetBytes":              "mp.setbytes",
	"curve.MontgomeryPoint.SetEdwards":            "skip: no byte input",
	"curve.NewCompressedEdwardsYFromBytes":        "cey.new",
	"curve.RistrettoPoint.SetCompressed":          "rp.setcompressed",
	"curve.RistrettoPoint.SetUniformBytes":        "rp.setuniform",
	"curve.RistrettoPoint.UnmarshalBinary":        "rp.unmarshal",

	"curve/scalar.NewFromBits":                 "sc.newbits",
	"curve/scalar.NewFromBytesModOrder":        "sc.newmodorder",
	"curve/scalar.NewFromBytesModOrderWide":    "sc.newwide",
	"curve/scalar.NewFromCanonicalBytes":       "sc.newcanonical",
	"curve/scalar.ScMinimalVartime":            "sc.minimal",
	"curve/scalar.Scalar.SetBits":              "sc.setbits",
	"curve/scalar.Scalar.SetBytesModOrder":     "sc.setmodorder",
	"curve/scalar.Scalar.SetBytesModOrderWide": "sc.setwide",
	"curve/scalar.Scalar.SetCanonicalBytes":    "sc.setcanonical",
	"curve/scalar.Scalar.ToBytes":              "sc.tobytes",
	"curve/scalar.Scalar.UnmarshalBinary":      "sc.unmarshal",

	"primitives/ed25519.BatchVerifier.Add":                    "ed.batch.add",
	"primitives/ed25519.BatchVerifier.AddExpanded":            "ed.batch.addx",
	"primitives/ed25519.BatchVerifier.AddExpandedWithOptions": "ed.batch.addxopts",
	"primitives/ed25519.BatchVerifier.AddWithOptions":         "ed.batch.addopts",
	"primitives/ed25519.NewExpandedPublicKey":                 "ed.newexpanded",
	"primitives/ed25519.NewKeyFromSeed":                       "ed.newkey",
	"primitives/ed25519.PrivateKey.Equal":                     "ed.skequal",
	"primitives/ed25519.PrivateKey.Public":                    "known.d5.public",
	"primitives/ed25519.PrivateKey.Seed":                      "known.d5.seed",
	"primitives/ed25519.PrivateKey.Sign":                      "ed.pksign",
	"primitives/ed25519.PublicKey.Equal":                      "ed.pkequal",
	"primitives/ed25519.Sign":                                 "ed.sign",
	"primitives/ed25519.Verify":                               "ed.verify",
	"primitives/ed25519.VerifyExpanded":                       "ed.verifyx",
	"primitives/ed25519.VerifyExpandedWithOptions":            "ed.verifyxopts",
	"primitives/ed25519.VerifyWithOptions":                    "ed.verifyopts",

	"primitives/ed25519/extra/cache.Cache.Get":                  "cache.addpk (observation of the cache content); fixed-size array key",
	"primitives/ed25519/extra/cache.Cache.Put":                  "skip: fixed-size array key, interface method (streams C1/C2)",
	"primitives/ed25519/extra/cache.Verifier.Add":               "cache.add",
	"primitives/ed25519/extra/cache.Verifier.AddPublicKey":      "cache.addpk",
	"primitives/ed25519/extra/cache.Verifier.AddWithOptions":    "cache.addopts",
	"primitives/ed25519/extra/cache.Verifier.Verify":            "cache.verify",
	"primitives/ed25519/extra/cache.Verifier.VerifyWithOptions": "cache.verifyopts",

	"primitives/ed25519/extra/ecvrf.ProofToHash":                  "vrf.hash",
	"primitives/ed25519/extra/ecvrf.Prove":                        "vrf.prove cur",
	"primitives/ed25519/extra/ecvrf.ProveWithAddedRandomness":     "vrf.provernd cur",
	"primitives/ed25519/extra/ecvrf.ProveWithAddedRandomness_v10": "vrf.provernd v10",
	"primitives/ed25519/extra/ecvrf.Prove_v10":                    "vrf.prove v10",
	"primitives/ed25519/extra/ecvrf.Verify":                       "vrf.verify cur",
	"primitives/ed25519/extra/ecvrf.Verify_v10":                   "vrf.verify v10",

	"primitives/h2c.Edwards25519_XMD_ELL2_NU":        "h2c.suite xmdnu",
	"primitives/h2c.Edwards25519_XMD_ELL2_RO":        "h2c.suite xmdro",
	"primitives/h2c.Edwards25519_XMD_SHA512_ELL2_NU": "h2c.suite nu512",
	"primitives/h2c.Edwards25519_XMD_SHA512_ELL2_RO": "h2c.suite ro512",
	"primitives/h2c.Edwards25519_XOF_ELL2_NU":        "h2c.suite xofnu",
	"primitives/h2c.Edwards25519_XOF_ELL2_RO":        "h2c.suite xofro",
	"primitives/h2c.ExpandMessageXMD":                "h2c.xmd",
	"primitives/h2c.ExpandMessageXOF":                "h2c.xof",
	"primitives/h2c.Ristretto255_XMD_R255MAP_RO":     "h2c.suite ristxmd",
	"primitives/h2c.Ristretto255_XOF_R255MAP_RO":     "h2c.suite ristxof",

	"primitives/merlin.NewTranscript":                              "m.seq, m.rng",
	"primitives/merlin.Transcript.AppendMessage":                   "m.seq",
	"primitives/merlin.Transcript.ExtractBytes":                    "m.seq",
	"primitives/merlin.TranscriptRngBuilder.RekeyWithWitnessBytes": "m.rng",

	"primitives/sr25519.KeyPair.UnmarshalBinary":           "sr.kp.unmarshal",
	"primitives/sr25519.MiniSecretKey.Equal":               "skip: fixed-size array receiver/argument, no failure mode",
	"primitives/sr25519.MiniSecretKey.ExpandEd25519":       "skip: fixed-size array receiver, the caller's own secret (stream Q1)",
	"primitives/sr25519.MiniSecretKey.ExpandUniform":       "skip: fixed-size array receiver, the caller's own secret (stream Q1)",
	"primitives/sr25519.MiniSecretKey.MarshalBinary":       "used to observe receivers (sr.msk.*)",
	"primitives/sr25519.MiniSecretKey.UnmarshalBinary":     "sr.msk.unmarshal",
	"primitives/sr25519.NewKeyPairFromBytes":               "sr.kp.new",
	"primitives/sr25519.NewMiniSecretKeyFromBytes":         "sr.msk.new",
	"primitives/sr25519.NewPublicKeyFromBytes":             "sr.pk.new",
	"primitives/sr25519.NewSecretKeyFromBytes":             "sr.sk.new",
	"primitives/sr25519.NewSecretKeyFromEd25519Bytes":      "sr.sked.new",
	"primitives/sr25519.NewSignatureFromBytes":             "sr.sig.new",
	"primitives/sr25519.NewSigningContext":                 "sr.verify",
	"primitives/sr25519.PublicKey.UnmarshalBinary":         "sr.pk.unmarshal",
	"primitives/sr25519.SecretKey.UnmarshalBinary":         "sr.sk.unmarshal",
	"primitives/sr25519.Signature.UnmarshalBinary":         "sr.sig.unmarshal",
	"primitives/sr25519.SigningContext.NewTranscriptBytes": "sr.verify",

	"primitives/x25519.EdPrivateKeyToX25519":     "known.d4.edpriv",
	"primitives/x25519.EdPublicKeyToX25519":      "x.edpub",
	"primitives/x25519.PrivateKey.DiffieHellman": "x.dh",
	"primitives/x25519.PrivateKey.Public":        "x.public",
	"primitives/x25519.ScalarBaseMult":           "x.scalarbasemult",
	"primitives/x25519.ScalarMult":               "x.scalarmult",
	"primitives/x25519.SharedSecret.IsZero":      "x.dh",
	"primitives/x25519.X25519":                   "x.x25519, x.x25519bp",
}

// Additional documented-panic entry points that take no bytes (listed in the assignment):
//   msm.ed / msm.edvt / msm.edx / msm.r / msm.rvt / msm.rx   mismatched slice lengths
//   sc.naf / sc.radix2w / sc.radixhint                        invalid width

// ---- pre-set receiver values (the Lean handler Voi/Drv/Panic.lean has the same constants)
var (
	p1EdB   = unhex("5866666666666666666666666666666666666666666666666666666666666666")
	p1RistB = unhex("e2f2ae0a6abc4e71a884a961c500515f58e30b6aa582dd8db6a65945e08d2d76")
	p1Mont9 = unhex("0900000000000000000000000000000000000000000000000000000000000000")
	// 01 02 … 1f 0f : a canonical scalar
	p1Sc0 = func() []byte {
		b := make([]byte, 32)
		for i := range b {
			b[i] = byte(i + 1)
		}
		b[31] = 0x0f
		return b
	}()
	p1Nonce = bytes.Repeat([]byte{0xaa}, 32)
	p1Msk   = bytes.Repeat([]byte{0x55}, 32)
)

func p1Ed(b []byte) *curve.EdwardsPoint {
	var p curve.EdwardsPoint
	if err := p.UnmarshalBinary(b); err != nil {
		panic("harness: p1Ed")
	}
	return &p
}
func p1EdHex(p *curve.EdwardsPoint) string {
	b, err := p.MarshalBinary()
	if err != nil {
		return "bad-marshal"
	}
	return hx(b)
}
func p1Rist(b []byte) *curve.RistrettoPoint {
	var p curve.RistrettoPoint
	if err := p.UnmarshalBinary(b); err != nil {
		panic("harness: p1Rist")
	}
	return &p
}
func p1RistHex(p *curve.RistrettoPoint) string {
	b, err := p.MarshalBinary()
	if err != nil {
		return "bad-marshal"
	}
	return hx(b)
}
func p1Sc(b []byte) *scalar.Scalar {
	s, err := scalar.NewFromBits(b)
	if err != nil {
		panic("harness: p1Sc")
	}
	return s
}
func p1ScHex(s *scalar.Scalar) string {
	b, err := s.MarshalBinary()
	if err != nil {
		return "bad-marshal"
	}
	return hx(b)
}

// p1Res renders the outcome of a receiver method `(ptr, err)`: on an error the returned pointer must be
// nil, on success it must be the receiver.
func p1Res(err error, retNil, retIsRecv bool, rcv string) string {
	if err != nil {
		if !retNil {
			return "err rcv=" + rcv + " non-nil-return"
		}
		return "err rcv=" + rcv
	}
	if !retIsRecv {
		return "ok rcv=" + rcv + " return-not-receiver"
	}
	return "ok rcv=" + rcv
}

func p1Marshal(m interface{ MarshalBinary() ([]byte, error) }) string {
	b, err := m.MarshalBinary()
	if err != nil {
		return "bad-marshal"
	}
	return hx(b)
}

// options argument: "nilopts" = nil *Options, otherwise mkOpts(flags, hash, ctx)
func p1Opts(flags, hash, ctx string) *ed25519.Options {
	if flags == "nilopts" {
		return nil
	}
	return mkOpts(flags, hash, ctx)
}

// p1Guard maps panics to replies; nilOpts = the call was made with a nil options argument on an API that
// documents "will panic if opts is nil".
func p1Guard(nilOpts bool, f func() string) (reply string) {
	defer func() {
		if e := recover(); e != nil {
			if re, ok := e.(runtime.Error); ok {
				if nilOpts && strings.Contains(re.Error(), "nil pointer dereference") {
					reply = "panic doc"
				} else {
					reply = "panic runtime"
				}
			} else {
				reply = "panic doc"
			}
		}
	}()
	return f()
}

func p1BatchResult(v *ed25519.BatchVerifier) string {
	all, valid := v.Verify(&Rng{s: 0x5eed})
	if len(valid) != 1 || valid[0] != all {
		s := "bools " + strconv.Itoa(btoi(all))
		for _, x := range valid {
			s += " " + strconv.Itoa(btoi(x))
		}
		return s
	}
	return b2s(all)
}
func btoi(b bool) int {
	if b {
		return 1
	}
	return 0
}

var p1XmdHashes = map[string]crypto.Hash{"224": crypto.SHA224, "256": crypto.SHA256, "384": crypto.SHA384, "512": crypto.SHA512}

func p1Xof(s string) sha3.ShakeHash {
	if s == "x256" {
		return sha3.NewShake256()
	}
	return sha3.NewShake128()
}

func p1SmallSc(n int) *scalar.Scalar { return scalar.NewFromUint64(uint64(n)) }

// msm operands: scalars[i] = i+1, points[i] = (i+2)·B
func p1MsmEd(ns, np int) ([]*scalar.Scalar, []*curve.EdwardsPoint) {
	var ss []*scalar.Scalar
	var ps []*curve.EdwardsPoint
	for i := 0; i < ns; i++ {
		ss = append(ss, p1SmallSc(i+1))
	}
	for i := 0; i < np; i++ {
		ps = append(ps, curve.NewEdwardsPoint().MulBasepoint(curve.ED25519_BASEPOINT_TABLE, p1SmallSc(i+2)))
	}
	return ss, ps
}
func p1MsmRist(ns, np int) ([]*scalar.Scalar, []*curve.RistrettoPoint) {
	var ss []*scalar.Scalar
	var ps []*curve.RistrettoPoint
	for i := 0; i < ns; i++ {
		ss = append(ss, p1SmallSc(i+1))
	}
	for i := 0; i < np; i++ {
		ps = append(ps, curve.NewRistrettoPoint().MulBasepoint(curve.RISTRETTO_BASEPOINT_TABLE, p1SmallSc(i+2)))
	}
	return ss, ps
}

func p1Atoi(s string) int {
	n, err := strconv.Atoi(s)
	if err != nil {
		panic("harness: bad integer " + s)
	}
	return n
}

func p1Fill(n int, pat string) []byte {
	// destination buffers: the library must overwrite (or leave alone) every byte
	b := make([]byte, n)
	for i := range b {
		b[i] = 0xa5
	}
	_ = pat
	return b
}

func execP1(op string, a []string) string {
	nilOpts := len(a) > 0 && a[0] == "nilopts"
	return p1Guard(nilOpts, func() string { return execP1Inner(op, a) })
}

func execP1Inner(op string, a []string) string {
	switch op {
	// ------------------------------------------------------------------ curve
	case "cey.setbytes":
		var c curve.CompressedEdwardsY
		copy(c[:], p1EdB)
		r, err := c.SetBytes(unhex(a[0]))
		return p1Res(err, r == nil, r == &c, hx(c[:]))
	case "cey.unmarshal":
		var c curve.CompressedEdwardsY
		copy(c[:], p1EdB)
		err := c.UnmarshalBinary(unhex(a[0]))
		return p1Res(err, true, true, p1Marshal(&c))
	case "cey.new":
		c, err := curve.NewCompressedEdwardsYFromBytes(unhex(a[0]))
		if err != nil {
			if c != nil {
				return "err non-nil-return"
			}
			return "err"
		}
		return "ok " + hx(c[:])
	case "ep.unmarshal":
		p := p1Ed(p1EdB)
		err := p.UnmarshalBinary(unhex(a[0]))
		return p1Res(err, true, true, p1EdHex(p))
	case "ep.setcompressed":
		p := p1Ed(p1EdB)
		c := curve.CompressedEdwardsY(*x1Arr(unhex(a[0])))
		r, err := p.SetCompressedY(&c)
		return p1Res(err, r == nil, r == p, p1EdHex(p))
	case "ep.setmontgomery":
		p := p1Ed(p1EdB)
		m := curve.MontgomeryPoint(*x1Arr(unhex(a[0])))
		r, err := p.SetMontgomery(&m, uint8(p1Atoi(a[1])))
		return p1Res(err, r == nil, r == p, p1EdHex(p))
	case "cr.setbytes":
		var c curve.CompressedRistretto
		copy(c[:], p1RistB)
		r, err := c.SetBytes(unhex(a[0]))
		return p1Res(err, r == nil, r == &c, hx(c[:]))
	case "cr.unmarshal":
		var c curve.CompressedRistretto
		copy(c[:], p1RistB)
		err := c.UnmarshalBinary(unhex(a[0]))
		return p1Res(err, true, true, p1Marshal(&c))
	case "rp.unmarshal":
		p := p1Rist(p1RistB)
		err := p.UnmarshalBinary(unhex(a[0]))
		return p1Res(err, true, true, p1RistHex(p))
	case "rp.setcompressed":
		p := p1Rist(p1RistB)
		c := curve.CompressedRistretto(*x1Arr(unhex(a[0])))
		r, err := p.SetCompressed(&c)
		return p1Res(err, r == nil, r == p, p1RistHex(p))
	case "rp.setuniform":
		p := p1Rist(p1RistB)
		r, err := p.SetUniformBytes(unhex(a[0]))
		return p1Res(err, r == nil, r == p, p1RistHex(p))
	case "mp.setbytes":
		var m curve.MontgomeryPoint
		copy(m[:], p1Mont9)
		r, err := m.SetBytes(unhex(a[0]))
		return p1Res(err, r == nil, r == &m, hx(m[:]))
	case "mp.mul":
		pt := curve.MontgomeryPoint(*x1Arr(unhex(a[0])))
		var out curve.MontgomeryPoint
		copy(out[:], p1Mont9)
		out.Mul(&pt, p1Sc(unhex(a[1])))
		return "ok " + hx(out[:])

	// ------------------------------------------------------------------ curve/scalar
	case "sc.setmodorder", "sc.setwide", "sc.setcanonical", "sc.setbits":
		s := p1Sc(p1Sc0)
		var r *scalar.Scalar
		var err error
		switch op {
		case "sc.setmodorder":
			r, err = s.SetBytesModOrder(unhex(a[0]))
		case "sc.setwide":
			r, err = s.SetBytesModOrderWide(unhex(a[0]))
		case "sc.setcanonical":
			r, err = s.SetCanonicalBytes(unhex(a[0]))
		case "sc.setbits":
			r, err = s.SetBits(unhex(a[0]))
		}
		return p1Res(err, r == nil, r == s, p1ScHex(s))
	case "sc.unmarshal":
		s := p1Sc(p1Sc0)
		err := s.UnmarshalBinary(unhex(a[0]))
		return p1Res(err, true, true, p1ScHex(s))
	case "sc.newmodorder", "sc.newwide", "sc.newcanonical", "sc.newbits":
		var r *scalar.Scalar
		var err error
		switch op {
		case "sc.newmodorder":
			r, err = scalar.NewFromBytesModOrder(unhex(a[0]))
		case "sc.newwide":
			r, err = scalar.NewFromBytesModOrderWide(unhex(a[0]))
		case "sc.newcanonical":
			r, err = scalar.NewFromCanonicalBytes(unhex(a[0]))
		case "sc.newbits":
			r, err = scalar.NewFromBits(unhex(a[0]))
		}
		if err != nil {
			if r != nil {
				return "err non-nil-return"
			}
			return "err"
		}
		return "ok " + p1ScHex(r)
	case "sc.minimal":
		return b2s(scalar.ScMinimalVartime(unhex(a[0])))
	case "sc.tobytes":
		// a[0] = the destination buffer as the caller hands it over
		out := unhex(a[0])
		arenaAllowWrites() // the argument IS the output buffer
		err := p1Sc(p1Sc0).ToBytes(out)
		if err != nil {
			return "err rcv=" + hx(out)
		}
		return "ok rcv=" + hx(out)
	case "sc.naf":
		_ = p1Sc(p1Sc0).NonAdjacentForm(uint(p1Atoi(a[0])))
		return "ok"
	case "sc.radix2w":
		_ = p1Sc(p1Sc0).ToRadix2w(uint(p1Atoi(a[0])))
		return "ok"
	case "sc.radixhint":
		return "ok " + hx([]byte{byte(scalar.ToRadix2wSizeHint(uint(p1Atoi(a[0]))))})

	// ------------------------------------------------------------------ multiscalar multiplication
	case "msm.ed", "msm.edvt":
		ss, ps := p1MsmEd(p1Atoi(a[0]), p1Atoi(a[1]))
		p := p1Ed(p1EdB)
		if op == "msm.ed" {
			p.MultiscalarMul(ss, ps)
		} else {
			p.MultiscalarMulVartime(ss, ps)
		}
		return "ok " + p1EdHex(p)
	case "msm.edx":
		ss, ps := p1MsmEd(p1Atoi(a[0]), p1Atoi(a[1]))
		ds, dp := p1MsmEd(p1Atoi(a[2]), p1Atoi(a[3]))
		var xs []*curve.ExpandedEdwardsPoint
		for _, q := range ps {
			xs = append(xs, curve.NewExpandedEdwardsPoint(q))
		}
		p := p1Ed(p1EdB)
		p.ExpandedMultiscalarMulVartime(ss, xs, ds, dp)
		return "ok " + p1EdHex(p)
	case "msm.r", "msm.rvt":
		ss, ps := p1MsmRist(p1Atoi(a[0]), p1Atoi(a[1]))
		p := p1Rist(p1RistB)
		if op == "msm.r" {
			p.MultiscalarMul(ss, ps)
		} else {
			p.MultiscalarMulVartime(ss, ps)
		}
		return "ok " + p1RistHex(p)
	case "msm.rx":
		ss, ps := p1MsmRist(p1Atoi(a[0]), p1Atoi(a[1]))
		ds, dp := p1MsmRist(p1Atoi(a[2]), p1Atoi(a[3]))
		var xs []*curve.ExpandedRistrettoPoint
		for _, q := range ps {
			xs = append(xs, curve.NewExpandedRistrettoPoint(q))
		}
		p := p1Rist(p1RistB)
		p.ExpandedMultiscalarMulVartime(ss, xs, ds, dp)
		return "ok " + p1RistHex(p)

	// ------------------------------------------------------------------ primitives/ed25519
	case "ed.verify":
		return b2s(ed25519.Verify(unhex(a[0]), unhex(a[1]), unhex(a[2])))
	case "ed.verifyopts":
		return b2s(ed25519.VerifyWithOptions(unhex(a[3]), unhex(a[4]), unhex(a[5]), p1Opts(a[0], a[1], a[2])))
	case "ed.newexpanded":
		xp, err := ed25519.NewExpandedPublicKey(unhex(a[0]))
		if err != nil {
			if xp != nil {
				return "err non-nil-return"
			}
			return "err"
		}
		c := xp.CompressedY()
		return "ok " + hx(c[:])
	case "ed.verifyx":
		xp, err := ed25519.NewExpandedPublicKey(unhex(a[0]))
		if err != nil {
			return "err"
		}
		return b2s(ed25519.VerifyExpanded(xp, unhex(a[1]), unhex(a[2])))
	case "ed.verifyxopts":
		xp, err := ed25519.NewExpandedPublicKey(unhex(a[3]))
		if err != nil {
			return "err"
		}
		return b2s(ed25519.VerifyExpandedWithOptions(xp, unhex(a[4]), unhex(a[5]), p1Opts(a[0], a[1], a[2])))
	case "ed.batch.add":
		v := ed25519.NewBatchVerifier()
		v.Add(unhex(a[0]), unhex(a[1]), unhex(a[2]))
		return p1BatchResult(v)
	case "ed.batch.addopts":
		v := ed25519.NewBatchVerifier()
		v.AddWithOptions(unhex(a[3]), unhex(a[4]), unhex(a[5]), p1Opts(a[0], a[1], a[2]))
		return p1BatchResult(v)
	case "ed.batch.addx":
		// a key that does not expand is handed over as the nil *ExpandedPublicKey that NewExpandedPublicKey returned
		xp, _ := ed25519.NewExpandedPublicKey(unhex(a[0]))
		v := ed25519.NewBatchVerifier()
		v.AddExpanded(xp, unhex(a[1]), unhex(a[2]))
		return p1BatchResult(v)
	case "ed.batch.addxopts":
		xp, _ := ed25519.NewExpandedPublicKey(unhex(a[3]))
		v := ed25519.NewBatchVerifier()
		v.AddExpandedWithOptions(xp, unhex(a[4]), unhex(a[5]), p1Opts(a[0], a[1], a[2]))
		return p1BatchResult(v)
	case "ed.newkey":
		return "ok " + hx(ed25519.NewKeyFromSeed(unhex(a[0])))
	case "ed.sign":
		return "ok " + hx(ed25519.Sign(unhex(a[0]), unhex(a[1])))
	case "ed.pksign":
		// a[0]: nilopts (nil crypto.SignerOpts) | h0 | h512 | h256 (a crypto.Hash as SignerOpts) | flags of *Options
		var so crypto.SignerOpts
		switch a[0] {
		case "nilopts":
		case "h0":
			so = crypto.Hash(0)
		case "h512":
			so = crypto.SHA512
		case "h256":
			so = crypto.SHA256
		default:
			so = mkOpts(a[0], a[1], a[2])
		}
		sig, err := ed25519.PrivateKey(unhex(a[3])).Sign(nil, unhex(a[4]), so)
		if err != nil {
			if sig != nil {
				return "err non-nil-return"
			}
			return "err"
		}
		return "ok " + hx(sig)
	case "ed.pkequal":
		return b2s(ed25519.PublicKey(unhex(a[0])).Equal(ed25519.PublicKey(unhex(a[1]))))
	case "ed.skequal":
		return b2s(ed25519.PrivateKey(unhex(a[0])).Equal(ed25519.PrivateKey(unhex(a[1]))))
	case "known.d5.public":
		return "ok " + hx(ed25519.PrivateKey(unhex(a[0])).Public().(ed25519.PublicKey))
	case "known.d5.seed":
		return "ok " + hx(ed25519.PrivateKey(unhex(a[0])).Seed())

	// ------------------------------------------------------------------ extra/cache
	case "cache.verify":
		v := cache.NewVerifier(cache.NewLRUCache(2))
		return b2s(v.Verify(unhex(a[0]), unhex(a[1]), unhex(a[2])))
	case "cache.verifyopts":
		v := cache.NewVerifier(cache.NewLRUCache(2))
		return b2s(v.VerifyWithOptions(unhex(a[3]), unhex(a[4]), unhex(a[5]), p1Opts(a[0], a[1], a[2])))
	case "cache.add":
		v := cache.NewVerifier(cache.NewLRUCache(2))
		bv := ed25519.NewBatchVerifier()
		v.Add(bv, unhex(a[0]), unhex(a[1]), unhex(a[2]))
		return p1BatchResult(bv)
	case "cache.addopts":
		v := cache.NewVerifier(cache.NewLRUCache(2))
		bv := ed25519.NewBatchVerifier()
		v.AddWithOptions(bv, unhex(a[3]), unhex(a[4]), unhex(a[5]), p1Opts(a[0], a[1], a[2]))
		return p1BatchResult(bv)
	case "cache.addpk":
		c := cache.NewLRUCache(2)
		v := cache.NewVerifier(c)
		pk := unhex(a[0])
		v.AddPublicKey(pk)
		cached := 0
		if len(pk) == 32 {
			var k curve.CompressedEdwardsY
			copy(k[:], pk)
			if c.Get(&k) != nil {
				cached = 1
			}
		}
		return "ok " + hx([]byte{byte(cached)})

	// ------------------------------------------------------------------ extra/ecvrf
	case "vrf.prove":
		sk, alpha := ed25519.PrivateKey(unhex(a[1])), unhex(a[2])
		if a[0] == "v10" {
			return "ok " + hx(ecvrf.Prove_v10(sk, alpha))
		}
		return "ok " + hx(ecvrf.Prove(sk, alpha))
	case "vrf.provernd":
		sk, alpha := ed25519.PrivateKey(unhex(a[1])), unhex(a[2])
		rd := bytes.NewReader(unhex(a[3]))
		var pi []byte
		var err error
		if a[0] == "v10" {
			pi, err = ecvrf.ProveWithAddedRandomness_v10(rd, sk, alpha)
		} else {
			pi, err = ecvrf.ProveWithAddedRandomness(rd, sk, alpha)
		}
		if err != nil {
			if pi != nil {
				return "err non-nil-return"
			}
			return "err"
		}
		return "ok " + hx(pi)
	case "vrf.verify":
		pk, pi, alpha := ed25519.PublicKey(unhex(a[1])), unhex(a[2]), unhex(a[3])
		var ok bool
		var beta []byte
		if a[0] == "v10" {
			ok, beta = ecvrf.Verify_v10(pk, pi, alpha)
		} else {
			ok, beta = ecvrf.Verify(pk, pi, alpha)
		}
		if !ok {
			if beta != nil {
				return "bool 0 non-nil-return"
			}
			return "bool 0"
		}
		return "ok " + hx(beta)
	case "vrf.hash":
		beta, err := ecvrf.ProofToHash(unhex(a[0]))
		if err != nil {
			if beta != nil {
				return "err non-nil-return"
			}
			return "err"
		}
		return "ok " + hx(beta)

	// ------------------------------------------------------------------ primitives/sr25519
	case "sr.sig.unmarshal":
		var s sr25519.Signature
		pre := append(append([]byte{}, p1RistB...), p1Sc0...)
		pre[63] |= 0x80
		if err := s.UnmarshalBinary(pre); err != nil {
			panic("harness: sr.sig preset")
		}
		err := s.UnmarshalBinary(unhex(a[0]))
		return p1Res(err, true, true, p1Marshal(&s))
	case "sr.pk.unmarshal":
		var k sr25519.PublicKey
		if err := k.UnmarshalBinary(p1RistB); err != nil {
			panic("harness: sr.pk preset")
		}
		err := k.UnmarshalBinary(unhex(a[0]))
		return p1Res(err, true, true, p1Marshal(&k))
	case "sr.sk.unmarshal":
		var k sr25519.SecretKey
		if err := k.UnmarshalBinary(append(append([]byte{}, p1Sc0...), p1Nonce...)); err != nil {
			panic("harness: sr.sk preset")
		}
		err := k.UnmarshalBinary(unhex(a[0]))
		return p1Res(err, true, true, p1Marshal(&k))
	case "sr.kp.unmarshal":
		var sk sr25519.SecretKey
		if err := sk.UnmarshalBinary(append(append([]byte{}, p1Sc0...), p1Nonce...)); err != nil {
			panic("harness: sr.kp preset")
		}
		kp := sk.KeyPair()
		err := kp.UnmarshalBinary(unhex(a[0]))
		return p1Res(err, true, true, p1Marshal(kp))
	case "sr.msk.unmarshal":
		var k sr25519.MiniSecretKey
		copy(k[:], p1Msk)
		err := k.UnmarshalBinary(unhex(a[0]))
		return p1Res(err, true, true, p1Marshal(&k))
	case "sr.sig.new", "sr.pk.new", "sr.sk.new", "sr.sked.new", "sr.kp.new", "sr.msk.new":
		var m interface{ MarshalBinary() ([]byte, error) }
		var err error
		isNil := false
		b := unhex(a[0])
		switch op {
		case "sr.sig.new":
			r, e := sr25519.NewSignatureFromBytes(b)
			m, err, isNil = r, e, r == nil
		case "sr.pk.new":
			r, e := sr25519.NewPublicKeyFromBytes(b)
			m, err, isNil = r, e, r == nil
		case "sr.sk.new":
			r, e := sr25519.NewSecretKeyFromBytes(b)
			m, err, isNil = r, e, r == nil
		case "sr.sked.new":
			r, e := sr25519.NewSecretKeyFromEd25519Bytes(b)
			m, err, isNil = r, e, r == nil
		case "sr.kp.new":
			r, e := sr25519.NewKeyPairFromBytes(b)
			m, err, isNil = r, e, r == nil
		case "sr.msk.new":
			r, e := sr25519.NewMiniSecretKeyFromBytes(b)
			m, err, isNil = r, e, r == nil
		}
		if err != nil {
			if !isNil {
				return "err non-nil-return"
			}
			return "err"
		}
		return "ok " + p1Marshal(m)
	case "sr.verify":
		// ctx msg pk sig: a caller that ignores the decode errors and verifies with whatever the receivers hold
		var pk sr25519.PublicKey
		var sig sr25519.Signature
		_ = pk.UnmarshalBinary(unhex(a[2]))
		_ = sig.UnmarshalBinary(unhex(a[3]))
		t := sr25519.NewSigningContext(unhex(a[0])).NewTranscriptBytes(unhex(a[1]))
		return b2s(pk.Verify(t, &sig))

	// ------------------------------------------------------------------ primitives/x25519
	case "x.x25519":
		out, err := x25519.X25519(unhex(a[0]), unhex(a[1]))
		if err != nil {
			if out != nil {
				return "err non-nil-return"
			}
			return "err"
		}
		return "ok " + hx(out)
	case "x.x25519bp":
		out, err := x25519.X25519(unhex(a[0]), x25519.Basepoint)
		if err != nil {
			if out != nil {
				return "err non-nil-return"
			}
			return "err"
		}
		return "ok " + hx(out)
	case "x.scalarmult":
		dst := *x1Arr(p1Fill(32, ""))
		x25519.ScalarMult(&dst, x1Arr(unhex(a[0])), x1Arr(unhex(a[1])))
		return "ok " + hx(dst[:])
	case "x.scalarbasemult":
		dst := *x1Arr(p1Fill(32, ""))
		x25519.ScalarBaseMult(&dst, x1Arr(unhex(a[0])))
		return "ok " + hx(dst[:])
	case "x.dh":
		sk := x25519.PrivateKey(*x1Arr(unhex(a[0])))
		pub := x25519.PublicKey(*x1Arr(unhex(a[1])))
		ss := sk.DiffieHellman(&pub)
		return "ok " + hx(ss[:]) + " " + hx([]byte{byte(btoi(ss.IsZero()))})
	case "x.public":
		sk := x25519.PrivateKey(*x1Arr(unhex(a[0])))
		pub := sk.Public()
		return "ok " + hx(pub[:])
	case "x.edpub":
		out, ok := x25519.EdPublicKeyToX25519(unhex(a[0]))
		if !ok {
			if out != nil {
				return "bool 0 non-nil-return"
			}
			return "bool 0"
		}
		return "ok " + hx(out)
	case "known.d4.edpriv":
		return "ok " + hx(x25519.EdPrivateKeyToX25519(unhex(a[0])))

	// ------------------------------------------------------------------ primitives/h2c
	case "h2c.xmd":
		out := p1Fill(p1Atoi(a[3]), "")
		if err := h2c.ExpandMessageXMD(out, p1XmdHashes[a[0]], unhex(a[1]), unhex(a[2])); err != nil {
			return "err"
		}
		return "ok " + hx(out)
	case "h2c.xof":
		out := p1Fill(p1Atoi(a[3]), "")
		if err := h2c.ExpandMessageXOF(out, p1Xof(a[0]), unhex(a[1]), unhex(a[2])); err != nil {
			return "err"
		}
		return "ok " + hx(out)
	case "h2c.suite":
		dst, msg := unhex(a[2]), unhex(a[3])
		var ep *curve.EdwardsPoint
		var rp *curve.RistrettoPoint
		var err error
		switch a[0] {
		case "ro512":
			ep, err = h2c.Edwards25519_XMD_SHA512_ELL2_RO(dst, msg)
		case "nu512":
			ep, err = h2c.Edwards25519_XMD_SHA512_ELL2_NU(dst, msg)
		case "xmdro":
			ep, err = h2c.Edwards25519_XMD_ELL2_RO(p1XmdHashes[a[1]], dst, msg)
		case "xmdnu":
			ep, err = h2c.Edwards25519_XMD_ELL2_NU(p1XmdHashes[a[1]], dst, msg)
		case "xofro":
			ep, err = h2c.Edwards25519_XOF_ELL2_RO(p1Xof(a[1]), dst, msg)
		case "xofnu":
			ep, err = h2c.Edwards25519_XOF_ELL2_NU(p1Xof(a[1]), dst, msg)
		case "ristxmd":
			rp, err = h2c.Ristretto255_XMD_R255MAP_RO(p1XmdHashes[a[1]], dst, msg)
		case "ristxof":
			rp, err = h2c.Ristretto255_XOF_R255MAP_RO(p1Xof(a[1]), dst, msg)
		default:
			return "bad-op"
		}
		if err != nil {
			if ep != nil || rp != nil {
				return "err non-nil-return"
			}
			return "err"
		}
		if rp != nil {
			return "ok " + p1RistHex(rp)
		}
		return "ok " + p1EdHex(ep)

	// ------------------------------------------------------------------ primitives/merlin
	case "m.seq":
		// applabel label msg elabel n
		t := merlin.NewTranscript(string(unhex(a[0])))
		t.AppendMessage(string(unhex(a[1])), unhex(a[2]))
		out := p1Fill(p1Atoi(a[4]), "")
		t.ExtractBytes(out, string(unhex(a[3])))
		return "ok " + hx(out)
	case "m.rng":
		// applabel wlabel witness entropy n
		t := merlin.NewTranscript(string(unhex(a[0])))
		rb := t.BuildRng().RekeyWithWitnessBytes(string(unhex(a[1])), unhex(a[2]))
		rd, err := rb.Finalize(&fixedReader{unhex(a[3])})
		if err != nil {
			if rd != nil {
				return "err non-nil-return"
			}
			return "err"
		}
		out := p1Fill(p1Atoi(a[4]), "")
		if n, err := rd.Read(out); err != nil || n != len(out) {
			return "err read"
		}
		return "ok " + hx(out)
	}
	return "bad-op"
}

// =============================================================================================
// generator

const (
	p1Zeros = iota
	p1Ones
	p1Random
	p1Valid // a valid encoding truncated (n < len), verbatim (n = len) or extended by random bytes (n > len)
	p1Nil   // nil slice (n = 0 only)
	p1NPat  = 4
)

var p1PatName = []string{"zeros", "ones", "random", "valid", "nil"}

// p1Sweep: one byte-string parameter of one op, swept over all lengths.
type p1Sweep struct {
	group string // histogram group
	name  string // op/param, for documentation
	// lens: the lengths the parameter is accepted at (nil: every length is acceptable); around them every
	// pattern is generated
	lens []int
	// fixed: the Go type is a fixed-size array; only len = lens[0] can be expressed
	fixed bool
	// big: thorough tier adds 65535, 65536, 65537
	big bool
	// max: largest length swept (0: tier default)
	max int
	// valid returns a well-formed value of the parameter (nil: any content is well-formed)
	valid func(g *Gen) []byte
	// mk builds the request fields after "P1" from the swept token
	mk func(g *Gen, tok string, b []byte) []string
}

func p1Bytes(g *Gen, sw *p1Sweep, n, pat int) (string, []byte) {
	var b []byte
	switch pat {
	case p1Zeros:
		b = make([]byte, n)
	case p1Ones:
		b = bytes.Repeat([]byte{0xff}, n)
	case p1Random:
		b = g.Bytes(n)
	case p1Valid:
		var v []byte
		if sw.valid != nil {
			v = sw.valid(g)
		} else {
			v = g.Bytes(n)
		}
		if n <= len(v) {
			b = v[:n]
		} else {
			b = append(append([]byte{}, v...), g.Bytes(n-len(v))...)
		}
	case p1Nil:
		return "nil", nil
	}
	return hx(b), b
}

func p1EmitSweep(g *Gen, sw *p1Sweep, n, pat int) {
	tok, b := p1Bytes(g, sw, n, pat)
	f := sw.mk(g, tok, b)
	g.Emit(sw.group+"."+p1PatName[pat], append([]string{"P1"}, f...)...)
}

// ---- reference material for valid inputs
func p1RandScalar(g *Gen) *big.Int { return new(big.Int).Mod(leInt(g.Bytes(40)), refL) }
func p1ValidEd(g *Gen) []byte {
	if g.Intn(8) == 0 {
		return g.Pick(refNonCanon) // some of these decode, some do not
	}
	return refEncode(t1MulB(p1RandScalar(g)))
}
func p1ValidRist(g *Gen) []byte   { return t1RistEncode(t1MulB(p1RandScalar(g))) }
func p1ValidScalar(g *Gen) []byte { return leBytes(p1RandScalar(g), 32) }
func p1Valid32(g *Gen) []byte     { return g.Bytes(32) }
func p1Valid64(g *Gen) []byte     { return g.Bytes(64) }
func p1ValidClamped(g *Gen) []byte {
	b := g.Bytes(32)
	b[0] &= 248
	b[31] &= 127
	b[31] |= 64
	return b
}

type p1EdKey struct {
	seed, pk, sk []byte
}

// a pool of keys (one big.Int fixed-base multiplication each); every 8th call adds a fresh one
var p1EdPool []*p1EdKey

func p1NewEdKey(g *Gen) *p1EdKey {
	if len(p1EdPool) >= 8 && g.Intn(8) != 0 {
		return p1EdPool[g.Intn(len(p1EdPool))]
	}
	k := p1FreshEdKey(g)
	if len(p1EdPool) < 64 {
		p1EdPool = append(p1EdPool, k)
	} else {
		p1EdPool[g.Intn(64)] = k
	}
	return k
}

func p1FreshEdKey(g *Gen) *p1EdKey {
	seed := g.Bytes(32)
	a := refClamp(leBytes(refH(seed), 64))
	pk := refEncode(t1MulB(a))
	return &p1EdKey{seed, pk, append(append([]byte{}, seed...), pk...)}
}

// p1EdSign: RFC 8032 signature by the big.Int reference (f: -1 pure, 0 ctx, 1 ph)
func p1EdSign(k *p1EdKey, f int, ctx, msg []byte) []byte {
	hb := leBytes(refH(k.seed), 64)
	a := refClamp(hb)
	d := refDom2(f, ctx)
	r := new(big.Int).Mod(refH(d, hb[32:], msg), refL)
	Rb := refEncode(t1MulB(r))
	kk := new(big.Int).Mod(refH(d, Rb, k.pk, msg), refL)
	S := new(big.Int).Mod(new(big.Int).Add(r, new(big.Int).Mul(kk, a)), refL)
	return append(Rb, leBytes(S, 32)...)
}

// sr25519 material comes from the library's own key generation and signing: it is INPUT only (the expected
// verdict is computed by the Lean model).
type p1SrKey struct {
	kp     *sr25519.KeyPair
	kpb    []byte // 96 bytes
	pk, sk []byte
}

func p1NewSrKey(g *Gen) *p1SrKey {
	msk, err := sr25519.NewMiniSecretKeyFromBytes(g.Bytes(32))
	if err != nil {
		panic(err)
	}
	kp := msk.ExpandUniform().KeyPair()
	b, _ := kp.MarshalBinary()
	return &p1SrKey{kp, b, b[64:], b[:64]}
}
func p1SrSign(g *Gen, k *p1SrKey, ctx, msg []byte) []byte {
	sig, err := k.kp.Sign(g.Rng, sr25519.NewSigningContext(ctx).NewTranscriptBytes(msg))
	if err != nil {
		panic(err)
	}
	b, _ := sig.MarshalBinary()
	return b
}

func p1OptTok(f int, ctx []byte) (flags, hash, c string) {
	hash = "0"
	if f == 1 {
		hash = "512"
	}
	return "nil", hash, hx(ctx)
}

func p1Sweeps() []*p1Sweep {
	var out []*p1Sweep
	add := func(s *p1Sweep) { out = append(out, s) }
	one := func(group, op string, lens []int, valid func(g *Gen) []byte) {
		add(&p1Sweep{group: group, name: op, lens: lens, valid: valid,
			mk: func(g *Gen, tok string, b []byte) []string { return []string{op, tok} }})
	}
	// ---- curve
	for _, op := range []string{"cey.setbytes", "cey.unmarshal", "cey.new", "ep.unmarshal"} {
		one("curve", op, []int{32}, p1ValidEd)
	}
	for _, op := range []string{"cr.setbytes", "cr.unmarshal", "rp.unmarshal"} {
		one("curve", op, []int{32}, p1ValidRist)
	}
	one("curve", "rp.setuniform", []int{64}, p1Valid64)
	one("curve", "mp.setbytes", []int{32}, p1Valid32)
	add(&p1Sweep{group: "curve", name: "ep.setcompressed", lens: []int{32}, fixed: true, valid: p1ValidEd,
		mk: func(g *Gen, tok string, b []byte) []string { return []string{"ep.setcompressed", tok} }})
	add(&p1Sweep{group: "curve", name: "rp.setcompressed", lens: []int{32}, fixed: true, valid: p1ValidRist,
		mk: func(g *Gen, tok string, b []byte) []string { return []string{"rp.setcompressed", tok} }})
	add(&p1Sweep{group: "curve", name: "ep.setmontgomery", lens: []int{32}, fixed: true,
		valid: func(g *Gen) []byte {
			P, _ := refDecode(p1ValidEd(g))
			if P.x == nil {
				return g.Bytes(32)
			}
			return leBytes(cvMontU(P), 32)
		},
		mk: func(g *Gen, tok string, b []byte) []string { return []string{"ep.setmontgomery", tok, itoa(g.Intn(2))} }})
	add(&p1Sweep{group: "curve", name: "mp.mul/point", lens: []int{32}, fixed: true, valid: p1Valid32,
		mk: func(g *Gen, tok string, b []byte) []string { return []string{"mp.mul", tok, hx(g.Bytes(32))} }})
	add(&p1Sweep{group: "curve", name: "mp.mul/scalar", lens: []int{32}, fixed: true, valid: p1Valid32,
		mk: func(g *Gen, tok string, b []byte) []string { return []string{"mp.mul", hx(g.Bytes(32)), tok} }})
	// ---- curve/scalar
	for _, op := range []string{"sc.setmodorder", "sc.setbits", "sc.newmodorder", "sc.newbits"} {
		one("scalar", op, []int{32}, p1Valid32)
	}
	for _, op := range []string{"sc.setcanonical", "sc.unmarshal", "sc.newcanonical", "sc.minimal"} {
		one("scalar", op, []int{32}, p1ValidScalar)
	}
	one("scalar", "sc.setwide", []int{64}, p1Valid64)
	one("scalar", "sc.newwide", []int{64}, p1Valid64)
	one("scalar", "sc.tobytes", []int{32}, p1Valid32)
	// ---- ed25519: a fresh key and an honest signature per request; the swept parameter replaces one field
	type edv struct {
		op   string
		opts bool
	}
	for _, v := range []edv{{"ed.verify", false}, {"ed.verifyopts", true}, {"ed.verifyx", false}, {"ed.verifyxopts", true},
		{"ed.batch.add", false}, {"ed.batch.addopts", true}, {"ed.batch.addx", false}, {"ed.batch.addxopts", true},
		{"cache.verify", false}, {"cache.verifyopts", true}, {"cache.add", false}, {"cache.addopts", true}} {
		v := v
		group := "ed25519"
		if strings.HasPrefix(v.op, "ed.batch") {
			group = "batch"
		} else if strings.HasPrefix(v.op, "cache") {
			group = "cache"
		}
		fields := func(g *Gen, f int, ctx []byte, pk, msg, sig string) []string {
			if !v.opts {
				return []string{v.op, pk, msg, sig}
			}
			fl, h, c := p1OptTok(f, ctx)
			if g.Intn(3) == 0 {
				fl = itoa(g.Intn(32))
			}
			return []string{v.op, fl, h, c, pk, msg, sig}
		}
		mode := func(g *Gen) (int, []byte) {
			if !v.opts {
				return -1, nil
			}
			switch g.Intn(3) {
			case 0:
				return 0, g.Bytes(1 + g.Intn(20))
			case 1:
				return 1, nil
			}
			return -1, nil
		}
		msgFor := func(g *Gen, f int) []byte {
			if f == 1 {
				return g.Bytes(64)
			}
			return g.Bytes(g.Intn(40))
		}
		add(&p1Sweep{group: group, name: v.op + "/pk", lens: []int{32},
			valid: func(g *Gen) []byte { return p1NewEdKey(g).pk },
			mk: func(g *Gen, tok string, b []byte) []string {
				// when the swept key happens to be a whole honest key (pattern valid, n = 32) the signature is by it
				k := p1NewEdKey(g)
				f, ctx := mode(g)
				msg := msgFor(g, f)
				sig := p1EdSign(k, f, ctx, msg)
				if len(b) == 32 && g.Intn(2) == 0 {
					tok = hx(k.pk)
				}
				return fields(g, f, ctx, tok, hx(msg), hx(sig))
			}})
		add(&p1Sweep{group: group, name: v.op + "/msg",
			mk: func(g *Gen, tok string, b []byte) []string {
				k := p1NewEdKey(g)
				f, ctx := mode(g)
				signed := b
				if g.Intn(4) == 0 {
					signed = msgFor(g, f) // stale signature
				}
				sig := p1EdSign(k, f, ctx, signed)
				return fields(g, f, ctx, hx(k.pk), tok, hx(sig))
			}})
		add(&p1Sweep{group: group, name: v.op + "/sig", lens: []int{64},
			valid: func(g *Gen) []byte { return nil },
			mk: func(g *Gen, tok string, b []byte) []string {
				k := p1NewEdKey(g)
				f, ctx := mode(g)
				msg := msgFor(g, f)
				sig := p1EdSign(k, f, ctx, msg)
				// pattern "valid": the honest signature truncated / extended
				if b != nil && len(b) > 0 && g.Intn(2) == 0 {
					n := len(b)
					if n <= 64 {
						tok = hx(sig[:n])
					} else {
						tok = hx(append(append([]byte{}, sig...), b[64:]...))
					}
				}
				return fields(g, f, ctx, hx(k.pk), hx(msg), tok)
			}})
		if v.opts {
			ctxMax := 0
			if v.op == "ed.verifyopts" {
				ctxMax = 300
			}
			add(&p1Sweep{group: group, name: v.op + "/ctx", max: ctxMax, lens: []int{255},
				mk: func(g *Gen, tok string, b []byte) []string {
					k := p1NewEdKey(g)
					f := -1
					if len(b) > 0 {
						f = 0
					}
					hash := "0"
					msg := g.Bytes(g.Intn(40))
					if g.Intn(4) == 0 {
						f, hash, msg = 1, "512", g.Bytes(64)
					}
					var sig []byte
					if len(b) <= 255 {
						sig = p1EdSign(k, f, b, msg)
					} else {
						sig = g.Bytes(64)
					}
					return []string{v.op, "nil", hash, tok, hx(k.pk), hx(msg), hx(sig)}
				}})
		}
	}
	one("ed25519", "ed.newexpanded", []int{32}, p1ValidEd)
	one("cache", "cache.addpk", []int{32}, p1ValidEd)
	one("ed25519", "ed.newkey", []int{32}, p1Valid32)
	add(&p1Sweep{group: "ed25519", name: "ed.sign/sk", lens: []int{64}, valid: func(g *Gen) []byte { return p1NewEdKey(g).sk },
		mk: func(g *Gen, tok string, b []byte) []string { return []string{"ed.sign", tok, hx(g.Bytes(g.Intn(40)))} }})
	add(&p1Sweep{group: "ed25519", name: "ed.sign/msg",
		mk: func(g *Gen, tok string, b []byte) []string { return []string{"ed.sign", hx(p1NewEdKey(g).sk), tok} }})
	add(&p1Sweep{group: "ed25519", name: "ed.pksign/sk", lens: []int{64}, valid: func(g *Gen) []byte { return p1NewEdKey(g).sk },
		mk: func(g *Gen, tok string, b []byte) []string {
			o := []string{"nil", "h0", "2"}[g.Intn(3)]
			return []string{"ed.pksign", o, "0", "-", tok, hx(g.Bytes(g.Intn(40)))}
		}})
	add(&p1Sweep{group: "ed25519", name: "ed.pksign/msg", lens: []int{64},
		mk: func(g *Gen, tok string, b []byte) []string {
			// half of the requests ask for Ed25519ph: only a 64-byte message is acceptable there
			if g.Intn(2) == 0 {
				return []string{"ed.pksign", []string{"nil", "h512"}[g.Intn(2)], "512", "-", hx(p1NewEdKey(g).sk), tok}
			}
			return []string{"ed.pksign", "nil", "0", "-", hx(p1NewEdKey(g).sk), tok}
		}})
	add(&p1Sweep{group: "ed25519", name: "ed.pksign/ctx", max: 300, lens: []int{255},
		mk: func(g *Gen, tok string, b []byte) []string {
			return []string{"ed.pksign", "nil", "0", tok, hx(p1NewEdKey(g).sk), hx(g.Bytes(g.Intn(40)))}
		}})
	for _, op := range []string{"ed.pkequal", "ed.skequal"} {
		op := op
		add(&p1Sweep{group: "ed25519", name: op, lens: []int{32, 64},
			mk: func(g *Gen, tok string, b []byte) []string {
				switch g.Intn(3) {
				case 0:
					return []string{op, tok, tok}
				case 1:
					return []string{op, hx(g.Bytes(32)), tok}
				}
				return []string{op, tok, hx(g.Bytes(len(b)))}
			}})
	}
	// ---- known classes D4 / D5: the caller's own private key, shorter than a seed
	for _, op := range []string{"known.d5.public", "known.d5.seed", "known.d4.edpriv"} {
		op := op
		add(&p1Sweep{group: op[:8], name: op, lens: []int{32, 64}, valid: func(g *Gen) []byte { return p1NewEdKey(g).sk },
			mk: func(g *Gen, tok string, b []byte) []string { return []string{op, tok} }})
	}
	// ---- ecvrf
	for _, ver := range []string{"cur", "v10"} {
		ver := ver
		withY := ver == "cur"
		// honest proofs: a small pool of keys from the big.Int reference; proofs over a swept alpha come from
		// the library's own Prove (INPUT only — the verdict is the Lean model's), the others from the reference
		var pool []*vrfKey
		key := func(g *Gen) *vrfKey {
			if len(pool) < 4 {
				pool = append(pool, vrfRefKey(g.Bytes(32)))
				return pool[len(pool)-1]
			}
			return pool[g.Intn(len(pool))]
		}
		type cached struct {
			k     *vrfKey
			alpha []byte
			pi    []byte
		}
		var proofs []cached
		honest := func(g *Gen, alpha []byte) (*vrfKey, []byte) {
			k := key(g)
			if withY {
				return k, ecvrf.Prove(k.sk, alpha)
			}
			return k, ecvrf.Prove_v10(k.sk, alpha)
		}
		honestRef := func(g *Gen) (*vrfKey, []byte, []byte) {
			if len(proofs) < 6 {
				k := key(g)
				alpha := g.Bytes(g.Intn(20))
				pi, _ := vrfRefProve(k.x, k.Yb, alpha, p1RandScalar(g), withY, 0)
				proofs = append(proofs, cached{k, alpha, pi})
			}
			c := proofs[g.Intn(len(proofs))]
			return c.k, c.alpha, c.pi
		}
		add(&p1Sweep{group: "ecvrf", name: "vrf.prove/sk " + ver, lens: []int{64}, valid: func(g *Gen) []byte { return p1NewEdKey(g).sk },
			mk: func(g *Gen, tok string, b []byte) []string {
				return []string{"vrf.prove", ver, tok, hx(g.Bytes(g.Intn(20)))}
			}})
		add(&p1Sweep{group: "ecvrf", name: "vrf.prove/alpha " + ver,
			mk: func(g *Gen, tok string, b []byte) []string {
				return []string{"vrf.prove", ver, hx(p1NewEdKey(g).sk), tok}
			}})
		add(&p1Sweep{group: "ecvrf", name: "vrf.provernd/sk " + ver, lens: []int{64}, valid: func(g *Gen) []byte { return p1NewEdKey(g).sk },
			mk: func(g *Gen, tok string, b []byte) []string {
				return []string{"vrf.provernd", ver, tok, hx(g.Bytes(g.Intn(20))), hx(g.Bytes(32))}
			}})
		add(&p1Sweep{group: "ecvrf", name: "vrf.provernd/entropy " + ver, lens: []int{32},
			mk: func(g *Gen, tok string, b []byte) []string {
				return []string{"vrf.provernd", ver, hx(p1NewEdKey(g).sk), hx(g.Bytes(g.Intn(20))), tok}
			}})
		add(&p1Sweep{group: "ecvrf", name: "vrf.verify/pk " + ver, lens: []int{32}, valid: func(g *Gen) []byte { return p1NewEdKey(g).pk },
			mk: func(g *Gen, tok string, b []byte) []string {
				k, alpha, pi := honestRef(g)
				if len(b) == 32 && g.Intn(2) == 0 {
					tok = hx(k.Yb)
				}
				return []string{"vrf.verify", ver, tok, hx(pi), hx(alpha)}
			}})
		add(&p1Sweep{group: "ecvrf", name: "vrf.verify/pi " + ver, lens: []int{80},
			mk: func(g *Gen, tok string, b []byte) []string {
				k, alpha, pi := honestRef(g)
				if len(b) > 0 && g.Intn(2) == 0 {
					if len(b) <= 80 {
						tok = hx(pi[:len(b)])
					} else {
						tok = hx(append(append([]byte{}, pi...), b[80:]...))
					}
				}
				return []string{"vrf.verify", ver, hx(k.Yb), tok, hx(alpha)}
			}})
		add(&p1Sweep{group: "ecvrf", name: "vrf.verify/alpha " + ver,
			mk: func(g *Gen, tok string, b []byte) []string {
				signed := b
				if g.Intn(4) == 0 {
					signed = g.Bytes(5)
				}
				k, pi := honest(g, signed)
				return []string{"vrf.verify", ver, hx(k.Yb), hx(pi), tok}
			}})
	}
	add(&p1Sweep{group: "ecvrf", name: "vrf.hash", lens: []int{80},
		valid: func(g *Gen) []byte {
			// Gamma ‖ c ‖ s with Gamma a random point, c arbitrary, s canonical: all that ProofToHash looks at
			return append(append(refEncode(t1MulB(p1RandScalar(g))), g.Bytes(16)...), p1ValidScalar(g)...)
		},
		mk: func(g *Gen, tok string, b []byte) []string { return []string{"vrf.hash", tok} }})
	// ---- sr25519
	srSig := func(g *Gen) []byte { k := p1NewSrKey(g); return p1SrSign(g, k, []byte("c"), g.Bytes(4)) }
	for _, op := range []string{"sr.sig.unmarshal", "sr.sig.new"} {
		one("sr25519", op, []int{64}, srSig)
	}
	for _, op := range []string{"sr.pk.unmarshal", "sr.pk.new"} {
		one("sr25519", op, []int{32}, p1ValidRist)
	}
	for _, op := range []string{"sr.sk.unmarshal", "sr.sk.new"} {
		one("sr25519", op, []int{64}, func(g *Gen) []byte { return append(p1ValidScalar(g), g.Bytes(32)...) })
	}
	one("sr25519", "sr.sked.new", []int{64}, func(g *Gen) []byte { return append(p1ValidClamped(g), g.Bytes(32)...) })
	for _, op := range []string{"sr.kp.unmarshal", "sr.kp.new"} {
		one("sr25519", op, []int{96}, func(g *Gen) []byte {
			k := p1NewSrKey(g)
			if g.Intn(4) == 0 { // well-formed halves that do not belong together
				return append(append([]byte{}, k.sk...), p1ValidRist(g)...)
			}
			return k.kpb
		})
	}
	for _, op := range []string{"sr.msk.unmarshal", "sr.msk.new"} {
		one("sr25519", op, []int{32}, p1Valid32)
	}
	srCase := func(g *Gen, ctx, msg []byte) (pk, sig string) {
		k := p1NewSrKey(g)
		return hx(k.pk), hx(p1SrSign(g, k, ctx, msg))
	}
	add(&p1Sweep{group: "sr25519", name: "sr.verify/ctx",
		mk: func(g *Gen, tok string, b []byte) []string {
			msg := g.Bytes(g.Intn(20))
			pk, sig := srCase(g, b, msg)
			return []string{"sr.verify", tok, hx(msg), pk, sig}
		}})
	add(&p1Sweep{group: "sr25519", name: "sr.verify/msg",
		mk: func(g *Gen, tok string, b []byte) []string {
			signed := b
			if g.Intn(4) == 0 {
				signed = g.Bytes(3)
			}
			pk, sig := srCase(g, []byte("ctx"), signed)
			return []string{"sr.verify", hx([]byte("ctx")), tok, pk, sig}
		}})
	add(&p1Sweep{group: "sr25519", name: "sr.verify/pk", lens: []int{32}, valid: p1ValidRist,
		mk: func(g *Gen, tok string, b []byte) []string {
			msg := g.Bytes(g.Intn(20))
			pk, sig := srCase(g, nil, msg)
			if len(b) == 32 && g.Intn(2) == 0 {
				tok = pk
			}
			return []string{"sr.verify", "-", hx(msg), tok, sig}
		}})
	add(&p1Sweep{group: "sr25519", name: "sr.verify/sig", lens: []int{64},
		mk: func(g *Gen, tok string, b []byte) []string {
			msg := g.Bytes(g.Intn(20))
			pk, sig := srCase(g, nil, msg)
			if len(b) > 0 && g.Intn(2) == 0 {
				s := unhex(sig)
				if len(b) <= 64 {
					tok = hx(s[:len(b)])
				} else {
					tok = hx(append(s, b[64:]...))
				}
			}
			return []string{"sr.verify", "nil", hx(msg), pk, tok}
		}})
	// ---- x25519
	add(&p1Sweep{group: "x25519", name: "x.x25519/scalar", lens: []int{32}, valid: p1Valid32,
		mk: func(g *Gen, tok string, b []byte) []string { return []string{"x.x25519", tok, hx(g.Bytes(32))} }})
	add(&p1Sweep{group: "x25519", name: "x.x25519/point", lens: []int{32}, valid: p1Valid32,
		mk: func(g *Gen, tok string, b []byte) []string { return []string{"x.x25519", hx(g.Bytes(32)), tok} }})
	one("x25519", "x.x25519bp", []int{32}, p1Valid32)
	one("x25519", "x.edpub", []int{32}, p1ValidEd)
	add(&p1Sweep{group: "x25519", name: "x.scalarmult/in", lens: []int{32}, fixed: true, valid: p1Valid32,
		mk: func(g *Gen, tok string, b []byte) []string { return []string{"x.scalarmult", tok, hx(g.Bytes(32))} }})
	add(&p1Sweep{group: "x25519", name: "x.scalarmult/base", lens: []int{32}, fixed: true, valid: p1Valid32,
		mk: func(g *Gen, tok string, b []byte) []string { return []string{"x.scalarmult", hx(g.Bytes(32)), tok} }})
	add(&p1Sweep{group: "x25519", name: "x.scalarbasemult", lens: []int{32}, fixed: true, valid: p1Valid32,
		mk: func(g *Gen, tok string, b []byte) []string { return []string{"x.scalarbasemult", tok} }})
	add(&p1Sweep{group: "x25519", name: "x.dh/pub", lens: []int{32}, fixed: true, valid: p1Valid32,
		mk: func(g *Gen, tok string, b []byte) []string { return []string{"x.dh", hx(g.Bytes(32)), tok} }})
	add(&p1Sweep{group: "x25519", name: "x.public", lens: []int{32}, fixed: true, valid: p1Valid32,
		mk: func(g *Gen, tok string, b []byte) []string { return []string{"x.public", tok} }})
	// ---- h2c
	xmdH := []string{"512", "256", "384", "224"}
	xofs := []string{"x128", "x256"}
	add(&p1Sweep{group: "h2c", name: "h2c.xmd/dst", big: true, max: 300, lens: []int{255},
		mk: func(g *Gen, tok string, b []byte) []string {
			return []string{"h2c.xmd", xmdH[g.Intn(3)], tok, hx(g.Bytes(g.Intn(20))), itoa(1 + g.Intn(100))}
		}})
	add(&p1Sweep{group: "h2c", name: "h2c.xmd/msg", big: true,
		mk: func(g *Gen, tok string, b []byte) []string {
			return []string{"h2c.xmd", xmdH[g.Intn(4)], hx(g.Bytes(1 + g.Intn(20))), tok, itoa(1 + g.Intn(100))}
		}})
	add(&p1Sweep{group: "h2c", name: "h2c.xof/dst", big: true, max: 300, lens: []int{255},
		mk: func(g *Gen, tok string, b []byte) []string {
			return []string{"h2c.xof", xofs[g.Intn(2)], tok, hx(g.Bytes(g.Intn(20))), itoa(1 + g.Intn(100))}
		}})
	add(&p1Sweep{group: "h2c", name: "h2c.xof/msg", big: true,
		mk: func(g *Gen, tok string, b []byte) []string {
			return []string{"h2c.xof", xofs[g.Intn(2)], hx(g.Bytes(1 + g.Intn(20))), tok, itoa(1 + g.Intn(100))}
		}})
	type suite struct{ name, arg string }
	suites := []suite{{"ro512", "-"}, {"nu512", "-"}, {"xmdro", "512"}, {"xmdro", "256"}, {"xmdro", "224"}, {"xmdnu", "384"}, {"xmdnu", "224"},
		{"xofro", "x128"}, {"xofnu", "x256"}, {"ristxmd", "512"}, {"ristxmd", "224"}, {"ristxof", "x128"}}
	add(&p1Sweep{group: "h2c", name: "h2c.suite/dst", big: true, max: 300, lens: []int{255},
		mk: func(g *Gen, tok string, b []byte) []string {
			s := suites[g.Intn(len(suites))]
			return []string{"h2c.suite", s.name, s.arg, tok, hx(g.Bytes(g.Intn(20)))}
		}})
	add(&p1Sweep{group: "h2c", name: "h2c.suite/msg", big: true,
		mk: func(g *Gen, tok string, b []byte) []string {
			s := suites[g.Intn(len(suites))]
			return []string{"h2c.suite", s.name, s.arg, hx(g.Bytes(1 + g.Intn(20))), tok}
		}})
	// ---- merlin
	lbl := func(g *Gen) string { return hx(g.Bytes(g.Intn(12))) }
	add(&p1Sweep{group: "merlin", name: "m.seq/applabel",
		mk: func(g *Gen, tok string, b []byte) []string {
			return []string{"m.seq", p1NoNil(tok), lbl(g), hx(g.Bytes(g.Intn(20))), lbl(g), itoa(g.Intn(40))}
		}})
	add(&p1Sweep{group: "merlin", name: "m.seq/label",
		mk: func(g *Gen, tok string, b []byte) []string {
			return []string{"m.seq", lbl(g), p1NoNil(tok), hx(g.Bytes(g.Intn(20))), lbl(g), itoa(g.Intn(40))}
		}})
	add(&p1Sweep{group: "merlin", name: "m.seq/msg",
		mk: func(g *Gen, tok string, b []byte) []string {
			return []string{"m.seq", lbl(g), lbl(g), tok, lbl(g), itoa(g.Intn(40))}
		}})
	add(&p1Sweep{group: "merlin", name: "m.seq/elabel",
		mk: func(g *Gen, tok string, b []byte) []string {
			return []string{"m.seq", lbl(g), lbl(g), hx(g.Bytes(g.Intn(20))), p1NoNil(tok), itoa(g.Intn(40))}
		}})
	add(&p1Sweep{group: "merlin", name: "m.rng/wlabel",
		mk: func(g *Gen, tok string, b []byte) []string {
			return []string{"m.rng", lbl(g), p1NoNil(tok), hx(g.Bytes(g.Intn(40))), hx(g.Bytes(32)), itoa(g.Intn(40))}
		}})
	add(&p1Sweep{group: "merlin", name: "m.rng/witness",
		mk: func(g *Gen, tok string, b []byte) []string {
			return []string{"m.rng", lbl(g), lbl(g), tok, hx(g.Bytes(32)), itoa(g.Intn(40))}
		}})
	add(&p1Sweep{group: "merlin", name: "m.rng/entropy", lens: []int{32},
		mk: func(g *Gen, tok string, b []byte) []string {
			return []string{"m.rng", lbl(g), lbl(g), hx(g.Bytes(g.Intn(40))), tok, itoa(g.Intn(40))}
		}})
	return out
}

// labels are Go strings: there is no nil string
func p1NoNil(tok string) string {
	if tok == "nil" {
		return "-"
	}
	return tok
}

// p1Discrete: requests that are not length sweeps — output lengths of the expanders and of ExtractBytes,
// option structs (nil Options, nil VerifyOptions, every flag combination, unsupported hash), mismatched
// slice lengths, recoding widths.
func p1Discrete(g *Gen) {
	thorough := g.Tier == "thorough"
	// output lengths
	maxN := 130
	if thorough {
		maxN = 600
	}
	var ns []int
	for n := 0; n <= maxN; n++ {
		ns = append(ns, n)
	}
	ns = append(ns, 255, 256, 257, 8160, 8161, 16320, 16321)
	if thorough {
		ns = append(ns, 65535, 65536, 65537)
	}
	for _, n := range ns {
		h := []string{"512", "256", "384", "224"}[g.Intn(4)]
		g.Emit("h2c.outlen", "P1", "h2c.xmd", h, hx(g.Bytes(1+g.Intn(20))), hx(g.Bytes(g.Intn(20))), itoa(n))
		g.Emit("h2c.outlen", "P1", "h2c.xof", []string{"x128", "x256"}[g.Intn(2)], hx(g.Bytes(1+g.Intn(20))), hx(g.Bytes(g.Intn(20))), itoa(n))
		if n <= 600 {
			g.Emit("merlin.outlen", "P1", "m.seq", hx(g.Bytes(g.Intn(8))), hx(g.Bytes(g.Intn(8))), hx(g.Bytes(g.Intn(8))), hx(g.Bytes(g.Intn(8))), itoa(n))
			g.Emit("merlin.outlen", "P1", "m.rng", hx(g.Bytes(g.Intn(8))), hx(g.Bytes(g.Intn(8))), hx(g.Bytes(g.Intn(8))), hx(g.Bytes(32+g.Intn(8))), itoa(n))
		}
	}
	// empty / nil DST and message for every suite and expander
	for _, d := range []string{"-", "nil"} {
		for _, m := range []string{"-", "nil", "00"} {
			for _, h := range []string{"512", "256", "384", "224"} {
				g.Emit("h2c.empty", "P1", "h2c.xmd", h, d, m, "32")
				g.Emit("h2c.empty", "P1", "h2c.suite", "xmdro", h, d, m)
				g.Emit("h2c.empty", "P1", "h2c.suite", "xmdnu", h, d, m)
				g.Emit("h2c.empty", "P1", "h2c.suite", "ristxmd", h, d, m)
			}
			for _, x := range []string{"x128", "x256"} {
				g.Emit("h2c.empty", "P1", "h2c.xof", x, d, m, "32")
				g.Emit("h2c.empty", "P1", "h2c.suite", "xofro", x, d, m)
				g.Emit("h2c.empty", "P1", "h2c.suite", "xofnu", x, d, m)
				g.Emit("h2c.empty", "P1", "h2c.suite", "ristxof", x, d, m)
			}
			g.Emit("h2c.empty", "P1", "h2c.suite", "ro512", "-", d, m)
			g.Emit("h2c.empty", "P1", "h2c.suite", "nu512", "-", d, m)
		}
	}
	// option structs: nil Options (documented panic), nil VerifyOptions, all flag combinations × hash
	for _, op := range []string{"ed.verifyopts", "ed.verifyxopts", "ed.batch.addopts", "ed.batch.addxopts", "cache.verifyopts", "cache.addopts"} {
		k := p1NewEdKey(g)
		msg := g.Bytes(7)
		sig := p1EdSign(k, -1, nil, msg)
		m64 := g.Bytes(64)
		sigph := p1EdSign(k, 1, nil, m64)
		bad := [][]byte{k.pk[:31], append(append([]byte{}, k.pk...), 0), nil, refNonCanon[3]}
		g.Emit("opts.nil", "P1", op, "nilopts", "0", "-", hx(k.pk), hx(msg), hx(sig))
		g.Emit("opts.nil", "P1", op, "nilopts", "0", "-", hx(k.pk), hx(msg), hx(sig[:63]))
		for _, b := range bad {
			// nil options AND a key that is malformed: which of the two is noticed first differs per entry point
			g.Emit("opts.nil", "P1", op, "nilopts", "0", "-", hx(b), hx(msg), hx(sig))
		}
		g.Emit("opts.nilverify", "P1", op, "nil", "0", "-", hx(k.pk), hx(msg), hx(sig))
		for fl := 0; fl < 32; fl++ {
			g.Emit("opts.flags", "P1", op, itoa(fl), "0", "-", hx(k.pk), hx(msg), hx(sig))
			g.Emit("opts.flags", "P1", op, itoa(fl), "512", "-", hx(k.pk), hx(m64), hx(sigph))
			if fl%5 == 0 {
				g.Emit("opts.badhash", "P1", op, itoa(fl), "256", "-", hx(k.pk), hx(msg), hx(sig))
				g.Emit("opts.badph", "P1", op, itoa(fl), "512", "-", hx(k.pk), hx(msg), hx(sig))
				g.Emit("opts.badpk", "P1", op, itoa(fl), "0", "-", hx(bad[fl%len(bad)]), hx(msg), hx(sig))
			}
		}
	}
	{
		k := p1NewEdKey(g)
		msg := g.Bytes(9)
		for _, o := range []string{"nilopts", "h0", "h512", "h256", "nil", "24", "2"} {
			g.Emit("opts.sign", "P1", "ed.pksign", o, "0", "-", hx(k.sk), hx(msg))
			g.Emit("opts.sign", "P1", "ed.pksign", o, "0", "-", hx(k.sk), hx(g.Bytes(64)))
			g.Emit("opts.sign", "P1", "ed.pksign", o, "0", "-", hx(k.sk[:63]), hx(msg))
			g.Emit("opts.sign", "P1", "ed.pksign", o, "512", "-", hx(k.sk), hx(g.Bytes(64)))
			g.Emit("opts.sign", "P1", "ed.pksign", o, "512", "-", hx(k.sk), hx(msg))
			g.Emit("opts.sign", "P1", "ed.pksign", o, "256", "-", hx(k.sk), hx(msg))
		}
	}
	// mismatched slice lengths
	for ns := 0; ns <= 4; ns++ {
		for np := 0; np <= 4; np++ {
			for _, op := range []string{"msm.ed", "msm.edvt", "msm.r", "msm.rvt"} {
				g.Emit("msm", "P1", op, itoa(ns), itoa(np))
			}
		}
	}
	for i := 0; i < 81; i++ {
		a, b, c, d := i%3, i/3%3, i/9%3, i/27%3
		g.Emit("msm", "P1", "msm.edx", itoa(a), itoa(b), itoa(c), itoa(d))
		g.Emit("msm", "P1", "msm.rx", itoa(a), itoa(b), itoa(c), itoa(d))
	}
	// recoding widths
	for _, w := range []int{0, 1, 2, 3, 4, 5, 6, 7, 8, 9, 10, 15, 16, 31, 32, 33, 63, 64, 65, 255, 256, 1 << 16, 1<<31 - 1} {
		for _, op := range []string{"sc.naf", "sc.radix2w", "sc.radixhint"} {
			g.Emit("recode.width", "P1", op, itoa(w))
		}
	}
	// content boundaries at the accepted length: scalars around multiples of L and powers of two (with and
	// without bit 255), the RFC 9496 bad encodings, non-canonical and small-order Edwards encodings,
	// sr25519 signatures without the schnorrkel marker / with s >= L
	two255 := new(big.Int).Lsh(bi1, 255)
	for _, v := range refScalarBoundary() {
		for _, hi := range []bool{false, true} {
			n := v
			if hi {
				n = new(big.Int).Add(v, two255)
			}
			b := hx(leBytes(n, 32))
			for _, op := range []string{"sc.setcanonical", "sc.unmarshal", "sc.newcanonical", "sc.minimal", "sc.setbits", "sc.setmodorder"} {
				g.Emit("bound.scalar", "P1", op, b)
			}
			g.Emit("bound.scalar", "P1", "sr.sk.new", hx(append(leBytes(n, 32), p1Nonce...)))
			g.Emit("bound.scalar", "P1", "sr.sk.unmarshal", hx(append(leBytes(n, 32), p1Nonce...)))
			sig := append(append([]byte{}, p1RistB...), leBytes(n, 32)...)
			g.Emit("bound.scalar", "P1", "sr.sig.new", hx(sig))
			g.Emit("bound.scalar", "P1", "sr.sig.unmarshal", hx(sig))
			g.Emit("bound.scalar", "P1", "sr.sked.new", hx(append(leBytes(n, 32), p1Nonce...)))
		}
	}
	for _, e := range t1RfcBad {
		for _, op := range []string{"cr.unmarshal", "rp.unmarshal", "rp.setcompressed", "sr.pk.new", "sr.pk.unmarshal", "cr.setbytes"} {
			g.Emit("bound.ristretto", "P1", op, e)
		}
		g.Emit("bound.ristretto", "P1", "sr.verify", "-", "-", e, hx(append(append([]byte{}, p1RistB...), p1Sc0[:31]...))+"8f")
	}
	for _, e := range t1RfcMultiples {
		for _, op := range []string{"cr.unmarshal", "rp.unmarshal", "rp.setcompressed", "sr.pk.new", "sr.pk.unmarshal"} {
			g.Emit("bound.ristretto", "P1", op, e)
		}
	}
	for _, e := range t1RfcUniform {
		g.Emit("bound.ristretto", "P1", "rp.setuniform", e)
	}
	for _, e := range append(append([][]byte{}, refNonCanon...), refSmall...) {
		for _, op := range []string{"cey.unmarshal", "ep.unmarshal", "ep.setcompressed", "ed.newexpanded", "cache.addpk", "x.edpub"} {
			g.Emit("bound.edwards", "P1", op, hx(e))
		}
		k := p1NewEdKey(g)
		msg := g.Bytes(3)
		sig := p1EdSign(k, -1, nil, msg)
		g.Emit("bound.edwards", "P1", "ed.verify", hx(e), hx(msg), hx(sig))
		g.Emit("bound.edwards", "P1", "ed.verify", hx(k.pk), hx(msg), hx(append(append([]byte{}, e...), sig[32:]...)))
		g.Emit("bound.edwards", "P1", "ed.batch.add", hx(e), hx(msg), hx(sig))
		g.Emit("bound.edwards", "P1", "cache.verify", hx(e), hx(msg), hx(sig))
		g.Emit("bound.edwards", "P1", "vrf.verify", "cur", hx(e), hx(append(append([]byte{}, e...), make([]byte, 48)...)), "-")
		g.Emit("bound.edwards", "P1", "vrf.hash", hx(append(append([]byte{}, e...), make([]byte, 48)...)))
	}
	// Montgomery u-coordinates: 0, 1, -1 (the zero of the birational map), p, p+1, 2^255-1, twist points
	for _, u := range []*big.Int{bi0, bi1, new(big.Int).Sub(refP, bi1), refP, new(big.Int).Add(refP, bi1), new(big.Int).Sub(two255, bi1), bi2, big.NewInt(9)} {
		for _, hi := range []bool{false, true} {
			n := u
			if hi {
				n = new(big.Int).Add(u, two255)
			}
			for _, s := range []string{"0", "1"} {
				g.Emit("bound.montgomery", "P1", "ep.setmontgomery", hx(leBytes(n, 32)), s)
			}
			g.Emit("bound.montgomery", "P1", "x.x25519", hx(p1Sc0), hx(leBytes(n, 32)))
			g.Emit("bound.montgomery", "P1", "x.dh", hx(p1Sc0), hx(leBytes(n, 32)))
			g.Emit("bound.montgomery", "P1", "mp.mul", hx(leBytes(n, 32)), hx(p1Sc0))
		}
	}
	// sign argument of SetMontgomery beyond 0/1 (uint8: `sign << 7` keeps bit 0 only)
	for _, s := range []int{0, 1, 2, 3, 128, 255} {
		g.Emit("curve.sign", "P1", "ep.setmontgomery", hx(p1Mont9), itoa(s))
	}
}

func genP1(g *Gen) {
	p1EdPool = nil
	sweeps := p1Sweeps()
	maxDefault := 130
	if g.Tier == "thorough" {
		maxDefault = 600
	}
	// 1. the exhaustive part: EVERY length 0..max for every swept parameter (one pattern per length, the
	//    pattern rotating with the seed), every pattern around the accepted lengths, nil and empty.
	//    This part is emitted in full whatever -n says: the property quantifies over all lengths.
	for si, sw := range sweeps {
		if sw.fixed {
			for pat := 0; pat < p1NPat; pat++ {
				for rep := 0; rep < 6; rep++ {
					p1EmitSweep(g, sw, sw.lens[0], pat)
				}
			}
			continue
		}
		max := sw.max
		if max == 0 || g.Tier == "thorough" && max < maxDefault {
			max = maxDefault
		}
		rot := g.Intn(p1NPat)
		for n := 0; n <= max; n++ {
			p1EmitSweep(g, sw, n, (n+si+rot)%p1NPat)
		}
		p1EmitSweep(g, sw, 0, p1Nil)
		near := map[int]bool{0: true, 1: true}
		for _, l := range sw.lens {
			for d := -1; d <= 1; d++ {
				near[l+d] = true
			}
			near[2*l] = true
		}
		for n := 0; n <= max+1; n++ {
			if near[n] {
				for pat := 0; pat < p1NPat; pat++ {
					p1EmitSweep(g, sw, n, pat)
				}
			}
		}
		// the accepted lengths themselves: content decides (well-formed and random values)
		for _, l := range sw.lens {
			for rep := 0; rep < 8; rep++ {
				p1EmitSweep(g, sw, l, p1Valid)
				if rep%2 == 0 {
					p1EmitSweep(g, sw, l, p1Random)
				}
			}
		}
		if sw.big && g.Tier == "thorough" {
			for _, n := range []int{65535, 65536, 65537} {
				p1EmitSweep(g, sw, n, p1Random)
			}
		}
	}
	p1Discrete(g)
	// 2. random tail up to the budget: accepted lengths (content-dependent outcomes) half of the time
	for !g.Full() {
		sw := sweeps[g.Intn(len(sweeps))]
		n := g.Intn(maxDefault + 1)
		if sw.fixed || (len(sw.lens) > 0 && g.Intn(2) == 0) {
			n = sw.lens[g.Intn(len(sw.lens))]
		} else if sw.max > 0 && g.Intn(2) == 0 {
			n = g.Intn(sw.max + 1)
		}
		p1EmitSweep(g, sw, n, g.Intn(p1NPat))
	}
}

func init() {
	register(&Stream{Name: "P1", Gen: genP1, Exec: execP1})
}
