//go:build (386 || arm || mips || mipsle || wasm || mips64le || mips64 || riscv64 || loong64 || force32bit) && !force64bit

package main

// k0ScalarRadixBits: see s_consts_sc64.go; curve/scalar/constants_u32.go (9 limbs of 29 bits).
const k0ScalarRadixBits = 261
