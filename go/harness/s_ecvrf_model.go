package main

import "strings"

// Stream E2: the cases of E1 (same generator, stream token renamed), executed against the real
// Prove*/Verify*/ProofToHash by E1's executor.  The Lean side answers from the CODE-SHAPED model
// Voi.Model.ECVRF (doProve / doVerify / decodeProof / challengeGeneration / gammaToHash, concrete instance)
// instead of the declarative Spec, so that the object of theorem Props.C15.vrf_model_eq_spec is itself
// tied to the Go code on every run.
func genE2(g *Gen) {
	start := len(g.lines)
	genE1(g)
	for i := start; i < len(g.lines); i++ {
		if strings.HasPrefix(g.lines[i], "E1 ") {
			g.lines[i] = "E2 " + g.lines[i][3:]
		}
	}
}

func init() {
	register(&Stream{Name: "E2", Gen: genE2, Exec: execE1})
}
