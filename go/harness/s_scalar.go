package main

// Streams S1 (scalar arithmetic and canonicity predicates, property C05) and R1 (digit recodings,
// property C17) for the public API of curve/scalar.
//
// S1 ops (byte strings hex; scalars are 32-byte little endian and enter through NewFromBits unless stated):
//   add a b | sub a b | mul a b          -> ok <32>       New().Add(a,b) ... via ToBytes
//   neg a | reduce a | invert a          -> ok <32>
//   equal a b                            -> bool          Equal (byte equality of the stored values)
//   condsel a b c                        -> ok <32>       ConditionalSelect(a, b, c), c in {0,1}
//   iscanon a                            -> bool          NewFromBits(a).IsCanonical()
//   setbits b                            -> ok <32>|err   NewFromBits(b), any length
//   tobytes a n                          -> ok <32>|err   ToBytes into an n-byte buffer
//   frombytes b                          -> ok <32>|err   NewFromBytesModOrder(b), any length
//   fromwide b                           -> ok <32>|err   NewFromBytesModOrderWide(b), any length
//   canon b                              -> ok <32>|err   NewFromCanonicalBytes(b), any length
//   unmarshal b                          -> ok <32>|err   UnmarshalBinary(b) then MarshalBinary
//   scminimal b                          -> bool          ScMinimalVartime(b), any length
//   fromu64 n                            -> ok <32>       NewFromUint64(n), n decimal
//   sum a* | product a*                  -> ok <32>
//   batchinvert a*                       -> ok <32>* <32> the inverses (in place) followed by the returned product of inverses
// R1 ops:
//   bits a                               -> digits (256)
//   naf w a                              -> digits (256) | panic doc
//   radix16 a                            -> digits (64)
//   radix2w w a                          -> digits (43) | panic doc
//   sizehint w                           -> digits n | panic doc
//
// Besides the reply, the executor checks on the Go side that receiver aliasing does not change a result and
// that operands are left unmodified; a failure is reported as a reply no model can produce.

import (
	"math/big"
	"strconv"
	"strings"

	"github.com/oasisprotocol/curve25519-voi/curve/scalar"
)

// ---------------------------------------------------------------------------------------------
// generator helpers (big.Int only; independent of the library)

func scxPow2(k uint) *big.Int { return new(big.Int).Lsh(bi1, k) }
func scxAddI(a *big.Int, e int64) *big.Int {
	return new(big.Int).Add(a, big.NewInt(e))
}
func scxMask(n *big.Int, bits uint) *big.Int {
	return new(big.Int).And(n, new(big.Int).Sub(scxPow2(bits), bi1))
}
func scxHex(n *big.Int, l int) string { return hx(leBytes(n, l)) }

// scxSet collects distinct values in [0, 2^bits)
type scxSet struct {
	bits uint
	seen map[string]bool
	out  []*big.Int
}

func newScxSet(bits uint) *scxSet { return &scxSet{bits: bits, seen: map[string]bool{}} }
func (s *scxSet) add(n *big.Int) {
	if n.Sign() < 0 || uint(n.BitLen()) > s.bits {
		return
	}
	k := n.Text(16)
	if !s.seen[k] {
		s.seen[k] = true
		s.out = append(s.out, new(big.Int).Set(n))
	}
}

func scxRandBits(g *Gen, bits int) *big.Int {
	if bits <= 0 {
		return new(big.Int)
	}
	return scxMask(leInt(g.Bytes((bits+7)/8)), uint(bits))
}

// scxLimbPattern fills each `limb`-bit limb of a `bits`-bit value with 0, all-ones, 1, the top bit,
// all-ones-but-one or random bits: the carry extremes of the 52/29-bit limb code and of the 64-bit words.
func scxLimbPattern(g *Gen, bits, limb int) *big.Int {
	n := new(big.Int)
	ones := new(big.Int).Sub(scxPow2(uint(limb)), bi1)
	for off := 0; off < bits; off += limb {
		var v *big.Int
		switch g.Intn(8) {
		case 0:
			v = new(big.Int)
		case 1, 2, 3:
			v = ones
		case 4:
			v = big.NewInt(1)
		case 5:
			v = scxPow2(uint(limb - 1))
		case 6:
			v = scxAddI(ones, -1)
		default:
			v = scxRandBits(g, limb)
		}
		n.Or(n, new(big.Int).Lsh(v, uint(off)))
	}
	return scxMask(n, uint(bits))
}

// scxWalk visits 0..n-1 in a seed dependent full cycle (start + t*step, step coprime to n)
type scxWalk struct{ n, pos, step int }

func newScxWalk(g *Gen, n int) *scxWalk {
	w := &scxWalk{n: n, pos: g.Intn(n), step: 1}
	if n > 2 {
		for {
			s := 1 + g.Intn(n-1)
			if new(big.Int).GCD(nil, nil, big.NewInt(int64(s)), big.NewInt(int64(n))).Int64() == 1 {
				w.step = s
				break
			}
		}
	}
	return w
}
func (w *scxWalk) next() int {
	p := w.pos
	w.pos = (w.pos + w.step) % w.n
	return p
}

// s1Value draws a scalar < 2^255 from a mixture of boundary and random classes
func s1Value(g *Gen, B []*big.Int) (string, *big.Int) {
	switch g.Intn(10) {
	case 0, 1, 2:
		return "bnd", B[g.Intn(len(B))]
	case 3:
		return "rand", scxRandBits(g, 255)
	case 4:
		return "randlen", scxRandBits(g, 1+g.Intn(255))
	case 5:
		return "limb52", scxLimbPattern(g, 255, 52)
	case 6:
		return "limb29", scxLimbPattern(g, 255, 29)
	case 7:
		return "limb64", scxLimbPattern(g, 255, []int{64, 32}[g.Intn(2)])
	case 8:
		// k*L +- e with e of random size
		n := new(big.Int).Mul(refL, big.NewInt(int64(g.Intn(16))))
		e := scxRandBits(g, 1+g.Intn(130))
		if g.Bool() {
			n.Add(n, e)
		} else {
			n.Sub(n, e)
		}
		if n.Sign() < 0 {
			n.Neg(n)
		}
		return "nearkL", scxMask(n, 255)
	default:
		// sparse / dense
		n := new(big.Int)
		for i, k := 0, 1+g.Intn(4); i < k; i++ {
			n.SetBit(n, g.Intn(255), 1)
		}
		if g.Bool() {
			n.Xor(n, new(big.Int).Sub(scxPow2(255), bi1))
			return "dense", n
		}
		return "sparse", n
	}
}

// s1PredValues: 256-bit strings around every decision point of the canonicity predicates
func s1PredValues() []*big.Int {
	s := newScxSet(256)
	for k := int64(0); k <= 16; k++ {
		for e := int64(-2); e <= 2; e++ {
			s.add(scxAddI(new(big.Int).Mul(refL, big.NewInt(k)), e))
		}
	}
	for _, sh := range []uint{8, 51, 52, 64, 116, 124, 125, 126, 128, 156, 192, 208, 232, 248, 250, 251, 252, 253, 254, 255, 256} {
		for e := int64(-2); e <= 2; e++ {
			s.add(scxAddI(scxPow2(sh), e))
		}
	}
	ones64 := new(big.Int).Sub(scxPow2(64), bi1)
	for i := uint(0); i < 4; i++ {
		// one 64-bit limb of L changed by +-1, zeroed, saturated; all lower limbs zeroed / saturated
		s.add(new(big.Int).Add(refL, scxPow2(64*i)))
		s.add(new(big.Int).Sub(refL, scxPow2(64*i)))
		limbMask := new(big.Int).Lsh(ones64, 64*i)
		s.add(new(big.Int).AndNot(refL, limbMask))
		s.add(new(big.Int).Or(refL, limbMask))
		lowMask := new(big.Int).Sub(scxPow2(64*i), bi1)
		s.add(new(big.Int).AndNot(refL, lowMask))
		s.add(new(big.Int).Or(refL, lowMask))
		// ... and the same with bit 255 set
		s.add(new(big.Int).Or(new(big.Int).Sub(refL, scxPow2(64*i)), scxPow2(255)))
	}
	for j := uint(0); j < 32; j++ {
		s.add(new(big.Int).Add(refL, scxPow2(8*j)))
		s.add(new(big.Int).Sub(refL, scxPow2(8*j)))
	}
	for e := int64(-2); e <= 2; e++ {
		s.add(scxAddI(new(big.Int).Add(scxPow2(255), refL), e))
		s.add(scxAddI(new(big.Int).Add(scxPow2(253), refL), e))
		s.add(scxAddI(new(big.Int).Add(scxPow2(254), refL), e))
	}
	low31L := scxMask(refL, 248)
	low31Lm1 := scxMask(scxAddI(refL, -1), 248)
	low31ones := new(big.Int).Sub(scxPow2(248), bi1)
	for _, tb := range []int64{0x00, 0x01, 0x0f, 0x10, 0x11, 0x1f, 0x20, 0x30, 0x40, 0x50, 0x7f, 0x80, 0x8f, 0x90, 0x91, 0xa0, 0xf0, 0xff} {
		top := new(big.Int).Lsh(big.NewInt(tb), 248)
		s.add(new(big.Int).Or(top, low31L))
		s.add(new(big.Int).Or(top, low31Lm1))
		s.add(new(big.Int).Or(top, low31ones))
		s.add(top)
	}
	// the word-wise comparison against the order: every 64-bit word independently below / at / above the order's word
	// (a comparison that skips or mis-orders a word is wrong on some element of this product)
	{
		var ow [4]*big.Int
		for i := uint(0); i < 4; i++ {
			ow[i] = new(big.Int).And(new(big.Int).Rsh(refL, 64*i), ones64)
		}
		alts := func(w *big.Int) []*big.Int {
			var o []*big.Int
			for _, e := range []int64{-1, 0, 1} {
				v := new(big.Int).Add(w, big.NewInt(e))
				if v.Sign() >= 0 && v.Cmp(ones64) <= 0 {
					o = append(o, v)
				}
			}
			return append(o, big.NewInt(0), new(big.Int).Set(ones64))
		}
		for _, w3 := range alts(ow[3]) {
			for _, w2 := range alts(ow[2]) {
				for _, w1 := range alts(ow[1]) {
					for _, w0 := range alts(ow[0]) {
						v := new(big.Int).Set(w3)
						v.Lsh(v, 64).Or(v, w2).Lsh(v, 64).Or(v, w1).Lsh(v, 64).Or(v, w0)
						s.add(v)
					}
				}
			}
		}
	}
	for _, pat := range []byte{0x77, 0x88, 0xff, 0x7f, 0x80, 0xf0, 0x0f, 0x55, 0xaa, 0x10, 0x01} {
		b := make([]byte, 32)
		for i := range b {
			b[i] = pat
		}
		s.add(leInt(b))
	}
	return s.out
}

// s1PredRandom: random 256-bit strings concentrated where the predicates decide
func s1PredRandom(g *Gen) (string, *big.Int) {
	switch g.Intn(7) {
	case 0:
		return "p.rand256", scxRandBits(g, 256)
	case 1:
		return "p.2^252+r128", new(big.Int).Add(scxPow2(252), scxRandBits(g, 120+g.Intn(9)))
	case 2:
		// the top d limbs equal those of L, the rest random
		d := uint(1 + g.Intn(3))
		lowMask := new(big.Int).Sub(scxPow2(64*d), bi1)
		n := new(big.Int).AndNot(refL, lowMask)
		return "p.Lprefix", n.Or(n, scxRandBits(g, int(64*d)))
	case 3:
		e := scxRandBits(g, 1+g.Intn(126))
		if g.Bool() {
			return "p.L+-r", new(big.Int).Add(refL, e)
		}
		return "p.L+-r", new(big.Int).Sub(refL, e)
	case 4:
		// random value below/above L with random high bits 253..255
		n := scxRandBits(g, 252)
		return "p.r252|hi", n.Or(n, new(big.Int).Lsh(big.NewInt(int64(g.Intn(16))), 252))
	case 5:
		return "p.limb", scxLimbPattern(g, 256, []int{64, 52, 29}[g.Intn(3)])
	default:
		n := new(big.Int).Mul(refL, big.NewInt(int64(g.Intn(17))))
		n.Add(n, big.NewInt(int64(g.Intn(9)-4)))
		if n.Sign() < 0 {
			n.Neg(n)
		}
		return "p.kL+-e", scxMask(n, 256)
	}
}

// s1WideValues: 512-bit inputs for SetBytesModOrderWide
func s1WideValues() []*big.Int {
	s := newScxSet(512)
	for _, sh := range []uint{0, 1, 52, 64, 252, 253, 255, 256, 259, 260, 261, 262, 312, 416, 504, 511, 512} {
		for e := int64(-2); e <= 2; e++ {
			s.add(scxAddI(scxPow2(sh), e))
		}
	}
	for _, k := range []int64{1, 2, 3, 7, 8, 15, 16, 17, 255} {
		for _, j := range []uint{0, 1, 3, 4, 8, 52, 64, 128, 192, 248, 252, 253, 255, 256, 257, 259, 260, 261} {
			for e := int64(-1); e <= 1; e++ {
				s.add(scxAddI(new(big.Int).Lsh(new(big.Int).Mul(refL, big.NewInt(k)), j), e))
			}
		}
	}
	LL := new(big.Int).Mul(refL, refL)
	for e := int64(-2); e <= 2; e++ {
		s.add(scxAddI(LL, e))
		s.add(scxAddI(new(big.Int).Lsh(LL, 7), e))
	}
	// largest multiple of L below 2^512 and its neighbours
	top := scxPow2(512)
	m := new(big.Int).Sub(top, new(big.Int).Mod(top, refL))
	m.Sub(m, refL)
	for e := int64(-2); e <= 2; e++ {
		s.add(scxAddI(m, e))
	}
	parts := []*big.Int{new(big.Int), bi1, scxAddI(refL, -1), refL, scxAddI(refL, 1), scxPow2(252), scxAddI(scxPow2(252), -1),
		scxAddI(scxPow2(253), -1), scxAddI(scxPow2(255), -1), scxPow2(255)}
	// hi*2^split + lo at the byte split (256) and the limb splits of the two backends (260, 261)
	for _, split := range []uint{256, 260, 261} {
		lim := scxAddI(scxPow2(split), -1)
		los := append(append([]*big.Int{}, parts...), lim, new(big.Int).Sub(scxPow2(split), refL), scxAddI(lim, -1))
		his := append(append([]*big.Int{}, parts...), scxAddI(scxPow2(512-split), -1), scxAddI(scxPow2(512-split), -2))
		for _, hi := range his {
			for _, lo := range los {
				s.add(new(big.Int).Add(new(big.Int).Lsh(hi, split), lo))
			}
		}
	}
	for _, pat := range []byte{0x77, 0x88, 0xff, 0x7f, 0x80, 0xf0, 0x0f, 0x55, 0xaa} {
		b := make([]byte, 64)
		for i := range b {
			b[i] = pat
		}
		s.add(leInt(b))
	}
	return s.out
}

func s1WideRandom(g *Gen) (string, *big.Int) {
	switch g.Intn(6) {
	case 0, 1:
		return "w.rand512", scxRandBits(g, 512)
	case 2:
		return "w.limb", scxLimbPattern(g, 512, []int{52, 29, 64, 32}[g.Intn(4)])
	case 3:
		// m*L +- e for a random multiplier
		n := new(big.Int).Mul(refL, scxRandBits(g, 1+g.Intn(259)))
		n.Add(n, big.NewInt(int64(g.Intn(5)-2)))
		if n.Sign() < 0 {
			n.Neg(n)
		}
		return "w.mL+-e", scxMask(n, 512)
	case 4:
		return "w.randlen", scxRandBits(g, 1+g.Intn(512))
	default:
		// k*L*2^j +- e
		n := new(big.Int).Lsh(new(big.Int).Mul(refL, big.NewInt(int64(1+g.Intn(64)))), uint(g.Intn(254)))
		n.Add(n, big.NewInt(int64(g.Intn(5)-2)))
		return "w.kL2^j+-e", scxMask(n, 512)
	}
}

func genS1(g *Gen) {
	emit := func(class string, f ...string) {
		if !g.Full() {
			g.Emit(class, append([]string{"S1"}, f...)...)
		}
	}
	B := refScalarBoundary()
	nb := len(B)
	pairs := newScxWalk(g, nb*nb)
	P := s1PredValues()
	pw := newScxWalk(g, len(P))
	W := s1WideValues()
	ww := newScxWalk(g, len(W))
	// operands are normally < 2^255; now and then bit 255 is set to exercise the mask of NewFromBits
	h32 := func(n *big.Int) string {
		if g.Intn(24) == 0 {
			return scxHex(new(big.Int).Or(n, scxPow2(255)), 32)
		}
		return scxHex(n, 32)
	}
	arith := func(class string, a, b *big.Int) {
		ha, hb := h32(a), h32(b)
		emit(class, "add", ha, hb)
		emit(class, "sub", ha, hb)
		emit(class, "mul", ha, hb)
	}
	nonzero := func() (string, *big.Int) {
		for {
			c, v := s1Value(g, B)
			if new(big.Int).Mod(v, refL).Sign() != 0 {
				return c, v
			}
		}
	}
	preds := func(class string, v *big.Int, all bool) {
		h := scxHex(v, 32)
		emit(class, "scminimal", h)
		emit(class, "canon", h)
		emit(class, "frombytes", h)
		emit(class, "iscanon", h)
		if all {
			emit(class, "unmarshal", h)
		}
	}
	lens := []int{0, 1, 2, 7, 8, 15, 16, 24, 30, 31, 33, 34, 39, 40, 63, 64, 65, 128}
	// the thorough tier spends most of its (larger) budget on walking boundary x boundary exhaustively
	nPairs := 3
	if g.Tier == "thorough" {
		nPairs = 12
	}
	// ---- core block: the decisive values are part of EVERY run, whatever the seed and the budget
	{
		L := refL
		p2 := scxPow2
		sum := func(a, b *big.Int) *big.Int { return new(big.Int).Add(a, b) }
		dif := func(a, b *big.Int) *big.Int { return new(big.Int).Sub(a, b) }
		L2 := sum(L, L)
		for _, v := range []*big.Int{new(big.Int), bi1, scxAddI(L, -1), L, scxAddI(L, 1),
			scxAddI(p2(252), -1), p2(252), scxAddI(p2(252), 1), scxAddI(p2(253), -1), p2(253), p2(254),
			scxAddI(p2(255), -1), p2(255), scxAddI(p2(255), 1), sum(p2(255), scxAddI(L, -1)), sum(p2(255), L),
			scxAddI(p2(256), -1), sum(L, p2(64)), dif(L, p2(64)), sum(L, p2(128)), dif(L, p2(128)),
			sum(L, p2(192)), dif(L, p2(192)), scxAddI(L2, -1), L2, scxAddI(L2, 1)} {
			preds("core.pred", v, true)
		}
		C := []*big.Int{new(big.Int), bi1, scxAddI(L, -1), L, scxAddI(L, 1), scxAddI(p2(255), -1)}
		for _, a := range C {
			for _, b := range C {
				ha, hb := scxHex(a, 32), scxHex(b, 32)
				emit("core.arith", "add", ha, hb)
				emit("core.arith", "sub", ha, hb)
				emit("core.arith", "mul", ha, hb)
			}
		}
		for _, a := range append(append([]*big.Int{}, C...), L2, p2(252), p2(254), big.NewInt(2)) {
			h := scxHex(a, 32)
			emit("core.unary", "neg", h)
			emit("core.unary", "reduce", h)
			if new(big.Int).Mod(a, L).Sign() != 0 {
				emit("core.unary", "invert", h)
				emit("core.unary", "batchinvert", h)
			}
		}
		LL := new(big.Int).Mul(L, L)
		top := p2(512)
		m := dif(top, new(big.Int).Mod(top, L)) // largest multiple of L below 2^512
		for _, v := range []*big.Int{new(big.Int), bi1, scxAddI(L, -1), L, scxAddI(L, 1), scxAddI(p2(256), -1), p2(256),
			scxAddI(p2(260), -1), p2(260), p2(261), scxAddI(LL, -1), LL, scxAddI(LL, 1), scxAddI(top, -1), scxAddI(m, -1), m, dif(m, L),
			new(big.Int).Lsh(L, 256), scxAddI(new(big.Int).Lsh(L, 256), -1), new(big.Int).Lsh(L, 259)} {
			if v.BitLen() <= 512 {
				emit("core.wide", "fromwide", scxHex(v, 64))
			}
		}
		emit("core.nary", "sum")
		// long sums of unreduced scalars (an accumulator that is only reduced at the end overflows its limbs after a few
		// dozen terms of 2^255-1)
		for _, k := range []int{36, 37, 40, 74, 75, 100} {
			many := make([]string, 0, k+1)
			many = append(many, "sum")
			for i := 0; i < k; i++ {
				many = append(many, hx(leBytes(scxAddI(p2(255), -1-int64(i%3)), 32)))
			}
			emit("sum.many", many...)
		}
		emit("core.nary", "product")
		emit("core.nary", "batchinvert")
		for _, l := range []int{0, 31, 33} {
			z := make([]byte, l)
			for _, op := range []string{"setbits", "canon", "unmarshal", "scminimal", "frombytes", "fromwide"} {
				emit("core.len", op, hx(z))
			}
		}
		emit("core.len", "fromwide", hx(make([]byte, 32)))
		emit("core.len", "fromwide", hx(make([]byte, 63)))
		emit("core.len", "fromwide", hx(make([]byte, 65)))
	}
	for round := 0; !g.Full(); round++ {
		// boundary x boundary, walked exhaustively over rounds
		for r := 0; r < nPairs; r++ {
			idx := pairs.next()
			arith("bnd2", B[idx/nb], B[idx%nb])
		}
		// mixed classes
		for r := 0; r < 2; r++ {
			ca, a := s1Value(g, B)
			cb, b := s1Value(g, B)
			arith(ca+"*"+cb, a, b)
		}
		// a op a, a op -a, a op (a+L)
		{
			_, a := s1Value(g, B)
			var b *big.Int
			switch g.Intn(3) {
			case 0:
				b = a
			case 1:
				b = new(big.Int).Mod(new(big.Int).Neg(a), refL)
			default:
				b = new(big.Int).Add(a, refL)
				if b.BitLen() > 255 {
					b = new(big.Int).Sub(a, refL)
					if b.Sign() < 0 {
						b = a
					}
				}
			}
			arith("related", a, b)
			emit("equal", "equal", h32(a), h32(b))
			_, c := s1Value(g, B)
			emit("equal", "equal", h32(a), h32(c))
		}
		// unary
		for r := 0; r < 2; r++ {
			c, a := s1Value(g, B)
			h := h32(a)
			emit("u."+c, "neg", h)
			emit("u."+c, "reduce", h)
			emit("u."+c, "iscanon", h)
			c2, z := nonzero()
			emit("inv."+c2, "invert", h32(z))
		}
		// predicates and narrow reduction
		for r := 0; r < 2; r++ {
			preds("p.static", P[pw.next()], r == 0)
		}
		for r := 0; r < 2; r++ {
			c, v := s1PredRandom(g)
			preds(c, v, r == 0)
		}
		// wide reduction
		emit("w.static", "fromwide", scxHex(W[ww.next()], 64))
		emit("w.static", "fromwide", scxHex(W[ww.next()], 64))
		{
			c, v := s1WideRandom(g)
			emit(c, "fromwide", scxHex(v, 64))
		}
		// n-ary
		{
			k := g.Intn(9)
			if round%7 == 0 {
				k = 0
			}
			var inv, any []string
			for i := 0; i < k; i++ {
				_, z := nonzero()
				inv = append(inv, h32(z))
				_, v := s1Value(g, B)
				any = append(any, h32(v))
			}
			emit("batchinvert"+itoa(k), append([]string{"batchinvert"}, inv...)...)
			emit("sum"+itoa(k), append([]string{"sum"}, any...)...)
			emit("product"+itoa(k), append([]string{"product"}, any...)...)
		}
		// small things
		switch round % 4 {
		case 0:
			u := g.U64()
			switch g.Intn(4) {
			case 0:
				u = []uint64{0, 1, 1<<63 - 1, 1 << 63, 1<<64 - 1, 1 << 52, 1<<52 - 1, 1 << 32}[g.Intn(8)]
			case 1:
				u >>= uint(g.Intn(64))
			}
			emit("fromu64", "fromu64", strconv.FormatUint(u, 10))
		case 1:
			// wrong lengths for every decoder
			l := lens[g.Intn(len(lens))]
			if g.Bool() {
				l = g.Intn(41)
				if l == 32 {
					l = 0
				}
			}
			b := g.Bytes(l)
			if g.Bool() {
				for i := range b {
					b[i] = 0
				}
			}
			op := []string{"setbits", "canon", "unmarshal", "scminimal", "frombytes", "fromwide"}[g.Intn(6)]
			if op == "fromwide" && l == 64 {
				b = b[:63]
			}
			emit("len."+op, op, hx(b))
		case 2:
			b := g.Bytes(32)
			emit("setbits", "setbits", hx(b))
			_, a := s1Value(g, B)
			emit("tobytes", "tobytes", h32(a), itoa([]int{32, 0, 31, 33, 64, 32}[g.Intn(6)]))
		case 3:
			_, a := s1Value(g, B)
			_, b := s1Value(g, B)
			emit("condsel", "condsel", h32(a), h32(b), itoa(g.Intn(2)))
			// short / long inputs specifically for the fast minimality test: 0..40 bytes of a canonical-looking prefix
			l := g.Intn(41)
			v := leBytes(scxRandBits(g, 252), 40)[:l]
			emit("len.scminimal", "scminimal", hx(v))
		}
	}
}

// ---------------------------------------------------------------------------------------------
// executor S1

func s1sc(h string) *scalar.Scalar {
	s, err := scalar.NewFromBits(unhex(h))
	if err != nil {
		return nil
	}
	return s
}

func s1hx(s *scalar.Scalar) string {
	var b [scalar.ScalarSize]byte
	if err := s.ToBytes(b[:]); err != nil {
		return "tobytes-failed"
	}
	return hx(b[:])
}

// s1nary evaluates an n-ary operation with a fresh receiver and again with the receiver being the first / the last element
// of the operand slice itself (every routine of the package allows the receiver to alias an operand).
func s1nary(a []string, l []*scalar.Scalar, f func(r *scalar.Scalar, v []*scalar.Scalar) *scalar.Scalar) string {
	want := s1hx(f(scalar.New(), l))
	for _, i := range []int{0, len(l) - 1} {
		if i < 0 || i >= len(l) {
			continue
		}
		l2 := s1list(a)
		if got := s1hx(f(l2[i], l2)); got != want {
			return "alias-mismatch " + want + " " + got
		}
	}
	return "ok " + want
}

func s1list(a []string) []*scalar.Scalar {
	out := make([]*scalar.Scalar, len(a))
	for i, h := range a {
		if out[i] = s1sc(h); out[i] == nil {
			return nil
		}
	}
	return out
}

func s1bin(f func(s, a, b *scalar.Scalar) *scalar.Scalar, ha, hb string) string {
	a, b := s1sc(ha), s1sc(hb)
	if a == nil || b == nil {
		return "err"
	}
	a0, b0 := s1hx(a), s1hx(b)
	r := s1hx(f(scalar.New(), a, b))
	if s1hx(a) != a0 || s1hx(b) != b0 {
		return "operand-modified"
	}
	// receiver aliased with the first, the second, and (when equal) both operands
	a2 := s1sc(ha)
	if s1hx(f(a2, a2, b)) != r {
		return "alias-mismatch 1 " + r
	}
	b2 := s1sc(hb)
	if s1hx(f(b2, a, b2)) != r {
		return "alias-mismatch 2 " + r
	}
	if a0 == b0 {
		a3 := s1sc(ha)
		if s1hx(f(a3, a3, a3)) != r {
			return "alias-mismatch 3 " + r
		}
	}
	return "ok " + r
}

func s1un(f func(s, a *scalar.Scalar) *scalar.Scalar, ha string) string {
	a := s1sc(ha)
	if a == nil {
		return "err"
	}
	a0 := s1hx(a)
	r := s1hx(f(scalar.New(), a))
	if s1hx(a) != a0 {
		return "operand-modified"
	}
	a2 := s1sc(ha)
	if s1hx(f(a2, a2)) != r {
		return "alias-mismatch 1 " + r
	}
	return "ok " + r
}

func execS1(op string, a []string) string {
	switch op {
	case "add":
		return s1bin((*scalar.Scalar).Add, a[0], a[1])
	case "sub":
		return s1bin((*scalar.Scalar).Sub, a[0], a[1])
	case "mul":
		return s1bin((*scalar.Scalar).Mul, a[0], a[1])
	case "neg":
		return s1un((*scalar.Scalar).Neg, a[0])
	case "reduce":
		return s1un((*scalar.Scalar).Reduce, a[0])
	case "invert":
		return s1un((*scalar.Scalar).Invert, a[0])
	case "equal":
		x, y := s1sc(a[0]), s1sc(a[1])
		if x == nil || y == nil {
			return "err"
		}
		e := x.Equal(y)
		if e != y.Equal(x) || (e != 0 && e != 1) {
			return "equal-asymmetric"
		}
		return b2s(e == 1)
	case "condsel":
		x, y := s1sc(a[0]), s1sc(a[1])
		if x == nil || y == nil {
			return "err"
		}
		c, _ := strconv.Atoi(a[2])
		s := scalar.New()
		s.ConditionalSelect(x, y, c)
		return "ok " + s1hx(s)
	case "iscanon":
		x := s1sc(a[0])
		if x == nil {
			return "err"
		}
		return b2s(x.IsCanonical())
	case "setbits":
		b := unhex(a[0])
		s, err := scalar.NewFromBits(b)
		if err != nil {
			return "err"
		}
		// SetBits on an existing value must agree with NewFromBits
		t, err := scalar.NewFromUint64(7).SetBits(b)
		if err != nil || t.Equal(s) != 1 {
			return "setbits-mismatch"
		}
		return "ok " + s1hx(s)
	case "tobytes":
		x := s1sc(a[0])
		if x == nil {
			return "err"
		}
		n, _ := strconv.Atoi(a[1])
		out := make([]byte, n)
		if err := x.ToBytes(out); err != nil {
			return "err"
		}
		return "ok " + hx(out)
	case "frombytes":
		s, err := scalar.NewFromBytesModOrder(unhex(a[0]))
		if err != nil {
			return "err"
		}
		return "ok " + s1hx(s)
	case "fromwide":
		s, err := scalar.NewFromBytesModOrderWide(unhex(a[0]))
		if err != nil {
			return "err"
		}
		return "ok " + s1hx(s)
	case "canon":
		s, err := scalar.NewFromCanonicalBytes(unhex(a[0]))
		if err != nil {
			return "err"
		}
		return "ok " + s1hx(s)
	case "unmarshal":
		s := scalar.NewFromUint64(7)
		if err := s.UnmarshalBinary(unhex(a[0])); err != nil {
			return "err"
		}
		out, err := s.MarshalBinary()
		if err != nil {
			return "marshal-failed"
		}
		return "ok " + hx(out)
	case "scminimal":
		return b2s(scalar.ScMinimalVartime(unhex(a[0])))
	case "fromu64":
		n, err := strconv.ParseUint(a[0], 10, 64)
		if err != nil {
			return "bad-op"
		}
		return "ok " + s1hx(scalar.NewFromUint64(n))
	case "sum":
		l := s1list(a)
		if l == nil && len(a) > 0 {
			return "err"
		}
		return s1nary(a, l, func(r *scalar.Scalar, v []*scalar.Scalar) *scalar.Scalar { return r.Sum(v) })
	case "product":
		l := s1list(a)
		if l == nil && len(a) > 0 {
			return "err"
		}
		return s1nary(a, l, func(r *scalar.Scalar, v []*scalar.Scalar) *scalar.Scalar { return r.Product(v) })
	case "batchinvert":
		l := s1list(a)
		if l == nil && len(a) > 0 {
			return "err"
		}
		ret := scalar.New().BatchInvert(l)
		var sb strings.Builder
		sb.WriteString("ok")
		for _, s := range l {
			sb.WriteString(" " + s1hx(s))
		}
		sb.WriteString(" " + s1hx(ret))
		// once more with the receiver being a member of the batch (first / last): every other element must still become its
		// inverse and the receiver the product of the inverses
		for _, k := range []int{0, len(l) - 1} {
			if k < 0 || k >= len(l) {
				continue
			}
			l2 := s1list(a)
			r2 := l2[k].BatchInvert(l2)
			if s1hx(r2) != s1hx(ret) {
				return "alias-mismatch product " + s1hx(r2) + " " + s1hx(ret)
			}
			for j := range l2 {
				if j != k && s1hx(l2[j]) != s1hx(l[j]) {
					return "alias-mismatch element " + s1hx(l2[j]) + " " + s1hx(l[j])
				}
			}
		}
		return sb.String()
	}
	return "bad-op"
}

// ---------------------------------------------------------------------------------------------
// R1: recodings

// r1Static: the deterministic part of the input set (all < 2^255)
func r1Static() []*big.Int {
	s := newScxSet(255)
	for _, n := range refScalarBoundary() {
		s.add(n)
	}
	for k := uint(0); k <= 255; k++ {
		s.add(scxAddI(scxPow2(k), -1))
		s.add(scxPow2(k))
	}
	// ...7777, ...8888, ...ffff (and 9, 1) of every nibble length
	for _, d := range []int64{7, 8, 15, 9, 1} {
		n := new(big.Int)
		for k := 0; k < 64; k++ {
			n = new(big.Int).Or(new(big.Int).Lsh(n, 4), big.NewInt(d))
			s.add(scxMask(n, 255))
			if d != 7 && d != 8 && d != 15 && k%4 != 3 {
				continue
			}
			// the same run at the top of the scalar
			s.add(scxMask(new(big.Int).Lsh(n, uint(4*(63-k))), 255))
		}
	}
	// runs of ones and of zeros straddling the 64-bit word seams
	all := scxAddI(scxPow2(255), -1)
	for _, seam := range []uint{64, 128, 192} {
		for j := uint(1); j <= 9; j++ {
			for k := uint(1); k <= 9; k++ {
				run := new(big.Int).Sub(scxPow2(seam+k), scxPow2(seam-j))
				s.add(run)
				if j == k || j == 1 || k == 1 || j+k == 9 {
					s.add(new(big.Int).Xor(all, run))
				}
			}
		}
		for e := int64(-3); e <= 3; e++ {
			s.add(scxAddI(scxPow2(seam), e))
		}
	}
	// carry chains that start in one 64-bit word and run through WHOLE higher words: for every radix the digit value that
	// absorbs a carry and passes it on (radix/2 - 1 in every digit of the word), above a word that produces the carry.
	// A word-parallel recoding that mishandles the carry between words is wrong exactly on these (2^-64 per seam at random).
	{
		fill := func(digitBits uint, d uint64) *big.Int { // 64-bit word made of digits d (top partial digit truncated)
			w := new(big.Int)
			for sh := uint(0); sh < 64; sh += digitBits {
				w.Or(w, new(big.Int).Lsh(new(big.Int).SetUint64(d), sh))
			}
			return w.And(w, new(big.Int).Sub(scxPow2(64), bi1))
		}
		for _, db := range []uint{4, 6, 7, 8, 1, 2, 3, 5} {
			half := uint64(1) << (db - 1)
			pass := fill(db, half-1)                      // every digit = radix/2 - 1
			gens := []*big.Int{fill(db, half), fill(db, (1<<db)-1), new(big.Int).Add(pass, bi1), new(big.Int).Sub(scxPow2(64), bi1), scxPow2(63)}
			for lo := uint(0); lo < 3; lo++ {
				for span := uint(1); lo+span < 4; span++ {
					for _, gen := range gens {
						n := new(big.Int).Lsh(gen, 64*lo)
						for k := uint(1); k <= span; k++ {
							n.Or(n, new(big.Int).Lsh(pass, 64*(lo+k)))
						}
						s.add(scxMask(n, 255))
						// ... with everything above set to a non-passing value, and with the word below non-zero
						s.add(scxMask(new(big.Int).Or(n, scxPow2(64*(lo+span)+64-1)), 255))
						if lo > 0 {
							s.add(scxMask(new(big.Int).Or(n, bi1), 255))
						}
					}
				}
			}
		}
	}
	// top-of-scalar patterns (terminal carries)
	for _, tb := range []int64{0x3f, 0x40, 0x70, 0x77, 0x78, 0x7e, 0x7f} {
		for _, nb := range []int64{0x00, 0x7f, 0x80, 0xff} {
			n := new(big.Int).Lsh(big.NewInt(tb), 248)
			n.Or(n, new(big.Int).Lsh(big.NewInt(nb), 240))
			s.add(n)
			s.add(new(big.Int).Or(n, scxAddI(scxPow2(240), -1)))
		}
	}
	return s.out
}

func r1Random(g *Gen) (string, *big.Int) {
	switch g.Intn(8) {
	case 0, 1:
		return "rand255", scxRandBits(g, 255)
	case 2:
		return "randlen", scxRandBits(g, 1+g.Intn(255))
	case 3:
		// radix-2^w digits from the carry-propagating set {2^(w-1)-1, 2^(w-1), 2^w-1, 0, random}
		w := uint(2 + g.Intn(7))
		n := new(big.Int)
		for off := uint(0); off < 255; off += w {
			var d int64
			switch g.Intn(6) {
			case 0:
				d = 1<<(w-1) - 1
			case 1, 2:
				d = 1 << (w - 1)
			case 3:
				d = 1<<w - 1
			case 4:
				d = 0
			default:
				d = int64(g.Intn(1 << w))
			}
			n.Or(n, new(big.Int).Lsh(big.NewInt(d), off))
		}
		return "digitpat" + itoa(int(w)), scxMask(n, 255)
	case 4:
		// nibbles from {0,7,8,f,random}
		n := new(big.Int)
		for off := uint(0); off < 256; off += 4 {
			d := []int64{0, 7, 8, 8, 15, 15, int64(g.Intn(16))}[g.Intn(7)]
			n.Or(n, new(big.Int).Lsh(big.NewInt(d), off))
		}
		return "nibpat", scxMask(n, 255)
	case 5:
		// random with a forced run around one word seam
		n := scxRandBits(g, 255)
		seam := uint(64 * (1 + g.Intn(3)))
		lo, hi := seam-uint(1+g.Intn(9)), seam+uint(1+g.Intn(9))
		run := new(big.Int).Sub(scxPow2(hi), scxPow2(lo))
		if g.Bool() {
			return "seamrun1", n.Or(n, run)
		}
		return "seamrun0", n.AndNot(n, run)
	case 6:
		// top byte 0x7f / 0x7e.. with saturated or random continuation (terminal carry of radix 2^8, last radix-16 digit 8)
		b := g.Bytes(32)
		b[31] = []byte{0x7f, 0x7f, 0x7e, 0x77, 0x78, 0x3f, 0x40}[g.Intn(7)]
		for i := 30; i >= 0 && g.Intn(4) != 0; i-- {
			b[i] = []byte{0xff, 0x80, 0x7f, 0xf8}[g.Intn(4)]
		}
		return "top", leInt(b)
	default:
		return "limb64", scxLimbPattern(g, 255, []int{64, 32, 16}[g.Intn(3)])
	}
}

func genR1(g *Gen) {
	emit := func(class string, f ...string) {
		if !g.Full() {
			g.Emit(class, append([]string{"R1"}, f...)...)
		}
	}
	S := r1Static()
	walk := newScxWalk(g, len(S))
	all := func(class, h string, bits bool) {
		emit(class, "radix16", h)
		for w := 6; w <= 8; w++ {
			emit(class, "radix2w", itoa(w), h)
		}
		for w := 2; w <= 8; w++ {
			emit(class, "naf", itoa(w), h)
		}
		if bits {
			emit(class, "bits", h)
		}
	}
	badw := func(h string) {
		for _, w := range []int{0, 1, 9, 10, 63, 64, 65, 255} {
			emit("badw", "naf", itoa(w), h)
		}
		for _, w := range []int{0, 1, 2, 4, 5, 9, 10, 64, 255} {
			emit("badw", "radix2w", itoa(w), h)
		}
	}
	// ---- core block: part of every run
	{
		p2 := scxPow2
		x7 := make([]byte, 32)
		x8 := make([]byte, 32)
		xt := make([]byte, 32) // top byte 0x7f above 0x80: terminal carry of the radix-256 form
		for i := range x7 {
			x7[i], x8[i] = 0x77, 0x88
		}
		x8[31] = 0x08
		xt[31], xt[30] = 0x7f, 0x80
		for _, v := range []*big.Int{new(big.Int), bi1, big.NewInt(2), scxAddI(refL, -1), refL, scxAddI(refL, 1),
			scxAddI(p2(255), -1), scxAddI(p2(255), -2), p2(254), scxAddI(p2(254), -1), scxAddI(p2(64), -1), p2(64),
			scxAddI(p2(128), -1), scxAddI(p2(192), -1), leInt(x7), leInt(x8), leInt(xt)} {
			all("core", scxHex(v, 32), true)
		}
		for _, w := range []int{0, 1, 4, 5, 6, 7, 8, 9, 10, 16, 64, 256} {
			emit("sizehint", "sizehint", itoa(w))
		}
		badw(scxHex(refL, 32))
	}
	for round := 0; !g.Full(); round++ {
		var (
			class string
			v     *big.Int
		)
		if round%3 == 2 {
			class, v = r1Random(g)
		} else {
			class, v = "static", S[walk.next()]
		}
		h := scxHex(v, 32)
		if g.Intn(32) == 0 {
			// NewFromBits masks bit 255
			h = scxHex(new(big.Int).Or(v, scxPow2(255)), 32)
			class += "+hi"
		}
		all(class, h, round%4 == 0)
		if round%64 == 5 {
			badw(h)
		}
	}
}

func r1digits8(d []int8) string {
	var sb strings.Builder
	sb.WriteString("digits")
	for _, x := range d {
		sb.WriteByte(' ')
		sb.WriteString(strconv.Itoa(int(x)))
	}
	return sb.String()
}

func execR1(op string, a []string) string {
	switch op {
	case "bits":
		s := s1sc(a[0])
		if s == nil {
			return "err"
		}
		out := s.Bits()
		var sb strings.Builder
		sb.WriteString("digits")
		for _, x := range out {
			sb.WriteByte(' ')
			sb.WriteString(strconv.Itoa(int(x)))
		}
		return sb.String()
	case "naf":
		w, err := strconv.ParseUint(a[0], 10, 32)
		s := s1sc(a[1])
		if err != nil || s == nil {
			return "err"
		}
		out := s.NonAdjacentForm(uint(w))
		return r1digits8(out[:])
	case "radix16":
		s := s1sc(a[0])
		if s == nil {
			return "err"
		}
		out := s.ToRadix16()
		return r1digits8(out[:])
	case "radix2w":
		w, err := strconv.ParseUint(a[0], 10, 32)
		s := s1sc(a[1])
		if err != nil || s == nil {
			return "err"
		}
		out := s.ToRadix2w(uint(w))
		return r1digits8(out[:])
	case "sizehint":
		w, err := strconv.ParseUint(a[0], 10, 32)
		if err != nil {
			return "err"
		}
		return "digits " + strconv.FormatUint(uint64(scalar.ToRadix2wSizeHint(uint(w))), 10)
	}
	return "bad-op"
}

func init() {
	register(&Stream{Name: "S1", Gen: genS1, Exec: execS1})
	register(&Stream{Name: "R1", Gen: genR1, Exec: execR1})
}
