//go:build (amd64 || arm64 || ppc64le || ppc64 || s390x || force64bit) && !force32bit

package main

// k0ScalarRadixBits: log2 of the Montgomery radix R of the scalar backend selected by the build
// constraints of curve/scalar/constants_u64.go (5 limbs of 52 bits).
const k0ScalarRadixBits = 260
