package main

// Stream K0 (property C20): the precomputed constants and tables exactly as the RUNNING binary
// holds them, in this build configuration — in particular what exists only at run time: the tables
// the AVX2 vector backend builds in curve.init, and the serial tables after unpacking.  It is also
// a cross-check of the translator (`go2ir -globals`) whose dump the Lean theorems are about.
//
// The generator is EXHAUSTIVE (every entry of every table, every constant) and ignores the
// request budget.  Requests describe the configuration where the expected reply depends on it
// (v = 1 iff the vector backend is expected to be active; r = log2 of the scalar Montgomery radix);
// both are derived from build constraints / CPU feature bits, not from the library's own flags.
//
//	tbl.base i j            ED25519_BASEPOINT_TABLE entry (i, j), the table the library's dispatch uses   -> ok enc(P) enc(B+P)
//	tbl.serialbase i j v    … its serial table `inner`        (dropped at start-up when v = 1)            -> ok … | err
//	tbl.vecbase i j v       … its vector table `innerVector`  (built at start-up when v = 1)              -> ok … | err
//	tbl.rbase / tbl.rserialbase / tbl.rvecbase                the same for the copy in RISTRETTO_BASEPOINT_TABLE
//	tbl.unpacked i j        a fresh unpackEdwardsBasepointTable()                                          -> ok enc(P) enc(B+P)
//	tbl.oddB j              constAFFINE_ODD_MULTIPLES_OF_BASEPOINT[j]                                      -> ok enc(P) enc(B+P)
//	tbl.oddBshl128 j        constAFFINE_ODD_MULTIPLES_OF_B_SHL_128[j]
//	tbl.vecoddB j v         constVECTOR_ODD_MULTIPLES_OF_BASEPOINT[j]   (nil unless v = 1)                -> ok … | err
//	tbl.vecoddBshl128 j v   constVECTOR_ODD_MULTIPLES_OF_B_SHL_128[j]
//	const <name> [v|r]      -> ok <canonical bytes> [01 = stored coordinates consistent]
//
// P is the point an entry denotes; it is (j+1)·256^i·B resp. (2j+1)·B resp. (2j+1)·2^128·B.

import (
	"strconv"

	"github.com/oasisprotocol/curve25519-voi/curve"
	"github.com/oasisprotocol/curve25519-voi/curve/scalar"
	"github.com/oasisprotocol/curve25519-voi/internal/elligator"
	"github.com/oasisprotocol/curve25519-voi/internal/field"
	"github.com/oasisprotocol/curve25519-voi/internal/lattice"
)

func init() { register(&Stream{Name: "K0", Gen: genK0, Exec: execK0}) }

func k0Pair(p, bp []byte, ok bool) string {
	if !ok {
		return "err"
	}
	return "ok " + hx(p) + " " + hx(bp)
}

func k0Bytes(b []byte, ok bool) string {
	if !ok {
		return "err"
	}
	return "ok " + hx(b)
}

func k0FieldBytes(fe *field.Element) string {
	var out [field.ElementSize]byte
	if err := fe.ToBytes(out[:]); err != nil {
		return "err"
	}
	return "ok " + hx(out[:])
}

var k0LatticeIdx = map[string]int{"ellSquared": 0, "ELL_LOWER_HALF": 1, "i512One": 2, "i128One": 3, "i128Zero": 4}

func execK0(op string, a []string) string {
	n := make([]int, len(a))
	if op != "const" {
		for i, s := range a {
			v, err := strconv.Atoi(s)
			if err != nil {
				return "err"
			}
			n[i] = v
		}
	}
	switch op {
	case "tbl.base", "tbl.rbase", "tbl.unpacked":
		if len(a) != 2 {
			return "err"
		}
		switch op {
		case "tbl.base":
			return k0Pair(curve.VerifKBase("active", n[0], n[1]))
		case "tbl.rbase":
			return k0Pair(curve.VerifKRistrettoBase("active", n[0], n[1]))
		}
		return k0Pair(curve.VerifKBaseUnpacked(n[0], n[1]))
	case "tbl.serialbase", "tbl.vecbase", "tbl.rserialbase", "tbl.rvecbase":
		if len(a) != 3 {
			return "err"
		}
		which := "serial"
		if op == "tbl.vecbase" || op == "tbl.rvecbase" {
			which = "vector"
		}
		if op[4] == 'r' {
			return k0Pair(curve.VerifKRistrettoBase(which, n[0], n[1]))
		}
		return k0Pair(curve.VerifKBase(which, n[0], n[1]))
	case "tbl.oddB", "tbl.oddBshl128":
		if len(a) != 1 {
			return "err"
		}
		return k0Pair(curve.VerifKOdd(op == "tbl.oddBshl128", n[0]))
	case "tbl.vecoddB", "tbl.vecoddBshl128":
		if len(a) != 2 {
			return "err"
		}
		return k0Pair(curve.VerifKVecOdd(op == "tbl.vecoddBshl128", n[0]))
	case "const":
		if len(a) < 1 || len(a) > 2 {
			return "err"
		}
		return k0Const(a[0])
	}
	return "bad-op"
}

func k0Const(name string) string {
	pkg, id := name, ""
	for i := 0; i < len(name); i++ {
		if name[i] == '.' {
			pkg, id = name[:i], name[i+1:]
			break
		}
	}
	switch pkg {
	case "field":
		switch id {
		case "One":
			return k0FieldBytes(&field.One)
		case "Two":
			return k0FieldBytes(&field.Two)
		case "MinusOne":
			return k0FieldBytes(&field.MinusOne)
		case "SQRT_M1":
			return k0FieldBytes(&field.SQRT_M1)
		}
	case "elligator":
		return k0Bytes(elligator.VerifKConst(id))
	case "scalar":
		if id == "BASEPOINT_ORDER" {
			var out [scalar.ScalarSize]byte
			if err := scalar.BASEPOINT_ORDER.ToBytes(out[:]); err != nil {
				return "err"
			}
			return "ok " + hx(out[:])
		}
		return k0Bytes(scalar.VerifKConst(id))
	case "lattice":
		if i, ok := k0LatticeIdx[id]; ok {
			return "ok " + hx(lattice.VerifLatticeConsts()[i])
		}
	case "curve":
		switch id {
		case "ED25519_BASEPOINT_COMPRESSED":
			return "ok " + hx(curve.ED25519_BASEPOINT_COMPRESSED[:])
		case "RISTRETTO_BASEPOINT_COMPRESSED":
			return "ok " + hx(curve.RISTRETTO_BASEPOINT_COMPRESSED[:])
		case "X25519_BASEPOINT":
			return "ok " + hx(curve.X25519_BASEPOINT[:])
		case "noncanonicalSignBits.0":
			return k0Bytes(curve.VerifKNoncanonicalSignBits(0))
		case "noncanonicalSignBits.1":
			return k0Bytes(curve.VerifKNoncanonicalSignBits(1))
		case "noncanonicalSignBits.2": // there is no third one
			return k0Bytes(curve.VerifKNoncanonicalSignBits(2))
		case "RISTRETTO_BASEPOINT_POINT": // its ristretto255 encoding, through the public API
			var c curve.CompressedRistretto
			c.SetRistrettoPoint(curve.RISTRETTO_BASEPOINT_POINT)
			return "ok " + hx(c[:])
		case "vecidentity":
			return k0Bytes(curve.VerifKVecIdentity())
		case "B", "RB", "BSHL128", "T0", "T1", "T2", "T3", "T4", "T5", "T6", "T7":
			enc, consistent, ok := curve.VerifKPoint(id)
			if !ok {
				return "err"
			}
			c := "00"
			if consistent {
				c = "01"
			}
			return "ok " + hx(enc) + " " + c
		}
		return k0Bytes(curve.VerifKField(id))
	}
	return "err"
}

func genK0(g *Gen) {
	v := "0"
	if k0VectorExpected() {
		v = "1"
	}
	r := itoa(k0ScalarRadixBits)
	for i := 0; i < 32; i++ {
		for j := 0; j < 8; j++ {
			si, sj := itoa(i), itoa(j)
			g.Emit("base.active", "K0", "tbl.base", si, sj)
			g.Emit("base.serial.v"+v, "K0", "tbl.serialbase", si, sj, v)
			g.Emit("base.vector.v"+v, "K0", "tbl.vecbase", si, sj, v)
			g.Emit("rbase.active", "K0", "tbl.rbase", si, sj)
			g.Emit("rbase.serial.v"+v, "K0", "tbl.rserialbase", si, sj, v)
			g.Emit("rbase.vector.v"+v, "K0", "tbl.rvecbase", si, sj, v)
			g.Emit("base.unpacked", "K0", "tbl.unpacked", si, sj)
		}
	}
	for j := 0; j < 64; j++ {
		sj := itoa(j)
		g.Emit("oddB", "K0", "tbl.oddB", sj)
		g.Emit("oddBshl128", "K0", "tbl.oddBshl128", sj)
		g.Emit("vecoddB.v"+v, "K0", "tbl.vecoddB", sj, v)
		g.Emit("vecoddBshl128.v"+v, "K0", "tbl.vecoddBshl128", sj, v)
	}
	for _, c := range []string{
		"field.One", "field.Two", "field.MinusOne", "field.SQRT_M1",
		"curve.D", "curve.D2", "curve.MINUS_ONE", "curve.SQRT_AD_MINUS_ONE", "curve.INVSQRT_A_MINUS_D",
		"curve.ONE_MINUS_D_SQ", "curve.D_MINUS_ONE_SQ",
		"elligator.Zero", "elligator.A", "elligator.NEG_A", "elligator.A_SQUARED", "elligator.SQRT_NEG_A_PLUS_TWO",
		"elligator.U_FACTOR", "elligator.V_FACTOR",
		"curve.B", "curve.RB", "curve.BSHL128",
		"curve.T0", "curve.T1", "curve.T2", "curve.T3", "curve.T4", "curve.T5", "curve.T6", "curve.T7",
		"curve.ED25519_BASEPOINT_COMPRESSED", "curve.RISTRETTO_BASEPOINT_COMPRESSED", "curve.RISTRETTO_BASEPOINT_POINT",
		"curve.X25519_BASEPOINT", "curve.noncanonicalSignBits.0", "curve.noncanonicalSignBits.1",
		"scalar.BASEPOINT_ORDER", "scalar.order",
		"lattice.ellSquared", "lattice.ELL_LOWER_HALF", "lattice.i512One", "lattice.i128One", "lattice.i128Zero",
	} {
		g.Emit("const", "K0", "const", c)
	}
	g.Emit("const.vec.v"+v, "K0", "const", "curve.vecidentity", v)
	for _, c := range []string{"scalar.L", "scalar.R", "scalar.RR"} {
		g.Emit("const.radix"+r, "K0", "const", c, r)
	}
	// the edges of the index spaces and unknown names: nothing beyond the tables
	for _, q := range [][]string{
		{"tbl.base", "32", "0"}, {"tbl.base", "0", "8"}, {"tbl.base", "-1", "0"}, {"tbl.rbase", "32", "7"},
		{"tbl.unpacked", "31", "8"}, {"tbl.serialbase", "32", "0", v}, {"tbl.vecbase", "0", "8", v},
		{"tbl.oddB", "64"}, {"tbl.oddBshl128", "64"}, {"tbl.oddB", "-1"}, {"tbl.vecoddB", "64", v}, {"tbl.vecoddBshl128", "64", v},
		{"const", "curve.noncanonicalSignBits.2"}, {"const", "curve.T8"}, {"const", "nosuch.thing"},
	} {
		g.Emit("edge", append([]string{"K0"}, q...)...)
	}
}
