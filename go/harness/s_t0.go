package main

// Stream T0: the real limb-level functions (through the wrappers go2ir generates) against the IR programs go2ir
// translated them into.  Inputs cover the whole machine width — the IR must equal the Go semantics everywhere, not
// only inside the specification's precondition — except for "@entry" comparisons (assembly vs. the program of the
// generic source), which are only required to agree inside the documented precondition.

import (
	"bufio"
	"fmt"
	"math/big"
	"os"
	"strconv"
	"strings"

	"github.com/oasisprotocol/curve25519-voi/curve"
	"github.com/oasisprotocol/curve25519-voi/curve/scalar"
	"github.com/oasisprotocol/curve25519-voi/internal/field"
)

type t0Prog struct {
	name   string
	inBits []int
}

func t0Load() map[string]t0Prog {
	path := os.Getenv("VERIF_IR")
	if path == "" {
		path = "/verif/build/gen/ir.txt"
	}
	out := map[string]t0Prog{}
	fh, err := os.Open(path)
	if err != nil {
		return out
	}
	defer fh.Close()
	sc := bufio.NewScanner(fh)
	sc.Buffer(make([]byte, 1<<24), 1<<24)
	for sc.Scan() {
		hd := strings.SplitN(sc.Text(), " ; ", 2)[0]
		f := strings.Fields(hd)
		if len(f) < 4 || (f[0] != "prog" && f[0] != "tree") {
			continue
		}
		p := t0Prog{name: f[1]}
		if f[3] != "" {
			for _, b := range strings.Split(f[3], ",") {
				n, _ := strconv.Atoi(b)
				p.inBits = append(p.inBits, n)
			}
		}
		out[p.name] = p
	}
	return out
}

func t0Call(name string, in []uint64) ([]uint64, bool) {
	if r, ok := field.VerifT0(name, in); ok {
		return r, true
	}
	if r, ok := curve.VerifT0(name, in); ok {
		return r, true
	}
	return scalar.VerifT0(name, in)
}

func t0Val(g *Gen, bits int, capBits int) uint64 {
	if capBits > 0 && capBits < bits {
		bits = capBits
	}
	max := ^uint64(0)
	if bits < 64 {
		max = (uint64(1) << uint(bits)) - 1
	}
	switch g.Intn(12) {
	case 0:
		return 0
	case 1:
		return 1
	case 2:
		return max
	case 3:
		return max - 1
	case 4: // 2^k - 1
		return (uint64(1) << uint(g.Intn(bits))) - 1
	case 5: // 2^k
		return (uint64(1) << uint(g.Intn(bits))) & max
	case 6: // near the nominal limb sizes
		k := []int{25, 26, 29, 51, 52}[g.Intn(5)]
		if k >= bits {
			k = bits - 1
		}
		return ((uint64(1) << uint(k)) + uint64(g.Intn(5)) - 2) & max
	}
	return g.U64() & max
}

func genT0(g *Gen) {
	progs := t0Load()
	var names []string
	for _, n := range field.VerifT0Names() {
		names = append(names, n)
	}
	for _, n := range scalar.VerifT0Names() {
		names = append(names, n)
	}
	for _, n := range curve.VerifT0Names() {
		names = append(names, n)
	}
	if len(names) == 0 {
		return
	}
	for round := 0; !g.Full(); round++ {
		for _, name := range names {
			base := strings.SplitN(name, "@", 2)[0]
			p, ok := progs[base]
			if !ok {
				continue
			}
			capBits := 0
			if strings.Contains(name, "@") || (field.VerifUsesAsm() && name == "FieldU64.Square2") {
				capBits = 54 // assembly and generic code are only required to agree inside the documented precondition
			}
			mode := round % 4 // 0: all corner-ish/random mix, 1: all max, 2: one hot limb, 3: random
			line := []string{"T0", "run", name}
			hot := g.Intn(len(p.inBits) + 1)
			for i, b := range p.inBits {
				var v uint64
				bb := b
				if capBits > 0 && capBits < bb {
					bb = capBits
				}
				max := ^uint64(0)
				if bb < 64 {
					max = (uint64(1) << uint(bb)) - 1
				}
				switch mode {
				case 1:
					v = max
				case 2:
					if i == hot {
						v = max
					} else {
						v = uint64(g.Intn(3))
					}
				case 3:
					v = g.U64() & max
				default:
					v = t0Val(g, b, capBits)
				}
				if strings.HasPrefix(name, "Pred.") {
					// byte predicates: mostly extreme byte values, so that long prefixes of the comparison chains are taken
					switch g.Intn(6) {
					case 0:
						v = uint64(g.Intn(256))
					case 1:
						v = 0
					case 2:
						v = 255
					default:
						v = []uint64{0xff, 0xff, 0xff, 0x7f, 0xed, 0xec, 0xee, 0x10, 0x0f, 0x00, 0x01, 0x80, 0x14, 0xde}[g.Intn(14)]
					}
				}
				// a selector/choice argument is only ever 0 or 1
				if b == 64 && strings.Contains(name, "Conditional") && i == len(p.inBits)-1 {
					v &= 1
				}
				line = append(line, strconv.FormatUint(v, 10))
			}
			// Functions that go through the assembly entry points produce a different (equally valid) limb distribution
			// than the program of the generic source: compare through the abstraction function (value mod p) instead.
			viaAsm := strings.Contains(name, "@") || (field.VerifUsesAsm() && name == "FieldU64.Square2")
			if viaAsm {
				line[1] = "runv"
			}
			g.Emit(fmt.Sprintf("%s.m%d", name, mode), line...)
			if g.Full() {
				break
			}
		}
	}
}

func execT0(op string, a []string) string {
	if op != "run" && op != "runv" {
		return "bad-op"
	}
	in := make([]uint64, len(a)-1)
	for i, s := range a[1:] {
		in[i], _ = strconv.ParseUint(s, 10, 64)
	}
	out, ok := t0Call(a[0], in)
	if !ok {
		return "err no-such-program"
	}
	if op == "runv" {
		// value of a 5x51-bit element modulo p, and whether every limb is below 2^53
		val := new(big.Int)
		small := true
		for i := len(out) - 1; i >= 0; i-- {
			val.Lsh(val, 51)
			val.Add(val, new(big.Int).SetUint64(out[i]))
			if out[i]>>53 != 0 {
				small = false
			}
		}
		val.Mod(val, refP)
		return "ok " + val.String() + " " + b2s(small)[5:]
	}
	var sb strings.Builder
	sb.WriteString("ok")
	for _, v := range out {
		sb.WriteString(" ")
		sb.WriteString(strconv.FormatUint(v, 10))
	}
	return sb.String()
}

func init() { register(&Stream{Name: "T0", Gen: genT0, Exec: execT0}) }
