package main

// Stream Q1 (property C12): sr25519 = schnorrkel over Merlin transcripts and ristretto255.
//
// Transcript arguments `kind ctx msg`: NewSigningContext(ctx) and then, by kind,
//
//	bytes                      NewTranscriptBytes(msg)
//	sha256 sha512 sha3-256 sha3-512   NewTranscriptHash(h) with msg written to h (labels sign-256 / sign-512)
//	sha224 sha384              NewTranscriptHash with a 28/48-byte digest: documented panic
//	shake128 shake256          NewTranscriptXOF(x) with msg written to x
//	xofraw                     NewTranscriptXOF(bytes.Reader(msg)): the first 32 bytes of msg; fewer: documented panic
//
// (the signing context is used for a decoy transcript first: it must not be changed by producing transcripts).
//
//	sr.expand mode msk                  mode = uniform|ed25519; NewMiniSecretKeyFromBytes + Expand…   -> ok sk64 pk32 | err
//	sr.sk.fromed b                      NewSecretKeyFromEd25519Bytes                                  -> ok sk64 pk32 | err
//	sr.sign kind ctx msg entropy kp96   NewKeyPairFromBytes; Sign(bytes.Reader(entropy), t); the signature is marshalled,
//	                                    unmarshalled and verified on the SAME transcript object       -> ok sig64 01|00 | err
//	                                    (exactly 32 bytes of entropy must have been consumed, else `fail consumed`)
//	sr.sign.rand kind ctx msg kp96      Sign(nil, t) (crypto/rand), marshal, unmarshal, Verify        -> bool | err
//	sr.verify kind ctx msg pk sig       NewPublicKeyFromBytes, NewSignatureFromBytes, Verify (twice)  -> bool | err
//	sr.verify.recv kind ctx msg pk sig  Verify on the receivers as UnmarshalBinary left them (errors ignored)  -> bool
//	sr.dec.sig|pk|sk|kp|msk pre b       receiver preloaded with the valid encoding `pre` (`-`: zero value), then
//	                                    UnmarshalBinary(b); prints MarshalBinary of the receiver      -> ok bytes | err bytes
//	                                    (with pre = `-` the New…FromBytes constructor must agree, and b must not be modified)
//	sr.b.new id cap                     NewBatchVerifierWithCapacity(cap) (cap < 0: NewBatchVerifier) -> ok
//	sr.b.add id kind ctx msg pk sig     UnmarshalBinary into fresh receivers (errors noted, receivers used anyway), Add
//	                                                                                                  -> ok | err (entry added in both cases)
//	sr.b.verify id entropy              Verify(bytes.Reader(entropy)) / Verify(nil) for `nil`         -> bools all v1 .. vn
//	sr.b.only id entropy                VerifyBatchOnly                                               -> bool
//	sr.b.reset id                       Reset                                                         -> ok
//
// The generator contains its OWN schnorrkel signer (big.Int curve arithmetic from ref.go / s_ristretto.go, the
// RFC 9496 encoder ported to big.Int, key expansion and framing written out again) on top of the library's
// `merlin` package (which stream M1 checks on its own) - the way V1 uses crypto/sha512.  Nothing of package
// sr25519 is called while generating, and no expected answer is computed here.

import (
	"bytes"
	"crypto/sha256"
	"crypto/sha512"
	"hash"
	"io"
	"math/big"
	"strconv"
	"strings"

	"golang.org/x/crypto/sha3"

	"github.com/oasisprotocol/curve25519-voi/primitives/merlin"
	"github.com/oasisprotocol/curve25519-voi/primitives/sr25519"
)

// ---------------------------------------------------------------------------------------------
// executor

var q1Batches map[int]*sr25519.BatchVerifier

func q1Reset() { q1Batches = map[int]*sr25519.BatchVerifier{} }

func q1Atoi(s string) int {
	n, err := strconv.Atoi(s)
	if err != nil {
		panic("harness: bad int " + s)
	}
	return n
}

func q1Hash(kind string) hash.Hash {
	switch kind {
	case "sha256":
		return sha256.New()
	case "sha512":
		return sha512.New()
	case "sha3-256":
		return sha3.New256()
	case "sha3-512":
		return sha3.New512()
	case "sha224":
		return sha256.New224()
	case "sha384":
		return sha512.New384()
	}
	return nil
}

// q1MkTranscript builds the signing transcript through the public API (may panic: documented panics).
func q1MkTranscript(kind string, ctx, msg []byte) *sr25519.SigningTranscript {
	sc := sr25519.NewSigningContext(ctx)
	_ = sc.NewTranscriptBytes([]byte("decoy")) // the context must be unaffected
	switch kind {
	case "bytes":
		return sc.NewTranscriptBytes(msg)
	case "shake128":
		x := sha3.NewShake128()
		_, _ = x.Write(msg)
		return sc.NewTranscriptXOF(x)
	case "shake256":
		x := sha3.NewShake256()
		_, _ = x.Write(msg)
		return sc.NewTranscriptXOF(x)
	case "xofraw":
		return sc.NewTranscriptXOF(bytes.NewReader(msg))
	}
	h := q1Hash(kind)
	if h == nil {
		panic("harness: bad kind " + kind)
	}
	_, _ = h.Write(msg)
	return sc.NewTranscriptHash(h)
}

type q1Codec interface {
	UnmarshalBinary([]byte) error
	MarshalBinary() ([]byte, error)
}

// q1Dec runs one decoder request on receiver x; ctor is the New…FromBytes constructor.
func q1Dec(x q1Codec, ctor func([]byte) (q1Codec, error), pre string, b []byte) string {
	if pre != "-" {
		if err := x.UnmarshalBinary(unhex(pre)); err != nil {
			return "bad-gen"
		}
	}
	orig := append([]byte{}, b...)
	err := x.UnmarshalBinary(b)
	if !bytes.Equal(orig, b) {
		return "fail input-modified"
	}
	m, merr := x.MarshalBinary()
	if merr != nil {
		return "fail marshal"
	}
	if pre == "-" {
		y, err2 := ctor(b)
		if (err == nil) != (err2 == nil) {
			return "fail ctor"
		}
		if err2 == nil {
			m2, _ := y.MarshalBinary()
			if !bytes.Equal(m, m2) {
				return "fail ctor-marshal"
			}
		}
	}
	if err != nil {
		return "err " + hx(m)
	}
	return "ok " + hx(m)
}

func q1SkPk(sk *sr25519.SecretKey) string {
	skb, err := sk.MarshalBinary()
	if err != nil {
		return "fail marshal"
	}
	pkb, err := sk.PublicKey().MarshalBinary()
	if err != nil {
		return "fail marshal"
	}
	// the key pair derived from the secret key must serialise as sk ‖ pk
	kpb, err := sk.KeyPair().MarshalBinary()
	if err != nil || !bytes.Equal(kpb, append(append([]byte{}, skb...), pkb...)) {
		return "fail keypair"
	}
	return "ok " + hx(skb) + " " + hx(pkb)
}

func q1Rand(s string) io.Reader {
	if s == "nil" {
		return nil
	}
	return bytes.NewReader(unhex(s))
}

func execQ1(op string, a []string) string {
	switch op {
	case "sr.expand":
		msk, err := sr25519.NewMiniSecretKeyFromBytes(unhex(a[1]))
		if err != nil {
			return "err"
		}
		switch a[0] {
		case "uniform":
			return q1SkPk(msk.ExpandUniform())
		case "ed25519":
			return q1SkPk(msk.ExpandEd25519())
		}
		return "bad-op"
	case "sr.sk.fromed":
		sk, err := sr25519.NewSecretKeyFromEd25519Bytes(unhex(a[0]))
		if err != nil {
			return "err"
		}
		return q1SkPk(sk)
	case "sr.sign":
		st := q1MkTranscript(a[0], unhex(a[1]), unhex(a[2]))
		kp, err := sr25519.NewKeyPairFromBytes(unhex(a[4]))
		if err != nil {
			return "err"
		}
		entropy := unhex(a[3])
		rd := bytes.NewReader(entropy)
		sig, err := kp.Sign(rd, st)
		if err != nil {
			return "err"
		}
		if len(entropy)-rd.Len() != 32 {
			return "fail consumed"
		}
		sb, err := sig.MarshalBinary()
		if err != nil {
			return "fail marshal"
		}
		v := "00"
		if sig2, err := sr25519.NewSignatureFromBytes(sb); err == nil && kp.PublicKey().Verify(st, sig2) {
			v = "01"
		}
		return "ok " + hx(sb) + " " + v
	case "sr.sign.rand":
		st := q1MkTranscript(a[0], unhex(a[1]), unhex(a[2]))
		kp, err := sr25519.NewKeyPairFromBytes(unhex(a[3]))
		if err != nil {
			return "err"
		}
		sig, err := kp.Sign(nil, st)
		if err != nil {
			return "err"
		}
		sb, err := sig.MarshalBinary()
		if err != nil {
			return "fail marshal"
		}
		sig2, err := sr25519.NewSignatureFromBytes(sb)
		if err != nil {
			return "bool 0"
		}
		return b2s(kp.PublicKey().Verify(st, sig2))
	case "sr.verify":
		st := q1MkTranscript(a[0], unhex(a[1]), unhex(a[2]))
		pk, err := sr25519.NewPublicKeyFromBytes(unhex(a[3]))
		if err != nil {
			return "err"
		}
		sig, err := sr25519.NewSignatureFromBytes(unhex(a[4]))
		if err != nil {
			return "err"
		}
		r1 := pk.Verify(st, sig)
		if r2 := pk.Verify(st, sig); r1 != r2 { // Verify must not disturb the transcript
			return "fail verify-twice"
		}
		return b2s(r1)
	case "sr.verify.recv":
		st := q1MkTranscript(a[0], unhex(a[1]), unhex(a[2]))
		var pk sr25519.PublicKey
		var sig sr25519.Signature
		_ = pk.UnmarshalBinary(unhex(a[3]))
		_ = sig.UnmarshalBinary(unhex(a[4]))
		return b2s(pk.Verify(st, &sig))
	case "sr.dec.sig":
		return q1Dec(&sr25519.Signature{}, func(b []byte) (q1Codec, error) { return sr25519.NewSignatureFromBytes(b) }, a[0], unhex(a[1]))
	case "sr.dec.pk":
		return q1Dec(&sr25519.PublicKey{}, func(b []byte) (q1Codec, error) { return sr25519.NewPublicKeyFromBytes(b) }, a[0], unhex(a[1]))
	case "sr.dec.sk":
		return q1Dec(&sr25519.SecretKey{}, func(b []byte) (q1Codec, error) { return sr25519.NewSecretKeyFromBytes(b) }, a[0], unhex(a[1]))
	case "sr.dec.kp":
		return q1Dec(&sr25519.KeyPair{}, func(b []byte) (q1Codec, error) { return sr25519.NewKeyPairFromBytes(b) }, a[0], unhex(a[1]))
	case "sr.dec.msk":
		return q1Dec(&sr25519.MiniSecretKey{}, func(b []byte) (q1Codec, error) { return sr25519.NewMiniSecretKeyFromBytes(b) }, a[0], unhex(a[1]))
	case "sr.b.new":
		if c := q1Atoi(a[1]); c < 0 {
			q1Batches[q1Atoi(a[0])] = sr25519.NewBatchVerifier()
		} else {
			q1Batches[q1Atoi(a[0])] = sr25519.NewBatchVerifierWithCapacity(c)
		}
		return "ok"
	case "sr.b.add":
		v := q1Batches[q1Atoi(a[0])]
		if v == nil {
			return "bad-op"
		}
		st := q1MkTranscript(a[1], unhex(a[2]), unhex(a[3]))
		var pk sr25519.PublicKey
		var sig sr25519.Signature
		e1 := pk.UnmarshalBinary(unhex(a[4]))
		e2 := sig.UnmarshalBinary(unhex(a[5]))
		v.Add(&pk, st, &sig)
		if e1 != nil || e2 != nil {
			return "err"
		}
		return "ok"
	case "sr.b.verify":
		v := q1Batches[q1Atoi(a[0])]
		if v == nil {
			return "bad-op"
		}
		all, valid := v.Verify(q1Rand(a[1]))
		all2, valid2 := v.Verify(q1Rand(a[1])) // Verify does not consume the batch
		if all != all2 || len(valid) != len(valid2) {
			return "fail verify-twice"
		}
		var sb strings.Builder
		sb.WriteString("bools ")
		sb.WriteString(b2s(all)[5:])
		for i, b := range valid {
			if b != valid2[i] {
				return "fail verify-twice"
			}
			sb.WriteString(" " + b2s(b)[5:])
		}
		return sb.String()
	case "sr.b.only":
		v := q1Batches[q1Atoi(a[0])]
		if v == nil {
			return "bad-op"
		}
		return b2s(v.VerifyBatchOnly(q1Rand(a[1])))
	case "sr.b.reset":
		v := q1Batches[q1Atoi(a[0])]
		if v == nil {
			return "bad-op"
		}
		if v.Reset() != v {
			return "fail reset"
		}
		return "ok"
	}
	return "bad-op"
}

// ---------------------------------------------------------------------------------------------
// generator: an independent schnorrkel signer

type q1Key struct {
	sk    *big.Int
	nonce []byte
	A     rpt
	pk    []byte // 32
	skb   []byte // 64 = scalar ‖ nonce
	kp    []byte // 96
}

func q1KeyFrom(sk *big.Int, nonce []byte) *q1Key {
	k := &q1Key{sk: sk, nonce: nonce}
	k.A = t1MulB(sk)
	k.pk = t1RistEncode(k.A)
	k.skb = append(leBytes(sk, 32), nonce...)
	k.kp = append(append([]byte{}, k.skb...), k.pk...)
	return k
}

func q1ExpandUniform(msk []byte) *q1Key {
	t := merlin.NewTranscript("ExpandSecretKeys")
	t.AppendMessage("mini", msk)
	wide := make([]byte, 64)
	t.ExtractBytes(wide, "sk")
	nonce := make([]byte, 32)
	t.ExtractBytes(nonce, "no")
	return q1KeyFrom(new(big.Int).Mod(leInt(wide), refL), nonce)
}

func q1ExpandEd25519(msk []byte) *q1Key {
	d := sha512.Sum512(msk)
	a := refClamp(d[:32]) // &248, &127, |64
	a.SetBit(a, 255, 0)
	return q1KeyFrom(new(big.Int).Rsh(a, 3), append([]byte{}, d[32:]...))
}

// q1Transcript mirrors q1MkTranscript on a bare merlin transcript; nil where the API panics.
func q1Transcript(kind string, ctx, msg []byte) *merlin.Transcript {
	t := merlin.NewTranscript("SigningContext")
	t.AppendMessage("", ctx)
	sum := func(h hash.Hash) []byte { _, _ = h.Write(msg); return h.Sum(nil) }
	switch kind {
	case "bytes":
		t.AppendMessage("sign-bytes", msg)
	case "sha256", "sha3-256":
		t.AppendMessage("sign-256", sum(q1Hash(kind)))
	case "sha512", "sha3-512":
		t.AppendMessage("sign-512", sum(q1Hash(kind)))
	case "shake128":
		o := make([]byte, 32)
		sha3.ShakeSum128(o, msg)
		t.AppendMessage("sign-XoF", o)
	case "shake256":
		o := make([]byte, 32)
		sha3.ShakeSum256(o, msg)
		t.AppendMessage("sign-XoF", o)
	case "xofraw":
		if len(msg) < 32 {
			return nil
		}
		t.AppendMessage("sign-XoF", msg[:32])
	default:
		return nil
	}
	return t
}

type q1Sig struct {
	R  rpt
	rb []byte // encoding of R
	r  *big.Int
	s  *big.Int
}

func (s *q1Sig) bytes() []byte { return q1SigBytes(s.rb, s.s) }

// q1SigBytes is R ‖ s with the schnorrkel marker; s < 2^255.
func q1SigBytes(rb []byte, s *big.Int) []byte {
	b := append(append([]byte{}, rb...), leBytes(s, 32)...)
	b[63] |= 0x80
	return b
}

// q1Sign signs with the witness scalar taken from the transcript RNG (entropy ≥ 32 bytes) or, if r != nil, with r.
func q1Sign(k *q1Key, t0 *merlin.Transcript, entropy []byte, r *big.Int) *q1Sig {
	t := t0.Clone()
	t.AppendMessage("proto-name", []byte("Schnorr-sig"))
	t.AppendMessage("sign:pk", k.pk)
	if r == nil {
		br := t.BuildRng()
		br.RekeyWithWitnessBytes("signing", k.nonce)
		rng, err := br.Finalize(bytes.NewReader(entropy))
		if err != nil {
			panic("harness: q1Sign entropy")
		}
		wide := make([]byte, 64)
		_, _ = rng.Read(wide)
		r = new(big.Int).Mod(leInt(wide), refL)
	}
	sig := &q1Sig{r: r}
	sig.R = t1MulB(r)
	sig.rb = t1RistEncode(sig.R)
	t.AppendMessage("sign:R", sig.rb)
	wide := make([]byte, 64)
	t.ExtractBytes(wide, "sign:c")
	c := new(big.Int).Mod(leInt(wide), refL)
	sig.s = c.Mul(c, k.sk)
	sig.s.Add(sig.s, r)
	sig.s.Mod(sig.s, refL)
	return sig
}

// ---- input pools

var q1Lens = []int{0, 1, 2, 5, 16, 31, 32, 33, 64, 100, 163, 164, 165, 166, 167, 168, 169, 200, 331, 332, 333, 400}
var q1SmallLens = []int{0, 1, 5, 16, 32, 33, 64, 100}
var q1Kinds = []string{"bytes", "bytes", "bytes", "sha256", "sha512", "sha3-256", "sha3-512", "shake128", "shake256", "xofraw"}

func q1Msg(g *Gen, kind string, lens []int) []byte {
	l := lens[g.Intn(len(lens))]
	if kind == "xofraw" && l < 32 {
		l = 32 + g.Intn(40)
	}
	return g.Bytes(l)
}

// q1Tweak changes a context / message so that the transcript changes (for xofraw only the first 32 bytes matter).
func q1Tweak(g *Gen, b []byte) []byte {
	c := append([]byte{}, b...)
	if len(c) == 0 || g.Intn(4) == 0 {
		return append([]byte{byte(g.Intn(256))}, c...)
	}
	lim := len(c)
	if lim > 32 {
		lim = 32
	}
	j := g.Intn(lim * 8)
	c[j/8] ^= 1 << (j % 8)
	return c
}

func q1Two(sh uint) *big.Int { return new(big.Int).Lsh(bi1, sh) }

// scalars around the acceptance boundary of the signature / secret-key decoders (all < 2^256)
func q1BoundaryScalars() []*big.Int {
	out := []*big.Int{big.NewInt(0), big.NewInt(1), big.NewInt(2), big.NewInt(8)}
	for e := int64(-3); e <= 3; e++ {
		out = append(out, new(big.Int).Add(refL, big.NewInt(e)))
	}
	for _, sh := range []uint{252, 253, 254, 255} {
		for e := int64(-1); e <= 1; e++ {
			out = append(out, new(big.Int).Add(q1Two(sh), big.NewInt(e)))
		}
	}
	for k := int64(2); k <= 8; k++ {
		out = append(out, new(big.Int).Mul(refL, big.NewInt(k)), new(big.Int).Sub(new(big.Int).Mul(refL, big.NewInt(k)), bi1))
	}
	out = append(out, new(big.Int).Sub(q1Two(256), bi1), new(big.Int).Rsh(refL, 1))
	// L with one byte changed by one (the byte-wise comparison of ScMinimalVartime)
	for _, i := range []int{0, 1, 15, 16, 30, 31} {
		lb := leBytes(refL, 32)
		lb[i]++
		out = append(out, leInt(lb))
		lb[i] -= 2
		out = append(out, leInt(lb))
	}
	return out
}

var q1Bound = q1BoundaryScalars()

type q1Gen struct {
	g      *Gen
	keys   []*q1Key
	nlarge int
	flip   int // cycles through the 512 bit positions of a signature
	// batches known to the generator: id -> number of entries (-1: does not exist)
	bsize map[int]int
}

func (q *q1Gen) emit(class string, f ...string) { q.g.Emit(class, append([]string{"Q1"}, f...)...) }

func (q *q1Gen) newKey() *q1Key {
	g := q.g
	var msk []byte
	switch g.Intn(12) {
	case 0:
		msk = make([]byte, 32)
	case 1:
		msk = bytes.Repeat([]byte{0xff}, 32)
	default:
		msk = g.Bytes(32)
	}
	var k *q1Key
	if g.Bool() {
		k = q1ExpandUniform(msk)
		q.emit("expand.uniform", "sr.expand", "uniform", hx(msk))
	} else {
		k = q1ExpandEd25519(msk)
		q.emit("expand.ed25519", "sr.expand", "ed25519", hx(msk))
	}
	// the generator's own key pair must be accepted and round-trip
	q.emit("dec.kp.valid", "sr.dec.kp", "-", hx(k.kp))
	return k
}

func (q *q1Gen) key() *q1Key {
	if len(q.keys) < 6 || q.g.Intn(10) == 0 {
		k := q.newKey()
		if len(q.keys) < 24 {
			q.keys = append(q.keys, k)
		} else {
			q.keys[q.g.Intn(len(q.keys))] = k
		}
		return k
	}
	return q.keys[q.g.Intn(len(q.keys))]
}

// special key pairs that no expansion produces: sk = 0 (public key = identity), 1, L-1, small
func (q *q1Gen) specialKey() *q1Key {
	g := q.g
	sp := []*big.Int{big.NewInt(0), big.NewInt(1), new(big.Int).Sub(refL, bi1), big.NewInt(8), new(big.Int).Rsh(refL, 1)}
	return q1KeyFrom(sp[g.Intn(len(sp))], g.Bytes(32))
}

func q1Entropy(g *Gen) []byte {
	switch g.Intn(10) {
	case 0:
		return g.Bytes(33)
	case 1:
		return g.Bytes(64)
	case 2:
		return make([]byte, 32)
	}
	return g.Bytes(32)
}

func q1OtherKind(g *Gen, kind string) string {
	for {
		k := q1Kinds[g.Intn(len(q1Kinds))]
		if k != kind {
			return k
		}
	}
}

// replacement values for the R half of a signature
func (q *q1Gen) badR(sig *q1Sig) (string, []byte) {
	g := q.g
	switch g.Intn(10) {
	case 0:
		return "R.random", g.Bytes(32)
	case 1:
		return "R.identity", make([]byte, 32)
	case 2:
		return "R.rfcbad", unhex(t1RfcBad[g.Intn(len(t1RfcBad))])
	case 3:
		// the negative of the field element: odd, never accepted
		return "R.negative", leBytes(fsub(bi0, leInt(sig.rb)), 32)
	case 4:
		// non-canonical field encodings p + k
		return "R.noncanon", leBytes(new(big.Int).Add(refP, big.NewInt(int64(g.Intn(19)))), 32)
	case 5:
		// a valid encoding of a different element: -R
		return "R.neg", t1RistEncode(refNeg(sig.R))
	case 6:
		// a valid encoding of a different element: R + B
		return "R.plusB", t1RistEncode(refAdd(sig.R, refB))
	case 7:
		// bit 255 set on the correct encoding
		b := append([]byte{}, sig.rb...)
		b[31] |= 0x80
		return "R.bit255", b
	case 8:
		return "R.otherpoint", t1RistEncode(t1MulB(new(big.Int).Mod(leInt(g.Bytes(40)), refL)))
	}
	// R + p does not fit unless R < 19; use 2^255-1 .. as plain out-of-range strings
	return "R.allones", bytes.Repeat([]byte{0xff}, 32)
}

// signature scenario: sign, verify, and the mutations of C12
func (q *q1Gen) scenarioSign() {
	g := q.g
	var k *q1Key
	special := g.Intn(12) == 0
	if special {
		k = q.specialKey()
		q.emit("dec.kp.special", "sr.dec.kp", "-", hx(k.kp))
	} else {
		k = q.key()
	}
	kind := q1Kinds[g.Intn(len(q1Kinds))]
	ctx := g.Bytes(q1Lens[g.Intn(len(q1Lens))])
	msg := q1Msg(g, kind, q1Lens)
	ent := q1Entropy(g)
	t := q1Transcript(kind, ctx, msg)
	sig := q1Sign(k, t, ent, nil)
	sb := sig.bytes()
	cls := "sign." + kind
	if special {
		cls = "sign.specialkey"
	}
	q.emit(cls, "sr.sign", kind, hx(ctx), hx(msg), hx(ent), hx(k.kp))
	v := func(class string, kind string, ctx, msg, pk, sigb []byte) {
		q.emit(class, "sr.verify", kind, hx(ctx), hx(msg), hx(pk), hx(sigb))
	}
	v("verify.valid", kind, ctx, msg, k.pk, sb)
	if g.Intn(8) == 0 {
		q.emit("sign.rand", "sr.sign.rand", kind, hx(ctx), hx(msg), hx(k.kp))
	}
	// bit flips: every one of the 512 positions in turn (stride 37 is coprime to 512)
	for i := 0; i < 10; i++ {
		j := (q.flip * 37) % 512
		q.flip++
		m := append([]byte{}, sb...)
		m[j/8] ^= 1 << (j % 8)
		switch {
		case j == 511:
			v("verify.flip.marker", kind, ctx, msg, k.pk, m)
		case j >= 256:
			v("verify.flip.s", kind, ctx, msg, k.pk, m)
		default:
			v("verify.flip.R", kind, ctx, msg, k.pk, m)
		}
	}
	v("verify.wrongctx", kind, q1Tweak(g, ctx), msg, k.pk, sb)
	v("verify.wrongmsg", kind, ctx, q1Tweak(g, msg), k.pk, sb)
	switch g.Intn(4) {
	case 0:
		v("verify.wrongpk.identity", kind, ctx, msg, make([]byte, 32), sb)
	case 1:
		v("verify.wrongpk.neg", kind, ctx, msg, t1RistEncode(refNeg(k.A)), sb)
	case 2:
		v("verify.wrongpk.undecodable", kind, ctx, msg, unhex(t1RfcBad[g.Intn(len(t1RfcBad))]), sb)
	default:
		v("verify.wrongpk.other", kind, ctx, msg, q.keys[g.Intn(len(q.keys))].pk, sb)
	}
	if g.Intn(3) == 0 {
		v("verify.wrongkind", q1OtherKind(g, kind), ctx, msg, k.pk, sb)
	}
	// s mutations
	for i := 0; i < 2; i++ {
		switch g.Intn(6) {
		case 0:
			// s + L, s + 2L, ..: same residue, non-canonical
			s2 := new(big.Int).Add(sig.s, new(big.Int).Mul(refL, big.NewInt(int64(1+g.Intn(7)))))
			if s2.BitLen() <= 255 {
				v("verify.s.plusL", kind, ctx, msg, k.pk, q1SigBytes(sig.rb, s2))
			}
		case 1:
			s2 := q1Bound[g.Intn(len(q1Bound))]
			if s2.BitLen() <= 255 {
				v("verify.s.boundary", kind, ctx, msg, k.pk, q1SigBytes(sig.rb, s2))
			}
		case 2:
			v("verify.s.plus1", kind, ctx, msg, k.pk, q1SigBytes(sig.rb, new(big.Int).Mod(new(big.Int).Add(sig.s, bi1), refL)))
		case 3:
			v("verify.s.neg", kind, ctx, msg, k.pk, q1SigBytes(sig.rb, new(big.Int).Mod(new(big.Int).Neg(sig.s), refL)))
		case 4:
			m := append([]byte{}, sb...)
			m[63] &^= 0x80
			v("verify.unmarked", kind, ctx, msg, k.pk, m)
		case 5:
			v("verify.s.random", kind, ctx, msg, k.pk, q1SigBytes(sig.rb, new(big.Int).Mod(leInt(g.Bytes(40)), refL)))
		}
	}
	// R replaced
	for i := 0; i < 2; i++ {
		c, rb := q.badR(sig)
		v("verify."+c, kind, ctx, msg, k.pk, q1SigBytes(rb, sig.s))
	}
	// a valid signature whose witness is chosen: r = 0 (R = identity, all-zero encoding), r = 1, r = L-1
	if g.Intn(6) == 0 {
		rs := []*big.Int{big.NewInt(0), big.NewInt(1), new(big.Int).Sub(refL, bi1)}
		s2 := q1Sign(k, t, nil, rs[g.Intn(len(rs))])
		v("verify.valid.chosenR", kind, ctx, msg, k.pk, s2.bytes())
	}
	// receivers left behind by failed decodes never verify
	if g.Intn(6) == 0 {
		bad := append([]byte{}, sb...)
		bad[63] &^= 0x80
		switch g.Intn(3) {
		case 0:
			q.emit("verify.recv.sigfailed", "sr.verify.recv", kind, hx(ctx), hx(msg), hx(k.pk), hx(bad))
		case 1:
			q.emit("verify.recv.pkfailed", "sr.verify.recv", kind, hx(ctx), hx(msg), hx(g.Bytes(31)), hx(sb))
		default:
			q.emit("verify.recv.valid", "sr.verify.recv", kind, hx(ctx), hx(msg), hx(k.pk), hx(sb))
		}
	}
}

// documented panics of the transcript constructors; entropy shortage in Sign
func (q *q1Gen) scenarioEdge() {
	g := q.g
	k := q.key()
	ctx := g.Bytes(q1SmallLens[g.Intn(len(q1SmallLens))])
	msg := g.Bytes(q1SmallLens[g.Intn(len(q1SmallLens))])
	switch g.Intn(6) {
	case 0:
		kind := []string{"sha224", "sha384"}[g.Intn(2)]
		q.emit("panic.hashsize", "sr.sign", kind, hx(ctx), hx(msg), hx(g.Bytes(32)), hx(k.kp))
	case 1:
		kind := []string{"sha224", "sha384"}[g.Intn(2)]
		q.emit("panic.hashsize", "sr.verify", kind, hx(ctx), hx(msg), hx(k.pk), hx(q1SigBytes(g.Bytes(32), big.NewInt(5))))
	case 2:
		q.emit("panic.xofshort", "sr.verify", "xofraw", hx(ctx), hx(g.Bytes(g.Intn(32))), hx(k.pk), hx(q1SigBytes(g.Bytes(32), big.NewInt(5))))
	case 3:
		// fewer than 32 bytes of entropy: Sign returns an error
		kind := q1Kinds[g.Intn(len(q1Kinds))]
		m := q1Msg(g, kind, q1SmallLens)
		q.emit("sign.shortentropy", "sr.sign", kind, hx(ctx), hx(m), hx(g.Bytes([]int{0, 1, 16, 31}[g.Intn(4)])), hx(k.kp))
	case 4:
		// undecodable key pair
		bad := append([]byte{}, k.kp...)
		bad[64+g.Intn(32)] ^= 1 << g.Intn(8)
		q.emit("sign.badkp", "sr.sign", "bytes", hx(ctx), hx(msg), hx(g.Bytes(32)), hx(bad))
	case 5:
		// same inputs, two different entropy strings / same entropy twice: determinism in the entropy
		e := g.Bytes(32)
		q.emit("sign.determinism", "sr.sign", "bytes", hx(ctx), hx(msg), hx(e), hx(k.kp))
		q.emit("sign.determinism", "sr.sign", "bytes", hx(ctx), hx(msg), hx(append(append([]byte{}, e...), g.Bytes(8)...)), hx(k.kp))
	}
}

func q1Flip(g *Gen, b []byte) []byte {
	c := append([]byte{}, b...)
	if len(c) == 0 {
		return c
	}
	j := g.Intn(len(c) * 8)
	c[j/8] ^= 1 << (j % 8)
	return c
}

// q1WrongLen returns a string of a length in 0..130 other than want, random or a truncation / extension of valid.
func q1WrongLen(g *Gen, want int, valid []byte) []byte {
	l := g.Intn(131)
	if l == want {
		l = want - 1 + 2*g.Intn(2)
	}
	b := g.Bytes(l)
	if g.Bool() {
		copy(b, valid)
	}
	return b
}

func (q *q1Gen) scenarioDecoders() {
	g := q.g
	k := q.key()
	k2 := q.keys[g.Intn(len(q.keys))]
	pre := func(valid []byte) string {
		if g.Intn(3) == 0 {
			return hx(valid)
		}
		return "-"
	}
	switch g.Intn(5) {
	case 0: // ---- Signature
		t := q1Transcript("bytes", nil, g.Bytes(8))
		sig := q1Sign(k, t, g.Bytes(32), nil)
		sb := sig.bytes()
		other := q1Sign(k2, t, g.Bytes(32), nil).bytes()
		switch g.Intn(9) {
		case 0:
			q.emit("dec.sig.valid", "sr.dec.sig", pre(other), hx(sb))
		case 1:
			m := append([]byte{}, sb...)
			m[63] &^= 0x80
			q.emit("dec.sig.unmarked", "sr.dec.sig", pre(other), hx(m))
		case 2:
			s2 := q1Bound[g.Intn(len(q1Bound))]
			m := append(append([]byte{}, sig.rb...), leBytes(s2, 32)...)
			if g.Intn(4) != 0 {
				m[63] |= 0x80
			}
			q.emit("dec.sig.boundary", "sr.dec.sig", pre(other), hx(m))
		case 3:
			s2 := new(big.Int).Add(sig.s, new(big.Int).Mul(refL, big.NewInt(int64(1+g.Intn(7)))))
			if s2.BitLen() <= 255 {
				q.emit("dec.sig.plusL", "sr.dec.sig", pre(other), hx(q1SigBytes(sig.rb, s2)))
			}
		case 4:
			q.emit("dec.sig.len", "sr.dec.sig", pre(other), hx(q1WrongLen(g, 64, sb)))
		case 5:
			q.emit("dec.sig.random", "sr.dec.sig", pre(other), hx(g.Bytes(64)))
		case 6:
			q.emit("dec.sig.flip", "sr.dec.sig", pre(other), hx(q1Flip(g, sb)))
		case 7:
			// R is not examined by the decoder: any 32 bytes are carried through
			_, rb := q.badR(sig)
			q.emit("dec.sig.badR", "sr.dec.sig", pre(other), hx(q1SigBytes(rb, sig.s)))
		case 8:
			// random R, random s < 2^253 with the marker: accepted iff s < L
			s2 := new(big.Int).Rsh(leInt(g.Bytes(32)), 3)
			q.emit("dec.sig.s253", "sr.dec.sig", pre(other), hx(q1SigBytes(g.Bytes(32), s2)))
		}
	case 1: // ---- PublicKey
		switch g.Intn(9) {
		case 0:
			q.emit("dec.pk.valid", "sr.dec.pk", pre(k2.pk), hx(k.pk))
		case 1:
			q.emit("dec.pk.rfcbad", "sr.dec.pk", pre(k2.pk), t1RfcBad[g.Intn(len(t1RfcBad))])
		case 2:
			q.emit("dec.pk.rfcmult", "sr.dec.pk", pre(k2.pk), t1RfcMultiples[g.Intn(len(t1RfcMultiples))])
		case 3:
			q.emit("dec.pk.random", "sr.dec.pk", pre(k2.pk), hx(g.Bytes(32)))
		case 4:
			q.emit("dec.pk.len", "sr.dec.pk", pre(k2.pk), hx(q1WrongLen(g, 32, k.pk)))
		case 5:
			q.emit("dec.pk.flip", "sr.dec.pk", pre(k2.pk), hx(q1Flip(g, k.pk)))
		case 6:
			q.emit("dec.pk.negative", "sr.dec.pk", pre(k2.pk), hx(leBytes(fsub(bi0, leInt(k.pk)), 32)))
		case 7:
			q.emit("dec.pk.noncanon", "sr.dec.pk", pre(k2.pk), hx(leBytes(new(big.Int).Add(refP, big.NewInt(int64(g.Intn(19)))), 32)))
		case 8:
			b := append([]byte{}, k.pk...)
			b[31] |= 0x80
			q.emit("dec.pk.bit255", "sr.dec.pk", pre(k2.pk), hx(b))
		}
	case 2: // ---- SecretKey
		switch g.Intn(6) {
		case 0:
			q.emit("dec.sk.valid", "sr.dec.sk", pre(k2.skb), hx(k.skb))
		case 1:
			b := append(leBytes(q1Bound[g.Intn(len(q1Bound))], 32), g.Bytes(32)...)
			q.emit("dec.sk.boundary", "sr.dec.sk", pre(k2.skb), hx(b))
		case 2:
			s2 := new(big.Int).Add(k.sk, new(big.Int).Mul(refL, big.NewInt(int64(1+g.Intn(15)))))
			if s2.BitLen() <= 256 {
				q.emit("dec.sk.plusL", "sr.dec.sk", pre(k2.skb), hx(append(leBytes(s2, 32), k.nonce...)))
			}
		case 3:
			q.emit("dec.sk.len", "sr.dec.sk", pre(k2.skb), hx(q1WrongLen(g, 64, k.skb)))
		case 4:
			q.emit("dec.sk.random", "sr.dec.sk", pre(k2.skb), hx(g.Bytes(64)))
		case 5:
			q.emit("dec.sk.flip", "sr.dec.sk", pre(k2.skb), hx(q1Flip(g, k.skb)))
		}
	case 3: // ---- KeyPair
		c := g.Intn(12)
		if c >= 9 {
			c = 1
		}
		switch c {
		case 0:
			q.emit("dec.kp.valid", "sr.dec.kp", pre(k2.kp), hx(k.kp))
		case 1:
			// a valid secret key with another valid public key
			o := q.keys[g.Intn(len(q.keys))].pk
			if g.Bool() {
				o = t1RistEncode(refNeg(k.A))
			}
			q.emit("dec.kp.mismatch", "sr.dec.kp", pre(k2.kp), hx(append(append([]byte{}, k.skb...), o...)))
		case 2:
			// sk + L with the matching public key: the same key, non-canonical
			s2 := new(big.Int).Add(k.sk, refL)
			q.emit("dec.kp.skplusL", "sr.dec.kp", pre(k2.kp), hx(append(append(leBytes(s2, 32), k.nonce...), k.pk...)))
		case 3:
			q.emit("dec.kp.len", "sr.dec.kp", pre(k2.kp), hx(q1WrongLen(g, 96, k.kp)))
		case 4:
			q.emit("dec.kp.flip", "sr.dec.kp", pre(k2.kp), hx(q1Flip(g, k.kp)))
		case 5:
			// valid secret key, undecodable public key
			q.emit("dec.kp.badpk", "sr.dec.kp", pre(k2.kp), hx(append(append([]byte{}, k.skb...), unhex(t1RfcBad[g.Intn(len(t1RfcBad))])...)))
		case 6:
			sk := q.specialKey()
			q.emit("dec.kp.special", "sr.dec.kp", pre(k2.kp), hx(sk.kp))
		case 7:
			q.emit("dec.kp.zero", "sr.dec.kp", pre(k2.kp), hx(make([]byte, 96)))
		case 8:
			// only the nonce differs: still a valid pair
			b := append([]byte{}, k.kp...)
			b[32+g.Intn(32)] ^= 1 << g.Intn(8)
			q.emit("dec.kp.nonceflip", "sr.dec.kp", pre(k2.kp), hx(b))
		}
	case 4: // ---- MiniSecretKey, NewSecretKeyFromEd25519Bytes, expansion of odd lengths
		switch g.Intn(6) {
		case 0:
			q.emit("dec.msk.valid", "sr.dec.msk", pre(g.Bytes(32)), hx(g.Bytes(32)))
		case 1:
			q.emit("dec.msk.len", "sr.dec.msk", pre(g.Bytes(32)), hx(q1WrongLen(g, 32, g.Bytes(32))))
		case 2:
			q.emit("expand.len", "sr.expand", []string{"uniform", "ed25519"}[g.Intn(2)], hx(q1WrongLen(g, 32, g.Bytes(32))))
		case 3:
			b := g.Bytes(64)
			b[0] &= 248
			b[31] &= 63
			b[31] |= 64
			q.emit("fromed.valid", "sr.sk.fromed", hx(b))
		case 4:
			b := g.Bytes(64)
			b[0] &= 248
			b[31] &= 63
			b[31] |= 64
			switch g.Intn(4) {
			case 0:
				b[0] |= 1 << g.Intn(3)
			case 1:
				b[31] |= 0x80
			case 2:
				b[31] &^= 0x40
			case 3:
				b[31] ^= 0xc0
			}
			q.emit("fromed.unclamped", "sr.sk.fromed", hx(b))
		case 5:
			q.emit("fromed.len", "sr.sk.fromed", hx(q1WrongLen(g, 64, g.Bytes(64))))
		}
	}
}

// ---- batches

type q1Item struct {
	class              string
	kind               string
	ctx, msg, pk, sigb []byte
}

func (q *q1Gen) validItem(k *q1Key) (q1Item, *q1Sig) {
	g := q.g
	kind := q1Kinds[g.Intn(len(q1Kinds))]
	ctx := g.Bytes(q1SmallLens[g.Intn(len(q1SmallLens))])
	lens := q1SmallLens
	if g.Intn(16) == 0 {
		lens = q1Lens
	}
	msg := q1Msg(g, kind, lens)
	sig := q1Sign(k, q1Transcript(kind, ctx, msg), g.Bytes(32), nil)
	return q1Item{"b.add.valid", kind, ctx, msg, k.pk, sig.bytes()}, sig
}

func (q *q1Gen) invalidItem() q1Item {
	g := q.g
	k := q.keys[g.Intn(len(q.keys))]
	it, sig := q.validItem(k)
	switch g.Intn(8) {
	case 0:
		it.class, it.sigb = "b.add.s.plus1", q1SigBytes(sig.rb, new(big.Int).Mod(new(big.Int).Add(sig.s, bi1), refL))
	case 1:
		it.class, it.msg = "b.add.wrongmsg", q1Tweak(g, it.msg)
	case 2:
		it.class, it.ctx = "b.add.wrongctx", q1Tweak(g, it.ctx)
	case 3:
		it.class, it.pk = "b.add.wrongpk", t1RistEncode(refNeg(k.A))
	case 4:
		// decodable signature whose R is not a ristretto encoding: the entry can not be valid
		it.class, it.sigb = "b.add.badR", q1SigBytes(unhex(t1RfcBad[g.Intn(len(t1RfcBad))]), sig.s)
	case 5:
		it.class, it.sigb = "b.add.R.neg", q1SigBytes(t1RistEncode(refNeg(sig.R)), sig.s)
	case 6:
		it.class, it.sigb = "b.add.flip", q1Flip(g, it.sigb)
	case 7:
		it.class, it.kind = "b.add.wrongkind", q1OtherKind(g, it.kind)
		if it.kind == "xofraw" && len(it.msg) < 32 {
			it.kind = "bytes"
			it.msg = q1Tweak(g, it.msg)
		}
	}
	return it
}

func (q *q1Gen) undecodableItem() q1Item {
	g := q.g
	k := q.keys[g.Intn(len(q.keys))]
	it, sig := q.validItem(k)
	switch g.Intn(5) {
	case 0:
		it.class = "b.add.undec.unmarked"
		it.sigb[63] &^= 0x80
	case 1:
		it.class, it.sigb = "b.add.undec.splusL", q1SigBytes(sig.rb, new(big.Int).Add(sig.s, refL))
	case 2:
		it.class, it.pk = "b.add.undec.pk", unhex(t1RfcBad[g.Intn(len(t1RfcBad))])
	case 3:
		it.class, it.pk = "b.add.undec.pklen", q1WrongLen(g, 32, k.pk)
	case 4:
		it.class, it.sigb = "b.add.undec.siglen", q1WrongLen(g, 64, it.sigb)
	}
	return it
}

var q1BatchSizes = []int{0, 1, 2, 3, 7, 8, 64, 65}

func (q *q1Gen) addItem(id int, it q1Item) {
	q.emit(it.class, "sr.b.add", itoa(id), it.kind, hx(it.ctx), hx(it.msg), hx(it.pk), hx(it.sigb))
	q.bsize[id]++
}

func (q *q1Gen) checkBatch(id int, tag string) {
	g := q.g
	sid := itoa(id)
	q.emit("b.verify."+tag, "sr.b.verify", sid, hx(g.Bytes(32+8*g.Intn(2))))
	if g.Intn(2) == 0 {
		q.emit("b.only."+tag, "sr.b.only", sid, hx(g.Bytes(32)))
	}
	switch g.Intn(8) {
	case 0:
		q.emit("b.verify.nilrand."+tag, "sr.b.verify", sid, "nil")
	case 1:
		q.emit("b.only.nilrand."+tag, "sr.b.only", sid, "nil")
	case 2:
		// an entropy source that runs dry: documented panic once the batch equation is attempted
		q.emit("b.verify.shortrand."+tag, "sr.b.verify", sid, hx(g.Bytes(g.Intn(32))))
	case 3:
		q.emit("b.only.shortrand."+tag, "sr.b.only", sid, hx(g.Bytes(g.Intn(32))))
	}
}

func (q *q1Gen) scenarioBatch(large bool) {
	g := q.g
	id := g.Intn(4)
	sid := itoa(id)
	// start: new verifier, or reset / continue an existing one
	switch {
	case q.bsize[id] < 0 || g.Intn(3) == 0:
		cp := []int{-1, 0, 1, 8, 100}[g.Intn(5)]
		q.emit("b.new", "sr.b.new", sid, itoa(cp))
		q.bsize[id] = 0
	case q.bsize[id] <= 8 && g.Intn(3) == 0:
		// keep what is there and add to it
	default:
		q.emit("b.reset", "sr.b.reset", sid)
		q.bsize[id] = 0
	}
	var n int
	if large {
		n = 64 + q.nlarge%2
		q.nlarge++
	} else {
		n = q1BatchSizes[g.Intn(6)]
		if n == 0 && g.Intn(3) != 0 {
			n = 1 + g.Intn(8)
		}
	}
	mode := g.Intn(10)
	tag := "allvalid"
	items := make([]q1Item, 0, n)
	sameKey := g.Intn(3) == 0
	k0 := q.keys[g.Intn(len(q.keys))]
	for i := 0; i < n; i++ {
		k := k0
		if !sameKey {
			k = q.keys[g.Intn(len(q.keys))]
		}
		it, _ := q.validItem(k)
		items = append(items, it)
	}
	switch {
	case n == 0:
		tag = "empty"
	case mode < 2:
	case mode < 4:
		tag = "oneinvalid"
		items[g.Intn(n)] = q.invalidItem()
	case mode < 6:
		tag = "mixed"
		for i := range items {
			switch g.Intn(4) {
			case 0:
				items[i] = q.invalidItem()
			case 1:
				if g.Bool() {
					items[i] = q.undecodableItem()
				}
			}
		}
	case mode < 7:
		tag = "undecodable"
		items[g.Intn(n)] = q.undecodableItem()
	case mode < 9 && n >= 2:
		// two signatures under one key on one transcript kind, s_i + 1 and s_j - 1: each is invalid, but the errors
		// cancel in any linear combination with EQUAL coefficients - only distinct z_i reject the pair
		tag = "cancelling"
		i := g.Intn(n)
		j := (i + 1 + g.Intn(n-1)) % n
		k := q.keys[g.Intn(len(q.keys))]
		a, sa := q.validItem(k)
		b, sb := q.validItem(k)
		d := big.NewInt(int64(1 + g.Intn(1000)))
		if g.Intn(4) == 0 {
			d = new(big.Int).Mod(leInt(g.Bytes(40)), refL)
		}
		a.class, a.sigb = "b.add.cancel+", q1SigBytes(sa.rb, new(big.Int).Mod(new(big.Int).Add(sa.s, d), refL))
		b.class, b.sigb = "b.add.cancel-", q1SigBytes(sb.rb, new(big.Int).Mod(new(big.Int).Sub(sb.s, d), refL))
		items[i], items[j] = a, b
	default:
		if n >= 2 {
			// the same (valid) entry twice
			tag = "duplicate"
			items[g.Intn(n)] = items[g.Intn(n)]
		}
	}
	if q.bsize[id] > 0 {
		tag += ".continued"
	}
	for idx, it := range items {
		q.addItem(id, it)
		// look at a growing batch now and then
		if !large && n >= 3 && idx == n/2 && g.Intn(3) == 0 {
			q.emit("b.verify.partial", "sr.b.verify", sid, hx(g.Bytes(32)))
		}
	}
	q.checkBatch(id, tag)
	// a panicking transcript constructor leaves the batch as it was
	if g.Intn(6) == 0 {
		q.emit("b.add.panic", "sr.b.add", sid, "sha384", "-", "-", hx(k0.pk), hx(items0(items)))
		q.emit("b.verify.afterpanic", "sr.b.verify", sid, hx(g.Bytes(32)))
	}
	// Reset, then a small valid batch: nothing of the old batch may survive (anyInvalid, entries)
	if g.Intn(2) == 0 {
		q.emit("b.reset", "sr.b.reset", sid)
		q.bsize[id] = 0
		if g.Intn(8) == 0 {
			q.emit("b.verify.afterreset.empty", "sr.b.verify", sid, hx(g.Bytes(32)))
			q.emit("b.only.afterreset.empty", "sr.b.only", sid, hx(g.Bytes(32)))
		}
		m := 1 + g.Intn(3)
		for i := 0; i < m; i++ {
			it, _ := q.validItem(q.keys[g.Intn(len(q.keys))])
			q.addItem(id, it)
		}
		q.checkBatch(id, "afterreset")
	}
}

func items0(items []q1Item) []byte {
	if len(items) == 0 {
		return q1SigBytes(make([]byte, 32), big.NewInt(1))
	}
	return items[0].sigb
}

func genQ1(g *Gen) {
	q := &q1Gen{g: g, bsize: map[int]int{0: -1, 1: -1, 2: -1, 3: -1}}
	q.flip = g.Intn(512) // the cycle over the bit positions starts somewhere else for every seed
	// fixed part: the vectors of the package's tests
	zero := hx(make([]byte, 32))
	g.Emit("vector.expand", "Q1", "sr.expand", "uniform", zero)
	g.Emit("vector.expand", "Q1", "sr.expand", "ed25519", zero)
	g.Emit("vector.fromed", "Q1", "sr.sk.fromed", "28b0ae221c6bb06856b287f60d7ea0d98552ea5a16db16956849aa371db3eb51fd190cce74df356432b410bd64682309d6dedb27c76845daf388557cbac3ca34")
	const vpk = "46ebddef8cd9bb167dc30878d7113b7e168e6f0646beffd77d69d39bad76b47a"
	const vsig = "4e172314444b8f820bb54c22e95076f220ed25373e5c178234aa6c211d29271244b947e3ff3418ff6b45fd1df1140c8cbff69fc58ee6dc96df70936a2bb74b82"
	g.Emit("vector.verify", "Q1", "sr.verify", "bytes", hx([]byte("substrate")), hx([]byte("this is a message")), vpk, vsig)
	g.Emit("vector.verify", "Q1", "sr.verify", "bytes", hx([]byte("substrate")), hx([]byte("wrong message")), vpk, vsig)
	// zero-value receivers
	for _, d := range []string{"sig", "pk", "sk", "kp", "msk"} {
		g.Emit("dec.empty", "Q1", "sr.dec."+d, "-", "-")
	}
	for len(q.keys) < 6 {
		q.key()
	}
	// every boundary scalar once through the signature and secret-key decoders (s = L-1 / L / L+1, 2^252.., kL..)
	for _, s := range q1Bound {
		if s.BitLen() <= 255 {
			g.Emit("dec.sig.boundary", "Q1", "sr.dec.sig", "-", hx(q1SigBytes(q.keys[0].pk, s)))
		}
		g.Emit("dec.sk.boundary", "Q1", "sr.dec.sk", "-", hx(append(leBytes(s, 32), q.keys[0].nonce...)))
	}
	// large batches (64, 65 entries in turn) are rationed: about one per 1000 requests
	large := 0
	for !g.Full() {
		switch r := g.Intn(100); {
		case r < 42:
			q.scenarioSign()
		case r < 46:
			q.scenarioEdge()
		case r < 72:
			for i := 0; i < 8; i++ {
				q.scenarioDecoders()
			}
		default:
			if large*1000 < len(g.lines) {
				large++
				q.scenarioBatch(true)
			} else {
				q.scenarioBatch(false)
			}
		}
	}
}

func init() {
	register(&Stream{Name: "Q1", Gen: genQ1, Exec: execQ1, Reset: q1Reset})
}
