//go:build !amd64 || purego || force32bit

package main

// k0VectorExpected: see s_consts_vec_amd64.go; the vector backend is compiled out in this build.
func k0VectorExpected() bool { return false }
