package main

// Independent big-integer arithmetic used ONLY by the generators to construct interesting
// inputs (torsion-shifted keys, recomputed S, non-canonical encodings).  It never decides a
// verdict: expected results come from the Lean Spec.  Being independent of the library keeps
// the generated inputs the same when the library itself is changed.

import (
	"crypto/sha512"
	"math/big"
)

var (
	bi0   = big.NewInt(0)
	bi1   = big.NewInt(1)
	bi2   = big.NewInt(2)
	refP  = new(big.Int).Sub(new(big.Int).Lsh(bi1, 255), big.NewInt(19))
	refL, _ = new(big.Int).SetString("7237005577332262213973186563042994240857116359379907606001950938285454250989", 10)
	refD  = func() *big.Int {
		d := new(big.Int).ModInverse(big.NewInt(121666), refP)
		d.Mul(d, big.NewInt(-121665))
		return d.Mod(d, refP)
	}()
	refSqrtM1 = new(big.Int).Exp(bi2, new(big.Int).Rsh(new(big.Int).Sub(refP, bi1), 2), refP)
)

type rpt struct{ x, y *big.Int }

func fmod(a *big.Int) *big.Int { return a.Mod(a, refP) }
func fmul(a, b *big.Int) *big.Int { return fmod(new(big.Int).Mul(a, b)) }
func fadd(a, b *big.Int) *big.Int { return fmod(new(big.Int).Add(a, b)) }
func fsub(a, b *big.Int) *big.Int { return fmod(new(big.Int).Sub(a, b)) }
func finv(a *big.Int) *big.Int {
	if a.Sign() == 0 {
		return big.NewInt(0)
	}
	return new(big.Int).ModInverse(a, refP)
}

func refAdd(P, Q rpt) rpt {
	t := fmul(refD, fmul(fmul(P.x, Q.x), fmul(P.y, Q.y)))
	x := fmul(fadd(fmul(P.x, Q.y), fmul(P.y, Q.x)), finv(fadd(bi1, t)))
	y := fmul(fadd(fmul(P.y, Q.y), fmul(P.x, Q.x)), finv(fsub(bi1, t)))
	return rpt{x, y}
}
func refNeg(P rpt) rpt { return rpt{fsub(bi0, P.x), new(big.Int).Set(P.y)} }
func refZero() rpt     { return rpt{big.NewInt(0), big.NewInt(1)} }
func refMul(n *big.Int, P rpt) rpt {
	acc := refZero()
	for i := n.BitLen() - 1; i >= 0; i-- {
		acc = refAdd(acc, acc)
		if n.Bit(i) == 1 {
			acc = refAdd(acc, P)
		}
	}
	return acc
}
func refIsZero(P rpt) bool { return P.x.Sign() == 0 && P.y.Cmp(bi1) == 0 }

func leBytes(n *big.Int, l int) []byte {
	b := make([]byte, l)
	m := new(big.Int).Set(n)
	for i := 0; i < l; i++ {
		b[i] = byte(new(big.Int).And(m, big.NewInt(255)).Int64())
		m.Rsh(m, 8)
	}
	return b
}
func leInt(b []byte) *big.Int {
	n := new(big.Int)
	for i := len(b) - 1; i >= 0; i-- {
		n.Lsh(n, 8)
		n.Or(n, big.NewInt(int64(b[i])))
	}
	return n
}
func refEncode(P rpt) []byte {
	b := leBytes(P.y, 32)
	if P.x.Bit(0) == 1 {
		b[31] |= 0x80
	}
	return b
}

// refDecode follows the library's documented relaxed decoding (y mod p, x=0 with either sign).
func refDecode(b []byte) (rpt, bool) {
	if len(b) != 32 {
		return rpt{}, false
	}
	n := leInt(b)
	sign := n.Bit(255)
	y := new(big.Int).SetBit(n, 255, 0)
	y.Mod(y, refP)
	yy := fmul(y, y)
	u := fsub(yy, bi1)
	v := fadd(fmul(refD, yy), bi1)
	// x = sqrt(u/v)
	w := fmul(u, finv(v))
	x := new(big.Int).Exp(w, new(big.Int).Rsh(new(big.Int).Add(refP, big.NewInt(3)), 3), refP)
	if fmul(x, x).Cmp(w) != 0 {
		x = fmul(x, refSqrtM1)
		if fmul(x, x).Cmp(w) != 0 {
			return rpt{}, false
		}
	}
	if x.Bit(0) == 1 {
		x = fsub(bi0, x)
	}
	if sign == 1 {
		x = fsub(bi0, x)
	}
	return rpt{x, y}, true
}

var (
	refB = func() rpt {
		y := fmul(big.NewInt(4), finv(big.NewInt(5)))
		P, _ := refDecode(leBytes(y, 32))
		return P
	}()
	refT1 = func() rpt {
		P, _ := refDecode(unhex("c7176a703d4dd84fba3c0b760d10670f2a2053fa2c39ccc64ec7fd7792ac037a"))
		return P
	}()
	refTorsion = func() []rpt {
		t := make([]rpt, 8)
		t[0] = refZero()
		for i := 1; i < 8; i++ {
			t[i] = refAdd(t[i-1], refT1)
		}
		return t
	}()
	// the 2*19+2 = 40 non-canonical encodings: y in [p, 2^255) with either sign, and x = 0 with the sign bit
	refNonCanon = func() [][]byte {
		var out [][]byte
		for y := int64(0); y < 19; y++ {
			for s := uint(0); s < 2; s++ {
				n := new(big.Int).Add(refP, big.NewInt(y))
				n.SetBit(n, 255, s)
				out = append(out, leBytes(n, 32))
			}
		}
		n := big.NewInt(1)
		n.SetBit(n, 255, 1)
		out = append(out, leBytes(n, 32))
		n = new(big.Int).Sub(refP, bi1)
		n.SetBit(n, 255, 1)
		out = append(out, leBytes(n, 32))
		return out
	}()
	refSmall = func() [][]byte {
		var out [][]byte
		for _, t := range refTorsion {
			out = append(out, refEncode(t))
		}
		for _, b := range refNonCanon {
			if P, ok := refDecode(b); ok && refIsZero(refMul(big.NewInt(8), P)) {
				out = append(out, b)
			}
		}
		return out
	}()
)

func refClamp(h []byte) *big.Int {
	var a [32]byte
	copy(a[:], h[:32])
	a[0] &= 248
	a[31] &= 127
	a[31] |= 64
	return leInt(a[:])
}

func refH(parts ...[]byte) *big.Int {
	h := sha512.New()
	for _, p := range parts {
		h.Write(p)
	}
	return leInt(h.Sum(nil))
}

func refDom2(f int, ctx []byte) []byte {
	if f < 0 {
		return nil
	}
	b := []byte("SigEd25519 no Ed25519 collisions")
	b = append(b, byte(f), byte(len(ctx)))
	return append(b, ctx...)
}

// boundary scalars (all < 2^255 unless stated)
func refScalarBoundary() []*big.Int {
	var out []*big.Int
	add := func(n *big.Int) {
		if n.Sign() >= 0 && n.BitLen() <= 255 {
			out = append(out, n)
		}
	}
	for k := int64(0); k <= 15; k++ {
		for e := int64(-2); e <= 2; e++ {
			add(new(big.Int).Add(new(big.Int).Mul(refL, big.NewInt(k)), big.NewInt(e)))
		}
	}
	for _, sh := range []uint{51, 52, 64, 104, 128, 156, 192, 208, 252, 253, 254, 255} {
		for e := int64(-2); e <= 2; e++ {
			add(new(big.Int).Add(new(big.Int).Lsh(bi1, sh), big.NewInt(e)))
		}
	}
	for _, pat := range []byte{0x77, 0x88, 0xff, 0x7f, 0x80, 0xf0, 0x0f, 0x55, 0xaa} {
		b := make([]byte, 32)
		for i := range b {
			b[i] = pat
		}
		b[31] &= 0x7f
		add(leInt(b))
	}
	return out
}
