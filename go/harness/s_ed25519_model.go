package main

import (
	"strings"

	"github.com/oasisprotocol/curve25519-voi/primitives/ed25519"
)

// Stream V2: the cases of V1 (same generator, stream token renamed), executed against the real
// VerifyWithOptions / VerifyExpandedWithOptions.  The Lean side answers from the CODE-SHAPED model
// Voi.Model.Ed25519 (concrete instance) instead of the declarative predicate, so that the object of theorem
// Props.C01.model_eq_spec is itself tied to the Go code on every run.
func genV2(g *Gen) {
	start := len(g.lines)
	genV1(g)
	for i := start; i < len(g.lines); i++ {
		if strings.HasPrefix(g.lines[i], "V1 ") {
			g.lines[i] = "V2 " + g.lines[i][3:]
		}
	}
}

func execV2(op string, a []string) string {
	switch op {
	case "verify":
		return b2s(ed25519.VerifyWithOptions(unhex(a[3]), unhex(a[4]), unhex(a[5]), mkOpts(a[0], a[1], a[2])))
	case "verifyx":
		xp, err := ed25519.NewExpandedPublicKey(unhex(a[3]))
		if err != nil {
			return "err"
		}
		return b2s(ed25519.VerifyExpandedWithOptions(xp, unhex(a[4]), unhex(a[5]), mkOpts(a[0], a[1], a[2])))
	case "stdverify":
		// the library under its own StdLib preset (V1 asks crypto/ed25519 for the same line)
		return b2s(ed25519.VerifyWithOptions(unhex(a[0]), unhex(a[1]), unhex(a[2]), &ed25519.Options{Verify: ed25519.VerifyOptionsStdLib}))
	}
	return "bad-op"
}

func init() {
	register(&Stream{Name: "V2", Gen: genV2, Exec: execV2})
}
