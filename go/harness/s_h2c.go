package main

// Streams H1 (RFC 9380 message expansion) and H2 (Elligator 2, hash-to-curve suites), property C14.
//
// H1 ops
//   xmd <hash> dst msg n            hash ∈ 224|256|384|512 (SHA-2) | 3256|3512 (SHA-3); ExpandMessageXMD → ok <bytes> | err
//   xof <128|256> dst msg n pre rd  ExpandMessageXOF with a SHAKE instance that has already absorbed `pre`
//                                   and (rd > 0) been squeezed for rd bytes → ok <bytes> | err
// H2 ops
//   ell2 fe32                       elligator.EdwardsFlavor(fe) → ok <enc>
//   ell2m fe32                      elligator.montgomeryFlavor(fe) → ok <u32> <v32>
//   h2c.ro|h2c.nu dst msg           Edwards25519_XMD_SHA512_ELL2_RO/NU → ok <enc> <torsionfree 0|1> | err
//   h2c.rist dst msg                Ristretto255_XMD_R255MAP_RO(SHA-512) → ok <enc> | err
//   h2c.gro|h2c.gnu|h2c.grist exp dst msg   the generic suites; exp ∈ 224|256|384|512|3256|3512|x128|x256
//   h2c.u2f b                       uniformToField25519 → ok <fe32> (panic doc unless len = 48)
//   h2c.enc b48 / h2c.htc b96       encodeToCurve / hashToCurve on given uniform bytes → ok <enc> <torsionfree>

import (
	"crypto"
	_ "crypto/sha256"
	"crypto/sha512"
	"math/big"
	"strconv"

	"golang.org/x/crypto/sha3"

	"github.com/oasisprotocol/curve25519-voi/curve"
	"github.com/oasisprotocol/curve25519-voi/internal/elligator"
	"github.com/oasisprotocol/curve25519-voi/primitives/h2c"
)

// ---------------------------------------------------------------------------------------------
// independent reference code (generators only)

var (
	h2cJ        = big.NewInt(486662)
	h2cSqrtExp  = new(big.Int).Rsh(new(big.Int).Add(refP, big.NewInt(3)), 3)
	h2cEulerExp = new(big.Int).Rsh(new(big.Int).Sub(refP, bi1), 1)
)

func h2cNeg(a *big.Int) *big.Int { return fsub(bi0, a) }

// h2cSqrt returns a square root of x (the even one) if x is a square.
func h2cSqrt(x *big.Int) (*big.Int, bool) {
	x = new(big.Int).Mod(x, refP)
	r := new(big.Int).Exp(x, h2cSqrtExp, refP)
	if fmul(r, r).Cmp(x) != 0 {
		r = fmul(r, refSqrtM1)
		if fmul(r, r).Cmp(x) != 0 {
			return nil, false
		}
	}
	if r.Bit(0) == 1 {
		r = h2cNeg(r)
	}
	return r, true
}

func h2cIsSquare(x *big.Int) bool {
	x = new(big.Int).Mod(x, refP)
	if x.Sign() == 0 {
		return true
	}
	return new(big.Int).Exp(x, h2cEulerExp, refP).Cmp(bi1) == 0
}

// h2cRefMapMont is RFC 9380 §6.7.1 for curve25519 (Z = 2).
func h2cRefMapMont(u *big.Int) (*big.Int, *big.Int) {
	g := func(x *big.Int) *big.Int {
		xx := fmul(x, x)
		return fadd(fadd(fmul(xx, x), fmul(h2cJ, xx)), x)
	}
	x1 := fmul(h2cNeg(h2cJ), finv(fadd(bi1, fmul(bi2, fmul(u, u)))))
	if x1.Sign() == 0 {
		x1 = h2cNeg(h2cJ)
	}
	gx1 := g(x1)
	x2 := fsub(h2cNeg(x1), h2cJ)
	gx2 := g(x2)
	if h2cIsSquare(gx1) {
		y, _ := h2cSqrt(gx1)
		if y.Bit(0) != 1 {
			y = h2cNeg(y)
		}
		return x1, y
	}
	y, _ := h2cSqrt(gx2)
	if y.Bit(0) != 0 {
		y = h2cNeg(y)
	}
	return x2, y
}

var h2cSqrtNeg486664 = func() *big.Int {
	c, _ := h2cSqrt(h2cNeg(big.NewInt(486664)))
	return c
}()

// h2cRefMapEdwards is §6.8.2: Elligator 2 followed by the rational map.
func h2cRefMapEdwards(u *big.Int) rpt {
	s, t := h2cRefMapMont(u)
	if t.Sign() == 0 || fadd(s, bi1).Sign() == 0 {
		return refZero()
	}
	v := fmul(h2cSqrtNeg486664, fmul(s, finv(t)))
	w := fmul(fsub(s, bi1), finv(fadd(s, bi1)))
	return rpt{v, w}
}

// h2cRefXmd512 is expand_message_xmd with SHA-512 for len(dst) <= 255 and n <= 255*64.
func h2cRefXmd512(dst, msg []byte, n int) []byte {
	H := func(parts ...[]byte) []byte {
		h := sha512.New()
		for _, p := range parts {
			h.Write(p)
		}
		return h.Sum(nil)
	}
	dp := append(append([]byte{}, dst...), byte(len(dst)))
	b0 := H(make([]byte, 128), msg, []byte{byte(n >> 8), byte(n), 0}, dp)
	bi := H(b0, []byte{1}, dp)
	out := append([]byte{}, bi...)
	for i := 2; len(out) < n; i++ {
		x := make([]byte, 64)
		for j := range x {
			x[j] = b0[j] ^ bi[j]
		}
		bi = H(x, []byte{byte(i)}, dp)
		out = append(out, bi...)
	}
	return out[:n]
}

func h2cBE(b []byte) *big.Int { return new(big.Int).SetBytes(b) }

// h2cRefNU is the suite edwards25519_XMD:SHA-512_ELL2_NU_ (len(dst) <= 255).
func h2cRefNU(dst, msg []byte) rpt {
	u := new(big.Int).Mod(h2cBE(h2cRefXmd512(dst, msg, 48)), refP)
	return refMul(big.NewInt(8), h2cRefMapEdwards(u))
}

func h2cBEBytes(n *big.Int, l int) []byte {
	b := leBytes(n, l)
	for i, j := 0, len(b)-1; i < j; i, j = i+1, j-1 {
		b[i], b[j] = b[j], b[i]
	}
	return b
}

// h2cPreimages returns the representatives r (if any) whose Elligator image has Montgomery
// u-coordinate u0: x1 = u0 ⇔ r² = −(J+u0)/(2·u0), x2 = u0 ⇔ r² = −u0/(2·(u0+J)).
func h2cPreimages(u0 *big.Int) []*big.Int {
	var out []*big.Int
	u0 = new(big.Int).Mod(u0, refP)
	den1 := fmul(bi2, u0)
	den2 := fmul(bi2, fadd(u0, h2cJ))
	if den1.Sign() != 0 {
		if r, ok := h2cSqrt(fmul(h2cNeg(fadd(h2cJ, u0)), finv(den1))); ok {
			out = append(out, r, h2cNeg(r))
		}
	}
	if den2.Sign() != 0 {
		if r, ok := h2cSqrt(fmul(h2cNeg(u0), finv(den2))); ok {
			out = append(out, r, h2cNeg(r))
		}
	}
	return out
}

// h2cSpecialFE: field inputs named in the quantifier of C14 (as integers mod p).
func h2cSpecialFE() []*big.Int {
	m1 := new(big.Int).Sub(refP, bi1)
	out := []*big.Int{
		big.NewInt(0), big.NewInt(1), m1, big.NewInt(2), new(big.Int).Sub(refP, bi2),
		new(big.Int).Set(refSqrtM1), h2cNeg(refSqrtM1),
		new(big.Int).Rsh(m1, 1), new(big.Int).Rsh(new(big.Int).Add(refP, bi1), 1),
		big.NewInt(486662), h2cNeg(big.NewInt(486662)), big.NewInt(486664), big.NewInt(121665), big.NewInt(121666),
		new(big.Int).Set(h2cSqrtNeg486664), h2cNeg(h2cSqrtNeg486664),
	}
	// representatives whose image has a distinguished Montgomery u: 0 (r = 0), ±1 (order 4 / twist),
	// −J, the two order-8 u-coordinates of RFC 7748 §6.1, small integers
	o8a, _ := new(big.Int).SetString("325606250916557431795983626356110631294008115727848805560023387167927233504", 10)
	o8b, _ := new(big.Int).SetString("39382357235489614581723060781553021112529911719440698176882885853963445705823", 10)
	for _, u0 := range []*big.Int{big.NewInt(0), big.NewInt(1), m1, h2cNeg(h2cJ), o8a, o8b, big.NewInt(2), big.NewInt(3), big.NewInt(4), big.NewInt(9)} {
		out = append(out, h2cPreimages(u0)...)
	}
	// 1 + 2 r² = ±1, J, −J …  (denominators / x1 taking special values)
	for _, t := range []*big.Int{big.NewInt(1), m1, h2cJ, h2cNeg(h2cJ), big.NewInt(2)} {
		// r² = (t − 1)/2
		if r, ok := h2cSqrt(fmul(fsub(t, bi1), finv(bi2))); ok {
			out = append(out, r, h2cNeg(r))
		}
	}
	return out
}

// ---------------------------------------------------------------------------------------------
// H1

var h2cHashes = map[string]crypto.Hash{
	"224": crypto.SHA224, "256": crypto.SHA256, "384": crypto.SHA384, "512": crypto.SHA512,
	"3256": crypto.SHA3_256, "3512": crypto.SHA3_512,
}
var h2cHashSize = map[string]int{"224": 28, "256": 32, "384": 48, "512": 64, "3256": 32, "3512": 64}

func h2cNClass(n, b int) string {
	switch {
	case n == 0:
		return "n=0"
	case n > 65535:
		return "n>65535"
	case b > 0 && n > 255*b:
		return "ell>255"
	case b > 0 && n == 255*b:
		return "ell=255"
	case b > 0 && n <= b:
		return "n<=b"
	case b > 0 && n%b == 0:
		return "n=k*b"
	case n == 65535:
		return "n=65535"
	case b == 0:
		return "n>0"
	}
	return "n>b"
}
func h2cDClass(d int) string {
	switch {
	case d == 0:
		return "dst0"
	case d < 255:
		return "dst<255"
	case d == 255:
		return "dst255"
	}
	return "dst>255"
}

func genH1(g *Gen) {
	dstLens := []int{0, 1, 16, 254, 255, 256, 300, 1000}
	msgLens := []int{0, 1, 55, 56, 63, 64, 65, 111, 112, 119, 127, 128, 129, 135, 136, 137, 167, 168, 169, 300}
	hashes := []string{"224", "256", "384", "512", "3256", "3512"}
	msg := func() []byte {
		if g.Intn(4) == 0 {
			return g.Bytes(g.Intn(1000))
		}
		return g.Bytes(msgLens[g.Intn(len(msgLens))])
	}
	// msg_prime = Z_pad(r) ‖ msg ‖ l_i_b(2) ‖ 0 ‖ DST ‖ len(DST): total sizes around every multiple of 32 up to 512 and around
	// 256/512/1024 (buffer sizes an implementation might assemble it in), for two hashes and two DST lengths
	for _, hn := range []string{"256", "512"} {
		r := map[string]int{"256": 64, "512": 128}[hn]
		for _, dl := range []int{16, 40} {
			var totals []int
			for k := 0; k <= 16; k++ {
				for d := -2; d <= 2; d++ {
					totals = append(totals, r+32*k+d)
				}
			}
			for _, c := range []int{1024} {
				for d := -2; d <= 2; d++ {
					totals = append(totals, c+d)
				}
			}
			for _, t := range totals {
				ml := t - r - 3 - dl - 1
				if ml < 0 || g.Full() {
					continue
				}
				g.Emit("xmd.msgprime-size", "H1", "xmd", hn, hx(g.Bytes(dl)), hx(g.Bytes(ml)), "32")
			}
		}
	}
	for round := 0; !g.Full(); round++ {
		for hi, hn := range hashes {
			b := h2cHashSize[hn]
			ns := []int{0, 1, 31, 32, 33, 63, 64, 65, 127, 128, 129, b - 1, b, b + 1, 2*b - 1, 2 * b, 2*b + 1, 254 * b, 254*b + 1, 255*b - 1, 255 * b, 255*b + 1, 65535, 65536, 70000}
			for di, dl := range dstLens {
				if g.Full() {
					return
				}
				// walk the (dst length, n) grid diagonally over rounds so that all pairs are reached
				n := ns[(round*len(dstLens)+di+hi)%len(ns)]
				g.Emit("xmd."+h2cNClass(n, b)+"."+h2cDClass(dl), "H1", "xmd", hn, hx(g.Bytes(dl)), hx(msg()), itoa(n))
				// a random length: mostly a few blocks, sometimes anything up to the limit
				var rn int
				switch g.Intn(10) {
				case 0:
					rn = 1 + g.Intn(255*b)
				case 1:
					rn = 255*b + 1 + g.Intn(3000)
				default:
					rn = 1 + g.Intn(4*b)
				}
				rd := dl
				if g.Intn(3) == 0 {
					rd = g.Intn(600)
				}
				g.Emit("xmd."+h2cNClass(rn, b)+"."+h2cDClass(rd), "H1", "xmd", hn, hx(g.Bytes(rd)), hx(msg()), itoa(rn))
			}
		}
		for xi, xn := range []string{"128", "256"} {
			rate := 168 - 32*xi
			ns := []int{0, 1, 31, 32, 33, 63, 64, 65, rate - 1, rate, rate + 1, 2*rate - 1, 2 * rate, 2*rate + 1, 1000, 65534, 65535, 65536, 70000}
			for di, dl := range dstLens {
				if g.Full() {
					return
				}
				n := ns[(round*len(dstLens)+di+xi)%len(ns)]
				if n >= 65534 && n <= 65535 && round%4 != 0 {
					n = 1 + g.Intn(5000) // the 128 KiB reply lines are kept rare
				}
				// state of the XOF instance handed to the library: fresh, absorbing, or already squeezing
				pre, rd := []byte{}, 0
				switch g.Intn(4) {
				case 1:
					pre = g.Bytes(1 + g.Intn(40))
				case 2:
					pre = g.Bytes(rate + g.Intn(200))
				case 3:
					pre = g.Bytes(g.Intn(300))
					// Only SHAKE128: in the pinned x/crypto (v0.0.0-20220321153916) sha3.(*state).clone slices
					// storage[rate-cap(buf):rate] for a squeezing sponge, which is a negative bound for every rate
					// below 168 at most read offsets, so ShakeHash.Clone() itself dies with a runtime error for a
					// SHAKE256 instance that has been read from (reachable through ExpandMessageXOF → newXOF;
					// reported as a finding, not part of C14's statement).
					if xn == "128" {
						rd = 1 + g.Intn(400)
					}
				}
				cls := "fresh"
				if rd > 0 {
					cls = "squeezing"
				} else if len(pre) > 0 {
					cls = "absorbing"
				}
				g.Emit("xof."+h2cNClass(n, 0)+"."+h2cDClass(dl)+"."+cls, "H1", "xof", xn, hx(g.Bytes(dl)), hx(msg()), itoa(n), hx(pre), itoa(rd))
				rn := 1 + g.Intn(3*rate)
				g.Emit("xof."+h2cNClass(rn, 0)+"."+h2cDClass(dl)+".fresh", "H1", "xof", xn, hx(g.Bytes(dl)), hx(msg()), itoa(rn), "-", "0")
			}
		}
	}
}

func h2cXof(name string) sha3.ShakeHash {
	if name == "128" || name == "x128" {
		return sha3.NewShake128()
	}
	return sha3.NewShake256()
}

func h2cOut(n int) []byte {
	out := make([]byte, n)
	for i := range out {
		out[i] = 0xa5 // the library must overwrite every byte
	}
	return out
}

func execH1(op string, a []string) string {
	switch op {
	case "xmd":
		hf, ok := h2cHashes[a[0]]
		if !ok {
			return "bad-op"
		}
		n, _ := strconv.Atoi(a[3])
		out := h2cOut(n)
		if err := h2c.ExpandMessageXMD(out, hf, unhex(a[1]), unhex(a[2])); err != nil {
			return "err"
		}
		return "ok " + hx(out)
	case "xof":
		n, _ := strconv.Atoi(a[3])
		out := h2cOut(n)
		x := h2cXof(a[0])
		if pre := unhex(a[4]); len(pre) > 0 {
			_, _ = x.Write(pre)
		}
		if rd, _ := strconv.Atoi(a[5]); rd > 0 {
			_, _ = x.Read(make([]byte, rd))
		}
		if err := h2c.ExpandMessageXOF(out, x, unhex(a[1]), unhex(a[2])); err != nil {
			return "err"
		}
		return "ok " + hx(out)
	}
	return "bad-op"
}

// ---------------------------------------------------------------------------------------------
// H2

func h2cFE(n *big.Int) string { return hx(leBytes(n, 32)) }

func genH2(g *Gen) {
	special := h2cSpecialFE()
	two255 := new(big.Int).Lsh(bi1, 255)
	randFE := func() *big.Int { return new(big.Int).Mod(leInt(g.Bytes(40)), refP) }
	em := func(class string, fields ...string) { // never exceed the budget
		if !g.Full() {
			g.Emit(class, fields...)
		}
	}
	ell := func(class string, n *big.Int) {
		em("ell2."+class, "H2", "ell2", h2cFE(n))
		em("ell2m."+class, "H2", "ell2m", h2cFE(n))
	}
	be48 := func(n *big.Int) []byte { return h2cBEBytes(n, 48) }
	dstLens := []int{0, 1, 16, 43, 254, 255, 256, 400}
	exps := []string{"224", "256", "384", "512", "3256", "3512", "x128", "x256"}
	two384 := new(big.Int).Lsh(bi1, 384)
	wide := func() *big.Int { return leInt(g.Bytes(48)) }
	// 48-byte strings that reduce to a given field element r: r + k·p < 2^384
	lift := func(r *big.Int) *big.Int {
		k := leInt(g.Bytes(16)) // < 2^128, so r + k·p < 2^384
		return new(big.Int).Add(new(big.Int).Mod(r, refP), new(big.Int).Mul(k, refP))
	}
	for round := 0; !g.Full(); round++ {
		// --- Elligator 2 on crafted field elements
		if round == 0 {
			for _, s := range special {
				ell("special", s)
			}
			// non-canonical encodings: p + i (≡ i), and the same with the ignored bit 255 set
			for i := int64(0); i < 19; i++ {
				ell("noncanon", new(big.Int).Add(refP, big.NewInt(i)))
			}
			for _, s := range special[:8] {
				ell("bit255", new(big.Int).Add(two255, s))
			}
		} else {
			for i := 0; i < 4; i++ {
				ell("special", special[g.Intn(len(special))])
			}
			ell("noncanon", new(big.Int).Add(refP, big.NewInt(int64(g.Intn(19)))))
			ell("bit255", new(big.Int).Add(two255, randFE()))
		}
		for i := 0; i < 3; i++ {
			a := randFE()
			sq := fmul(a, a)
			ell("square", sq)
			ell("nonsquare", fmul(bi2, sq)) // 2 is a non-square mod p
			r := randFE()
			ell("random", r)
			ell("negated", h2cNeg(r)) // same image as r
			ell("smallint", big.NewInt(int64(g.Intn(1<<16))))
		}
		// --- uniform bytes → field element
		if round < 2 {
			for _, n := range []*big.Int{bi0, bi1, new(big.Int).Sub(refP, bi1), refP, new(big.Int).Add(refP, bi1), new(big.Int).Lsh(refP, 1),
				new(big.Int).Sub(two255, bi1), two255, new(big.Int).Sub(new(big.Int).Lsh(bi1, 256), bi1), new(big.Int).Lsh(bi1, 256),
				new(big.Int).Add(new(big.Int).Lsh(bi1, 256), two255), new(big.Int).Sub(two384, bi1), new(big.Int).Sub(two384, new(big.Int).Lsh(bi1, 255)),
				new(big.Int).Lsh(bi1, 383), new(big.Int).Sub(new(big.Int).Lsh(bi1, 383), bi1)} {
				em("u2f.boundary", "H2", "h2c.u2f", hx(be48(n)))
			}
			for _, l := range []int{0, 1, 32, 47, 49, 64, 96} {
				em("u2f.len", "H2", "h2c.u2f", hx(g.Bytes(l)))
			}
		}
		for i := 0; i < 3; i++ {
			em("u2f.random", "H2", "h2c.u2f", hx(be48(wide())))
			em("u2f.lifted", "H2", "h2c.u2f", hx(be48(lift(special[g.Intn(len(special))]))))
		}
		// --- tails of the suites on crafted uniform bytes (exceptional Elligator inputs, equal halves)
		for i := 0; i < 3; i++ {
			s := special[g.Intn(len(special))]
			em("enc.special", "H2", "h2c.enc", hx(be48(lift(s))))
			em("enc.random", "H2", "h2c.enc", hx(be48(wide())))
			r := wide()
			em("htc.special+random", "H2", "h2c.htc", hx(append(be48(lift(s)), be48(r)...)))
			em("htc.random+special", "H2", "h2c.htc", hx(append(be48(r), be48(lift(s))...)))
			em("htc.special+special", "H2", "h2c.htc", hx(append(be48(lift(s)), be48(lift(special[g.Intn(len(special))]))...)))
			em("htc.equal", "H2", "h2c.htc", hx(append(be48(r), be48(r)...)))                 // Q0 = Q1: addition degenerates to doubling
			em("htc.negated", "H2", "h2c.htc", hx(append(be48(r), be48(lift(h2cNeg(r)))...))) // u1 = −u0: same point again
			em("htc.random", "H2", "h2c.htc", hx(append(be48(wide()), be48(wide())...)))
		}
		// --- the suites on (DST, msg)
		for di, dl := range dstLens {
			if g.Full() {
				return
			}
			dst := g.Bytes(dl)
			m := g.Bytes(g.Intn(200))
			dc := h2cDClass(dl)
			em("ro."+dc, "H2", "h2c.ro", hx(dst), hx(m))
			em("nu."+dc, "H2", "h2c.nu", hx(dst), hx(m))
			em("rist."+dc, "H2", "h2c.rist", hx(dst), hx(m))
			e := exps[(round+di)%len(exps)]
			op := []string{"h2c.gro", "h2c.gnu", "h2c.grist"}[(round+di/3)%3]
			em(op[4:]+"."+e, "H2", op, e, hx(g.Bytes(dl)), hx(g.Bytes(g.Intn(100))))
		}
		// the standard DSTs of RFC 9380 Appendix J.5 and of ECVRF, short messages
		for _, d := range []string{"QUUX-V01-CS02-with-edwards25519_XMD:SHA-512_ELL2_RO_", "QUUX-V01-CS02-with-edwards25519_XMD:SHA-512_ELL2_NU_", "ECVRF_edwards25519_XMD:SHA-512_ELL2_NU_\x04"} {
			m := [][]byte{{}, []byte("abc"), []byte("abcdef0123456789"), g.Bytes(32 + g.Intn(64))}[g.Intn(4)]
			em("ro.std", "H2", "h2c.ro", hx([]byte(d)), hx(m))
			em("nu.std", "H2", "h2c.nu", hx([]byte(d)), hx(m))
		}
	}
}

func h2cPt(p *curve.EdwardsPoint) string {
	var c curve.CompressedEdwardsY
	c.SetEdwardsPoint(p)
	tf := "0"
	if p.IsTorsionFree() {
		tf = "1"
	}
	return "ok " + hx(c[:]) + " " + tf
}

func h2cRist(p *curve.RistrettoPoint, err error) string {
	if err != nil {
		return "err"
	}
	b, err := p.MarshalBinary()
	if err != nil {
		return "bad-marshal"
	}
	return "ok " + hx(b)
}

func execH2(op string, a []string) string {
	ptOrErr := func(p *curve.EdwardsPoint, err error) string {
		if err != nil {
			return "err"
		}
		return h2cPt(p)
	}
	switch op {
	case "ell2":
		return "ok " + hx(elligator.VerifEdwardsFlavor(unhex(a[0])))
	case "ell2m":
		u, v := elligator.VerifMontgomeryFlavor(unhex(a[0]))
		return "ok " + hx(u) + " " + hx(v)
	case "h2c.ro":
		return ptOrErr(h2c.Edwards25519_XMD_SHA512_ELL2_RO(unhex(a[0]), unhex(a[1])))
	case "h2c.nu":
		return ptOrErr(h2c.Edwards25519_XMD_SHA512_ELL2_NU(unhex(a[0]), unhex(a[1])))
	case "h2c.rist":
		return h2cRist(h2c.Ristretto255_XMD_R255MAP_RO(crypto.SHA512, unhex(a[0]), unhex(a[1])))
	case "h2c.gro", "h2c.gnu", "h2c.grist":
		dst, msg := unhex(a[1]), unhex(a[2])
		if a[0] == "x128" || a[0] == "x256" {
			x := h2cXof(a[0])
			_, _ = x.Write([]byte("state that the library must discard"))
			switch op {
			case "h2c.gro":
				return ptOrErr(h2c.Edwards25519_XOF_ELL2_RO(x, dst, msg))
			case "h2c.gnu":
				return ptOrErr(h2c.Edwards25519_XOF_ELL2_NU(x, dst, msg))
			}
			return h2cRist(h2c.Ristretto255_XOF_R255MAP_RO(x, dst, msg))
		}
		hf, ok := h2cHashes[a[0]]
		if !ok {
			return "bad-op"
		}
		switch op {
		case "h2c.gro":
			return ptOrErr(h2c.Edwards25519_XMD_ELL2_RO(hf, dst, msg))
		case "h2c.gnu":
			return ptOrErr(h2c.Edwards25519_XMD_ELL2_NU(hf, dst, msg))
		}
		return h2cRist(h2c.Ristretto255_XMD_R255MAP_RO(hf, dst, msg))
	case "h2c.u2f":
		return "ok " + hx(h2c.VerifUniformToField(unhex(a[0])))
	case "h2c.enc":
		return h2cPt(h2c.VerifEncodeToCurve(unhex(a[0])))
	case "h2c.htc":
		return h2cPt(h2c.VerifHashToCurve(unhex(a[0])))
	}
	return "bad-op"
}

func init() {
	register(&Stream{Name: "H1", Gen: genH1, Exec: execH1})
	register(&Stream{Name: "H2", Gen: genH2, Exec: execH2})
}
