package main

// Stream T2: the real functions of curve/models.go, edwards.go, montgomery.go and field.go (through the wrappers that
// `go2ir -flevel` generates) against the field-level programs go2ir translated them into (build/gen/fl.txt, evaluated by
// the Lean driver with the executable field specification).  Field elements travel as integers below 2^255 (the real side
// decodes them with SetBytes and encodes results with ToBytes), predicate inputs as 0/1.  Only meaningful in the serial
// builds (purego, force32bit): in the default build EdwardsPoint operations run on the vector backend, whose results are
// other projective representatives of the same points.

import (
	"math/big"
	"strconv"

	"github.com/oasisprotocol/curve25519-voi/curve"
	"github.com/oasisprotocol/curve25519-voi/internal/elligator"
	"github.com/oasisprotocol/curve25519-voi/internal/field"
)

func flSigs() (names []string, sig map[string]string) {
	sig = map[string]string{}
	for _, n := range field.VerifFLSorted() {
		names = append(names, n)
		sig[n] = field.VerifFLNames()[n]
	}
	for _, n := range curve.VerifFLSorted() {
		names = append(names, n)
		sig[n] = curve.VerifFLNames()[n]
	}
	for _, n := range elligator.VerifFLSorted() {
		names = append(names, n)
		sig[n] = elligator.VerifFLNames()[n]
	}
	return
}

func genT2(g *Gen) {
	names, sig := flSigs()
	if len(names) == 0 {
		return
	}
	two255 := new(big.Int).Lsh(bi1, 255)
	pm1 := new(big.Int).Sub(refP, bi1)
	specials := []*big.Int{bi0, bi1, bi2, pm1, refP, new(big.Int).Add(refP, bi1), new(big.Int).Sub(two255, bi1), new(big.Int).Rsh(refP, 1),
		new(big.Int).Add(new(big.Int).Rsh(refP, 1), bi1), big.NewInt(121665), big.NewInt(486662)}
	val := func() *big.Int {
		switch g.Intn(6) {
		case 0:
			return specials[g.Intn(len(specials))]
		case 1:
			return new(big.Int).Mod(new(big.Int).Mul(leInt(g.Bytes(32)), leInt(g.Bytes(32))), refP) // a random element
		case 2:
			x := new(big.Int).Mod(leInt(g.Bytes(40)), refP)
			return x.Mod(x.Mul(x, x), refP) // a square
		case 3:
			return new(big.Int).Lsh(bi1, uint(g.Intn(255)))
		}
		return new(big.Int).Mod(leInt(g.Bytes(32)), two255) // any 255-bit string (possibly non-canonical)
	}
	for round := 0; !g.Full(); round++ {
		for _, n := range names {
			if g.Full() {
				return
			}
			f := []string{"T2", "run", n}
			for i, k := range sig[n] {
				if k == 'y' {
					// encodings: structured (a canonical value, optionally with bit 255 set) or any 256-bit string
					x := val()
					switch g.Intn(4) {
					case 0:
						x = new(big.Int).Add(new(big.Int).Mod(x, refP), two255)
					case 1:
						x = leInt(g.Bytes(32))
					case 2:
						x = new(big.Int).Mod(x, refP)
					}
					if round < len(specials) {
						x = specials[round]
						if i%2 == 1 {
							x = new(big.Int).Add(x, two255)
						}
					}
					f = append(f, x.String())
				} else if k == 'b' {
					f = append(f, strconv.Itoa((round+i)&1))
				} else if round == 0 {
					f = append(f, specials[(i*3)%len(specials)].String())
				} else if round == 1 {
					f = append(f, specials[(i*5+1)%len(specials)].String())
				} else {
					f = append(f, val().String())
				}
			}
			g.Emit(n, f...)
		}
	}
}

func execT2(op string, a []string) string {
	if op != "run" || len(a) < 1 {
		return "bad-op"
	}
	_, sig := flSigs()
	s, ok := sig[a[0]]
	if !ok {
		return "err no-such-program"
	}
	if len(a)-1 != len(s) {
		return "err arity"
	}
	var in [][]byte
	var bools []int
	for i, k := range s {
		v, ok := new(big.Int).SetString(a[1+i], 10)
		if !ok {
			return "bad-op"
		}
		if k == 'b' {
			bools = append(bools, int(v.Int64()))
		} else {
			in = append(in, leBytes(v, 32))
		}
	}
	out, bout, failed, ok := field.VerifFL(a[0], in, bools)
	if !ok {
		out, bout, failed, ok = curve.VerifFL(a[0], in, bools)
	}
	if !ok {
		out, bout, failed, ok = elligator.VerifFL(a[0], in, bools)
	}
	if !ok {
		return "err no-such-program"
	}
	if failed {
		return "err"
	}
	r := "ok"
	for _, o := range out {
		r += " " + leInt(o).String()
	}
	for _, b := range bout {
		r += " " + strconv.Itoa(b)
	}
	return r
}

func init() { register(&Stream{Name: "T2", Gen: genT2, Exec: execT2}) }
