package main

// Streams for property C09 / C18:
//
//	B1  histories over ed25519.BatchVerifier
//	C1  histories over cache.Verifier (caching verifier) incl. adds into a batch verifier
//	C2  histories over cache.NewLRUCache through the exported Cache interface, sequential (lru.new/put/get) and
//	    concurrent (lru.lin: the concurrent run happens at GENERATION time, the recorded history is the request)
//
// Line formats (flags/hash/ctx exactly as in stream V1, see mkOpts):
//
//	B1 b.new id hint                          NewBatchVerifier / NewBatchVerifierWithCapacity(hint)      -> ok
//	B1 b.add id flags hash ctx pk msg sig     AddWithOptions (flags=nil,hash=0,ctx=- : plain Add)        -> ok
//	B1 b.addx id flags hash ctx pk msg sig    AddExpandedWithOptions(NewExpandedPublicKey(pk) or nil)    -> ok
//	B1 b.addz id flags hash ctx msg sig       AddExpandedWithOptions(&ExpandedPublicKey{} zero value)    -> ok
//	B1 b.force id | b.reset id                                                                            -> ok
//	B1 b.verify id ent                        Verify(entropy)      -> bools all b1 b2 ... | panic doc
//	B1 b.only id ent                          VerifyBatchOnly      -> bool | panic doc
//	    ent: r = harness Rng, n = nil (crypto/rand), z = all-zero reader, f = failing reader, s = short reader
//	C1 c.new id cap | c.verify id flags hash ctx pk msg sig | c.addpk id pk | c.get id pk
//	C1 c.badd id bid flags hash ctx pk msg sig     (Verifier.AddWithOptions into batch verifier bid)
//	C1 b.new / b.reset / b.verify / b.only    as in B1 (the batch verifiers that c.badd fills)
//	C2 lru.new id cap | lru.put id key val|nil | lru.get id key -> ok val|-
//	C2 lru.lin cap call,ret,g|p,key,val ...   -> bool 1   (Lean: Wing-Gong search over Model.LRU)
//	C2 lru.lin cap panic                      a goroutine panicked during the concurrent run (Lean: panic runtime)

import (
	"crypto"
	stded "crypto/ed25519"
	"errors"
	"fmt"
	"io"
	"math/big"
	"runtime"
	"sort"
	"strconv"
	"strings"
	"sync"
	"sync/atomic"

	"github.com/oasisprotocol/curve25519-voi/curve"
	"github.com/oasisprotocol/curve25519-voi/primitives/ed25519"
	"github.com/oasisprotocol/curve25519-voi/primitives/ed25519/extra/cache"
)

// ---------------------------------------------------------------------------------------------
// fast construction of (possibly perturbed) signatures: the two scalar multiplications a*B and r*B are
// taken from the Go standard library (independent of the library under test), everything else is ref.go.

type bKey struct {
	seed   []byte
	a      *big.Int
	prefix []byte
	std    stded.PrivateKey
	A      rpt
}

func newBKey(seed []byte) *bKey {
	hb := leBytes(refH(seed), 64)
	k := &bKey{seed: seed, a: refClamp(hb), prefix: hb[32:], std: stded.NewKeyFromSeed(seed)}
	A, ok := refDecode(k.std[32:])
	if !ok {
		panic("harness: std public key does not decode")
	}
	k.A = A
	return k
}

func (k *bKey) pk() []byte { return append([]byte{}, k.std[32:]...) }

// stdSign: honest signature in mode c by crypto/ed25519
func (k *bKey) stdSign(c edCase) []byte {
	var (
		sig []byte
		err error
	)
	switch {
	case c.f == 1:
		sig, err = k.std.Sign(nil, c.msg, &stded.Options{Hash: crypto.SHA512, Context: string(c.ctx)})
	case c.f == 0:
		sig, err = k.std.Sign(nil, c.msg, &stded.Options{Context: string(c.ctx)})
	default:
		sig = stded.Sign(k.std, c.msg)
	}
	if err != nil {
		panic("harness: std sign: " + err.Error())
	}
	return sig
}

// sign returns (A + T[ta], R + T[tr], (r + k*a + dS) mod L) where k is recomputed for the shifted A, R.
func (k *bKey) sign(c edCase, ta, tr int, dS *big.Int) (pk, Rb []byte, S *big.Int) {
	d := refDom2(c.f, c.ctx)
	r := new(big.Int).Mod(refH(d, k.prefix, c.msg), refL)
	sig0 := k.stdSign(c)
	Rb = append([]byte{}, sig0[:32]...)
	pk = k.pk()
	if tr != 0 {
		R, ok := refDecode(Rb)
		if !ok {
			panic("harness: std R does not decode")
		}
		Rb = refEncode(refAdd(R, refTorsion[tr]))
	}
	if ta != 0 {
		pk = refEncode(refAdd(k.A, refTorsion[ta]))
	}
	kk := new(big.Int).Mod(refH(d, Rb, pk, c.msg), refL)
	S = new(big.Int).Mod(new(big.Int).Add(r, new(big.Int).Mul(kk, k.a)), refL)
	if ta == 0 && tr == 0 {
		if leInt(sig0[32:]).Cmp(S) != 0 {
			panic("harness: ref S differs from crypto/ed25519")
		}
	}
	S.Add(S, dS)
	S.Mod(S, refL)
	return
}

func mkSig(Rb []byte, S *big.Int) []byte { return append(append([]byte{}, Rb...), leBytes(S, 32)...) }

// ---------------------------------------------------------------------------------------------
// one batch entry / verification request

type bEntry struct {
	class        string
	flags, hash  string
	ctx          []byte
	pk, msg, sig []byte
}

func (e *bEntry) args() []string {
	return []string{e.flags, e.hash, hx(e.ctx), hx(e.pk), hx(e.msg), hx(e.sig)}
}

type bGen struct {
	g    *Gen
	keys []*bKey
}

func newBGen(g *Gen, nkeys int) *bGen {
	b := &bGen{g: g}
	for i := 0; i < nkeys; i++ {
		b.keys = append(b.keys, newBKey(g.Bytes(32)))
	}
	return b
}

// cofactored option presets under which an honest or torsion-perturbed signature verifies
var bCofactoredFlags = []string{"nil", "nil", "nil", "2", "3", "15", "0", "7", "11"}

func (b *bGen) mode() edCase {
	g := b.g
	switch g.Intn(6) {
	case 0:
		return edCase{0, g.Bytes(1 + g.Intn(40)), g.Bytes(g.Intn(80))}
	case 1:
		return edCase{0, g.Bytes(255), g.Bytes(g.Intn(20))}
	case 2:
		return edCase{1, nil, g.Bytes(64)}
	case 3:
		return edCase{1, g.Bytes(1 + g.Intn(20)), g.Bytes(64)}
	}
	return edCase{-1, nil, g.Bytes(g.Intn(100))}
}

func hashOf(c edCase) string {
	if c.f == 1 {
		return "512"
	}
	return "0"
}

// entry of a given class; kind "valid" = verifies under cofactored rules with the chosen (cofactored) options
func (b *bGen) entry(class string) *bEntry {
	g := b.g
	k := b.keys[g.Intn(len(b.keys))]
	c := b.mode()
	e := &bEntry{class: class, flags: bCofactoredFlags[g.Intn(len(bCofactoredFlags))], hash: hashOf(c), ctx: c.ctx, msg: c.msg}
	if e.flags == "nil" && g.Intn(2) == 0 {
		// exercise the option-less entry points (plain Add / AddExpanded): pure mode only
		c = edCase{-1, nil, g.Bytes(g.Intn(100))}
		e.hash, e.ctx, e.msg = "0", nil, c.msg
	}
	honest := func() {
		pk, Rb, S := k.sign(c, 0, 0, bi0)
		e.pk, e.sig = pk, mkSig(Rb, S)
	}
	switch class {
	case "honest":
		honest()
	case "torsion": // valid under cofactored rules, (almost always) invalid under cofactorless ones
		var tt [2]int
		switch g.Intn(3) {
		case 0:
			tt = [2]int{1 + g.Intn(7), 0}
		case 1:
			tt = [2]int{0, 1 + g.Intn(7)}
		default:
			tt = [2]int{1 + g.Intn(7), 1 + g.Intn(7)}
		}
		pk, Rb, S := k.sign(c, tt[0], tt[1], bi0)
		e.pk, e.sig = pk, mkSig(Rb, S)
	case "stdlib": // honest, cofactorless preset
		honest()
		e.flags = []string{"23", "16", "19", "21"}[g.Intn(4)]
	case "torsion.stdlib":
		pk, Rb, S := k.sign(c, 1+g.Intn(7), g.Intn(8), bi0)
		e.pk, e.sig = pk, mkSig(Rb, S)
		e.flags = "23"
	case "torsion.stdlib.valid":
		// a key with a small-order component whose signature IS valid under the cofactorless rule: [S]B − [k](A + T) = R − [k]T,
		// so k has to be a multiple of the order of T — messages are drawn until it is.  (k, A) ↦ (−k mod L, −A) is not
		// an identity on such keys: every place that moves the sign between scalar and point shows here.)
		ta := []int{4, 2, 6, 4}[g.Intn(4)]
		ord := int64(map[int]int{4: 2, 2: 4, 6: 4}[ta])
		for try := 0; try < 400; try++ {
			if c.f == 1 {
				c.msg = g.Bytes(64)
			} else {
				c.msg = g.Bytes(1 + g.Intn(60))
			}
			pk, Rb, S := k.sign(c, ta, 0, bi0)
			kk := new(big.Int).Mod(refH(refDom2(c.f, c.ctx), Rb, pk, c.msg), refL)
			e.pk, e.sig, e.msg = pk, mkSig(Rb, S), c.msg
			if new(big.Int).Mod(kk, big.NewInt(ord)).Sign() == 0 {
				break
			}
		}
		e.flags = "23"
	case "dS": // S off by a small amount (mod L): admissible but invalid
		pk, Rb, S := k.sign(c, 0, 0, big.NewInt(int64(1+g.Intn(5))*int64(1-2*g.Intn(2))))
		e.pk, e.sig = pk, mkSig(Rb, S)
	case "Snonmin": // S + L: not minimal, inadmissible
		pk, Rb, S := k.sign(c, 0, 0, bi0)
		S.Add(S, refL)
		e.pk, e.sig = pk, mkSig(Rb, S)
	case "flip":
		honest()
		j := g.Intn(512)
		e.sig[j/8] ^= 1 << (j % 8)
	case "flippk":
		honest()
		j := g.Intn(256)
		e.pk[j/8] ^= 1 << (j % 8)
	case "wrongmsg":
		honest()
		if c.f == 1 {
			e.msg = g.Bytes(64)
		} else {
			e.msg = append(append([]byte{}, e.msg...), 1)
		}
	case "smallA": // small-order A, R = [r]B, S = r: cofactored equation holds iff small-order A is allowed
		r := new(big.Int).Mod(leInt(g.Bytes(40)), refL)
		e.pk = append([]byte{}, g.Pick(refSmall)...)
		e.sig = mkSig(refEncode(refMul(r, refB)), r)
		e.flags = []string{"nil", "3", "15", "1", "23", "5"}[g.Intn(6)]
	case "smallR": // honest A, small-order R, S = k*a
		Rb := g.Pick(refSmall)
		kk := new(big.Int).Mod(refH(refDom2(c.f, c.ctx), Rb, k.pk(), c.msg), refL)
		e.pk = k.pk()
		e.sig = mkSig(Rb, new(big.Int).Mod(new(big.Int).Mul(kk, k.a), refL))
		e.flags = []string{"nil", "0", "3", "15", "13", "23"}[g.Intn(6)]
	case "noncanR":
		honest()
		copy(e.sig[:32], g.Pick(refNonCanon))
		e.flags = []string{"nil", "15", "8", "11"}[g.Intn(4)]
	case "noncanA":
		honest()
		e.pk = append([]byte{}, g.Pick(refNonCanon)...)
		e.flags = []string{"nil", "15", "4", "5", "23"}[g.Intn(6) % 5]
	case "small0": // small-order / non-canonical A and R, S = 0
		pool := append(append([][]byte{}, refSmall...), refNonCanon...)
		e.pk = append([]byte{}, g.Pick(pool)...)
		e.sig = append(append([]byte{}, g.Pick(pool)...), make([]byte, 32)...)
		e.flags = []string{"nil", "15", "3", "31", "23", "7"}[g.Intn(6)]
	case "siglen":
		honest()
		n := []int{0, 1, 32, 63, 65, 96, 128}[g.Intn(7)]
		if n <= 64 {
			e.sig = e.sig[:n]
		} else {
			e.sig = append(e.sig, make([]byte, n-64)...)
		}
	case "pklen":
		honest()
		n := []int{0, 1, 31, 33, 64}[g.Intn(5)]
		if n <= 32 {
			e.pk = e.pk[:n]
		} else {
			e.pk = append(e.pk, make([]byte, n-32)...)
		}
	case "randA":
		honest()
		e.pk = g.Bytes(32)
	case "randR":
		honest()
		copy(e.sig[:32], g.Bytes(32))
	case "badopt": // option errors: at Add time these make the entry invalid (no panic)
		honest()
		switch g.Intn(5) {
		case 0:
			e.ctx = g.Bytes(256)
		case 1:
			e.hash, e.msg = "512", g.Bytes(63)
		case 2:
			e.hash = "256"
		default:
			e.flags = itoa(24 + g.Intn(8)) // AllowNonCanonicalR + CofactorlessVerify
		}
	case "randopt": // honest signature, arbitrary flag combination
		honest()
		e.flags = itoa(g.Intn(32))
	default:
		panic("harness: unknown entry class " + class)
	}
	return e
}

var bBadClasses = []string{"dS", "dS", "Snonmin", "flip", "flip", "flippk", "wrongmsg", "smallA", "smallR", "noncanR", "noncanA",
	"small0", "siglen", "pklen", "randA", "randR", "badopt", "torsion.stdlib", "stdlib", "randopt"}

var bAllClasses = append([]string{"honest", "honest", "honest", "torsion", "torsion", "stdlib", "torsion.stdlib.valid"}, bBadClasses...)

// cancelling tuple: entries whose individual errors are multiples d_i of B with sum 0 (mod L)
func (b *bGen) cancelling(n int) []*bEntry {
	g := b.g
	var ds []*big.Int
	d := new(big.Int).Mod(leInt(g.Bytes(40)), refL)
	if g.Intn(2) == 0 {
		d = big.NewInt(int64(1 + g.Intn(3)))
	}
	switch n {
	case 2:
		ds = []*big.Int{d, new(big.Int).Neg(d)}
	default:
		ds = []*big.Int{d, d, new(big.Int).Mul(d, big.NewInt(-2))}
	}
	k := b.keys[g.Intn(len(b.keys))]
	sameMsg := g.Intn(3) == 0
	c := edCase{-1, nil, g.Bytes(g.Intn(60))}
	var out []*bEntry
	for _, di := range ds {
		if !sameMsg {
			c = edCase{-1, nil, g.Bytes(g.Intn(60))}
		}
		pk, Rb, S := k.sign(c, 0, 0, di)
		out = append(out, &bEntry{class: "cancel" + itoa(n), flags: "nil", hash: "0", pk: pk, msg: c.msg, sig: mkSig(Rb, S)})
	}
	return out
}

var bSizes = []int{1, 2, 3, 37, 38, 63, 64, 65, 93, 94, 95, 96, 127, 128, 129, 188, 189, 190, 191, 250}

func (b *bGen) emitAdd(stream, how string, id int, e *bEntry) {
	b.g.Emit(e.class, append([]string{stream, how, itoa(id)}, e.args()...)...)
}

var bEnts = []string{"r", "r", "r", "n", "z"}

func genB1(g *Gen) {
	b := newBGen(g, 6)
	// plan of batch sizes
	var plan []int
	if g.Tier == "thorough" {
		plan = append(append([]int{}, bSizes...), 1000)
		for i := len(plan) - 1; i > 0; i-- {
			j := g.Intn(i + 1)
			plan[i], plan[j] = plan[j], plan[i]
		}
	}
	bigLeft := 4 * g.N / 2000
	if bigLeft < 2 {
		bigLeft = 2
	}
	pickSize := func() int {
		room := g.N - len(g.lines) - 6
		if len(plan) > 0 {
			n := plan[0]
			plan = plan[1:]
			return n
		}
		for try := 0; try < 20; try++ {
			n := bSizes[g.Intn(len(bSizes))]
			if g.Intn(3) == 0 {
				n = 1 + g.Intn(6)
			}
			if n > room {
				continue
			}
			if n >= 93 && g.Tier != "thorough" {
				if bigLeft == 0 {
					continue
				}
				bigLeft--
			}
			return n
		}
		return 1 + g.Intn(3)
	}
	// sticky-flag scenarios: one special entry (valid under cofactored rules only but added under a cofactorless preset /
	// inadmissible / malformed) at the first, a middle or the last position among honest entries, through every add path
	// (expanded or not, key expansion forced off or not): whatever a later entry does, the verdicts are those of the
	// single verifications
	{
		sid := 7
		for _, cl := range []string{"torsion.stdlib", "torsion.stdlib.valid", "Snonmin", "pklen", "stdlib"} {
			for pos := 0; pos < 3; pos++ {
				for path := 0; path < 4; path++ {
					if g.Full() {
						break
					}
					g.Emit("sticky.new", "B1", "b.new", itoa(sid), "0")
					if path >= 2 {
						g.Emit("sticky.force", "B1", "b.force", itoa(sid))
					}
					op := []string{"b.add", "b.addx"}[path%2]
					for i := 0; i < 3; i++ {
						e := b.entry("honest")
						if i == pos {
							e = b.entry(cl)
						}
						b.emitAdd("B1", op, sid, e)
					}
					g.Emit("sticky."+cl+".only", "B1", "b.only", itoa(sid), "r")
					g.Emit("sticky."+cl+".verify", "B1", "b.verify", itoa(sid), "r")
				}
			}
		}
	}
	id := 0
	for !g.Full() {
		id = (id + 1) % 5
		hint := []int{0, 0, 1, 64, 300}[g.Intn(5)]
		g.Emit("new", "B1", "b.new", itoa(id), itoa(hint))
		cur := 0 // number of entries currently held by verifier id
		if g.Intn(10) == 0 {
			// queries on a fresh (empty) verifier
			g.Emit("empty", "B1", "b.verify", itoa(id), bEnts[g.Intn(len(bEnts))])
			g.Emit("empty", "B1", "b.only", itoa(id), []string{"r", "f"}[g.Intn(2)])
		}
		nseg := 1 + g.Intn(3)
		for seg := 0; seg < nseg && !g.Full(); seg++ {
			n := pickSize()
			// profiles: 0 all valid (cofactored); 3 valid incl. cofactorless entries; 4 exactly one bad entry;
			// 5 arbitrary mix; 6 all valid + a cancelling tuple; 7 a few bad entries
			var profile int
			if n >= 37 {
				// threshold sizes are meant exactly: start from an empty verifier
				if cur > 0 {
					g.Emit("reset", "B1", "b.reset", itoa(id))
					cur = 0
				}
				profile = []int{0, 0, 0, 0, 3, 4, 4, 6, 6, 7}[g.Intn(10)]
				if n >= 93 {
					profile = []int{0, 0, 0, 0, 0, 0, 4, 6, 6, 7}[g.Intn(10)]
				}
			} else {
				profile = []int{0, 0, 3, 4, 5, 5, 6, 7}[g.Intn(8)]
			}
			entries := make([]*bEntry, 0, n+3)
			for len(entries) < n {
				switch profile {
				case 0, 4, 6:
					if g.Intn(4) == 0 {
						entries = append(entries, b.entry("torsion"))
					} else {
						entries = append(entries, b.entry("honest"))
					}
				case 3:
					entries = append(entries, b.entry([]string{"honest", "torsion", "stdlib", "honest"}[g.Intn(4)]))
				case 7:
					if g.Intn(12) == 0 {
						entries = append(entries, b.entry(bBadClasses[g.Intn(len(bBadClasses))]))
					} else {
						entries = append(entries, b.entry("honest"))
					}
				default:
					entries = append(entries, b.entry(bAllClasses[g.Intn(len(bAllClasses))]))
				}
			}
			switch profile {
			case 4:
				entries[g.Intn(n)] = b.entry(bBadClasses[g.Intn(len(bBadClasses))])
			case 6:
				// replace random positions by a cancelling tuple (the size stays n when n >= 3, else grows)
				tuple := b.cancelling(2 + g.Intn(2))
				if len(entries) < len(tuple) {
					entries = append(entries, tuple[:len(tuple)-len(entries)]...)
				}
				perm := make([]int, len(entries))
				for i := range perm {
					perm[i] = i
				}
				for i := len(perm) - 1; i > 0; i-- {
					j := g.Intn(i + 1)
					perm[i], perm[j] = perm[j], perm[i]
				}
				for i, ce := range tuple {
					entries[perm[i]] = ce
				}
			}
			forceAt := -1
			switch g.Intn(6) {
			case 0:
				forceAt = 0
			case 1:
				forceAt = g.Intn(len(entries) + 1)
			}
			how := g.Intn(4) // 0: add, 1: addx, 2,3: mixed
			for i, e := range entries {
				if i == forceAt {
					g.Emit("force", "B1", "b.force", itoa(id))
				}
				op := "b.add"
				if how == 1 || (how >= 2 && g.Intn(2) == 0) {
					op = "b.addx"
				}
				cur++
				if (profile == 5 || profile == 7) && g.Intn(25) == 0 {
					g.Emit("zerokey", "B1", "b.addz", itoa(id), e.flags, e.hash, hx(e.ctx), hx(e.msg), hx(e.sig))
					continue
				}
				b.emitAdd("B1", op, id, e)
			}
			if forceAt == len(entries) {
				g.Emit("force", "B1", "b.force", itoa(id))
			}
			// queries: big batches are expensive to build, ask both questions
			queries := []string{"b.verify", "b.only"}
			if g.Intn(2) == 0 {
				queries = []string{"b.only", "b.verify"}
			}
			if n < 37 {
				queries = queries[:1+g.Intn(2)]
			}
			if g.Intn(4) == 0 {
				queries = append(queries, []string{"b.verify", "b.only"}[g.Intn(2)])
			}
			for _, op := range queries {
				ent := bEnts[g.Intn(len(bEnts))]
				if g.Intn(12) == 0 {
					ent = []string{"f", "s"}[g.Intn(2)]
				}
				g.Emit(fmt.Sprintf("%s.p%d.%s", op[2:], profile, sizeClass(cur)), "B1", op, itoa(id), ent)
			}
			// keep adding to a batch that was already verified, then query again
			if g.Intn(3) == 0 || n >= 93 {
				if n >= 93 && g.Intn(2) == 0 {
					// a big (mostly valid) batch is turned invalid by a cancelling tuple only
					for _, ce := range b.cancelling(2 + g.Intn(2)) {
						b.emitAdd("B1", []string{"b.add", "b.addx"}[g.Intn(2)], id, ce)
						cur++
					}
				} else {
					for i := 0; i < 1+g.Intn(3); i++ {
						cl := "honest"
						if g.Intn(3) == 0 || (n >= 93 && i == 0) {
							cl = bAllClasses[g.Intn(len(bAllClasses))]
						}
						b.emitAdd("B1", []string{"b.add", "b.addx"}[g.Intn(2)], id, b.entry(cl))
						cur++
					}
				}
				g.Emit("verify.more", "B1", "b.verify", itoa(id), "r")
				g.Emit("only.more", "B1", "b.only", itoa(id), "r")
			}
			if g.Intn(5) != 0 {
				g.Emit("reset", "B1", "b.reset", itoa(id))
				cur = 0
				if g.Intn(6) == 0 {
					g.Emit("empty", "B1", "b.verify", itoa(id), "r")
					g.Emit("empty", "B1", "b.only", itoa(id), []string{"r", "f"}[g.Intn(2)])
				}
			}
		}
	}
}

func sizeClass(n int) string {
	switch {
	case n < 37:
		return "small"
	case n < 93:
		return "mid"
	case n < 94:
		return "lt94"
	case n == 94:
		return "eq94"
	case n < 188:
		return "gt94"
	}
	return "ge188"
}

// ---------------------------------------------------------------------------------------------
// executor state

type zeroReader struct{}

func (zeroReader) Read(p []byte) (int, error) {
	for i := range p {
		p[i] = 0
	}
	return len(p), nil
}

type failReader struct{}

func (failReader) Read(p []byte) (int, error) { return 0, errors.New("no entropy") }

type shortReader struct{ n int }

func (s *shortReader) Read(p []byte) (int, error) {
	if s.n == 0 {
		return 0, io.EOF
	}
	m := len(p)
	if m > s.n {
		m = s.n
	}
	s.n -= m
	return m, nil
}

var (
	bxBatches = map[int]*ed25519.BatchVerifier{}
	bxVerifs  = map[int]*cache.Verifier{}
	bxCaches  = map[int]cache.Cache{}
	bxLrus    = map[int]cache.Cache{}
	bxPool    = map[string]*ed25519.ExpandedPublicKey{}
	// entropy for the batch verifier: deterministic; its values do not influence the expected results
	bxEntropy = &Rng{s: 0x6261746368}
)

func resetBatchState() {
	bxBatches = map[int]*ed25519.BatchVerifier{}
	bxVerifs = map[int]*cache.Verifier{}
	bxCaches = map[int]cache.Cache{}
	bxLrus = map[int]cache.Cache{}
	bxPool = map[string]*ed25519.ExpandedPublicKey{}
	bxEntropy = &Rng{s: 0x6261746368}
}

func entropyOf(s string) io.Reader {
	switch s {
	case "n":
		return nil
	case "z":
		return zeroReader{}
	case "f":
		return failReader{}
	case "s":
		return &shortReader{31}
	}
	return bxEntropy
}

func isPlainOpts(a []string) bool { return a[0] == "nil" && a[1] == "0" && a[2] == "-" }

func atoi(s string) int {
	n, err := strconv.Atoi(s)
	if err != nil {
		panic("harness: bad int " + s)
	}
	return n
}

func execBatchOp(op string, a []string) string {
	switch op {
	case "b.new":
		if h := atoi(a[1]); h > 0 {
			bxBatches[atoi(a[0])] = ed25519.NewBatchVerifierWithCapacity(h)
		} else {
			bxBatches[atoi(a[0])] = ed25519.NewBatchVerifier()
		}
		return "ok"
	}
	v := bxBatches[atoi(a[0])]
	if v == nil {
		return "bad-op"
	}
	switch op {
	case "b.add":
		o := a[1:]
		if isPlainOpts(o) {
			v.Add(unhex(o[3]), unhex(o[4]), unhex(o[5]))
		} else {
			v.AddWithOptions(unhex(o[3]), unhex(o[4]), unhex(o[5]), mkOpts(o[0], o[1], o[2]))
		}
		return "ok"
	case "b.addx":
		o := a[1:]
		xp, err := ed25519.NewExpandedPublicKey(unhex(o[3]))
		if err != nil {
			xp = nil
		}
		if isPlainOpts(o) {
			v.AddExpanded(xp, unhex(o[4]), unhex(o[5]))
		} else {
			v.AddExpandedWithOptions(xp, unhex(o[4]), unhex(o[5]), mkOpts(o[0], o[1], o[2]))
		}
		return "ok"
	case "b.addz":
		o := a[1:]
		v.AddExpandedWithOptions(&ed25519.ExpandedPublicKey{}, unhex(o[3]), unhex(o[4]), mkOpts(o[0], o[1], o[2]))
		return "ok"
	case "b.force":
		if v.ForceNoPublicKeyExpansion() != v {
			return "err"
		}
		return "ok"
	case "b.reset":
		if v.Reset() != v {
			return "err"
		}
		return "ok"
	case "b.verify":
		all, bits := v.Verify(entropyOf(a[1]))
		var sb strings.Builder
		sb.WriteString("bools ")
		sb.WriteByte('0' + b2u(all))
		for _, x := range bits {
			sb.WriteByte(' ')
			sb.WriteByte('0' + b2u(x))
		}
		return sb.String()
	case "b.only":
		return b2s(v.VerifyBatchOnly(entropyOf(a[1])))
	}
	return "bad-op"
}

func b2u(b bool) byte {
	if b {
		return 1
	}
	return 0
}

func execB1(op string, a []string) string { return execBatchOp(op, a) }

// ---------------------------------------------------------------------------------------------
// C1: caching verifier

func execC1(op string, a []string) string {
	if strings.HasPrefix(op, "b.") {
		return execBatchOp(op, a)
	}
	if op == "c.new" {
		c := cache.NewLRUCache(atoi(a[1]))
		bxCaches[atoi(a[0])] = c
		bxVerifs[atoi(a[0])] = cache.NewVerifier(c)
		return "ok"
	}
	v := bxVerifs[atoi(a[0])]
	if v == nil {
		return "bad-op"
	}
	switch op {
	case "c.verify":
		o := a[1:]
		if isPlainOpts(o) {
			return b2s(v.Verify(unhex(o[3]), unhex(o[4]), unhex(o[5])))
		}
		return b2s(v.VerifyWithOptions(unhex(o[3]), unhex(o[4]), unhex(o[5]), mkOpts(o[0], o[1], o[2])))
	case "c.addpk":
		v.AddPublicKey(unhex(a[1]))
		return "ok"
	case "c.badd":
		bv := bxBatches[atoi(a[1])]
		if bv == nil {
			return "bad-op"
		}
		o := a[2:]
		if isPlainOpts(o) {
			v.Add(bv, unhex(o[3]), unhex(o[4]), unhex(o[5]))
		} else {
			v.AddWithOptions(bv, unhex(o[3]), unhex(o[4]), unhex(o[5]), mkOpts(o[0], o[1], o[2]))
		}
		return "ok"
	case "c.get":
		var k curve.CompressedEdwardsY
		if _, err := k.SetBytes(unhex(a[1])); err != nil {
			return "err"
		}
		return b2s(bxCaches[atoi(a[0])].Get(&k) != nil)
	}
	return "bad-op"
}

func genC1(g *Gen) {
	b := newBGen(g, 1)
	cid, bid := 0, 100
	for !g.Full() {
		cid = (cid + 1) % 4
		bid = 100 + (bid-100+1)%4
		capacity := 1 + g.Intn(4)
		if g.Intn(25) == 0 {
			g.Emit("badcap", "C1", "c.new", itoa(cid+10), itoa(-g.Intn(2)))
		}
		g.Emit("new", "C1", "c.new", itoa(cid), itoa(capacity))
		g.Emit("new", "C1", "b.new", itoa(bid), "0")
		// key universe: 2..9 keys, kinds: honest secret keys, torsion-shifted honest key, small order, non-canonical,
		// undecodable, wrong length
		nk := 2 + g.Intn(8)
		type ckey struct {
			kind string
			k    *bKey
			ta   int
			pk   []byte
		}
		var keys []*ckey
		for i := 0; i < nk; i++ {
			ck := &ckey{}
			switch r := g.Intn(12); {
			case r < 6 || i == 0:
				ck.kind, ck.k = "honest", newBKey(g.Bytes(32))
				ck.pk = ck.k.pk()
			case r < 7:
				ck.kind, ck.k, ck.ta = "torsionkey", newBKey(g.Bytes(32)), 1+g.Intn(7)
				ck.pk = refEncode(refAdd(ck.k.A, refTorsion[ck.ta]))
			case r < 8:
				ck.kind, ck.pk = "smallkey", append([]byte{}, g.Pick(refSmall)...)
			case r < 9:
				ck.kind, ck.pk = "noncankey", append([]byte{}, g.Pick(refNonCanon)...)
			case r < 10:
				// a 32-byte string that does not decode: search with the reference decoder
				for {
					ck.pk = g.Bytes(32)
					if _, ok := refDecode(ck.pk); !ok {
						break
					}
				}
				ck.kind = "undecodable"
			default:
				ck.kind, ck.pk = "badlen", g.Bytes([]int{0, 1, 31, 33, 64}[g.Intn(5)])
			}
			keys = append(keys, ck)
		}
		nops := 25 + g.Intn(50)
		badded := 0
		for i := 0; i < nops && !g.Full(); i++ {
			ck := keys[g.Intn(nk)]
			// the request for this key
			c := b.mode()
			e := &bEntry{flags: bCofactoredFlags[g.Intn(len(bCofactoredFlags))], hash: hashOf(c), ctx: c.ctx, msg: c.msg, pk: ck.pk}
			if e.flags == "nil" && g.Intn(2) == 0 {
				c = edCase{-1, nil, g.Bytes(g.Intn(60))}
				e.hash, e.ctx, e.msg = "0", nil, c.msg
			}
			cls := ck.kind
			if ck.k != nil {
				pk, Rb, S := ck.k.sign(c, ck.ta, 0, bi0)
				if string(pk) != string(ck.pk) {
					panic("harness: key mismatch")
				}
				e.sig = mkSig(Rb, S)
				switch g.Intn(8) {
				case 0:
					j := g.Intn(512)
					e.sig[j/8] ^= 1 << (j % 8)
					cls += ".flip"
				case 1:
					e.flags = []string{"23", "16", "3", "15"}[g.Intn(4)]
					cls += ".preset"
				case 2:
					e.flags = itoa(g.Intn(32))
					cls += ".randopt"
				}
			} else {
				switch ck.kind {
				case "smallkey", "noncankey":
					r := new(big.Int).Mod(leInt(g.Bytes(40)), refL)
					e.sig = mkSig(refEncode(refMul(r, refB)), r)
					e.flags = []string{"nil", "3", "15", "1", "23", "5", "7"}[g.Intn(7)]
				default:
					e.sig = g.Bytes(64)
					e.sig[63] &= 0x0f
				}
			}
			// bad options: with a good key the verifier panics (documented), with a bad key it returns false first
			if g.Intn(12) == 0 {
				switch g.Intn(4) {
				case 0:
					e.ctx = g.Bytes(256)
				case 1:
					e.hash, e.msg = "512", g.Bytes(63)
				case 2:
					e.hash = "256"
				default:
					e.flags = itoa(24 + g.Intn(8))
				}
				cls += ".badopt"
			}
			switch r := g.Intn(20); {
			case r < 11:
				g.Emit("verify."+cls, append([]string{"C1", "c.verify", itoa(cid)}, e.args()...)...)
			case r < 13:
				g.Emit("addpk."+ck.kind, "C1", "c.addpk", itoa(cid), hx(ck.pk))
			case r < 16:
				if len(ck.pk) == 32 {
					g.Emit("get."+ck.kind, "C1", "c.get", itoa(cid), hx(ck.pk))
				}
			default:
				g.Emit("badd."+cls, append([]string{"C1", "c.badd", itoa(cid), itoa(bid)}, e.args()...)...)
				badded++
			}
			if badded > 0 && g.Intn(10) == 0 {
				g.Emit("bverify", "C1", "b.verify", itoa(bid), "r")
				g.Emit("bonly", "C1", "b.only", itoa(bid), "r")
				if g.Intn(2) == 0 {
					g.Emit("breset", "C1", "b.reset", itoa(bid))
					badded = 0
				}
			}
		}
		// which keys are still cached (in a fixed order: observes the final recency/eviction state)
		for _, ck := range keys {
			if len(ck.pk) == 32 {
				g.Emit("final.get", "C1", "c.get", itoa(cid), hx(ck.pk))
			}
		}
		g.Emit("bverify", "C1", "b.verify", itoa(bid), "r")
	}
}

// ---------------------------------------------------------------------------------------------
// C2: the LRU cache itself

func poolKey(pkHex string) *ed25519.ExpandedPublicKey {
	if pkHex == "nil" {
		return nil
	}
	if x := bxPool[pkHex]; x != nil {
		return x
	}
	x, err := ed25519.NewExpandedPublicKey(unhex(pkHex))
	if err != nil {
		panic("harness: pool key does not expand")
	}
	bxPool[pkHex] = x
	return x
}

func execC2(op string, a []string) string {
	switch op {
	case "lru.new":
		bxLrus[atoi(a[0])] = cache.NewLRUCache(atoi(a[1]))
		return "ok"
	case "lru.lin":
		// the concurrent execution took place when the request was generated; the Lean side decides linearizability
		return "bool 1"
	case "lru.stress":
		return lruStress(atoi(a[0]), atoi(a[1]), atoi(a[2]), atoi(a[3]), uint64(atoi(a[4])), atoi(a[5]), atoi(a[6]))
	}
	c := bxLrus[atoi(a[0])]
	if c == nil {
		return "bad-op"
	}
	var k curve.CompressedEdwardsY
	if _, err := k.SetBytes(unhex(a[1])); err != nil {
		return "err"
	}
	switch op {
	case "lru.put":
		c.Put(&k, poolKey(a[2]))
		return "ok"
	case "lru.get":
		x := c.Get(&k)
		if x == nil {
			return "ok -"
		}
		cy := x.CompressedY()
		return "ok " + hx(cy[:])
	}
	return "bad-op"
}

// lruStress hammers a fresh cache from nthreads goroutines (Get and Put over a key universe slightly larger than the
// capacity, so that hits on the least recently used key race with evicting Puts all the time), then audits it
// sequentially: naudit >= capacity fresh keys are put one after the other and every key is looked up.  For a correct LRU
// the audit's outcome does not depend on what happened before (exactly the last `capacity` audit keys are present).
func lruStress(capacity, nkeys, nthreads, nops int, seed uint64, naudit, nvals int) (reply string) {
	defer func() {
		if e := recover(); e != nil {
			reply = "panic runtime"
		}
	}()
	c := cache.NewLRUCache(capacity)
	keys := make([]curve.CompressedEdwardsY, nkeys)
	for i := range keys {
		keys[i][0] = byte(i + 1)
	}
	vals := linPool()
	if nvals > len(vals) {
		return "bad-op"
	}
	vals = vals[:nvals]
	idx := map[*ed25519.ExpandedPublicKey]int{}
	for i, v := range vals {
		idx[v] = i
	}
	var wg sync.WaitGroup
	var crashed atomic.Bool
	var start atomic.Bool
	var wrong atomic.Int64
	for t := 0; t < nthreads; t++ {
		wg.Add(1)
		go func(t int) {
			defer wg.Done()
			defer func() {
				if e := recover(); e != nil {
					crashed.Store(true)
				}
			}()
			r := &Rng{s: seed*1000003 + uint64(t)}
			for !start.Load() {
				runtime.Gosched()
			}
			for i := 0; i < nops/nthreads; i++ {
				k := r.Intn(nkeys)
				if r.Intn(3) == 0 {
					c.Put(&keys[k], vals[k%len(vals)]) // key k is only ever bound to value k mod nvals
				} else if x := c.Get(&keys[k]); x != nil && x != vals[k%len(vals)] {
					wrong.Add(1) // a value that was never stored under this key
				}
			}
		}(t)
	}
	start.Store(true)
	wg.Wait()
	if crashed.Load() {
		return "panic runtime"
	}
	if n := wrong.Load(); n > 0 {
		return "fail a Get returned a value bound to another key (" + itoa(int(n)) + " times)"
	}
	akeys := make([]curve.CompressedEdwardsY, naudit)
	for i := range akeys {
		akeys[i][0] = byte(0xA0 + i)
		c.Put(&akeys[i], vals[i%len(vals)])
	}
	toks := []string{"ok"}
	look := func(k *curve.CompressedEdwardsY) {
		if x := c.Get(k); x == nil {
			toks = append(toks, "-")
		} else {
			toks = append(toks, itoa(idx[x]))
		}
	}
	for i := range akeys {
		look(&akeys[i])
	}
	for i := range keys {
		look(&keys[i])
	}
	return strings.Join(toks, " ")
}

type linEv struct {
	call, ret int64
	put       bool
	key, val  int // val: value put / value returned, -1 = nil
}

// runConcurrent performs a real concurrent run on a fresh cache and returns the recorded history.
func runConcurrent(capacity, nkeys, nthreads, nops int, seed uint64) []linEv {
	c := cache.NewLRUCache(capacity)
	keys := make([]curve.CompressedEdwardsY, nkeys)
	for i := range keys {
		keys[i][0] = byte(i + 1)
	}
	vals := linPool()
	idx := map[*ed25519.ExpandedPublicKey]int{}
	for i, v := range vals {
		idx[v] = i
	}
	var (
		ctr   atomic.Int64
		start atomic.Bool
		wg    sync.WaitGroup
		out   = make([][]linEv, nthreads)
	)
	rounds := (nops + nthreads - 1) / nthreads
	useBarrier := seed%3 != 0 // two thirds of the runs release the threads together before every operation
	var arrived atomic.Int64
	var crashed atomic.Bool
	barrier := func(round int) {
		arrived.Add(1)
		target := int64((round + 1) * nthreads)
		for spins := 0; arrived.Load() < target && !crashed.Load(); spins++ {
			if spins > 2000 {
				runtime.Gosched()
			}
		}
	}
	for t := 0; t < nthreads; t++ {
		n := nops / nthreads
		if t < nops%nthreads {
			n++
		}
		wg.Add(1)
		go func(t, n int) {
			defer wg.Done()
			defer func() {
				// a panic inside the cache (only possible if its locking is broken) must not kill the generator
				if e := recover(); e != nil {
					crashed.Store(true)
				}
			}()
			r := &Rng{s: seed*1000003 + uint64(t)}
			// the plan is drawn before the start signal so that the timed section is as short as possible
			type planned struct {
				put      bool
				key, val int
				yield    bool
			}
			plan := make([]planned, n)
			for i := range plan {
				plan[i] = planned{put: r.Intn(2) == 0, key: r.Intn(nkeys), val: r.Intn(len(vals)), yield: r.Intn(4) == 0}
			}
			evs := make([]linEv, 0, n)
			for spins := 0; !start.Load(); spins++ {
				if spins > 2000 {
					runtime.Gosched()
				}
			}
			for i := 0; i < rounds; i++ {
				if useBarrier {
					barrier(i)
				}
				if i >= n {
					continue
				}
				p := plan[i]
				if p.yield && !useBarrier {
					runtime.Gosched()
				}
				if p.put {
					call := ctr.Add(1)
					c.Put(&keys[p.key], vals[p.val])
					ret := ctr.Add(1)
					evs = append(evs, linEv{call, ret, true, p.key, p.val})
				} else {
					call := ctr.Add(1)
					x := c.Get(&keys[p.key])
					ret := ctr.Add(1)
					v := -1
					if x != nil {
						v = idx[x]
					}
					evs = append(evs, linEv{call, ret, false, p.key, v})
				}
			}
			out[t] = evs
		}(t, n)
	}
	start.Store(true)
	wg.Wait()
	if crashed.Load() {
		return nil
	}
	var all []linEv
	for _, e := range out {
		all = append(all, e...)
	}
	sort.Slice(all, func(i, j int) bool { return all[i].call < all[j].call })
	return all
}

var linPoolCache []*ed25519.ExpandedPublicKey

// a few distinct expanded keys used as VALUES in concurrent histories (identified by index)
func linPool() []*ed25519.ExpandedPublicKey {
	if linPoolCache == nil {
		for i := 0; i < 5; i++ {
			seed := make([]byte, 32)
			seed[0] = byte(i + 1)
			x, err := ed25519.NewExpandedPublicKey([]byte(stded.NewKeyFromSeed(seed)[32:]))
			if err != nil {
				panic("harness: lin pool")
			}
			linPoolCache = append(linPoolCache, x)
		}
	}
	return linPoolCache
}

func linTokens(h []linEv) (toks []string, overlaps int) {
	for i, e := range h {
		kind := "g"
		if e.put {
			kind = "p"
		}
		v := "-"
		if e.val >= 0 {
			v = itoa(e.val)
		}
		toks = append(toks, fmt.Sprintf("%d,%d,%s,%d,%s", e.call, e.ret, kind, e.key, v))
		for _, f := range h[i+1:] {
			if f.call < e.ret {
				overlaps++
			}
		}
	}
	return
}

func genC2(g *Gen) {
	id := 0
	for !g.Full() {
		// ---- a sequential history
		id = (id + 1) % 4
		capacity := 1 + g.Intn(4)
		if g.Intn(20) == 0 {
			g.Emit("badcap", "C2", "lru.new", itoa(id+10), itoa(-g.Intn(3)))
		}
		g.Emit("new", "C2", "lru.new", itoa(id), itoa(capacity))
		nk := 2 + g.Intn(8)
		var pks [][]byte
		for i := 0; i < nk; i++ {
			pks = append(pks, stded.NewKeyFromSeed(g.Bytes(32))[32:])
		}
		withNil := g.Intn(8) == 0      // API misuse: nil values
		withMismatch := g.Intn(3) == 0 // API misuse: value of another key
		nops := 20 + g.Intn(60)
		for i := 0; i < nops && !g.Full(); i++ {
			k := g.Intn(nk)
			if g.Intn(9) == 0 {
				k = g.Intn(2) // a hot key
			}
			switch r := g.Intn(10); {
			case r < 5:
				g.Emit("get", "C2", "lru.get", itoa(id), hx(pks[k]))
			default:
				v, cls := hx(pks[k]), "put"
				if withMismatch && g.Intn(4) == 0 {
					v, cls = hx(pks[g.Intn(nk)]), "put.mismatch"
				}
				if withNil && g.Intn(5) == 0 {
					v, cls = "nil", "put.nil"
				}
				g.Emit(cls, "C2", "lru.put", itoa(id), hx(pks[k]), v)
			}
		}
		for k := 0; k < nk && !g.Full(); k++ {
			g.Emit("final.get", "C2", "lru.get", itoa(id), hx(pks[k]))
		}
		// ---- concurrent stress + sequential audit
		for i := 0; i < 6 && !g.Full(); i++ {
			capacity := 1 + g.Intn(5)
			g.Emit("stress", "C2", "lru.stress", itoa(capacity), itoa(capacity+1+g.Intn(3)), itoa(2+g.Intn(7)), itoa(4000+g.Intn(20000)),
				itoa(g.Intn(1<<30)), itoa(capacity+1+g.Intn(3)), itoa(3))
		}
		// ---- a few recorded concurrent histories
		for i := 0; i < 12 && !g.Full(); i++ {
			capacity := 1 + g.Intn(4)
			nkeys := capacity + 1 + g.Intn(3)
			nthreads := 2 + g.Intn(3)
			nops := 6 + g.Intn(9)
			h := runConcurrent(capacity, nkeys, nthreads, nops, g.U64())
			if h == nil {
				// a goroutine panicked inside the cache: the Lean side answers `panic runtime` to the token `panic`
				g.Emit("lin.crash", "C2", "lru.lin", itoa(capacity), "panic")
				continue
			}
			toks, ov := linTokens(h)
			cls := "lin.seq"
			if ov > 0 {
				cls = "lin.overlap"
			}
			g.Emit(cls, append([]string{"C2", "lru.lin", itoa(capacity)}, toks...)...)
		}
	}
}

func init() {
	register(&Stream{Name: "B1", Gen: genB1, Exec: execB1, Reset: resetBatchState})
	register(&Stream{Name: "C1", Gen: genC1, Exec: execC1, Reset: resetBatchState})
	register(&Stream{Name: "C2", Gen: genC2, Exec: execC2, Reset: resetBatchState})
}
