// Command verifharness drives the real curve25519-voi code through the line protocol that the
// Lean driver (voidrv) also speaks.  It is compiled *inside* the /repo module through
// `go build -overlay` (mapped to internal/verifharness), so it can import internal packages and
// the `verif`-tagged export files; nothing is written to /repo.
//
//	verifharness -stream V1 -seed 1 -n 2000 -req req.txt -out go.out -stats stats.json
//	verifharness -replay file -out go.out          (execute request lines from a file)
package main

import (
	"bufio"
	"bytes"
	"encoding/hex"
	"encoding/json"
	"flag"
	"fmt"
	"os"
	"runtime"
	"sort"
	"strings"
	"sync"
	"sync/atomic"
	"time"
)

// ---- deterministic PRNG (SplitMix64); every random choice of every generator comes from here
type Rng struct{ s uint64 }

func (r *Rng) U64() uint64 {
	r.s += 0x9e3779b97f4a7c15
	z := r.s
	z = (z ^ (z >> 30)) * 0xbf58476d1ce4e5b9
	z = (z ^ (z >> 27)) * 0x94d049bb133111eb
	return z ^ (z >> 31)
}
func (r *Rng) Intn(n int) int {
	if n <= 0 {
		return 0
	}
	return int(r.U64() % uint64(n))
}
func (r *Rng) Bytes(n int) []byte {
	b := make([]byte, n)
	for i := 0; i < n; i += 8 {
		v := r.U64()
		for j := 0; j < 8 && i+j < n; j++ {
			b[i+j] = byte(v >> (8 * j))
		}
	}
	return b
}
func (r *Rng) Bool() bool { return r.U64()&1 == 1 }
func (r *Rng) Pick(l [][]byte) []byte { return l[r.Intn(len(l))] }

// Read implements io.Reader so that the Rng can serve as an entropy source.
func (r *Rng) Read(p []byte) (int, error) { copy(p, r.Bytes(len(p))); return len(p), nil }

// ---- generator context
type Gen struct {
	*Rng
	N     int    // requested number of cases (generators treat it as a budget)
	Tier  string // quick | thorough
	lines []string
	class []string
}

func (g *Gen) Emit(class string, fields ...string) {
	g.lines = append(g.lines, strings.Join(fields, " "))
	g.class = append(g.class, class)
}
func (g *Gen) Full() bool { return len(g.lines) >= g.N }

type Stream struct {
	Name string
	Gen  func(g *Gen)
	Exec func(op string, a []string) string
	// Reset clears any per-run state held by Exec (stateful streams)
	Reset func()
}

var streams = map[string]*Stream{}

func register(s *Stream) { streams[s.Name] = s }

func hx(b []byte) string {
	if len(b) == 0 {
		return "-"
	}
	return hex.EncodeToString(b)
}
func unhex(s string) []byte {
	if s == "nil" {
		return nil
	}
	if s == "-" {
		return arenaAlloc([]byte{})
	}
	b, err := hex.DecodeString(s)
	if err != nil {
		panic("harness: bad hex " + s)
	}
	return arenaAlloc(b)
}

// Caller-buffer arena (sequential runs only).  Every byte-string argument of one request is placed in ONE buffer, back to
// back (8 guard bytes between), so each slice handed to the library has spare capacity and is followed in memory by the
// next argument — the way callers slice keys, contexts and messages out of packets.  After the operation the buffer must
// be unchanged: a library function that appends to, or writes through, a slice it was only given to read shows up as the
// reply `caller-buffer-modified`, which no model ever gives.  (Harness code that overwrites its own input on purpose calls
// arenaAllowWrites first.)
var arena struct {
	mu          sync.Mutex
	on          bool
	buf, snap   []byte
	off         int
	allowWrites bool
	exactCap    bool // stream P1: its model of run-time panics assumes slices whose capacity equals their length
}

const arenaSize = 1 << 15

// A fresh buffer per request: the library may keep referring to a caller's slice after the call returns (the batch verifier
// keeps the signature slices of cofactorless entries until Verify), so memory handed out for one request is never reused
// for another.
func arenaReset() {
	arena.mu.Lock()
	defer arena.mu.Unlock()
	arena.buf = make([]byte, arenaSize)
	arena.snap = make([]byte, arenaSize)
	arena.off = 0
	arena.allowWrites = false
}

func arenaAllowWrites() {
	arena.mu.Lock()
	arena.allowWrites = true
	arena.mu.Unlock()
}

func arenaAlloc(b []byte) []byte {
	arena.mu.Lock()
	defer arena.mu.Unlock()
	if !arena.on || arena.off+len(b)+8 > arenaSize {
		return b
	}
	o := arena.off
	copy(arena.buf[o:], b)
	for i := 0; i < 8; i++ {
		arena.buf[o+len(b)+i] = 0xc3
	}
	copy(arena.snap[o:], arena.buf[o:o+len(b)+8])
	arena.off = o + len(b) + 8
	if arena.exactCap {
		return arena.buf[o : o+len(b) : o+len(b)]
	}
	return arena.buf[o : o+len(b)] // capacity reaches to the end of the arena: appends land on the next argument
}

func arenaIntact() bool {
	arena.mu.Lock()
	defer arena.mu.Unlock()
	return !arena.on || arena.allowWrites || bytes.Equal(arena.buf[:arena.off], arena.snap[:arena.off])
}
func b2s(b bool) string {
	if b {
		return "bool 1"
	}
	return "bool 0"
}
func itoa(i int) string { return fmt.Sprintf("%d", i) }

// opTimeout bounds one operation: a change that makes the library loop forever must not hang the check (the reply
// "timeout" can never match the model).  The abandoned goroutine keeps spinning; at most maxTimeouts of them are tolerated.
const opTimeout = 20 * time.Second
const maxTimeouts = 3

var timeouts int

func execLine(line string) string {
	if timeouts >= maxTimeouts {
		return "timeout (skipped: too many earlier timeouts)"
	}
	done := make(chan string, 1)
	arenaReset()
	arena.exactCap = strings.HasPrefix(line, "P1 ")
	go func() {
		r := execLineInner(line)
		if !arenaIntact() {
			r = "caller-buffer-modified " + r
		}
		done <- r
	}()
	select {
	case r := <-done:
		return r
	case <-time.After(opTimeout):
		timeouts++
		return "timeout"
	}
}

// execLineInner runs one request against the real code, mapping panics to a reply.
func execLineInner(line string) (reply string) {
	f := strings.Fields(line)
	if len(f) < 2 {
		return "bad-op"
	}
	s := streams[f[0]]
	if s == nil {
		return "bad-op"
	}
	defer func() {
		if e := recover(); e != nil {
			if _, ok := e.(runtime.Error); ok {
				reply = "panic runtime"
			} else if s, ok := e.(string); ok && s == "verif: hook unavailable" {
				reply = "hook-missing" // an optional in-package hook could not be compiled against this tree (see build-harness)
			} else {
				reply = "panic doc"
			}
		}
	}()
	return s.Exec(f[1], f[2:])
}

func main() {
	var (
		stream = flag.String("stream", "", "stream name")
		seed   = flag.Uint64("seed", 1, "PRNG seed")
		n      = flag.Int("n", 1000, "case budget")
		tier   = flag.String("tier", "quick", "quick|thorough")
		req    = flag.String("req", "", "file to write request lines to")
		out    = flag.String("out", "", "file to write reply lines to")
		stats  = flag.String("stats", "", "file to write generator statistics to (json)")
		replay = flag.String("replay", "", "execute request lines from this file instead of generating")
		list   = flag.Bool("list", false, "list streams")
		par    = flag.Int("parallel", 0, "execute the request lines concurrently from this many goroutines (stateless streams only); replies stay in request order")
	)
	flag.Parse()
	if *list {
		var names []string
		for k := range streams {
			names = append(names, k)
		}
		sort.Strings(names)
		fmt.Println(strings.Join(names, " "))
		return
	}
	var lines, classes []string
	if *replay != "" {
		fh, err := os.Open(*replay)
		if err != nil {
			fmt.Fprintln(os.Stderr, err)
			os.Exit(2)
		}
		sc := bufio.NewScanner(fh)
		sc.Buffer(make([]byte, 1<<26), 1<<26)
		for sc.Scan() {
			t := strings.TrimSpace(sc.Text())
			if t == "" || strings.HasPrefix(t, "#") {
				continue
			}
			lines = append(lines, t)
			classes = append(classes, "replay")
		}
	} else {
		s := streams[*stream]
		if s == nil {
			fmt.Fprintln(os.Stderr, "unknown stream", *stream)
			os.Exit(2)
		}
		// the stream name is mixed into the seed so that streams do not share a sequence
		h := *seed
		for _, c := range *stream {
			h = h*1099511628211 + uint64(c)
		}
		g := &Gen{Rng: &Rng{s: h}, N: *n, Tier: *tier}
		s.Gen(g)
		lines, classes = g.lines, g.class
		if *req != "" {
			if err := os.WriteFile(*req, []byte(strings.Join(lines, "\n")+"\n"), 0o644); err != nil {
				panic(err)
			}
		}
	}
	w := bufio.NewWriterSize(os.Stdout, 1<<20)
	if *out != "" {
		fh, err := os.Create(*out)
		if err != nil {
			panic(err)
		}
		defer fh.Close()
		w = bufio.NewWriterSize(fh, 1<<20)
	}
	for _, s := range streams {
		if s.Reset != nil {
			s.Reset()
		}
	}
	hist := map[string]int{}
	kinds := map[string]int{}
	distinct := map[string]bool{}
	nontrivial := 0
	replies := make([]string, len(lines))
	arena.on = *par <= 1 && os.Getenv("VERIF_NO_ARENA") == ""
	if *par > 1 {
		// concurrent execution against the shared package-level state of the library (tables, constants, buffers):
		// every reply must still be what the sequential model predicts
		var wg sync.WaitGroup
		next := int64(-1)
		for g := 0; g < *par; g++ {
			wg.Add(1)
			go func() {
				defer wg.Done()
				for {
					i := int(atomic.AddInt64(&next, 1))
					if i >= len(lines) {
						return
					}
					replies[i] = execLineInner(lines[i])
				}
			}()
		}
		wg.Wait()
	} else {
		for i, l := range lines {
			replies[i] = execLine(l)
		}
	}
	for i, l := range lines {
		r := replies[i]
		fmt.Fprintln(w, r)
		hist[classes[i]]++
		k := strings.SplitN(r, " ", 2)[0]
		kinds[k]++
		if !distinct[l] {
			distinct[l] = true
			if k != "err" && k != "panic" && k != "bad-op" {
				nontrivial++
			}
		}
	}
	w.Flush()
	if *stats != "" {
		samples := []string{}
		for i := 0; i < len(lines) && len(samples) < 3; i += 1 + len(lines)/3 {
			s := lines[i]
			if len(s) > 300 {
				s = s[:300] + "..."
			}
			samples = append(samples, s)
		}
		js, _ := json.Marshal(map[string]interface{}{
			"stream": *stream, "seed": *seed, "evaluations": len(lines), "distinct": len(distinct),
			"distinct_nontrivial": nontrivial, "class_histogram": hist, "reply_kinds": kinds, "samples": samples,
		})
		_ = os.WriteFile(*stats, js, 0o644)
	}
}
