package main

// Stream H3 (property C14): the cases of H1 (message expansion) and H2 (Elligator 2, hash-to-curve suites) —
// same generators with the stream token renamed, same executors, i.e. the REAL ExpandMessageXMD/XOF,
// elligator.EdwardsFlavor/montgomeryFlavor, uniformToField25519, encodeToCurve/hashToCurve and suite functions.
// The Lean side (Voi/Drv/H2CModel.lean) answers from the CODE-SHAPED model Voi.Model.H2C (statement-by-statement
// transcription of expand_message.go, h2c.go and elligator2.go) instead of the RFC 9380 Spec, so that the object of
// the theorems of Voi/Props/C14.lean (model = Spec for all inputs) is itself tied to the Go code on every run.
//
// H3 ops = the ops of H1 and H2 (disjoint names; argument formats as documented in s_h2c.go):
//
//	xmd <hash> dst msg n | xof <128|256> dst msg n pre rd |
//	ell2 fe32 | ell2m fe32 | h2c.ro|h2c.nu|h2c.rist dst msg | h2c.gro|h2c.gnu|h2c.grist exp dst msg |
//	h2c.u2f b | h2c.enc b48 | h2c.htc b96

import "strings"

// h3Sub runs generator gen with budget n on the shared Rng and returns its lines and classes, stream token renamed.
func h3Sub(g *Gen, n int, from string, gen func(*Gen)) ([]string, []string) {
	sub := &Gen{Rng: g.Rng, N: n, Tier: g.Tier}
	gen(sub)
	for i, l := range sub.lines {
		if strings.HasPrefix(l, from+" ") {
			sub.lines[i] = "H3 " + l[len(from)+1:]
		}
	}
	return sub.lines, sub.class
}

func genH3(g *Gen) {
	// 2/5 of the budget for message expansion (its Lean model hashes up to 255 blocks per request), 3/5 for the map
	// and the suites; the two request lists are interleaved in blocks so that a truncated run sees both.
	n1 := g.N * 2 / 5
	l1, c1 := h3Sub(g, n1, "H1", genH1)
	l2, c2 := h3Sub(g, g.N-n1, "H2", genH2)
	const blk = 40
	for i, j := 0, 0; i < len(l1) || j < len(l2); {
		for k := 0; k < blk && i < len(l1); k, i = k+1, i+1 {
			g.lines = append(g.lines, l1[i])
			g.class = append(g.class, c1[i])
		}
		for k := 0; k < blk && j < len(l2); k, j = k+1, j+1 {
			g.lines = append(g.lines, l2[j])
			g.class = append(g.class, c2[j])
		}
	}
}

func execH3(op string, a []string) string {
	switch op {
	case "xmd", "xof":
		return execH1(op, a)
	}
	return execH2(op, a)
}

func init() {
	register(&Stream{Name: "H3", Gen: genH3, Exec: execH3})
}
