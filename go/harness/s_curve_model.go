package main

// Stream G2 (property C03): the scalar-multiplication entry points of package curve, compared with the
// CODE-SHAPED MODELS of the algorithms (Lean: Voi/Model/ScalarMul.lean, handler Voi/Drv/ScalarMulModel.lean):
// radix-16 / NAF / radix-2^w digit loops, lookup tables, constant-time and vartime Straus, Pippenger buckets and the
// dispatch by length.  Stream G1 compares the same entry points with the affine Spec; the generic theorems of
// Voi/Props/C03.lean say that the models compute sum [s_i]P_i in every commutative group.
//
// The Go side executes the REAL library exactly as G1 does (execG1); the generator reuses G1's point pool, scalar
// classes and term variants (s_curve.go) with a smaller budget: the model is slower than the Spec.
//
// G2 ops (argument formats as in G1):
//
//	mul s P | mulbase s | dsm a A b | xdsm a A b | msm ns np s.. P.. | msmvt ns np s.. P.. |
//	xmsmvt nss nsp nds ndp s.. P.. s.. P..

import (
	"fmt"
	"math/big"
)

var (
	g2SmallSizes = []int{0, 1, 2, 3, 7, 8, 9}
	// both sides of the Straus/Pippenger threshold (190; the expanded entry point switches at 191) and of the
	// Pippenger window thresholds (500, 800)
	g2LargeSizes = []int{189, 190, 191, 499, 500, 501, 799, 800, 801}
)

type g2Large struct {
	op      string
	n       int
	variant int
}

func g2EmitMsm(g *Gen, pl *cvPool, class, op string, n, variant int) {
	ss, ps := cvTerms(g, pl, n, variant)
	if n >= 189 {
		// whatever the variant, every large case contains the scalar 2^255-1 (terminal carry of every recoding: the extra
		// digit of w = 8, the top radix-16 digit 8, the NAF digit at position 255) and one carry-maximising pattern
		// — on points of large order, so that a wrong top digit cannot vanish in the torsion / identity variants
		ss[0] = cvScTok(cvMaxScalar)
		ps[0] = pl.tok(pl.pts[g.Intn(len(pl.pts))])
		ss[n-1] = cvScTok(cvScalars[g.Intn(len(cvScalars))])
		ps[n-1] = pl.tok(pl.pts[g.Intn(len(pl.pts))])
	}
	if op == "xmsmvt" {
		k := []int{0, n, n / 2, g.Intn(n + 1)}[g.Intn(4)]
		f := []string{"G2", op, itoa(k), itoa(k), itoa(n - k), itoa(n - k)}
		f = append(append(append(append(f, ss[:k]...), ps[:k]...), ss[k:]...), ps[k:]...)
		g.Emit(class, f...)
		return
	}
	f := []string{"G2", op, itoa(n), itoa(n)}
	g.Emit(class, append(append(f, ss...), ps...)...)
}

func genG2(g *Gen) {
	pl := cvNewPool(g, 32)
	O, B := pl.spec[0], pl.spec[8]
	zero := cvScTok(bi0)

	// ---- deterministic part
	for i := 0; i < 8; i++ { // torsion operands
		g.Emit("torsion.mul", "G2", "mul", cvScTok(cvSc(g)), hx(pl.spec[i].enc))
		g.Emit("torsion.dsm", "G2", "dsm", cvScTok(cvSc(g)), hx(pl.spec[i].enc), cvScTok(cvSc(g)))
	}
	for _, s := range []*big.Int{bi0, bi1, bi2, big.NewInt(8), new(big.Int).Sub(refL, bi1), refL, new(big.Int).Add(refL, bi1), cvMaxScalar} {
		P := pl.pick()
		st := cvScTok(s)
		g.Emit("keyscalar", "G2", "mul", st, pl.tok(P))
		g.Emit("keyscalar", "G2", "mul", st, hx(O.enc))
		g.Emit("keyscalar", "G2", "mulbase", st)
		g.Emit("keyscalar", "G2", "dsm", st, pl.tok(P), st)
		g.Emit("keyscalar", "G2", "xdsm", st, pl.tok(P), zero)
		g.Emit("keyscalar", "G2", "dsm", zero, pl.tok(P), st)
		g.Emit("keyscalar", "G2", "dsm", zero, hx(B.enc), zero)
	}
	// digit patterns that maximise the recoding carries, through every single-scalar algorithm
	for i, s := range cvScalars {
		st := cvScTok(s)
		switch i % 4 {
		case 0:
			g.Emit("pattern", "G2", "mul", st, pl.tok(pl.pick()))
		case 1:
			g.Emit("pattern", "G2", "mulbase", st)
		case 2:
			g.Emit("pattern", "G2", "dsm", st, pl.tok(pl.pick()), cvScTok(cvScalars[(i*7+3)%len(cvScalars)]))
		case 3:
			g.Emit("pattern", "G2", "xdsm", cvScTok(cvScalars[(i*5+1)%len(cvScalars)]), pl.tok(pl.pick()), st)
		}
	}
	// documented panics: slice length mismatch
	{
		s1, s2, s3 := cvScTok(cvSc(g)), cvScTok(cvSc(g)), cvScTok(cvSc(g))
		p1, p2, p3 := hx(B.enc), hx(pl.pick().enc), hx(pl.pick().enc)
		g.Emit("panic", "G2", "msm", "1", "0", s1)
		g.Emit("panic", "G2", "msm", "2", "3", s1, s2, p1, p2, p3)
		g.Emit("panic", "G2", "msmvt", "0", "2", p1, p2)
		g.Emit("panic", "G2", "msmvt", "3", "2", s1, s2, s3, p1, p2)
		g.Emit("panic", "G2", "xmsmvt", "0", "1", "1", "1", p1, s2, p2)
		g.Emit("panic", "G2", "xmsmvt", "1", "1", "2", "1", s1, p1, s2, s3, p2)
	}
	for _, n := range append(append([]int{}, g2SmallSizes...), 64) {
		for _, op := range []string{"msm", "msmvt", "xmsmvt"} {
			g2EmitMsm(g, pl, fmt.Sprintf("small.%s", op), op, n, 0)
		}
	}

	// ---- large multiscalar multiplications (>= 189 terms): all of them in tier thorough, a seed-dependent sample otherwise
	var large []g2Large
	for _, op := range []string{"msmvt", "xmsmvt"} {
		for _, n := range g2LargeSizes {
			for v := range cvVariants {
				large = append(large, g2Large{op, n, v})
			}
		}
	}
	large = append(large, g2Large{"msm", 190, 0}, g2Large{"msm", 190, 1})
	emitLarge := func(c g2Large) {
		g2EmitMsm(g, pl, fmt.Sprintf("large.%s.%d.%s", c.op, c.n, cvVariants[c.variant]), c.op, c.n, c.variant)
	}
	var queue []g2Large
	if g.Tier == "thorough" {
		for _, c := range large {
			emitLarge(c)
		}
	} else {
		// one case at the Straus/Pippenger threshold, one at each window threshold, one with w = 8, then uniform picks
		k := g.N / 200
		if k < 4 {
			k = 4
		}
		for len(queue) < k {
			c := large[g.Intn(len(large))]
			switch len(queue) {
			case 0:
				c.n = []int{189, 190, 191}[g.Intn(3)]
			case 1:
				c.n = []int{499, 500, 501}[g.Intn(3)]
			case 2:
				c.n = []int{799, 800, 801}[g.Intn(3)]
			case 3: // w = 8 (the extra digit) in every run
				c.n = []int{800, 801}[g.Intn(2)]
			}
			if c.op == "msm" && c.n > 200 {
				c.op = "msmvt"
			}
			queue = append(queue, c)
		}
	}

	// ---- randomised part
	for round := 0; !g.Full(); round++ {
		if len(queue) > 0 && round%3 == 0 {
			emitLarge(queue[0])
			queue = queue[1:]
		}
		for i := 0; i < 3; i++ {
			g.Emit("mul", "G2", "mul", cvScTok(cvSc(g)), pl.tok(pl.pick()))
		}
		for i := 0; i < 2; i++ {
			g.Emit("mulbase", "G2", "mulbase", cvScTok(cvSc(g)))
		}
		for i := 0; i < 2; i++ {
			g.Emit("dsm", "G2", "dsm", cvScTok(cvSc(g)), pl.tok(pl.pick()), cvScTok(cvSc(g)))
		}
		g.Emit("xdsm", "G2", "xdsm", cvScTok(cvSc(g)), pl.tok(pl.pick()), cvScTok(cvSc(g)))
		// short scalars: the leading-zero skip of the double-base loop starts low (or at position 0)
		g.Emit("dsm.short", "G2", "dsm", cvScTok(big.NewInt(int64(g.Intn(40)))), pl.tok(pl.pick()), cvScTok(big.NewInt(int64(g.Intn(300)))))
		for _, op := range []string{"msm", "msmvt", "xmsmvt"} {
			n := g2SmallSizes[g.Intn(len(g2SmallSizes))]
			if round%8 == 7 {
				n = 10 + g.Intn(60)
			}
			g2EmitMsm(g, pl, "small."+op, op, n, []int{0, 0, 0, 1, 2, 3, 4, 5, 6}[g.Intn(9)])
		}
		if round%10 == 9 { // undecodable operand / wrong scalar length: the harness answers err on both sides
			g.Emit("badarg", "G2", "mul", cvScTok(cvSc(g)), hx(leBytes(bi2, 32)))
			g.Emit("badarg", "G2", "mul", hx(g.Bytes(31)), hx(B.enc))
			g.Emit("badarg", "G2", "dsm", cvScTok(cvSc(g)), hx(B.enc), hx(g.Bytes(33)))
		}
	}
}

// execG2 drives the real library exactly like G1 (fresh receiver holding a non-trivial point, aliasing variants,
// representation consistency check); only the scalar-multiplication ops belong to this stream.
func execG2(op string, a []string) string {
	switch op {
	case "mul", "mulbase", "dsm", "xdsm", "msm", "msmvt", "xmsmvt":
		return execG1(op, a)
	}
	return "bad-op"
}

func init() {
	register(&Stream{Name: "G2", Gen: genG2, Exec: execG2})
}
