import Voi.Model.Strobe
/-!
# Merlin v1.0 transcripts over the STROBE model (`primitives/merlin/merlin.go`)

Framing exactly as the Go code (and merlin.cool) does it:

* `AppendMessage(label, msg)`      = `meta-AD(label); meta-AD(le32 |msg|, more); AD(msg)`
* `ExtractBytes(label, n)`         = `meta-AD(label); meta-AD(le32 n, more); PRF(n)`
* `NewTranscript(appLabel)`        = `STROBE.New("Merlin v1.0")` then `AppendMessage("dom-sep", appLabel)`
* `BuildRng`                       = clone of the STROBE state
* `RekeyWithWitnessBytes(l, w)`    = `meta-AD(l); meta-AD(le32 |w|, more); KEY(w)`
* `Finalize(entropy)`              = read exactly 32 bytes from the entropy reader (short read → error, builder unchanged);
                                     `meta-AD("rng"); KEY(entropy32)`; the builder is invalidated (`rb.s = nil`)
* `transcriptRng.Read(n)`          = `meta-AD(le32 n); PRF(n)`       (no label; NOT a `more` continuation)

Labels and data are byte lists.  Core Lean only.
-/
namespace Voi.Spec.Merlin
open Voi Voi.Model.Strobe

/-- what the Go code can do besides returning normally -/
inductive MErr where
  | strobe (e : Err)   -- a panic inside `internal/strobe` (never happens for transcripts built by `NewTranscript`)
  | tooLong            -- explicit panic: a length exceeds `math.MaxUint32`
  | entropy            -- error return of `Finalize`: fewer than 32 bytes of entropy
  | nilBuilder         -- use of a `TranscriptRngBuilder` after `Finalize` (`rb.s = nil // Crash on further calls to rb`): nil dereference
  deriving DecidableEq, Repr, Inhabited

def liftS {α} (x : Except Err α) : Except MErr α :=
  match x with
  | .ok a => .ok a
  | .error e => .error (.strobe e)

def merlinProtocolLabel : List UInt8 := "Merlin v1.0".toUTF8.data.toList
def domainSeparatorLabel : List UInt8 := "dom-sep".toUTF8.data.toList
def rngLabel : List UInt8 := "rng".toUTF8.data.toList

def maxUint32 : Nat := 4294967295

/-- `binary.LittleEndian.PutUint32(buf, uint32(n))` -/
def le32 (n : Nat) : List UInt8 :=
  [UInt8.ofNat n, UInt8.ofNat (n / 256), UInt8.ofNat (n / 65536), UInt8.ofNat (n / 16777216)]

structure Transcript where
  s : Strobe
  deriving Inhabited

/-- the builder holds a pointer that `Finalize` sets to nil -/
structure RngBuilder where
  s : Option Strobe
  deriving Inhabited

structure TranscriptRng where
  s : Strobe
  deriving Inhabited

/-- the common prefix `MetaAD(label, false); MetaAD(le32(n), true)` -/
def frame (s : Strobe) (label : List UInt8) (n : Nat) : Except Err Strobe :=
  match MetaAD s label false with
  | .error e => .error e
  | .ok s1 => MetaAD s1 (le32 n) true

def appendMessage (t : Transcript) (label msg : List UInt8) : Except MErr Transcript :=
  if label.length > maxUint32 then .error .tooLong else
  if msg.length > maxUint32 then .error .tooLong else
  liftS <|
    match frame t.s label msg.length with
    | .error e => .error e
    | .ok s1 => (AD s1 msg false).map (fun s2 => { s := s2 })

def newTranscript (appLabel : List UInt8) : Except MErr Transcript :=
  match new merlinProtocolLabel with
  | .error e => .error (.strobe e)
  | .ok s => appendMessage { s := s } domainSeparatorLabel appLabel

def Transcript.clone (t : Transcript) : Transcript := { s := t.s.clone }

/-- `ExtractBytes(dest, label)` with `len(dest) = n`; returns the bytes written to `dest` (whatever it held before) -/
def extractBytes (t : Transcript) (label : List UInt8) (n : Nat) : Except MErr (Transcript × List UInt8) :=
  if label.length > maxUint32 then .error .tooLong else
  if n > maxUint32 then .error .tooLong else
  liftS <|
    match frame t.s label n with
    | .error e => .error e
    | .ok s1 => (PRF s1 n).map (fun (s2, out) => ({ s := s2 }, out))

def buildRng (t : Transcript) : RngBuilder := { s := some t.s.clone }

def rekeyWithWitnessBytes (rb : RngBuilder) (label witness : List UInt8) : Except MErr RngBuilder :=
  if label.length > maxUint32 then .error .tooLong else
  if witness.length > maxUint32 then .error .tooLong else
  match rb.s with
  | none => .error .nilBuilder
  | some s =>
    liftS <|
      match frame s label witness.length with
      | .error e => .error e
      | .ok s1 => (KEY s1 witness).map (fun s2 => { s := some s2 })

/-- `Finalize(rng)` where the reader `rng` yields exactly the bytes `entropy` and then EOF.
    On success returns the invalidated builder and the RNG. -/
def finalize (rb : RngBuilder) (entropy : List UInt8) : Except MErr (RngBuilder × TranscriptRng) :=
  if entropy.length < 32 then .error .entropy else
  let randomBytes := entropy.take 32
  match rb.s with
  | none => .error .nilBuilder
  | some s =>
    liftS <|
      match MetaAD s rngLabel false with
      | .error e => .error e
      | .ok s1 => (KEY s1 randomBytes).map (fun s2 => ({ s := none }, { s := s2 }))

/-- `transcriptRng.Read(p)` with `len(p) = n` -/
def TranscriptRng.read (rng : TranscriptRng) (n : Nat) : Except MErr (TranscriptRng × List UInt8) :=
  if n > maxUint32 then .error .tooLong else  -- Go returns an error here (not a panic); unreachable in tests
  liftS <|
    match MetaAD rng.s (le32 n) false with
    | .error e => .error e
    | .ok s1 => (PRF s1 n).map (fun (s2, out) => ({ s := s2 }, out))

/-! ## Known answer: the upstream Merlin "equivalence_simple" vector (merlin_test.go / dalek merlin) -/
private def katSimple : Except MErr (List UInt8) := do
  let t ← newTranscript "test protocol".toUTF8.data.toList
  let t ← appendMessage t "some label".toUTF8.data.toList "some data".toUTF8.data.toList
  let (_, c) ← extractBytes t "challenge".toUTF8.data.toList 32
  return c

#guard (match katSimple with
  | .ok c => hexOf ⟨c.toArray⟩ == "d5a21972d0d5fe320c0d263fac7fffb8145aa640af6e9bca177c03c7efcf0615"
  | .error _ => false)
#guard le32 0x01020304 == [4, 3, 2, 1]

end Voi.Spec.Merlin
