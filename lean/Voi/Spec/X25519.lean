/-
Executable specification of X25519, RFC 7748 §5, written exactly as the RFC's pseudo-code:
`decodeScalar25519` (clamping), `decodeUCoordinate` (mask bit 255, accept non-canonical values
and process them as if reduced modulo p), the `cswap` Montgomery ladder with a24 = 121665 and
the final `x_2 * z_2^(p - 2)`.  The loop over the bit index t = 254 … 0 is a structural
recursion (`ladder`), one iteration is `ladderStep`.  Also the Ed25519 → X25519 key
conversions (birational map u = (1 + y)/(1 - y) of RFC 7748 §4.1).  Core Lean only.
-/
import Voi.Spec.Edwards
import Voi.Spec.Sha2
namespace Voi.Spec.X25519
open Voi Voi.Spec

/-- RFC 7748 §5: a24 = (486662 - 2) / 4 -/
def a24 : Nat := 121665

/-- RFC 7748 §5 `decodeScalar25519`: k[0] &= 248; k[31] &= 127; k[31] |= 64; little endian.
(`k` is 32 bytes.)  As a number: clear bits 0, 1, 2 and 255, set bit 254. -/
def decodeScalar25519 (k : Bytes) : Nat :=
  let n := leNat k
  let n := n - n % 8                      -- k[0] &= 248
  let n := n % 2^255                      -- k[31] &= 127
  if n.testBit 254 then n else n + 2^254  -- k[31] |= 64

/-- RFC 7748 §5 `decodeUCoordinate` for bits = 255: the most significant bit of the last byte is
masked, the value is decoded little endian, and non-canonical values are reduced modulo p. -/
def decodeUCoordinate (u : Bytes) : Nat := (leNat u % 2^255) % p

/-- RFC 7748 §5 `encodeUCoordinate`: u mod p, 32 bytes little endian -/
def encodeUCoordinate (u : Nat) : Bytes := natLE (u % p) 32

/-- the ladder variables (x_2, z_2, x_3, z_3, swap) -/
structure State where
  x2 : Nat
  z2 : Nat
  x3 : Nat
  z3 : Nat
  swap : Nat
deriving Repr, BEq, DecidableEq, Inhabited

/-- RFC 7748 §5 `cswap(swap, x_2, x_3)`: dummy = mask(swap) AND (x_2 XOR x_3); x_2 ^= dummy; x_3 ^= dummy.
`swap` is 0 or 1. -/
def cswap (swap : Nat) (a b : Nat) : Nat × Nat :=
  let dummy := (if swap = 0 then 0 else 2^256 - 1) &&& (a ^^^ b)
  (a ^^^ dummy, b ^^^ dummy)

/-- one iteration of the RFC's `For t = bits-1 down to 0` loop -/
def ladderStep (x1 k : Nat) (t : Nat) (s : State) : State :=
  let kt := (k >>> t) &&& 1
  let swap := s.swap ^^^ kt
  let (x2, x3) := cswap swap s.x2 s.x3
  let (z2, z3) := cswap swap s.z2 s.z3
  let swap := kt
  let A := Fp.add x2 z2
  let AA := Fp.sq A
  let B := Fp.sub x2 z2
  let BB := Fp.sq B
  let E := Fp.sub AA BB
  let C := Fp.add x3 z3
  let D := Fp.sub x3 z3
  let DA := Fp.mul D A
  let CB := Fp.mul C B
  let x3 := Fp.sq (Fp.add DA CB)
  let z3 := Fp.mul x1 (Fp.sq (Fp.sub DA CB))
  let x2 := Fp.mul AA BB
  let z2 := Fp.mul E (Fp.add AA (Fp.mul a24 E))
  ⟨x2, z2, x3, z3, swap⟩

/-- `ladder x1 k n s` runs the iterations t = n-1, n-2, …, 0 starting from `s`. -/
def ladder (x1 k : Nat) : Nat → State → State
  | 0, s => s
  | t+1, s => ladder x1 k t (ladderStep x1 k t s)

/-- the RFC's function on decoded inputs: scalar k (an integer), u-coordinate x1 (reduced) -/
def x25519Nat (k x1 : Nat) : Nat :=
  let s := ladder x1 k 255 ⟨1, 0, x1, 1, 0⟩
  let (x2, _) := cswap s.swap s.x2 s.x3
  let (z2, _) := cswap s.swap s.z2 s.z3
  Fp.mul x2 (Fp.pow z2 (p - 2))

/-- RFC 7748 §5 X25519(k, u) on 32-byte strings -/
def x25519 (k u : Bytes) : Bytes :=
  encodeUCoordinate (x25519Nat (decodeScalar25519 k) (decodeUCoordinate u))

/-- u = 9, the base point (RFC 7748 §4.1) -/
def basepoint : Bytes := natLE 9 32

/-- RFC 7748 §6.1: public key = X25519(k, 9) -/
def scalarBaseMult (k : Bytes) : Bytes := x25519 k basepoint

/-- The checked entry point (C07): an error (`none`) exactly when a length is not 32 or the
result is all zero (RFC 7748 §6.1 "MAY check … for the all-zero value"). -/
def x25519Checked (k u : Bytes) : Option Bytes :=
  if k.size ≠ 32 ∨ u.size ≠ 32 then none else
  let r := x25519 k u
  if beq r (bzero 32) then none else some r

/-- RFC 7748 §4.1 birational map Edwards → Montgomery, u = (1 + y)/(1 - y); the only zero of the
denominator is the identity y = 1, which is sent to u = 0 (the library documents this choice). -/
def edToMontU (y : Nat) : Nat := Fp.mul (Fp.add 1 y) (Fp.inv (Fp.sub 1 y))

/-- Ed25519 public key → X25519 public key: decode as the library's Edwards decoder does
(`Pt.decode`; `none` when the string is not 32 bytes or not a point), then the birational map. -/
def edPubToX25519 (pk : Bytes) : Option Bytes :=
  match Pt.decode pk with
  | none => none
  | some A => some (encodeUCoordinate (edToMontU A.y))

/-- Ed25519 private key (seed ‖ …, at least 32 bytes) → X25519 private key: SHA-512 of the first
32 bytes, clamped, first 32 bytes (RFC 8032 §5.1.5 steps 1–2 give the same scalar). -/
def edPrivToX25519 (sk : Bytes) : Bytes :=
  natLE (decodeScalar25519 (bslice (sha512 (bslice sk 0 32)) 0 32)) 32

-- RFC 7748 §5.2 test vectors and §6.1 Diffie-Hellman vectors anchor the Spec itself
#guard x25519 (ofHex! "a546e36bf0527c9d3b16154b82465edd62144c0ac1fc5a18506a2244ba449ac4")
              (ofHex! "e6db6867583030db3594c1a424b15f7c726624ec26b3353b10a903a6d0ab1c4c")
        == ofHex! "c3da55379de9c6908e94ea4df28d084f32eccf03491c71f754b4075577a28552"
#guard x25519 (ofHex! "4b66e9d4d1b4673c5ad22691957d6af5c11b6421e0ea01d42ca4169e7918ba0d")
              (ofHex! "e5210f12786811d3f4b7959d0538ae2c31dbe7106fc03c3efc4cd549c715a493")
        == ofHex! "95cbde9476e8907d7aade45cb4b873f88b595a68799fa152e6f8f7647aac7957"
#guard scalarBaseMult (ofHex! "77076d0a7318a57d3c16c17251b26645df4c2f87ebc0992ab177fba51db92c2a")
        == ofHex! "8520f0098930a754748b7ddcb43ef75a0dbf3a0d26381af4eba4a98eaa9b4e6a"
#guard x25519 (ofHex! "77076d0a7318a57d3c16c17251b26645df4c2f87ebc0992ab177fba51db92c2a")
              (ofHex! "de9edb7d7b7dc1b4d35b61c2ece435373f8343c85b78674dadfc7e146f882b4f")
        == ofHex! "4a5d9d5ba4ce2de1728e3bf480350f25e07e21c947d19e3376f09b3c1e161742"

end Voi.Spec.X25519
