/-
Abstract specification of a bounded map with least-recently-used eviction (property C18).

The state is simply the list of (key, value) bindings in recency order, most recently used
first.  `get` of a present key moves its binding to the front; `put` of a present key only
refreshes recency and KEEPS THE OLD VALUE (this is what `lru.go` does and what the caching
verifier relies on: a value is only ever computed from its key); `put` of an absent key
inserts at the front, dropping the last (= least recently used) binding when the map is full.
Core Lean only.
-/
namespace Voi.Spec.LRU

/-- first binding of `k` in an association list -/
def lookup {K α : Type} [DecidableEq K] (k : K) : List (K × α) → Option α
  | [] => none
  | (k', v) :: t => if k' = k then some v else lookup k t

/-- remove every binding of `k` -/
def eraseKey {K α : Type} [DecidableEq K] (k : K) (l : List (K × α)) : List (K × α) :=
  l.filter (fun p => !decide (p.1 = k))

structure State (K V : Type) where
  cap : Nat
  items : List (K × V)
deriving Repr

inductive Op (K V : Type) where
  | get (k : K)
  | put (k : K) (v : V)
deriving Repr

variable {K V : Type} [DecidableEq K]

def new (cap : Nat) : State K V := ⟨cap, []⟩

def get (s : State K V) (k : K) : State K V × Option V :=
  match lookup k s.items with
  | none => (s, none)
  | some v => ({ s with items := (k, v) :: eraseKey k s.items }, some v)

def put (s : State K V) (k : K) (v : V) : State K V :=
  match lookup k s.items with
  | some v0 => { s with items := (k, v0) :: eraseKey k s.items }
  | none =>
    { s with items := (k, v) :: (if s.items.length = s.cap then s.items.dropLast else s.items) }

/-- one operation; the output of `put` is `none` -/
def step (s : State K V) : Op K V → State K V × Option V
  | .get k => get s k
  | .put k v => (put s k v, none)

/-- run a history, collecting the outputs -/
def run (s : State K V) : List (Op K V) → State K V × List (Option V)
  | [] => (s, [])
  | op :: ops =>
    let (s1, o) := step s op
    let (s2, os) := run s1 ops
    (s2, o :: os)

/-! ### the declarative characterisation: Mattson's LRU stack

`stack` is the UNBOUNDED recency order of all keys ever touched (most recent first).  A bounded LRU cache of
capacity `cap` must hold exactly the first `cap` keys of that stack ("the `cap` most recently used distinct
keys"); a `get` touches its key only when it hits, i.e. when the key is among those first `cap`.
`Props.LRUInv.keys_eq_stack` proves that `run` maintains exactly this. -/

def touch (U : List K) (k : K) : List K := k :: U.filter (fun a => !decide (a = k))

def stackStep (cap : Nat) (U : List K) : Op K V → List K
  | .get k => if k ∈ U.take cap then touch U k else U
  | .put k _ => touch U k

def stackRun (cap : Nat) (U : List K) : List (Op K V) → List K
  | [] => U
  | op :: ops => stackRun cap (stackStep cap U op) ops

end Voi.Spec.LRU
