/-
Abstraction functions from the limb / byte / word representations used by the Go code to the
natural number they denote.  Core Lean only, no imports: plain structural recursion on `List Nat`,
so that the kernel can evaluate them on literals (`decide +kernel`).

  * `fe51`    field element, 5 limbs, radix 2^51            (internal/field, 64-bit backend)
  * `fe2625`  field element, 10 limbs, radix 2^25.5         (internal/field, 32-bit backend:
              limb i has weight 2^⌈25.5·i⌉ = 2^0, 2^26, 2^51, 2^77, 2^102, 2^128, 2^153, 2^179, 2^204, 2^230)
  * `sc52`    scalar, 5 limbs, radix 2^52                   (curve/scalar, 64-bit backend)
  * `sc29`    scalar, 9 limbs, radix 2^29                   (curve/scalar, 32-bit backend)
  * `leBytes` little-endian byte string,  `leWords64` little-endian 64-bit words

None of them reduces: the result is the integer the limbs denote, the field element / scalar is that
integer modulo p / L.  (All embedded constants turn out to be fully reduced, see `Voi.Props.C20`.)
-/
namespace Voi.Spec.Limbs

/-- `Σ lᵢ · 2^(w·(i₀+i))` -/
def radixFrom (w : Nat) : Nat → List Nat → Nat
  | _, [] => 0
  | i, a :: t => a * 2 ^ (w * i) + radixFrom w (i + 1) t

/-- value of a list of limbs in radix `2^w`, least significant first -/
def radix (w : Nat) (l : List Nat) : Nat := radixFrom w 0 l

/-- exponent of the weight of limb `i` in the radix-2^25.5 representation: ⌈25.5·i⌉ -/
def w2625 (i : Nat) : Nat := (51 * i + 1) / 2

def fe2625From : Nat → List Nat → Nat
  | _, [] => 0
  | i, a :: t => a * 2 ^ w2625 i + fe2625From (i + 1) t

def fe51 (l : List Nat) : Nat := radix 51 l
def fe2625 (l : List Nat) : Nat := fe2625From 0 l
def sc52 (l : List Nat) : Nat := radix 52 l
def sc29 (l : List Nat) : Nat := radix 29 l
def leBytes (l : List Nat) : Nat := radix 8 l
def leWords64 (l : List Nat) : Nat := radix 64 l

/-- every element is `< 2^w` -/
def allBelow (w : Nat) (l : List Nat) : Bool := l.all (· < 2 ^ w)

/-- nominal limb widths of the radix-2^25.5 representation: 26, 25, 26, 25, … bits -/
def width2625 (i : Nat) : Nat := if i % 2 = 0 then 26 else 25

def limbs2625OkFrom : Nat → List Nat → Bool
  | _, [] => true
  | i, a :: t => decide (a < 2 ^ width2625 i) && limbs2625OkFrom (i + 1) t

/-- `l` is a sequence of 5-limb field elements, every limb `< 2^51` -/
def limbs51Ok (l : List Nat) : Bool := l.length % 5 == 0 && allBelow 51 l

/-- `l` is a sequence of 10-limb field elements, limb `i mod 10` of each `< 2^26` (even) resp. `< 2^25` (odd).
    (10 is even, so the parity of the position in the concatenation is the parity within the element.) -/
def limbs2625Ok (l : List Nat) : Bool := l.length % 10 == 0 && limbs2625OkFrom 0 l

/-- consecutive chunks of `w` elements (the last one may be shorter); `fuel` bounds the number of chunks -/
def chunksAux (w : Nat) : Nat → List Nat → List (List Nat)
  | 0, _ => []
  | _, [] => []
  | fuel + 1, l => l.take w :: chunksAux w fuel (l.drop w)

def chunks (w : Nat) (l : List Nat) : List (List Nat) := chunksAux w l.length l

/-- the sequence of field elements denoted by a flat limb list -/
def fes51 (l : List Nat) : List Nat := (chunks 5 l).map fe51
def fes2625 (l : List Nat) : List Nat := (chunks 10 l).map fe2625

theorem w2625_table : (List.range 10).map w2625 = [0, 26, 51, 77, 102, 128, 153, 179, 204, 230] := by decide

end Voi.Spec.Limbs
