/-
Executable specification of RFC 9381 §5.1–5.4 for the ciphersuite
ECVRF-EDWARDS25519-SHA512-ELL2 (suite_string = 0x04), property C15.

 * §5.1   ECVRF_prove (deterministic nonce §5.4.2.2; plus the library's added-randomness variant);
 * §5.2   ECVRF_proof_to_hash;
 * §5.3   ECVRF_verify with validate_key = TRUE (§5.4.5) and strict RFC 8032 point decoding;
 * §5.4.1.2 ECVRF_encode_to_curve_h2c_suite (salt = PK_string, suite edwards25519_XMD:SHA-512_ELL2_NU_);
 * §5.4.3 ECVRF_challenge_generation, in two formats: the RFC's (with Y) and the one of
   draft-irtf-cfrg-vrf-10 and earlier (ECVRF_hash_points, without Y);
 * §5.4.4 ECVRF_decode_proof.

Parameters: ptLen = 32, cLen = 16, qLen = 32, cofactor = 8, Hash = SHA-512.  Core Lean only.
-/
import Voi.Spec.H2C
namespace Voi.Spec.ECVRF
open Voi Voi.Spec

def suiteString : Bytes := bytesOfList [0x04]
def cLen : Nat := 16
def ptLen : Nat := 32
def qLen : Nat := 32
def proofSize : Nat := ptLen + cLen + qLen
def outputSize : Nat := 64

/-- DST = "ECVRF_" ‖ h2c_suite_ID_string ‖ suite_string -/
def h2cDST : Bytes := strBytes "ECVRF_" ++ strBytes "edwards25519_XMD:SHA-512_ELL2_NU_" ++ suiteString

/-- Strict RFC 8032 §5.1.3 string_to_point: canonical encodings only. -/
def stringToPoint (b : Bytes) : Option Pt :=
  if b.size ≠ 32 then none else
  if !Pt.isCanonicalEnc b then none else Pt.decode b

def pointToString (P : Pt) : Bytes := Pt.encode P

/-- §5.4.1.2: H = encode(encode_to_curve_salt ‖ alpha_string) -/
def encodeToCurve (salt alpha : Bytes) : Option Pt :=
  H2C.edwards25519_XMD_SHA512_ELL2_NU (salt ++ alpha) h2cDST

/-- §5.4.3 challenge generation. `y = some PK_string` is the RFC's format
(P1..P5 = Y, H, Gamma, U, V); `y = none` is the draft ≤ 10 format (H, Gamma, U, V). -/
def challenge (y : Option Bytes) (hString gammaString : Bytes) (U V : Pt) : Nat :=
  let str := suiteString ++ bytesOfList [0x02] ++ y.getD ByteArray.empty ++ hString ++ gammaString
    ++ pointToString U ++ pointToString V ++ bytesOfList [0x00]
  leNat (bslice (sha512 str) 0 cLen)

/-- secret scalar x and the nonce-derivation half of the hashed secret key (RFC 8032 §5.1.5) -/
def expandKey (seed : Bytes) : Nat × Bytes :=
  let h := sha512 seed
  let a := leNat (bslice h 0 32)
  (((a % 2^255) / 8 * 8) % 2^254 + 2^254, bslice h 32 32)

/-- §5.4.2.2 nonce: k = SHA-512(hashed_sk[32..63] ‖ h_string) mod q.
With added randomness Z (32 bytes) the library hashes
`Z ‖ hashed_sk[32..63] ‖ 0^(1024 − 64) ‖ h_string` instead (Z and the key half fill the first
1024 bytes = eight SHA-512 blocks). -/
def nonce (hashedSkHi hString : Bytes) (entropy : Option Bytes) : Nat :=
  let inp := match entropy with
    | none => hashedSkHi ++ hString
    | some z => z ++ hashedSkHi ++ bzero (1024 - (32 + 32)) ++ hString
  leNat (sha512 inp) % L

/-- §5.1 ECVRF_prove. `sk` = seed ‖ PK_string (64 bytes, the Ed25519 private key format);
`withY` selects the challenge format; `entropy = some Z` (|Z| = 32) the added-randomness nonce.
`none`: wrong key length. -/
def prove (withY : Bool) (entropy : Option Bytes) (sk alpha : Bytes) : Option Bytes :=
  if sk.size ≠ 64 then none else
  let (x, hi) := expandKey (bslice sk 0 32)
  let yString := bslice sk 32 32
  match encodeToCurve yString alpha with
  | none => none
  | some H =>
  let hString := pointToString H
  let gamma := Pt.smul x H
  let gammaString := pointToString gamma
  let k := nonce hi hString entropy
  let c := challenge (if withY then some yString else none) hString gammaString (Pt.smul k Pt.B) (Pt.smul k H)
  let s := (k + c * x) % L
  some (gammaString ++ natLE c cLen ++ natLE s qLen)

/-- §5.4.4 ECVRF_decode_proof → (Gamma, c, s) -/
def decodeProof (pi : Bytes) : Option (Pt × Nat × Nat) :=
  if pi.size ≠ proofSize then none else
  match stringToPoint (bslice pi 0 ptLen) with
  | none => none
  | some gamma =>
  let c := leNat (bslice pi ptLen cLen)
  let s := leNat (bslice pi (ptLen + cLen) qLen)
  if s ≥ L then none else some (gamma, c, s)

/-- beta_string = Hash(suite_string ‖ 0x03 ‖ point_to_string(cofactor · Gamma) ‖ 0x00) -/
def gammaToHash (gamma : Pt) : Bytes :=
  sha512 (suiteString ++ bytesOfList [0x03] ++ pointToString (Pt.mul8 gamma) ++ bytesOfList [0x00])

/-- §5.2 ECVRF_proof_to_hash -/
def proofToHash (pi : Bytes) : Option Bytes :=
  (decodeProof pi).map fun (gamma, _, _) => gammaToHash gamma

/-- §5.4.5 ECVRF_validate_key: cofactor · Y ≠ identity -/
def validateKey (Y : Pt) : Bool := !Y.isSmallOrder

/-- §5.3 ECVRF_verify with validate_key = TRUE: `some beta` = ("VALID", beta), `none` = "INVALID". -/
def verify (withY : Bool) (pk pi alpha : Bytes) : Option Bytes :=
  match stringToPoint pk with
  | none => none
  | some Y =>
  if !validateKey Y then none else
  match decodeProof pi with
  | none => none
  | some (gamma, c, s) =>
  match encodeToCurve pk alpha with
  | none => none
  | some H =>
  let U := Pt.sub (Pt.smul s Pt.B) (Pt.smul c Y)
  let V := Pt.sub (Pt.smul s H) (Pt.smul c gamma)
  let c' := challenge (if withY then some pk else none) (pointToString H) (pointToString gamma) U V
  if c == c' then some (gammaToHash gamma) else none

end Voi.Spec.ECVRF
