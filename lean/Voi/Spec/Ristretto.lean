/-
Executable specification of ristretto255, RFC 9496 §4: constants (§4.1), decode (§4.3.1),
encode (§4.3.2), equality (§4.3.3), the MAP function and the one-way map from 64 bytes (§4.3.4),
and the group operations on internal representations (extended Edwards coordinates, §4.2/§4.4).
An internal representation is an `Ext` (X : Y : Z : T) with arbitrary Z ≠ 0.  Core Lean only.
-/
import Voi.Spec.Edwards
namespace Voi.Spec.Ristretto
open Voi Voi.Spec

/-! ### §4.1 constants (decimal literals of the RFC, each checked against its defining equation) -/

def D : Nat := 37095705934669439343138083508754565189542113879843219016388785533085940283555
def SQRT_M1 : Nat := 19681161376707505956807079304988542015446066515923890162744021073123829784752
def SQRT_AD_MINUS_ONE : Nat := 25063068953384623474111414158702152701244531502492656460079210482610430750235
def INVSQRT_A_MINUS_D : Nat := 54469307008909316920995813868745141605393597292927456921205312896311721017578
def ONE_MINUS_D_SQ : Nat := 1159843021668779879193775521855586647937357759715417654439879720876111806838
def D_MINUS_ONE_SQ : Nat := 40440834346308536858101042469323190826248399146238708352240133220865137265952

-- D = -121665/121666
#guard D < p && Fp.mul D 121666 == Fp.neg 121665 && D == Fp.d
-- SQRT_M1^2 = -1 and it is the non-negative root 2^((p-1)/4)
#guard SQRT_M1 < p && Fp.sq SQRT_M1 == Fp.neg 1 && SQRT_M1 == Fp.sqrtM1 && !Fp.isNeg SQRT_M1
-- SQRT_AD_MINUS_ONE^2 = a*d - 1 with a = -1
#guard SQRT_AD_MINUS_ONE < p && Fp.sq SQRT_AD_MINUS_ONE == Fp.sub (Fp.neg D) 1
-- INVSQRT_A_MINUS_D^2 * (a - d) = 1, and it is the root returned by SQRT_RATIO_M1(1, a - d)
#guard INVSQRT_A_MINUS_D < p && Fp.mul (Fp.sq INVSQRT_A_MINUS_D) (Fp.sub (Fp.neg 1) D) == 1
#guard Fp.sqrtRatioM1 1 (Fp.sub (Fp.neg 1) D) == (true, INVSQRT_A_MINUS_D)
-- ONE_MINUS_D_SQ = 1 - d^2, D_MINUS_ONE_SQ = (d - 1)^2
#guard ONE_MINUS_D_SQ == Fp.sub 1 (Fp.sq D)
#guard D_MINUS_ONE_SQ == Fp.sq (Fp.sub D 1)

/-! ### §4.2 helpers -/

/-- IS_NEGATIVE -/
def isNegative (a : Nat) : Bool := Fp.isNeg a
/-- CT_ABS -/
def ctAbs (a : Nat) : Nat := Fp.abs a
/-- SQRT_RATIO_M1 -/
def sqrtRatioM1 (u v : Nat) : Bool × Nat := Fp.sqrtRatioM1 u v

/-! ### §4.3.1 Decode -/

def decode (b : Bytes) : Option Ext :=
  -- 1. length 32, s < p (canonical), s non-negative
  if b.size ≠ 32 then none else
  let s := leNat b
  if s ≥ p then none else
  if isNegative s then none else
  -- 2.
  let ss := Fp.sq s
  let u1 := Fp.sub 1 ss
  let u2 := Fp.add 1 ss
  let u2_sqr := Fp.sq u2
  let v := Fp.sub (Fp.neg (Fp.mul D (Fp.sq u1))) u2_sqr
  let (was_square, invsqrt) := sqrtRatioM1 1 (Fp.mul v u2_sqr)
  let den_x := Fp.mul invsqrt u2
  let den_y := Fp.mul (Fp.mul invsqrt den_x) v
  let x := ctAbs (Fp.mul (Fp.mul 2 s) den_x)
  let y := Fp.mul u1 den_y
  let t := Fp.mul x y
  -- 3.
  if !was_square || isNegative t || y == 0 then none else
  some ⟨x, y, 1, t⟩

/-! ### §4.3.2 Encode -/

def encode (P : Ext) : Bytes :=
  let x0 := P.X; let y0 := P.Y; let z0 := P.Z; let t0 := P.T
  let u1 := Fp.mul (Fp.add z0 y0) (Fp.sub z0 y0)
  let u2 := Fp.mul x0 y0
  -- Ignore was_square since this is always square
  let (_, invsqrt) := sqrtRatioM1 1 (Fp.mul u1 (Fp.sq u2))
  let den1 := Fp.mul invsqrt u1
  let den2 := Fp.mul invsqrt u2
  let z_inv := Fp.mul (Fp.mul den1 den2) t0
  let ix0 := Fp.mul x0 SQRT_M1
  let iy0 := Fp.mul y0 SQRT_M1
  let enchanted_denominator := Fp.mul den1 INVSQRT_A_MINUS_D
  let rotate := isNegative (Fp.mul t0 z_inv)
  -- Conditionally rotate x and y
  let x := if rotate then iy0 else x0
  let y := if rotate then ix0 else y0
  let z := z0
  let den_inv := if rotate then enchanted_denominator else den2
  let y := if isNegative (Fp.mul x z_inv) then Fp.neg y else y
  let s := ctAbs (Fp.mul den_inv (Fp.sub z y))
  natLE s 32

/-! ### §4.3.3 Equals -/

def equal (P Q : Ext) : Bool :=
  Fp.mul P.X Q.Y == Fp.mul P.Y Q.X || Fp.mul P.Y Q.Y == Fp.mul P.X Q.X

/-! ### §4.3.4 Element derivation -/

/-- MAP(t) -/
def map (t : Nat) : Ext :=
  let r := Fp.mul SQRT_M1 (Fp.sq t)
  let u := Fp.mul (Fp.add r 1) ONE_MINUS_D_SQ
  let v := Fp.mul (Fp.sub (Fp.neg 1) (Fp.mul r D)) (Fp.add r D)
  let (was_square, s) := sqrtRatioM1 u v
  let s_prime := Fp.neg (ctAbs (Fp.mul s t))
  let s := if was_square then s else s_prime
  let c := if was_square then Fp.neg 1 else r
  let N := Fp.sub (Fp.mul (Fp.mul c (Fp.sub r 1)) D_MINUS_ONE_SQ) v
  let w0 := Fp.mul (Fp.mul 2 s) v
  let w1 := Fp.mul N SQRT_AD_MINUS_ONE
  let w2 := Fp.sub 1 (Fp.sq s)
  let w3 := Fp.add 1 (Fp.sq s)
  ⟨Fp.mul w0 w3, Fp.mul w2 w1, Fp.mul w1 w3, Fp.mul w0 w2⟩

/-- interpretation of one 32-byte half: little endian, most significant bit masked, reduced mod p -/
def halfToField (b : Bytes) : Nat := (leNat b % 2^255) % p

/-- the one-way map from 64 bytes: MAP(first half) + MAP(second half); `none` for other lengths -/
def fromUniformBytes (b : Bytes) : Option Ext :=
  if b.size ≠ 64 then none else
  let t1 := halfToField (bslice b 0 32)
  let t2 := halfToField (bslice b 32 32)
  some (Ext.add (map t1) (map t2))

/-! ### group operations (§4.4: those of the underlying curve, applied to representatives) -/

def identity : Ext := Ext.zero
def add (P Q : Ext) : Ext := Ext.add P Q
def neg (P : Ext) : Ext := Ext.neg P
def sub (P Q : Ext) : Ext := Ext.add P (Ext.neg Q)
def smul (n : Nat) (P : Ext) : Ext := Ext.smul n P
/-- the generator: the Ed25519 base point -/
def B : Ext := Ext.ofPt Pt.B
def isIdentity (P : Ext) : Bool := equal P identity
def msm (ss : List Nat) (ps : List Ext) : Ext :=
  (ss.zip ps).foldl (fun acc (s, P) => Ext.add acc (Ext.smul s P)) Ext.zero
def sum (ps : List Ext) : Ext := ps.foldl Ext.add Ext.zero

/-- the four-torsion subgroup E[4] (affine points), obtained as the even multiples of a point of order 8 -/
def fourTorsion : List Pt := [Pt.torsion 0, Pt.torsion 2, Pt.torsion 4, Pt.torsion 6]

/-- group-theoretic meaning of equality: P − Q ∈ E[4] -/
def sameCoset (P Q : Ext) : Bool :=
  let R := (sub P Q).toPt
  fourTorsion.any (fun T => T.x == R.x && T.y == R.y)

/-! ### anchors: RFC 9496 appendix A vectors -/

-- A.1 multiples of the generator (0, 1, 2, 15)
#guard encode identity == bzero 32
#guard encode B == ofHex! "e2f2ae0a6abc4e71a884a961c500515f58e30b6aa582dd8db6a65945e08d2d76"
#guard encode (smul 2 B) == ofHex! "6a493210f7499cd17fecb510ae0cea23a110e8d5b901f8acadd3095c73a3b919"
#guard encode (smul 15 B) == ofHex! "e0c418f7c8d9c4cdd7395b93ea124f3ad99021bb681dfc3302a9d99a2e53e64e"
#guard (decode (ofHex! "e2f2ae0a6abc4e71a884a961c500515f58e30b6aa582dd8db6a65945e08d2d76")).map encode
        == some (ofHex! "e2f2ae0a6abc4e71a884a961c500515f58e30b6aa582dd8db6a65945e08d2d76")
-- A.2 one bad encoding of each kind
#guard (decode (ofHex! "edffffffffffffffffffffffffffffffffffffffffffffffffffffffffffff7f")).isNone
#guard (decode (ofHex! "0100000000000000000000000000000000000000000000000000000000000000")).isNone
#guard (decode (ofHex! "26948d35ca62e643e26a83177332e6b6afeb9d08e4268b650f1f5bbd8d81d371")).isNone
#guard (decode (ofHex! "3eb858e78f5a7254d8c9731174a94f76755fd3941c0ac93735c07ba14579630e")).isNone
#guard (decode (ofHex! "ecffffffffffffffffffffffffffffffffffffffffffffffffffffffffffff7f")).isNone
-- A.3 one-way map
#guard (fromUniformBytes (ofHex! ("5d1be09e3d0c82fc538112490e35701979d99e06ca3e2b5b54bffe8b4dc772c1" ++
        "4d98b696a1bbfb5ca32c436cc61c16563790306c79eaca7705668b47dffe5bb6"))).map encode
        == some (ofHex! "3066f82a1a747d45120d1740f14358531a8f04bbffe6a819f86dfe50f44a0a46")
#guard (fromUniformBytes (ofHex! ("edffffffffffffffffffffffffffffffffffffffffffffffffffffffffffffff" ++
        "1200000000000000000000000000000000000000000000000000000000000000"))).map encode
        == some (ofHex! "304282791023b73128d277bdcb5c7746ef2eac08dde9f2983379cb8e5ef0517f")

end Voi.Spec.Ristretto
