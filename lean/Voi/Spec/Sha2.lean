import Voi.Basic
/-!
Executable SHA-2 (FIPS 180-4): SHA-512/384 (64-bit words) and SHA-256/224 (32-bit words).
Core Lean only; pure total functions (structural recursion on a fuel argument and `for` loops).
The round functions carry the eight working variables as unboxed machine words so that the
compiled code does not allocate per round.
-/
namespace Voi.Spec
open Voi

/-! ## SHA-512 / SHA-384 -/

def sha512K : Array UInt64 := #[
  0x428a2f98d728ae22, 0x7137449123ef65cd, 0xb5c0fbcfec4d3b2f, 0xe9b5dba58189dbbc,
  0x3956c25bf348b538, 0x59f111f1b605d019, 0x923f82a4af194f9b, 0xab1c5ed5da6d8118,
  0xd807aa98a3030242, 0x12835b0145706fbe, 0x243185be4ee4b28c, 0x550c7dc3d5ffb4e2,
  0x72be5d74f27b896f, 0x80deb1fe3b1696b1, 0x9bdc06a725c71235, 0xc19bf174cf692694,
  0xe49b69c19ef14ad2, 0xefbe4786384f25e3, 0x0fc19dc68b8cd5b5, 0x240ca1cc77ac9c65,
  0x2de92c6f592b0275, 0x4a7484aa6ea6e483, 0x5cb0a9dcbd41fbd4, 0x76f988da831153b5,
  0x983e5152ee66dfab, 0xa831c66d2db43210, 0xb00327c898fb213f, 0xbf597fc7beef0ee4,
  0xc6e00bf33da88fc2, 0xd5a79147930aa725, 0x06ca6351e003826f, 0x142929670a0e6e70,
  0x27b70a8546d22ffc, 0x2e1b21385c26c926, 0x4d2c6dfc5ac42aed, 0x53380d139d95b3df,
  0x650a73548baf63de, 0x766a0abb3c77b2a8, 0x81c2c92e47edaee6, 0x92722c851482353b,
  0xa2bfe8a14cf10364, 0xa81a664bbc423001, 0xc24b8b70d0f89791, 0xc76c51a30654be30,
  0xd192e819d6ef5218, 0xd69906245565a910, 0xf40e35855771202a, 0x106aa07032bbd1b8,
  0x19a4c116b8d2d0c8, 0x1e376c085141ab53, 0x2748774cdf8eeb99, 0x34b0bcb5e19b48a8,
  0x391c0cb3c5c95a63, 0x4ed8aa4ae3418acb, 0x5b9cca4f7763e373, 0x682e6ff3d6b2b8a3,
  0x748f82ee5defb2fc, 0x78a5636f43172f60, 0x84c87814a1f0ab72, 0x8cc702081a6439ec,
  0x90befffa23631e28, 0xa4506cebde82bde9, 0xbef9a3f7b2c67915, 0xc67178f2e372532b,
  0xca273eceea26619c, 0xd186b8c721c0c207, 0xeada7dd6cde0eb1e, 0xf57d4f7fee6ed178,
  0x06f067aa72176fba, 0x0a637dc5a2c898a6, 0x113f9804bef90dae, 0x1b710b35131c471b,
  0x28db77f523047d84, 0x32caab7b40c72493, 0x3c9ebe0a15c9bebc, 0x431d67c49c100d4c,
  0x4cc5d4becb3e42b6, 0x597f299cfc657e2a, 0x5fcb6fab3ad6faec, 0x6c44198c4a475817]

def sha512IV : Array UInt64 := #[
  0x6a09e667f3bcc908, 0xbb67ae8584caa73b, 0x3c6ef372fe94f82b, 0xa54ff53a5f1d36f1,
  0x510e527fade682d1, 0x9b05688c2b3e6c1f, 0x1f83d9abfb41bd6b, 0x5be0cd19137e2179]

def sha384IV : Array UInt64 := #[
  0xcbbb9d5dc1059ed8, 0x629a292a367cd507, 0x9159015a3070dd17, 0x152fecd8f70e5939,
  0x67332667ffc00b31, 0x8eb44a8768581511, 0xdb0c2e0d64f98fa7, 0x47b5481dbefa4fa4]

@[inline] def rotr64 (x n : UInt64) : UInt64 := (x >>> n) ||| (x <<< (64 - n))

/-- big-endian 64-bit word at byte offset `o` -/
@[inline] def be64At (m : Bytes) (o : Nat) : UInt64 :=
  (m.get! o).toUInt64 <<< 56 ||| (m.get! (o+1)).toUInt64 <<< 48 |||
  (m.get! (o+2)).toUInt64 <<< 40 ||| (m.get! (o+3)).toUInt64 <<< 32 |||
  (m.get! (o+4)).toUInt64 <<< 24 ||| (m.get! (o+5)).toUInt64 <<< 16 |||
  (m.get! (o+6)).toUInt64 <<< 8 ||| (m.get! (o+7)).toUInt64

/-- message schedule `W[0..79]` of the 128-byte block at offset `off` -/
def sha512Sched (m : Bytes) (off : Nat) : Array UInt64 := Id.run do
  let mut w : Array UInt64 := Array.emptyWithCapacity 80
  for t in [0:16] do
    w := w.push (be64At m (off + 8 * t))
  for t in [16:80] do
    let x := w[t - 15]!
    let y := w[t - 2]!
    let s0 := rotr64 x 1 ^^^ rotr64 x 8 ^^^ (x >>> 7)
    let s1 := rotr64 y 19 ^^^ rotr64 y 61 ^^^ (y >>> 6)
    w := w.push (w[t - 16]! + s0 + w[t - 7]! + s1)
  return w

/-- `fuel` rounds starting at round `t`; at the end adds the working variables into `hs`. -/
def sha512Rounds (w hs : Array UInt64) : (fuel t : Nat) → (a b c d e f g h : UInt64) → Array UInt64
  | 0, _, a, b, c, d, e, f, g, h =>
    #[hs[0]! + a, hs[1]! + b, hs[2]! + c, hs[3]! + d, hs[4]! + e, hs[5]! + f, hs[6]! + g, hs[7]! + h]
  | n + 1, t, a, b, c, d, e, f, g, h =>
    let t1 := h + (rotr64 e 14 ^^^ rotr64 e 18 ^^^ rotr64 e 41) + ((e &&& f) ^^^ (~~~e &&& g))
                + sha512K[t]! + w[t]!
    let t2 := (rotr64 a 28 ^^^ rotr64 a 34 ^^^ rotr64 a 39) + ((a &&& b) ^^^ (a &&& c) ^^^ (b &&& c))
    sha512Rounds w hs n (t + 1) (t1 + t2) a b c (d + t1) e f g

def sha512Compress (hs : Array UInt64) (m : Bytes) (off : Nat) : Array UInt64 :=
  sha512Rounds (sha512Sched m off) hs 80 0 hs[0]! hs[1]! hs[2]! hs[3]! hs[4]! hs[5]! hs[6]! hs[7]!

/-- Merkle–Damgård padding: `0x80`, zeros, then the bit length as `lenBytes` big-endian bytes,
    to a multiple of `block` bytes. -/
def sha2Pad (m : Bytes) (block lenBytes : Nat) : Bytes :=
  let z := (block - (m.size + 1 + lenBytes) % block) % block
  m ++ (ByteArray.empty.push 0x80) ++ bzero z ++ natBE (8 * m.size) lenBytes

def sha512Core (iv : Array UInt64) (m : Bytes) (outLen : Nat) : Bytes := Id.run do
  let p := sha2Pad m 128 16
  let mut hs := iv
  for i in [0:p.size / 128] do
    hs := sha512Compress hs p (128 * i)
  let mut out := ByteArray.emptyWithCapacity 64
  for x in hs do
    for j in [0:8] do
      out := out.push (x >>> (56 - 8 * j.toUInt64)).toUInt8
  return out.extract 0 outLen

def sha512 (m : Bytes) : Bytes := sha512Core sha512IV m 64
def sha384 (m : Bytes) : Bytes := sha512Core sha384IV m 48
def sha512Many (ms : List Bytes) : Bytes := sha512 (bcat ms)

/-! ## SHA-256 / SHA-224 -/

def sha256K : Array UInt32 := #[
  0x428a2f98, 0x71374491, 0xb5c0fbcf, 0xe9b5dba5, 0x3956c25b, 0x59f111f1, 0x923f82a4, 0xab1c5ed5,
  0xd807aa98, 0x12835b01, 0x243185be, 0x550c7dc3, 0x72be5d74, 0x80deb1fe, 0x9bdc06a7, 0xc19bf174,
  0xe49b69c1, 0xefbe4786, 0x0fc19dc6, 0x240ca1cc, 0x2de92c6f, 0x4a7484aa, 0x5cb0a9dc, 0x76f988da,
  0x983e5152, 0xa831c66d, 0xb00327c8, 0xbf597fc7, 0xc6e00bf3, 0xd5a79147, 0x06ca6351, 0x14292967,
  0x27b70a85, 0x2e1b2138, 0x4d2c6dfc, 0x53380d13, 0x650a7354, 0x766a0abb, 0x81c2c92e, 0x92722c85,
  0xa2bfe8a1, 0xa81a664b, 0xc24b8b70, 0xc76c51a3, 0xd192e819, 0xd6990624, 0xf40e3585, 0x106aa070,
  0x19a4c116, 0x1e376c08, 0x2748774c, 0x34b0bcb5, 0x391c0cb3, 0x4ed8aa4a, 0x5b9cca4f, 0x682e6ff3,
  0x748f82ee, 0x78a5636f, 0x84c87814, 0x8cc70208, 0x90befffa, 0xa4506ceb, 0xbef9a3f7, 0xc67178f2]

def sha256IV : Array UInt32 := #[
  0x6a09e667, 0xbb67ae85, 0x3c6ef372, 0xa54ff53a, 0x510e527f, 0x9b05688c, 0x1f83d9ab, 0x5be0cd19]

def sha224IV : Array UInt32 := #[
  0xc1059ed8, 0x367cd507, 0x3070dd17, 0xf70e5939, 0xffc00b31, 0x68581511, 0x64f98fa7, 0xbefa4fa4]

@[inline] def rotr32 (x n : UInt32) : UInt32 := (x >>> n) ||| (x <<< (32 - n))

/-- big-endian 32-bit word at byte offset `o` -/
@[inline] def be32At (m : Bytes) (o : Nat) : UInt32 :=
  (m.get! o).toUInt32 <<< 24 ||| (m.get! (o+1)).toUInt32 <<< 16 |||
  (m.get! (o+2)).toUInt32 <<< 8 ||| (m.get! (o+3)).toUInt32

/-- message schedule `W[0..63]` of the 64-byte block at offset `off` -/
def sha256Sched (m : Bytes) (off : Nat) : Array UInt32 := Id.run do
  let mut w : Array UInt32 := Array.emptyWithCapacity 64
  for t in [0:16] do
    w := w.push (be32At m (off + 4 * t))
  for t in [16:64] do
    let x := w[t - 15]!
    let y := w[t - 2]!
    let s0 := rotr32 x 7 ^^^ rotr32 x 18 ^^^ (x >>> 3)
    let s1 := rotr32 y 17 ^^^ rotr32 y 19 ^^^ (y >>> 10)
    w := w.push (w[t - 16]! + s0 + w[t - 7]! + s1)
  return w

def sha256Rounds (w hs : Array UInt32) : (fuel t : Nat) → (a b c d e f g h : UInt32) → Array UInt32
  | 0, _, a, b, c, d, e, f, g, h =>
    #[hs[0]! + a, hs[1]! + b, hs[2]! + c, hs[3]! + d, hs[4]! + e, hs[5]! + f, hs[6]! + g, hs[7]! + h]
  | n + 1, t, a, b, c, d, e, f, g, h =>
    let t1 := h + (rotr32 e 6 ^^^ rotr32 e 11 ^^^ rotr32 e 25) + ((e &&& f) ^^^ (~~~e &&& g))
                + sha256K[t]! + w[t]!
    let t2 := (rotr32 a 2 ^^^ rotr32 a 13 ^^^ rotr32 a 22) + ((a &&& b) ^^^ (a &&& c) ^^^ (b &&& c))
    sha256Rounds w hs n (t + 1) (t1 + t2) a b c (d + t1) e f g

def sha256Compress (hs : Array UInt32) (m : Bytes) (off : Nat) : Array UInt32 :=
  sha256Rounds (sha256Sched m off) hs 64 0 hs[0]! hs[1]! hs[2]! hs[3]! hs[4]! hs[5]! hs[6]! hs[7]!

def sha256Core (iv : Array UInt32) (m : Bytes) (outLen : Nat) : Bytes := Id.run do
  let p := sha2Pad m 64 8
  let mut hs := iv
  for i in [0:p.size / 64] do
    hs := sha256Compress hs p (64 * i)
  let mut out := ByteArray.emptyWithCapacity 32
  for x in hs do
    for j in [0:4] do
      out := out.push (x >>> (24 - 8 * j.toUInt32)).toUInt8
  return out.extract 0 outLen

def sha256 (m : Bytes) : Bytes := sha256Core sha256IV m 32
def sha224 (m : Bytes) : Bytes := sha256Core sha224IV m 28

/-! ## Known-answer checks (FIPS 180-4 examples; run by the interpreter at elaboration time) -/
#guard hexOf (bslice (sha512 ByteArray.empty) 0 8) == "cf83e1357eefb8bd"
#guard hexOf (bslice (sha512 (strBytes "abc")) 0 8) == "ddaf35a193617aba"
#guard hexOf (bslice (sha512 (strBytes "abc")) 56 8) == "2a9ac94fa54ca49f"
#guard hexOf (bslice (sha384 (strBytes "abc")) 0 8) == "cb00753f45a35e8b"
#guard hexOf (bslice (sha256 (strBytes "abc")) 0 8) == "ba7816bf8f01cfea"
#guard hexOf (bslice (sha224 (strBytes "abc")) 0 8) == "23097d223405d822"
#guard (sha512 (bzero 111)).size == 64 && (sha384 (bzero 112)).size == 48
#guard (sha256 (bzero 55)).size == 32 && (sha224 (bzero 56)).size == 28

end Voi.Spec
