/-
Executable specification of the birational maps between edwards25519 and the Montgomery curve
v² = u³ + 486662·u² + u (RFC 7748 §4.1), as far as the u-coordinate is concerned.

  Edwards → Montgomery :  u = (1 + y) / (1 − y)        (identity (0,1) ↦ u = 0, by inv 0 = 0)
  Montgomery → Edwards :  y = (u − 1) / (u + 1), x = the root of (y² − 1)/(d·y² + 1) whose parity is
                          the requested sign; undefined for u = −1 and for u on the quadratic twist.

Core Lean only.
-/
import Voi.Spec.Edwards
namespace Voi.Spec.Montgomery
open Voi Voi.Spec Voi.Spec.Fp

/-- Montgomery curve coefficient A -/
def A : Nat := 486662

/-- Euler criterion: `a` is a square in F_p (0 counts as a square). -/
def isSquare (a : Nat) : Bool :=
  let a := a % p
  a == 0 || pow a ((p - 1) / 2) == 1

/-- right-hand side u³ + A·u² + u of the Montgomery curve equation -/
def rhs (u : Nat) : Nat := add (add (mul (sq u) u) (mul A (sq u))) u

/-- `u` is the u-coordinate of a point of the Montgomery curve (and not only of its twist). -/
def onCurve (u : Nat) : Bool := isSquare (rhs u)

/-- u-coordinate as a field element: the low 255 bits of a 32-byte string, reduced modulo p
(RFC 7748 §5 decodeUCoordinate; bit 255 is ignored, non-canonical values are accepted). -/
def decodeU (b : Bytes) : Option Nat := if b.size ≠ 32 then none else some (Fp.ofBytes b)

/-- Edwards point ↦ Montgomery u. The only zero of the denominator is the identity (y = 1), which is
sent to u = 0, the u-coordinate of the 2-torsion point (0,0). -/
def ofEdwards (P : Pt) : Nat := mul (add 1 P.y) (inv (sub 1 P.y))

/-- Montgomery u ↦ Edwards point with the given sign (parity) of x.
`none` exactly when u = −1 (zero of the denominator; a twist point) or u is not on the curve.
For x = 0 (u = 0, the point (0, −1)) both sign choices give the same point. -/
def toEdwards (u : Nat) (sign : Bool) : Option Pt :=
  let u := u % p
  if u == p - 1 then none else
  if !onCurve u then none else
  let y := mul (sub u 1) (inv (add u 1))
  let yy := sq y
  let (ok, x) := sqrtRatioM1 (sub yy 1) (add (mul d yy) 1)
  if !ok then none else
  some ⟨if sign then neg x else x, y⟩

end Voi.Spec.Montgomery
