/-
Executable specification of the twisted Edwards curve -x^2 + y^2 = 1 + d x^2 y^2 over F_p
(edwards25519), RFC 8032 §5.1.  `Pt` is an affine point; `Ext` are extended coordinates used
only to make scalar multiplication fast.  Core Lean only.
-/
import Voi.Spec.Field
namespace Voi.Spec
open Fp

structure Pt where
  x : Nat
  y : Nat
deriving Repr, BEq, DecidableEq, Inhabited

structure Ext where
  X : Nat
  Y : Nat
  Z : Nat
  T : Nat
deriving Repr, Inhabited

namespace Pt
def zero : Pt := ⟨0, 1⟩

def onCurve (P : Pt) : Bool :=
  let xx := sq P.x; let yy := sq P.y
  P.x < p && P.y < p && sub yy xx == add 1 (mul d (mul xx yy))

/-- affine unified addition law (complete on edwards25519) -/
def add (P Q : Pt) : Pt :=
  let t := mul d (mul (mul P.x Q.x) (mul P.y Q.y))
  ⟨mul (Fp.add (mul P.x Q.y) (mul P.y Q.x)) (inv (Fp.add 1 t)),
   mul (Fp.add (mul P.y Q.y) (mul P.x Q.x)) (inv (sub 1 t))⟩

def neg (P : Pt) : Pt := ⟨Fp.neg P.x, P.y % p⟩
def sub (P Q : Pt) : Pt := add P (neg Q)
end Pt

namespace Ext
def zero : Ext := ⟨0, 1, 1, 0⟩
def ofPt (P : Pt) : Ext := ⟨P.x, P.y, 1, mul P.x P.y⟩
def toPt (E : Ext) : Pt := let zi := inv E.Z; ⟨mul E.X zi, mul E.Y zi⟩

/-- add-2008-hwcd-3 (a = -1), complete -/
def add (P Q : Ext) : Ext :=
  let A := mul (Fp.sub P.Y P.X) (Fp.sub Q.Y Q.X)
  let B := mul (Fp.add P.Y P.X) (Fp.add Q.Y Q.X)
  let C := mul (mul P.T d2) Q.T
  let D := mul (Fp.add P.Z P.Z) Q.Z
  let E := Fp.sub B A; let F := Fp.sub D C; let G := Fp.add D C; let H := Fp.add B A
  ⟨mul E F, mul G H, mul F G, mul E H⟩

/-- dbl-2008-hwcd (a = -1) -/
def dbl (P : Ext) : Ext :=
  let A := sq P.X; let B := sq P.Y; let C := Fp.add (sq P.Z) (sq P.Z)
  let D := Fp.neg A
  let E := Fp.sub (Fp.sub (sq (Fp.add P.X P.Y)) A) B
  let G := Fp.add D B; let F := Fp.sub G C; let H := Fp.sub D B
  ⟨mul E F, mul G H, mul F G, mul E H⟩

def neg (P : Ext) : Ext := ⟨Fp.neg P.X, P.Y, P.Z, Fp.neg P.T⟩

/-- left-to-right double-and-add over the bits of `n`, fuel = number of bits -/
def smulAux (P : Ext) : Nat → Nat → Ext → Ext
  | 0, _, acc => acc
  | i+1, n, acc =>
    let acc := dbl acc
    let acc := if n.testBit i then add acc P else acc
    smulAux P i n acc

def smul (n : Nat) (P : Ext) : Ext := smulAux P n.log2.succ n zero

def eq (P Q : Ext) : Bool := mul P.X Q.Z == mul Q.X P.Z && mul P.Y Q.Z == mul Q.Y P.Z
def isZero (P : Ext) : Bool := P.X % p == 0 && P.Y % p == P.Z % p
end Ext

namespace Pt
def smul (n : Nat) (P : Pt) : Pt := (Ext.smul n (Ext.ofPt P)).toPt
def dbl (P : Pt) : Pt := add P P
def mul8 (P : Pt) : Pt := (Ext.dbl (Ext.dbl (Ext.dbl (Ext.ofPt P)))).toPt
def isZero (P : Pt) : Bool := P.x % p == 0 && P.y % p == 1
def isSmallOrder (P : Pt) : Bool := (mul8 P).isZero
def isTorsionFree (P : Pt) : Bool := (smul L P).isZero

/-- RFC 8032 §5.1.2 encoding -/
def encode (P : Pt) : Bytes := natLE (P.y % p + (if isNeg P.x then 2^255 else 0)) 32

/-- Decoding as the library documents it: y is taken modulo p (non-canonical y accepted), the
sign bit selects x, and x = 0 is accepted with either sign bit. `none` iff y is not on the curve. -/
def decode (b : Bytes) : Option Pt :=
  if b.size ≠ 32 then none else
  let n := leNat b
  let y := (n % 2^255) % p
  let sign := n / 2^255 % 2 = 1
  let yy := sq y
  let u := Fp.sub yy 1
  let v := Fp.add (mul d yy) 1
  let (ok, x) := sqrtRatioM1 u v
  if !ok then none else
  some ⟨if sign then Fp.neg x else x, y⟩

/-- RFC 8032 strict canonical test of an encoding: y < p and not (x = 0 with sign bit set). -/
def isCanonicalEnc (b : Bytes) : Bool :=
  if b.size ≠ 32 then false else
  let n := leNat b
  let y := n % 2^255
  let sign := n / 2^255 % 2 = 1
  y < p && !(sign && (y == 1 || y == p - 1))

def B : Pt := match decode (natLE (mul 4 (inv 5)) 32) with | some P => P | none => zero

/-- the eight torsion points, `torsion[i] = i • T1` where T1 is the order-8 point used by the library -/
def T1enc : Bytes := ofHex! "c7176a703d4dd84fba3c0b760d10670f2a2053fa2c39ccc64ec7fd7792ac037a"
def T1 : Pt := (decode T1enc).getD zero
def torsion (i : Nat) : Pt := smul (i % 8) T1
end Pt

/-- Σ sᵢ • Pᵢ -/
def msm (ss : List Nat) (ps : List Pt) : Pt :=
  ((ss.zip ps).foldl (fun acc (s, P) => Ext.add acc (Ext.smul s (Ext.ofPt P))) Ext.zero).toPt

end Voi.Spec
