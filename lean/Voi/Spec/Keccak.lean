import Voi.Basic
/-!
Executable Keccak-f[1600], SHAKE128/256 and SHA3-256 (FIPS 202).
Core Lean only; pure total functions.  The state is 25 lanes, lane index `x + 5*y`;
the byte view is little-endian per lane (the layout used by Go `x/crypto/sha3` and STROBE).
-/
namespace Voi.Spec
open Voi

def keccakRC : Array UInt64 := #[
  0x0000000000000001, 0x0000000000008082, 0x800000000000808A, 0x8000000080008000,
  0x000000000000808B, 0x0000000080000001, 0x8000000080008081, 0x8000000000008009,
  0x000000000000008A, 0x0000000000000088, 0x0000000080008009, 0x000000008000000A,
  0x000000008000808B, 0x800000000000008B, 0x8000000000008089, 0x8000000000008003,
  0x8000000000008002, 0x8000000000000080, 0x000000000000800A, 0x800000008000000A,
  0x8000000080008081, 0x8000000000008080, 0x0000000080000001, 0x8000000080008008]

/-- ρ rotation offsets, indexed by lane `x + 5*y` -/
def keccakRot : Array UInt64 := #[
   0,  1, 62, 28, 27,
  36, 44,  6, 55, 20,
   3, 10, 43, 25, 39,
  41, 45, 15, 21,  8,
  18,  2, 61, 56, 14]

@[inline] def rotl64 (x n : UInt64) : UInt64 := (x <<< n) ||| (x >>> (64 - n))

/-- One round in loop form, straight from FIPS 202 §3.2 (θ, ρ, π, χ, ι).
    Readable reference for the unrolled `keccakRounds` below. -/
def keccakRoundRef (a : Array UInt64) (rc : UInt64) : Array UInt64 := Id.run do
  let mut c : Array UInt64 := Array.emptyWithCapacity 5
  for x in [0:5] do
    c := c.push (a[x]! ^^^ a[x + 5]! ^^^ a[x + 10]! ^^^ a[x + 15]! ^^^ a[x + 20]!)
  let mut b : Array UInt64 := Array.replicate 25 0
  for x in [0:5] do
    let d := c[(x + 4) % 5]! ^^^ rotl64 c[(x + 1) % 5]! 1
    for y in [0:5] do
      -- B[y, 2x+3y] = rot(A[x,y] ^ D[x], r[x,y])
      b := b.set! (y + 5 * ((2 * x + 3 * y) % 5)) (rotl64 (a[x + 5 * y]! ^^^ d) keccakRot[x + 5 * y]!)
  let mut o : Array UInt64 := Array.emptyWithCapacity 25
  for y in [0:5] do
    for x in [0:5] do
      o := o.push (b[x + 5 * y]! ^^^ (~~~ b[(x + 1) % 5 + 5 * y]! &&& b[(x + 2) % 5 + 5 * y]!))
  return o.set! 0 (o[0]! ^^^ rc)

/-- reference permutation (slow: allocates per lane); `keccakF1600` is the unrolled equivalent -/
def keccakF1600Ref (st : Array UInt64) : Array UInt64 := keccakRC.foldl keccakRoundRef st

@[inline] def chi (p q r : UInt64) : UInt64 := p ^^^ (~~~q &&& r)

/-- `fuel` rounds starting at round `i`, fully unrolled over the 25 lanes, which are carried as
    unboxed machine words (no allocation per round).  Same computation as `keccakRoundRef`. -/
def keccakRounds (fuel i : Nat)
    (a0 a1 a2 a3 a4 a5 a6 a7 a8 a9 a10 a11 a12 a13 a14 a15 a16 a17 a18 a19 a20 a21 a22 a23 a24 : UInt64) :
    Array UInt64 :=
  match fuel with
  | 0 =>
    #[a0, a1, a2, a3, a4, a5, a6, a7, a8, a9, a10, a11, a12,
      a13, a14, a15, a16, a17, a18, a19, a20, a21, a22, a23, a24]
  | n + 1 =>
    let c0 := a0 ^^^ a5 ^^^ a10 ^^^ a15 ^^^ a20
    let c1 := a1 ^^^ a6 ^^^ a11 ^^^ a16 ^^^ a21
    let c2 := a2 ^^^ a7 ^^^ a12 ^^^ a17 ^^^ a22
    let c3 := a3 ^^^ a8 ^^^ a13 ^^^ a18 ^^^ a23
    let c4 := a4 ^^^ a9 ^^^ a14 ^^^ a19 ^^^ a24
    let d0 := c4 ^^^ rotl64 c1 1
    let d1 := c0 ^^^ rotl64 c2 1
    let d2 := c1 ^^^ rotl64 c3 1
    let d3 := c2 ^^^ rotl64 c4 1
    let d4 := c3 ^^^ rotl64 c0 1
    let b0 := rotl64 (a0 ^^^ d0) 0
    let b1 := rotl64 (a6 ^^^ d1) 44
    let b2 := rotl64 (a12 ^^^ d2) 43
    let b3 := rotl64 (a18 ^^^ d3) 21
    let b4 := rotl64 (a24 ^^^ d4) 14
    let b5 := rotl64 (a3 ^^^ d3) 28
    let b6 := rotl64 (a9 ^^^ d4) 20
    let b7 := rotl64 (a10 ^^^ d0) 3
    let b8 := rotl64 (a16 ^^^ d1) 45
    let b9 := rotl64 (a22 ^^^ d2) 61
    let b10 := rotl64 (a1 ^^^ d1) 1
    let b11 := rotl64 (a7 ^^^ d2) 6
    let b12 := rotl64 (a13 ^^^ d3) 25
    let b13 := rotl64 (a19 ^^^ d4) 8
    let b14 := rotl64 (a20 ^^^ d0) 18
    let b15 := rotl64 (a4 ^^^ d4) 27
    let b16 := rotl64 (a5 ^^^ d0) 36
    let b17 := rotl64 (a11 ^^^ d1) 10
    let b18 := rotl64 (a17 ^^^ d2) 15
    let b19 := rotl64 (a23 ^^^ d3) 56
    let b20 := rotl64 (a2 ^^^ d2) 62
    let b21 := rotl64 (a8 ^^^ d3) 55
    let b22 := rotl64 (a14 ^^^ d4) 39
    let b23 := rotl64 (a15 ^^^ d0) 41
    let b24 := rotl64 (a21 ^^^ d1) 2
    keccakRounds n (i + 1)
      (chi b0 b1 b2 ^^^ keccakRC[i]!) (chi b1 b2 b3) (chi b2 b3 b4) (chi b3 b4 b0) (chi b4 b0 b1)
      (chi b5 b6 b7) (chi b6 b7 b8) (chi b7 b8 b9) (chi b8 b9 b5) (chi b9 b5 b6)
      (chi b10 b11 b12) (chi b11 b12 b13) (chi b12 b13 b14) (chi b13 b14 b10) (chi b14 b10 b11)
      (chi b15 b16 b17) (chi b16 b17 b18) (chi b17 b18 b19) (chi b18 b19 b15) (chi b19 b15 b16)
      (chi b20 b21 b22) (chi b21 b22 b23) (chi b22 b23 b24) (chi b23 b24 b20) (chi b24 b20 b21)

/-- Keccak-f[1600] on 25 lanes (lane `i = x + 5*y`). -/
def keccakF1600 (s : Array UInt64) : Array UInt64 :=
  keccakRounds 24 0 s[0]! s[1]! s[2]! s[3]! s[4]! s[5]! s[6]! s[7]! s[8]! s[9]! s[10]! s[11]! s[12]!
    s[13]! s[14]! s[15]! s[16]! s[17]! s[18]! s[19]! s[20]! s[21]! s[22]! s[23]! s[24]!

/-- little-endian 64-bit word at byte offset `o` (requires `o + 8 ≤ m.size`) -/
@[inline] def le64At (m : Bytes) (o : Nat) : UInt64 :=
  (m.get! o).toUInt64 ||| (m.get! (o+1)).toUInt64 <<< 8 |||
  (m.get! (o+2)).toUInt64 <<< 16 ||| (m.get! (o+3)).toUInt64 <<< 24 |||
  (m.get! (o+4)).toUInt64 <<< 32 ||| (m.get! (o+5)).toUInt64 <<< 40 |||
  (m.get! (o+6)).toUInt64 <<< 48 ||| (m.get! (o+7)).toUInt64 <<< 56

def lanesOfBytes (b : Bytes) : Array UInt64 := Id.run do
  let mut a : Array UInt64 := Array.emptyWithCapacity 25
  for i in [0:25] do
    a := a.push (le64At b (8 * i))
  return a

def bytesOfLanes (a : Array UInt64) : Bytes := Id.run do
  let mut out := ByteArray.emptyWithCapacity 200
  for x in a do
    for j in [0:8] do
      out := out.push (x >>> (8 * j.toUInt64)).toUInt8
  return out

/-- Keccak-f[1600] on the 200-byte state (little-endian lanes). -/
def keccakF1600Bytes (st : Bytes) : Bytes := bytesOfLanes (keccakF1600 (lanesOfBytes st))

/-- pad10*1 with domain-separation suffix `ds` (0x1F for SHAKE, 0x06 for SHA-3), to a multiple of `rate`. -/
def keccakPad (m : Bytes) (rate : Nat) (ds : UInt8) : Bytes :=
  let z := rate - 1 - m.size % rate
  let p := m ++ (ByteArray.empty.push ds) ++ bzero z
  p.set! (p.size - 1) (p.get! (p.size - 1) ||| 0x80)

/-- Sponge over Keccak-f[1600] with byte rate `rate` (a multiple of 8, < 200). -/
def keccakSponge (rate : Nat) (ds : UInt8) (m : Bytes) (outLen : Nat) : Bytes := Id.run do
  let p := keccakPad m rate ds
  let mut a : Array UInt64 := Array.replicate 25 0
  for i in [0:p.size / rate] do
    for j in [0:rate / 8] do
      a := a.set! j (a[j]! ^^^ le64At p (rate * i + 8 * j))
    a := keccakF1600 a
  let mut out := (bytesOfLanes a).extract 0 rate
  for _ in [0:(outLen + rate - 1) / rate - 1] do
    a := keccakF1600 a
    out := out ++ (bytesOfLanes a).extract 0 rate
  return out.extract 0 outLen

def shake128 (m : Bytes) (outLen : Nat) : Bytes := keccakSponge 168 0x1F m outLen
def shake256 (m : Bytes) (outLen : Nat) : Bytes := keccakSponge 136 0x1F m outLen
def sha3_256 (m : Bytes) : Bytes := keccakSponge 136 0x06 m 32
def sha3_512 (m : Bytes) : Bytes := keccakSponge 72 0x06 m 64

/-! ## Known-answer checks (run by the interpreter at elaboration time) -/
#guard (keccakF1600 (Array.replicate 25 0))[0]! == 0xF1258F7940E1DDE7
#guard keccakF1600 (keccakF1600 (Array.replicate 25 0)) == keccakF1600Ref (keccakF1600Ref (Array.replicate 25 0))
#guard hexOf (bslice (keccakF1600Bytes (bzero 200)) 0 8) == "e7dde140798f25f1"
#guard hexOf (bslice (shake128 ByteArray.empty 32) 0 8) == "7f9c2ba4e88f827d"
#guard hexOf (bslice (shake256 ByteArray.empty 200) 0 8) == "46b9dd2b0ba88d13"
#guard hexOf (bslice (sha3_256 ByteArray.empty) 0 8) == "a7ffc6f8bf1ed766"

end Voi.Spec

