/-
Executable specification / model of `primitives/sr25519` (schnorrkel: Schnorr signatures over
ristretto255 with Merlin transcripts), property C12.

* keys        – `MiniSecretKey.ExpandUniform` / `ExpandEd25519` (+ `scalarDivideByCofactor`),
                `NewSecretKeyFromEd25519Bytes`, public key = sk·B
* transcripts – `NewSigningContext`, `NewTranscriptBytes` / `NewTranscriptHash` / `NewTranscriptXOF`
* `Sign` / `Verify` with the schnorrkel framing (`proto-name`, `sign:pk`, `sign:R`, `sign:c`, witness RNG `signing`)
* the decoders (`Signature`, `PublicKey`, `SecretKey`, `KeyPair`, `MiniSecretKey`) with their exact acceptance
  conditions, their effect on the *receiver* when they fail, and `MarshalBinary`
* the batch verifier (`entry.doInit`, `Add`, `VerifyBatchOnly`, `Verify`, `Reset`), code-shaped.

Everything is built from `Spec.Merlin` (over `Model.Strobe`), `Spec.Ristretto` (RFC 9496) and `Spec.Sha2`.
Scalars are `Nat`s reduced modulo `L`; group elements are internal representatives (`Ext`), compared through
the RFC equality / their encodings only.  Core Lean only.
-/
import Voi.Spec.Merlin
import Voi.Spec.Ristretto
import Voi.Spec.Sha2
namespace Voi.Spec.Sr25519
open Voi Voi.Spec Voi.Spec.Merlin

/-! ### small helpers -/

def lb (s : String) : List UInt8 := s.toUTF8.data.toList
def toL (b : Bytes) : List UInt8 := b.data.toList
def ofL (l : List UInt8) : Bytes := ⟨l.toArray⟩

/-- what the Go code can do besides returning a value -/
inductive SrErr where
  | merlin (e : MErr)   -- from the transcript layer (`.entropy` = error return of `Finalize`, everything else a panic)
  | hashSize            -- explicit panic "sr25519: invalid hash digest size"
  | xofShort            -- explicit panic "sr25519: failed to read XOF output"
  | batchRng            -- explicit panic "sr25519: failed to instantiate delinearization rng" (short entropy reader)
  deriving DecidableEq, Repr, Inhabited

def liftM {α} (x : Except MErr α) : Except SrErr α :=
  match x with
  | .ok a => .ok a
  | .error e => .error (.merlin e)

/-- `scalar.NewFromBytesModOrderWide` on 64 bytes -/
def scalarFromWide (b : List UInt8) : Nat := leNat (ofL b) % L

/-! ### keys (keys.go) -/

/-- `SecretKey{key, nonce}`; `key < L`, `nonce` 32 bytes -/
structure SecretKey where
  key : Nat
  nonce : Bytes
  deriving Inhabited

/-- `PublicKey{compressed, point}` -/
structure PublicKey where
  compressed : Bytes
  point : Ext
  deriving Inhabited

structure KeyPair where
  sk : SecretKey
  pk : PublicKey
  deriving Inhabited

/-- Specification of `scalarDivideByCofactor`: the little-endian value divided by eight (rounding down);
`scalar.NewFromBits` then clears bit 255 (always clear already). For a clamped input the result is `< 2^252 < L`. -/
def scalarDivideByCofactor (b : Bytes) : Nat := (leNat b / 8) % 2^255

/-- Model of the loop in `scalarDivideByCofactor`, from the most significant byte down:
```
for i := 31; i >= 0; i-- { v := b[i]; r := v & 7; v = v >> 3; scalarBytes[i] = v + low; low = r << 5 }
```
returns the bytes in little-endian order. -/
def divideByCofactorLoop (b : Bytes) : Bytes :=
  let step (acc : List UInt8 × UInt8) (v : UInt8) : List UInt8 × UInt8 :=
    (((v >>> 3) + acc.2) :: acc.1, (v &&& 7) <<< 5)
  ofL ((toL b).reverse.foldl step ([], 0)).1

/-- `MiniSecretKey.ExpandUniform` (msk: 32 bytes) -/
def expandUniform (msk : Bytes) : Except MErr SecretKey := do
  let t ← newTranscript (lb "ExpandSecretKeys")
  let t ← appendMessage t (lb "mini") (toL msk)
  let (t, sb) ← extractBytes t (lb "sk") 64
  let (_, no) ← extractBytes t (lb "no") 32
  return { key := scalarFromWide sb, nonce := ofL no }

/-- the Ed25519 clamp as `ExpandEd25519` applies it: `d[0] &= 248; d[31] &= 63; d[31] |= 64` -/
def clampEd25519 (d32 : Bytes) : Bytes :=
  let n := leNat d32
  natLE ((n % 2^254) / 8 * 8 + 2^254) 32

/-- `MiniSecretKey.ExpandEd25519` (msk: 32 bytes) -/
def expandEd25519 (msk : Bytes) : SecretKey :=
  let digest := sha512 msk
  { key := scalarDivideByCofactor (clampEd25519 (bslice digest 0 32)), nonce := bslice digest 32 32 }

/-- `NewSecretKeyFromEd25519Bytes`: 64 bytes, the scalar half must already be clamped -/
def secretKeyFromEd25519Bytes (b : Bytes) : Option SecretKey :=
  if b.size ≠ 64 then none else
  let s := bslice b 0 32
  let s0 := (s.get! 0).toNat
  let s31 := (s.get! 31).toNat
  if s0 % 8 ≠ 0 ∨ s31 / 64 ≠ 1 then none else
  some { key := scalarDivideByCofactor s, nonce := bslice b 32 32 }

/-- `SecretKey.PublicKey`: A = key·B -/
def SecretKey.publicKey (sk : SecretKey) : PublicKey :=
  let A := Ristretto.smul sk.key Ristretto.B
  { compressed := Ristretto.encode A, point := A }

def SecretKey.keyPair (sk : SecretKey) : KeyPair := { sk := sk, pk := sk.publicKey }

/-! ### signatures: structure, decoders, encoders -/

/-- `Signature{rCompressed, s}`: R is kept as 32 uninterpreted bytes, `s < L` -/
structure Signature where
  r : Bytes
  s : Nat
  deriving Inhabited

/-- `(*Signature).UnmarshalBinary`: 64 bytes ∧ marker bit (bit 7 of byte 63) set ∧ s (marker cleared) < L.
R is only copied — it is NOT decompressed here. -/
def decodeSignature (b : Bytes) : Option Signature :=
  if b.size ≠ 64 then none else
  if (b.get! 63).toNat < 128 then none else
  let s := leNat (bslice b 32 32) % 2^255
  if s ≥ L then none else
  some { r := bslice b 0 32, s := s }

/-- `(*Signature).MarshalBinary`: R ‖ s with the marker bit set -/
def Signature.marshal (sig : Signature) : Bytes := sig.r ++ natLE (sig.s % L + 2^255) 32

/-- `(*PublicKey).UnmarshalBinary`: 32 bytes that are a valid (canonical) ristretto255 encoding -/
def decodePublicKey (b : Bytes) : Option PublicKey :=
  if b.size ≠ 32 then none else
  match Ristretto.decode b with
  | none => none
  | some A => some { compressed := b, point := A }

def PublicKey.marshal (pk : PublicKey) : Bytes := pk.compressed

/-- `(*SecretKey).UnmarshalBinary`: 64 bytes, the first 32 a canonical scalar -/
def decodeSecretKey (b : Bytes) : Option SecretKey :=
  if b.size ≠ 64 then none else
  let k := leNat (bslice b 0 32)
  if k ≥ L then none else
  some { key := k, nonce := bslice b 32 32 }

/-- `(*SecretKey).MarshalBinary`: scalar ‖ nonce -/
def SecretKey.marshal (sk : SecretKey) : Bytes := natLE (sk.key % L) 32 ++ sk.nonce

/-- `(*KeyPair).UnmarshalBinary`: 96 bytes = secret key ‖ public key, both valid, and pk = sk·B
(compared as compressed encodings) -/
def decodeKeyPair (b : Bytes) : Option KeyPair :=
  if b.size ≠ 96 then none else
  match decodeSecretKey (bslice b 0 64) with
  | none => none
  | some sk =>
    match decodePublicKey (bslice b 64 32) with
    | none => none
    | some pk =>
      if beq sk.publicKey.compressed pk.compressed then some { sk := sk, pk := pk } else none

def KeyPair.marshal (kp : KeyPair) : Bytes := kp.sk.marshal ++ kp.pk.marshal

/-- `(*MiniSecretKey).UnmarshalBinary`: any 32 bytes -/
def decodeMiniSecretKey (b : Bytes) : Option Bytes := if b.size ≠ 32 then none else some b

/-! ### receivers
`UnmarshalBinary` is a method on a receiver that may already hold a value.  A receiver is modelled as an
`Option`: `none` is the Go zero value (what `var x T` gives).  `Signature`, `PublicKey` and `KeyPair` reset the
receiver before looking at the input (so a failed decode leaves the zero value); `SecretKey` and `MiniSecretKey`
do not touch the receiver unless the input is accepted. -/

def Signature.unmarshalInto (_old : Option Signature) (b : Bytes) : Option Signature × Bool :=
  match decodeSignature b with | some s => (some s, true) | none => (none, false)
def PublicKey.unmarshalInto (_old : Option PublicKey) (b : Bytes) : Option PublicKey × Bool :=
  match decodePublicKey b with | some s => (some s, true) | none => (none, false)
def KeyPair.unmarshalInto (_old : Option KeyPair) (b : Bytes) : Option KeyPair × Bool :=
  match decodeKeyPair b with | some s => (some s, true) | none => (none, false)
def SecretKey.unmarshalInto (old : Option SecretKey) (b : Bytes) : Option SecretKey × Bool :=
  match decodeSecretKey b with | some s => (some s, true) | none => (old, false)
def MiniSecretKey.unmarshalInto (old : Option Bytes) (b : Bytes) : Option Bytes × Bool :=
  match decodeMiniSecretKey b with | some s => (some s, true) | none => (old, false)

/-- `MarshalBinary` of a receiver; the zero values serialise as all-zero strings (the signature with its marker bit) -/
def marshalSignature : Option Signature → Bytes
  | some s => s.marshal
  | none => bzero 63 ++ (ByteArray.empty.push 128)
def marshalPublicKey : Option PublicKey → Bytes
  | some pk => pk.marshal
  | none => bzero 32
def marshalSecretKey : Option SecretKey → Bytes
  | some sk => sk.marshal
  | none => bzero 64
def marshalKeyPair : Option KeyPair → Bytes
  | some kp => kp.marshal
  | none => bzero 96
def marshalMiniSecretKey : Option Bytes → Bytes
  | some m => m
  | none => bzero 32

/-! ### signing contexts and transcripts (context.go) -/

/-- `NewSigningContext(context)` -/
def newSigningContext (ctx : Bytes) : Except MErr Transcript := do
  let t ← newTranscript (lb "SigningContext")
  appendMessage t [] (toL ctx)

/-- `NewTranscriptBytes(b)` -/
def newTranscriptBytes (sc : Transcript) (msg : Bytes) : Except SrErr Transcript :=
  liftM (appendMessage sc.clone (lb "sign-bytes") (toL msg))

/-- `NewTranscriptHash(h)` where `digest = h.Sum(nil)` (so `digest.size = h.Size()`) -/
def newTranscriptHash (sc : Transcript) (digest : Bytes) : Except SrErr Transcript :=
  if digest.size = 32 then liftM (appendMessage sc.clone (lb "sign-256") (toL digest))
  else if digest.size = 64 then liftM (appendMessage sc.clone (lb "sign-512") (toL digest))
  else .error .hashSize

/-- `NewTranscriptXOF(xof)` where the reader yields the bytes `stream` and then EOF: 32 bytes are read -/
def newTranscriptXOF (sc : Transcript) (stream : Bytes) : Except SrErr Transcript :=
  if stream.size < 32 then .error .xofShort else
  liftM (appendMessage sc.clone (lb "sign-XoF") (toL (bslice stream 0 32)))

def commitBytes (t : Transcript) (label : String) (b : Bytes) : Except MErr Transcript :=
  appendMessage t (lb label) (toL b)

/-- `challengeScalar(label)`: 64 bytes, reduced mod L -/
def challengeScalar (t : Transcript) (label : String) : Except MErr (Transcript × Nat) := do
  let (t, b) ← extractBytes t (lb label) 64
  return (t, scalarFromWide b)

/-- `witnessRng(label, nonceSeeds, rng)`; `entropy` is everything the reader `rng` can yield -/
def witnessRng (t : Transcript) (label : String) (nonceSeeds : List Bytes) (entropy : Bytes) :
    Except MErr TranscriptRng := do
  let br ← nonceSeeds.foldlM (fun br ns => rekeyWithWitnessBytes br (lb label) (toL ns)) (buildRng t)
  let (_, rng) ← finalize br (toL entropy)
  return rng

/-- `witnessScalar`: `scalar.SetRandom(rng)` = one 64-byte read, reduced mod L -/
def witnessScalar (t : Transcript) (label : String) (nonceSeeds : List Bytes) (entropy : Bytes) :
    Except MErr Nat := do
  let rng ← witnessRng t label nonceSeeds entropy
  let (_, b) ← rng.read 64
  return scalarFromWide b

/-- `witnessBytes(dest, …)` with `len(dest) = n` -/
def transcriptWitnessBytes (t : Transcript) (n : Nat) (label : String) (nonceSeeds : List Bytes) (entropy : Bytes) :
    Except MErr Bytes := do
  let rng ← witnessRng t label nonceSeeds entropy
  let (_, b) ← rng.read n
  return ofL b

/-! ### Sign / Verify (sign.go) -/

def protoLabel : Bytes := strBytes "Schnorr-sig"

/-- the common prefix of signing and verification: clone, `proto-name`, `sign:pk` -/
def signingPrefix (t : Transcript) (pkCompressed : Bytes) : Except MErr Transcript := do
  let t ← commitBytes t.clone "proto-name" protoLabel
  commitBytes t "sign:pk" pkCompressed

/-- `deriveVerifyChallengeScalar` -/
def deriveVerifyChallengeScalar (pk : PublicKey) (t : Transcript) (sig : Signature) : Except MErr Nat := do
  let t ← signingPrefix t pk.compressed
  let t ← commitBytes t "sign:R" sig.r
  let (_, k) ← challengeScalar t "sign:c"
  return k

/-- `(*KeyPair).Sign(rng, transcript)`; `entropy` = the bytes the reader yields (fewer than 32 → error) -/
def sign (kp : KeyPair) (t : Transcript) (entropy : Bytes) : Except MErr Signature := do
  let t ← signingPrefix t kp.pk.compressed
  let r ← witnessScalar t "signing" [kp.sk.nonce] entropy
  let R := Ristretto.encode (Ristretto.smul r Ristretto.B)
  let t ← commitBytes t "sign:R" R
  let (_, k) ← challengeScalar t "sign:c"
  return { r := R, s := Sc.add (Sc.mul k kp.sk.key) r }

/-- the verification equation on decoded values: [k](−A) + [s]B − R is the identity element
(`TripleScalarMulBasepointVartime(k, −A, s, R).IsIdentity()`; the extra factor δ of the lattice
method is invertible mod L and does not change the verdict) -/
def verifyEquation (k : Nat) (A : Ext) (s : Nat) (R : Ext) : Bool :=
  Ristretto.isIdentity (Ristretto.sub (Ristretto.msm [k, s] [Ristretto.neg A, Ristretto.B]) R)

/-- `(*PublicKey).Verify(transcript, signature)` on initialised values -/
def verify (pk : PublicKey) (t : Transcript) (sig : Signature) : Except MErr Bool :=
  match Ristretto.decode sig.r with
  | none => .ok false
  | some R => do
    let k ← deriveVerifyChallengeScalar pk t sig
    return verifyEquation k pk.point sig.s R

/-- `Verify` on receivers: an uninitialised public key or signature never verifies -/
def verifyRecv (pk : Option PublicKey) (t : Transcript) (sig : Option Signature) : Except MErr Bool :=
  match pk, sig with
  | some pk, some sig => verify pk t sig
  | _, _ => .ok false

/-! ### batch verification (batch_verify.go) -/

structure Entry where
  R : Ext := Ext.zero
  S : Nat := 0
  A : Ext := Ext.zero
  hram : Nat := 0
  witnessA : Bytes := bzero 32
  witnessR : Bytes := bzero 32
  witnessBytes : Bytes := bzero 16
  canBeValid : Bool := false
  deriving Inhabited

structure BatchVerifier where
  entries : List Entry := []      -- in insertion order
  anyInvalid : Bool := false
  deriving Inhabited

/-- `entry.doInit` -/
def Entry.doInit (pk : Option PublicKey) (t : Transcript) (sig : Option Signature) : Except MErr Entry :=
  match pk, sig with
  | some pk, some sig =>
    match Ristretto.decode sig.r with
    | none => .ok {}
    | some R => do
      let hram ← deriveVerifyChallengeScalar pk t sig
      -- delinearisation component of the *caller's* transcript: witnessBytes(16, "", nil, ZeroReader)
      let wb ← transcriptWitnessBytes t 16 "" [] (bzero 32)
      return { R := R, S := sig.s, A := pk.point, hram := hram,
               witnessA := pk.compressed, witnessR := sig.r, witnessBytes := wb, canBeValid := true }
  | _, _ => .ok {}

/-- `Add` -/
def BatchVerifier.add (v : BatchVerifier) (pk : Option PublicKey) (t : Transcript) (sig : Option Signature) :
    Except MErr BatchVerifier := do
  let e ← Entry.doInit pk t sig
  return { entries := v.entries ++ [e], anyInvalid := v.anyInvalid || !e.canBeValid }

/-- `Reset` -/
def BatchVerifier.reset (_v : BatchVerifier) : BatchVerifier := {}

/-- one step of the loop that draws the z_i: read 16 bytes into the low half of `randomBytes` (the high half
keeps whatever the previous iterations left there), `FixRawRangeVartime`, `SetBits` -/
def drawZ (st : TranscriptRng × Bytes) : Except MErr ((TranscriptRng × Bytes) × Nat) := do
  let (rng, hi) := st
  let (rng, lo) ← rng.read 16
  let raw := ofL lo ++ hi
  let raw := if beq raw (bzero 32) then natLE (2^128) 32 else raw
  return ((rng, bslice raw 16 16), leNat raw % 2^255)

def drawZs : Nat → (TranscriptRng × Bytes) → Except MErr (List Nat)
  | 0, _ => .ok []
  | n+1, st => do
    let (st, z) ← drawZ st
    let zs ← drawZs n st
    return z :: zs

/-- the delinearisation RNG: transcript "V-RNG" over all A_i, then all R_i, then all witness bytes,
finalised with the caller's entropy -/
def batchRng (es : List Entry) (rand : Bytes) : Except MErr TranscriptRng := do
  let t ← newTranscript (lb "V-RNG")
  let t ← es.foldlM (fun t e => commitBytes t "" e.witnessA) t
  let t ← es.foldlM (fun t e => commitBytes t "" e.witnessR) t
  let t ← es.foldlM (fun t e => commitBytes t "" e.witnessBytes) t
  witnessRng t "" [] rand

/-- `VerifyBatchOnly(rand)`; `rand` = the bytes the reader yields -/
def BatchVerifier.verifyBatchOnly (v : BatchVerifier) (rand : Bytes) : Except SrErr Bool :=
  if v.entries.isEmpty then .ok false else
  if v.anyInvalid then .ok false else
  if rand.size < 32 then .error .batchRng else
  liftM do
    let rng ← batchRng v.entries rand
    let zs ← drawZs v.entries.length (rng, bzero 16)
    let ze := zs.zip v.entries
    let bcoeff := Sc.neg (ze.foldl (fun acc (z, e) => Sc.add acc (Sc.mul z e.S)) 0)
    let acoeffs := ze.map (fun (z, e) => Sc.mul z e.hram)
    let scalars := bcoeff :: (zs ++ acoeffs)
    let points := Ristretto.B :: (v.entries.map (·.R) ++ v.entries.map (·.A))
    return Ristretto.isIdentity (Ristretto.msm scalars points)

/-- serial check of one stored entry, as in the slow path of `Verify` -/
def Entry.serial (e : Entry) : Bool := e.canBeValid && verifyEquation e.hram e.A e.S e.R

/-- `Verify(rand)`: `(allValid, valid)`; the empty batch gives `(false, nil)` -/
def BatchVerifier.verify (v : BatchVerifier) (rand : Bytes) : Except SrErr (Bool × List Bool) :=
  if v.entries.isEmpty then .ok (false, []) else do
    let fast ← if v.anyInvalid then pure false else v.verifyBatchOnly rand
    if fast then return (true, v.entries.map (·.canBeValid)) else
    let valid := v.entries.map Entry.serial
    return (!v.anyInvalid && valid.all id, valid)

/-- what the batch API must return according to the property ("batch results equal single results"):
the per-entry verdicts of single verification and their conjunction (false for the empty batch).
Independent of the entropy. -/
def BatchVerifier.expected (v : BatchVerifier) : Bool × List Bool :=
  let valid := v.entries.map Entry.serial
  (!v.entries.isEmpty && valid.all id, valid)

/-! ### anchors -/

-- scalarDivideByCofactor: specification = loop model
#guard natLE (scalarDivideByCofactor (ofHex! "28b0ae221c6bb06856b287f60d7ea0d98552ea5a16db16956849aa371db3eb51")) 32
        == divideByCofactorLoop (ofHex! "28b0ae221c6bb06856b287f60d7ea0d98552ea5a16db16956849aa371db3eb51")
#guard divideByCofactorLoop (ofHex! "f8ffffffffffffffffffffffffffffffffffffffffffffffffffffffffffff7f")
        == ofHex! "ffffffffffffffffffffffffffffffffffffffffffffffffffffffffffffff0f"
#guard divideByCofactorLoop (ofHex! "ffffffffffffffffffffffffffffffffffffffffffffffffffffffffffffffff")
        == natLE ((2^256 - 1) / 8) 32
-- schnorrkel `SecretKey::from_ed25519_bytes` documentation vector (keys_test.go, "Ed25519Bytes")
#guard (secretKeyFromEd25519Bytes (ofHex! ("28b0ae221c6bb06856b287f60d7ea0d98552ea5a16db16956849aa371db3eb51" ++
          "fd190cce74df356432b410bd64682309d6dedb27c76845daf388557cbac3ca34"))).map (·.marshal)
        == some (ofHex! ("05d65584630d16cd4af6d0bec10f34bb504a5dcb62dba2122d49f5a663763d0a" ++
          "fd190cce74df356432b410bd64682309d6dedb27c76845daf388557cbac3ca34"))
#guard (secretKeyFromEd25519Bytes (ofHex! ("28b0ae221c6bb06856b287f60d7ea0d98552ea5a16db16956849aa371db3ebd1" ++
          "fd190cce74df356432b410bd64682309d6dedb27c76845daf388557cbac3ca34"))).isNone
#guard (secretKeyFromEd25519Bytes (ofHex! ("2ab0ae221c6bb06856b287f60d7ea0d98552ea5a16db16956849aa371db3eb51" ++
          "fd190cce74df356432b410bd64682309d6dedb27c76845daf388557cbac3ca34"))).isNone
-- key expansion of the all-zero mini secret key (keys_test.go, "ExpandUniform" / "ExpandEd25519")
#guard (match expandUniform (bzero 32) with
  | .ok sk => sk.keyPair.marshal == ofHex! ("04f0557e7f35e00df0824f458868915368bd5e41fd91f85b177f5907383ac50b" ++
      "dd0660b091e0ec47ecaf1f6ce73e7168fef267770f5030d5c524a49615163471" ++
      "063b66cc8b77aa24f694d073ad72c21a9f296be0fd4ee953d8e58d5d627d435b")
  | .error _ => false)
#guard (expandEd25519 (bzero 32)).keyPair.marshal == ofHex! ("caa835781b15c7706f65b71f7a58c807ab360faed6440fb23e0f4c52e930de0a" ++
      "0a6a85eaa642dac835424b5d7c8d637c00408c7a73da672b7f498521420b6dd3" ++
      "def12e42f3e487e9b14095aa8d5cc16a33491f1b50dadcf8811d1480f3fa8627")

/-- the upstream schnorrkel / go-schnorrkel verification vector (sign_test.go, TestVerifyVector) -/
private def katVerify (msg : String) : Option Bool :=
  match decodePublicKey (ofHex! "46ebddef8cd9bb167dc30878d7113b7e168e6f0646beffd77d69d39bad76b47a"),
        decodeSignature (ofHex! ("4e172314444b8f820bb54c22e95076f220ed25373e5c178234aa6c211d292712" ++
                                 "44b947e3ff3418ff6b45fd1df1140c8cbff69fc58ee6dc96df70936a2bb74b82")) with
  | some pk, some sig =>
    match newSigningContext (strBytes "substrate") with
    | .error _ => none
    | .ok sc =>
      match newTranscriptBytes sc (strBytes msg) with
      | .error _ => none
      | .ok t => match verify pk t sig with | .ok b => some b | .error _ => none
  | _, _ => none

#guard katVerify "this is a message" == some true
#guard katVerify "wrong message" == some false

-- marshal ∘ unmarshal on the vector, and the unmarked form of the same signature is rejected
#guard (decodeSignature (ofHex! ("4e172314444b8f820bb54c22e95076f220ed25373e5c178234aa6c211d292712" ++
          "44b947e3ff3418ff6b45fd1df1140c8cbff69fc58ee6dc96df70936a2bb74b82"))).map (·.marshal)
        == some (ofHex! ("4e172314444b8f820bb54c22e95076f220ed25373e5c178234aa6c211d292712" ++
          "44b947e3ff3418ff6b45fd1df1140c8cbff69fc58ee6dc96df70936a2bb74b82"))
#guard (decodeSignature (ofHex! ("4e172314444b8f820bb54c22e95076f220ed25373e5c178234aa6c211d292712" ++
          "44b947e3ff3418ff6b45fd1df1140c8cbff69fc58ee6dc96df70936a2bb74b02"))).isNone
-- zero values
#guard marshalSignature none == ofHex! (String.join (List.replicate 63 "00") ++ "80")

end Voi.Spec.Sr25519
