/-
Executable specification of RFC 9380 "Hashing to Elliptic Curves" as far as the library
implements it (property C14):

 * §5.3.1 `expand_message_xmd`, parametric in a hash record (H, b_in_bytes, s_in_bytes);
 * §5.3.2 `expand_message_xof`, parametric in an XOF and the security level k;
 * §5.3.3 DSTs longer than 255 bytes;
 * §5.2   `hash_to_field` for F_p, p = 2^255 - 19 (m = 1, L = 48);
 * §6.7.1 `map_to_curve_elligator2` on curve25519 (J = 486662, K = 1, Z = 2) with `sgn0`, `inv0`;
 * §6.8.2 / Appendix D.1 the rational map curve25519 → edwards25519 with its exceptional cases;
 * §3     `hash_to_curve` / `encode_to_curve` with `clear_cofactor` = multiplication by 8;
 * RFC 9496 §4.3.4 the ristretto255 one-way map, and RFC 9380 Appendix B `hash_to_ristretto255`.

This is the *mathematical* definition (square roots through `Fp.sqrtRatioM1` / `Fp.pow`), not a
transliteration of the library's straight-line code.  Abort = `none`.  Core Lean only.
-/
import Voi.Spec.Edwards
import Voi.Spec.Sha2
import Voi.Spec.Keccak
namespace Voi.Spec.H2C
open Voi Voi.Spec

/-! ## §5.3 message expansion -/

/-- A fixed-output hash as §5.3.1 needs it: the function, its output size `b` (bytes) and its
input block size `s` (bytes). -/
structure HashFn where
  H : Bytes → Bytes
  b : Nat
  s : Nat

def hSha224 : HashFn := ⟨sha224, 28, 64⟩
def hSha256 : HashFn := ⟨sha256, 32, 64⟩
def hSha384 : HashFn := ⟨sha384, 48, 128⟩
def hSha512 : HashFn := ⟨sha512, 64, 128⟩

/-- An extendable-output function: `X msg len`. -/
abbrev XofFn := Bytes → Nat → Bytes

/-- I2OSP(n, len) -/
def i2osp (n len : Nat) : Bytes := natBE n len

def oversizePrefix : Bytes := strBytes "H2C-OVERSIZE-DST-"

/-- DST_prime = DST ‖ I2OSP(len(DST), 1) -/
def dstPrime (dst : Bytes) : Bytes := dst ++ i2osp dst.size 1

/-- §5.3.3 for expand_message_xmd: DST = H("H2C-OVERSIZE-DST-" ‖ a_very_long_DST) -/
def xmdDst (h : HashFn) (dst : Bytes) : Bytes :=
  if dst.size > 255 then h.H (oversizePrefix ++ dst) else dst

/-- §5.3.3 for expand_message_xof: DST = H("H2C-OVERSIZE-DST-" ‖ a_very_long_DST, ceil(2k/8)) -/
def xofDst (X : XofFn) (k : Nat) (dst : Bytes) : Bytes :=
  if dst.size > 255 then X (oversizePrefix ++ dst) ((2 * k + 7) / 8) else dst

/-- b_1 ‖ … ‖ b_ell of §5.3.1 steps 8–11, by recursion on the number of blocks
still to produce: `b_i = H(strxor(b_0, b_(i-1)) ‖ I2OSP(i, 1) ‖ DST_prime)`. -/
def xmdBlocks (h : HashFn) (b0 dp : Bytes) : (todo i : Nat) → (prev : Bytes) → (acc : Bytes) → Bytes
  | 0, _, _, acc => acc
  | todo+1, i, prev, acc =>
    let bi := h.H (bxor b0 prev ++ i2osp i 1 ++ dp)
    xmdBlocks h b0 dp todo (i + 1) bi (acc ++ bi)

/-- RFC 9380 §5.3.1 expand_message_xmd(msg, DST, len_in_bytes), with §5.3.3 applied to long DSTs.
`k` is the target security level in bits.

Aborts (`none`): `ell > 255`, `len_in_bytes > 65535` (RFC step 2; `len(DST) > 255` cannot occur
after §5.3.3); the RFC's *requirement* `b ≥ 2k` on the hash is enforced as an abort
(`b_in_bytes < 2k/8`); and `len_in_bytes = 0`, which the library documents as refused. -/
def expandMessageXmd (h : HashFn) (k : Nat) (msg dst : Bytes) (len : Nat) : Option Bytes :=
  if h.b < 2 * k / 8 then none else
  if len = 0 ∨ len > 65535 then none else
  let dst := xmdDst h dst
  let ell := (len + h.b - 1) / h.b
  if ell > 255 ∨ dst.size > 255 then none else
  let dp := dstPrime dst
  let zPad := i2osp 0 h.s
  let libStr := i2osp len 2
  let msgPrime := zPad ++ msg ++ libStr ++ i2osp 0 1 ++ dp
  let b0 := h.H msgPrime
  let b1 := h.H (b0 ++ i2osp 1 1 ++ dp)
  let uniform := xmdBlocks h b0 dp (ell - 1) 2 b1 b1
  some (bslice uniform 0 len)

/-- RFC 9380 §5.3.2 expand_message_xof(msg, DST, len_in_bytes), with §5.3.3 applied to long DSTs.
Aborts: `len_in_bytes > 65535`; plus the documented refusal of `len_in_bytes = 0`. -/
def expandMessageXof (X : XofFn) (k : Nat) (msg dst : Bytes) (len : Nat) : Option Bytes :=
  if len = 0 ∨ len > 65535 then none else
  let dst := xofDst X k dst
  if dst.size > 255 then none else
  let msgPrime := msg ++ i2osp len 2 ++ dstPrime dst
  some (X msgPrime len)

/-- An expander with the DST already fixed by the caller's suite: `expand msg dst len`. -/
abbrev Expander := Bytes → Bytes → Nat → Option Bytes

/-- The security level of every suite the library offers (curve25519: k = 128). -/
def kSuite : Nat := 128

def xmd (h : HashFn) : Expander := expandMessageXmd h kSuite
def xof (X : XofFn) : Expander := expandMessageXof X kSuite

/-! ## §5.2 hash_to_field for F_p, p = 2^255 - 19: m = 1, L = ceil((255 + 128)/8) = 48 -/

def fieldL : Nat := 48

/-- OS2IP(tv) mod p -/
def os2ipModP (tv : Bytes) : Nat := beNat tv % p

/-- `count` field elements from `count * L` uniform bytes -/
def fieldElems (uniform : Bytes) (count : Nat) : List Nat :=
  (List.range count).map fun i => os2ipModP (bslice uniform (fieldL * i) fieldL)

def hashToField (expand : Expander) (msg dst : Bytes) (count : Nat) : Option (List Nat) :=
  (expand msg dst (count * fieldL)).map (fieldElems · count)

/-! ## §4 utility functions -/

def inv0 (x : Nat) : Nat := Fp.inv x
def sgn0 (x : Nat) : Nat := (x % p) % 2
/-- is_square(x): x^((p-1)/2) is 0 or 1 -/
def isSquare (x : Nat) : Bool := let l := Fp.pow x ((p - 1) / 2); l == 0 || l == 1
/-- a square root of a square `x` (the one with sgn0 = 0) -/
def sqrt (x : Nat) : Nat := (Fp.sqrtRatioM1 x 1).2
/-- the square root of `x` with the prescribed sign -/
def sqrtSgn (x sgn : Nat) : Nat := let y := sqrt x; if sgn0 y == sgn then y else Fp.neg y

/-! ## §6.7.1 Elligator 2 on curve25519: K·t² = s³ + J·s² + s, J = 486662, K = 1, Z = 2 -/

def J : Nat := 486662
def Z : Nat := 2

/-- g(x) = x³ + J·x² + x -/
def montG (x : Nat) : Nat := Fp.add (Fp.add (Fp.mul (Fp.sq x) x) (Fp.mul J (Fp.sq x))) x

def onMontgomery (s t : Nat) : Bool := Fp.sq t == montG s

/-- map_to_curve_elligator2(u) → (s, t) on curve25519 -/
def mapToCurveElligator2 (u : Nat) : Nat × Nat :=
  let x1 := Fp.mul (Fp.neg J) (inv0 (Fp.add 1 (Fp.mul Z (Fp.sq u))))
  let x1 := if x1 == 0 then Fp.neg J else x1
  let gx1 := montG x1
  let x2 := Fp.sub (Fp.neg x1) J
  let gx2 := montG x2
  if isSquare gx1 then (x1, sqrtSgn gx1 1) else (x2, sqrtSgn gx2 0)

/-- sqrt(-486664) with sgn0 = 0 (Appendix D.1) -/
def sqrtNeg486664 : Nat := sqrtSgn (Fp.neg 486664) 0

/-- Appendix D.1 rational map (s, t) ↦ (v, w) = (sqrt(-486664)·s/t, (s-1)/(s+1));
exceptional cases t = 0 or s = -1 ↦ (0, 1) (§6.8.2). -/
def montToEdwards (s t : Nat) : Pt :=
  if t % p == 0 || Fp.add s 1 == 0 then Pt.zero else
  ⟨Fp.mul sqrtNeg486664 (Fp.mul s (Fp.inv t)), Fp.mul (Fp.sub s 1) (Fp.inv (Fp.add s 1))⟩

/-- §6.8.2 map_to_curve_elligator2_edwards25519 -/
def mapToCurve (u : Nat) : Pt :=
  let (s, t) := mapToCurveElligator2 u
  montToEdwards s t

/-- clear_cofactor: h_eff = 8 -/
def clearCofactor (P : Pt) : Pt := Pt.mul8 P

/-! ## §3 the two encodings, from uniform bytes and from (msg, DST) -/

/-- the tail of encode_to_curve after message expansion (48 uniform bytes) -/
def encodeFromUniform (ub : Bytes) : Pt :=
  match fieldElems ub 1 with
  | [u] => clearCofactor (mapToCurve u)
  | _ => Pt.zero

/-- the tail of hash_to_curve after message expansion (96 uniform bytes) -/
def hashFromUniform (ub : Bytes) : Pt :=
  match fieldElems ub 2 with
  | [u0, u1] => clearCofactor (Pt.add (mapToCurve u0) (mapToCurve u1))
  | _ => Pt.zero

/-- encode_to_curve (nonuniform, `_NU_`) -/
def encodeToCurve (expand : Expander) (msg dst : Bytes) : Option Pt :=
  (expand msg dst fieldL).map encodeFromUniform

/-- hash_to_curve (random oracle, `_RO_`) -/
def hashToCurve (expand : Expander) (msg dst : Bytes) : Option Pt :=
  (expand msg dst (2 * fieldL)).map hashFromUniform

/-- suite edwards25519_XMD:SHA-512_ELL2_RO_ -/
def edwards25519_XMD_SHA512_ELL2_RO (msg dst : Bytes) : Option Pt := hashToCurve (xmd hSha512) msg dst
/-- suite edwards25519_XMD:SHA-512_ELL2_NU_ -/
def edwards25519_XMD_SHA512_ELL2_NU (msg dst : Bytes) : Option Pt := encodeToCurve (xmd hSha512) msg dst

/-! ## ristretto255 (RFC 9496 §4.3.4 one-way map; RFC 9380 Appendix B hash_to_ristretto255)

Kept local to this file (namespace `R255`) so that the hash-to-curve Spec does not depend on the
ristretto255 Spec; only MAP, addition and ENCODE are needed. -/
namespace R255
open Fp

def oneMinusDSq : Nat := sub 1 (sq d)
def dMinusOneSq : Nat := sq (sub d 1)
/-- SQRT_AD_MINUS_ONE (RFC 9496 §4.1): the root of a·d − 1 = −d − 1 that the RFC fixes -/
def sqrtAdMinusOne : Nat := 25063068953384623474111414158702152701244531502492656460079210482610430750235
/-- INVSQRT_A_MINUS_D = 1/sqrt(a − d), non-negative -/
def invSqrtAMinusD : Nat := (sqrtRatioM1 1 (sub (neg 1) d)).2

/-- RFC 9496 §4.3.4 MAP(t) → extended coordinates -/
def map (t : Nat) : Ext :=
  let r := mul sqrtM1 (sq t)
  let u := mul (add r 1) oneMinusDSq
  let v := mul (sub (neg 1) (mul r d)) (add r d)
  let (wasSquare, s) := sqrtRatioM1 u v
  let sPrime := neg (abs (mul s t))
  let s := if wasSquare then s else sPrime
  let c := if wasSquare then neg 1 else r
  let n := sub (mul (mul c (sub r 1)) dMinusOneSq) v
  let w0 := mul (mul 2 s) v
  let w1 := mul n sqrtAdMinusOne
  let w2 := sub 1 (sq s)
  let w3 := add 1 (sq s)
  ⟨mul w0 w3, mul w2 w1, mul w1 w3, mul w0 w2⟩

/-- RFC 9496 §4.3.2 ENCODE -/
def encode (P : Ext) : Bytes :=
  let u1 := mul (add P.Z P.Y) (sub P.Z P.Y)
  let u2 := mul P.X P.Y
  let invsqrt := (sqrtRatioM1 1 (mul u1 (sq u2))).2
  let den1 := mul invsqrt u1
  let den2 := mul invsqrt u2
  let zInv := mul (mul den1 den2) P.T
  let ix0 := mul P.X sqrtM1
  let iy0 := mul P.Y sqrtM1
  let ench := mul den1 invSqrtAMinusD
  let rotate := isNeg (mul P.T zInv)
  let x := if rotate then iy0 else P.X
  let y := if rotate then ix0 else P.Y
  let denInv := if rotate then ench else den2
  let y := if isNeg (mul x zInv) then neg y else y
  Fp.toBytes (abs (mul denInv (sub P.Z y)))

/-- field element from 32 bytes: bit 255 ignored, reduced mod p -/
def feOfBytes (b : Bytes) : Nat := Fp.ofBytes b

/-- the one-way map of RFC 9496 §4.3.4 on 64 uniform bytes, encoded -/
def oneWayMap (ub : Bytes) : Bytes :=
  let r0 := feOfBytes (bslice ub 0 32)
  let r1 := feOfBytes (bslice ub 32 32)
  encode (Ext.add (map r0) (map r1))
end R255

/-- hash_to_ristretto255 (RFC 9380 Appendix B): expand to 64 bytes, then the one-way map.
The result is the canonical 32-byte ristretto255 encoding. -/
def hashToRistretto255 (expand : Expander) (msg dst : Bytes) : Option Bytes :=
  (expand msg dst 64).map R255.oneWayMap

end Voi.Spec.H2C
