/-
Executable specification of arithmetic modulo p = 2^255 - 19 and modulo the group order L.
Elements are plain `Nat`s kept reduced; core Lean only.
-/
import Voi.Basic
namespace Voi.Spec

def p : Nat := 2^255 - 19
def L : Nat := 2^252 + 27742317777372353535851937790883648493

namespace Fp
@[inline] def add (a b : Nat) : Nat := (a + b) % p
@[inline] def sub (a b : Nat) : Nat := (a + (p - b % p)) % p
@[inline] def neg (a : Nat) : Nat := (p - a % p) % p
@[inline] def mul (a b : Nat) : Nat := (a * b) % p
@[inline] def sq (a : Nat) : Nat := (a * a) % p

/-- square-and-multiply, exponent processed by structural recursion on a fuel (bit count) -/
def powAux (base : Nat) : Nat → Nat → Nat → Nat
  | 0, _, acc => acc
  | fuel+1, e, acc =>
    if e = 0 then acc else
    let acc' := if e % 2 = 1 then (acc * base) % p else acc
    powAux ((base * base) % p) fuel (e / 2) acc'

def pow (a e : Nat) : Nat := powAux (a % p) 256 e 1

/-- inverse with 0 ↦ 0 -/
def inv (a : Nat) : Nat := pow a (p - 2)

def isNeg (a : Nat) : Bool := (a % p) % 2 = 1
def abs (a : Nat) : Nat := if isNeg a then neg a else a % p

def sqrtM1 : Nat := pow 2 ((p - 1) / 4)

/-- curve constant d = -121665/121666 -/
def d : Nat := mul (neg 121665) (inv 121666)
def d2 : Nat := add d d

/-- RFC 9496 §4.2 SQRT_RATIO_M1: (was_square, r) with r non-negative. -/
def sqrtRatioM1 (u v : Nat) : Bool × Nat :=
  let v3 := mul (sq v) v
  let v7 := mul (sq v3) v
  let r0 := mul (mul u v3) (pow (mul u v7) ((p - 5) / 8))
  let check := mul v (sq r0)
  let u' := u % p
  let correct := check == u'
  let flipped := check == neg u'
  let flippedI := check == mul (neg u') sqrtM1
  let r1 := if flipped || flippedI then mul r0 sqrtM1 else r0
  (correct || flipped, abs r1)

def ofBytes (b : Bytes) : Nat := (leNat b % 2^255) % p
def toBytes (a : Nat) : Bytes := natLE (a % p) 32
end Fp

namespace Sc
@[inline] def add (a b : Nat) : Nat := (a + b) % L
@[inline] def sub (a b : Nat) : Nat := (a + (L - b % L)) % L
@[inline] def neg (a : Nat) : Nat := (L - a % L) % L
@[inline] def mul (a b : Nat) : Nat := (a * b) % L

def powAux (base : Nat) : Nat → Nat → Nat → Nat
  | 0, _, acc => acc
  | fuel+1, e, acc =>
    if e = 0 then acc else
    let acc' := if e % 2 = 1 then (acc * base) % L else acc
    powAux ((base * base) % L) fuel (e / 2) acc'
def pow (a e : Nat) : Nat := powAux (a % L) 256 e 1
def inv (a : Nat) : Nat := pow a (L - 2)
def toBytes (a : Nat) : Bytes := natLE (a % L) 32
end Sc

end Voi.Spec
