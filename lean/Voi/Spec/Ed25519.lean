/-
Executable specification of Ed25519 (RFC 8032 §5.1) key generation, signing and the
*configured verification predicate* of property C01.  Core Lean only.
-/
import Voi.Spec.Edwards
import Voi.Spec.Sha2
namespace Voi.Spec.Ed25519
open Voi Voi.Spec

/-- the five VerifyOptions flags -/
structure VOpts where
  smallA : Bool
  smallR : Bool
  nonCanA : Bool
  nonCanR : Bool
  cofactorless : Bool
deriving Repr, BEq, DecidableEq, Inhabited

def VOpts.ofBits (n : Nat) : VOpts :=
  ⟨n.testBit 0, n.testBit 1, n.testBit 2, n.testBit 3, n.testBit 4⟩

def VOpts.default : VOpts := ⟨false, true, false, false, false⟩
def VOpts.stdlib : VOpts := ⟨true, true, true, false, true⟩
def VOpts.fips : VOpts := ⟨true, true, false, false, false⟩
def VOpts.zip215 : VOpts := ⟨true, true, true, true, false⟩

/-- dom2 flag: `none` = pure Ed25519, `some 0` = Ed25519ctx, `some 1` = Ed25519ph -/
abbrev Dom := Option UInt8

def dom2Prefix : Bytes := strBytes "SigEd25519 no Ed25519 collisions"

def dom2 (f : Dom) (ctx : Bytes) : Bytes :=
  match f with
  | none => ByteArray.empty
  | some x => dom2Prefix ++ (ByteArray.empty.push x).push (UInt8.ofNat ctx.size) ++ ctx

/-- challenge k = SHA-512(dom2 ‖ R ‖ A ‖ M) mod L -/
def challenge (f : Dom) (ctx rBytes aBytes msg : Bytes) : Nat :=
  leNat (sha512 (dom2 f ctx ++ rBytes ++ aBytes ++ msg)) % L

/-- The specification predicate of C01. `pk` is 32 bytes (other lengths panic in the library
and are handled by the caller of this predicate). -/
def verify (o : VOpts) (f : Dom) (ctx pk msg sig : Bytes) : Bool :=
  if sig.size ≠ 64 then false else
  let rBytes := bslice sig 0 32
  let s := leNat (bslice sig 32 32)
  if !(s < L) then false else
  match Pt.decode pk with
  | none => false
  | some A =>
  if !o.smallA && A.isSmallOrder then false else
  if !o.nonCanA && !Pt.isCanonicalEnc pk then false else
  if !o.nonCanR && !Pt.isCanonicalEnc rBytes then false else
  let k := challenge f ctx rBytes pk msg
  -- [S]B - [k]A
  let sBkA := Pt.sub (Pt.smul s Pt.B) (Pt.smul k A)
  if o.cofactorless then
    (if !o.smallR then
      match Pt.decode rBytes with
      | none => false
      | some R => !R.isSmallOrder
     else true) && beq (Pt.encode sBkA) rBytes
  else
    match Pt.decode rBytes with
    | none => false
    | some R =>
      if !o.smallR && R.isSmallOrder then false else
      (Pt.mul8 (Pt.sub sBkA R)).isZero

/-- Outcome of the option/mode validation done before verification or signing:
`none` = options are invalid (the library panics in Verify, returns an error in Sign),
otherwise the dom2 flag. `hashIsSha512`: opts.Hash = crypto.SHA512, `hashOther`: some other non-zero hash. -/
def modeOf (o : Option VOpts) (ctx : Bytes) (hashIsSha512 hashOther : Bool) (msgLen : Nat) : Option Dom :=
  if (match o with | some v => v.nonCanR && v.cofactorless | none => false) then none else
  if ctx.size > 255 then none else
  let f : Dom := if ctx.size > 0 then some 0 else none
  if hashOther then none else
  if hashIsSha512 then (if msgLen ≠ 64 then none else some (some 1)) else some f

def clamp (h : Bytes) : Nat :=
  let a := leNat (bslice h 0 32)
  -- clear bits 0,1,2 and 255; set bit 254
  ((a % 2^255) / 8 * 8) % 2^254 + 2^254

/-- RFC 8032 §5.1.5 -/
def publicKey (seed : Bytes) : Bytes :=
  let h := sha512 seed
  Pt.encode (Pt.smul (clamp h) Pt.B)

def newKeyFromSeed (seed : Bytes) : Bytes := seed ++ publicKey seed

/-- RFC 8032 §5.1.6 (and Ed25519ctx/ph), with the library's optional added randomness:
r = H(dom2 ‖ [Z] ‖ prefix ‖ [zero padding to a 1024-bit block boundary] ‖ M). `priv` = seed ‖ A. -/
def sign (f : Dom) (ctx : Bytes) (entropy : Option Bytes) (priv msg : Bytes) : Bytes :=
  let seed := bslice priv 0 32
  let aBytes := bslice priv 32 32
  let h := sha512 seed
  let a := clamp h
  let pfx := bslice h 32 32
  let d := dom2 f ctx
  let rIn := match entropy with
    | none => d ++ pfx ++ msg
    | some z => d ++ z ++ pfx ++ bzero (1024 - (d.size + 32 + 32)) ++ msg
  let r := leNat (sha512 rIn) % L
  let rBytes := Pt.encode (Pt.smul r Pt.B)
  let k := leNat (sha512 (d ++ rBytes ++ aBytes ++ msg)) % L
  let s := (r + k * a) % L
  rBytes ++ natLE s 32

end Voi.Spec.Ed25519
