/-
Model of `internal/lattice.FindShortVector` (Pornin 2020, Algorithm 4: Lagrange/Gauss reduction of the
lattice { (d0,d1) : d0 ≡ d1·k (mod L) } with power-of-two multipliers).

The Go code keeps
  * `N_u = ‖u‖²`, `N_v = ‖v‖²`, `p = ⟨u,v⟩` in 512-bit two's-complement integers (pass one) and, once
    `N_u < 2^383` (`SafeToShrink`), in 384-bit ones (pass two);
  * the coordinates `u = (u_0,u_1)`, `v = (v_0,v_1)` truncated to 128 bits (`Int128`; the initial `u_0` is the
    *lower half* of L and `v_0` the lower half of k).
All of `Add`, `AddShifted`, `SubShifted`, `ShiftLimbs`, `Int128.add/sub/shl` are exact modulo 2^512 / 2^384 /
2^128 (bits shifted out at the top are dropped, a shift count that is a multiple of 64 works because Go
defines `x >> 64 = 0`).  So the Go values are the VALUES computed here reduced modulo the word size, and the
places where the Go code reads a value non-modularly (`PositiveLt`, `SafeToShrink`, `BitLen`, `IsNegative`
— all at the loop head — and the two returned `Int128`s) give the mathematical answer exactly when the
value fits.  This model therefore works over unbounded `Int` and *records* (`rangeOk`) whether at every loop
head `0 ≤ N_u, N_v < 2^(w-1)` and `-2^(w-1) ≤ p < 2^(w-1)` for the current width w ∈ {512, 384}; the result
is additionally required to fit a signed 128-bit integer.

Core Lean only.  Structural recursion on a fuel counter (total); `fsvLoop` says whether the exit test fired.

Second half of the file (`namespace Word`): the same function on fixed-width WORDS, statement by statement as
in the Go source, built from one-line arithmetic definitions of the Go primitives (each compared with the
real method by stream L1).  `Voi/Props/LatticeInv.lean` proves the invariant, the decrease of `N_u`,
termination, the result properties and that `rangeOk` never fails; `Voi/Props/LatticeRefine.lean` proves that the
word-level function returns the integer-level result for every `k < 2^255`.
-/
namespace Voi.Model.Lattice

/-- the group order ℓ = 2^252 + 27742317777372353535851937790883648493 -/
def L : Int := 7237005577332262213973186563042994240857116359379907606001950938285454250989

/-- number of bits of a natural number (`0 ↦ 0`) -/
def natBitLen (n : Nat) : Nat := if n = 0 then 0 else Nat.log2 n + 1

/-- `int512.BitLen` / `int384.BitLen`: minimal two's-complement size excluding the sign bit.
    For x ≥ 0 the bit length of x; for x < 0 the bit length of `~x = -x-1` (so `-1 ↦ 0`, `-2 ↦ 1`, `-2^n ↦ n`). -/
def bitLen : Int → Nat
  | .ofNat n => natBitLen n
  | .negSucc n => natBitLen n

/-- `x << n` on unbounded integers -/
def shl (x : Int) (n : Nat) : Int := x * ((2 ^ n : Nat) : Int)

structure State where
  nu : Int
  nv : Int
  p  : Int
  u0 : Int
  u1 : Int
  v0 : Int
  v1 : Int
  /-- still in pass one (512-bit integers) -/
  wide : Bool := true
  /-- every range assertion so far held -/
  rangeOk : Bool := true
  /-- number of reduction steps performed -/
  iters : Nat := 0
deriving Repr

/-- the target bit length of `N_v`: `const T = 254 // len(ell) + 1` -/
def T : Nat := 254

/-- `N_u = ℓ²`, `N_v = k² + 1`, `p = ℓ·k`, `u = (ℓ, 0)`, `v = (k, 1)` -/
def init (k : Nat) : State :=
  { nu := L * L, nv := (k : Int) * k + 1, p := L * k, u0 := L, u1 := 0, v0 := k, v1 := 1 }

/-- `if N_u.PositiveLt(N_v) { swap u v; swap N_u N_v }` -/
def swap (st : State) : State :=
  if st.nu < st.nv then
    { st with nu := st.nv, nv := st.nu, u0 := st.v0, u1 := st.v1, v0 := st.u0, v1 := st.u1 }
  else st

/-- the three big integers fit `w`-bit two's complement with `N_u`, `N_v` non-negative -/
def fits (w : Nat) (st : State) : Bool :=
  let b : Int := ((2 ^ (w - 1) : Nat) : Int)
  decide (0 ≤ st.nu) && decide (st.nu < b) && decide (0 ≤ st.nv) && decide (st.nv < b) &&
  decide (-b ≤ st.p) && decide (st.p < b)

/-- `N_u.SafeToShrink()` on a value that fits 512 bits: limbs 6, 7 and bit 383 are zero -/
def safeToShrink (st : State) : Bool := decide (st.nu < ((2 ^ 383 : Nat) : Int))

/-- pass switch (`if N_u_512.SafeToShrink() { break }` followed by `FromInt512` truncations) and the range
    assertion for the width now in force. -/
def narrow (st : State) : State :=
  let wide' := st.wide && !safeToShrink st
  { st with wide := wide', rangeOk := st.rangeOk && fits (if wide' then 512 else 384) st }

/-- `len_N_v <= T` -/
def exitNow (st : State) : Bool := decide (bitLen st.nv ≤ T)

/-- `s = len_p - len_N_v` if `len_p > len_N_v`, else 0 (truncated subtraction) -/
def shiftAmt (st : State) : Nat := bitLen st.p - bitLen st.nv

/-- one reduction step; every right-hand side refers to the OLD values, as in the Go code
    (`N_u` is updated from the old `p`, then `p`). -/
def update (st : State) : State :=
  let s := shiftAmt st
  if 0 ≤ st.p then
    { st with
      u0 := st.u0 - shl st.v0 s
      u1 := st.u1 - shl st.v1 s
      nu := st.nu + shl st.nv (2 * s) - shl st.p (s + 1)
      p  := st.p - shl st.nv s
      iters := st.iters + 1 }
  else
    { st with
      u0 := st.u0 + shl st.v0 s
      u1 := st.u1 + shl st.v1 s
      nu := st.nu + shl st.nv (2 * s) + shl st.p (s + 1)
      p  := st.p + shl st.nv s
      iters := st.iters + 1 }

/-- the loop of both passes; `true` = the exit test fired, `false` = fuel ran out -/
def fsvLoop : Nat → State → State × Bool
  | 0, st => (st, false)
  | fuel + 1, st =>
    let st' := narrow (swap st)
    if exitNow st' then (st', true) else fsvLoop fuel (update st')

def fuel : Nat := 4096

def fsvRun (k : Nat) : State × Bool := fsvLoop fuel (init k)

/-- the returned pair `(v_0, v_1) = (d_0, d_1)` as mathematical integers -/
def fsv (k : Nat) : Int × Int := ((fsvRun k).1.v0, (fsvRun k).1.v1)

/-- fits a signed 128-bit integer (`Int128`) -/
def fitsI128 (x : Int) : Bool :=
  decide (-((2 ^ 127 : Nat) : Int) ≤ x) && decide (x < ((2 ^ 127 : Nat) : Int))

inductive Outcome where
  | ok (d0 d1 : Int) (iters : Nat)
  | rangeViolation
  | fuelExhausted
deriving Repr, DecidableEq

/-- result of the fixed-width algorithm: defined only if no range assertion failed -/
def fsvChecked (k : Nat) : Outcome :=
  let r := fsvRun k
  if !r.2 then .fuelExhausted
  else if r.1.rangeOk && fitsI128 r.1.v0 && fitsI128 r.1.v1 then .ok r.1.v0 r.1.v1 r.1.iters
  else .rangeViolation

end Voi.Model.Lattice

/-! ## Reference semantics of the fixed-width primitives (`big_int.go`, `int128.go`)

A `w`-bit word is given by its unsigned value `n < 2^w`; every operation is plain integer arithmetic followed
by reduction modulo `2^w`.  These are the facts about the Go primitives that the value-level model above relies
on; stream L1 compares them with the real methods (all shift counts, including multiples of 64 and counts
≥ the width). -/
namespace Voi.Model.Lattice.Word

/-- signed (two's-complement) value of the `w`-bit word with unsigned value `n` -/
def sval (w n : Nat) : Int := if n < 2 ^ (w - 1) then (n : Int) else (n : Int) - ((2 ^ w : Nat) : Int)

/-- the `w`-bit word (unsigned value) representing `x` modulo `2^w` -/
def wrap (w : Nat) (x : Int) : Nat := (x % ((2 ^ w : Nat) : Int)).toNat

/-- `BitLen` -/
def bitLenW (w n : Nat) : Nat := bitLen (sval w n)
/-- `IsNegative`: the sign bit -/
def isNeg (w n : Nat) : Bool := decide (sval w n < 0)
/-- `PositiveLt`: the borrow of `x - y`, i.e. the unsigned comparison -/
def positiveLt (x y : Nat) : Bool := decide (x < y)
/-- `int512.SafeToShrink`: limbs 6, 7 and bit 383 are zero -/
def safeToShrinkW (n : Nat) : Bool := decide (n < 2 ^ 383)
/-- `AddShifted`: `a + (b << s)` -/
def addShifted (w a b s : Nat) : Nat := wrap w ((a : Int) + shl b s)
/-- `SubShifted`: `a - (b << s)` -/
def subShifted (w a b s : Nat) : Nat := wrap w ((a : Int) - shl b s)
/-- `int384.FromInt512`: the low 384 bits -/
def fromInt512 (n : Nat) : Nat := n % 2 ^ 384
/-- `int512.Mul` of two scalars (`< 2^256`, so the product fits) -/
def mulW (a b : Nat) : Nat := wrap 512 ((a : Int) * b)
/-- `Int128.shl` -/
def i128Shl (x n : Nat) : Nat := wrap 128 (shl x n)
/-- `Int128.add` -/
def i128Add (x y : Nat) : Nat := wrap 128 ((x : Int) + y)
/-- `Int128.sub` -/
def i128Sub (x y : Nat) : Nat := wrap 128 ((x : Int) - y)

/-! ### `FindShortVector` on words, statement by statement

One loop with a `wide` flag instead of the two textual copies: an iteration of pass one that finds
`SafeToShrink` converts the three integers (`FromInt512`) and continues with the body of pass two from its top
(the repeated `PositiveLt` test included). -/

structure WState where
  nu : Nat
  nv : Nat
  p  : Nat
  u0 : Nat
  u1 : Nat
  v0 : Nat
  v1 : Nat
  wide : Bool := true
deriving Repr

def width (ws : WState) : Nat := if ws.wide then 512 else 384

/-- `N_u = ellSquared()`, `N_v = Mul(k,k) + 1`, `p = Mul(ell, k)`, `u = (ELL_LOWER_HALF, 0)`,
    `v = (newInt128FromScalar(k), 1)` -/
def initW (k : Nat) : WState :=
  { nu := wrap 512 (L * L), nv := addShifted 512 (mulW k k) 1 0, p := mulW L.toNat k,
    u0 := wrap 128 L, u1 := 0, v0 := wrap 128 k, v1 := 1 }

def swapW (ws : WState) : WState :=
  if positiveLt ws.nu ws.nv then
    { ws with nu := ws.nv, nv := ws.nu, u0 := ws.v0, u1 := ws.v1, v0 := ws.u0, v1 := ws.u1 }
  else ws

def toNarrow (ws : WState) : WState :=
  { ws with nu := fromInt512 ws.nu, nv := fromInt512 ws.nv, p := fromInt512 ws.p, wide := false }

def updateW (ws : WState) : WState :=
  let w := width ws
  let s := bitLenW w ws.p - bitLenW w ws.nv
  if !isNeg w ws.p then
    { ws with
      u0 := i128Sub ws.u0 (i128Shl ws.v0 s)
      u1 := i128Sub ws.u1 (i128Shl ws.v1 s)
      nu := subShifted w (addShifted w ws.nu ws.nv (2 * s)) ws.p (s + 1)
      p  := subShifted w ws.p ws.nv s }
  else
    { ws with
      u0 := i128Add ws.u0 (i128Shl ws.v0 s)
      u1 := i128Add ws.u1 (i128Shl ws.v1 s)
      nu := addShifted w (addShifted w ws.nu ws.nv (2 * s)) ws.p (s + 1)
      p  := addShifted w ws.p ws.nv s }

/-- loop head: swap; in pass one, if `SafeToShrink` then convert and redo the swap test on the 384-bit words -/
def headW (ws : WState) : WState :=
  let ws1 := swapW ws
  if ws1.wide && safeToShrinkW ws1.nu then swapW (toNarrow ws1) else ws1

def fsvLoopW : Nat → WState → WState × Bool
  | 0, ws => (ws, false)
  | fuel + 1, ws =>
    let ws' := headW ws
    if decide (bitLenW (width ws') ws'.nv ≤ T) then (ws', true) else fsvLoopW fuel (updateW ws')

/-- the two returned `Int128`s as signed integers; `none` if the fuel ran out -/
def fsvW (k : Nat) : Option (Int × Int) :=
  let r := fsvLoopW fuel (initW k)
  if r.2 then some (sval 128 r.1.v0, sval 128 r.1.v1) else none

end Voi.Model.Lattice.Word
