/-
Total models of every exported byte-taking entry point of curve25519-voi (property C19:
"untrusted input never panics or leaves partial state").

For every API there is ONE total function from its byte-string arguments (of ANY length) to an
`Outcome`.  An `Outcome` says how the Go function ends —

  * `ok data`      returns normally (no error); `data` = the returned value(s), or — for a method with a
                   receiver — the serialisation of the receiver after the call;
  * `boolean b`    returns a verdict;
  * `err rcv`      returns an error (or `nil, false`); `rcv` = the serialisation of the receiver after the
                   failed call when the API has a receiver (`none` for plain functions);
  * `panicDoc`     the *documented* panic of the entry point (wrong public-key / seed / private-key length,
                   nil options, invalid options in the panicking verification entry points, mismatched slice
                   lengths, invalid recoding width, a length above 2^32 − 1 in Merlin);
  * `fault`        an internal failure of the STROBE model under Merlin (index out of range, use of a
                   finalised builder): never produced — `Props/TotalInv.lean` proves it from
                   `Props/StrobeInv.lean`.  It is rendered as `model-fault`, which no Go reply equals.

There is NO constructor for a Go *runtime* panic: a model that could predict one cannot be written down.
The only exception are the two known findings D4 (`x25519.EdPrivateKeyToX25519`) and D5
(`ed25519.PrivateKey.Public/Seed`), which take the caller's own private key and slice it without a length
check; their models return a `KOutcome`, the only type that has `panicRuntime`.

Content-dependent results are NOT re-specified here: they come from the existing Spec modules
(`Spec.Edwards`, `Spec.Ristretto`, `Spec.Montgomery`, `Spec.Ed25519`, `Spec.ECVRF`, `Spec.Sr25519`,
`Spec.X25519`, `Spec.H2C`, `Spec.Merlin`).  What this file adds is the *shell*: length checks, the order of
checks where it decides between panic / error / false, and the state of the receiver afterwards.

Receivers.  The decoders fall in two families (read off the Go source, compared by stream P1):
  * `UnmarshalBinary` of points, compressed points and the sr25519 `PublicKey` / `Signature` / `KeyPair`
    RESET the receiver first ("foot + gun avoidance"): after a failure it holds the neutral value
    (identity encoding, all-zero key, zero signature with the schnorrkel marker);
  * `SetBytes` / `SetBits` / `SetCanonicalBytes` / `SetBytesModOrder(Wide)` / `SetCompressed(Y)` /
    `SetMontgomery` / `SetUniformBytes`, `Scalar.UnmarshalBinary`, sr25519 `SecretKey` / `MiniSecretKey`
    `UnmarshalBinary` and `Scalar.ToBytes(out)` do not touch the destination unless they succeed: after a
    failure it holds what it held before (`rcv0`).
Core Lean only.
-/
import Voi.Spec.Ed25519
import Voi.Spec.Ristretto
import Voi.Spec.Montgomery
import Voi.Spec.X25519
import Voi.Spec.ECVRF
import Voi.Spec.H2C
import Voi.Spec.Merlin
import Voi.Spec.Sr25519
namespace Voi.Model.Total
open Voi Voi.Spec

inductive Outcome where
  | ok (data : List Bytes)
  | boolean (b : Bool)
  | err (rcv : Option Bytes)
  | panicDoc
  | fault
  deriving Inhabited

/-- the outcome type of the two known-finding classes D4 / D5 only -/
inductive KOutcome where
  | normal (o : Outcome)
  | panicRuntime
  deriving Inhabited

def Outcome.isErr : Outcome → Bool
  | .err _ => true
  | _ => false

def Outcome.isPanicDoc : Outcome → Bool
  | .panicDoc => true
  | _ => false

def Outcome.isFault : Outcome → Bool
  | .fault => true
  | _ => false

def KOutcome.isPanicRuntime : KOutcome → Bool
  | .panicRuntime => true
  | _ => false

/-! ## the two decoder shells -/

/-- a decoding METHOD: `len` = the only accepted length, `fail` = what the receiver holds after a failed
call, `dec` = the content check and the receiver's serialisation after success -/
def recvDecode (len : Nat) (fail : Bytes) (dec : Bytes → Option Bytes) (b : Bytes) : Outcome :=
  if b.size ≠ len then .err (some fail) else
  match dec b with
  | some r => .ok [r]
  | none => .err (some fail)

/-- a decoding FUNCTION (`New…FromBytes`): nothing is left behind on failure (`nil, err`) -/
def newDecode (len : Nat) (dec : Bytes → Option Bytes) (b : Bytes) : Outcome :=
  if b.size ≠ len then .err none else
  match dec b with
  | some r => .ok [r]
  | none => .err none

def ofOption (r : Option Bytes) : Outcome :=
  match r with
  | some x => .ok [x]
  | none => .err none

/-! ## package curve -/

/-- encoding of the Edwards identity (0, 1): what `Identity()` / a failed `UnmarshalBinary` leaves -/
def edIdentity : Bytes := Pt.zero.encode
/-- encoding of the ristretto255 identity -/
def ristIdentity : Bytes := bzero 32

/-- the input if it decodes (`CompressedEdwardsY` keeps the bytes verbatim) -/
def edKeep (b : Bytes) : Option Bytes := (Pt.decode b).map fun _ => b
/-- canonical re-encoding of the decoded point (`EdwardsPoint.MarshalBinary`) -/
def edReencode (b : Bytes) : Option Bytes := (Pt.decode b).map Pt.encode
def ristKeep (b : Bytes) : Option Bytes := (Ristretto.decode b).map fun _ => b
def ristReencode (b : Bytes) : Option Bytes := (Ristretto.decode b).map Ristretto.encode

/-- `(*CompressedEdwardsY).SetBytes` -/
def ceySetBytes (rcv0 b : Bytes) : Outcome := recvDecode 32 rcv0 some b
/-- `(*CompressedEdwardsY).UnmarshalBinary` -/
def ceyUnmarshal (b : Bytes) : Outcome := recvDecode 32 edIdentity edKeep b
/-- `NewCompressedEdwardsYFromBytes` -/
def ceyNew (b : Bytes) : Outcome := newDecode 32 some b
/-- `(*EdwardsPoint).UnmarshalBinary` -/
def epUnmarshal (b : Bytes) : Outcome := recvDecode 32 edIdentity edReencode b
/-- `(*EdwardsPoint).SetCompressedY` (the Go type fixes the length at 32) -/
def epSetCompressed (rcv0 b : Bytes) : Outcome := recvDecode 32 rcv0 edReencode b
/-- `(*EdwardsPoint).SetMontgomery(u, sign)`: only bit 0 of `sign` survives `sign << 7` on a uint8 -/
def epSetMontgomery (rcv0 u : Bytes) (sign : Nat) : Outcome :=
  recvDecode 32 rcv0 (fun u => (Montgomery.toEdwards (Fp.ofBytes u) (sign % 2 = 1)).map Pt.encode) u
/-- `(*CompressedRistretto).SetBytes` -/
def crSetBytes (rcv0 b : Bytes) : Outcome := recvDecode 32 rcv0 some b
/-- `(*CompressedRistretto).UnmarshalBinary` -/
def crUnmarshal (b : Bytes) : Outcome := recvDecode 32 ristIdentity ristKeep b
/-- `(*RistrettoPoint).UnmarshalBinary` -/
def rpUnmarshal (b : Bytes) : Outcome := recvDecode 32 ristIdentity ristReencode b
/-- `(*RistrettoPoint).SetCompressed` -/
def rpSetCompressed (rcv0 b : Bytes) : Outcome := recvDecode 32 rcv0 ristReencode b
/-- `(*RistrettoPoint).SetUniformBytes` -/
def rpSetUniform (rcv0 b : Bytes) : Outcome :=
  recvDecode 64 rcv0 (fun b => (Ristretto.fromUniformBytes b).map Ristretto.encode) b
/-- `(*MontgomeryPoint).SetBytes` -/
def mpSetBytes (rcv0 b : Bytes) : Outcome := recvDecode 32 rcv0 some b
/-- `(*MontgomeryPoint).Mul(point, scalar)` with the scalar built by `SetBits` (bit 255 masked, no clamping) -/
def mpMul (u s : Bytes) : Outcome :=
  .ok [X25519.encodeUCoordinate (X25519.x25519Nat (leNat s % 2^255) (X25519.decodeUCoordinate u))]

/-! ## package curve/scalar -/

def scReduce (b : Bytes) : Option Bytes := some (natLE (leNat b % L) 32)
def scBits (b : Bytes) : Option Bytes := some (natLE (leNat b % 2^255) 32)
/-- canonical: the value is below L (which also forces bit 255 — and bits 253, 254 — to be clear) -/
def scCanonical (b : Bytes) : Option Bytes := if leNat b < L then some b else none

def scSetModOrder (rcv0 b : Bytes) : Outcome := recvDecode 32 rcv0 scReduce b
def scSetWide (rcv0 b : Bytes) : Outcome := recvDecode 64 rcv0 scReduce b
def scSetCanonical (rcv0 b : Bytes) : Outcome := recvDecode 32 rcv0 scCanonical b
def scSetBits (rcv0 b : Bytes) : Outcome := recvDecode 32 rcv0 scBits b
def scUnmarshal (rcv0 b : Bytes) : Outcome := recvDecode 32 rcv0 scCanonical b
def scNewModOrder (b : Bytes) : Outcome := newDecode 32 scReduce b
def scNewWide (b : Bytes) : Outcome := newDecode 64 scReduce b
def scNewCanonical (b : Bytes) : Outcome := newDecode 32 scCanonical b
def scNewBits (b : Bytes) : Outcome := newDecode 32 scBits b
/-- `ScMinimalVartime` -/
def scMinimal (b : Bytes) : Outcome := .boolean (b.size == 32 && decide (leNat b < L))
/-- `(*Scalar).ToBytes(out)`: the DESTINATION plays the receiver's role — untouched unless it has 32 bytes -/
def scToBytes (scalar out : Bytes) : Outcome := recvDecode 32 out (fun _ => some scalar) out
/-- `NonAdjacentForm(w)`: documented panic unless 2 ≤ w ≤ 8 (the digits are stream R1's business) -/
def scNaf (w : Nat) : Outcome := if w < 2 ∨ w > 8 then .panicDoc else .ok []
/-- `ToRadix2wSizeHint(w)` -/
def scRadixHint (w : Nat) : Outcome :=
  if w = 6 ∨ w = 7 then .ok [natLE ((256 + w - 1) / w) 1]
  else if w = 8 then .ok [natLE ((256 + w - 1) / w + 1) 1]
  else .panicDoc
/-- `ToRadix2w(w)` -/
def scRadix2w (w : Nat) : Outcome := if w = 6 ∨ w = 7 ∨ w = 8 then .ok [] else .panicDoc

/-! ## multiscalar multiplication: the documented panic on mismatched slice lengths
operands of the test: scalars[i] = i + 1, points[i] = (i + 2)·B -/

def msmK : Nat → Nat
  | 0 => 0
  | n+1 => msmK n + (n + 1) * (n + 2)

def msmEd (ns np : Nat) : Outcome :=
  if ns ≠ np then .panicDoc else .ok [(Pt.smul (msmK ns) Pt.B).encode]
def msmEdx (ns np ds dp : Nat) : Outcome :=
  if ns ≠ np ∨ ds ≠ dp then .panicDoc else .ok [(Pt.smul (msmK ns + msmK ds) Pt.B).encode]
def msmRist (ns np : Nat) : Outcome :=
  if ns ≠ np then .panicDoc else .ok [Ristretto.encode (Ristretto.smul (msmK ns) Ristretto.B)]
def msmRistx (ns np ds dp : Nat) : Outcome :=
  if ns ≠ np ∨ ds ≠ dp then .panicDoc else .ok [Ristretto.encode (Ristretto.smul (msmK ns + msmK ds) Ristretto.B)]

/-! ## primitives/ed25519 -/

/-- `*ed25519.Options` as far as verification and signing look at it -/
structure EdOptions where
  verify : Option Ed25519.VOpts   -- Options.Verify; nil = library default
  hash512 : Bool                   -- Options.Hash = crypto.SHA512
  hashOther : Bool                 -- Options.Hash is some other non-zero hash
  ctx : Bytes                      -- Options.Context
  deriving Inhabited

def edDefault : EdOptions := ⟨none, false, false, ByteArray.empty⟩

/-- `opts.verify()` followed by `checkHash`: `none` = the options are rejected -/
def edMode (o : EdOptions) (msgLen : Nat) : Option Ed25519.Dom :=
  Ed25519.modeOf o.verify o.ctx o.hash512 o.hashOther msgLen

def edVOpts (o : EdOptions) : Ed25519.VOpts := o.verify.getD Ed25519.VOpts.default

/-- `VerifyWithOptions`; `o = none` is a nil `*Options`.  Panics (documented): public key not 32 bytes, nil
options, options rejected.  The public-key length is looked at first. -/
def edVerifyWithOptions (o : Option EdOptions) (pk msg sig : Bytes) : Outcome :=
  if pk.size ≠ 32 then .panicDoc else
  match o with
  | none => .panicDoc
  | some o =>
    match edMode o msg.size with
    | none => .panicDoc
    | some f => .boolean (Ed25519.verify (edVOpts o) f o.ctx pk msg sig)

/-- `Verify` -/
def edVerify (pk msg sig : Bytes) : Outcome := edVerifyWithOptions (some edDefault) pk msg sig

/-- `NewExpandedPublicKey`: succeeds iff the key decodes; `CompressedY()` gives the input back -/
def edNewExpanded (pk : Bytes) : Outcome := newDecode 32 edKeep pk

/-- `NewExpandedPublicKey(pk)` then `VerifyExpandedWithOptions`: an error if the key does not expand (there is
then nothing to verify with), otherwise as `VerifyWithOptions` -/
def edVerifyExpandedWithOptions (o : Option EdOptions) (pk msg sig : Bytes) : Outcome :=
  match Pt.decode pk with
  | none => .err none
  | some _ =>
    match o with
    | none => .panicDoc
    | some o =>
      match edMode o msg.size with
      | none => .panicDoc
      | some f => .boolean (Ed25519.verify (edVOpts o) f o.ctx pk msg sig)

def edVerifyExpanded (pk msg sig : Bytes) : Outcome := edVerifyExpandedWithOptions (some edDefault) pk msg sig

/-- A batch of ONE entry added with `Add` / `AddWithOptions` / `AddExpanded(WithOptions)` (a key that does not
expand is handed over as the nil `*ExpandedPublicKey`) and then `Verify`: the batch API never panics on
malformed keys, signatures or options — the entry is marked invalid — except for nil options. -/
def edBatchEntry (o : Option EdOptions) (pk msg sig : Bytes) : Outcome :=
  match o with
  | none => .panicDoc
  | some o =>
    match edMode o msg.size with
    | none => .boolean false
    | some f => .boolean (Ed25519.verify (edVOpts o) f o.ctx pk msg sig)

/-- `cache.Verifier.VerifyWithOptions`: a key that does not expand is `false` BEFORE the options are looked at -/
def cacheVerifyWithOptions (o : Option EdOptions) (pk msg sig : Bytes) : Outcome :=
  match Pt.decode pk with
  | none => .boolean false
  | some _ =>
    match o with
    | none => .panicDoc
    | some o =>
      match edMode o msg.size with
      | none => .panicDoc
      | some f => .boolean (Ed25519.verify (edVOpts o) f o.ctx pk msg sig)

def cacheVerify (pk msg sig : Bytes) : Outcome := cacheVerifyWithOptions (some edDefault) pk msg sig
/-- `cache.Verifier.Add(WithOptions)` into an empty batch, then `Verify` -/
def cacheAdd (o : Option EdOptions) (pk msg sig : Bytes) : Outcome := edBatchEntry o pk msg sig
/-- `cache.Verifier.AddPublicKey`: never fails; reported: is the key in the cache afterwards (01 / 00) -/
def cacheAddPk (pk : Bytes) : Outcome := .ok [natLE (if (Pt.decode pk).isSome then 1 else 0) 1]

/-- `NewKeyFromSeed` -/
def edNewKey (seed : Bytes) : Outcome :=
  if seed.size ≠ 32 then .panicDoc else .ok [Ed25519.newKeyFromSeed seed]

/-- `PrivateKey.Sign(nil, msg, opts)` without added randomness; `o = none` is a nil `crypto.SignerOpts`
(documented panic); a `crypto.Hash` used as SignerOpts is `Options` with only the hash set -/
def edPkSign (o : Option EdOptions) (sk msg : Bytes) : Outcome :=
  match o with
  | none => .panicDoc
  | some o =>
    match edMode o msg.size with
    | none => .err none
    | some f => if sk.size ≠ 64 then .err none else .ok [Ed25519.sign f o.ctx none sk msg]

/-- `Sign(privateKey, msg)`: the error of `PrivateKey.Sign` becomes the documented panic -/
def edSign (sk msg : Bytes) : Outcome :=
  if sk.size ≠ 64 then .panicDoc else .ok [Ed25519.sign none ByteArray.empty none sk msg]

/-- `PublicKey.Equal` / `PrivateKey.Equal` -/
def edKeyEqual (a b : Bytes) : Outcome := .boolean (beq a b)

def padTo (n : Nat) (b : Bytes) : Bytes := b ++ bzero (n - b.size)

/-- D5: `PrivateKey.Public()` = `copy(make(32), priv[32:])`; slicing panics below 32 bytes -/
def d5Public (sk : Bytes) : KOutcome :=
  if sk.size < 32 then .panicRuntime else .normal (.ok [padTo 32 (bslice sk 32 32)])
/-- D5: `PrivateKey.Seed()` = `copy(make(32), priv[:32])` -/
def d5Seed (sk : Bytes) : KOutcome :=
  if sk.size < 32 then .panicRuntime else .normal (.ok [bslice sk 0 32])

/-! ## extra/ecvrf -/

/-- `Prove` / `Prove_v10`: `panic(err)` on the only error there is, a private key that is not 64 bytes -/
def vrfProve (withY : Bool) (sk alpha : Bytes) : Outcome :=
  if sk.size ≠ 64 then .panicDoc else
  match ECVRF.prove withY none sk alpha with
  | some pi => .ok [pi]
  | none => .panicDoc

/-- `ProveWithAddedRandomness(_v10)`; `entropy` = what the reader yields -/
def vrfProveRnd (withY : Bool) (sk alpha entropy : Bytes) : Outcome :=
  if sk.size ≠ 64 then .err none else
  if entropy.size < 32 then .err none else
  ofOption (ECVRF.prove withY (some (bslice entropy 0 32)) sk alpha)

/-- `Verify` / `Verify_v10` : `(true, beta)` or `(false, nil)` -/
def vrfVerify (withY : Bool) (pk pi alpha : Bytes) : Outcome :=
  match ECVRF.verify withY pk pi alpha with
  | some beta => .ok [beta]
  | none => .boolean false

/-- `ProofToHash` -/
def vrfHash (pi : Bytes) : Outcome :=
  if pi.size ≠ 80 then .err none else ofOption (ECVRF.proofToHash pi)

/-! ## primitives/sr25519 -/

open Voi.Spec.Sr25519 in
/-- an `UnmarshalBinary` method: `unm old b` = (receiver afterwards, success) -/
def srRecv {α : Type} (unm : Option α → Bytes → Option α × Bool) (marshal : Option α → Bytes)
    (old : Option α) (b : Bytes) : Outcome :=
  let r := unm old b
  if r.2 then .ok [marshal r.1] else .err (some (marshal r.1))

section
open Voi.Spec.Sr25519
def srSigUnmarshal (old : Option Signature) (b : Bytes) : Outcome :=
  if b.size ≠ 64 then .err (some (marshalSignature none)) else srRecv Signature.unmarshalInto marshalSignature old b
def srPkUnmarshal (old : Option PublicKey) (b : Bytes) : Outcome :=
  if b.size ≠ 32 then .err (some (marshalPublicKey none)) else srRecv PublicKey.unmarshalInto marshalPublicKey old b
def srSkUnmarshal (old : Option SecretKey) (b : Bytes) : Outcome :=
  if b.size ≠ 64 then .err (some (marshalSecretKey old)) else srRecv SecretKey.unmarshalInto marshalSecretKey old b
def srKpUnmarshal (old : Option KeyPair) (b : Bytes) : Outcome :=
  if b.size ≠ 96 then .err (some (marshalKeyPair none)) else srRecv KeyPair.unmarshalInto marshalKeyPair old b
def srMskUnmarshal (old : Option Bytes) (b : Bytes) : Outcome :=
  if b.size ≠ 32 then .err (some (marshalMiniSecretKey old)) else srRecv MiniSecretKey.unmarshalInto marshalMiniSecretKey old b

def srSigNew (b : Bytes) : Outcome :=
  if b.size ≠ 64 then .err none else ofOption ((decodeSignature b).map Signature.marshal)
def srPkNew (b : Bytes) : Outcome :=
  if b.size ≠ 32 then .err none else ofOption ((decodePublicKey b).map PublicKey.marshal)
def srSkNew (b : Bytes) : Outcome :=
  if b.size ≠ 64 then .err none else ofOption ((decodeSecretKey b).map SecretKey.marshal)
def srSkEdNew (b : Bytes) : Outcome :=
  if b.size ≠ 64 then .err none else ofOption ((secretKeyFromEd25519Bytes b).map SecretKey.marshal)
def srKpNew (b : Bytes) : Outcome :=
  if b.size ≠ 96 then .err none else ofOption ((decodeKeyPair b).map KeyPair.marshal)
def srMskNew (b : Bytes) : Outcome :=
  if b.size ≠ 32 then .err none else ofOption (decodeMiniSecretKey b)

/-- outcome of a Merlin-level failure -/
def ofMErr : Merlin.MErr → Outcome
  | .tooLong => .panicDoc      -- explicit panic: a length exceeds 2^32 − 1
  | .entropy => .err none      -- error return of Finalize
  | .strobe _ => .fault
  | .nilBuilder => .fault

def ofSrErr : SrErr → Outcome
  | .merlin e => ofMErr e
  | .hashSize => .panicDoc
  | .xofShort => .panicDoc
  | .batchRng => .panicDoc

/-- `NewSigningContext(ctx).NewTranscriptBytes(msg)`, then `pk.Verify(t, &sig)` where `pk` and `sig` are
zero-value receivers that `UnmarshalBinary` was called on WITHOUT looking at the error: after a failed decode
they hold the zero value, and `Verify` answers false. -/
def srVerify (ctx msg pk sig : Bytes) : Outcome :=
  let pk' := (PublicKey.unmarshalInto none pk).1
  let sig' := (Signature.unmarshalInto none sig).1
  match newSigningContext ctx with
  | .error e => ofMErr e
  | .ok sc =>
    match newTranscriptBytes sc msg with
    | .error e => ofSrErr e
    | .ok t =>
      match verifyRecv pk' t sig' with
      | .error e => ofMErr e
      | .ok b => .boolean b
end

/-! ## primitives/x25519 -/

/-- `X25519(scalar, point)` -/
def xX25519 (k u : Bytes) : Outcome := ofOption (X25519.x25519Checked k u)
/-- `X25519(scalar, Basepoint)` (the package-level slice: the fixed-base path, no all-zero check) -/
def xX25519Base (k : Bytes) : Outcome :=
  if k.size ≠ 32 then .err none else .ok [X25519.scalarBaseMult k]
/-- `ScalarMult(dst, in, base)` on arrays -/
def xScalarMult (k u : Bytes) : Outcome := .ok [X25519.x25519 k u]
/-- `ScalarBaseMult(dst, in)` / `PrivateKey.Public()` -/
def xScalarBaseMult (k : Bytes) : Outcome := .ok [X25519.scalarBaseMult k]
/-- `PrivateKey.DiffieHellman(pub)` and `SharedSecret.IsZero()` -/
def xDh (k u : Bytes) : Outcome :=
  let ss := X25519.x25519 k u
  .ok [ss, natLE (if beq ss (bzero 32) then 1 else 0) 1]
/-- `EdPublicKeyToX25519`: `(u, true)` or `(nil, false)` -/
def xEdPub (pk : Bytes) : Outcome :=
  match X25519.edPubToX25519 pk with
  | some u => .ok [u]
  | none => .boolean false
/-- D4: `EdPrivateKeyToX25519` hashes `privateKey[:32]`; slicing panics below 32 bytes -/
def d4EdPriv (sk : Bytes) : KOutcome :=
  if sk.size < 32 then .panicRuntime else .normal (.ok [X25519.edPrivToX25519 sk])

/-! ## primitives/h2c -/

/-- `ExpandMessageXMD(out, h, dst, msg)` with `len(out) = n` -/
def h2cXmd (h : H2C.HashFn) (dst msg : Bytes) (n : Nat) : Outcome := ofOption (H2C.xmd h msg dst n)
/-- `ExpandMessageXOF(out, x, dst, msg)` -/
def h2cXof (X : H2C.XofFn) (dst msg : Bytes) (n : Nat) : Outcome := ofOption (H2C.xof X msg dst n)
/-- the Edwards suites, random-oracle and non-uniform -/
def h2cRO (ex : H2C.Expander) (dst msg : Bytes) : Outcome := ofOption ((H2C.hashToCurve ex msg dst).map Pt.encode)
def h2cNU (ex : H2C.Expander) (dst msg : Bytes) : Outcome := ofOption ((H2C.encodeToCurve ex msg dst).map Pt.encode)
/-- the ristretto255 suites -/
def h2cRist (ex : H2C.Expander) (dst msg : Bytes) : Outcome := ofOption (H2C.hashToRistretto255 ex msg dst)

/-! ## primitives/merlin -/

section
open Voi.Spec.Merlin
open Voi.Spec.Sr25519 (ofL toL)

/-- `NewTranscript(app); AppendMessage(label, msg); ExtractBytes(dest[:n], elabel)` → dest -/
def mSeq (app label msg elabel : List UInt8) (n : Nat) : Outcome :=
  match newTranscript app with
  | .error e => ofMErr e
  | .ok t =>
    match appendMessage t label msg with
    | .error e => ofMErr e
    | .ok t =>
      match extractBytes t elabel n with
      | .error e => ofMErr e
      | .ok (_, out) => .ok [ofL out]

/-- `NewTranscript(app).BuildRng().RekeyWithWitnessBytes(wlabel, witness).Finalize(reader over entropy)`,
then one `Read` of `n` bytes -/
def mRng (app wlabel witness entropy : List UInt8) (n : Nat) : Outcome :=
  match newTranscript app with
  | .error e => ofMErr e
  | .ok t =>
    match rekeyWithWitnessBytes (buildRng t) wlabel witness with
    | .error e => ofMErr e
    | .ok rb =>
      match finalize rb entropy with
      | .error e => ofMErr e
      | .ok (_, rng) =>
        match rng.read n with
        | .error e => ofMErr e
        | .ok (_, out) => .ok [ofL out]
end

/-! ## anchors: the neutral values as byte strings -/
#guard edIdentity == ofHex! "0100000000000000000000000000000000000000000000000000000000000000"
#guard ristIdentity == ofHex! "0000000000000000000000000000000000000000000000000000000000000000"
#guard Ristretto.encode Ristretto.identity == ristIdentity
#guard Sr25519.marshalPublicKey none == bzero 32
#guard Sr25519.marshalKeyPair none == bzero 96
#guard Sr25519.marshalSignature none == bzero 63 ++ (ByteArray.empty.push 128)
#guard msmK 3 == 1 * 2 + 2 * 3 + 3 * 4

end Voi.Model.Total
