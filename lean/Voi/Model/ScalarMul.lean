/-
Code-shaped models of the scalar-multiplication algorithms of package `curve` (property C03):

  window.go                              Lookup (masked scan + conditional negate), the 8-entry tables [P..8P],
                                         the NAF tables of odd multiples [P,3P,..] (8 entries; 64 for the basepoint)
  scalar_mul_variable_base.go            edwardsMulGeneric                       → `mulRadix16`
  scalar_mul_basepoint.go                edwardsBasepointTableGeneric.Mul        → `basepointMul` (+ table construction)
  scalar_mul_straus.go                   edwardsMultiscalarMulStrausGeneric      → `strausCT`
                                         edwardsMultiscalarMulStrausVartimeGeneric          → `strausNaf`
                                         expandedEdwardsMultiscalarMulStrausVartimeGeneric  → `strausNafExpanded`
  scalar_mul_vartime_double_base.go      edwardsDoubleScalarMulBasepointVartimeGenericInner → `doubleBase`
  scalar_mul_pippenger.go                edwardsMultiscalarMulPippengerVartimeGeneric       → `pippenger`
  edwards.go / edwards_precomputation.go Mul, MulBasepoint, MultiscalarMul, MultiscalarMulVartime,
                                         DoubleScalarMulBasepointVartime, Expanded* (dispatch by length)

The algorithms are generic in the carrier: a structure `GroupOps G` supplies `zero add neg dbl` (the unified
addition, negation and doubling of whatever point representation is used; the Go code's different projective
models all represent the same group element, which is the subject of the formula-level part of C03).
The loops take the digit arrays produced by `Voi.Model.Recoding` (`toRadix16`, `nonAdjacentForm`, `toRadix2w`)
and follow the Go loops position by position: structural recursion on the loop counter, folds over the
(table, digits) pairs for the inner `for j` loops.  No mutation, no `partial`.

The vectorised (AVX2) variants have the same loop structure (edwardsMulVector starts from the identity and runs 64
uniform iterations instead of unrolling the first one; that differs from `mulRadix16` by `16•0 + x` vs `0 + x`).

`Option` results: `none` = a panic of the recoding (`invalid width/radix parameter`); unreachable from the entry
points, which only use w = 5, 8 (NAF) and w ∈ {6,7,8} (radix 2^w) — theorem `dispatch_correct` & co. in
`Voi.Props.C03` show the result is always `some`.  The documented `len(scalars) != len(points)` panic is decided
by the caller (`lengthsOk`); the algorithms themselves pair scalars and points with `zip`.

Core Lean only.
-/
import Voi.Model.Recoding
namespace Voi.Model.ScalarMul
open Voi.Model.Recoding

/-- the operations the algorithms use -/
structure GroupOps (G : Type) where
  zero : G
  add : G → G → G
  neg : G → G
  dbl : G → G

namespace GroupOps
variable {G : Type} (ops : GroupOps G)

/-- `Sub…Niels(a, b)`: addition of the negated operand -/
def sub (a b : G) : G := ops.add a (ops.neg b)

/-- `mulByPow2(x, k)`: k successive doublings -/
def mulByPow2 (x : G) : Nat → G
  | 0 => x
  | k + 1 => mulByPow2 (ops.dbl x) k

/-! ## window.go -/

/-- `newProjectiveNielsPointLookupTable` / `…NafLookupTable`: `n` entries `cur, step+cur, step+(step+cur), …` -/
def tableFrom (step : G) : Nat → G → List G
  | 0, _ => []
  | n + 1, cur => cur :: tableFrom step n (ops.add step cur)

/-- `[P, 2P, …, 8P]`:  `points[0] = P; points[j+1] = P + points[j]` -/
def mkTable (P : G) : Array G := (ops.tableFrom P 8 P).toArray

/-- `[P, 3P, 5P, …]` with `n` entries (8; 64 for the basepoint):  `A2 = 2P; Ai[0] = P; Ai[i+1] = A2 + Ai[i]` -/
def mkNafTable (n : Nat) (P : G) : Array G := (ops.tableFrom (ops.dbl P) n P).toArray

/-- the masked scan of `Lookup`:

      t.Identity()
      for j := 1; j < 9; j++ { c := ConstantTimeCompareByte(xabs, j); t.ConditionalAssign(&tbl[j-1], c) }

    `j0` is `j - 1`. -/
def scan (tbl : Array G) (xabs : Nat) : (fuel j0 : Nat) → G → G
  | 0, _, t => t
  | fuel + 1, j0, t => scan tbl xabs fuel (j0 + 1) (if xabs = j0 + 1 then tbl.getD j0 ops.zero else t)

/-- `tbl.Lookup(x)` for an 8-entry table: `|x|•P` by the masked scan, then `ConditionalNegate(x < 0)`.
    (For |x| > 8 the scan leaves the identity.) -/
def lookup (tbl : Array G) (x : Int) : G :=
  let t := ops.scan tbl x.natAbs 8 0 ops.zero
  if x < 0 then ops.neg t else t

/-- NAF tables: `Lookup(x) = &tbl[x/2]` -/
def nafLookup (tbl : Array G) (x : Nat) : G := tbl.getD (x / 2) ops.zero

/-- one NAF digit of the vartime loops:

      if d > 0 { t.Add…(t, tbl.Lookup(uint8(d))) } else if d < 0 { t.Sub…(t, tbl.Lookup(uint8(-d))) }  -/
def nafAdd (tbl : Array G) (t : G) (d : Int) : G :=
  if d > 0 then ops.add t (ops.nafLookup tbl d.toNat)
  else if d < 0 then ops.sub t (ops.nafLookup tbl (-d).toNat)
  else t

/-! ## scalar_mul_variable_base.go -/

/-- `for i := 62; i >= 0; i-- { tmp = 16*tmp; tmp += Lookup(digits[i]) }`; `mulRadix16Loop … (i+1)` runs iteration `i` -/
def mulRadix16Loop (tbl : Array G) (digits : Array Int) : Nat → G → G
  | 0, acc => acc
  | i + 1, acc =>
    mulRadix16Loop tbl digits i (ops.add (ops.mulByPow2 acc 4) (ops.lookup tbl (digits.getD i 0)))

/-- `edwardsMulGeneric` on the radix-16 digits: first iteration unrolled (`identity + Lookup(digits[63])`) -/
def mulRadix16 (P : G) (digits : Array Int) : G :=
  let tbl := ops.mkTable P
  ops.mulRadix16Loop tbl digits 63 (ops.add ops.zero (ops.lookup tbl (digits.getD 63 0)))

/-! ## scalar_mul_basepoint.go -/

/-- `newEdwardsBasepointTableGeneric`: `table[i] = lookupTable(p); p = 2^8 p` for 32 positions -/
def basepointTableFrom : Nat → G → List (Array G)
  | 0, _ => []
  | n + 1, p => ops.mkTable p :: basepointTableFrom n (ops.mulByPow2 p 8)

def mkBasepointTable (B : G) : Array (Array G) := (ops.basepointTableFrom 32 B).toArray

/-- `for i := off; i < 64; i += 2 { out += tbl[i/2].Lookup(a[i]) }` with `i = 2k + off` -/
def basepointPass (tbls : Array (Array G)) (a : Array Int) (off : Nat) : (fuel k : Nat) → G → G
  | 0, _, acc => acc
  | fuel + 1, k, acc =>
    basepointPass tbls a off fuel (k + 1)
      (ops.add acc (ops.lookup (tbls.getD k #[]) (a.getD (2 * k + off) 0)))

/-- `edwardsBasepointTableGeneric.Mul`: odd digits, one multiplication by 16, even digits -/
def basepointMul (tbls : Array (Array G)) (a : Array Int) : G :=
  let out := ops.basepointPass tbls a 1 32 0 ops.zero
  let out := ops.mulByPow2 out 4
  ops.basepointPass tbls a 0 32 0 out

/-! ## scalar_mul_straus.go -/

/-- `for i := 63; i >= 0; i-- { out = 16*out; for j { out += lookupTables[j].Lookup(digits[j][i]) } }` -/
def strausCTLoop (tds : List (Array G × Array Int)) : Nat → G → G
  | 0, acc => acc
  | i + 1, acc =>
    strausCTLoop tds i
      (tds.foldl (fun q td => ops.add q (ops.lookup td.1 (td.2.getD i 0))) (ops.mulByPow2 acc 4))

/-- `edwardsMultiscalarMulStrausGeneric` on the radix-16 digit arrays -/
def strausCT (digits : List (Array Int)) (points : List G) : G :=
  ops.strausCTLoop ((points.map ops.mkTable).zip digits) 64 ops.zero

/-- the inner `for j` loop of the vartime Straus variants at position `i` -/
def nafColumn (tns : List (Array G × Array Int)) (i : Nat) (t : G) : G :=
  tns.foldl (fun t tn => ops.nafAdd tn.1 t (tn.2.getD i 0)) t

/-- `for i := 255; i >= 0; i-- { t = 2r; for j { ±= lookupTables[j].Lookup(|nafs[j][i]|) }; r = t }` -/
def strausNafLoop (tns : List (Array G × Array Int)) : Nat → G → G
  | 0, r => r
  | i + 1, r => strausNafLoop tns i (ops.nafColumn tns i (ops.dbl r))

/-- `edwardsMultiscalarMulStrausVartimeGeneric` on the NAF-5 arrays: all 256 positions from the top
    (no leading-zero skip in this routine: doubling the identity is harmless) -/
def strausNaf (nafs : List (Array Int)) (points : List G) : G :=
  ops.strausNafLoop ((points.map (ops.mkNafTable 8)).zip nafs) 256 ops.zero

/-- the expanded variant: per position first the static (precomputed tables), then the dynamic terms -/
def strausNafExpandedLoop (st dy : List (Array G × Array Int)) : Nat → G → G
  | 0, r => r
  | i + 1, r => strausNafExpandedLoop st dy i (ops.nafColumn dy i (ops.nafColumn st i (ops.dbl r)))

/-- `expandedEdwardsMultiscalarMulStrausVartimeGeneric`; `staticTables[j] = staticPoints[j].inner` -/
def strausNafExpanded (staticNafs : List (Array Int)) (staticTables : List (Array G))
    (dynamicNafs : List (Array Int)) (dynamicPoints : List G) : G :=
  ops.strausNafExpandedLoop (staticTables.zip staticNafs)
    ((dynamicPoints.map (ops.mkNafTable 8)).zip dynamicNafs) 256 ops.zero

/-! ## scalar_mul_vartime_double_base.go -/

/-- `var i int; for j := 255; j >= 0; j-- { if aNaf[j] != 0 || bNaf[j] != 0 { i = j; break } }`;
    `findStart a b (j+1)` examines position `j` -/
def findStart (a b : Array Int) : Nat → Nat
  | 0 => 0
  | j + 1 => if a.getD j 0 ≠ 0 ∨ b.getD j 0 ≠ 0 then j else findStart a b j

/-- `for { t = 2r; ±= tableA.Lookup(|aNaf[i]|); ±= tableB.Lookup(|bNaf[i]|); r = t; if i == 0 {break}; i-- }` -/
def doubleBaseLoop (tableA tableB : Array G) (a b : Array Int) : Nat → G → G
  | 0, r => r
  | i + 1, r =>
    doubleBaseLoop tableA tableB a b i
      (ops.nafAdd tableB (ops.nafAdd tableA (ops.dbl r) (a.getD i 0)) (b.getD i 0))

/-- `edwardsDoubleScalarMulBasepointVartimeGenericInner`: NAF-5 of `a` with the 8-entry table of `A`,
    NAF-8 of `b` with the 64-entry table of odd multiples of the basepoint, starting at the top non-zero position -/
def doubleBase (tableA tableB : Array G) (aNaf bNaf : Array Int) : G :=
  ops.doubleBaseLoop tableA tableB aNaf bNaf (findStart aNaf bNaf 256 + 1) ops.zero

/-! ## scalar_mul_pippenger.go -/

/-- one (digit, point) pair of `calculateColumn`:

      if digit > 0 { b := digit - 1; buckets[b] += P } else if digit < 0 { b := -digit - 1; buckets[b] -= P }  -/
def bucketStep (buckets : Array G) (d : Int) (P : G) : Array G :=
  if d > 0 then
    let b := (d - 1).toNat
    buckets.setIfInBounds b (ops.add (buckets.getD b ops.zero) P)
  else if d < 0 then
    let b := (-d - 1).toNat
    buckets.setIfInBounds b (ops.sub (buckets.getD b ops.zero) P)
  else buckets

/-- the two running sums:  `for i := bucketsCount-2; i >= 0; i-- { inter += buckets[i]; sum += inter }` -/
def bucketSumLoop (buckets : Array G) : Nat → G × G → G × G
  | 0, st => st
  | i + 1, st =>
    let inter := ops.add st.1 (buckets.getD i ops.zero)
    bucketSumLoop buckets i (inter, ops.add st.2 inter)

/-- `calculateColumn(idx)`: clear the buckets, distribute the points, combine the buckets -/
def column (bucketsCount : Nat) (dps : List (Array Int × G)) (idx : Nat) : G :=
  let buckets := dps.foldl (fun bs dp => ops.bucketStep bs (dp.1.getD idx 0) dp.2)
    (Array.replicate bucketsCount ops.zero)
  let top := buckets.getD (bucketsCount - 1) ops.zero
  (ops.bucketSumLoop buckets (bucketsCount - 1) (top, top)).2

/-- `for i := digitsCount-2; i >= 0; i-- { sum = 2^w sum + calculateColumn(i) }` -/
def pippengerLoop (w bucketsCount : Nat) (dps : List (Array Int × G)) : Nat → G → G
  | 0, sum => sum
  | i + 1, sum =>
    pippengerLoop w bucketsCount dps i (ops.add (ops.mulByPow2 sum w) (ops.column bucketsCount dps i))

/-- `edwardsMultiscalarMulPippengerVartimeGeneric` for window `w` on the radix-2^w digit arrays;
    `digitsCount = ToRadix2wSizeHint(w)` (33 for w = 8: the extra digit), `bucketsCount = 2^w / 2` -/
def pippenger (w : Nat) (digits : List (Array Int)) (points : List G) : Option G :=
  match toRadix2wSizeHint w with
  | none => none
  | some digitsCount =>
    let bucketsCount := 2 ^ w / 2
    let dps := digits.zip points
    some (ops.pippengerLoop w bucketsCount dps (digitsCount - 1) (ops.column bucketsCount dps (digitsCount - 1)))

/-! ## Entry points: scalars in, recoding, algorithm, dispatch -/

def allSome {α : Type} : List (Option α) → Option (List α)
  | [] => some []
  | none :: _ => none
  | some x :: r => (allSome r).map (x :: ·)

/-- `EdwardsPoint.Mul` -/
def mul (P : G) (s : Nat) : G := ops.mulRadix16 P (toRadix16 s)

/-- `EdwardsPoint.MulBasepoint(table, s)` -/
def mulBasepoint (tbls : Array (Array G)) (s : Nat) : G := ops.basepointMul tbls (toRadix16 s)

/-- `EdwardsPoint.MultiscalarMul` (constant time) -/
def multiscalarMul (ss : List Nat) (ps : List G) : G := ops.strausCT (ss.map toRadix16) ps

/-- `edwardsMultiscalarMulStrausVartime` -/
def strausVartime (ss : List Nat) (ps : List G) : Option G :=
  (allSome (ss.map (nonAdjacentForm 5))).map (fun nafs => ops.strausNaf nafs ps)

/-- the window of `edwardsMultiscalarMulPippengerVartimeGeneric`:
    `switch { case size < 500: w = 6; case size < 800: w = 7; default: w = 8 }` -/
def pippengerWindow (size : Nat) : Nat := if size < 500 then 6 else if size < 800 then 7 else 8

/-- `edwardsMultiscalarMulPippengerVartime`; `size = len(scalars)` -/
def pippengerVartime (ss : List Nat) (ps : List G) : Option G :=
  let w := pippengerWindow ss.length
  (allSome (ss.map (toRadix2w w))).bind (fun ds => ops.pippenger w ds ps)

/-- `mulPippengerThreshold` -/
def mulPippengerThreshold : Nat := 190

/-- `EdwardsPoint.MultiscalarMulVartime`: `if size < mulPippengerThreshold { Straus } else { Pippenger }` -/
def multiscalarMulVartime (threshold : Nat) (ss : List Nat) (ps : List G) : Option G :=
  if ss.length < threshold then ops.strausVartime ss ps else ops.pippengerVartime ss ps

/-- `EdwardsPoint.DoubleScalarMulBasepointVartime(a, A, b)`; `tableB` = the constant table of odd multiples of B -/
def doubleScalarMulBasepointVartime (tableB : Array G) (a : Nat) (A : G) (b : Nat) : Option G :=
  match nonAdjacentForm 5 a, nonAdjacentForm 8 b with
  | some aNaf, some bNaf => some (ops.doubleBase (ops.mkNafTable 8 A) tableB aNaf bNaf)
  | _, _ => none

/-- `EdwardsPoint.ExpandedDoubleScalarMulBasepointVartime`: the table of `A` is precomputed -/
def expandedDoubleScalarMulBasepointVartime (tableB : Array G) (a : Nat) (tableA : Array G) (b : Nat) : Option G :=
  match nonAdjacentForm 5 a, nonAdjacentForm 8 b with
  | some aNaf, some bNaf => some (ops.doubleBase tableA tableB aNaf bNaf)
  | _, _ => none

/-- `NewExpandedEdwardsPoint(P)`: the point and its NAF-5 table -/
def expand (P : G) : G × Array G := (P, ops.mkNafTable 8 P)

/-- `EdwardsPoint.ExpandedMultiscalarMulVartime`:
    `if staticSize+dynamicSize > mulPippengerThreshold { Pippenger on the plain points } else { expanded Straus }`
    (note `>` here and `<` in `MultiscalarMulVartime`: at exactly 190 terms the two entry points differ) -/
def expandedMultiscalarMulVartime (threshold : Nat) (sss : List Nat) (sps : List (G × Array G))
    (dss : List Nat) (dps : List G) : Option G :=
  if sss.length + dss.length > threshold then
    let w := pippengerWindow (sss.length + dss.length)
    -- optScalars = static ++ dynamic; optPoints[i+off]: static points first, then dynamic
    (allSome ((sss ++ dss).map (toRadix2w w))).bind (fun ds => ops.pippenger w ds (sps.map (·.1) ++ dps))
  else
    match allSome (sss.map (nonAdjacentForm 5)), allSome (dss.map (nonAdjacentForm 5)) with
    | some sn, some dn => some (ops.strausNafExpanded sn (sps.map (·.2)) dn dps)
    | _, _ => none

/-- the documented panic `len(scalars) != len(points)` -/
def lengthsOk {α β : Type} (ss : List α) (ps : List β) : Bool := ss.length == ps.length

end GroupOps
end Voi.Model.ScalarMul
