/-
Code-shaped model of `primitives/ed25519/extra/cache/lru.go` (property C18), as of the fix commits
"LRU cache evicts by the key an entry was stored under" and "LRU cache Put detects an existing key by presence,
not by a non-nil value".

Go state                                   model
  store map[CompressedEdwardsY]*lruEntry     `store : List (K × Option V)`  (association list; the value `none` is a
                                              nil *ExpandedPublicKey stored by `Put(k, nil)`; the map never holds a nil
                                              *lruEntry, so "entry == nil" is "key absent")
  list  list.List of *lruEntry               `list : List K`  the entries' keys, most recently used first
  capacity int                               `cap : Nat`      (`NewLRUCache` panics for capacity ≤ 0)

Every list element is an `*lruEntry` holding its own `key`, and the store maps a key to the unique entry stored under
it (theorem `Props.LRUInv.Inv.nodup`: the list never holds two entries of one key, for ALL histories, nil values
included), so `list.Remove(entry.element)` is `List.erase k`.

`getLocked`:  entry := store[k]; if entry == nil → nil;  list.Remove(entry.element); PushFront(entry); return entry.publicKey
`Put`:        if _, ok := store[k]; ok → getLocked(k); return     (existing key, whatever its value — nil included:
                                                                    recency refreshed, OLD value kept)
              if list.Len() == capacity → remove list.Back(), delete(store, thatEntry.key)
              store[k] = entry; PushFront(entry)
A `Get` cannot distinguish "absent" from "present with a nil value" (both return nil); `Put` can.
Core Lean only.
-/
import Voi.Spec.LRU
namespace Voi.Model.LRU
open Voi.Spec.LRU (lookup eraseKey)

structure State (K V : Type) where
  cap : Nat
  list : List K
  store : List (K × Option V)
deriving Repr

inductive Op (K V : Type) where
  | get (k : K)
  | put (k : K) (v : Option V)
deriving Repr

variable {K V : Type} [DecidableEq K]

/-- `NewLRUCache(cap)`; the caller must have checked `cap > 0` (the Go constructor panics otherwise) -/
def new (cap : Nat) : State K V := ⟨cap, [], []⟩

/-- `getLocked` / `Get` -/
def get (s : State K V) (k : K) : State K V × Option V :=
  match lookup k s.store with
  | none => (s, none)
  | some ov => ({ s with list := k :: s.list.erase k }, ov)

/-- the eviction step of `Put`: drop the back element and delete its key from the store -/
def evict (s : State K V) : State K V :=
  if s.list.length = s.cap then
    match s.list.getLast? with
    | some kb => { s with list := s.list.dropLast, store := eraseKey kb s.store }
    | none => s   -- only for cap = 0, which `NewLRUCache` excludes (Go would dereference a nil element)
  else s

/-- `Put` -/
def put (s : State K V) (k : K) (ov : Option V) : State K V :=
  match lookup k s.store with
  | some _ => (get s k).1            -- `_, ok := store[k]; ok`: only touch, keep the stored value (even a nil one)
  | none =>
    let s2 := evict s
    { s2 with list := k :: s2.list, store := (k, ov) :: eraseKey k s2.store }

/-- one operation; the output of `put` is `none` -/
def step (s : State K V) : Op K V → State K V × Option V
  | .get k => get s k
  | .put k ov => (put s k ov, none)

/-- run a history, collecting the outputs -/
def run (s : State K V) : List (Op K V) → State K V × List (Option V)
  | [] => (s, [])
  | op :: ops =>
    let (s1, o) := step s op
    let (s2, os) := run s1 ops
    (s2, o :: os)

end Voi.Model.LRU
