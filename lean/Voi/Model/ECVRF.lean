/-
ECVRF-EDWARDS25519-SHA512-ELL2 over an interface (property C15).

`VrfIface` extends the interface `EdIface` of `Voi.Model.Ed25519` (points, codecs, scalar order, SHA-512, `ScMinimalVartime`)
by the two things ECVRF uses in addition: multiplication by the cofactor (`EdwardsPoint.MulByCofactor`) and the
encode-to-curve map (`encodeToCurveH2cSuite`).

Two layers, as for Ed25519:

  * `SpecG.*`   the DECLARATIVE functions of RFC 9381 §5.1–5.4 — literally `Voi.Spec.ECVRF.*` with the concrete functions
                replaced by interface fields (`Voi.Props.C15.specG_*_concrete` hold by unfolding);  `SpecG.proveWith`
                takes the secret scalar `x` and ANY nonce `k` as arguments (deterministic, or with added randomness);
  * the CODE-SHAPED model of `ecvrf.go`: `decodeProof`, `challengeGeneration`, `gammaToHash`, `doVerify`, `doProve`,
                `proofToHash`, statement by statement (scalars by value, points up to projective equivalence, the two
                multi-scalar multiplications by value).  Stream E2 (Voi/Drv/ECVRFModel.lean ↔ go/harness/s_ecvrf_model.go)
                compares the concrete instance with the real `Prove*`/`Verify*`/`ProofToHash` on every run;
                `Voi.Props.C15.vrf_model_eq_spec` proves model = `SpecG` for every instance satisfying the laws.

Core Lean only (linked into the driver).
-/
import Voi.Model.Ed25519
import Voi.Spec.ECVRF
namespace Voi.Model.ECVRF
open Voi Voi.Spec Voi.Model.Ed25519
open Voi.Spec.ECVRF (suiteString cLen ptLen qLen proofSize)

/-- What ECVRF uses of the curve, the hash and hash-to-curve. -/
structure VrfIface extends EdIface where
  /-- `EdwardsPoint.MulByCofactor` -/
  mul8 : G → G
  /-- `encodeToCurveH2cSuite(salt, alpha)`; `none` = the h2c suite returned an error (the Go code panics in `doVerify`
      and returns the error in `doProve`; it never happens for this suite) -/
  encodeToCurve : Bytes → Bytes → Option G

/-! ## The declarative functions (RFC 9381 §5.1–5.4) over the interface -/
namespace SpecG

/-- strict RFC 8032 string_to_point: 32 bytes, canonical, on the curve -/
def stringToPoint (V : VrfIface) (b : Bytes) : Option V.G :=
  if b.size ≠ 32 then none else
  if !V.isCanonicalEnc b then none else V.decode b

/-- the string that §5.4.3 hashes: `suite ‖ 0x02 ‖ [Y] ‖ H ‖ Gamma ‖ U ‖ V ‖ 0x00`
    (`y = some PK_string`: RFC 9381; `y = none`: draft ≤ 10) -/
def challengeInput (V : VrfIface) (y : Option Bytes) (hString gammaString : Bytes) (U W : V.G) : Bytes :=
  suiteString ++ bytesOfList [0x02] ++ y.getD ByteArray.empty ++ hString ++ gammaString
    ++ V.encode U ++ V.encode W ++ bytesOfList [0x00]

/-- §5.4.3 challenge generation: the first 16 bytes of the hash, little endian -/
def challenge (V : VrfIface) (y : Option Bytes) (hString gammaString : Bytes) (U W : V.G) : Nat :=
  leNat (bslice (V.hash512 (challengeInput V y hString gammaString U W)) 0 cLen)

/-- §5.1 steps 3–8 for a given `H`, secret scalar `x`, ANY nonce `k` -/
def proveH (V : VrfIface) (withY : Bool) (x k : Nat) (yString : Bytes) (H : V.G) : Bytes :=
  let hString := V.encode H
  let gamma := V.smul x H
  let gammaString := V.encode gamma
  let c := challenge V (if withY then some yString else none) hString gammaString (V.smul k V.B) (V.smul k H)
  let s := (k + c * x) % V.L
  gammaString ++ natLE c cLen ++ natLE s qLen

/-- §5.1 ECVRF_prove with the secret scalar and the nonce as arguments -/
def proveWith (V : VrfIface) (withY : Bool) (x k : Nat) (yString alpha : Bytes) : Option Bytes :=
  (V.encodeToCurve yString alpha).map (proveH V withY x k yString)

/-- §5.4.2.2 nonce generation over the interface hash: `k = Hash(hashed_sk[32..63] ‖ h_string) mod q`; with added
    randomness Z the library hashes `Z ‖ hashed_sk[32..63] ‖ 0^(1024−64) ‖ h_string` -/
def nonce (V : VrfIface) (hashedSkHi hString : Bytes) (entropy : Option Bytes) : Nat :=
  let inp := match entropy with
    | none => hashedSkHi ++ hString
    | some z => z ++ hashedSkHi ++ bzero (1024 - (32 + 32)) ++ hString
  leNat (V.hash512 inp) % V.L

/-- §5.1 ECVRF_prove from the 64-byte private key `seed ‖ PK_string` (RFC 8032 key expansion, §5.4.2.2 nonce) -/
def prove (V : VrfIface) (withY : Bool) (entropy : Option Bytes) (sk alpha : Bytes) : Option Bytes :=
  if sk.size ≠ 64 then none else
  let h := V.hash512 (bslice sk 0 32)
  let x := Voi.Spec.Ed25519.clamp h
  let hi := bslice h 32 32
  let yString := bslice sk 32 32
  (V.encodeToCurve yString alpha).map fun H => proveH V withY x (nonce V hi (V.encode H) entropy) yString H

/-- §5.4.4 ECVRF_decode_proof -/
def decodeProof (V : VrfIface) (pi : Bytes) : Option (V.G × Nat × Nat) :=
  if pi.size ≠ proofSize then none else
  match stringToPoint V (bslice pi 0 ptLen) with
  | none => none
  | some gamma =>
  let c := leNat (bslice pi ptLen cLen)
  let s := leNat (bslice pi (ptLen + cLen) qLen)
  if s ≥ V.L then none else some (gamma, c, s)

/-- beta_string = Hash(suite_string ‖ 0x03 ‖ point_to_string(cofactor · Gamma) ‖ 0x00) -/
def gammaToHash (V : VrfIface) (gamma : V.G) : Bytes :=
  V.hash512 (suiteString ++ bytesOfList [0x03] ++ V.encode (V.mul8 gamma) ++ bytesOfList [0x00])

/-- §5.2 ECVRF_proof_to_hash -/
def proofToHash (V : VrfIface) (pi : Bytes) : Option Bytes :=
  (decodeProof V pi).map fun (gamma, _, _) => gammaToHash V gamma

/-- §5.4.5 ECVRF_validate_key -/
def validateKey (V : VrfIface) (Y : V.G) : Bool := !V.isSmallOrder Y

/-- §5.3 ECVRF_verify with validate_key = TRUE -/
def verify (V : VrfIface) (withY : Bool) (pk pi alpha : Bytes) : Option Bytes :=
  match stringToPoint V pk with
  | none => none
  | some Y =>
  if !validateKey V Y then none else
  match decodeProof V pi with
  | none => none
  | some (gamma, c, s) =>
  match V.encodeToCurve pk alpha with
  | none => none
  | some H =>
  let U := V.add (V.smul s V.B) (V.neg (V.smul c Y))
  let W := V.add (V.smul s H) (V.neg (V.smul c gamma))
  let c' := challenge V (if withY then some pk else none) (V.encode H) (V.encode gamma) U W
  if c == c' then some (gammaToHash V gamma) else none

end SpecG

/-! ## The code-shaped model of `ecvrf.go`

Scalars are modelled by value (`scalar.Scalar` = a natural number; `SetBits` = the little-endian value with bit 255
cleared, unreduced; `SetBytesModOrder(Wide)` = the value mod L; `Mul`/`Add` mod L; `ToBytes` = the 32 little-endian bytes
of the value mod L), points up to projective equivalence, the two multi-scalar multiplications by their value
(`DoubleScalarMulBasepointVartime(a, A, b) = aA + bB`, `MultiscalarMulVartime([s, c], [H, −Γ]) = sH + c(−Γ)`; that these
routines compute those values is C03), the clamping of `extsk` by its value (`Voi.Spec.Ed25519.clamp`, as in C02). -/

/-- `scalar.SetBits` on a 32-byte string: bit 255 is cleared, the value is NOT reduced -/
def setBits (b : Bytes) : Nat := leNat b % 2 ^ 255

/-- `challengeGeneration(p1, p2, p3, p4, p5)`; `p1` empty = the nil slice of the pre-v11 format -/
def challengeGeneration (V : VrfIface) (p1 p2 p3 : Bytes) (p4 p5 : V.G) : Nat :=
  -- h.Write([]byte{suiteString, twoString})
  let h := bytesOfList [0x04, 0x02]
  -- if len(p1) > 0 { h.Write(p1) }
  let h := if p1.size > 0 then h ++ p1 else h
  -- h.Write(p2[:]); h.Write(p3[:])
  let h := h ++ p2
  let h := h ++ p3
  -- h.Write(tmp.SetEdwardsPoint(p4)[:]); h.Write(tmp.SetEdwardsPoint(p5)[:])
  let h := h ++ V.encode p4
  let h := h ++ V.encode p5
  -- h.Write([]byte{zeroString})
  let h := h ++ bytesOfList [0x00]
  -- h.Sum(digest[:0])
  let digest := V.hash512 h
  -- copy(cString[:16], digest[:16]); c.SetBits(cString[:])
  let cString := bslice digest 0 16 ++ bzero 16
  setBits cString

/-- `decodeProof(piString)`: `none` = error -/
def decodeProof (V : VrfIface) (piString : Bytes) : Option (V.G × Nat × Nat) :=
  -- if l := len(piString); l != ProofSize { error }
  if piString.size ≠ 80 then none else
  -- gammaString.SetBytes(piString[:32])   (cannot fail: the length is 32)
  let gammaString := bslice piString 0 32
  -- if !gammaString.IsCanonicalVartime() { error }
  if !V.isCanonicalEnc gammaString then none else
  -- gamma.SetCompressedY(&gammaString)
  match V.decode gammaString with
  | none => none
  | some gamma =>
  -- copy(cString[:16], piString[32:]); c.SetBits(cString[:])
  let cString := bslice piString 32 16 ++ bzero 16
  let c := setBits cString
  -- if !scalar.ScMinimalVartime(piString[48:]) { error }
  if !V.scMinimal (bslice piString 48 32) then none else
  -- s.SetBytesModOrder(piString[48:])
  let s := leNat (bslice piString 48 32) % V.L
  some (gamma, c, s)

/-- `gammaToHash(gamma)` -/
def gammaToHash (V : VrfIface) (gamma : V.G) : Bytes :=
  -- cGString.SetEdwardsPoint(cG.MulByCofactor(gamma))
  let cGString := V.encode (V.mul8 gamma)
  -- h.Write([]byte{suiteString, threeString}); h.Write(cGString[:]); h.Write([]byte{zeroString})
  V.hash512 (bytesOfList [0x04, 0x03] ++ cGString ++ bytesOfList [0x00])

/-- `ProofToHash(piString)`: `none` = error -/
def proofToHash (V : VrfIface) (piString : Bytes) : Option Bytes :=
  match decodeProof V piString with
  | none => none
  | some (gamma, _, _) => some (gammaToHash V gamma)

/-- what `doVerify` can do -/
inductive VOut where
  /-- `panic("ecvrf: failed to hash point to curve")` -/
  | panic
  /-- `return false, nil` -/
  | invalid
  /-- `return true, beta` -/
  | valid (beta : Bytes)
deriving DecidableEq

def VOut.toOption : VOut → Option Bytes
  | .valid b => some b
  | _ => none

/-- `doVerify(pk, piString, alphaString, draftPreV11)` -/
def doVerify (V : VrfIface) (pk piString alphaString : Bytes) (draftPreV11 : Bool) : VOut :=
  -- 1. yString.SetBytes(pk): error iff len(pk) != 32
  if pk.size ≠ 32 then .invalid else
  -- 2. if !yString.IsCanonicalVartime() { return false }
  if !V.isCanonicalEnc pk then .invalid else
  -- Y.SetCompressedY(&yString)
  match V.decode pk with
  | none => .invalid
  | some Y =>
  -- 3. if Y.IsSmallOrder() { return false }
  if V.isSmallOrder Y then .invalid else
  -- 4.-6. gamma, c, s, err := decodeProof(piString)
  match decodeProof V piString with
  | none => .invalid
  | some (gamma, c, s) =>
  -- gammaString.SetBytes(piString[:32])
  let gammaString := bslice piString 0 32
  -- 7. H, err := encodeToCurveH2cSuite(yString[:], alphaString); if err != nil { panic }
  match V.encodeToCurve pk alphaString with
  | none => .panic
  | some H =>
  -- hString.SetEdwardsPoint(H)
  let hString := V.encode H
  -- 8. Y.Neg(&Y); U.DoubleScalarMulBasepointVartime(c, &Y, s)
  let negY := V.neg Y
  let U := doubleScalarMulBasepoint V.toEdIface c negY s
  -- 9. negGamma.Neg(gamma); V.MultiscalarMulVartime([s, c], [H, &negGamma])
  let negGamma := V.neg gamma
  let W := V.add (V.smul s H) (V.smul c negGamma)
  -- 10. if !draftPreV11 { p1 = pk[:] }; cPrime := challengeGeneration(p1, &hString, &gammaString, &U, &V)
  let p1 := if !draftPreV11 then pk else ByteArray.empty
  let cPrime := challengeGeneration V p1 hString gammaString U W
  -- 11. if c.Equal(cPrime) == 0 { return false, nil }; return true, gammaToHash(gamma)
  if c ≠ cPrime then .invalid else .valid (gammaToHash V gamma)

/-- `doProve(rand, sk, alphaString, draftPreV11)`; `rand = none` is the nil reader (deterministic nonce),
    `rand = some e` a reader that yields the bytes `e` and then EOF.  `none` = error (a panic in `Prove`/`Prove_v10`). -/
def doProve (V : VrfIface) (rand : Option Bytes) (sk alphaString : Bytes) (draftPreV11 : Bool) : Option Bytes :=
  -- if len(sk) != ed25519.PrivateKeySize { error }
  if sk.size ≠ 64 then none else
  -- h.Write(sk[:32]); h.Sum(extsk[:0]); clamp; x.SetBits(extsk[:32])
  let extsk := V.hash512 (bslice sk 0 32)
  let x := Voi.Spec.Ed25519.clamp extsk
  -- Y := sk[32:]
  let Y := bslice sk 32 32
  -- 2. H, err := encodeToCurveH2cSuite(Y, alphaString)
  match V.encodeToCurve Y alphaString with
  | none => none
  | some H =>
  -- 3. hString.SetEdwardsPoint(H)
  let hString := V.encode H
  -- 4. gamma.Mul(H, &x); gammaString.SetEdwardsPoint(&gamma)
  let gamma := V.smul x H
  let gammaString := V.encode gamma
  -- 5. h.Reset(); [io.ReadFull(rand, entropy[:32]); h.Write(entropy)]; h.Write(extsk[32:]); [h.Write(padding)];
  --    h.Write(hString[:]); k.SetBytesModOrderWide(digest[:])
  let nonceIn : Option Bytes := match rand with
    | none => some (bslice extsk 32 32 ++ hString)
    | some e =>
      if e.size < 32 then none   -- "ecvrf: failed to read Z"
      else some (bslice e 0 32 ++ bslice extsk 32 32 ++ bzero (1024 - (32 + 32)) ++ hString)
  match nonceIn with
  | none => none
  | some nonceIn =>
  let k := leNat (V.hash512 nonceIn) % V.L
  -- kB.MulBasepoint(…, &k); kH.Mul(H, &k); if !draftPreV11 { p1 = Y }
  let kB := V.smul k V.B
  let kH := V.smul k H
  let p1 := if !draftPreV11 then Y else ByteArray.empty
  let c := challengeGeneration V p1 hString gammaString kB kH
  -- 7. s.Mul(c, &x); s.Add(&s, &k)
  let s := ((c * x) % V.L + k) % V.L
  -- 8. copy(piString[:32], gammaString[:]); c.ToBytes(piString[32:64]); s.ToBytes(piString[48:])
  let piString := gammaString ++ natLE (c % V.L) 32 ++ bzero 16
  some (bslice piString 0 48 ++ natLE (s % V.L) 32)

/-! ## The concrete, executable instance -/

def concrete : VrfIface where
  toEdIface := Voi.Model.Ed25519.concrete
  mul8 := Pt.mul8
  encodeToCurve := Voi.Spec.ECVRF.encodeToCurve

end Voi.Model.ECVRF
