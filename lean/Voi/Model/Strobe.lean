import Voi.Spec.Keccak
/-!
# Model of `internal/strobe/strobe.go` (the STROBE-128/1600 subset used by Merlin)

Code-shaped: one definition per Go function (`runF`, `duplex`, `beginOp`, `operate`, `New`, `Clone`,
`AD`, `MetaAD`, `KEY`, `PRF`), the same state fields (`st`, `pos`, `posBegin`, `initialized`,
`curFlags`, `r`).  Everything is a total function into `Except Err`:

* `Err.uninit`        – Go: `panic("internal/strobe: operate called on uninitialzed state")`
* `Err.flagMismatch`  – Go: `panic("internal/strobe: flag mismatch on more: …")`
* `Err.oob`           – a slice/array index outside `st` (Go would raise a *runtime* panic).  Every
  access to `st` in this file goes through a bounds test and yields `Err.oob` when it fails, so no
  default/fallback value is ever used.  `Voi/Props/StrobeInv.lean` proves that `Err.oob` is unreachable
  from `New` under every operation history.

The only deviation in shape from the Go code: Go's `duplex` works in chunks of `min(remaining, r - pos)`
bytes and tests `pos == r` after every chunk, the model goes byte by byte and tests after every byte
(the STROBE specification's formulation).  The two coincide whenever `pos < r` on entry, which is the invariant.
Core Lean only.
-/
namespace Voi.Model.Strobe
open Voi

/-- `constN = 1600 / 8` -/
def constN : Nat := 1600 / 8
/-- `constSec = 128` -/
def constSec : Nat := 128
/-- the rate after initialisation: `constN - constSec/4 - 2 = 166` -/
def R : Nat := constN - constSec / 4 - 2

abbrev Flags := UInt8
def flagI : Flags := 1   -- 1 << 0, inbound
def flagA : Flags := 2   -- 1 << 1, application
def flagC : Flags := 4   -- 1 << 2, cipher
def flagM : Flags := 16  -- 1 << 4, meta

inductive Err where
  | uninit        -- explicit Go panic: operate on an uninitialised state
  | flagMismatch  -- explicit Go panic: `more` with flags different from the current operation
  | oob           -- index out of range (Go runtime panic) — proved unreachable
  deriving DecidableEq, Repr, Inhabited

/-- `type Strobe struct { st [200]byte; pos, posBegin int; initialized bool; curFlags flags; r int }` -/
structure Strobe where
  st : Array UInt8
  pos : Nat
  posBegin : Nat
  initialized : Bool
  curFlags : Flags
  r : Nat
  deriving Inhabited

/-- `func (s *Strobe) Clone() *Strobe { sCopy := *s; return &sCopy }` — a value copy. -/
def Strobe.clone (s : Strobe) : Strobe := s

/-- `keccakF1600Bytes(&s.st)` -/
def permute (st : Array UInt8) : Array UInt8 := (Voi.Spec.keccakF1600Bytes ⟨st⟩).data

/-- `st[i] ^= b`, with Go's bounds check made explicit -/
def xorAt (st : Array UInt8) (i : Nat) (b : UInt8) : Except Err (Array UInt8) :=
  if h : i < st.size then .ok (st.set i (st[i] ^^^ b)) else .error .oob

/-- ```
func (s *Strobe) runF() {
	if s.initialized {
		s.st[s.pos] ^= byte(s.posBegin)
		s.st[s.pos+1] ^= 0x04
		s.st[s.r+1] ^= 0x80
	}
	keccakF1600Bytes(&s.st)
	s.pos, s.posBegin = 0, 0
}
``` -/
def runF (s : Strobe) : Except Err Strobe :=
  if s.initialized then
    match xorAt s.st s.pos (UInt8.ofNat s.posBegin) with
    | .error e => .error e
    | .ok st1 =>
    match xorAt st1 (s.pos + 1) 0x04 with
    | .error e => .error e
    | .ok st2 =>
    match xorAt st2 (s.r + 1) 0x80 with
    | .error e => .error e
    | .ok st3 => .ok { s with st := permute st3, pos := 0, posBegin := 0 }
  else
    .ok { s with st := permute s.st, pos := 0, posBegin := 0 }

/-- One byte of the inner loops of `duplex`:
    `if cBefore { data[i] ^= st[pos] }; st[pos] ^= data[i]; pos++; if pos == r { runF() }`.
    Returns the new state and the (possibly overwritten) data byte. -/
def duplexByte (s : Strobe) (cBefore : Bool) (d : UInt8) : Except Err (Strobe × UInt8) :=
  if h : s.pos < s.st.size then
    let d' := if cBefore then d ^^^ s.st[s.pos] else d
    let s1 : Strobe := { s with st := s.st.set s.pos (s.st[s.pos] ^^^ d'), pos := s.pos + 1 }
    if s1.pos = s1.r then
      match runF s1 with
      | .error e => .error e
      | .ok s2 => .ok (s2, d')
    else .ok (s1, d')
  else .error .oob

/-- the `for remaining > 0` loop of `duplex`, byte by byte; returns the state and the data buffer afterwards -/
def duplexLoop (s : Strobe) (cBefore : Bool) : List UInt8 → Except Err (Strobe × List UInt8)
  | [] => .ok (s, [])
  | d :: ds =>
    match duplexByte s cBefore d with
    | .error e => .error e
    | .ok (s1, o) =>
    match duplexLoop s1 cBefore ds with
    | .error e => .error e
    | .ok (s2, os) => .ok (s2, o :: os)

/-- `func (s *Strobe) duplex(data []byte, cBefore, forceF bool)`; the second component is `data` after the call -/
def duplex (s : Strobe) (data : List UInt8) (cBefore forceF : Bool) : Except Err (Strobe × List UInt8) :=
  match duplexLoop s cBefore data with
  | .error e => .error e
  | .ok (s1, out) =>
    if forceF && s1.pos != 0 then
      match runF s1 with
      | .error e => .error e
      | .ok s2 => .ok (s2, out)
    else .ok (s1, out)

/-- ```
func (s *Strobe) beginOp(f flags) {
	oldBegin := s.posBegin
	s.posBegin = s.pos + 1
	s.duplex([]byte{byte(oldBegin), byte(f)}, false, f&flagC != 0)
}
``` -/
def beginOp (s : Strobe) (f : Flags) : Except Err Strobe :=
  let oldBegin := s.posBegin
  let s1 : Strobe := { s with posBegin := s.pos + 1 }
  match duplex s1 [UInt8.ofNat oldBegin, f] false (f &&& flagC != 0) with
  | .error e => .error e
  | .ok (s2, _) => .ok s2

/-- ```
func (s *Strobe) operate(f flags, data []byte, more bool) {
	if !s.initialized { panic(...) }
	switch more {
	case true:  if f != s.curFlags { panic(...) }
	case false: s.beginOp(f); s.curFlags = f
	}
	cBefore := (f & flagC) != 0
	s.duplex(data, cBefore, false)
}
``` -/
def operate (s : Strobe) (f : Flags) (data : List UInt8) (more : Bool) : Except Err (Strobe × List UInt8) :=
  if !s.initialized then .error .uninit else
  let pre : Except Err Strobe :=
    if more then
      if f != s.curFlags then .error .flagMismatch else .ok s
    else
      match beginOp s f with
      | .error e => .error e
      | .ok s1 => .ok { s1 with curFlags := f }
  match pre with
  | .error e => .error e
  | .ok s1 => duplex s1 data (f &&& flagC != 0) false

/-- `func (s *Strobe) AD(data []byte, more bool)` -/
def AD (s : Strobe) (data : List UInt8) (more : Bool) : Except Err Strobe :=
  (operate s flagA data more).map (·.1)

/-- `func (s *Strobe) MetaAD(data []byte, more bool)` -/
def MetaAD (s : Strobe) (data : List UInt8) (more : Bool) : Except Err Strobe :=
  (operate s (flagA ||| flagM) data more).map (·.1)

/-- `KEY` with an explicit `more` (the Go method always passes `false`; the verification export also passes `true`).
    Go works on a copy of the key, so the caller's buffer is not changed and nothing is returned. -/
def KEYm (s : Strobe) (data : List UInt8) (more : Bool) : Except Err Strobe :=
  (operate s (flagA ||| flagC) data more).map (·.1)

/-- `func (s *Strobe) KEY(data []byte)` -/
def KEY (s : Strobe) (data : List UInt8) : Except Err Strobe := KEYm s data false

/-- `PRF` with an explicit `more`: clear `dest` (length `n`), then `operate(I|A|C, dest, more)`; returns `dest`. -/
def PRFm (s : Strobe) (n : Nat) (more : Bool) : Except Err (Strobe × List UInt8) :=
  operate s (flagI ||| flagA ||| flagC) (List.replicate n 0) more

/-- `func (s *Strobe) PRF(dest []byte)` -/
def PRF (s : Strobe) (n : Nat) : Except Err (Strobe × List UInt8) := PRFm s n false

/-- the zero value `Strobe{}` (not initialised; every operation on it panics) -/
def zeroValue : Strobe :=
  { st := Array.replicate constN 0, pos := 0, posBegin := 0, initialized := false, curFlags := 0, r := 0 }

/-- `domain := []byte{1, byte(s.r), 1, 0, 1, 12*8, "STROBEv1.0.2"...}` -/
def domain (r : Nat) : List UInt8 :=
  [1, UInt8.ofNat r, 1, 0, 1, 12 * 8] ++ "STROBEv1.0.2".toUTF8.data.toList

/-- ```
func New(proto string) Strobe {
	s := Strobe{ r: constN - constSec/4 }
	s.duplex(domain, false, true)
	s.r = s.r - 2
	s.initialized = true
	s.operate(flagA|flagM, []byte(proto), false)
	return s
}
``` -/
def new (proto : List UInt8) : Except Err Strobe :=
  let s0 : Strobe := { zeroValue with r := constN - constSec / 4 }
  match duplex s0 (domain s0.r) false true with
  | .error e => .error e
  | .ok (s1, _) =>
    let s2 : Strobe := { s1 with r := s1.r - 2, initialized := true }
    (operate s2 (flagA ||| flagM) proto false).map (·.1)

/-! ## Known answers (from `strobe_test.go`, generated upstream with mimoo/StrobeGo) -/

private def kat : Except Err (List UInt8 × List UInt8) := do
  let data : List UInt8 := (List.range 1024).map UInt8.ofNat
  let s ← new "test-strobe-sanity".toUTF8.data.toList
  let s ← MetaAD s data false
  let s ← KEY s "test-strobe-sanity-key".toUTF8.data.toList
  let s2 := s.clone
  let s ← AD s data false
  let s ← AD s data true
  let (_, o1) ← PRF s 64
  let (_, o2) ← PRF s2 16
  return (o1, o2)

#guard (match kat with
  | .ok (o1, o2) =>
    hexOf ⟨o1.toArray⟩ == "c4728cdd0361684d643a44221d16dc4677c62ed74a7f103635bd9cb6f3cc11bdd8405b105cd7de36f800dda96ea52c6adab88225c44faba4281dcdf84b2f3454"
    && hexOf ⟨o2.toArray⟩ == "16671f5f3603853adaf55614387d5604"
  | .error _ => false)
#guard R == 166
#guard (match operate zeroValue flagA [] false with | .error .uninit => true | _ => false)

end Voi.Model.Strobe
