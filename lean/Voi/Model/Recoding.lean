/-
Code-shaped models of the digit recodings of curve/scalar/scalar.go (property C17):

  Scalar.Bits, Scalar.NonAdjacentForm(w), Scalar.ToRadix16, Scalar.ToRadix2w(w), ToRadix2wSizeHint(w).

The scalar is represented by the little-endian value `n : Nat` of `s.inner` (n < 2^256; the Scalar
invariant is n < 2^255).  Every model follows the Go loop step by step: a position counter, the
loop-carried variables as explicit accumulator arguments and the output array as an accumulator that is
updated with `setIfInBounds` exactly where the Go code assigns `out[i] = …`.  Recursion is structural
on a fuel argument that equals the (maximal) trip count of the Go loop.  Go's fixed-width arithmetic is
made explicit: `% 2^64` where a `uint64` shift can drop bits, `wrap8` wherever a value is converted
to / computed in `int8`.  Digits are `Int`s, arrays are `Array Int` of the Go array's length.

Invalid width parameters (where the Go code panics explicitly) are `none`.

The second half of the file contains *specifications* that are independent of the code shape
(`recon`, digit-range predicates, the textbook recodings); the driver cross-checks the models against
them on every request, and they are the vocabulary of the C17 theorems.

Core Lean only (no imports).
-/
namespace Voi.Model.Recoding

/-! ## Fixed-width helpers -/

/-- Go `int8(x)` / the result of an `int8` operation whose mathematical value is `x`:
    the representative of `x` mod 256 in `[-128, 128)`. -/
def wrap8 (x : Int) : Int := (x + 128) % 256 - 128

/-- `s.inner[j]` -/
def byteAt (n j : Nat) : Nat := n / 2 ^ (8 * j) % 256

/-- `binary.LittleEndian.Uint64(s.inner[i*8:])` for `i < 4` -/
def word64 (n i : Nat) : Nat := n / 2 ^ (64 * i) % 2 ^ 64

/-- `x << s` on `uint64` -/
def shl64 (x s : Nat) : Nat := x * 2 ^ s % 2 ^ 64

/-- `x >> s` on `uint64` -/
def shr64 (x s : Nat) : Nat := x / 2 ^ s

/-! ## Scalar.Bits

    for i := range out { out[i] = (s.inner[i>>3] >> (i & 7)) & 1 }
-/

def bitsLoop (n : Nat) : (fuel i : Nat) → Array Int → Array Int
  | 0, _, out => out
  | fuel + 1, i, out =>
    bitsLoop n fuel (i + 1) (out.setIfInBounds i (Int.ofNat (byteAt n (i / 8) / 2 ^ (i % 8) % 2)))

def bits (n : Nat) : Array Int := bitsLoop n 256 0 (Array.replicate 256 0)

/-! ## Scalar.NonAdjacentForm(w) -/

/-- `var x [5]uint64`: the four words of the scalar followed by a zero word (index 4).
    Indices above 4 do not exist in Go; they are never used (`pos < 256` gives `idx ≤ 3`). -/
def x5 (n i : Nat) : Nat := if i < 4 then word64 n i else 0

/-- the `bitBuf` of one NAF iteration:

      idx := pos / 64; bitIdx := pos % 64
      if bitIdx < 64-w { bitBuf = x[idx] >> bitIdx }
      else             { bitBuf = (x[idx] >> bitIdx) | (x[1+idx] << (64 - bitIdx)) }            -/
def nafBitBuf (n w pos : Nat) : Nat :=
  let idx := pos / 64
  let bitIdx := pos % 64
  if bitIdx < 64 - w then shr64 (x5 n idx) bitIdx
  else shr64 (x5 n idx) bitIdx ||| shl64 (x5 n (1 + idx)) (64 - bitIdx)

/-- `for pos < 256 { … }` with loop-carried `pos`, `carry` and the output array `naf`.
    `pos` grows by at least one per iteration, so 256 units of fuel are never exhausted. -/
def nafLoop (n w : Nat) : (fuel pos carry : Nat) → Array Int → Array Int
  | 0, _, _, naf => naf
  | fuel + 1, pos, carry, naf =>
    if pos < 256 then
      -- window := carry + (bitBuf & windowMask)
      let window := carry + nafBitBuf n w pos % 2 ^ w
      if window % 2 = 0 then
        -- even window: keep the carry, advance one bit
        nafLoop n w fuel (pos + 1) carry naf
      else if window < 2 ^ w / 2 then
        -- carry = 0; naf[pos] = int8(window)
        nafLoop n w fuel (pos + w) 0 (naf.setIfInBounds pos (wrap8 window))
      else
        -- carry = 1; naf[pos] = int8(window) - int8(width)
        nafLoop n w fuel (pos + w) 1
          (naf.setIfInBounds pos (wrap8 (wrap8 window - wrap8 (Int.ofNat (2 ^ w)))))
    else naf

/-- `none` = `panic("curve/scalar: invalid width parameter")` -/
def nonAdjacentForm (w n : Nat) : Option (Array Int) :=
  if w < 2 ∨ w > 8 then none
  else some (nafLoop n w 256 0 0 (Array.replicate 256 0))

/-! ## Scalar.ToRadix16 -/

/-- Step 1: `output[2*i] = int8(botHalf(s.inner[i])); output[2*i+1] = int8(topHalf(s.inner[i]))` for i < 32 -/
def nibbleLoop (n : Nat) : (fuel i : Nat) → Array Int → Array Int
  | 0, _, out => out
  | fuel + 1, i, out =>
    let out := out.setIfInBounds (2 * i) (wrap8 (Int.ofNat (byteAt n i / 2 ^ 0 % 16)))
    let out := out.setIfInBounds (2 * i + 1) (wrap8 (Int.ofNat (byteAt n i / 2 ^ 4 % 16)))
    nibbleLoop n fuel (i + 1) out

/-- Step 2, for i < 63 (all in `int8`; `>> 4` is an arithmetic shift = floor division by 16):

      carry := (output[i] + 8) >> 4
      output[i] -= carry << 4
      output[i+1] += carry                                                                     -/
def recenterLoop : (fuel i : Nat) → Array Int → Array Int
  | 0, _, out => out
  | fuel + 1, i, out =>
    let carry := wrap8 (out.getD i 0 + 8) / 16
    let out := out.setIfInBounds i (wrap8 (out.getD i 0 - wrap8 (carry * 16)))
    let out := out.setIfInBounds (i + 1) (wrap8 (out.getD (i + 1) 0 + carry))
    recenterLoop fuel (i + 1) out

def toRadix16 (n : Nat) : Array Int :=
  recenterLoop 63 0 (nibbleLoop n 32 0 (Array.replicate 64 0))

/-! ## ToRadix2wSizeHint, Scalar.ToRadix2w(w) -/

/-- `none` = `panic("curve/scalar: invalid radix parameter")` -/
def toRadix2wSizeHint (w : Nat) : Option Nat :=
  if w = 6 ∨ w = 7 then some ((256 + w - 1) / w)
  else if w = 8 then some ((256 + w - 1) / w + 1)
  else none

/-- `digitsCount := (254 + w - 1) / w` -/
def digitsCount (w : Nat) : Nat := (254 + w - 1) / w

/-- the `bitBuf` of one ToRadix2w iteration (`scalar64x4` has four words; `1+u64Idx` is only used
    when `u64Idx ≠ 3`, and `u64Idx ≤ 3` for every `i < digitsCount`, see `radix2w_word_index`):

      u64Idx := bitOffset / 64; bitIdx := bitOffset % 64
      if bitIdx < 64-w || u64Idx == 3 { bitBuf = scalar64x4[u64Idx] >> bitIdx }
      else { bitBuf = (scalar64x4[u64Idx] >> bitIdx) | (scalar64x4[1+u64Idx] << (64 - bitIdx)) }      -/
def r2wBitBuf (n w bitOffset : Nat) : Nat :=
  let u64Idx := bitOffset / 64
  let bitIdx := bitOffset % 64
  if bitIdx < 64 - w ∨ u64Idx = 3 then shr64 (word64 n u64Idx) bitIdx
  else shr64 (word64 n u64Idx) bitIdx ||| shl64 (word64 n (1 + u64Idx)) (64 - bitIdx)

/-- `for i := 0; i < digitsCount; i++ { … }`; returns the digit array and the final carry.

      coef := carry + (bitBuf & windowMask)
      carry = (coef + radix/2) >> w
      digits[i] = int8(int64(coef) - int64(carry<<w))                                            -/
def r2wLoop (n w : Nat) : (fuel i carry : Nat) → Array Int → Array Int × Nat
  | 0, _, carry, digits => (digits, carry)
  | fuel + 1, i, carry, digits =>
    let coef := carry + r2wBitBuf n w (i * w) % 2 ^ w
    let carry' := shr64 (coef + 2 ^ w / 2) w
    let digit := wrap8 (Int.ofNat coef - Int.ofNat (shl64 carry' w))
    r2wLoop n w fuel (i + 1) carry' (digits.setIfInBounds i digit)

/-- terminal carry:  `case 8: digits[digitsCount] += int8(carry)`; `default: digits[digitsCount-1] += int8(carry << w)` -/
def r2wTerminal (w : Nat) (digits : Array Int) (carry : Nat) : Array Int :=
  let dc := digitsCount w
  if w = 8 then digits.setIfInBounds dc (wrap8 (digits.getD dc 0 + wrap8 (Int.ofNat carry)))
  else digits.setIfInBounds (dc - 1) (wrap8 (digits.getD (dc - 1) 0 + wrap8 (Int.ofNat (shl64 carry w))))

/-- `none` = the panic of `ToRadix2wSizeHint(w)` -/
def toRadix2w (w n : Nat) : Option (Array Int) :=
  match toRadix2wSizeHint w with
  | none => none
  | some _ =>
    let r := r2wLoop n w (digitsCount w) 0 0 (Array.replicate 43 0)
    some (r2wTerminal w r.1 r.2)

/-- every word index used by ToRadix2w exists in `scalar64x4` -/
theorem radix2w_word_index :
    ∀ w ∈ [6, 7, 8], ∀ i < digitsCount w, i * w / 64 ≤ 3 := by decide

/-- the digit array `[43]int8` is large enough for every index written -/
theorem radix2w_digit_index :
    ∀ w ∈ [6, 7, 8], digitsCount w ≤ 43 ∧ (w = 8 → digitsCount w < 43) ∧ 1 ≤ digitsCount w := by decide

/-! ## Specifications (independent of the code shape) -/

/-- value of a little-endian digit list in radix 2^r:  Σ dᵢ · 2^(r·i) -/
def recon (r : Nat) : List Int → Int
  | [] => 0
  | d :: ds => d + 2 ^ r * recon r ds

/-- every element is 0 or 1 -/
def bitsOk (ds : List Int) : Bool := ds.length == 256 && ds.all (fun d => d == 0 || d == 1)

/-- width-w NAF shape: every non-zero digit is odd, smaller than 2^(w-1) in magnitude and followed by
    at least w-1 zeros (as far as the list extends). -/
def nafShapeOk (w : Nat) : List Int → Bool
  | [] => true
  | d :: ds =>
    (d == 0 || (d % 2 == 1 && d.natAbs < 2 ^ (w - 1) && (ds.take (w - 1)).all (· == 0))) && nafShapeOk w ds

/-- radix-16 ranges proved for scalars < 2^255: [-8, 8) for the first 63 digits, [0, 8] for the last -/
def r16Ok (ds : List Int) : Bool :=
  ds.length == 64 && (ds.take 63).all (fun d => -8 ≤ d && d < 8) && (ds.drop 63).all (fun d => 0 ≤ d && d ≤ 8)

/-- radix-2^w ranges for scalars < 2^255: interior digits in [-2^(w-1), 2^(w-1)); the digit that takes
    the terminal carry (index digitsCount-1 for w < 8, the extra digit for w = 8) is non-negative and at
    most 2^(w-1); everything from the size hint on is zero. -/
def r2wOk (w : Nat) (ds : List Int) : Bool :=
  let h : Int := 2 ^ (w - 1)
  let dc := digitsCount w
  let interior := if w = 8 then dc else dc - 1
  ds.length == 43
  && (ds.take interior).all (fun d => -h ≤ d && d < h)
  && ((ds.drop interior).take 1).all (fun d => 0 ≤ d && d ≤ h)
  && (ds.drop (interior + 1)).all (· == 0)
  && (ds.drop ((toRadix2wSizeHint w).getD 0)).all (· == 0)

/-- textbook width-w NAF of `m`, `fuel` digits: an odd `m` yields `m mods 2^w`, an even one 0 -/
def specNaf (w : Nat) : (fuel : Nat) → (m : Nat) → List Int
  | 0, _ => []
  | fuel + 1, m =>
    if m % 2 = 1 then
      let r := m % 2 ^ w
      if r < 2 ^ (w - 1) then Int.ofNat r :: specNaf w fuel ((m - r) / 2)
      else (Int.ofNat r - 2 ^ w) :: specNaf w fuel ((m + (2 ^ w - r)) / 2)
    else 0 :: specNaf w fuel (m / 2)

/-- textbook signed radix-2^r expansion with `count` digits: balanced residues in [-2^(r-1), 2^(r-1)),
    the last digit takes what is left -/
def specRadix (r : Nat) : (count : Nat) → (m : Int) → List Int
  | 0, _ => []
  | 1, m => [m]
  | count + 1, m =>
    let d := (m + 2 ^ (r - 1)) % 2 ^ r - 2 ^ (r - 1)
    d :: specRadix r count ((m - d) / 2 ^ r)

/-- the expected ToRadix2w output: `sizeHint`-many textbook digits (w = 8: 33, otherwise digitsCount),
    zero-padded to 43 -/
def specRadix2w (w n : Nat) : List Int :=
  let k := if w = 8 then digitsCount w + 1 else digitsCount w
  let ds := specRadix w k (Int.ofNat n)
  ds ++ List.replicate (43 - ds.length) 0

end Voi.Model.Recoding
