/-
Wing–Gong linearizability search for recorded concurrent histories of `Cache.Get` / `Cache.Put` against the
sequential model `Model.LRU` (property C18, stream C2 `lru.lin`).

A history is a list of completed operations, each with a call stamp and a return stamp drawn from one global
atomic counter.  Operation `a` happens-before `b` iff `a.ret < b.call`.  The history is linearizable iff the
operations can be ordered in a sequence that respects happens-before and in which every `Get` returns what the
sequential model returns.  The search picks, among the remaining operations, any one that no other remaining
operation precedes (a minimal one), applies it to the model, checks the observed result, and recurses;
`fuel` = number of remaining operations makes the function structurally recursive (total).  Core Lean only.
-/
import Voi.Model.LRU
namespace Voi.Model.Linearize
open Voi.Model.LRU

structure Ev (K V : Type) where
  call : Nat
  ret : Nat
  op : Op K V
  res : Option V    -- observed result of a `Get` (ignored for `Put`, which returns nothing)

variable {K V : Type} [DecidableEq K] [DecidableEq V]

/-- no other remaining operation returned before `e` was called -/
def minimal (rem : List (Ev K V)) (e : Ev K V) : Bool :=
  rem.all (fun e' => !decide (e'.ret < e.call))

/-- does the model's output agree with the observed one? -/
def agrees (e : Ev K V) (out : Option V) : Bool :=
  match e.op with
  | .get _ => decide (out = e.res)
  | .put _ _ => true

def search : Nat → State K V → List (Ev K V) → Bool
  | 0, _, rem => rem.isEmpty
  | fuel + 1, s, rem =>
    rem.isEmpty ||
    (List.range rem.length).any (fun i =>
      match rem[i]? with
      | none => false
      | some e =>
        minimal rem e &&
        (let r := step s e.op
         agrees e r.2 && search fuel r.1 (rem.eraseIdx i)))

/-- is the history linearizable w.r.t. a fresh LRU cache of capacity `cap`? -/
def linearizable (cap : Nat) (h : List (Ev K V)) : Bool :=
  search h.length (new cap) h

end Voi.Model.Linearize
