/-
Code-shaped state-machine model of `primitives/ed25519/batch_verify.go` (property C09), together with the
model of `ExpandedPublicKey` (`ed25519_precomputation.go`).  Core Lean only.

Go                                             model
  BatchVerifier{entries, anyInvalid,             `State`
                anyCofactorless, anyNotExpanded}
  entry{R, negA, S, hram, signature,             `Entry`: the inputs of the Add call, the admission data computed by
        expandedA, wantCofactorless, canBeValid}   `(*entry).doInit` (`Admission`) and `serial`, the verdict that the serial
                                                   path of `Verify` computes from (R, -A, S, hram) for this entry
  (*entry).doInit                                `admit` (same order of checks, same early returns)
  Add / AddWithOptions / AddExpanded /           `step`
  AddExpandedWithOptions / ForceNoPublicKey-
  Expansion / Reset / Verify / VerifyBatchOnly

Behaviour of the Go code that the model follows exactly (all checked against the source):
* an option error at Add time (incompatible AllowNonCanonicalR+CofactorlessVerify, context > 255 bytes) is NOT a
  panic: `doInit` returns with canBeValid = false, wantCofactorless = false, expandedA = nil;
* a bad pre-hash length / unsupported hash is detected after the key and signature were unpacked:
  canBeValid = false but wantCofactorless / expandedA are already set;
* wantCofactorless is set before the key is examined;
* a public key of the wrong length, an undecodable key, a nil `*ExpandedPublicKey` and a zero-value
  `ExpandedPublicKey{}` all give an inadmissible entry (no panic — unlike `VerifyWithOptions`);
* `AddWithOptions` expands the key itself while `precomputeOk()` (no unexpanded entry so far, no forced
  non-expansion, fewer than 94 entries) and passes nil when the expansion fails;
* `AddExpandedWithOptions` sets anyNotExpanded when the entry ended up without an expanded key (which includes every
  entry rejected before or at the key check);
* `Verify` on an empty batch returns (false, nil); `VerifyBatchOnly` returns false for an empty batch, for any
  inadmissible entry and for any cofactorless entry, in this order, BEFORE touching the entropy source;
  a failing entropy source makes both panic (documented string panic) only when the batch equation is reached.

The only idealisation: the random 128-bit coefficients z_i are not modelled.  `batchEquation` is "every entry
satisfies its own cofactored verification equation"; the real test `IsSmallOrder(Σ z_i·E_i)` agrees with it for every
choice of the z_i when all entries are valid (completeness) and for all but a 2^-128 fraction of the choices
otherwise (DESIGN.md §7 C09 (A), (C)).
-/
import Voi.Spec.Ed25519
namespace Voi.Model.Batch
open Voi Voi.Spec Voi.Spec.Ed25519

/-! ### expanded public keys -/

/-- `ExpandedPublicKey`: the compressed key and the three cached flags (the table for -A is not modelled) -/
structure XKey where
  compressed : Bytes
  isValidY : Bool
  isSmallOrder : Bool
  isCanonical : Bool
deriving Inhabited

/-- the zero value `ExpandedPublicKey{}` (constructible by callers; rejected because isValidY = false) -/
def XKey.zeroValue : XKey := ⟨bzero 32, false, false, false⟩

/-- `NewExpandedPublicKey`: fails (`none`) for a wrong length and for a y that is not on the curve -/
def expand (pk : Bytes) : Option XKey :=
  match Pt.decode pk with
  | none => none
  | some A => some ⟨pk, true, A.isSmallOrder, Pt.isCanonicalEnc pk⟩

/-! ### options -/

inductive HashSel where
  | zero    -- crypto.Hash(0)
  | sha512  -- crypto.SHA512  (Ed25519ph)
  | other   -- any other hash id: rejected
deriving DecidableEq, Repr, Inhabited

/-- `*Options` as handed over by the caller (nil options are not modelled: the library documents a panic) -/
structure Opts where
  verify : Option VOpts   -- Options.Verify; `none` = nil = VerifyOptionsDefault
  hash : HashSel
  ctx : Bytes
deriving Inhabited

/-- `optionsDefault`, used by `Add` and `AddExpanded` -/
def Opts.default : Opts := ⟨some VOpts.default, .zero, ByteArray.empty⟩

/-- `(*Options).verify()`: `none` = error, otherwise the base dom2 flag -/
def optsVerify (o : Opts) : Option Dom :=
  if (match o.verify with | some v => v.nonCanR && v.cofactorless | none => false) then none else
  if o.ctx.size > 0 then (if o.ctx.size > 255 then none else some (some 0)) else some none

/-- `checkHash` -/
def checkHash (f : Dom) (msgLen : Nat) (h : HashSel) : Option Dom :=
  match h with
  | .sha512 => if msgLen ≠ 64 then none else some (some 1)
  | .zero => some f
  | .other => none

def Opts.vopts (o : Opts) : VOpts := o.verify.getD VOpts.default

/-! ### admission (`doInit`) -/

/-- `(*VerifyOptions).unpackPublicKey` -/
def unpackPublicKey (v : VOpts) (pk : Bytes) : Bool :=
  match Pt.decode pk with
  | none => false
  | some A =>
    if !v.smallA && A.isSmallOrder then false else
    if !v.nonCanA && !Pt.isCanonicalEnc pk then false else true

/-- `(*VerifyOptions).checkExpandedPublicKey` -/
def checkExpandedPublicKey (v : VOpts) (x : XKey) : Bool :=
  if !x.isValidY then false else
  if !v.smallA && x.isSmallOrder then false else
  if !v.nonCanA && !x.isCanonical then false else true

/-- `(*VerifyOptions).unpackSignature` (whether it succeeds) -/
def unpackSignature (v : VOpts) (sig : Bytes) : Bool :=
  if sig.size ≠ 64 then false else
  let rBytes := bslice sig 0 32
  if !(leNat (bslice sig 32 32) < L) then false else
  let rOk :=
    if v.cofactorless && v.smallR then true      -- verifyNeedsDecompressedR() = false
    else match Pt.decode rBytes with
      | none => false
      | some R => !(!v.smallR && R.isSmallOrder)
  if !rOk then false else
  if !v.nonCanR && !Pt.isCanonicalEnc rBytes then false else true

/-- the key argument of `doInit(publicKey, expandedPublicKey, …)` -/
inductive KeyIn where
  | plain (pk : Bytes)            -- doInit(pk, nil, …)
  | expanded (x : Option XKey)    -- doInit(nil, x, …); `none` = nil pointer
deriving Inhabited

/-- `compressedA`, the key bytes that enter the challenge hash -/
def KeyIn.bytes : KeyIn → Bytes
  | .plain pk => pk
  | .expanded (some x) => x.compressed
  | .expanded none => ByteArray.empty

structure Admission where
  canBeValid : Bool
  wantCofactorless : Bool
  expanded : Bool          -- e.expandedA != nil
deriving DecidableEq, Repr, Inhabited

/-- `(*entry).doInit`: what is left in the entry's flags -/
def admit (key : KeyIn) (msg sig : Bytes) (o : Opts) : Admission :=
  match optsVerify o with
  | none => ⟨false, false, false⟩
  | some fBase =>
    let v := o.vopts
    let wc := v.cofactorless
    let keyOk := match key with
      | .expanded (some x) => checkExpandedPublicKey v x
      | .expanded none => unpackPublicKey v ByteArray.empty   -- publicKey = nil
      | .plain pk => unpackPublicKey v pk
    if !keyOk then ⟨false, wc, false⟩ else
    let exp := match key with | .expanded (some _) => true | _ => false
    if !unpackSignature v sig then ⟨false, wc, exp⟩ else
    match checkHash fBase msg.size o.hash with
    | none => ⟨false, wc, exp⟩
    | some _ => ⟨true, wc, exp⟩

/-- What serial verification (the slow path of `Verify`) decides for an entry: false when the entry is
inadmissible, otherwise the verification equation selected by the entry's OWN options (cofactorless entries are
checked with the cofactorless byte comparison).  `Spec.Ed25519.verify` re-does the admission checks, which have
already passed at this point (`Props.BatchInv.admit_false_verify_false`). -/
def serialVerdict (key : KeyIn) (msg sig : Bytes) (o : Opts) : Bool :=
  if !(admit key msg sig o).canBeValid then false else
  match optsVerify o with
  | none => false
  | some fBase =>
    match checkHash fBase msg.size o.hash with
    | none => false
    | some f => Spec.Ed25519.verify o.vopts f o.ctx key.bytes msg sig

structure Entry where
  key : KeyIn
  msg : Bytes
  sig : Bytes
  opts : Opts
  adm : Admission
  serial : Bool
deriving Inhabited

def mkEntry (key : KeyIn) (msg sig : Bytes) (o : Opts) : Entry :=
  ⟨key, msg, sig, o, admit key msg sig o, serialVerdict key msg sig o⟩

/-! ### the verifier -/

structure State where
  entries : List Entry
  anyInvalid : Bool
  anyCofactorless : Bool
  anyNotExpanded : Bool
deriving Inhabited

/-- `NewBatchVerifier()` (and `NewBatchVerifierWithCapacity`, whose hint is not observable) -/
def init : State := ⟨[], false, false, false⟩

/-- `batchPippengerThreshold = (190 - 1) / 2` -/
def pippengerThreshold : Nat := 94

def precomputeOk (s : State) : Bool := !s.anyNotExpanded && s.entries.length < pippengerThreshold

/-- the entropy source handed to Verify/VerifyBatchOnly: only whether reading 32 bytes from it succeeds matters -/
inductive Entropy where
  | ok
  | fail
deriving DecidableEq, Repr, Inhabited

inductive Op where
  | add (pk msg sig : Bytes)
  | addWithOptions (pk msg sig : Bytes) (o : Opts)
  | addExpanded (x : Option XKey) (msg sig : Bytes)
  | addExpandedWithOptions (x : Option XKey) (msg sig : Bytes) (o : Opts)
  | forceNoPublicKeyExpansion
  | reset
  | verify (ent : Entropy)
  | verifyBatchOnly (ent : Entropy)

inductive Out where
  | unit
  | bool (b : Bool)
  | bools (all : Bool) (bits : List Bool)
  | panicDoc
deriving DecidableEq, Repr, Inhabited

def addExpandedWithOptions (s : State) (x : Option XKey) (msg sig : Bytes) (o : Opts) : State :=
  let e := mkEntry (.expanded x) msg sig o
  { entries := s.entries ++ [e]
    anyInvalid := s.anyInvalid || !e.adm.canBeValid
    anyCofactorless := s.anyCofactorless || e.adm.wantCofactorless
    anyNotExpanded := s.anyNotExpanded || !e.adm.expanded }

def addWithOptions (s : State) (pk msg sig : Bytes) (o : Opts) : State :=
  if precomputeOk s then
    addExpandedWithOptions s (expand pk) msg sig o
  else
    let e := mkEntry (.plain pk) msg sig o
    { entries := s.entries ++ [e]
      anyInvalid := s.anyInvalid || !e.adm.canBeValid
      anyCofactorless := s.anyCofactorless || e.adm.wantCofactorless
      anyNotExpanded := true }

/-- IDEALISED batch equation: every entry satisfies its own (cofactored) equation; see the header. -/
def batchEquation (s : State) : Bool := s.entries.all (·.serial)

def verifyBatchOnly (s : State) (ent : Entropy) : Out :=
  if s.entries.isEmpty then .bool false else
  if s.anyInvalid then .bool false else
  if s.anyCofactorless then .bool false else
  match ent with
  | .fail => .panicDoc            -- "ed25519: failed to initialize random scalar generator"
  | .ok => .bool (batchEquation s)

/-- the serial (slow) path of `Verify` -/
def verifySerial (s : State) : Out :=
  let bits := s.entries.map (fun e => if e.adm.canBeValid then e.serial else false)
  -- allValid := !anyInvalid; for every admissible entry: allValid = allValid && valid[i]
  let allValid := s.entries.foldl (fun acc e => if e.adm.canBeValid then acc && e.serial else acc) (!s.anyInvalid)
  .bools allValid bits

def verify (s : State) (ent : Entropy) : Out :=
  if s.entries.isEmpty then .bools false [] else
  if !s.anyInvalid && !s.anyCofactorless then
    match verifyBatchOnly s ent with
    | .panicDoc => .panicDoc
    | .bool true => .bools true (s.entries.map (·.adm.canBeValid))   -- fast path
    | _ => verifySerial s
  else verifySerial s

def step (s : State) : Op → State × Out
  | .add pk msg sig => (addWithOptions s pk msg sig Opts.default, .unit)
  | .addWithOptions pk msg sig o => (addWithOptions s pk msg sig o, .unit)
  | .addExpanded x msg sig => (addExpandedWithOptions s x msg sig Opts.default, .unit)
  | .addExpandedWithOptions x msg sig o => (addExpandedWithOptions s x msg sig o, .unit)
  | .forceNoPublicKeyExpansion => ({ s with anyNotExpanded := true }, .unit)
  | .reset => (init, .unit)
  | .verify ent => (s, verify s ent)
  | .verifyBatchOnly ent => (s, verifyBatchOnly s ent)

/-- run a history, collecting the outputs -/
def run (s : State) : List Op → State × List Out
  | [] => (s, [])
  | op :: ops =>
    let (s1, o) := step s op
    let (s2, os) := run s1 ops
    (s2, o :: os)

/-! ### single verification with an expanded key (`VerifyExpandedWithOptions`), used by the caching verifier -/

/-- `none` = documented panic (bad options) -/
def verifyExpanded (x : XKey) (msg sig : Bytes) (o : Opts) : Option Bool :=
  match optsVerify o with
  | none => none
  | some fBase =>
    match checkHash fBase msg.size o.hash with
    | none => none
    | some f =>
      if !checkExpandedPublicKey o.vopts x then some false else
      some (Spec.Ed25519.verify o.vopts f o.ctx x.compressed msg sig)

end Voi.Model.Batch
