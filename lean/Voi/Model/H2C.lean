/-
CODE-SHAPED model of the library's hash-to-curve code (property C14):

 * `primitives/h2c/expand_message.go`   `ExpandMessageXMD`, `newXOF`, `ExpandMessageXOF`
 * `primitives/h2c/h2c.go`              `uniformToField25519`, `reversedByteSlice`, `encodeToCurve`,
                                        `hashToCurve`, the eight suite functions
 * `internal/elligator/elligator2.go`   `montgomeryFlavor`, `EdwardsFlavor`, `SetEdwardsFromXY`

The functions follow the Go text statement by statement: the order of the parameter checks, the
mutable `hash.Hash` / `sha3.ShakeHash` objects (`Write`, `Sum`, `Reset`, `Clone`, `Read`) threaded
through as values, the `out` buffer the caller passes in (its length IS `len_in_bytes`; its old
contents must be overwritten), `copy(out[off:], …)`, the reused `xorBuf`, the `b_1` short-cut, the
`wanted` countdown with the final partial block; the straight-line sequence of field operations of
Elligator 2 with its `ConditionalAssign` / `ConditionalNegate` / `IsNegative` / `IsZero` choices as
0/1 integers combined by `^` and `|`.

What is *not* re-modelled here is what other properties own and tie to the code on their own streams:
the field API (`Voi.Spec.Fp`, streams F2/T0: `Fp.mul`, `Fp.inv` = `Invert`, `Fp.sqrtRatioM1 1 ·` =
`InvSqrt`, `leNat · % p` = `SetBytesWide`), Edwards point decoding / addition / cofactor
multiplication (`Voi.Spec.Pt`, streams D1/G1), the ristretto255 one-way map (stream T1) and the hash
functions themselves.

Outcomes: `none` from an expander = the Go function returns an error; `Res.panic` = an explicit Go
`panic(...)` (the library documents them as unreachable — theorem `Voi.Props.C14`: they are).
The equality of every function here with the RFC 9380 Spec (`Voi.Spec.H2C`), for ALL inputs, is
`Voi/Props/C14.lean`; the tie of this model to the Go code on every run is stream H3
(`Voi/Drv/H2CModel.lean`, `go/harness/s_h2c_model.go`).  Core Lean only.
-/
import Voi.Spec.H2C
namespace Voi.Model.H2C
open Voi Voi.Spec
open Voi.Spec.H2C (HashFn XofFn)

/-! ## Go building blocks -/

/-- Go's `copy(dst[off:], src)`: copies `min(len(dst) - off, len(src))` bytes, never grows `dst`. -/
def goCopy (dst : Bytes) (off : Nat) (src : Bytes) : Bytes :=
  src.copySlice 0 dst off (min (dst.size - off) src.size)

/-- Go's `[]byte{a, b, …}` -/
def lit (l : List UInt8) : Bytes := l.toByteArray

/-- Go's `byte(n)` conversion of an `int` (truncating) -/
def byte (n : Nat) : UInt8 := UInt8.ofNat n

/-- Go's `hash.Hash` as the code uses it.  The state is the byte string written since the last
`Reset`; `Sum(nil)` hashes it without changing the state. -/
structure Hasher where
  fn : HashFn
  written : Bytes

namespace Hasher
/-- `hFunc.New()` -/
def new (fn : HashFn) : Hasher := ⟨fn, ByteArray.empty⟩
def write (h : Hasher) (b : Bytes) : Hasher := { h with written := h.written ++ b }
/-- `h.Sum(nil)` -/
def sum (h : Hasher) : Bytes := h.fn.H h.written
def reset (h : Hasher) : Hasher := { h with written := ByteArray.empty }
/-- `hFunc.Size()` -/
def size (h : Hasher) : Nat := h.fn.b
def blockSize (h : Hasher) : Nat := h.fn.s
end Hasher

/-- Go's `sha3.ShakeHash`: the bytes absorbed so far and the number of output bytes already
squeezed.  The caller may hand in an instance in ANY state. -/
structure Xof where
  fn : XofFn
  absorbed : Bytes
  squeezed : Nat

namespace Xof
def clone (x : Xof) : Xof := x
def reset (x : Xof) : Xof := { x with absorbed := ByteArray.empty, squeezed := 0 }
def write (x : Xof) (b : Bytes) : Xof := { x with absorbed := x.absorbed ++ b }
/-- `io.ReadFull(x, buf)`: the next `len(buf)` bytes of the output stream, written over `buf`
(SHAKE never returns an error) -/
def readFull (x : Xof) (buf : Bytes) : Bytes × Xof :=
  let stream := x.fn x.absorbed (x.squeezed + buf.size)
  (goCopy buf 0 (stream.extract x.squeezed (x.squeezed + buf.size)),
   { x with squeezed := x.squeezed + buf.size })
end Xof

/-! ## expand_message.go -/

/-- `kay`: k = target security level in bits -/
def kay : Nat := 128
/-- `ell` of h2c.go: L = ceil((ceil(log2(2^255-19)) + k) / 8) -/
def ell : Nat := 48
def maxUint16 : Nat := 65535
def maxUint8 : Nat := 255

/-- `var oversizeDST = []byte("H2C-OVERSIZE-DST-")` -/
def oversizeDST : Bytes := strBytes "H2C-OVERSIZE-DST-"

/-- `for i, v := range b0 { xorBuf[i] ^= v }` -/
def xorInto (xorBuf b0 : Bytes) : Bytes :=
  (List.range b0.size).foldl (fun buf i => buf.set! i (buf.get! i ^^^ b0.get! i)) xorBuf

/-- The loop `for i, wanted := 2, lenInBytes-bInBytes; wanted > 0; i++ { … }` of `ExpandMessageXMD`
(step 9–11 of §5.3.1).  State: the hash object, the loop counter `i`, `wanted`, the reused `xorBuf`
(holds b_(i-1) on entry, strxor(b_0, b_(i-1)) in the middle, b_i at the end: `h.Sum(xorBuf[:0])`
writes in place because cap(xorBuf) = bInBytes = the digest size), the output buffer and `outOff`.
`fuel` bounds the number of iterations (the caller passes the initial `wanted`, which suffices as
`wanted` decreases by `toAppend ≥ 1` per iteration whenever `bInBytes ≥ 1`). -/
def xmdLoop (b0 DST : Bytes) (lenDST bInBytes : Nat) :
    (fuel : Nat) → (h : Hasher) → (i wanted : Nat) → (xorBuf out : Bytes) → (outOff : Nat) → Bytes
  | 0, _, _, _, _, out, _ => out
  | fuel+1, h, i, wanted, xorBuf, out, outOff =>
    if wanted = 0 then out else            -- loop condition `wanted > 0`
    -- 10. b_i = H(strxor(b_0, b_(i - 1)) || I2OSP(i, 1) || DST_prime)
    let xorBuf := xorInto xorBuf b0
    let h := h.reset
    let h := h.write xorBuf                 -- strxor(b_0, b_(i - 1))
    let h := h.write (lit [byte i])         -- I2OSP(i, 1)
    let h := h.write DST                    -- DST
    let h := h.write (lit [byte lenDST])    -- I2OSP(len(DST), 1)
    let xorBuf := h.sum                     -- h.Sum(xorBuf[:0]): xorBuf = b_i
    -- Append up to b_in_bytes from b_i (this handles the substr)
    let toAppend := if wanted > bInBytes then bInBytes else wanted
    let out := goCopy out outOff (xorBuf.extract 0 toAppend)
    xmdLoop b0 DST lenDST bInBytes fuel h (i + 1) (wanted - toAppend) xorBuf out (outOff + toAppend)

/-- `ExpandMessageXMD(out, hFunc, domainSeparator, message)`; `none` = an error is returned (and
`out` is left alone), `some out'` = nil error with the new contents of `out`. -/
def expandMessageXMD (out : Bytes) (hFunc : HashFn) (domainSeparator message : Bytes) : Option Bytes :=
  let lenInBytes := out.size
  let bInBytes := hFunc.b
  let h := Hasher.new hFunc
  let rInBytes := h.blockSize
  -- 0. Ensure parameters are sensible.
  if bInBytes < 2 * kay / 8 then none else
  if lenInBytes = 0 ∨ lenInBytes > maxUint16 then none else
  -- 5.4.3 Using DSTs longer than 255 bytes.
  let (h, DST, lenDST) :=
    if domainSeparator.size > maxUint8 then
      -- DST = H("H2C-OVERSIZE-DST-" || a_very_long_DST)
      let h := h.write oversizeDST
      let h := h.write domainSeparator
      let DST := h.sum
      (h.reset, DST, DST.size)
    else (h, domainSeparator, domainSeparator.size)
  -- 1. ell = ceil(len_in_bytes / b_in_bytes)
  let ell := (lenInBytes + bInBytes - 1) / bInBytes
  -- 2. ABORT if ell > 255 or len_in_bytes > 65535 or len(DST) > 255
  if ell > 255 then none else
  -- 7. b_0 = H(msg_prime)
  let h := h.write (bzero rInBytes)                                          -- Z_pad
  let h := h.write message                                                   -- msg
  let h := h.write (lit [byte (lenInBytes >>> 8), byte lenInBytes, 0])       -- l_i_b_str || I2OSP(0, 1)
  let h := h.write DST                                                       -- DST
  let h := h.write (lit [byte lenDST])                                       -- I2OSP(len(DST), 1)
  let b0 := h.sum
  -- 8. b_1 = H(b_0 || I2OSP(1, 1) || DST_prime)
  let h := h.reset
  let h := h.write b0
  let h := h.write (lit [1])
  let h := h.write DST
  let h := h.write (lit [byte lenDST])
  let b1 := h.sum
  -- Special case: if len_in_bytes <= b_in_bytes, we can return output from b_1 and terminate.
  if lenInBytes ≤ bInBytes then some (goCopy out 0 (b1.extract 0 lenInBytes)) else
  let xorBuf := b1                       -- append(make([]byte, 0, bInBytes), b1...)
  let out := goCopy out 0 b1             -- 11. uniform_bytes = b_1 || ...
  let outOff := b1.size
  let wanted := lenInBytes - bInBytes
  some (xmdLoop b0 DST lenDST bInBytes wanted h 2 wanted xorBuf out outOff)

/-- `newXOF`: `xofFunc.Clone()` then `Reset()` -/
def newXOF (xofFunc : Xof) : Xof := xofFunc.clone.reset

/-- `ExpandMessageXOF(out, xofFunc, domainSeparator, message)` -/
def expandMessageXOF (out : Bytes) (xofFunc : Xof) (domainSeparator message : Bytes) : Option Bytes :=
  let lenInBytes := out.size
  -- 1. ABORT if len_in_bytes > 65535 or len(DST) > 255
  if lenInBytes = 0 ∨ lenInBytes > maxUint16 then none else
  -- Get a fresh instance of the XOF to work with.
  let xof := newXOF xofFunc
  -- 3. msg_prime = msg || I2OSP(len_in_bytes, 2) || DST_prime (appended next)
  let xof := xof.write message
  let xof := xof.write (lit [byte (lenInBytes >>> 8), byte lenInBytes])
  -- 2. DST_prime = DST || I2OSP(len(DST), 1)
  let (DST, lenDST) :=
    if domainSeparator.size > maxUint8 then
      let newDST := bzero (2 * kay / 8)
      let dstXOF := newXOF xofFunc
      let dstXOF := dstXOF.write oversizeDST
      let dstXOF := dstXOF.write domainSeparator
      let newDST := (dstXOF.readFull newDST).1
      (newDST, newDST.size)
    else (domainSeparator, domainSeparator.size)
  let xof := xof.write DST
  let xof := xof.write (lit [byte lenDST])
  -- 4. uniform_bytes = H(msg_prime, len_in_bytes)
  some (xof.readFull out).1

/-! ## h2c.go: uniform bytes → field element -/

/-- `reversedByteSlice` -/
def reversedByteSlice (b : Bytes) : Bytes := b.data.toList.reverse.toByteArray

/-- `field.ElementWideSize` -/
def elementWideSize : Nat := 64

/-- `(*field.Element).SetBytesWide`: error unless 64 bytes; else the 512-bit little-endian value
reduced mod p (field API, stream F2) -/
def setBytesWide (inp : Bytes) : Option Nat :=
  if inp.size ≠ elementWideSize then none else some (leNat inp % p)

/-- `uniformToField25519`; `none` = one of its two `panic`s -/
def uniformToField25519 (b : Bytes) : Option Nat :=
  if b.size ≠ ell then none else
  -- reverse the byte-order, and zero-extend
  let bLE := reversedByteSlice b
  let bLEExtended := goCopy (bzero elementWideSize) 0 bLE
  setBytesWide bLEExtended

/-! ## internal/elligator: constants (values; `Voi.Props.C20.Field` proves that the limb literals
of constants_u64.go and constants_u32.go denote exactly these numbers) -/

/-- `constMONTGOMERY_A` -/
def constMONTGOMERY_A : Nat := 486662
/-- `constMONTGOMERY_NEG_A` -/
def constMONTGOMERY_NEG_A : Nat := p - 486662
/-- `constMONTGOMERY_A_SQUARED` -/
def constMONTGOMERY_A_SQUARED : Nat := 486662 * 486662
/-- `constMONTGOMERY_SQRT_NEG_A_PLUS_TWO` -/
def constMONTGOMERY_SQRT_NEG_A_PLUS_TWO : Nat :=
  6853475219497561581579357271197624642482790079785650197046958215289687604742
/-- `constMONTGOMERY_U_FACTOR` = −2·sqrt(−1) -/
def constMONTGOMERY_U_FACTOR : Nat :=
  18533721865243085798171333894366869895742859300972501694240749857708905250445
/-- `constMONTGOMERY_V_FACTOR` = sqrt(U_FACTOR) -/
def constMONTGOMERY_V_FACTOR : Nat :=
  38214883241950591754978413199355411911188925816896391856984770930832735035198
/-- `constFieldZero`, `field.One` -/
def constFieldZero : Nat := 0
def fieldOne : Nat := 1

/-! ## the field API as used by elligator2.go (values reduced mod p; choices are 0/1 integers) -/

def b2i (b : Bool) : Nat := if b then 1 else 0
/-- `Square2`: 2·a² -/
def feSquare2 (a : Nat) : Nat := Fp.mul 2 (Fp.sq a)
/-- `InvSqrt` = `SqrtRatioI(&One, fe)`: (value, wasSquare) -/
def feInvSqrt (a : Nat) : Nat × Nat := let (ok, r) := Fp.sqrtRatioM1 1 a; (r, b2i ok)
/-- `ConditionalAssign(other, choice)` -/
def feConditionalAssign (self other choice : Nat) : Nat := if choice = 1 then other else self
/-- `ConditionalNegate(choice)` -/
def feConditionalNegate (self choice : Nat) : Nat := if choice = 1 then Fp.neg self else self
/-- `IsNegative()` -/
def feIsNegative (a : Nat) : Nat := b2i (Fp.isNeg a)
/-- `IsZero()` -/
def feIsZero (a : Nat) : Nat := b2i (a % p == 0)

/-! ## internal/elligator/elligator2.go -/

/-- `montgomeryFlavor(r)`: Montgomery (u, v) of the Elligator 2 representative `r` -/
def montgomeryFlavor (r : Nat) : Nat × Nat :=
  let t1 := feSquare2 r                              -- t1.Square2(r)
  let u := Fp.add t1 fieldOne                        -- u.Add(&t1, &field.One)
  let t2 := Fp.sq u                                  -- t2.Square(&u)
  let t3 := Fp.mul constMONTGOMERY_A_SQUARED t1      -- t3.Mul(&constMONTGOMERY_A_SQUARED, &t1)   numerator
  let t3 := Fp.sub t3 t2                             -- t3.Sub(&t3, &t2)
  let t3 := Fp.mul t3 constMONTGOMERY_A              -- t3.Mul(&t3, &constMONTGOMERY_A)
  let t1 := Fp.mul t2 u                              -- t1.Mul(&t2, &u)                           denominator
  let t1 := Fp.mul t1 t3                             -- t1.Mul(&t1, &t3)
  let (t1, isSquare) := feInvSqrt t1                 -- _, isSquare = t1.InvSqrt()
  let u := Fp.sq r                                   -- u.Square(r)
  let u := Fp.mul u constMONTGOMERY_U_FACTOR         -- u.Mul(&u, &constMONTGOMERY_U_FACTOR)
  let v := Fp.mul r constMONTGOMERY_V_FACTOR         -- v.Mul(r, &constMONTGOMERY_V_FACTOR)
  let u := feConditionalAssign u fieldOne isSquare   -- u.ConditionalAssign(&field.One, isSquare)
  let v := feConditionalAssign v fieldOne isSquare   -- v.ConditionalAssign(&field.One, isSquare)
  let v := Fp.mul v t3                               -- v.Mul(&v, &t3)
  let v := Fp.mul v t1                               -- v.Mul(&v, &t1)
  let t1 := Fp.sq t1                                 -- t1.Square(&t1)
  let u := Fp.mul u constMONTGOMERY_NEG_A            -- u.Mul(&u, &constMONTGOMERY_NEG_A)
  let u := Fp.mul u t3                               -- u.Mul(&u, &t3)
  let u := Fp.mul u t2                               -- u.Mul(&u, &t2)
  let u := Fp.mul u t1                               -- u.Mul(&u, &t1)
  let v := feConditionalNegate v (isSquare ^^^ feIsNegative v)  -- v.ConditionalNegate(isSquare ^ v.IsNegative())
  (u, v)

/-- Result of a function that contains an explicit `panic`. -/
inductive Res (α : Type) where
  | ok (a : α)
  | err
  | panic
deriving Repr

/-- `SetEdwardsFromXY(p, x, y)`: compress (canonical y bytes, bit 255 := sign of x) and decompress
with `SetCompressedY` (`Pt.decode`, stream D1); `none` = the `panic` on a decompression failure. -/
def setEdwardsFromXY (x y : Nat) : Option Pt :=
  -- _ = y.ToBytes(pCompressed[:]); pCompressed[31] ^= byte(x.IsNegative()) << 7
  let pCompressed := natLE (y % p + 2 ^ 255 * feIsNegative x) 32
  Pt.decode pCompressed

/-- `EdwardsFlavor(r)`; `none` = the `panic` inside `SetEdwardsFromXY` -/
def edwardsFlavor (r : Nat) : Option Pt :=
  let (u, v) := montgomeryFlavor r
  -- Per RFC 7748: (x, y) = (sqrt(-486664)*u/v, (u-1)/(u+1))
  let x := Fp.inv v                                        -- x.Invert(&v)
  let x := Fp.mul x u                                      -- x.Mul(&x, &u)
  let x := Fp.mul x constMONTGOMERY_SQRT_NEG_A_PLUS_TWO    -- x.Mul(&x, &constMONTGOMERY_SQRT_NEG_A_PLUS_TWO)
  let uMinusOne := Fp.sub u fieldOne                       -- uMinusOne.Sub(&u, &field.One)
  let uPlusOne := Fp.add u fieldOne                        -- uPlusOne.Add(&u, &field.One)
  let uPlusOneIsZero := feIsZero uPlusOne                  -- uPlusOneIsZero := uPlusOne.IsZero()
  let uPlusOne := Fp.inv uPlusOne                          -- uPlusOne.Invert(&uPlusOne)
  let y := Fp.mul uMinusOne uPlusOne                       -- y.Mul(&uMinusOne, &uPlusOne)
  let resultUndefined := uPlusOneIsZero ||| feIsZero v     -- resultUndefined := uPlusOneIsZero | v.IsZero()
  let x := feConditionalAssign x constFieldZero resultUndefined  -- x.ConditionalAssign(&constFieldZero, resultUndefined)
  let y := feConditionalAssign y fieldOne resultUndefined        -- y.ConditionalAssign(&field.One, resultUndefined)
  setEdwardsFromXY x y

/-! ## h2c.go: the tails of the suites and the suites -/

def encodeToCurveSize : Nat := ell
def hashToCurveSize : Nat := ell * 2

/-- `encodeToCurve(uniformBytes *[48]byte)`; `none` = a `panic` below it (`Option.bind` threads the
panics of `uniformToField25519` and `SetEdwardsFromXY`) -/
def encodeToCurve (uniformBytes : Bytes) : Option Pt :=
  (uniformToField25519 uniformBytes).bind fun fe =>        -- fe := uniformToField25519(uniformBytes[:])
  (edwardsFlavor fe).bind fun Q =>                         -- Q := elligator.EdwardsFlavor(fe)
  some (Pt.mul8 Q)                                         -- p.MulByCofactor(Q)

/-- `hashToCurve(uniformBytes *[96]byte)` -/
def hashToCurve (uniformBytes : Bytes) : Option Pt :=
  (uniformToField25519 (uniformBytes.extract 0 ell)).bind fun fe0 =>                      -- uniformBytes[:ell]
  (uniformToField25519 (uniformBytes.extract ell uniformBytes.size)).bind fun fe1 =>      -- uniformBytes[ell:]
  (edwardsFlavor fe0).bind fun Q0 =>                       -- Q0 := elligator.EdwardsFlavor(fe0)
  (edwardsFlavor fe1).bind fun Q1 =>                       -- Q1 := elligator.EdwardsFlavor(fe1)
  some (Pt.mul8 (Pt.add Q0 Q1))                            -- p.Add(Q0, Q1); p.MulByCofactor(&p)

/-- an expander as the suite functions call it: `expand(uniformBytes[:], domainSeparator, message)` -/
abbrev Expand := (out domainSeparator message : Bytes) → Option Bytes

def expandXMD (hFunc : HashFn) : Expand := fun out dst msg => expandMessageXMD out hFunc dst msg
def expandXOF (xofFunc : Xof) : Expand := fun out dst msg => expandMessageXOF out xofFunc dst msg

def resOfOption {α : Type} : Option α → Res α
  | some a => .ok a
  | none => .panic

/-- `Edwards25519_XMD_ELL2_RO` / `Edwards25519_XOF_ELL2_RO`: `var uniformBytes [96]byte`, expand,
`hashToCurve` -/
def edwards25519_ELL2_RO (expand : Expand) (domainSeparator message : Bytes) : Res Pt :=
  match expand (bzero hashToCurveSize) domainSeparator message with
  | none => .err
  | some uniformBytes => resOfOption (hashToCurve uniformBytes)

/-- `Edwards25519_XMD_ELL2_NU` / `Edwards25519_XOF_ELL2_NU` -/
def edwards25519_ELL2_NU (expand : Expand) (domainSeparator message : Bytes) : Res Pt :=
  match expand (bzero encodeToCurveSize) domainSeparator message with
  | none => .err
  | some uniformBytes => resOfOption (encodeToCurve uniformBytes)

/-- `curve.RistrettoUniformSize` -/
def ristrettoUniformSize : Nat := 64

/-- `Ristretto255_XMD_R255MAP_RO` / `Ristretto255_XOF_R255MAP_RO`: expand to 64 bytes, then
`RistrettoPoint.SetUniformBytes` (the one-way map of RFC 9496, owned by C11 / stream T1); the result
is given as the canonical encoding -/
def ristretto255_R255MAP_RO (expand : Expand) (domainSeparator message : Bytes) : Res Bytes :=
  match expand (bzero ristrettoUniformSize) domainSeparator message with
  | none => .err
  | some uniformBytes => .ok (Voi.Spec.H2C.R255.oneWayMap uniformBytes)

def edwards25519_XMD_SHA512_ELL2_RO : Bytes → Bytes → Res Pt := edwards25519_ELL2_RO (expandXMD Voi.Spec.H2C.hSha512)
def edwards25519_XMD_SHA512_ELL2_NU : Bytes → Bytes → Res Pt := edwards25519_ELL2_NU (expandXMD Voi.Spec.H2C.hSha512)

end Voi.Model.H2C
