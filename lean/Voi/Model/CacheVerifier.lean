/-
Code-shaped model of `primitives/ed25519/extra/cache/cache.go` (the caching verifier, property C09) on top of
`Model.LRU` (the cache) and `Model.Batch` (expanded keys, expanded-key verification, the batch verifier).

  upsertPublicKey   compressed.SetBytes(pk) fails (length ≠ 32)         → (nil, false)
                    cache.Get hit                                       → (cached, true)
                    miss: NewExpandedPublicKey fails (undecodable key)  → (nil, false)      nothing is cached
                          otherwise cache.Put(pk, expanded)             → (expanded, true)
  VerifyWithOptions !ok → false   (BEFORE the options are looked at: with a bad key AND bad options the cached
                    verifier returns false where plain `VerifyWithOptions` panics — documented difference)
                    else VerifyExpandedWithOptions(expanded, …)  (panics on bad options: `none`)
  AddWithOptions    verifier.AddExpandedWithOptions(expanded or nil, …)
  AddPublicKey      upsertPublicKey, result dropped
Core Lean only.
-/
import Voi.Model.LRU
import Voi.Model.Batch
namespace Voi.Model.CacheVerifier
open Voi Voi.Model Voi.Model.Batch

abbrev Cache := Model.LRU.State Bytes XKey

/-- `(*Verifier).upsertPublicKey`: `none` = (nil, false) -/
def upsert (c : Cache) (pk : Bytes) : Cache × Option XKey :=
  if pk.size ≠ 32 then (c, none) else
  match Model.LRU.get c pk with
  | (c1, some x) => (c1, some x)
  | (c1, none) =>
    match expand pk with
    | none => (c1, none)
    | some x => (Model.LRU.put c1 pk (some x), some x)

/-- `(*Verifier).VerifyWithOptions`; `none` = documented panic of `VerifyExpandedWithOptions` -/
def verify (c : Cache) (pk msg sig : Bytes) (o : Opts) : Cache × Option Bool :=
  match upsert c pk with
  | (c1, none) => (c1, some false)
  | (c1, some x) => (c1, verifyExpanded x msg sig o)

/-- `(*Verifier).AddWithOptions` -/
def addToBatch (c : Cache) (b : Batch.State) (pk msg sig : Bytes) (o : Opts) : Cache × Batch.State :=
  let r := upsert c pk
  (r.1, addExpandedWithOptions b r.2 msg sig o)

/-- `(*Verifier).AddPublicKey` -/
def addPublicKey (c : Cache) (pk : Bytes) : Cache := (upsert c pk).1

end Voi.Model.CacheVerifier
