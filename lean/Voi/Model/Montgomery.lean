/-
Code-shaped model of curve/montgomery.go and of the callers in primitives/x25519/x25519.go,
over `Nat` modulo p (field elements are kept reduced; limb representations are the business of
the field-arithmetic properties, not of C07).

  * `diffAddAndDouble`  = montgomeryDifferentialAddAndDouble (t0 … t17, `Mul121666`)
  * `mulLoop` / `mul`   = (*MontgomeryPoint).Mul: Algorithm 8 of Costello–Smith 2017, 255 iterations
                          i = 254 … 0 with a conditional swap on bits[i+1] xor bits[i], a last swap
                          on bits[0] and the final inversion (`fromProjective`)
  * `setEdwards`        = (*MontgomeryPoint).SetEdwards
  * `scalarMult`, `scalarBaseMult`, `x25519` = the x25519 package entry points

All loops are structural recursions so that `Model = Spec` can be proved by induction over the
iterations.  Core Lean only.
-/
import Voi.Spec.Edwards
namespace Voi.Model.Montgomery
open Voi Voi.Spec

/-- montgomeryProjectivePoint -/
structure ProjPt where
  U : Nat
  W : Nat
deriving Repr, BEq, DecidableEq, Inhabited

/-- (*montgomeryProjectivePoint).identity -/
def ProjPt.identity : ProjPt := ⟨1, 0⟩

/-- field.Element.SetBytes: bit 255 is ignored, the value is reduced -/
def feFromBytes (b : Bytes) : Nat := (leNat b % 2^255) % p

/-- field.Element.ToBytes: canonical encoding -/
def feToBytes (a : Nat) : Bytes := natLE (a % p) 32

/-- conditionalSwap: swaps U and W of both points iff choice = 1 -/
def conditionalSwap (a b : ProjPt) (choice : Nat) : ProjPt × ProjPt :=
  if choice = 1 then (b, a) else (a, b)

/-- field.Element.Mul121666 -/
def mul121666 (a : Nat) : Nat := Fp.mul a 121666

/-- montgomeryDifferentialAddAndDouble(P, Q, affine_PmQ): returns the new (P, Q) -/
def diffAddAndDouble (P Q : ProjPt) (affinePmQ : Nat) : ProjPt × ProjPt :=
  let t0 := Fp.add P.U P.W
  let t1 := Fp.sub P.U P.W
  let t2 := Fp.add Q.U Q.W
  let t3 := Fp.sub Q.U Q.W
  let t4 := Fp.sq t0
  let t5 := Fp.sq t1
  let t6 := Fp.sub t4 t5
  let t7 := Fp.mul t0 t3
  let t8 := Fp.mul t1 t2
  let qU := Fp.add t7 t8          -- t9
  let qW := Fp.sub t7 t8          -- t10
  let qU := Fp.sq qU              -- t11
  let qW := Fp.sq qW              -- t12
  let pW := mul121666 t6          -- t13
  let pU := Fp.mul t4 t5          -- t14
  let pW := Fp.add pW t5          -- t15
  let pW := Fp.mul t6 pW          -- t16
  let qW := Fp.mul affinePmQ qW   -- t17
  (⟨pU, pW⟩, ⟨qU, qW⟩)

/-- scalar.Bits()[i] for a scalar held as the little-endian value of its 32 bytes -/
def bit (s : Nat) (i : Nat) : Nat := (s >>> i) % 2

/-- body of the loop of Mul for index i -/
def mulStep (affineU s : Nat) (i : Nat) (st : ProjPt × ProjPt) : ProjPt × ProjPt :=
  let choice := bit s (i + 1) ^^^ bit s i
  let (x0, x1) := conditionalSwap st.1 st.2 choice
  diffAddAndDouble x0 x1 affineU

/-- `mulLoop affineU s n st` runs the iterations i = n-1, …, 0 -/
def mulLoop (affineU s : Nat) : Nat → ProjPt × ProjPt → ProjPt × ProjPt
  | 0, st => st
  | i+1, st => mulLoop affineU s i (mulStep affineU s i st)

/-- fromProjective: U / W with Invert(0) = 0 -/
def fromProjective (pp : ProjPt) : Bytes := feToBytes (Fp.mul pp.U (Fp.inv pp.W))

/-- (*MontgomeryPoint).Mul(point, scalar); `s` is the value of scalar's 32 bytes -/
def mul (point : Bytes) (s : Nat) : Bytes :=
  let affineU := feFromBytes point
  let st := mulLoop affineU s 255 (ProjPt.identity, ⟨affineU, 1⟩)
  let (x0, _) := conditionalSwap st.1 st.2 (bit s 0)
  fromProjective x0

/-- clampScalar on a 32-byte string, as a number -/
def clampScalar (k : Bytes) : Nat :=
  let n := leNat k
  let b0 := n % 256
  let b31 := n / 2^248 % 256
  let mid := n % 2^248 - b0
  (b0 &&& 248) + mid + (((b31 &&& 127) ||| 64) <<< 248)

/-- scalar.SetBits: the top bit is masked -/
def setBits (n : Nat) : Nat := n % 2^255

/-- x25519.ScalarMult(dst, in, base) for 32-byte `k`, `u` -/
def scalarMult (k u : Bytes) : Bytes := mul u (setBits (clampScalar k))

/-- (*MontgomeryPoint).SetEdwards on a projective Edwards point: (Z + Y) / (Z - Y), Invert(0) = 0 -/
def setEdwards (P : Ext) : Bytes :=
  let U := Fp.add P.Z P.Y
  let W := Fp.inv (Fp.sub P.Z P.Y)
  feToBytes (Fp.mul U W)

/-- x25519.ScalarBaseMult: fixed-base Edwards multiplication, then SetEdwards -/
def scalarBaseMult (k : Bytes) : Bytes :=
  setEdwards (Ext.smul (setBits (clampScalar k)) (Ext.ofPt Pt.B))

/-- x25519.X25519(scalar, point); `isBasepointSlice` models `&point[0] == &Basepoint[0]`
(then the contents are 9 and the fixed-base routine is used without the zero check). -/
def x25519 (scalar point : Bytes) (isBasepointSlice : Bool) : Option Bytes :=
  if scalar.size ≠ 32 then none else
  if point.size ≠ 32 then none else
  if isBasepointSlice then some (scalarBaseMult scalar) else
  let dst := scalarMult scalar point
  if beq dst (bzero 32) then none else some dst

/-- x25519.EdPublicKeyToX25519 -/
def edPublicKeyToX25519 (pk : Bytes) : Option Bytes :=
  if pk.size ≠ 32 then none else       -- CompressedEdwardsY.SetBytes
  match Pt.decode pk with              -- SetCompressedY
  | none => none
  | some A => some (setEdwards (Ext.ofPt A))

end Voi.Model.Montgomery
