/-
CODE-SHAPED model of the Ed25519 verification path of `primitives/ed25519` (properties C01 / C02).

Everything is written over an interface `EdIface` (a carrier of points with its operations, the two
codecs, the scalar order, the hash and the lattice step), and follows the Go control flow statement by
statement:

  ed25519.go                 `(*Options).verify`, `checkHash`, `makeDom2`, `(*VerifyOptions).unpackPublicKey`,
                             `unpackSignature`, `verifyNeedsDecompressedR`, `verifyWithOptionsNoPanic`,
                             `VerifyWithOptions`, `cofactorlessVerify`
  ed25519_precomputation.go  `NewExpandedPublicKey`, `checkExpandedPublicKey`, `verifyExpandedWithOptionsNoPanic`
  curve/edwards.go           `DoubleScalarMulBasepointVartime`, `TripleScalarMulBasepointVartime`, `IsSmallOrder`
  curve/scalar_mul_abglsv_pornin.go   the δ-scaled triple product (sign transfer of d1 onto b and C, negative d0
                             by swapping Add/Sub); the NAF/Straus evaluation and the e0/e1 split of `δb` are
                             implementation details of the multiplication and are modelled by their VALUE
  curve/scalar/sc_minimal.go `ScMinimalVartime` (only in the concrete instance)

`Model.Ed25519.concrete` instantiates the interface with the executable `Voi.Spec` functions (affine points
over `Nat`, SHA-512, the integer-level lattice reduction `Voi.Model.Lattice.fsv`), so the model runs; stream
V2 (Voi/Drv/Ed25519Model.lean ↔ go/harness/s_ed25519_model.go) compares it with the real
`VerifyWithOptions` / `VerifyExpandedWithOptions` on every run.  `Voi/Props/C01.lean` proves that, for every
interface instance satisfying the group laws, the model decides exactly the declarative predicate `SpecG.verify`
(= `Voi.Spec.Ed25519.verify` for the concrete instance, by `rfl`).

Core Lean only (linked into the driver).
-/
import Voi.Spec.Ed25519
import Voi.Model.Lattice
namespace Voi.Model.Ed25519
open Voi Voi.Spec
open Voi.Spec.Ed25519 (VOpts Dom dom2)

/-- What the verification code uses of the curve, the scalar field, the hash and the lattice reduction. -/
structure EdIface where
  /-- points (`curve.EdwardsPoint` up to projective equivalence) -/
  G : Type
  zero : G
  add : G → G → G
  neg : G → G
  /-- multiplication by a non-negative integer (the value of a `scalar.Scalar`) -/
  smul : Nat → G → G
  /-- the basepoint -/
  B : G
  /-- `CompressedEdwardsY.SetBytes` followed by `EdwardsPoint.SetCompressedY`; `none` = either fails
      (wrong length, or y not on the curve) -/
  decode : Bytes → Option G
  /-- `CompressedEdwardsY.SetEdwardsPoint`: the canonical 32-byte encoding -/
  encode : G → Bytes
  /-- `CompressedEdwardsY.IsCanonicalVartime` -/
  isCanonicalEnc : Bytes → Bool
  /-- `EdwardsPoint.IsSmallOrder` -/
  isSmallOrder : G → Bool
  /-- `EdwardsPoint.Equal` -/
  beqG : G → G → Bool
  /-- the order of the basepoint (`scalar.BASEPOINT_ORDER`) -/
  L : Nat
  /-- `scalar.ScMinimalVartime` -/
  scMinimal : Bytes → Bool
  /-- SHA-512 -/
  hash512 : Bytes → Bytes
  /-- `lattice.FindShortVector`: `(d0, d1)` with `d0 ≡ d1·k (mod L)` -/
  shortVec : Nat → Int × Int

/-! ## Option validation (`(*Options).verify`, `checkHash`) -/

/-- `opts.HashFunc()`: `crypto.Hash(0)`, `crypto.SHA512`, or anything else -/
inductive HashSel where
  | zero
  | sha512
  | other
deriving Repr, DecidableEq, Inhabited

/-- `(*Options).verify`: `none` = error; otherwise `(f, context)`; `o = none` is `opt.Verify == nil`. -/
def optionsVerify (o : Option VOpts) (ctx : Bytes) : Option (Dom × Bytes) :=
  -- if vOpts := opt.Verify; vOpts != nil { if vOpts.AllowNonCanonicalR && vOpts.CofactorlessVerify { error } }
  let incompatible := match o with
    | some v => v.nonCanR && v.cofactorless
    | none => false
  if incompatible then none else
  -- if l := len(opt.Context); l > 0 { if l > ContextMaxSize { error }; context = …; f = fCtx }
  if ctx.size > 0 then
    if ctx.size > 255 then none else some (some 0, ctx)
  else some (none, ByteArray.empty)

/-- `checkHash(f, message, hashFunc)`: `none` = error -/
def checkHash (f : Dom) (msgLen : Nat) (h : HashSel) : Option Dom :=
  match h with
  | .sha512 => if msgLen ≠ 64 then none else some (some 1)
  | .zero => some f
  | .other => none

/-- the option handling at the head of `verifyWithOptionsNoPanic` / `PrivateKey.Sign`:
    `none` = error, otherwise the dom2 flag, the context and the effective `VerifyOptions` -/
def mode (o : Option VOpts) (ctx : Bytes) (h : HashSel) (msgLen : Nat) : Option (Dom × Bytes × VOpts) :=
  match optionsVerify o ctx with
  | none => none
  | some (f, c) =>
    -- vOpts := opts.Verify; if vOpts == nil { vOpts = VerifyOptionsDefault }
    let v := match o with
      | some v => v
      | none => VOpts.default
    match checkHash f msgLen h with
    | none => none
    | some f' => some (f', c, v)

/-! ## Admission of A and of (R, S) -/

/-- `(*VerifyOptions).unpackPublicKey`: `none` = `false` -/
def unpackPublicKey (I : EdIface) (o : VOpts) (pk : Bytes) : Option I.G :=
  -- aCompressed.SetBytes(publicKey); A.SetCompressedY(&aCompressed)
  match I.decode pk with
  | none => none
  | some A =>
    -- Check A order (required for strong binding).
    if !o.smallA && I.isSmallOrder A then none else
    -- Check if A is canonical.
    if !o.nonCanA && !I.isCanonicalEnc pk then none else
    some A

/-- `(*VerifyOptions).verifyNeedsDecompressedR` -/
def verifyNeedsDecompressedR (o : VOpts) : Bool :=
  if o.cofactorless && o.smallR then false else true

/-- `(*VerifyOptions).unpackSignature`: `none` = `false`; otherwise `(checkR, S)`.  When R is not decompressed
    the caller's `checkR` is the identity (`R.Identity(); R = nil`). -/
def unpackSignature (I : EdIface) (o : VOpts) (sig : Bytes) : Option (I.G × Nat) :=
  if sig.size ≠ 64 then none else
  let sBytes := bslice sig 32 32
  let rBytes := bslice sig 0 32
  -- S in range [0, order)
  if !I.scMinimal sBytes then none else
  -- Unpack R (rCompressed.SetBytes(sig[:32]) cannot fail: the length is 32).
  let r : Option I.G :=
    if verifyNeedsDecompressedR o then
      match I.decode rBytes with
      | none => none
      | some R =>
        -- Check R order.
        if !o.smallR && I.isSmallOrder R then none else some R
    else some I.zero
  match r with
  | none => none
  | some checkR =>
    -- Check if R is canonical.
    if !o.nonCanR && !I.isCanonicalEnc rBytes then none else
    -- Unpack S: S.SetBytesModOrder(sig[32:])
    some (checkR, leNat sBytes % I.L)

/-! ## The two multi-scalar multiplications, by value -/

/-- `DoubleScalarMulBasepointVartime(a, A, b)` = `aA + bB` -/
def doubleScalarMulBasepoint (I : EdIface) (a : Nat) (A : I.G) (b : Nat) : I.G :=
  I.add (I.smul a A) (I.smul b I.B)

/-- `scalar.Neg` on a reduced scalar -/
def scNeg (I : EdIface) (b : Nat) : Nat := (I.L - b % I.L) % I.L

/-- `TripleScalarMulBasepointVartime(a, A, b, C)` = `[δa]A + [δb]B − [δ]C` as arranged by
    `edwardsMulAbglsvPorninVartime{Generic,Vector}` (and the `expanded…` twins, which differ only in where the
    table of A comes from). -/
def tripleScalarMulBasepoint (I : EdIface) (a : Nat) (A : I.G) (b : Nat) (C : I.G) : I.G :=
  -- d0, d1 := lattice.FindShortVector(a)
  let d := I.shortVec a
  let d0 := d.1
  let d1 := d.2
  -- Save the sign of d_0, and move the sign of d_1 into its corresponding base and scalar.
  let d0IsNeg := decide (d0 < 0)
  let sbC : Nat × I.G :=
    if d1 < 0 then (scNeg I b, C)          -- (-b, C)
    else (b, I.neg C)                       -- (b, -C)
  let s_b := sbC.1
  let negC := sbC.2
  -- d0.Abs().ToScalar(&d_0); d1.Abs().ToScalar(&d_1)
  let d_0 := d0.natAbs
  let d_1 := d1.natAbs
  -- db.Mul(s_b, d_1)   (= e_0 + 2^128 e_1)
  let db := (s_b * d_1) % I.L
  -- [d_0]A with Add/Sub reversed if d0 was negative
  let tA := if d0IsNeg then I.neg (I.smul d_0 A) else I.smul d_0 A
  -- [d_0]A + [e_0]B + [e_1][2^128]B + [d_1][-C]
  I.add (I.add tA (I.smul db I.B)) (I.smul d_1 negC)

/-- `cofactorlessVerify(R, sig)`: byte comparison of the canonical encoding with `sig[:32]` -/
def cofactorlessVerify (I : EdIface) (R : I.G) (sig : Bytes) : Bool :=
  beq (I.encode R) (bslice sig 0 32)

/-- `hram = H(dom2 ‖ sig[:32] ‖ publicKey ‖ message)` reduced by `SetBytesModOrderWide` -/
def hram (I : EdIface) (f : Dom) (ctx sig pk msg : Bytes) : Nat :=
  leNat (I.hash512 (dom2 f ctx ++ bslice sig 0 32 ++ pk ++ msg)) % I.L

/-! ## `verifyWithOptionsNoPanic` after the option handling -/

def verify (I : EdIface) (o : VOpts) (f : Dom) (ctx pk msg sig : Bytes) : Bool :=
  -- Unpack and ensure the public key is well-formed (A).
  match unpackPublicKey I o pk with
  | none => false
  | some A =>
  -- Unpack and ensure the signature is well-formed (R, S).
  match unpackSignature I o sig with
  | none => false
  | some (checkR, S) =>
  let k := hram I f ctx sig pk msg
  -- A = -A (Since we want SB - H(R,A,m)A)
  let negA := I.neg A
  if o.cofactorless then
    -- SB - H(R,A,m)A ?= R
    let R := doubleScalarMulBasepoint I k negA S
    cofactorlessVerify I R sig
  else
    -- [delta S]B - [delta A]H(R,A,m) - [delta]R, IsSmallOrder includes the cofactor multiply
    I.isSmallOrder (tripleScalarMulBasepoint I k negA S checkR)

/-! ## Expanded public keys -/

/-- `ExpandedPublicKey` -/
structure ExpandedKey (I : EdIface) where
  compressed : Bytes
  negA : I.G
  isValidY : Bool
  isSmallOrder : Bool
  isCanonical : Bool

/-- `NewExpandedPublicKey`: `none` = error -/
def newExpandedPublicKey (I : EdIface) (pk : Bytes) : Option (ExpandedKey I) :=
  match I.decode pk with
  | none => none
  | some p =>
    some { compressed := pk
           -- Check before negating the point.
           isSmallOrder := I.isSmallOrder p
           isCanonical := I.isCanonicalEnc pk
           negA := I.neg p
           isValidY := true }

/-- `(*VerifyOptions).checkExpandedPublicKey` -/
def checkExpandedPublicKey (I : EdIface) (o : VOpts) (xk : ExpandedKey I) : Bool :=
  if !xk.isValidY then false else
  if !o.smallA && xk.isSmallOrder then false else
  if !o.nonCanA && !xk.isCanonical then false else
  true

/-- `verifyExpandedWithOptionsNoPanic` after the option handling -/
def verifyExpanded (I : EdIface) (o : VOpts) (f : Dom) (ctx : Bytes) (xk : ExpandedKey I) (msg sig : Bytes) : Bool :=
  if !checkExpandedPublicKey I o xk then false else
  match unpackSignature I o sig with
  | none => false
  | some (checkR, S) =>
  let k := hram I f ctx sig xk.compressed msg
  -- `-A` is already derived as part of precomputation
  let negA := xk.negA
  if o.cofactorless then
    let R := doubleScalarMulBasepoint I k negA S
    cofactorlessVerify I R sig
  else
    I.isSmallOrder (tripleScalarMulBasepoint I k negA S checkR)

/-! ## The exported entry points, with their documented panics -/

inductive Outcome where
  | panic
  | err
  | result (b : Bool)
deriving Repr, DecidableEq

/-- `VerifyWithOptions` -/
def verifyWithOptions (I : EdIface) (o : Option VOpts) (h : HashSel) (ctx pk msg sig : Bytes) : Outcome :=
  -- The standard library does this.
  if pk.size ≠ 32 then .panic else
  match mode o ctx h msg.size with
  | none => .panic
  | some (f, c, v) => .result (verify I v f c pk msg sig)

/-- `NewExpandedPublicKey` followed by `VerifyExpandedWithOptions` -/
def verifyExpandedWithOptions (I : EdIface) (o : Option VOpts) (h : HashSel) (ctx pk msg sig : Bytes) : Outcome :=
  match newExpandedPublicKey I pk with
  | none => .err
  | some xk =>
    match mode o ctx h msg.size with
    | none => .panic
    | some (f, c, v) => .result (verifyExpanded I v f c xk msg sig)

/-! ## The concrete, executable instance -/

/-- `order[i]`: the i-th little-endian 64-bit word of L -/
def orderWord (i : Nat) : Nat := (Voi.Spec.L >>> (64 * i)) % 2 ^ 64

/-- `binary.LittleEndian.Uint64(scalar[i*8:])` -/
def leU64 (b : Bytes) (i : Nat) : Nat := leNat (bslice b (8 * i) 8)

/-- the loop `for i := 3; ; i-- { … }` of `ScMinimalVartime`, entered with `i = n` -/
def scMinLoop (b : Bytes) : Nat → Bool
  | 0 =>
    let v := leU64 b 0
    if v > orderWord 0 then false
    else if v < orderWord 0 then true   -- break
    else false                           -- i == 0
  | i + 1 =>
    let v := leU64 b (i + 1)
    if v > orderWord (i + 1) then false
    else if v < orderWord (i + 1) then true
    else scMinLoop b i

/-- `scalar.ScMinimalVartime` -/
def scMinimalVartime (b : Bytes) : Bool :=
  if b.size ≠ 32 then false else
  let top := (b.get! 31).toNat
  -- 4 most significant bits unset, succeed fast
  if top &&& 240 = 0 then true
  -- Any of the 3 most significant bits set, fail fast
  else if top &&& 224 ≠ 0 then false
  -- 4th most significant bit set (unlikely), actually check vs order
  else scMinLoop b 3

def concrete : EdIface where
  G := Pt
  zero := Pt.zero
  add := Pt.add
  neg := Pt.neg
  smul := Pt.smul
  B := Pt.B
  decode := Pt.decode
  encode := Pt.encode
  isCanonicalEnc := Pt.isCanonicalEnc
  isSmallOrder := Pt.isSmallOrder
  beqG := fun P Q => P == Q
  L := Voi.Spec.L
  scMinimal := scMinimalVartime
  hash512 := sha512
  shortVec := Voi.Model.Lattice.fsv

/-! ## The declarative predicate of property C01 over the same interface

Literally `Voi.Spec.Ed25519.verify` with the concrete functions replaced by the interface fields
(`Voi.Props.C01.specG_concrete : SpecG.verify concrete = Spec.Ed25519.verify` holds by `rfl`). -/
namespace SpecG

/-- challenge k = SHA-512(dom2 ‖ R ‖ A ‖ M) mod L -/
def challenge (I : EdIface) (f : Dom) (ctx rBytes aBytes msg : Bytes) : Nat :=
  leNat (I.hash512 (dom2 f ctx ++ rBytes ++ aBytes ++ msg)) % I.L

def verify (I : EdIface) (o : VOpts) (f : Dom) (ctx pk msg sig : Bytes) : Bool :=
  if sig.size ≠ 64 then false else
  let rBytes := bslice sig 0 32
  let s := leNat (bslice sig 32 32)
  if !(s < I.L) then false else
  match I.decode pk with
  | none => false
  | some A =>
  if !o.smallA && I.isSmallOrder A then false else
  if !o.nonCanA && !I.isCanonicalEnc pk then false else
  if !o.nonCanR && !I.isCanonicalEnc rBytes then false else
  let k := challenge I f ctx rBytes pk msg
  -- [S]B - [k]A
  let sBkA := I.add (I.smul s I.B) (I.neg (I.smul k A))
  if o.cofactorless then
    (if !o.smallR then
      match I.decode rBytes with
      | none => false
      | some R => !I.isSmallOrder R
     else true) && beq (I.encode sBkA) rBytes
  else
    match I.decode rBytes with
    | none => false
    | some R =>
      if !o.smallR && I.isSmallOrder R then false else
      I.isSmallOrder (I.add sBkA (I.neg R))

/-- RFC 8032 §5.1.6 steps 3–6 over the interface, for a secret scalar `a`, the public-key bytes `aBytes` and ANY
    nonce `r` (deterministic, or derived with added randomness): `R = [r]B`, `k = H(dom2 ‖ R ‖ A ‖ M) mod L`,
    `S = (r + k·a) mod L`, signature `R ‖ S`.  For the concrete interface `Voi.Spec.Ed25519.sign` is this function
    applied to the clamped scalar and the hashed nonce (`Voi.Props.C02.sign_concrete`). -/
def signWith (I : EdIface) (f : Dom) (ctx : Bytes) (a r : Nat) (aBytes msg : Bytes) : Bytes :=
  let rBytes := I.encode (I.smul r I.B)
  let k := challenge I f ctx rBytes aBytes msg
  let s := (r + k * a) % I.L
  rBytes ++ natLE s 32

end SpecG

end Voi.Model.Ed25519
