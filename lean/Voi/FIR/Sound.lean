/-
Soundness of the limb-bound replay `FIR.brun` / `FIR.bcheck` (proved once, core Lean only).

`Impl C` is ANY implementation of the leaf operations of internal/field on some carrier of limb vectors that meets the
contract table `C`: called on operands within the stated per-limb bounds, a leaf returns an element within its stated
postcondition whose value is the field operation on the operands' values.  (These are the statements the L0 obligations
establish for the regenerated limb programs of both backends; `Props/FL/Bounds` builds `C64`/`C32` from the very `Spec`
records those obligations use.)

`brun_sound`: if the bound replay of a field-level program succeeds from input classes `pre`, then executing the program
with the implementation's leaves (`crun`) on ANY inputs inside `pre` never calls a leaf outside its contract, every
intermediate element stays within the bound the replay computed, and its value is (mod p) what the abstract evaluator
`FIR.run` — the semantics all `Props/FL` value theorems are stated for — computes from the input values.
-/
import Voi.FIR.Basic
namespace Voi.FIR
open Voi.Spec

/-! ### the field specification only looks at operands modulo p -/

theorem add_congr {a a' b b' : Nat} (ha : a % p = a' % p) (hb : b % p = b' % p) : Fp.add a b = Fp.add a' b' := by
  unfold Fp.add; rw [Nat.add_mod, ha, hb, ← Nat.add_mod]
theorem mul_congr {a a' b b' : Nat} (ha : a % p = a' % p) (hb : b % p = b' % p) : Fp.mul a b = Fp.mul a' b' := by
  unfold Fp.mul; rw [Nat.mul_mod, ha, hb, ← Nat.mul_mod]
theorem sq_congr {a a' : Nat} (ha : a % p = a' % p) : Fp.sq a = Fp.sq a' := by
  unfold Fp.sq; rw [Nat.mul_mod, ha, ← Nat.mul_mod]
theorem sub_congr {a a' b b' : Nat} (ha : a % p = a' % p) (hb : b % p = b' % p) : Fp.sub a b = Fp.sub a' b' := by
  unfold Fp.sub; rw [hb, Nat.add_mod, ha, ← Nat.add_mod]
theorem neg_congr {a a' : Nat} (ha : a % p = a' % p) : Fp.neg a = Fp.neg a' := by
  unfold Fp.neg; rw [ha]
theorem inv_congr {a a' : Nat} (ha : a % p = a' % p) : Fp.inv a = Fp.inv a' := by
  unfold Fp.inv Fp.pow; rw [ha]
theorem sq2_congr {a a' : Nat} (ha : a % p = a' % p) : sq2 a = sq2 a' := by
  unfold sq2; rw [sq_congr ha]
theorem m121666_congr {a a' : Nat} (ha : a % p = a' % p) : m121666 a = m121666 a' := by
  unfold m121666; exact mul_congr ha rfl
theorem sq_mod (a : Nat) : Fp.sq a % p = Fp.sq a := Nat.mod_eq_of_lt (Nat.mod_lt _ (by decide))
theorem pow2k_congr {a a' : Nat} (ha : a % p = a' % p) : ∀ k, pow2k a k = pow2k a' k
  | 0 => by unfold pow2k; exact ha
  | k+1 => by unfold pow2k; rw [sq_congr ha]
theorem feq_congr {a a' b b' : Nat} (ha : a % p = a' % p) (hb : b % p = b' % p) : feq a b = feq a' b' := by
  unfold feq; rw [ha, hb]
theorem fisNeg_congr {a a' : Nat} (ha : a % p = a' % p) : fisNeg a = fisNeg a' := by
  unfold fisNeg Fp.isNeg; rw [ha]
theorem fisZero_congr {a a' : Nat} (ha : a % p = a' % p) : fisZero a = fisZero a' := by
  unfold fisZero; rw [ha]

/-! ### implementations of the leaves -/

/-- pointwise "limbs below the bound" on lists of limbs -/
def Within (limbs : List Nat) (b : Bnd) : Prop := limbs.length = b.length ∧ ∀ i, i < b.length → limbs.getD i 0 ≤ b.getD i 0

structure Impl (C : Contract) where
  Elem : Type
  limbs : Elem → List Nat
  val : Elem → Nat
  const : Nat → List Nat → Elem
  add : Elem → Elem → Elem
  sub : Elem → Elem → Elem
  mul : Elem → Elem → Elem
  neg : Elem → Elem
  sq : Elem → Elem
  sq2 : Elem → Elem
  m121666 : Elem → Elem
  pow2k : Elem → Nat → Elem
  sel : Nat → Elem → Elem → Elem
  eq : Elem → Elem → Nat
  isNeg : Elem → Nat
  isZero : Elem → Nat
  const_ok : ∀ n l, limbs (const n l) = l ∧ val (const n l) % p = n % p
  add_ok : ∀ x y a b, Within (limbs x) a → Within (limbs y) b → a.le C.addPre = true → b.le C.addPre = true →
    (a.add b).all (· < 2 ^ C.word) = true → Within (limbs (add x y)) (a.add b) ∧ val (add x y) % p = Fp.add (val x) (val y) % p
  sub_ok : ∀ x y, Within (limbs x) C.subPreA → Within (limbs y) C.subPreB →
    Within (limbs (sub x y)) C.subPost ∧ val (sub x y) % p = Fp.sub (val x) (val y) % p
  mul_ok : ∀ x y, Within (limbs x) C.mulPre → Within (limbs y) C.mulPre →
    Within (limbs (mul x y)) C.mulPost ∧ val (mul x y) % p = Fp.mul (val x) (val y) % p
  neg_ok : ∀ x, Within (limbs x) C.negPre → Within (limbs (neg x)) C.negPost ∧ val (neg x) % p = Fp.neg (val x) % p
  sq_ok : ∀ x, Within (limbs x) C.sqPre → Within (limbs (sq x)) C.sqPost ∧ val (sq x) % p = Fp.sq (val x) % p
  sq2_ok : ∀ x, Within (limbs x) C.sq2Pre → Within (limbs (sq2 x)) C.sq2Post ∧ val (sq2 x) % p = FIR.sq2 (val x) % p
  m121666_ok : ∀ x, Within (limbs x) C.m121666Pre →
    Within (limbs (m121666 x)) C.m121666Post ∧ val (m121666 x) % p = FIR.m121666 (val x) % p
  pow2k_ok : ∀ x k, Within (limbs x) C.sqPre → C.sqPost.le C.sqPre = true →
    Within (limbs (pow2k x k)) C.sqPost ∧ val (pow2k x k) % p = FIR.pow2k (val x) k % p
  sel_ok : ∀ c x y, c ≤ 1 → sel c x y = if c = 0 then x else y
  eq_ok : ∀ x y, Within (limbs x) C.toBytesPre → Within (limbs y) C.toBytesPre → eq x y = feq (val x) (val y)
  isNeg_ok : ∀ x, Within (limbs x) C.toBytesPre → isNeg x = fisNeg (val x)
  isZero_ok : ∀ x, Within (limbs x) C.toBytesPre → isZero x = fisZero (val x)

theorem Bnd.le_iff {a b : Bnd} (h : a.le b = true) : a.length = b.length ∧ ∀ i, i < b.length → a.getD i 0 ≤ b.getD i 0 := by
  unfold Bnd.le at h
  simp only [Bool.and_eq_true, beq_iff_eq, List.all_eq_true, decide_eq_true_eq] at h
  obtain ⟨hl, hall⟩ := h
  refine ⟨hl, fun i hi => ?_⟩
  have hia : i < a.length := hl ▸ hi
  have hz : (a[i], b[i]) ∈ a.zip b := by
    have : (a.zip b)[i]'(by simp [List.length_zip]; omega) = (a[i], b[i]) := by simp
    rw [← this]; exact List.getElem_mem _
  have := hall _ hz
  simpa [List.getD_eq_getElem?_getD, List.getElem?_eq_getElem hia, List.getElem?_eq_getElem hi] using this

theorem Within.mono {l : List Nat} {a b : Bnd} (h : Within l a) (hab : a.le b = true) : Within l b := by
  obtain ⟨hl, hle⟩ := Bnd.le_iff hab
  refine ⟨h.1.trans hl, fun i hi => Nat.le_trans (h.2 i (hl ▸ hi)) (hle i hi)⟩

/-! ### concrete execution with an implementation's leaves -/

inductive CVal {C : Contract} (I : Impl C) where
  | fe (x : I.Elem)
  | b (n : Nat)

variable {C : Contract} (I : Impl C)

def cfe (e : List (CVal I)) (i : Nat) : Option I.Elem :=
  match e[i]? with
  | some (.fe x) => some x
  | _ => none
def cb (e : List (CVal I)) (i : Nat) : Option Nat :=
  match e[i]? with
  | some (.b n) => some n
  | _ => none

/-- one instruction; `none` = ill-sorted operand or an instruction without implementation (summaries) -/
def FOp.ceval (e : List (CVal I)) : FOp → Option (CVal I)
  | .const n l => some (.fe (I.const n l))
  | .bconst n => some (.b n)
  | .add a b => do let x ← cfe I e a; let y ← cfe I e b; pure (.fe (I.add x y))
  | .sub a b => do let x ← cfe I e a; let y ← cfe I e b; pure (.fe (I.sub x y))
  | .mul a b => do let x ← cfe I e a; let y ← cfe I e b; pure (.fe (I.mul x y))
  | .neg a => do let x ← cfe I e a; pure (.fe (I.neg x))
  | .sq a => do let x ← cfe I e a; pure (.fe (I.sq x))
  | .sq2 a => do let x ← cfe I e a; pure (.fe (I.sq2 x))
  | .m121666 a => do let x ← cfe I e a; pure (.fe (I.m121666 x))
  | .pow2k a k => do let x ← cfe I e a; pure (.fe (I.pow2k x k))
  | .sel c a b => do let n ← cb I e c; let x ← cfe I e a; let y ← cfe I e b; pure (.fe (I.sel n x y))
  | .eq a b => do let x ← cfe I e a; let y ← cfe I e b; pure (.b (I.eq x y))
  | .isNeg a => do let x ← cfe I e a; pure (.b (I.isNeg x))
  | .isZero a => do let x ← cfe I e a; pure (.b (I.isZero x))
  | .bor a b => do let x ← cb I e a; let y ← cb I e b; pure (.b (x ||| y))
  | .band a b => do let x ← cb I e a; let y ← cb I e b; pure (.b (x &&& y))
  | .bxor a b => do let x ← cb I e a; let y ← cb I e b; pure (.b (x ^^^ y))
  | .inv _ | .sqrtV _ _ | .sqrtOk _ _ => none
  | .bytesConst _ | .fromBytes _ | .toBytes _ | .topBit _ | .xorTop _ _ | .bytesEq _ _ => none

def crun : List FOp → List (CVal I) → Option (List (CVal I))
  | [], e => some e
  | op :: ops, e => do let v ← op.ceval I e; crun ops (e ++ [v])

/-- a concrete value is described by an abstract bound and an abstract (evaluator) value -/
def Rel1 : CVal I → BVal → Nat → Prop
  | .fe x, .fe b, v => Within (I.limbs x) b ∧ I.val x % p = v % p
  | .b n, .bool, v => n = v ∧ n ≤ 1
  | _, _, _ => False

/-- environments correspond position by position -/
def Rel (ce : List (CVal I)) (be : List BVal) (ae : Env) : Prop :=
  ce.length = be.length ∧ ae.length = be.length ∧ ∀ i, i < be.length → ∃ c b, ce[i]? = some c ∧ be[i]? = some b ∧ Rel1 I c b (get ae i)

theorem Rel.snoc {ce : List (CVal I)} {be : List BVal} {ae : Env} (h : Rel I ce be ae) {c : CVal I} {b : BVal} {v : Nat}
    (h1 : Rel1 I c b v) : Rel I (ce ++ [c]) (be ++ [b]) (ae ++ [v]) := by
  obtain ⟨h1l, h2l, hall⟩ := h
  refine ⟨by simp [h1l], by simp [h2l], fun i hi => ?_⟩
  simp only [List.length_append, List.length_cons, List.length_nil] at hi
  by_cases hlt : i < be.length
  · obtain ⟨c', b', hc, hb, hr⟩ := hall i hlt
    refine ⟨c', b', ?_, ?_, ?_⟩
    · rw [List.getElem?_append_left (by omega)]; exact hc
    · rw [List.getElem?_append_left hlt]; exact hb
    · have : get (ae ++ [v]) i = get ae i := by
        unfold get; rw [List.getD_eq_getElem?_getD, List.getD_eq_getElem?_getD, List.getElem?_append_left (by omega)]
      rw [this]; exact hr
  · have hi' : i = be.length := by omega
    subst hi'
    refine ⟨c, b, ?_, ?_, ?_⟩
    · rw [← h1l, List.getElem?_append_right (Nat.le_refl _)]; simp
    · rw [List.getElem?_append_right (Nat.le_refl _)]; simp
    · have : get (ae ++ [v]) be.length = v := by
        unfold get; rw [List.getD_eq_getElem?_getD, ← h2l, List.getElem?_append_right (Nat.le_refl _)]; simp
      rw [this]; exact h1

/-- an element operand: bound known to the replay ⇒ concrete element within it, with the evaluator's value -/
theorem Rel.fe {ce : List (CVal I)} {be : List BVal} {ae : Env} (h : Rel I ce be ae) {i : Nat} {b : Bnd}
    (hb : bget be i = some b) : ∃ x, cfe I ce i = some x ∧ Within (I.limbs x) b ∧ I.val x % p = get ae i % p := by
  unfold bget at hb
  by_cases hi : i < be.length
  · obtain ⟨c, b', hc, hb', hr⟩ := h.2.2 i hi
    rw [List.getD_eq_getElem?_getD, hb'] at hb
    cases b' with
    | bool => simp at hb
    | bytes => simp at hb
    | fe bb =>
      simp only [Option.getD_some, Option.some.injEq] at hb
      subst hb
      cases c with
      | b n => exact absurd hr (by simp [Rel1])
      | fe x => exact ⟨x, by simp [cfe, hc], hr.1, hr.2⟩
  · rw [List.getD_eq_getElem?_getD, List.getElem?_eq_none (by omega)] at hb
    simp at hb

theorem Rel.bool {ce : List (CVal I)} {be : List BVal} {ae : Env} (h : Rel I ce be ae) {i : Nat}
    (hb : bisBool be i = true) : ∃ n, cb I ce i = some n ∧ n = get ae i ∧ n ≤ 1 := by
  unfold bisBool at hb
  by_cases hi : i < be.length
  · obtain ⟨c, b', hc, hb', hr⟩ := h.2.2 i hi
    rw [hb'] at hb
    cases b' with
    | fe _ => simp at hb
    | bytes => simp at hb
    | bool =>
      cases c with
      | fe x => exact absurd hr (by simp [Rel1])
      | b n => exact ⟨n, by simp [cb, hc], hr.1, hr.2⟩
  · rw [List.getElem?_eq_none (by omega)] at hb
    simp at hb

theorem bit_le_one {a b : Nat} (ha : a ≤ 1) (hb : b ≤ 1) : a ||| b ≤ 1 ∧ a &&& b ≤ 1 ∧ a ^^^ b ≤ 1 := by
  have ha' : a = 0 ∨ a = 1 := by omega
  have hb' : b = 0 ∨ b = 1 := by omega
  rcases ha' with rfl | rfl <;> rcases hb' with rfl | rfl <;> decide

theorem feq_le (a b : Nat) : feq a b ≤ 1 := by unfold feq; split <;> omega
theorem fisNeg_le (a : Nat) : fisNeg a ≤ 1 := by unfold fisNeg; split <;> omega
theorem fisZero_le (a : Nat) : fisZero a ≤ 1 := by unfold fisZero; split <;> omega

theorem Bnd.max_length_le {x y : Bnd} (h : x.length = y.length) :
    x.le (x.max y) = true ∧ y.le (x.max y) = true := by
  have hlen : (x.max y).length = x.length := by simp [Bnd.max, List.length_zip, h]
  constructor <;>
  · unfold Bnd.le
    simp only [Bool.and_eq_true, beq_iff_eq, List.all_eq_true, decide_eq_true_eq]
    refine ⟨by omega, ?_⟩
    intro ⟨u, w⟩ hm
    obtain ⟨i, hi, he⟩ := List.getElem_of_mem hm
    simp only [List.length_zip, hlen] at hi
    have hix : i < x.length := by omega
    have hiy : i < y.length := by omega
    simp only [List.getElem_zip, Bnd.max, List.getElem_map, Prod.mk.injEq] at he
    obtain ⟨rfl, rfl⟩ := he
    first
    | exact Nat.le_max_left _ _
    | exact Nat.le_max_right _ _

/-- one instruction: the replay's verdict describes the concrete step -/
theorem step_sound {ce : List (CVal I)} {be : List BVal} {ae : Env} (h : Rel I ce be ae) (op : FOp) {bv : BVal}
    (hb : op.babs C be = some bv) (hs : ∀ a b, op ≠ .inv a ∧ op ≠ .sqrtV a b ∧ op ≠ .sqrtOk a b ∧ op ≠ .bytesConst a ∧
      op ≠ .fromBytes a ∧ op ≠ .toBytes a ∧ op ≠ .topBit a ∧ op ≠ .xorTop a b ∧ op ≠ .bytesEq a b) :
    ∃ c, op.ceval I ce = some c ∧ Rel1 I c bv (op.eval ae) := by
  cases op with
  | const n l =>
    simp only [FOp.babs, Option.some.injEq] at hb; subst hb
    refine ⟨_, rfl, ?_⟩
    have := I.const_ok n l
    exact ⟨by rw [this.1]; exact ⟨rfl, fun _ _ => Nat.le_refl _⟩, this.2⟩
  | bconst n =>
    simp only [FOp.babs] at hb
    split at hb
    · next hn => simp only [Option.some.injEq] at hb; subst hb; exact ⟨_, rfl, rfl, hn⟩
    · simp at hb
  | add a b =>
    simp only [FOp.babs, Option.bind_eq_bind] at hb
    cases hx : bget be a with
    | none => simp [hx] at hb
    | some x =>
      cases hy : bget be b with
      | none => simp [hx, hy] at hb
      | some y =>
        simp only [hx, hy, Option.bind_some] at hb
        split at hb
        · next hc =>
          simp only [Bool.and_eq_true] at hc
          simp only [Option.some.injEq] at hb; subst hb
          obtain ⟨cx, hcx, wx, vx⟩ := h.fe I hx
          obtain ⟨cy, hcy, wy, vy⟩ := h.fe I hy
          have := I.add_ok cx cy x y wx wy hc.1.1 hc.1.2 hc.2
          refine ⟨.fe (I.add cx cy), by simp [FOp.ceval, hcx, hcy], this.1, ?_⟩
          rw [this.2]; simp only [FOp.eval]; rw [add_congr vx vy]
        · simp at hb
  | sub a b =>
    simp only [FOp.babs, Option.bind_eq_bind] at hb
    cases hx : bget be a with
    | none => simp [hx] at hb
    | some x =>
      cases hy : bget be b with
      | none => simp [hx, hy] at hb
      | some y =>
        simp only [hx, hy, Option.bind_some] at hb
        split at hb
        · next hc =>
          simp only [Bool.and_eq_true] at hc
          simp only [Option.some.injEq] at hb; subst hb
          obtain ⟨cx, hcx, wx, vx⟩ := h.fe I hx
          obtain ⟨cy, hcy, wy, vy⟩ := h.fe I hy
          have := I.sub_ok cx cy (wx.mono hc.1) (wy.mono hc.2)
          refine ⟨.fe (I.sub cx cy), by simp [FOp.ceval, hcx, hcy], this.1, ?_⟩
          rw [this.2]; simp only [FOp.eval]; rw [sub_congr vx vy]
        · simp at hb
  | mul a b =>
    simp only [FOp.babs, Option.bind_eq_bind] at hb
    cases hx : bget be a with
    | none => simp [hx] at hb
    | some x =>
      cases hy : bget be b with
      | none => simp [hx, hy] at hb
      | some y =>
        simp only [hx, hy, Option.bind_some] at hb
        split at hb
        · next hc =>
          simp only [Bool.and_eq_true] at hc
          simp only [Option.some.injEq] at hb; subst hb
          obtain ⟨cx, hcx, wx, vx⟩ := h.fe I hx
          obtain ⟨cy, hcy, wy, vy⟩ := h.fe I hy
          have := I.mul_ok cx cy (wx.mono hc.1) (wy.mono hc.2)
          refine ⟨.fe (I.mul cx cy), by simp [FOp.ceval, hcx, hcy], this.1, ?_⟩
          rw [this.2]; simp only [FOp.eval]; rw [mul_congr vx vy]
        · simp at hb
  | neg a =>
    simp only [FOp.babs, Option.bind_eq_bind] at hb
    cases hx : bget be a with
    | none => simp [hx] at hb
    | some x =>
      simp only [hx, Option.bind_some] at hb
      split at hb
      · next hc =>
        simp only [Option.some.injEq] at hb; subst hb
        obtain ⟨cx, hcx, wx, vx⟩ := h.fe I hx
        have := I.neg_ok cx (wx.mono hc)
        refine ⟨.fe (I.neg cx), by simp [FOp.ceval, hcx], this.1, ?_⟩
        rw [this.2]; simp only [FOp.eval]; rw [neg_congr vx]
      · simp at hb
  | sq a =>
    simp only [FOp.babs, Option.bind_eq_bind] at hb
    cases hx : bget be a with
    | none => simp [hx] at hb
    | some x =>
      simp only [hx, Option.bind_some] at hb
      split at hb
      · next hc =>
        simp only [Option.some.injEq] at hb; subst hb
        obtain ⟨cx, hcx, wx, vx⟩ := h.fe I hx
        have := I.sq_ok cx (wx.mono hc)
        refine ⟨.fe (I.sq cx), by simp [FOp.ceval, hcx], this.1, ?_⟩
        rw [this.2]; simp only [FOp.eval]; rw [sq_congr vx]
      · simp at hb
  | sq2 a =>
    simp only [FOp.babs, Option.bind_eq_bind] at hb
    cases hx : bget be a with
    | none => simp [hx] at hb
    | some x =>
      simp only [hx, Option.bind_some] at hb
      split at hb
      · next hc =>
        simp only [Option.some.injEq] at hb; subst hb
        obtain ⟨cx, hcx, wx, vx⟩ := h.fe I hx
        have := I.sq2_ok cx (wx.mono hc)
        refine ⟨.fe (I.sq2 cx), by simp [FOp.ceval, hcx], this.1, ?_⟩
        rw [this.2]; simp only [FOp.eval]; rw [sq2_congr vx]
      · simp at hb
  | m121666 a =>
    simp only [FOp.babs, Option.bind_eq_bind] at hb
    cases hx : bget be a with
    | none => simp [hx] at hb
    | some x =>
      simp only [hx, Option.bind_some] at hb
      split at hb
      · next hc =>
        simp only [Option.some.injEq] at hb; subst hb
        obtain ⟨cx, hcx, wx, vx⟩ := h.fe I hx
        have := I.m121666_ok cx (wx.mono hc)
        refine ⟨.fe (I.m121666 cx), by simp [FOp.ceval, hcx], this.1, ?_⟩
        rw [this.2]; simp only [FOp.eval]; rw [m121666_congr vx]
      · simp at hb
  | pow2k a k =>
    simp only [FOp.babs, Option.bind_eq_bind] at hb
    cases hx : bget be a with
    | none => simp [hx] at hb
    | some x =>
      simp only [hx, Option.bind_some] at hb
      split at hb
      · next hc =>
        simp only [Bool.and_eq_true] at hc
        simp only [Option.some.injEq] at hb; subst hb
        obtain ⟨cx, hcx, wx, vx⟩ := h.fe I hx
        have := I.pow2k_ok cx k (wx.mono hc.1) hc.2
        refine ⟨.fe (I.pow2k cx k), by simp [FOp.ceval, hcx], this.1, ?_⟩
        rw [this.2]; simp only [FOp.eval]; rw [pow2k_congr vx]
      · simp at hb
  | sel c a b =>
    simp only [FOp.babs, Option.bind_eq_bind] at hb
    cases hx : bget be a with
    | none => simp [hx] at hb
    | some x =>
      cases hy : bget be b with
      | none => simp [hx, hy] at hb
      | some y =>
        simp only [hx, hy, Option.bind_some] at hb
        split at hb
        · next hc =>
          simp only [Bool.and_eq_true, beq_iff_eq] at hc
          simp only [Option.some.injEq] at hb; subst hb
          obtain ⟨cx, hcx, wx, vx⟩ := h.fe I hx
          obtain ⟨cy, hcy, wy, vy⟩ := h.fe I hy
          obtain ⟨n, hn, hnv, hn1⟩ := h.bool I hc.1
          have hm := Bnd.max_length_le hc.2
          refine ⟨.fe (I.sel n cx cy), by simp [FOp.ceval, hcx, hcy, hn], ?_⟩
          rw [I.sel_ok n cx cy hn1]
          simp only [FOp.eval, FIR.sel, ← hnv]
          split
          · exact ⟨wx.mono hm.1, vx⟩
          · exact ⟨wy.mono hm.2, vy⟩
        · simp at hb
  | eq a b =>
    simp only [FOp.babs, Option.bind_eq_bind] at hb
    cases hx : bget be a with
    | none => simp [hx] at hb
    | some x =>
      cases hy : bget be b with
      | none => simp [hx, hy] at hb
      | some y =>
        simp only [hx, hy, Option.bind_some] at hb
        split at hb
        · next hc =>
          simp only [Bool.and_eq_true] at hc
          simp only [Option.some.injEq] at hb; subst hb
          obtain ⟨cx, hcx, wx, vx⟩ := h.fe I hx
          obtain ⟨cy, hcy, wy, vy⟩ := h.fe I hy
          refine ⟨.b (I.eq cx cy), by simp [FOp.ceval, hcx, hcy], ?_⟩
          rw [I.eq_ok cx cy (wx.mono hc.1) (wy.mono hc.2)]
          simp only [FOp.eval]; rw [feq_congr vx vy]
          exact ⟨rfl, feq_le _ _⟩
        · simp at hb
  | isNeg a =>
    simp only [FOp.babs, Option.bind_eq_bind] at hb
    cases hx : bget be a with
    | none => simp [hx] at hb
    | some x =>
      simp only [hx, Option.bind_some] at hb
      split at hb
      · next hc =>
        simp only [Option.some.injEq] at hb; subst hb
        obtain ⟨cx, hcx, wx, vx⟩ := h.fe I hx
        refine ⟨.b (I.isNeg cx), by simp [FOp.ceval, hcx], ?_⟩
        rw [I.isNeg_ok cx (wx.mono hc)]
        simp only [FOp.eval]; rw [fisNeg_congr vx]
        exact ⟨rfl, fisNeg_le _⟩
      · simp at hb
  | isZero a =>
    simp only [FOp.babs, Option.bind_eq_bind] at hb
    cases hx : bget be a with
    | none => simp [hx] at hb
    | some x =>
      simp only [hx, Option.bind_some] at hb
      split at hb
      · next hc =>
        simp only [Option.some.injEq] at hb; subst hb
        obtain ⟨cx, hcx, wx, vx⟩ := h.fe I hx
        refine ⟨.b (I.isZero cx), by simp [FOp.ceval, hcx], ?_⟩
        rw [I.isZero_ok cx (wx.mono hc)]
        simp only [FOp.eval]; rw [fisZero_congr vx]
        exact ⟨rfl, fisZero_le _⟩
      · simp at hb
  | bor a b =>
    simp only [FOp.babs] at hb
    split at hb
    · next hc =>
      simp only [Bool.and_eq_true] at hc
      simp only [Option.some.injEq] at hb; subst hb
      obtain ⟨n, hn, hnv, hn1⟩ := h.bool I hc.1
      obtain ⟨m, hm, hmv, hm1⟩ := h.bool I hc.2
      refine ⟨.b (n ||| m), by simp [FOp.ceval, hn, hm], ?_⟩
      simp only [FOp.eval, FIR.bor, ← hnv, ← hmv]
      exact ⟨rfl, (bit_le_one hn1 hm1).1⟩
    · simp at hb
  | band a b =>
    simp only [FOp.babs] at hb
    split at hb
    · next hc =>
      simp only [Bool.and_eq_true] at hc
      simp only [Option.some.injEq] at hb; subst hb
      obtain ⟨n, hn, hnv, hn1⟩ := h.bool I hc.1
      obtain ⟨m, hm, hmv, hm1⟩ := h.bool I hc.2
      refine ⟨.b (n &&& m), by simp [FOp.ceval, hn, hm], ?_⟩
      simp only [FOp.eval, FIR.band, ← hnv, ← hmv]
      exact ⟨rfl, (bit_le_one hn1 hm1).2.1⟩
    · simp at hb
  | bxor a b =>
    simp only [FOp.babs] at hb
    split at hb
    · next hc =>
      simp only [Bool.and_eq_true] at hc
      simp only [Option.some.injEq] at hb; subst hb
      obtain ⟨n, hn, hnv, hn1⟩ := h.bool I hc.1
      obtain ⟨m, hm, hmv, hm1⟩ := h.bool I hc.2
      refine ⟨.b (n ^^^ m), by simp [FOp.ceval, hn, hm], ?_⟩
      simp only [FOp.eval, FIR.bxor, ← hnv, ← hmv]
      exact ⟨rfl, (bit_le_one hn1 hm1).2.2⟩
    · simp at hb
  | inv a => exact absurd rfl (hs a 0).1
  | sqrtV a b => exact absurd rfl (hs a b).2.1
  | sqrtOk a b => exact absurd rfl (hs a b).2.2.1
  | bytesConst a => exact absurd rfl (hs a 0).2.2.2.1
  | fromBytes a => exact absurd rfl (hs a 0).2.2.2.2.1
  | toBytes a => exact absurd rfl (hs a 0).2.2.2.2.2.1
  | topBit a => exact absurd rfl (hs a 0).2.2.2.2.2.2.1
  | xorTop a b => exact absurd rfl (hs a b).2.2.2.2.2.2.2.1
  | bytesEq a b => exact absurd rfl (hs a b).2.2.2.2.2.2.2.2

/-- programs without summarised calls and without byte-string instructions -/
def noSummary : List FOp → Bool
  | [] => true
  | .inv _ :: _ | .sqrtV _ _ :: _ | .sqrtOk _ _ :: _ => false
  | .bytesConst _ :: _ | .fromBytes _ :: _ | .toBytes _ :: _ | .topBit _ :: _ | .xorTop _ _ :: _ | .bytesEq _ _ :: _ => false
  | _ :: ops => noSummary ops

/-- **Soundness of the bound replay**, for every reachable environment -/
theorem brun_sound : ∀ (prog : List FOp) {ce : List (CVal I)} {be be' : List BVal} {ae : Env},
    Rel I ce be ae → noSummary prog = true → brun C prog be = some be' →
    ∃ ce', crun I prog ce = some ce' ∧ Rel I ce' be' (run prog ae)
  | [], ce, be, be', ae, h, _, hb => by
    simp only [brun, Option.some.injEq] at hb; subst hb
    exact ⟨ce, rfl, h⟩
  | op :: ops, ce, be, be', ae, h, hn, hb => by
    simp only [brun, Option.bind_eq_bind] at hb
    cases hv : op.babs C be with
    | none => simp [hv] at hb
    | some bv =>
      simp only [hv, Option.bind_some] at hb
      have hs : ∀ a b, op ≠ .inv a ∧ op ≠ .sqrtV a b ∧ op ≠ .sqrtOk a b ∧ op ≠ .bytesConst a ∧
          op ≠ .fromBytes a ∧ op ≠ .toBytes a ∧ op ≠ .topBit a ∧ op ≠ .xorTop a b ∧ op ≠ .bytesEq a b := by
        intro a b
        refine ⟨?_, ?_, ?_, ?_, ?_, ?_, ?_, ?_, ?_⟩ <;> (intro he; subst he; simp [noSummary] at hn)
      have hn' : noSummary ops = true := by
        cases op <;> first | exact hn | (simp [noSummary] at hn)
      obtain ⟨c, hc, hr⟩ := step_sound I h op hv hs
      obtain ⟨ce', hce', hrel⟩ := brun_sound ops (h.snoc I hr) hn' hb
      exact ⟨ce', by simp [crun, hc, hce'], hrel⟩

end Voi.FIR

/-! ### the contracts are satisfiable: an implementation that keeps exact values and the smallest admissible limbs -/
namespace Voi.FIR
open Voi.Spec

theorem within_zeros (b : Bnd) : Within (List.replicate b.length 0) b :=
  ⟨by simp, fun i _ => by simp [List.getD_eq_getElem?_getD, List.getElem?_replicate]; split <;> simp⟩

theorem within_add {lx ly : List Nat} {a b : Bnd} (hx : Within lx a) (hy : Within ly b) :
    Within (Bnd.add lx ly) (Bnd.add a b) := by
  unfold Bnd.add
  refine ⟨by simp [List.length_zip, hx.1, hy.1], fun i hi => ?_⟩
  simp only [List.length_map, List.length_zip] at hi
  have hia : i < a.length := by omega
  have hib : i < b.length := by omega
  have hix : i < lx.length := by rw [hx.1]; exact hia
  have hiy : i < ly.length := by rw [hy.1]; exact hib
  have h1 := hx.2 i hia
  have h2 := hy.2 i hib
  simp only [List.getD_eq_getElem?_getD, List.getElem?_eq_getElem hix, List.getElem?_eq_getElem hiy,
    List.getElem?_eq_getElem hia, List.getElem?_eq_getElem hib, Option.getD_some] at h1 h2
  simp only [List.getD_eq_getElem?_getD, List.getElem?_map, List.getElem?_zip_eq_some]
  rw [List.getElem?_eq_getElem (by simp [List.length_zip]; omega), List.getElem?_eq_getElem (by simp [List.length_zip]; omega)]
  simp only [List.getElem_zip, Option.map_some, Option.getD_some]
  omega

/-- every contract table has an implementation (so `brun_sound` is not vacuous) -/
def Impl.ideal (C : Contract) : Impl C where
  Elem := List Nat × Nat
  limbs := Prod.fst
  val := Prod.snd
  const n l := (l, n)
  add x y := (Bnd.add x.1 y.1, Fp.add x.2 y.2)
  sub x y := (List.replicate C.subPost.length 0, Fp.sub x.2 y.2)
  mul x y := (List.replicate C.mulPost.length 0, Fp.mul x.2 y.2)
  neg x := (List.replicate C.negPost.length 0, Fp.neg x.2)
  sq x := (List.replicate C.sqPost.length 0, Fp.sq x.2)
  sq2 x := (List.replicate C.sq2Post.length 0, FIR.sq2 x.2)
  m121666 x := (List.replicate C.m121666Post.length 0, FIR.m121666 x.2)
  pow2k x k := (List.replicate C.sqPost.length 0, FIR.pow2k x.2 k)
  sel c x y := if c = 0 then x else y
  eq x y := feq x.2 y.2
  isNeg x := fisNeg x.2
  isZero x := fisZero x.2
  const_ok _ _ := ⟨rfl, rfl⟩
  add_ok _ _ _ _ hx hy _ _ _ := ⟨within_add hx hy, rfl⟩
  sub_ok _ _ _ _ := ⟨within_zeros _, rfl⟩
  mul_ok _ _ _ _ := ⟨within_zeros _, rfl⟩
  neg_ok _ _ := ⟨within_zeros _, rfl⟩
  sq_ok _ _ := ⟨within_zeros _, rfl⟩
  sq2_ok _ _ := ⟨within_zeros _, rfl⟩
  m121666_ok _ _ := ⟨within_zeros _, rfl⟩
  pow2k_ok _ _ _ _ := ⟨within_zeros _, rfl⟩
  sel_ok _ _ _ _ := rfl
  eq_ok _ _ _ _ := rfl
  isNeg_ok _ _ := rfl
  isZero_ok _ _ := rfl

end Voi.FIR
