/-
F-level IR: straight-line programs over *field elements* (and 0/1 predicate results).  Programs of this IR are
regenerated from /repo's Go source by `go2ir -flevel` on every run: the interpreter executes the code above
internal/field (curve/models.go, edwards.go, montgomery.go, the addition chains of field.go, …) with every
`field.Element` abstract; each leaf operation of internal/field becomes one instruction.  The contracts of the
leaves at limb level (value mod p, limb bounds) are what the L0 obligations establish.

Values are `Nat`s: a field element is any representative (operations return the reduced one), a predicate result is
0 or 1.  Executable, core Lean only (the driver evaluates these programs for stream T2).
-/
import Voi.Spec.Field
namespace Voi.FIR
open Voi.Spec

inductive FOp where
  | const (n : Nat) (limbs : List Nat)   -- a package-level constant: canonical value, and its limbs as stored
  | bconst (n : Nat)
  | add (a b : Nat)
  | sub (a b : Nat)
  | mul (a b : Nat)
  | neg (a : Nat)
  | sq (a : Nat)
  | sq2 (a : Nat)        -- 2·a²
  | m121666 (a : Nat)    -- 121666·a
  | pow2k (a k : Nat)    -- a^(2^k), k ≥ 1
  | sel (c a b : Nat)    -- c = 0 ↦ a, c = 1 ↦ b   (ConditionalSelect / Assign / Swap)
  | eq (a b : Nat)       -- 1 iff equal as field elements (compared through their canonical encodings)
  | isNeg (a : Nat)      -- low bit of the canonical encoding
  | isZero (a : Nat)
  | bor (a b : Nat)
  | band (a b : Nat)
  | bxor (a b : Nat)
  | inv (a : Nat)        -- summarised Invert (0 ↦ 0); its body is the target `Invert`
  | sqrtV (a b : Nat)    -- summarised SqrtRatioI: the root …
  | sqrtOk (a b : Nat)   -- … and the was-square flag
  -- 32-byte encodings (values: the little-endian integer of the string, < 2^256)
  | bytesConst (n : Nat)
  | fromBytes (a : Nat)  -- Element.SetBytes: bit 255 ignored, then reduced
  | toBytes (a : Nat)    -- Element.ToBytes: the canonical encoding
  | topBit (a : Nat)     -- b[31] >> 7
  | xorTop (a b : Nat)   -- b[31] ^= bit << 7
  | bytesEq (a b : Nat)  -- ConstantTimeCompareBytes
  deriving Repr, DecidableEq, Inhabited

def sq2 (a : Nat) : Nat := Fp.add (Fp.sq a) (Fp.sq a)
def m121666 (a : Nat) : Nat := Fp.mul a 121666
def pow2k (a : Nat) : Nat → Nat
  | 0 => a % p
  | k+1 => pow2k (Fp.sq a) k
def feq (a b : Nat) : Nat := if a % p = b % p then 1 else 0
def fisNeg (a : Nat) : Nat := if Fp.isNeg a then 1 else 0
def fisZero (a : Nat) : Nat := if a % p = 0 then 1 else 0
def bor (a b : Nat) : Nat := a ||| b
def band (a b : Nat) : Nat := a &&& b
def bxor (a b : Nat) : Nat := a ^^^ b
def sel (c a b : Nat) : Nat := if c = 0 then a else b
def sqrtV (u v : Nat) : Nat := (Fp.sqrtRatioM1 u v).2
def sqrtOk (u v : Nat) : Nat := if (Fp.sqrtRatioM1 u v).1 then 1 else 0

def fromBytes (b : Nat) : Nat := (b % 2^255) % p
def toBytes (a : Nat) : Nat := a % p
def topBit (b : Nat) : Nat := b / 2^255 % 2
def xorTop (b c : Nat) : Nat := b ^^^ (c <<< 255)
def bytesEq (a b : Nat) : Nat := if a = b then 1 else 0
/-- a Go condition on a predicate value: `(v != 0) != neg` -/
def cond (v : Nat) (neg : Bool) : Bool := (v != 0) != neg

abbrev Env := List Nat
def get (e : Env) (i : Nat) : Nat := e.getD i 0

def FOp.eval (e : Env) : FOp → Nat
  | .const n _ => n
  | .bconst n => n
  | .add a b => Fp.add (get e a) (get e b)
  | .sub a b => Fp.sub (get e a) (get e b)
  | .mul a b => Fp.mul (get e a) (get e b)
  | .neg a => Fp.neg (get e a)
  | .sq a => Fp.sq (get e a)
  | .sq2 a => FIR.sq2 (get e a)
  | .m121666 a => FIR.m121666 (get e a)
  | .pow2k a k => FIR.pow2k (get e a) k
  | .sel c a b => FIR.sel (get e c) (get e a) (get e b)
  | .eq a b => FIR.feq (get e a) (get e b)
  | .isNeg a => FIR.fisNeg (get e a)
  | .isZero a => FIR.fisZero (get e a)
  | .bor a b => FIR.bor (get e a) (get e b)
  | .band a b => FIR.band (get e a) (get e b)
  | .bxor a b => FIR.bxor (get e a) (get e b)
  | .inv a => Fp.inv (get e a)
  | .sqrtV a b => FIR.sqrtV (get e a) (get e b)
  | .sqrtOk a b => FIR.sqrtOk (get e a) (get e b)
  | .bytesConst n => n
  | .fromBytes a => FIR.fromBytes (get e a)
  | .toBytes a => FIR.toBytes (get e a)
  | .topBit a => FIR.topBit (get e a)
  | .xorTop a b => FIR.xorTop (get e a) (get e b)
  | .bytesEq a b => FIR.bytesEq (get e a) (get e b)

def run : List FOp → Env → Env
  | [], e => e
  | op :: ops, e => run ops (e ++ [op.eval e])

/-- outputs of a program on given inputs -/
def exec (prog : List FOp) (outs : List Nat) (inputs : Env) : List Nat :=
  let e := run prog inputs
  outs.map (get e)

/-- Functions that branch on predicate values (error returns): a decision tree whose segments are straight-line programs.
`none` = the function returned an error. -/
inductive FTree where
  | leaf (ops : List FOp) (ok : Bool) (outs : List Nat)
  | node (ops : List FOp) (c : Nat) (neg : Bool) (t e : FTree)
  deriving Repr, Inhabited

def FTree.evalEnv : FTree → Env → Option (List Nat)
  | .leaf ops ok outs, e => if ok then some (outs.map (get (run ops e))) else none
  | .node ops c neg t f, e =>
    let e' := run ops e
    if cond (get e' c) neg then t.evalEnv e' else f.evalEnv e'

def FTree.eval (t : FTree) (inputs : Env) : Option (List Nat) := t.evalEnv inputs

/-! ## Limb-bound chaining

Every element carries an upper bound per limb (`Bnd`, 5 or 10 entries).  `Contract` lists, for one backend, the
precondition and postcondition of each leaf as *proved* by the L0 obligations (the instances in `Voi/Props/FL/Bounds`
are built from the very `Spec` records those obligations use).  `bcheck` replays a program over bounds and fails when
some instruction's operand may exceed the leaf's precondition: the regenerated program then calls a leaf outside the
domain on which its L0 theorem speaks. -/

abbrev Bnd := List Nat

def Bnd.le (a b : Bnd) : Bool := a.length == b.length && (a.zip b).all (fun (x, y) => decide (x ≤ y))
def Bnd.add (a b : Bnd) : Bnd := (a.zip b).map (fun (x, y) => x + y)
def Bnd.max (a b : Bnd) : Bnd := (a.zip b).map (fun (x, y) => Nat.max x y)

structure Contract where
  word : Nat           -- limb additions must stay below 2^word
  setBytesPost : Bnd   -- what SetBytes returns
  mulPre : Bnd
  mulPost : Bnd
  sqPre : Bnd
  sqPost : Bnd
  sq2Pre : Bnd
  sq2Post : Bnd
  m121666Pre : Bnd
  m121666Post : Bnd
  subPreA : Bnd
  subPreB : Bnd
  subPost : Bnd
  negPre : Bnd
  negPost : Bnd
  toBytesPre : Bnd     -- Equal / IsNegative / IsZero go through ToBytes
  addPre : Bnd         -- operands of Add (per operand)

inductive BVal where
  | fe (b : Bnd)
  | bool
  | bytes
  deriving Repr, Inhabited

def bget (e : List BVal) (i : Nat) : Option Bnd :=
  match e.getD i .bool with
  | .fe b => some b
  | _ => none
def bisBytes (e : List BVal) (i : Nat) : Bool :=
  match e[i]? with
  | some .bytes => true
  | _ => false
def bisBool (e : List BVal) (i : Nat) : Bool :=
  match e[i]? with
  | some .bool => true
  | _ => false

def FOp.babs (C : Contract) (e : List BVal) : FOp → Option BVal
  | .const _ limbs => some (.fe limbs)
  | .bconst n => if n ≤ 1 then some .bool else none
  | .add a b => do
      let x ← bget e a; let y ← bget e b
      if x.le C.addPre && y.le C.addPre && (x.add y).all (· < 2^C.word) then some (.fe (x.add y)) else none
  | .sub a b => do
      let x ← bget e a; let y ← bget e b
      if x.le C.subPreA && y.le C.subPreB then some (.fe C.subPost) else none
  | .mul a b => do
      let x ← bget e a; let y ← bget e b
      if x.le C.mulPre && y.le C.mulPre then some (.fe C.mulPost) else none
  | .neg a => do
      let x ← bget e a
      if x.le C.negPre then some (.fe C.negPost) else none
  | .sq a => do
      let x ← bget e a
      if x.le C.sqPre then some (.fe C.sqPost) else none
  | .sq2 a => do
      let x ← bget e a
      if x.le C.sq2Pre then some (.fe C.sq2Post) else none
  | .m121666 a => do
      let x ← bget e a
      if x.le C.m121666Pre then some (.fe C.m121666Post) else none
  | .pow2k a _ => do
      let x ← bget e a
      -- first squaring on the operand, the following ones on outputs of a squaring
      if x.le C.sqPre && C.sqPost.le C.sqPre then some (.fe C.sqPost) else none
  | .sel c a b => do
      let x ← bget e a; let y ← bget e b
      if bisBool e c && x.length == y.length then some (.fe (x.max y)) else none
  | .eq a b => do
      let x ← bget e a; let y ← bget e b
      if x.le C.toBytesPre && y.le C.toBytesPre then some .bool else none
  | .isNeg a | .isZero a => do
      let x ← bget e a
      if x.le C.toBytesPre then some .bool else none
  | .bor a b | .band a b | .bxor a b => if bisBool e a && bisBool e b then some .bool else none
  | .inv a => do
      let x ← bget e a
      if x.le C.mulPre then some (.fe C.mulPost) else none
  | .sqrtV a b => do
      let x ← bget e a; let y ← bget e b
      if x.le C.mulPre && y.le C.mulPre then some (.fe C.negPost) else none
  | .sqrtOk a b => do
      let x ← bget e a; let y ← bget e b
      if x.le C.mulPre && y.le C.mulPre then some .bool else none
  | .bytesConst _ => some .bytes
  | .fromBytes a => if bisBytes e a then some (.fe C.setBytesPost) else none
  | .toBytes a => do
      let x ← bget e a
      if x.le C.toBytesPre then some .bytes else none
  | .topBit a => if bisBytes e a then some .bool else none
  | .xorTop a b => if bisBytes e a && bisBool e b then some .bytes else none
  | .bytesEq a b => if bisBytes e a && bisBytes e b then some .bool else none

def brun (C : Contract) : List FOp → List BVal → Option (List BVal)
  | [], e => some e
  | op :: ops, e => do
      let v ← op.babs C e
      brun C ops (e ++ [v])

def outsOK (e : List BVal) (outs : List Nat) (post : List BVal) : Bool :=
  outs.length == post.length && (outs.zip post).all fun (i, q) =>
    match e.getD i .bool, q with
    | .fe b, .fe q => b.le q
    | .bool, .bool => true
    | .bytes, .bytes => true
    | _, _ => false

/-- every leaf call stays inside its proved precondition when the inputs are within `pre`, and every output element is
within its entry of `post` (sorts must agree) -/
def bcheck (C : Contract) (prog : List FOp) (outs : List Nat) (pre post : List BVal) : Bool :=
  match brun C prog pre with
  | none => false
  | some e => outsOK e outs post

/-- the same along every path of a decision tree (branch conditions must be predicate values; error leaves return nothing) -/
def tcheckEnv (C : Contract) : FTree → List BVal → List BVal → Bool
  | .leaf ops ok outs, e, post =>
    match brun C ops e with
    | none => false
    | some e' => !ok || outs.isEmpty || outsOK e' outs post   -- error leaf, panic leaf (no outputs), or outputs in class
  | .node ops c _ t f, e, post =>
    match brun C ops e with
    | none => false
    | some e' => bisBool e' c && tcheckEnv C t e' post && tcheckEnv C f e' post

def tcheck (C : Contract) (t : FTree) (pre post : List BVal) : Bool := tcheckEnv C t pre post

end Voi.FIR
