/-
Line-protocol handlers for streams
  S1 (scalar arithmetic and canonicity predicates of curve/scalar, property C05) and
  R1 (digit recodings of curve/scalar, property C17).

S1 is pure Spec: the integer value of the byte strings, `Nat` arithmetic modulo `L` (Voi.Spec.Sc), and the
acceptance rule of each constructor as written in scalar.go:
  * NewFromBits / SetBits         : length 32, bit 255 is masked off, NO reduction
  * SetBytesModOrder              : length 32, all 256 bits are used, reduced
  * SetBytesModOrderWide          : length 64, reduced
  * SetCanonicalBytes / Unmarshal : length 32, bit 255 clear and value < L
  * ScMinimalVartime              : true iff length 32 and value < L
R1 evaluates the code-shaped models of Voi.Model.Recoding and, before replying, cross-checks them against
the code-independent specifications (reconstruction of the value, digit ranges, textbook recoding); a failed
cross-check yields a `violation …` reply, which can never equal the Go side's reply.
-/
import Voi.Spec.Field
import Voi.Model.Recoding
namespace Voi.Drv
open Voi Voi.Spec Voi.Model.Recoding

/-- `scalar.NewFromBits`: 32 bytes, value with bit 255 masked; `none` = error -/
def scFromBits (h : String) : Option Nat :=
  match ofHex h with
  | none => none
  | some b => if b.size ≠ 32 then none else some (leNat b % 2 ^ 255)

def scFromBitsList : List String → Option (List Nat)
  | [] => some []
  | h :: t =>
    match scFromBits h, scFromBitsList t with
    | some x, some xs => some (x :: xs)
    | _, _ => none

/-- `ToBytes` of a Scalar whose `inner` holds the (not necessarily reduced) value `v < 2^256` -/
def scRaw (v : Nat) : String := hexOf (natLE v 32)

def okSc (v : Nat) : String := "ok " ++ hexOf (Sc.toBytes v)

/-- `SetCanonicalBytes`: `some v` iff accepted -/
def scCanonical (b : Bytes) : Option Nat :=
  if b.size ≠ 32 then none
  else if b.get! 31 / 128 ≠ 0 ∨ ¬ (leNat b % 2 ^ 255 < L) then none
  else some (leNat b)

def handleS1 (op : String) (a : List String) : String :=
  match op, a with
  | "add", [x, y] =>
    match scFromBits x, scFromBits y with
    | some x, some y => okSc (Sc.add x y)
    | _, _ => "err"
  | "sub", [x, y] =>
    match scFromBits x, scFromBits y with
    | some x, some y => okSc (Sc.sub x y)
    | _, _ => "err"
  | "mul", [x, y] =>
    match scFromBits x, scFromBits y with
    | some x, some y => okSc (Sc.mul x y)
    | _, _ => "err"
  | "equal", [x, y] =>
    -- Equal compares the stored bytes, not the residues
    match scFromBits x, scFromBits y with
    | some x, some y => "bool " ++ boolStr (x == y)
    | _, _ => "err"
  | "condsel", [x, y, c] =>
    match scFromBits x, scFromBits y with
    | some x, some y => "ok " ++ scRaw (if c = "0" then x else y)
    | _, _ => "err"
  | "neg", [x] =>
    match scFromBits x with
    | some x => okSc (Sc.neg x)
    | none => "err"
  | "reduce", [x] =>
    match scFromBits x with
    | some x => okSc x
    | none => "err"
  | "iscanon", [x] =>
    match scFromBits x with
    | some x => "bool " ++ boolStr (decide (x < L))
    | none => "err"
  | "invert", [x] =>
    match scFromBits x with
    | some x => okSc (Sc.inv x)
    | none => "err"
  | "setbits", [b] =>
    match scFromBits b with
    | some x => "ok " ++ scRaw x
    | none => "err"
  | "tobytes", [x, n] =>
    match scFromBits x with
    | some x => if n = "32" then "ok " ++ scRaw x else "err"
    | none => "err"
  | "frombytes", [b] =>
    let b := ofHex! b
    if b.size ≠ 32 then "err" else okSc (leNat b)
  | "fromwide", [b] =>
    let b := ofHex! b
    if b.size ≠ 64 then "err" else okSc (leNat b)
  | "canon", [b] =>
    match scCanonical (ofHex! b) with
    | some v => "ok " ++ scRaw v
    | none => "err"
  | "unmarshal", [b] =>
    match scCanonical (ofHex! b) with
    | some v => "ok " ++ scRaw v
    | none => "err"
  | "scminimal", [b] =>
    let b := ofHex! b
    "bool " ++ boolStr (b.size == 32 && decide (leNat b < L))
  | "fromu64", [n] =>
    match n.toNat? with
    | some n => if n < 2 ^ 64 then "ok " ++ scRaw n else "bad-op"
    | none => "bad-op"
  | "sum", xs =>
    match scFromBitsList xs with
    | some xs => okSc (xs.foldl Sc.add 0)
    | none => "err"
  | "product", xs =>
    match scFromBitsList xs with
    | some xs => okSc (xs.foldl Sc.mul 1)
    | none => "err"
  | "batchinvert", xs =>
    -- every input replaced by its inverse; the return value is the product of all inverses
    match scFromBitsList xs with
    | some xs =>
      let invs := xs.map Sc.inv
      "ok" ++ String.join (invs.map (fun v => " " ++ hexOf (Sc.toBytes v)))
        ++ " " ++ hexOf (Sc.toBytes (Sc.inv (xs.foldl Sc.mul 1)))
    | none => "err"
  | _, _ => "bad-op"

def digitsStr (ds : List Int) : String :=
  "digits" ++ String.join (ds.map (fun d => " " ++ toString d))

def handleR1 (op : String) (a : List String) : String :=
  match op, a with
  | "bits", [x] =>
    match scFromBits x with
    | none => "err"
    | some n =>
      let ds := (bits n).toList
      if ¬ bitsOk ds then "violation bits range"
      else if recon 1 ds ≠ Int.ofNat n then "violation bits value"
      else digitsStr ds
  | "naf", [w, x] =>
    match w.toNat?, scFromBits x with
    | some w, some n =>
      match nonAdjacentForm w n with
      | none => "panic doc"
      | some ds =>
        let ds := ds.toList
        if ds.length ≠ 256 then "violation naf length"
        else if ¬ nafShapeOk w ds then "violation naf shape"
        else if recon 1 ds ≠ Int.ofNat n then "violation naf value"
        else if ds ≠ specNaf w 256 n then "violation naf spec"
        else digitsStr ds
    | _, _ => "err"
  | "radix16", [x] =>
    match scFromBits x with
    | none => "err"
    | some n =>
      let ds := (toRadix16 n).toList
      if ¬ r16Ok ds then "violation radix16 range"
      else if recon 4 ds ≠ Int.ofNat n then "violation radix16 value"
      else if ds ≠ specRadix 4 64 (Int.ofNat n) then "violation radix16 spec"
      else digitsStr ds
  | "radix2w", [w, x] =>
    match w.toNat?, scFromBits x with
    | some w, some n =>
      match toRadix2w w n with
      | none => "panic doc"
      | some ds =>
        let ds := ds.toList
        if ¬ r2wOk w ds then "violation radix2w range"
        else if recon w ds ≠ Int.ofNat n then "violation radix2w value"
        else if ds ≠ specRadix2w w n then "violation radix2w spec"
        else digitsStr ds
    | _, _ => "err"
  | "sizehint", [w] =>
    match w.toNat? with
    | none => "err"
    | some w =>
      match toRadix2wSizeHint w with
      | none => "panic doc"
      | some h => "digits " ++ toString h
  | _, _ => "bad-op"

end Voi.Drv
