/- Stream F2: internal/field API vs arithmetic modulo p (Voi.Spec.Fp). -/
import Voi.Spec.Field
namespace Voi.Drv
open Voi Voi.Spec

def f2In (s : String) : Nat := Fp.ofBytes (ofHex! s)
def f2Out (n : Nat) : String := hexOf (Fp.toBytes n)

/-- RFC 9496 style inverse square root as the library's InvSqrt: SqrtRatioI(1, v) -/
def handleF2 (op : String) (a : List String) : String :=
  match op, a with
  | "setbytes", [x] => "ok " ++ f2Out (f2In x)
  | "setwide", [x] =>
    let b := ofHex! x
    if b.size ≠ 64 then "err" else "ok " ++ f2Out (leNat b % p)
  | "add", [x, y] => "ok " ++ f2Out (Fp.add (f2In x) (f2In y))
  | "sub", [x, y] => "ok " ++ f2Out (Fp.sub (f2In x) (f2In y))
  | "mul", [x, y] => "ok " ++ f2Out (Fp.mul (f2In x) (f2In y))
  | "neg", [x] => "ok " ++ f2Out (Fp.neg (f2In x))
  | "sq", [x] => "ok " ++ f2Out (Fp.sq (f2In x))
  | "sq2", [x] => "ok " ++ f2Out (Fp.mul 2 (Fp.sq (f2In x)))
  | "mul121666", [x] => "ok " ++ f2Out (Fp.mul 121666 (f2In x))
  | "invert", [x] => "ok " ++ f2Out (Fp.inv (f2In x))
  | "pow2k", [x, k] => "ok " ++ f2Out (Fp.pow (f2In x) (2 ^ k.toNat!))
  | "sqrtratio", [u, v] =>
    let (ok, r) := Fp.sqrtRatioM1 (f2In u) (f2In v)
    "ok " ++ f2Out r ++ " " ++ boolStr ok
  | "invsqrt", [v] =>
    let (ok, r) := Fp.sqrtRatioM1 1 (f2In v)
    "ok " ++ f2Out r ++ " " ++ boolStr ok
  | "isneg", [x] => "ok " ++ boolStr (Fp.isNeg (f2In x))
  | "iszero", [x] => "ok " ++ boolStr (f2In x == 0)
  | "equal", [x, y] => "ok " ++ boolStr (f2In x == f2In y)
  | "condneg", [x, _, c] => "ok " ++ f2Out (if c = "1" then Fp.neg (f2In x) else f2In x)
  | "condsel", [x, y, c] => "ok " ++ f2Out (if c = "1" then f2In y else f2In x)
  | "batchinvert", xs => "ok" ++ String.join (xs.map fun x => " " ++ f2Out (Fp.inv (f2In x)))
  | _, _ => "bad-op"

end Voi.Drv
