/-
Line-protocol handlers for the streams of package `curve` (Edwards side):

  D1  decoding / unmarshalling / canonicity / encoding / predicates / Edwards↔Montgomery maps   (property C10)
  G1  group law and every scalar-multiplication entry point                                    (property C03)

Everything is answered from the affine Spec (`Voi.Spec.Pt`, `Voi.Spec.Montgomery`).  A *point argument*
is either a 32-byte encoding or 64 bytes `encoding ‖ λ`: the Go side then presents the same point in
the projective representation (λX, λY, λZ, λT); for the Spec the scaling is irrelevant (λ must be ≠ 0).
-/
import Voi.Spec.Edwards
import Voi.Spec.Montgomery
namespace Voi.Drv
namespace Curve
open Voi Voi.Spec

/-- point argument: `enc` (32 bytes) or `enc ‖ λ` (64 bytes, λ ≠ 0 as a field element) -/
def ptOfBytes (b : Bytes) : Option Pt :=
  if b.size = 32 then Pt.decode b
  else if b.size = 64 ∨ b.size = 65 then
    -- 65 bytes: the last byte only tells the Go side how far to leave the coordinate limbs unreduced
    if Fp.ofBytes (bslice b 32 32) = 0 then none else Pt.decode (bslice b 0 32)
  else none

def parsePt (s : String) : Option Pt := (ofHex s).bind ptOfBytes

/-- `enc λ` given as two arguments -/
def parsePt2 (enc lam : String) : Option Pt :=
  match ofHex enc, ofHex lam with
  | some e, some l => if e.size = 32 ∧ l.size = 32 then ptOfBytes (e ++ l) else none
  | _, _ => none

/-- scalar argument: 32 bytes little endian; `scalar.NewFromBits` keeps the low 255 bits. -/
def parseSc (s : String) : Option Nat :=
  match ofHex s with
  | some b => if b.size = 32 then some (leNat b % 2^255) else none
  | none => none

def allSome {α : Type} : List (Option α) → Option (List α)
  | [] => some []
  | none :: _ => none
  | some x :: r => (allSome r).map (x :: ·)

def parsePts (l : List String) : Option (List Pt) := allSome (l.map parsePt)
def parseScs (l : List String) : Option (List Nat) := allSome (l.map parseSc)

def okPt (P : Pt) : String := "ok " ++ hexOf P.encode

/-- number of bits of `n` (0 for 0) -/
def bitLen (n : Nat) : Nat := if n = 0 then 0 else n.log2 + 1

/-- Σ sᵢ•Pᵢ by interleaved left-to-right double-and-add in extended coordinates:
for every bit position (from the top) double once, then add every Pᵢ whose scalar has that bit set.
Same value as `Spec.msm` (which runs a separate double-and-add per term) with ~3× fewer field operations;
a single inversion at the end. -/
def msmBits (terms : List (Nat × Ext)) : Nat → Ext → Ext
  | 0, acc => acc
  | i+1, acc =>
    let acc := Ext.dbl acc
    let acc := terms.foldl (fun a (t : Nat × Ext) => if t.1.testBit i then Ext.add a t.2 else a) acc
    msmBits terms i acc

def msmFast (ss : List Nat) (ps : List Pt) : Pt :=
  let terms := (ss.zip ps).map (fun (t : Nat × Pt) => (t.1, Ext.ofPt t.2))
  let nbits := terms.foldl (fun m (t : Nat × Ext) => max m (bitLen t.1)) 0
  (msmBits terms nbits Ext.zero).toPt

def sumPts (ps : List Pt) : Pt := (ps.foldl (fun a P => Ext.add a (Ext.ofPt P)) Ext.zero).toPt

def idEnc : String := hexOf Pt.zero.encode

def bools (l : List Bool) : String := "bools" ++ String.join (l.map (fun b => " " ++ boolStr b))

end Curve

open Voi Voi.Spec Curve in
def handleD1 (op : String) (a : List String) : String :=
  match op, a with
  -- NewCompressedEdwardsYFromBytes + SetCompressedY: any length
  | "decode", [b] =>
    match Pt.decode (ofHex! b) with
    | some P => okPt P
    | none => "err"
  -- EdwardsPoint.UnmarshalBinary on a receiver holding B: an error leaves the identity behind
  | "unmarshal", [b] =>
    match Pt.decode (ofHex! b) with
    | some P => okPt P
    | none => "err " ++ idEnc
  -- CompressedEdwardsY.UnmarshalBinary: success stores the input bytes verbatim
  | "cunmarshal", [b] =>
    let b := ofHex! b
    match Pt.decode b with
    | some _ => "ok " ++ hexOf b
    | none => "err " ++ idEnc
  | "iscanon", [b] =>
    let b := ofHex! b
    if b.size ≠ 32 then "err" else "bool " ++ boolStr (Pt.isCanonicalEnc b)
  | "pred", [e, l] =>
    match parsePt2 e l with
    | some P => bools [P.isZero, P.isSmallOrder, P.isTorsionFree]
    | none => "err"
  | "equal", [e1, l1, e2, l2] =>
    match parsePt2 e1 l1, parsePt2 e2 l2 with
    | some P, some Q => "bool " ++ boolStr (P == Q)
    | _, _ => "err"
  | "encode", [e, l] =>
    match parsePt2 e l with
    | some P => okPt P
    | none => "err"
  | "tomont", [e, l] =>
    match parsePt2 e l with
    | some P => "ok " ++ hexOf (Fp.toBytes (Montgomery.ofEdwards P))
    | none => "err"
  -- MontgomeryPoint.SetBytes + EdwardsPoint.SetMontgomery(u, sign): only bit 0 of `sign` survives `sign << 7`
  | "frommont", [u, sign] =>
    match Montgomery.decodeU (ofHex! u) with
    | none => "err"
    | some u =>
      match Montgomery.toEdwards u (sign.toNat! % 2 = 1) with
      | some P => okPt P
      | none => "err"
  | _, _ => "bad-op"

open Voi Voi.Spec Curve in
def handleG1 (op : String) (a : List String) : String :=
  match op, a with
  | "add", [P, Q] =>
    match parsePt P, parsePt Q with
    | some P, some Q => okPt (P.add Q)
    | _, _ => "err"
  | "sub", [P, Q] =>
    match parsePt P, parsePt Q with
    | some P, some Q => okPt (P.sub Q)
    | _, _ => "err"
  | "neg", [P] =>
    match parsePt P with
    | some P => okPt P.neg
    | none => "err"
  | "dbl", [P] =>
    match parsePt P with
    | some P => okPt P.dbl
    | none => "err"
  | "mul8", [P] =>
    match parsePt P with
    | some P => okPt P.mul8
    | none => "err"
  | "sum", n :: ps =>
    if ps.length ≠ n.toNat! then "bad-op" else
    match parsePts ps with
    | some ps => okPt (sumPts ps)
    | none => "err"
  | "mul", [s, P] =>
    match parseSc s, parsePt P with
    | some s, some P => okPt (P.smul s)
    | _, _ => "err"
  | "mulbase", [s] =>
    match parseSc s with
    | some s => okPt (Pt.B.smul s)
    | none => "err"
  -- NewEdwardsBasepointTable(P).{MulBasepoint(s), Basepoint()}
  | "mulbasetbl", [s, P] =>
    match parseSc s, parsePt P with
    | some s, some P => okPt (P.smul s) ++ " " ++ hexOf P.encode
    | _, _ => "err"
  -- NewExpandedEdwardsPoint(P).Point() and SetExpanded
  | "xpoint", [P] =>
    match parsePt P with
    | some P => okPt P ++ " " ++ hexOf P.encode
    | none => "err"
  | "dsm", [x, A, y] => dsm x A y
  | "xdsm", [x, A, y] => dsm x A y
  | "tsm", [x, A, y, C] => tsm x A y C
  | "xtsm", [x, A, y, C] => tsm x A y C
  | "msm", ns :: np :: r => msmOp ns np r
  | "msmvt", ns :: np :: r => msmOp ns np r
  | "xmsmvt", nss :: nsp :: nds :: ndp :: r =>
    let nss := nss.toNat!; let nsp := nsp.toNat!; let nds := nds.toNat!; let ndp := ndp.toNat!
    if r.length ≠ nss + nsp + nds + ndp then "bad-op" else
    let ss := r.take nss; let r := r.drop nss
    let sp := r.take nsp; let r := r.drop nsp
    let ds := r.take nds; let dp := r.drop nds
    match parseScs ss, parsePts sp, parseScs ds, parsePts dp with
    | some ss, some sp, some ds, some dp =>
      if nss ≠ nsp ∨ nds ≠ ndp then "panic doc" else okPt (msmFast (ss ++ ds) (sp ++ dp))
    | _, _, _, _ => "err"
  | _, _ => "bad-op"
where
  /-- aA + bB -/
  dsm (x A y : String) : String :=
    match parseSc x, parsePt A, parseSc y with
    | some x, some A, some y => okPt (msmFast [x, y] [A, Pt.B])
    | _, _, _ => "err"
  /-- the triple product is only defined up to the internal scaling δ (invertible mod L):
  it is of small order exactly when 8•(aA + bB − C) = 0 -/
  tsm (x A y C : String) : String :=
    match parseSc x, parsePt A, parseSc y, parsePt C with
    | some x, some A, some y, some C => "bool " ++ boolStr ((msmFast [x, y] [A, Pt.B]).sub C).isSmallOrder
    | _, _, _, _ => "err"
  msmOp (ns np : String) (r : List String) : String :=
    let ns := ns.toNat!; let np := np.toNat!
    if r.length ≠ ns + np then "bad-op" else
    match parseScs (r.take ns), parsePts (r.drop ns) with
    | some ss, some ps => if ns ≠ np then "panic doc" else okPt (msmFast ss ps)
    | _, _ => "err"

end Voi.Drv
