/- Line-protocol handler for stream Q1 (sr25519, property C12).  All replies come from `Spec.Sr25519`.
The batch operations evaluate BOTH the code-shaped model (delinearised batch equation with the z_i drawn from the
"V-RNG" transcript, then the serial fallback) and the statement of the property (per-entry single verification and
its conjunction); if the two ever differ the reply is `spec-inconsistent`. -/
import Voi.Spec.Sr25519
import Voi.Spec.Keccak
import Voi.Drv.Merlin
namespace Voi.Drv
open Voi Voi.Spec Voi.Spec.Merlin Voi.Spec.Sr25519

/-- state of the stateful part of stream Q1: batch verifiers by id -/
structure SrDrv where
  batches : List (Nat × BatchVerifier) := []
  deriving Inhabited

namespace Q1

def srErrReply : SrErr → String
  | .merlin .entropy => "err"
  | .merlin e => MerlinDrv.merlinErrReply e
  | .hashSize => "panic doc"
  | .xofShort => "panic doc"
  | .batchRng => "panic doc"

/-- the signing transcript for `kind ctx msg`; `none` = unknown kind -/
def mkTranscript (kind : String) (ctx msg : Bytes) : Option (Except SrErr Transcript) :=
  let withSc (f : Transcript → Except SrErr Transcript) : Option (Except SrErr Transcript) :=
    some (match newSigningContext ctx with
      | .error e => .error (.merlin e)
      | .ok sc => f sc)
  match kind with
  | "bytes"    => withSc (fun sc => newTranscriptBytes sc msg)
  | "sha256"   => withSc (fun sc => newTranscriptHash sc (sha256 msg))
  | "sha512"   => withSc (fun sc => newTranscriptHash sc (sha512 msg))
  | "sha3-256" => withSc (fun sc => newTranscriptHash sc (sha3_256 msg))
  | "sha3-512" => withSc (fun sc => newTranscriptHash sc (sha3_512 msg))
  | "sha224"   => withSc (fun sc => newTranscriptHash sc (sha224 msg))   -- 28-byte digest: documented panic
  | "sha384"   => withSc (fun sc => newTranscriptHash sc (sha384 msg))   -- 48-byte digest: documented panic
  | "shake128" => withSc (fun sc => newTranscriptXOF sc (shake128 msg 32))
  | "shake256" => withSc (fun sc => newTranscriptXOF sc (shake256 msg 32))
  | "xofraw"   => withSc (fun sc => newTranscriptXOF sc msg)             -- the reader yields `msg` itself, then EOF
  | _ => none

def okSkPk (sk : SecretKey) : String :=
  "ok " ++ hexOf sk.marshal ++ " " ++ hexOf sk.publicKey.marshal

/-- generic decoder op: preload the receiver with `pre` (`-` = zero value), unmarshal `b`, print the receiver -/
def decOp {α} (dec : Bytes → Option α) (into : Option α → Bytes → Option α × Bool) (marshal : Option α → Bytes)
    (pre b : String) : String :=
  let recv : Option (Option α) :=
    if pre = "-" then some none else
    match dec (ofHex! pre) with
    | some x => some (some x)
    | none => none
  match recv with
  | none => "bad-gen"
  | some r =>
    let (r', ok) := into r (ofHex! b)
    -- marshalling after unmarshalling is the identity on accepted strings
    if ok && !beq (marshal r') (ofHex! b) then "spec-inconsistent" else
    (if ok then "ok " else "err ") ++ hexOf (marshal r')

def getB (m : List (Nat × BatchVerifier)) (k : Nat) : Option BatchVerifier := (m.find? (·.1 == k)).map (·.2)
def putB (m : List (Nat × BatchVerifier)) (k : Nat) (v : BatchVerifier) : List (Nat × BatchVerifier) :=
  (k, v) :: m.filter (·.1 != k)

def boolsReply (all : Bool) (l : List Bool) : String :=
  l.foldl (fun acc b => acc ++ " " ++ boolStr b) ("bools " ++ boolStr all)

end Q1

open Q1 in
def handleQ1 (st : SrDrv) (op : String) (a : List String) : SrDrv × String :=
  match op, a with
  | "sr.expand", [mode, msk] =>
    (st,
      match decodeMiniSecretKey (ofHex! msk) with
      | none => "err"
      | some m =>
        if mode = "uniform" then
          match expandUniform m with
          | .ok sk => okSkPk sk
          | .error e => MerlinDrv.merlinErrReply e
        else if mode = "ed25519" then
          let sk := expandEd25519 m
          -- the loop of `scalarDivideByCofactor` against its specification (value / 8)
          if !beq (natLE sk.key 32) (divideByCofactorLoop (clampEd25519 (bslice (sha512 m) 0 32))) then "spec-inconsistent"
          else okSkPk sk
        else "bad-op")
  | "sr.sk.fromed", [b] =>
    (st,
      match secretKeyFromEd25519Bytes (ofHex! b) with
      | none => "err"
      | some sk =>
        if !beq (natLE sk.key 32) (divideByCofactorLoop (bslice (ofHex! b) 0 32)) then "spec-inconsistent" else okSkPk sk)
  | "sr.sign", [kind, ctx, msg, entropy, kp] =>
    (st,
      match mkTranscript kind (ofHex! ctx) (ofHex! msg) with
      | none => "bad-op"
      | some (.error e) => srErrReply e
      | some (.ok t) =>
        match decodeKeyPair (ofHex! kp) with
        | none => "err"
        | some kp =>
          match sign kp t (ofHex! entropy) with
          | .error e => srErrReply (.merlin e)
          | .ok sig =>
            -- the signature is marshalled, unmarshalled and verified on the SAME transcript value
            match decodeSignature sig.marshal with
            | none => "ok " ++ hexOf sig.marshal ++ " 00"
            | some sig' =>
              match verify kp.pk t sig' with
              | .error e => srErrReply (.merlin e)
              | .ok v => "ok " ++ hexOf sig.marshal ++ (if v then " 01" else " 00"))
  | "sr.sign.rand", [kind, ctx, msg, kp] =>
    -- Sign with rng = nil (crypto/rand): the signature is not determined, but by completeness
    -- (for EVERY witness scalar the produced signature verifies) the verdict is
    (st,
      match mkTranscript kind (ofHex! ctx) (ofHex! msg) with
      | none => "bad-op"
      | some (.error e) => srErrReply e
      | some (.ok _) =>
        match decodeKeyPair (ofHex! kp) with
        | none => "err"
        | some _ => "bool 1")
  | "sr.verify", [kind, ctx, msg, pk, sig] =>
    (st,
      match mkTranscript kind (ofHex! ctx) (ofHex! msg) with
      | none => "bad-op"
      | some (.error e) => srErrReply e
      | some (.ok t) =>
        match decodePublicKey (ofHex! pk), decodeSignature (ofHex! sig) with
        | some pk, some sig =>
          match verify pk t sig with
          | .ok b => "bool " ++ boolStr b
          | .error e => srErrReply (.merlin e)
        | _, _ => "err")
  | "sr.verify.recv", [kind, ctx, msg, pk, sig] =>
    -- Verify on the receivers as `UnmarshalBinary` left them (zero values after a failed decode)
    (st,
      match mkTranscript kind (ofHex! ctx) (ofHex! msg) with
      | none => "bad-op"
      | some (.error e) => srErrReply e
      | some (.ok t) =>
        let pkR := (PublicKey.unmarshalInto none (ofHex! pk)).1
        let sigR := (Signature.unmarshalInto none (ofHex! sig)).1
        match verifyRecv pkR t sigR with
        | .ok b => "bool " ++ boolStr b
        | .error e => srErrReply (.merlin e))
  | "sr.dec.sig", [pre, b] => (st, decOp decodeSignature Signature.unmarshalInto marshalSignature pre b)
  | "sr.dec.pk", [pre, b] => (st, decOp decodePublicKey PublicKey.unmarshalInto marshalPublicKey pre b)
  | "sr.dec.sk", [pre, b] => (st, decOp decodeSecretKey SecretKey.unmarshalInto marshalSecretKey pre b)
  | "sr.dec.kp", [pre, b] => (st, decOp decodeKeyPair KeyPair.unmarshalInto marshalKeyPair pre b)
  | "sr.dec.msk", [pre, b] => (st, decOp decodeMiniSecretKey MiniSecretKey.unmarshalInto marshalMiniSecretKey pre b)
  | "sr.b.new", [id, _cap] => ({ st with batches := putB st.batches id.toNat! {} }, "ok")
  | "sr.b.add", [id, kind, ctx, msg, pk, sig] =>
    match getB st.batches id.toNat! with
    | none => (st, "bad-op")
    | some v =>
      match mkTranscript kind (ofHex! ctx) (ofHex! msg) with
      | none => (st, "bad-op")
      | some (.error e) => (st, srErrReply e)
      | some (.ok t) =>
        let (pkR, okP) := PublicKey.unmarshalInto none (ofHex! pk)
        let (sigR, okS) := Signature.unmarshalInto none (ofHex! sig)
        match v.add pkR t sigR with
        | .error e => (st, srErrReply (.merlin e))
        | .ok v' => ({ st with batches := putB st.batches id.toNat! v' }, if okP && okS then "ok" else "err")
  | "sr.b.verify", [id, entropy] =>
    (st,
      match getB st.batches id.toNat! with
      | none => "bad-op"
      | some v =>
        let (eAll, eValid) := v.expected
        if entropy = "nil" then boolsReply eAll eValid else
        match v.verify (ofHex! entropy) with
        | .error e => srErrReply e
        | .ok (all, valid) =>
          if all != eAll || valid != eValid then "spec-inconsistent" else boolsReply all valid)
  | "sr.b.only", [id, entropy] =>
    (st,
      match getB st.batches id.toNat! with
      | none => "bad-op"
      | some v =>
        let (eAll, _) := v.expected
        if entropy = "nil" then "bool " ++ boolStr eAll else
        match v.verifyBatchOnly (ofHex! entropy) with
        | .error e => srErrReply e
        | .ok b => if b != eAll then "spec-inconsistent" else "bool " ++ boolStr b)
  | "sr.b.reset", [id] =>
    match getB st.batches id.toNat! with
    | none => (st, "bad-op")
    | some v => ({ st with batches := putB st.batches id.toNat! v.reset }, "ok")
  | _, _ => (st, "bad-op")

end Voi.Drv
