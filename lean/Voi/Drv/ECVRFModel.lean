/-
Line-protocol handler for stream E2: the same requests as E1 (`vrf.prove`, `vrf.provernd`, `vrf.verify`, `vrf.hash`),
answered by the CODE-SHAPED model `Voi.Model.ECVRF` (`doProve`, `doVerify`, `proofToHash`) instantiated with the concrete
interface — not by the declarative `Voi.Spec.ECVRF`.  Together with E1 this ties model, specification and Go code on
every run; model = specification for all inputs is `Voi.Props.C15.vrf_model_eq_spec`.
-/
import Voi.Model.ECVRF
namespace Voi.Drv
open Voi Voi.Spec Voi.Model.ECVRF

/-- `cur` = RFC 9381 (`draftPreV11 = false`), `v10` = draft ≤ 10 (`draftPreV11 = true`) -/
def e2PreV11 (ver : String) : Option Bool :=
  match ver with
  | "cur" => some false
  | "v10" => some true
  | _ => none

def handleE2 (op : String) (a : List String) : String :=
  match op, a with
  -- Prove / Prove_v10: `doProve(nil, …)`, an error is turned into a panic
  | "vrf.prove", [ver, sk, alpha] =>
    match e2PreV11 ver with
    | none => "bad-op"
    | some pre =>
      match doProve concrete none (ofHex! sk) (ofHex! alpha) pre with
      | some pi => "ok " ++ hexOf pi
      | none => "panic doc"
  -- ProveWithAddedRandomness(_v10): `doProve(rand, …)` with a reader over `entropy`
  | "vrf.provernd", [ver, sk, alpha, ent] =>
    match e2PreV11 ver with
    | none => "bad-op"
    | some pre =>
      match doProve concrete (some (ofHex! ent)) (ofHex! sk) (ofHex! alpha) pre with
      | some pi => "ok " ++ hexOf pi
      | none => "err"
  | "vrf.verify", [ver, pk, pi, alpha] =>
    match e2PreV11 ver with
    | none => "bad-op"
    | some pre =>
      match doVerify concrete (ofHex! pk) (ofHex! pi) (ofHex! alpha) pre with
      | .valid beta => "ok " ++ hexOf beta
      | .invalid => "err"
      | .panic => "panic doc"
  | "vrf.hash", [pi] =>
    match proofToHash concrete (ofHex! pi) with
    | some b => "ok " ++ hexOf b
    | none => "err"
  | _, _ => "bad-op"

end Voi.Drv
