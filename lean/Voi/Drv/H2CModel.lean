/-
Line-protocol handler for stream H3 (property C14): the requests of H1 (message expansion) and H2
(Elligator 2, hash-to-curve suites) — same ops, same arguments — answered by the CODE-SHAPED model
`Voi.Model.H2C` instead of the RFC 9380 Spec.  H1/H2 tie the Spec to the Go code, H3 ties the model;
`Voi/Props/C14.lean` proves model = Spec for all inputs.
-/
import Voi.Model.H2C
import Voi.Drv.H2C
namespace Voi.Drv
open Voi Voi.Spec Voi.Model.H2C

/-- the buffer the harness hands to the library: `n` bytes 0xa5, every one of which must be
overwritten -/
def h3Out (n : Nat) : Bytes := ⟨Array.replicate n 0xa5⟩

/-- expander named in a request: a hash (XMD) or `x128` / `x256` (XOF); the harness hands over a
SHAKE instance that has already absorbed a string, which the library must discard -/
def h3ExpandOf (s : String) : Option Expand :=
  let dirty := strBytes "state that the library must discard"
  match s with
  | "x128" => some (expandXOF ⟨shake128, dirty, 0⟩)
  | "x256" => some (expandXOF ⟨shake256, dirty, 0⟩)
  | _ => (h2cHashOf s).map expandXMD

def h3Pt : Res Pt → String
  | .ok P => h2cPtReply P
  | .err => "err"
  | .panic => "panic doc"

def h3Bytes : Res Bytes → String
  | .ok b => "ok " ++ hexOf b
  | .err => "err"
  | .panic => "panic doc"

def handleH3 (op : String) (a : List String) : String :=
  match op, a with
  -- H1
  | "xmd", [h, dst, msg, n] =>
    match h2cHashOf h with
    | none => "bad-op"
    | some hf => h2cOkBytes (expandMessageXMD (h3Out n.toNat!) hf (ofHex! dst) (ofHex! msg))
  | "xof", [x, dst, msg, n, pre, rd] =>
    -- the XOF instance handed to the library has absorbed `pre` and been squeezed for `rd` bytes
    match x with
    | "128" => h2cOkBytes (expandMessageXOF (h3Out n.toNat!) ⟨shake128, ofHex! pre, rd.toNat!⟩ (ofHex! dst) (ofHex! msg))
    | "256" => h2cOkBytes (expandMessageXOF (h3Out n.toNat!) ⟨shake256, ofHex! pre, rd.toNat!⟩ (ofHex! dst) (ofHex! msg))
    | _ => "bad-op"
  -- H2
  | "ell2", [fe] =>
    match edwardsFlavor (Fp.ofBytes (ofHex! fe)) with
    | some P => "ok " ++ hexOf P.encode
    | none => "panic doc"
  | "ell2m", [fe] =>
    let (u, v) := montgomeryFlavor (Fp.ofBytes (ofHex! fe))
    "ok " ++ hexOf (Fp.toBytes u) ++ " " ++ hexOf (Fp.toBytes v)
  | "h2c.ro", [dst, msg] => h3Pt (edwards25519_XMD_SHA512_ELL2_RO (ofHex! dst) (ofHex! msg))
  | "h2c.nu", [dst, msg] => h3Pt (edwards25519_XMD_SHA512_ELL2_NU (ofHex! dst) (ofHex! msg))
  | "h2c.rist", [dst, msg] => h3Bytes (ristretto255_R255MAP_RO (expandXMD H2C.hSha512) (ofHex! dst) (ofHex! msg))
  | "h2c.gro", [e, dst, msg] =>
    match h3ExpandOf e with
    | none => "bad-op"
    | some ex => h3Pt (edwards25519_ELL2_RO ex (ofHex! dst) (ofHex! msg))
  | "h2c.gnu", [e, dst, msg] =>
    match h3ExpandOf e with
    | none => "bad-op"
    | some ex => h3Pt (edwards25519_ELL2_NU ex (ofHex! dst) (ofHex! msg))
  | "h2c.grist", [e, dst, msg] =>
    match h3ExpandOf e with
    | none => "bad-op"
    | some ex => h3Bytes (ristretto255_R255MAP_RO ex (ofHex! dst) (ofHex! msg))
  | "h2c.u2f", [b] =>
    match uniformToField25519 (ofHex! b) with
    | some fe => "ok " ++ hexOf (Fp.toBytes fe)
    | none => "panic doc"
  | "h2c.enc", [b] =>
    let b := ofHex! b
    if b.size ≠ encodeToCurveSize then "bad-op" else h3Pt (resOfOption (encodeToCurve b))
  | "h2c.htc", [b] =>
    let b := ofHex! b
    if b.size ≠ hashToCurveSize then "bad-op" else h3Pt (resOfOption (hashToCurve b))
  | _, _ => "bad-op"

end Voi.Drv
