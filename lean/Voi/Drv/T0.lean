/-
Stream T0: executes the IR programs that go2ir regenerated from the Go source (the text rendering of exactly the
programs the L0 theorems are about) on the same inputs as the real Go functions.  Uses `Voi.IR.run`, the evaluator the
soundness theorems are stated for.
-/
import Voi.Basic
import Voi.IR.Tree
namespace Voi.Drv
open Voi Voi.IR

structure IRProg where
  name : String
  nin : Nat
  outs : List Nat
  ops : List Op
  tree : Option DTree := none

def parseOp (ws : List String) : Option Op :=
  match ws with
  | ["const", n] => some (.const n.toNat!)
  | ["add", a, b] => some (.add a.toNat! b.toNat!)
  | ["mul", a, b] => some (.mul a.toNat! b.toNat!)
  | ["and", a, b] => some (.and a.toNat! b.toNat!)
  | ["or", a, b] => some (.or a.toNat! b.toNat!)
  | ["xor", a, b] => some (.xor a.toNat! b.toNat!)
  | ["lt", a, b] => some (.lt a.toNat! b.toNat!)
  | ["eq", a, b] => some (.eq a.toNat! b.toNat!)
  | ["subw", a, b, n] => some (.subw a.toNat! b.toNat! n.toNat!)
  | ["shr", a, k] => some (.shr a.toNat! k.toNat!)
  | ["shl", a, k] => some (.shl a.toNat! k.toNat!)
  | ["low", a, k] => some (.low a.toNat! k.toNat!)
  | ["wrap", a, k] => some (.wrap a.toNat! k.toNat!)
  | _ => none

def parseNatList (s : String) : List Nat :=
  if s = "" then [] else (s.splitOn ",").map String.toNat!

/-- `prog <name> <nin> <inbits> <outs> ; op ; op …` -/
def parseProg (line : String) : Option IRProg :=
  match line.splitOn " ; " with
  | [] => none
  | hd :: ops =>
    match splitWords hd with
    | ["prog", name, nin, _inbits, outs] =>
      let ops' := ops.filterMap fun o => parseOp (splitWords o)
      if ops'.length = ops.length then some { name := name, nin := nin.toNat!, outs := parseNatList outs, ops := ops' } else none
    | ["prog", name, nin, _inbits] =>   -- a program without outputs
      let ops' := ops.filterMap fun o => parseOp (splitWords o)
      if ops'.length = ops.length then some { name := name, nin := nin.toNat!, outs := [], ops := ops' } else none
    | _ => none

/-- segment text `op ; op ; …` (possibly empty) -/
def parseOps (s : String) : Option (List Op) :=
  let parts := (s.splitOn " ; ").map splitWords |>.filter (· ≠ [])
  let ops := parts.filterMap parseOp
  if ops.length = parts.length then some ops else none

/-- recursive-descent parser for the tree text `( L ops | outs )` / `( N ops | c T E )`, on a token list -/
def parseTree : Nat → List String → Option (DTree × List String)
  | 0, _ => none
  | fuel+1, "(" :: kind :: rest =>
    let seg := rest.takeWhile (· ≠ "|")
    let rest' := (rest.dropWhile (· ≠ "|")).drop 1
    match parseOps (" ".intercalate seg) with
    | none => none
    | some ops =>
      if kind = "L" then
        match rest' with
        | ")" :: r => some (.leaf ops [], r)
        | outs :: ")" :: r => some (.leaf ops (parseNatList outs), r)
        | _ => none
      else
        match rest' with
        | c :: r =>
          match parseTree fuel r with
          | none => none
          | some (t, r1) =>
            match parseTree fuel r1 with
            | none => none
            | some (e, r2) =>
              match r2 with
              | ")" :: r3 => some (.node ops c.toNat! t e, r3)
              | _ => none
        | _ => none
  | _, _ => none

def parseTreeLine (line : String) : Option IRProg :=
  match splitWords line with
  | "tree" :: name :: nin :: _inbits :: rest =>
    match parseTree 100000 rest with
    | some (t, _) => some { name := name, nin := nin.toNat!, outs := [], ops := [], tree := some t }
    | none => none
  | _ => none

def parseIR (text : String) : List IRProg :=
  (text.splitOn "\n").filterMap fun l =>
    if l.startsWith "prog " then parseProg l else if l.startsWith "tree " then parseTreeLine l else none

def handleT0 (progs : List IRProg) (op : String) (a : List String) : String :=
  match op, a with
  | "run", name :: ins =>
    -- "<ir program>@<entry point>": the same program, a different real entry point on the Go side
    let base := (name.splitOn "@").headD name
    match progs.find? (·.name = base) with
    | none => "err no-such-program"
    | some p =>
      let e : Env := ins.map String.toNat!
      if e.length ≠ p.nin then "err arity" else
      match p.tree with
      | some t => "ok" ++ String.join ((t.eval e).map fun v => " " ++ toString v)
      | none =>
      let r := run p.ops e
      "ok" ++ String.join (p.outs.map fun o => " " ++ toString (get r o))
  | "runv", name :: ins =>
    -- compare through the abstraction function: value of the 5×51-bit output modulo p, and "all limbs < 2^53"
    let base := (name.splitOn "@").headD name
    match progs.find? (·.name = base) with
    | none => "err no-such-program"
    | some p =>
      let e : Env := ins.map String.toNat!
      if e.length ≠ p.nin then "err arity" else
      let r := run p.ops e
      let limbs := p.outs.map (get r ·)
      let val := (limbs.foldr (fun l acc => acc * 2^51 + l) 0) % (2^255 - 19)
      "ok " ++ toString val ++ " " ++ boolStr (limbs.all (· < 2^53))
  | _, _ => "bad-op"

end Voi.Drv
