/- Line-protocol handlers for streams M1 (Merlin transcripts + raw STROBE histories) and S0 (Keccak-f[1600]). -/
import Voi.Spec.Merlin
namespace Voi.Drv
open Voi Voi.Model.Strobe Voi.Spec.Merlin

/-- id → object maps of the stateful stream M1 (association lists; one id space per kind of object) -/
structure MerlinDrv where
  ts   : List (Nat × Transcript) := []
  rbs  : List (Nat × RngBuilder) := []
  rngs : List (Nat × TranscriptRng) := []
  sts  : List (Nat × Strobe) := []
  deriving Inhabited

namespace MerlinDrv
def put {α} (m : List (Nat × α)) (k : Nat) (v : α) : List (Nat × α) := (k, v) :: m.filter (·.1 != k)
def get {α} (m : List (Nat × α)) (k : Nat) : Option α := (m.find? (·.1 == k)).map (·.2)
def bytesToList (b : Bytes) : List UInt8 := b.data.toList
def listToBytes (l : List UInt8) : Bytes := ⟨l.toArray⟩

def strobeErrReply : Err → String
  | .uninit => "panic doc"
  | .flagMismatch => "panic doc"
  | .oob => "panic runtime"

def merlinErrReply : MErr → String
  | .strobe e => strobeErrReply e
  | .tooLong => "panic doc"
  | .entropy => "err"
  | .nilBuilder => "panic runtime"
end MerlinDrv
open MerlinDrv

def handleM1 (st : MerlinDrv) (op : String) (a : List String) : MerlinDrv × String :=
  let hexL (s : String) : List UInt8 := bytesToList (ofHex! s)
  match op, a with
  | "m.new", [id, label] =>
    match newTranscript (hexL label) with
    | .ok t => ({ st with ts := put st.ts id.toNat! t }, "ok")
    | .error e => (st, merlinErrReply e)
  | "m.append", [id, label, msg] =>
    match get st.ts id.toNat! with
    | none => (st, "bad-op")
    | some t =>
      match appendMessage t (hexL label) (hexL msg) with
      | .ok t' => ({ st with ts := put st.ts id.toNat! t' }, "ok")
      | .error e => (st, merlinErrReply e)
  | "m.extract", [id, label, n] =>
    match get st.ts id.toNat! with
    | none => (st, "bad-op")
    | some t =>
      match extractBytes t (hexL label) n.toNat! with
      | .ok (t', out) => ({ st with ts := put st.ts id.toNat! t' }, "ok " ++ hexOf (listToBytes out))
      | .error e => (st, merlinErrReply e)
  | "m.clone", [id, newid] =>
    match get st.ts id.toNat! with
    | none => (st, "bad-op")
    | some t => ({ st with ts := put st.ts newid.toNat! t.clone }, "ok")
  | "m.rng", [id, rngid] =>
    match get st.ts id.toNat! with
    | none => (st, "bad-op")
    | some t => ({ st with rbs := put st.rbs rngid.toNat! (buildRng t) }, "ok")
  | "m.rekey", [rngid, label, witness] =>
    match get st.rbs rngid.toNat! with
    | none => (st, "bad-op")
    | some rb =>
      match rekeyWithWitnessBytes rb (hexL label) (hexL witness) with
      | .ok rb' => ({ st with rbs := put st.rbs rngid.toNat! rb' }, "ok")
      | .error e => (st, merlinErrReply e)
  | "m.final", [rngid, newid, entropy] =>
    match get st.rbs rngid.toNat! with
    | none => (st, "bad-op")
    | some rb =>
      match finalize rb (hexL entropy) with
      | .ok (rb', rng) =>
        ({ st with rbs := put st.rbs rngid.toNat! rb', rngs := put st.rngs newid.toNat! rng }, "ok")
      | .error e => (st, merlinErrReply e)
  | "m.read", [id, n] =>
    match get st.rngs id.toNat! with
    | none => (st, "bad-op")
    | some rng =>
      match rng.read n.toNat! with
      | .ok (rng', out) => ({ st with rngs := put st.rngs id.toNat! rng' }, "ok " ++ hexOf (listToBytes out))
      | .error e => (st, merlinErrReply e)
  | "st.new", [id, proto] =>
    match new (hexL proto) with
    | .ok s => ({ st with sts := put st.sts id.toNat! s }, "ok")
    | .error e => (st, strobeErrReply e)
  | "st.zero", [id] => ({ st with sts := put st.sts id.toNat! zeroValue }, "ok")
  | "st.clone", [id, newid] =>
    match get st.sts id.toNat! with
    | none => (st, "bad-op")
    | some s => ({ st with sts := put st.sts newid.toNat! s.clone }, "ok")
  | "st.ad", [id, isMeta, more, data] =>
    match get st.sts id.toNat! with
    | none => (st, "bad-op")
    | some s =>
      let r := if isMeta = "1" then MetaAD s (hexL data) (more = "1") else AD s (hexL data) (more = "1")
      match r with
      | .ok s' => ({ st with sts := put st.sts id.toNat! s' }, "ok")
      | .error e => (st, strobeErrReply e)
  | "st.key", [id, more, data] =>
    match get st.sts id.toNat! with
    | none => (st, "bad-op")
    | some s =>
      match KEYm s (hexL data) (more = "1") with
      | .ok s' => ({ st with sts := put st.sts id.toNat! s' }, "ok")
      | .error e => (st, strobeErrReply e)
  | "st.prf", [id, more, n] =>
    match get st.sts id.toNat! with
    | none => (st, "bad-op")
    | some s =>
      match PRFm s n.toNat! (more = "1") with
      | .ok (s', out) => ({ st with sts := put st.sts id.toNat! s' }, "ok " ++ hexOf (listToBytes out))
      | .error e => (st, strobeErrReply e)
  | _, _ => (st, "bad-op")

def handleS0 (op : String) (a : List String) : String :=
  match op, a with
  | "keccakf", [s] =>
    let b := ofHex! s
    if b.size ≠ 200 then "bad-op" else
    -- the lane interface: 25 little-endian lanes in, 25 lanes out
    "ok " ++ hexOf (Voi.Spec.bytesOfLanes (Voi.Spec.keccakF1600 (Voi.Spec.lanesOfBytes b)))
  | "keccakf.bytes", [s] =>
    let b := ofHex! s
    if b.size ≠ 200 then "bad-op" else "ok " ++ hexOf (Voi.Spec.keccakF1600Bytes b)
  | _, _ => "bad-op"


/-- Stream M2: one whole transcript history per request (`m.script label msg… n` = NewTranscript(label); AppendMessage("a", msgᵢ)
for every i; ExtractBytes("c", n)), so that the requests are independent of each other and can be executed from many
goroutines at once (used to look for interference between concurrently advancing transcripts). -/
def handleM2 (op : String) (a : List String) : String :=
  let hexL (s : String) : List UInt8 := bytesToList (ofHex! s)
  match op, a with
  | "m.script", label :: rest =>
    match rest.getLast? with
    | none => "bad-op"
    | some n =>
      match newTranscript (hexL label) with
      | .error e => merlinErrReply e
      | .ok t =>
        let r := rest.dropLast.foldl (fun (acc : Except MErr Transcript) m => acc.bind fun t => appendMessage t [0x61] (hexL m)) (.ok t)
        match r with
        | .error e => merlinErrReply e
        | .ok t =>
          match extractBytes t [0x63] n.toNat! with
          | .ok (_, out) => "ok " ++ hexOf (listToBytes out)
          | .error e => merlinErrReply e
  | _, _ => "bad-op"

end Voi.Drv
