/- Line-protocol handler for stream X1 (X25519, property C07).  Replies come from `Spec.X25519`
(RFC 7748 pseudo-code); the code-shaped `Model.Montgomery` is computed as well and must agree
(`model-mismatch` otherwise), and `x.model` replies from the Model alone. -/
import Voi.Spec.X25519
import Voi.Spec.Ed25519
import Voi.Model.Montgomery
namespace Voi.Drv
open Voi Voi.Spec

/-- reply from the Spec, after checking that the Model computed the same bytes -/
def x1Both (spec model : Bytes) : String :=
  if beq spec model then "ok " ++ hexOf spec
  else "model-mismatch " ++ hexOf spec ++ " " ++ hexOf model

def x1BothOpt (spec model : Option Bytes) : String :=
  match spec, model with
  | none, none => "err"
  | some s, some m => x1Both s m
  | some s, none => "model-mismatch " ++ hexOf s ++ " err"
  | none, some m => "model-mismatch err " ++ hexOf m

def handleX1 (op : String) (a : List String) : String :=
  match op, a with
  | "x.mult", [k, u] =>
    let k := ofHex! k; let u := ofHex! u
    if k.size ≠ 32 ∨ u.size ≠ 32 then "bad-op" else
    x1Both (X25519.x25519 k u) (Model.Montgomery.scalarMult k u)
  | "x.model", [k, u] =>
    let k := ofHex! k; let u := ofHex! u
    if k.size ≠ 32 ∨ u.size ≠ 32 then "bad-op" else
    "ok " ++ hexOf (Model.Montgomery.scalarMult k u)
  | "x.mmul", [s, u] =>
    -- curve.MontgomeryPoint.Mul with an unclamped scalar (bit 255 masked by NewFromBits): the RFC ladder on
    -- the 255-bit integer itself
    let s := ofHex! s; let u := ofHex! u
    if s.size ≠ 32 ∨ u.size ≠ 32 then "err" else
    let n := leNat s % 2^255
    x1Both (X25519.encodeUCoordinate (X25519.x25519Nat n (X25519.decodeUCoordinate u))) (Model.Montgomery.mul u n)
  | "x.base", [k] =>
    let k := ofHex! k
    if k.size ≠ 32 then "bad-op" else
    x1Both (X25519.scalarBaseMult k) (Model.Montgomery.scalarBaseMult k)
  | "x.x25519", [k, u] =>
    let k := ofHex! k; let u := ofHex! u
    x1BothOpt (X25519.x25519Checked k u) (Model.Montgomery.x25519 k u false)
  | "x.x25519bp", [k] =>
    let k := ofHex! k
    x1BothOpt (X25519.x25519Checked k X25519.basepoint) (Model.Montgomery.x25519 k X25519.basepoint true)
  | "x.dh", [ka, kb] =>
    let ka := ofHex! ka; let kb := ofHex! kb
    if ka.size ≠ 32 ∨ kb.size ≠ 32 then "bad-op" else
    let pubA := X25519.scalarBaseMult ka
    let pubB := X25519.scalarBaseMult kb
    "ok " ++ hexOf (X25519.x25519 ka pubB) ++ " " ++ hexOf (X25519.x25519 kb pubA)
  | "x.dhraw", [k, u] =>
    let k := ofHex! k; let u := ofHex! u
    if k.size ≠ 32 ∨ u.size ≠ 32 then "bad-op" else
    let ss := X25519.x25519 k u
    "ok " ++ hexOf ss ++ (if beq ss (bzero 32) then " 01" else " 00")
  | "x.edpriv", [sk] =>
    let sk := ofHex! sk
    if sk.size ≠ 64 then "bad-op" else "ok " ++ hexOf (X25519.edPrivToX25519 sk)
  | "x.edpub", [pk] =>
    let pk := ofHex! pk
    x1BothOpt (X25519.edPubToX25519 pk) (Model.Montgomery.edPublicKeyToX25519 pk)
  | "x.edpair", [seed] =>
    let seed := ofHex! seed
    if seed.size ≠ 32 then "bad-op" else
    let priv := Ed25519.newKeyFromSeed seed
    let xsk := X25519.edPrivToX25519 priv
    match X25519.edPubToX25519 (bslice priv 32 32) with
    | none => "err"
    | some xpk => "ok " ++ hexOf xsk ++ " " ++ hexOf xpk ++ " " ++ hexOf (X25519.scalarBaseMult xsk)
  | _, _ => "bad-op"

end Voi.Drv
