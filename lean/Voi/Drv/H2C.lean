/- Line-protocol handlers for streams H1 (message expansion) and H2 (Elligator 2, hash-to-curve
suites), property C14. -/
import Voi.Spec.H2C
namespace Voi.Drv
open Voi Voi.Spec Voi.Spec.H2C

/-- SHA-3 as §5.3.1 hashes: b = digest size, s = rate -/
def h2cSha3_256 : HashFn := ⟨sha3_256, 32, 136⟩
def h2cSha3_512 : HashFn := ⟨sha3_512, 64, 72⟩

def h2cHashOf (s : String) : Option HashFn :=
  match s with
  | "224" => some hSha224
  | "256" => some hSha256
  | "384" => some hSha384
  | "512" => some hSha512
  | "3256" => some h2cSha3_256
  | "3512" => some h2cSha3_512
  | _ => none

/-- expander named in a request: a hash (XMD) or `x128` / `x256` (XOF); the library's suites all
run at the security level k = 128, whichever XOF is plugged in. -/
def h2cExpanderOf (s : String) : Option Expander :=
  match s with
  | "x128" => some (xof shake128)
  | "x256" => some (xof shake256)
  | _ => (h2cHashOf s).map xmd

def h2cOkBytes (r : Option Bytes) : String :=
  match r with
  | some b => "ok " ++ hexOf b
  | none => "err"

/-- Edwards point reply: canonical encoding and the prime-order-subgroup flag -/
def h2cPtReply (P : Pt) : String := "ok " ++ hexOf P.encode ++ " " ++ boolStr P.isTorsionFree

def h2cOkPt (r : Option Pt) : String :=
  match r with
  | some P => h2cPtReply P
  | none => "err"

def handleH1 (op : String) (a : List String) : String :=
  match op, a with
  | "xmd", [h, dst, msg, n] =>
    match h2cHashOf h with
    | none => "bad-op"
    | some hf => h2cOkBytes (xmd hf (ofHex! msg) (ofHex! dst) n.toNat!)
  -- the state of the XOF instance handed to the library (absorbed prefix, bytes already squeezed)
  -- must not influence the result
  | "xof", [x, dst, msg, n, _pre, _rd] =>
    match x with
    | "128" => h2cOkBytes (xof shake128 (ofHex! msg) (ofHex! dst) n.toNat!)
    | "256" => h2cOkBytes (xof shake256 (ofHex! msg) (ofHex! dst) n.toNat!)
    | _ => "bad-op"
  | _, _ => "bad-op"

def handleH2 (op : String) (a : List String) : String :=
  match op, a with
  | "ell2", [fe] => "ok " ++ hexOf (mapToCurve (Fp.ofBytes (ofHex! fe))).encode
  | "ell2m", [fe] =>
    let (s, t) := mapToCurveElligator2 (Fp.ofBytes (ofHex! fe))
    "ok " ++ hexOf (Fp.toBytes s) ++ " " ++ hexOf (Fp.toBytes t)
  | "h2c.ro", [dst, msg] => h2cOkPt (edwards25519_XMD_SHA512_ELL2_RO (ofHex! msg) (ofHex! dst))
  | "h2c.nu", [dst, msg] => h2cOkPt (edwards25519_XMD_SHA512_ELL2_NU (ofHex! msg) (ofHex! dst))
  | "h2c.rist", [dst, msg] => h2cOkBytes (hashToRistretto255 (xmd hSha512) (ofHex! msg) (ofHex! dst))
  | "h2c.gro", [e, dst, msg] =>
    match h2cExpanderOf e with
    | none => "bad-op"
    | some ex => h2cOkPt (hashToCurve ex (ofHex! msg) (ofHex! dst))
  | "h2c.gnu", [e, dst, msg] =>
    match h2cExpanderOf e with
    | none => "bad-op"
    | some ex => h2cOkPt (encodeToCurve ex (ofHex! msg) (ofHex! dst))
  | "h2c.grist", [e, dst, msg] =>
    match h2cExpanderOf e with
    | none => "bad-op"
    | some ex => h2cOkBytes (hashToRistretto255 ex (ofHex! msg) (ofHex! dst))
  | "h2c.u2f", [b] =>
    let b := ofHex! b
    if b.size ≠ fieldL then "panic doc" else "ok " ++ hexOf (Fp.toBytes (os2ipModP b))
  | "h2c.enc", [b] =>
    let b := ofHex! b
    if b.size ≠ fieldL then "bad-op" else h2cPtReply (encodeFromUniform b)
  | "h2c.htc", [b] =>
    let b := ofHex! b
    if b.size ≠ 2 * fieldL then "bad-op" else h2cPtReply (hashFromUniform b)
  | _, _ => "bad-op"

end Voi.Drv
