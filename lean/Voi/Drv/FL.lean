/-
Stream T2: executes the field-level programs that `go2ir -flevel` regenerated from the Go source (the text rendering of
exactly the programs the `Props/FL` theorems are about) on the same inputs as the real Go functions, with `Voi.FIR.run`.
-/
import Voi.Basic
import Voi.FIR.Basic
namespace Voi.Drv
open Voi Voi.FIR Voi.Spec

structure FLProg where
  name : String
  nin : Nat
  kinds : List Char      -- 'f' field element, 'b' predicate, 'y' 32-byte string
  outs : List Nat
  ops : List FOp
  tree : Option FTree := none

def parseFOp (ws : List String) : Option FOp :=
  match ws with
  | "const" :: n :: limbs => some (.const n.toNat! (limbs.map String.toNat!))
  | ["bconst", n] => some (.bconst n.toNat!)
  | ["add", a, b] => some (.add a.toNat! b.toNat!)
  | ["sub", a, b] => some (.sub a.toNat! b.toNat!)
  | ["mul", a, b] => some (.mul a.toNat! b.toNat!)
  | ["neg", a] => some (.neg a.toNat!)
  | ["sq", a] => some (.sq a.toNat!)
  | ["sq2", a] => some (.sq2 a.toNat!)
  | ["m121666", a] => some (.m121666 a.toNat!)
  | ["pow2k", a, k] => some (.pow2k a.toNat! k.toNat!)
  | ["sel", c, a, b] => some (.sel c.toNat! a.toNat! b.toNat!)
  | ["eq", a, b] => some (.eq a.toNat! b.toNat!)
  | ["isNeg", a] => some (.isNeg a.toNat!)
  | ["isZero", a] => some (.isZero a.toNat!)
  | ["bor", a, b] => some (.bor a.toNat! b.toNat!)
  | ["band", a, b] => some (.band a.toNat! b.toNat!)
  | ["bxor", a, b] => some (.bxor a.toNat! b.toNat!)
  | ["inv", a] => some (.inv a.toNat!)
  | ["sqrtV", a, b] => some (.sqrtV a.toNat! b.toNat!)
  | ["sqrtOk", a, b] => some (.sqrtOk a.toNat! b.toNat!)
  | ["bytesConst", n] => some (.bytesConst n.toNat!)
  | ["fromBytes", a] => some (.fromBytes a.toNat!)
  | ["toBytes", a] => some (.toBytes a.toNat!)
  | ["topBit", a] => some (.topBit a.toNat!)
  | ["xorTop", a, b] => some (.xorTop a.toNat! b.toNat!)
  | ["bytesEq", a, b] => some (.bytesEq a.toNat! b.toNat!)
  | _ => none

def parseNats (s : String) : List Nat :=
  if s = "" then [] else (s.splitOn ",").map String.toNat!

/-- `fprog <name> <nin> <kinds> <outs> ; op ; op …` -/
def parseFLProg (line : String) : Option FLProg :=
  match line.splitOn " ; " with
  | [] => none
  | hd :: ops =>
    let ops' := ops.filterMap fun o => parseFOp (splitWords o)
    if ops'.length ≠ ops.length then none else
    match splitWords hd with
    | ["fprog", name, nin, kinds, outs] =>
      some { name := name, nin := nin.toNat!, kinds := if kinds = "-" then [] else kinds.toList, outs := parseNats outs, ops := ops' }
    | ["fprog", name, nin, kinds] =>
      some { name := name, nin := nin.toNat!, kinds := if kinds = "-" then [] else kinds.toList, outs := [], ops := ops' }
    | _ => none

/-- segment text `op ; op ; …` (possibly empty) -/
def parseFOps (s : String) : Option (List FOp) :=
  let parts := (s.splitOn " ; ").map splitWords |>.filter (· ≠ [])
  let ops := parts.filterMap parseFOp
  if ops.length = parts.length then some ops else none

/-- `( L ops | ok|err outs )` / `( N ops | c neg T E )` on a token list -/
def parseFTree : Nat → List String → Option (FTree × List String)
  | 0, _ => none
  | fuel+1, "(" :: kind :: rest =>
    let seg := rest.takeWhile (· ≠ "|")
    let rest' := (rest.dropWhile (· ≠ "|")).drop 1
    match parseFOps (" ".intercalate seg) with
    | none => none
    | some ops =>
      if kind = "L" then
        match rest' with
        | ok :: outs :: ")" :: r => some (.leaf ops (ok = "ok") (if outs = "-" then [] else parseNats outs), r)
        | _ => none
      else
        match rest' with
        | c :: neg :: r =>
          match parseFTree fuel r with
          | none => none
          | some (t, r1) =>
            match parseFTree fuel r1 with
            | none => none
            | some (e, r2) =>
              match r2 with
              | ")" :: r3 => some (.node ops c.toNat! (neg = "1") t e, r3)
              | _ => none
        | _ => none
  | _, _ => none

def parseFTreeLine (line : String) : Option FLProg :=
  match splitWords line with
  | "ftree" :: name :: nin :: kinds :: rest =>
    match parseFTree 10000 rest with
    | some (t, _) => some { name := name, nin := nin.toNat!, kinds := if kinds = "-" then [] else kinds.toList, outs := [], ops := [], tree := some t }
    | none => none
  | _ => none

def parseFL (text : String) : List FLProg :=
  (text.splitOn "\n").filterMap fun l =>
    if l.startsWith "fprog " then parseFLProg l else if l.startsWith "ftree " then parseFTreeLine l else none

/-- sort of the value an instruction produces: 'f' element, 'b' predicate, 'y' byte string -/
def fopKind : FOp → Char
  | .bconst _ | .eq _ _ | .isNeg _ | .isZero _ | .bor _ _ | .band _ _ | .bxor _ _ | .sqrtOk _ _ | .topBit _ | .bytesEq _ _ => 'b'
  | .bytesConst _ | .toBytes _ | .xorTop _ _ => 'y'
  | _ => 'f'

/-- sorts of all values of a run: inputs, then one per executed instruction -/
def kindsAfter (ks : List Char) (ops : List FOp) : List Char := ks ++ ops.map fopKind

def fmtOuts (ks : List Char) (e : Env) (outs : List Nat) : String :=
  let k (i : Nat) : Char := ks.getD i 'f'
  let vals := outs.filter (fun i => k i ≠ 'b')
  let bs := outs.filter (fun i => k i = 'b')
  "ok" ++ String.join (vals.map fun o => " " ++ toString (if k o = 'f' then get e o % Voi.Spec.p else get e o))
       ++ String.join (bs.map fun o => " " ++ toString (get e o))

/-- evaluate a tree, tracking the sorts along the path taken -/
def runFTree : FTree → List Char → Env → String
  | .leaf ops ok outs, ks, e => if ok then fmtOuts (kindsAfter ks ops) (run ops e) outs else "err"
  | .node ops c neg t f, ks, e =>
    let e' := run ops e
    let ks' := kindsAfter ks ops
    if cond (get e' c) neg then runFTree t ks' e' else runFTree f ks' e'

def handleT2 (progs : List FLProg) (op : String) (a : List String) : String :=
  match op, a with
  | "run", name :: ins =>
    match progs.find? (·.name = name) with
    | none => "err no-such-program"
    | some p =>
      let e : Env := ins.map String.toNat!
      if e.length ≠ p.nin then "err arity" else
      match p.tree with
      | some t => runFTree t p.kinds e
      | none => fmtOuts (kindsAfter p.kinds p.ops) (run p.ops e) p.outs
  | _, _ => "bad-op"

end Voi.Drv
