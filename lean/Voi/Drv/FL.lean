/-
Stream T2: executes the field-level programs that `go2ir -flevel` regenerated from the Go source (the text rendering of
exactly the programs the `Props/FL` theorems are about) on the same inputs as the real Go functions, with `Voi.FIR.run`.
-/
import Voi.Basic
import Voi.FIR.Basic
namespace Voi.Drv
open Voi Voi.FIR Voi.Spec

structure FLProg where
  name : String
  nin : Nat
  kinds : List Bool      -- true = field element
  outs : List Nat
  ops : List FOp

def parseFOp (ws : List String) : Option FOp :=
  match ws with
  | "const" :: n :: limbs => some (.const n.toNat! (limbs.map String.toNat!))
  | ["bconst", n] => some (.bconst n.toNat!)
  | ["add", a, b] => some (.add a.toNat! b.toNat!)
  | ["sub", a, b] => some (.sub a.toNat! b.toNat!)
  | ["mul", a, b] => some (.mul a.toNat! b.toNat!)
  | ["neg", a] => some (.neg a.toNat!)
  | ["sq", a] => some (.sq a.toNat!)
  | ["sq2", a] => some (.sq2 a.toNat!)
  | ["m121666", a] => some (.m121666 a.toNat!)
  | ["pow2k", a, k] => some (.pow2k a.toNat! k.toNat!)
  | ["sel", c, a, b] => some (.sel c.toNat! a.toNat! b.toNat!)
  | ["eq", a, b] => some (.eq a.toNat! b.toNat!)
  | ["isNeg", a] => some (.isNeg a.toNat!)
  | ["isZero", a] => some (.isZero a.toNat!)
  | ["bor", a, b] => some (.bor a.toNat! b.toNat!)
  | ["band", a, b] => some (.band a.toNat! b.toNat!)
  | ["bxor", a, b] => some (.bxor a.toNat! b.toNat!)
  | ["inv", a] => some (.inv a.toNat!)
  | ["sqrtV", a, b] => some (.sqrtV a.toNat! b.toNat!)
  | ["sqrtOk", a, b] => some (.sqrtOk a.toNat! b.toNat!)
  | _ => none

def parseNats (s : String) : List Nat :=
  if s = "" then [] else (s.splitOn ",").map String.toNat!

/-- `fprog <name> <nin> <kinds> <outs> ; op ; op …` -/
def parseFLProg (line : String) : Option FLProg :=
  match line.splitOn " ; " with
  | [] => none
  | hd :: ops =>
    let ops' := ops.filterMap fun o => parseFOp (splitWords o)
    if ops'.length ≠ ops.length then none else
    match splitWords hd with
    | ["fprog", name, nin, kinds, outs] =>
      some { name := name, nin := nin.toNat!, kinds := if kinds = "-" then [] else kinds.toList.map (· == 'f'), outs := parseNats outs, ops := ops' }
    | ["fprog", name, nin, kinds] =>
      some { name := name, nin := nin.toNat!, kinds := if kinds = "-" then [] else kinds.toList.map (· == 'f'), outs := [], ops := ops' }
    | _ => none

def parseFL (text : String) : List FLProg :=
  (text.splitOn "\n").filterMap fun l => if l.startsWith "fprog " then parseFLProg l else none

def fopIsBool : FOp → Bool
  | .bconst _ | .eq _ _ | .isNeg _ | .isZero _ | .bor _ _ | .band _ _ | .bxor _ _ | .sqrtOk _ _ => true
  | _ => false

def FLProg.outIsFe (p : FLProg) (i : Nat) : Bool :=
  if i < p.nin then p.kinds.getD i true else !(fopIsBool (p.ops.getD (i - p.nin) (.bconst 0)))

def handleT2 (progs : List FLProg) (op : String) (a : List String) : String :=
  match op, a with
  | "run", name :: ins =>
    match progs.find? (·.name = name) with
    | none => "err no-such-program"
    | some p =>
      let e : Env := ins.map String.toNat!
      if e.length ≠ p.nin then "err arity" else
      -- the real side decodes its inputs with SetBytes: bit 255 is not representable here, values are < 2^255
      let r := run p.ops e
      let fes := p.outs.filter p.outIsFe
      let bs := p.outs.filter (fun i => !p.outIsFe i)
      "ok" ++ String.join (fes.map fun o => " " ++ toString (get r o % Voi.Spec.p)) ++ String.join (bs.map fun o => " " ++ toString (get r o))
  | _, _ => "bad-op"

end Voi.Drv
