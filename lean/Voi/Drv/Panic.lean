/- Line-protocol handler for stream P1 (property C19): every reply is the rendering of an `Outcome` computed
by a total model of `Voi.Model.Total`.  The pre-set receiver values are those of go/harness/s_panic.go. -/
import Voi.Model.Total
namespace Voi.Drv
namespace Panic
open Voi Voi.Spec Voi.Model.Total

/-! pre-set receivers (same constants as s_panic.go) -/
def edB : Bytes := ofHex! "5866666666666666666666666666666666666666666666666666666666666666"
def ristB : Bytes := ofHex! "e2f2ae0a6abc4e71a884a961c500515f58e30b6aa582dd8db6a65945e08d2d76"
def mont9 : Bytes := natLE 9 32
/-- 01 02 … 1f 0f -/
def sc0 : Bytes := ofHex! "0102030405060708090a0b0c0d0e0f101112131415161718191a1b1c1d1e1f0f"
def nonce0 : Bytes := ⟨Array.replicate 32 0xaa⟩
def msk0 : Bytes := ⟨Array.replicate 32 0x55⟩

def srSig0 : Option Sr25519.Signature := some { r := ristB, s := leNat sc0 }
def srPk0 : Option Sr25519.PublicKey := some { compressed := ristB, point := Ristretto.B }
def srSk0 : Option Sr25519.SecretKey := some { key := leNat sc0, nonce := nonce0 }
/-- the Go side pre-sets the key pair to `sk0.KeyPair()`; `KeyPair.unmarshalInto` never looks at the old value
(the Go code resets the receiver first), so any non-zero value does here -/
def srKp0 : Option Sr25519.KeyPair :=
  some { sk := { key := leNat sc0, nonce := nonce0 }, pk := { compressed := ristB, point := Ristretto.B } }

def hexList (l : List Bytes) : String := String.join (l.map fun b => " " ++ hexOf b)

/-- `recv`: the API has a receiver (or a destination buffer) whose state is part of the reply -/
def render (recv : Bool) : Outcome → String
  | .ok data => if recv then "ok rcv=" ++ hexOf (data.headD ByteArray.empty) else "ok" ++ hexList data
  | .boolean b => "bool " ++ boolStr b
  | .err none => "err"
  | .err (some r) => "err rcv=" ++ hexOf r
  | .panicDoc => "panic doc"
  | .fault => "model-fault"

def renderK : KOutcome → String
  | .normal o => render false o
  | .panicRuntime => "panic runtime"

/-- options argument: `nilopts` = nil `*Options`; otherwise flags (`nil` = `Options.Verify` nil, or the five
VerifyOptions bits), hash (0, 512, or an unsupported one) and context -/
def parseOpts (flags hash ctx : String) : Option EdOptions :=
  if flags = "nilopts" then none else
  some { verify := if flags = "nil" then none else some (Ed25519.VOpts.ofBits flags.toNat!),
         hash512 := hash = "512", hashOther := hash ≠ "0" && hash ≠ "512", ctx := ofHex! ctx }

/-- `PrivateKey.Sign` options: nil interface, a bare crypto.Hash, or *Options -/
def parseSignerOpts (kind hash ctx : String) : Option EdOptions :=
  match kind with
  | "nilopts" => none
  | "h0" => some edDefault
  | "h512" => some { edDefault with hash512 := true }
  | "h256" => some { edDefault with hashOther := true }
  | _ => parseOpts kind hash ctx

def hashFn (s : String) : Option H2C.HashFn :=
  match s with
  | "224" => some H2C.hSha224
  | "256" => some H2C.hSha256
  | "384" => some H2C.hSha384
  | "512" => some H2C.hSha512
  | _ => none

def xofFn (s : String) : Option H2C.XofFn :=
  match s with
  | "x128" => some shake128
  | "x256" => some shake256
  | _ => none

def is32 (b : Bytes) : Bool := b.size == 32
end Panic

open Voi Voi.Spec Voi.Model.Total Panic in
def handleP1 (op : String) (a : List String) : String :=
  let r := render true
  let f := render false
  match op, a with
  -- curve
  | "cey.setbytes", [b] => r (ceySetBytes edB (ofHex! b))
  | "cey.unmarshal", [b] => r (ceyUnmarshal (ofHex! b))
  | "cey.new", [b] => f (ceyNew (ofHex! b))
  | "ep.unmarshal", [b] => r (epUnmarshal (ofHex! b))
  | "ep.setcompressed", [b] => let b := ofHex! b; if is32 b then r (epSetCompressed edB b) else "bad-op"
  | "ep.setmontgomery", [u, s] => let u := ofHex! u; if is32 u then r (epSetMontgomery edB u s.toNat!) else "bad-op"
  | "cr.setbytes", [b] => r (crSetBytes ristB (ofHex! b))
  | "cr.unmarshal", [b] => r (crUnmarshal (ofHex! b))
  | "rp.unmarshal", [b] => r (rpUnmarshal (ofHex! b))
  | "rp.setcompressed", [b] => let b := ofHex! b; if is32 b then r (rpSetCompressed ristB b) else "bad-op"
  | "rp.setuniform", [b] => r (rpSetUniform ristB (ofHex! b))
  | "mp.setbytes", [b] => r (mpSetBytes mont9 (ofHex! b))
  | "mp.mul", [u, s] =>
    let u := ofHex! u; let s := ofHex! s
    if is32 u && is32 s then f (mpMul u s) else "bad-op"
  -- curve/scalar
  | "sc.setmodorder", [b] => r (scSetModOrder sc0 (ofHex! b))
  | "sc.setwide", [b] => r (scSetWide sc0 (ofHex! b))
  | "sc.setcanonical", [b] => r (scSetCanonical sc0 (ofHex! b))
  | "sc.setbits", [b] => r (scSetBits sc0 (ofHex! b))
  | "sc.unmarshal", [b] => r (scUnmarshal sc0 (ofHex! b))
  | "sc.newmodorder", [b] => f (scNewModOrder (ofHex! b))
  | "sc.newwide", [b] => f (scNewWide (ofHex! b))
  | "sc.newcanonical", [b] => f (scNewCanonical (ofHex! b))
  | "sc.newbits", [b] => f (scNewBits (ofHex! b))
  | "sc.minimal", [b] => f (scMinimal (ofHex! b))
  | "sc.tobytes", [out] => r (scToBytes sc0 (ofHex! out))
  | "sc.naf", [w] => f (scNaf w.toNat!)
  | "sc.radix2w", [w] => f (scRadix2w w.toNat!)
  | "sc.radixhint", [w] => f (scRadixHint w.toNat!)
  -- multiscalar multiplication
  | "msm.ed", [ns, np] => f (msmEd ns.toNat! np.toNat!)
  | "msm.edvt", [ns, np] => f (msmEd ns.toNat! np.toNat!)
  | "msm.edx", [ns, np, ds, dp] => f (msmEdx ns.toNat! np.toNat! ds.toNat! dp.toNat!)
  | "msm.r", [ns, np] => f (msmRist ns.toNat! np.toNat!)
  | "msm.rvt", [ns, np] => f (msmRist ns.toNat! np.toNat!)
  | "msm.rx", [ns, np, ds, dp] => f (msmRistx ns.toNat! np.toNat! ds.toNat! dp.toNat!)
  -- ed25519
  | "ed.verify", [pk, msg, sig] => f (edVerify (ofHex! pk) (ofHex! msg) (ofHex! sig))
  | "ed.verifyopts", [fl, h, c, pk, msg, sig] =>
    f (edVerifyWithOptions (parseOpts fl h c) (ofHex! pk) (ofHex! msg) (ofHex! sig))
  | "ed.newexpanded", [pk] => f (edNewExpanded (ofHex! pk))
  | "ed.verifyx", [pk, msg, sig] => f (edVerifyExpanded (ofHex! pk) (ofHex! msg) (ofHex! sig))
  | "ed.verifyxopts", [fl, h, c, pk, msg, sig] =>
    f (edVerifyExpandedWithOptions (parseOpts fl h c) (ofHex! pk) (ofHex! msg) (ofHex! sig))
  | "ed.batch.add", [pk, msg, sig] => f (edBatchEntry (some edDefault) (ofHex! pk) (ofHex! msg) (ofHex! sig))
  | "ed.batch.addx", [pk, msg, sig] => f (edBatchEntry (some edDefault) (ofHex! pk) (ofHex! msg) (ofHex! sig))
  | "ed.batch.addopts", [fl, h, c, pk, msg, sig] =>
    f (edBatchEntry (parseOpts fl h c) (ofHex! pk) (ofHex! msg) (ofHex! sig))
  | "ed.batch.addxopts", [fl, h, c, pk, msg, sig] =>
    f (edBatchEntry (parseOpts fl h c) (ofHex! pk) (ofHex! msg) (ofHex! sig))
  | "ed.newkey", [seed] => f (edNewKey (ofHex! seed))
  | "ed.sign", [sk, msg] => f (edSign (ofHex! sk) (ofHex! msg))
  | "ed.pksign", [o, h, c, sk, msg] => f (edPkSign (parseSignerOpts o h c) (ofHex! sk) (ofHex! msg))
  | "ed.pkequal", [x, y] => f (edKeyEqual (ofHex! x) (ofHex! y))
  | "ed.skequal", [x, y] => f (edKeyEqual (ofHex! x) (ofHex! y))
  | "known.d5.public", [sk] => renderK (d5Public (ofHex! sk))
  | "known.d5.seed", [sk] => renderK (d5Seed (ofHex! sk))
  -- cache
  | "cache.verify", [pk, msg, sig] => f (cacheVerify (ofHex! pk) (ofHex! msg) (ofHex! sig))
  | "cache.verifyopts", [fl, h, c, pk, msg, sig] =>
    f (cacheVerifyWithOptions (parseOpts fl h c) (ofHex! pk) (ofHex! msg) (ofHex! sig))
  | "cache.add", [pk, msg, sig] => f (cacheAdd (some edDefault) (ofHex! pk) (ofHex! msg) (ofHex! sig))
  | "cache.addopts", [fl, h, c, pk, msg, sig] =>
    f (cacheAdd (parseOpts fl h c) (ofHex! pk) (ofHex! msg) (ofHex! sig))
  | "cache.addpk", [pk] => f (cacheAddPk (ofHex! pk))
  -- ecvrf
  | "vrf.prove", [ver, sk, alpha] => f (vrfProve (ver = "cur") (ofHex! sk) (ofHex! alpha))
  | "vrf.provernd", [ver, sk, alpha, ent] => f (vrfProveRnd (ver = "cur") (ofHex! sk) (ofHex! alpha) (ofHex! ent))
  | "vrf.verify", [ver, pk, pi, alpha] => f (vrfVerify (ver = "cur") (ofHex! pk) (ofHex! pi) (ofHex! alpha))
  | "vrf.hash", [pi] => f (vrfHash (ofHex! pi))
  -- sr25519
  | "sr.sig.unmarshal", [b] => r (srSigUnmarshal srSig0 (ofHex! b))
  | "sr.pk.unmarshal", [b] => r (srPkUnmarshal srPk0 (ofHex! b))
  | "sr.sk.unmarshal", [b] => r (srSkUnmarshal srSk0 (ofHex! b))
  | "sr.kp.unmarshal", [b] => r (srKpUnmarshal srKp0 (ofHex! b))
  | "sr.msk.unmarshal", [b] => r (srMskUnmarshal (some msk0) (ofHex! b))
  | "sr.sig.new", [b] => f (srSigNew (ofHex! b))
  | "sr.pk.new", [b] => f (srPkNew (ofHex! b))
  | "sr.sk.new", [b] => f (srSkNew (ofHex! b))
  | "sr.sked.new", [b] => f (srSkEdNew (ofHex! b))
  | "sr.kp.new", [b] => f (srKpNew (ofHex! b))
  | "sr.msk.new", [b] => f (srMskNew (ofHex! b))
  | "sr.verify", [ctx, msg, pk, sig] => f (srVerify (ofHex! ctx) (ofHex! msg) (ofHex! pk) (ofHex! sig))
  -- x25519
  | "x.x25519", [k, u] => f (xX25519 (ofHex! k) (ofHex! u))
  | "x.x25519bp", [k] => f (xX25519Base (ofHex! k))
  | "x.scalarmult", [k, u] =>
    let k := ofHex! k; let u := ofHex! u
    if is32 k && is32 u then f (xScalarMult k u) else "bad-op"
  | "x.scalarbasemult", [k] => let k := ofHex! k; if is32 k then f (xScalarBaseMult k) else "bad-op"
  | "x.public", [k] => let k := ofHex! k; if is32 k then f (xScalarBaseMult k) else "bad-op"
  | "x.dh", [k, u] =>
    let k := ofHex! k; let u := ofHex! u
    if is32 k && is32 u then f (xDh k u) else "bad-op"
  | "x.edpub", [pk] => f (xEdPub (ofHex! pk))
  | "known.d4.edpriv", [sk] => renderK (d4EdPriv (ofHex! sk))
  -- h2c
  | "h2c.xmd", [h, dst, msg, n] =>
    match hashFn h with
    | some hf => f (h2cXmd hf (ofHex! dst) (ofHex! msg) n.toNat!)
    | none => "bad-op"
  | "h2c.xof", [x, dst, msg, n] =>
    match xofFn x with
    | some X => f (h2cXof X (ofHex! dst) (ofHex! msg) n.toNat!)
    | none => "bad-op"
  | "h2c.suite", [name, arg, dst, msg] =>
    let dst := ofHex! dst; let msg := ofHex! msg
    let xmdOf := (hashFn arg).map H2C.xmd
    let xofOf := (xofFn arg).map H2C.xof
    match name with
    | "ro512" => f (h2cRO (H2C.xmd H2C.hSha512) dst msg)
    | "nu512" => f (h2cNU (H2C.xmd H2C.hSha512) dst msg)
    | "xmdro" => match xmdOf with | some ex => f (h2cRO ex dst msg) | none => "bad-op"
    | "xmdnu" => match xmdOf with | some ex => f (h2cNU ex dst msg) | none => "bad-op"
    | "xofro" => match xofOf with | some ex => f (h2cRO ex dst msg) | none => "bad-op"
    | "xofnu" => match xofOf with | some ex => f (h2cNU ex dst msg) | none => "bad-op"
    | "ristxmd" => match xmdOf with | some ex => f (h2cRist ex dst msg) | none => "bad-op"
    | "ristxof" => match xofOf with | some ex => f (h2cRist ex dst msg) | none => "bad-op"
    | _ => "bad-op"
  -- merlin
  | "m.seq", [app, label, msg, elabel, n] =>
    f (mSeq (Sr25519.toL (ofHex! app)) (Sr25519.toL (ofHex! label)) (Sr25519.toL (ofHex! msg)) (Sr25519.toL (ofHex! elabel)) n.toNat!)
  | "m.rng", [app, wlabel, witness, ent, n] =>
    f (mRng (Sr25519.toL (ofHex! app)) (Sr25519.toL (ofHex! wlabel)) (Sr25519.toL (ofHex! witness)) (Sr25519.toL (ofHex! ent)) n.toNat!)
  | _, _ => "bad-op"

end Voi.Drv
