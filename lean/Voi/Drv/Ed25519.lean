/- Line-protocol handlers for streams V1 (verification) and K1 (key generation / signing). -/
import Voi.Spec.Ed25519
namespace Voi.Drv
open Voi Voi.Spec Voi.Spec.Ed25519

def parseFlags (s : String) : Option VOpts :=
  if s = "nil" then none else some (VOpts.ofBits s.toNat!)

/-- options/mode validation shared by verify and sign: `none` = invalid options -/
def parseMode (flags hash ctx : String) (msgLen : Nat) : Option (VOpts × Dom × Bytes) :=
  let o := parseFlags flags
  let c := ofHex! ctx
  match modeOf o c (hash = "512") (hash ≠ "0" && hash ≠ "512") msgLen with
  | none => none
  | some f => some (o.getD VOpts.default, f, c)

def handleV1 (op : String) (a : List String) : String :=
  match op, a with
  | "verify", [flags, hash, ctx, pk, msg, sig] =>
    let pk := ofHex! pk; let msg := ofHex! msg; let sig := ofHex! sig
    if pk.size ≠ 32 then "panic doc" else
    match parseMode flags hash ctx msg.size with
    | none => "panic doc"
    | some (o, f, c) => "bool " ++ boolStr (verify o f c pk msg sig)
  | "verifyx", [flags, hash, ctx, pk, msg, sig] =>
    let pk := ofHex! pk; let msg := ofHex! msg; let sig := ofHex! sig
    -- NewExpandedPublicKey fails exactly when the key does not decode
    if (Pt.decode pk).isNone then "err" else
    match parseMode flags hash ctx msg.size with
    | none => "panic doc"
    | some (o, f, c) => "bool " ++ boolStr (verify o f c pk msg sig)
  | "stdverify", [pk, msg, sig] =>
    "bool " ++ boolStr (verify VOpts.stdlib none ByteArray.empty (ofHex! pk) (ofHex! msg) (ofHex! sig))
  | _, _ => "bad-op"

def handleK1 (op : String) (a : List String) : String :=
  match op, a with
  | "newkey", [seed] =>
    let seed := ofHex! seed
    if seed.size ≠ 32 then "panic doc" else "ok " ++ hexOf (newKeyFromSeed seed)
  | "sign", [flags, hash, ctx, ent, _selfVerify, priv, msg] =>
    let priv := ofHex! priv; let msg := ofHex! msg
    match parseMode flags hash ctx msg.size with
    | none => "err"
    | some (_, f, c) =>
      if priv.size ≠ 64 then "err" else
      let e : Option Bytes := if ent = "nil" then none else some (ofHex! ent)
      if (match e with | some z => decide (z.size < 32) | none => false) then "err" else
      "ok " ++ hexOf (sign f c (e.map (bslice · 0 32)) priv msg)
  | "stdsign", [priv, msg] =>
    "ok " ++ hexOf (sign none ByteArray.empty none (ofHex! priv) (ofHex! msg))
  | _, _ => "bad-op"

end Voi.Drv
