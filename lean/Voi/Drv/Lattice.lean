/- Line-protocol handler for stream L1 (short-vector lattice reduction, property C16). -/
import Voi.Basic
import Voi.Model.Lattice
namespace Voi.Drv
open Voi Voi.Model.Lattice Voi.Model.Lattice.Word

/-- a hex argument of exactly `n` bytes -/
def latArg (s : String) (n : Nat) : Option Nat :=
  match ofHex s with
  | some b => if b.size = n then some (leNat b) else none
  | none => none

def latWidth (s : String) : Option Nat :=
  if s = "512" then some 512 else if s = "384" then some 384 else none

def latWord (w n : Nat) : String := hexOf (natLE n (w / 8))

/-- `fsv k32` : k32 = 32 bytes little endian (bit 255 is masked as `Scalar.SetBits` does)
    → `ok <d0> <d1>` (signed decimal) | `range-violation` | `fuel-exhausted` | `err` (wrong length)
    | `model-mismatch` (the value-level and the word-level model disagree; proved impossible for k < 2^255).
    The other ops are the word-level primitives, see `Voi.Model.Lattice.Word`. -/
def handleL1 (op : String) (a : List String) : String :=
  match op, a with
  | "fsv", [k] =>
    match latArg k 32 with
    | none => "err"
    | some kn =>
      match fsvChecked (kn % 2 ^ 255) with
      | .ok d0 d1 _ =>
        -- cross-check with the word-level model (512/384/128-bit words, every operation modulo 2^w)
        if fsvW (kn % 2 ^ 255) = some (d0, d1) then "ok " ++ toString d0 ++ " " ++ toString d1
        else "model-mismatch"
      | .rangeViolation => "range-violation"
      | .fuelExhausted => "fuel-exhausted"
  | "bitlen", [w, x] =>
    match latWidth w with
    | none => "err"
    | some w => match latArg x (w / 8) with
      | none => "err"
      | some n => "ok " ++ toString (bitLenW w n)
  | "isneg", [w, x] =>
    match latWidth w with
    | none => "err"
    | some w => match latArg x (w / 8) with
      | none => "err"
      | some n => "bool " ++ boolStr (isNeg w n)
  | "plt", [w, x, y] =>
    match latWidth w with
    | none => "err"
    | some w => match latArg x (w / 8), latArg y (w / 8) with
      | some n, some m => "bool " ++ boolStr (positiveLt n m)
      | _, _ => "err"
  | "shrink", [x] =>
    match latArg x 64 with
    | none => "err"
    | some n => "bool " ++ boolStr (safeToShrinkW n)
  | "addsh", [w, x, y, s] =>
    match latWidth w, s.toNat? with
    | some w, some s => match latArg x (w / 8), latArg y (w / 8) with
      | some n, some m => "ok " ++ latWord w (addShifted w n m s)
      | _, _ => "err"
    | _, _ => "err"
  | "subsh", [w, x, y, s] =>
    match latWidth w, s.toNat? with
    | some w, some s => match latArg x (w / 8), latArg y (w / 8) with
      | some n, some m => "ok " ++ latWord w (subShifted w n m s)
      | _, _ => "err"
    | _, _ => "err"
  | "add", [x, y] =>
    match latArg x 64, latArg y 64 with
    | some n, some m => "ok " ++ latWord 512 (addShifted 512 n m 0)
    | _, _ => "err"
  | "mul", [x, y] =>
    match latArg x 32, latArg y 32 with
    | some n, some m => "ok " ++ latWord 512 (mulW (n % 2 ^ 255) (m % 2 ^ 255))
    | _, _ => "err"
  | "from512", [x] =>
    match latArg x 64 with
    | some n => "ok " ++ latWord 384 (fromInt512 n)
    | none => "err"
  | "i128.fromscalar", [k] =>
    match latArg k 32 with
    | some n => "ok " ++ latWord 128 (initW (n % 2 ^ 255)).v0
    | none => "err"
  | "i128.add", [x, y] =>
    match latArg x 16, latArg y 16 with
    | some n, some m => "ok " ++ latWord 128 (i128Add n m)
    | _, _ => "err"
  | "i128.sub", [x, y] =>
    match latArg x 16, latArg y 16 with
    | some n, some m => "ok " ++ latWord 128 (i128Sub n m)
    | _, _ => "err"
  | "i128.shl", [x, s] =>
    match latArg x 16, s.toNat? with
    | some n, some s => "ok " ++ latWord 128 (i128Shl n s)
    | _, _ => "err"
  | "i128.neg", [x] =>
    match latArg x 16 with
    | some n => "ok " ++ latWord 128 (wrap 128 (- sval 128 n))
    | none => "err"
  | "i128.abs", [x] =>
    match latArg x 16 with
    | some n => "ok " ++ latWord 128 (wrap 128 (if sval 128 n < 0 then - sval 128 n else sval 128 n))
    | none => "err"
  | "i128.isneg", [x] =>
    match latArg x 16 with
    | some n => "bool " ++ boolStr (isNeg 128 n)
    | none => "err"
  | "i128.iszero", [x] =>
    match latArg x 16 with
    | some n => "bool " ++ boolStr (decide (sval 128 n = 0))
    | none => "err"
  | "consts", [] =>
    -- ellSquared(), constELL_LOWER_HALF, i512One, i128One, i128Zero, Mul(BASEPOINT_ORDER, 1): exactly the
    -- words `Word.initW` starts from
    "ok " ++ latWord 512 (initW 0).nu ++ " " ++ latWord 128 (initW 0).u0 ++ " " ++ latWord 512 1 ++ " "
      ++ latWord 128 (initW 0).v1 ++ " " ++ latWord 128 (initW 0).u1 ++ " " ++ latWord 512 (mulW L.toNat 1)
  | _, _ => "bad-op"

end Voi.Drv
