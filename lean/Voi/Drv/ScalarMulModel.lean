/-
Line-protocol handler for stream G2 (property C03): the scalar-multiplication entry points of package `curve`
answered from the CODE-SHAPED MODELS of `Voi.Model.ScalarMul` (radix-16 / NAF / radix-2^w digit loops, lookup
tables, Straus, Pippenger buckets, dispatch by length), instantiated with the executable Spec points in extended
coordinates (`Voi.Spec.Ext`).  Stream G1 answers the same requests from the affine Spec; the generic theorems of
`Voi.Props.C03` say that the models compute Σ sᵢ•Pᵢ in every commutative group.

Ops (argument formats as in G1: point token = 32-byte encoding or 64 bytes enc‖λ; scalar token = 32 bytes LE, < 2^255):

  mul s P | mulbase s | dsm a A b | xdsm a A b | msm ns np s.. P.. | msmvt ns np s.. P.. |
  xmsmvt nss nsp nds ndp s.. P.. s.. P..
-/
import Voi.Drv.Curve
import Voi.Model.ScalarMul
namespace Voi.Drv
namespace ScalarMulModel
open Voi Voi.Spec Voi.Model.ScalarMul

/-- the Spec's extended-coordinate arithmetic as the carrier of the models -/
def extOps : GroupOps Ext := { zero := Ext.zero, add := Ext.add, neg := Ext.neg, dbl := Ext.dbl }

def extB : Ext := Ext.ofPt Pt.B

/-- `ED25519_BASEPOINT_TABLE`: built as `newEdwardsBasepointTableGeneric(B)` builds it -/
def basepointTable : Array (Array Ext) := extOps.mkBasepointTable extB

/-- `constAFFINE_ODD_MULTIPLES_OF_BASEPOINT`: [B, 3B, …, 127B], built as `newAffineNielsPointNafLookupTable(B)` builds it -/
def oddMultiplesOfB : Array Ext := extOps.mkNafTable 64 extB

def okExt (E : Ext) : String := Curve.okPt E.toPt

def okOpt : Option Ext → String
  | some E => okExt E
  | none => "panic doc"   -- a recoding width panic: unreachable (Props.C03.dispatch_correct)

end ScalarMulModel

open Voi Voi.Spec Curve ScalarMulModel Voi.Model.ScalarMul in
def handleG2 (op : String) (a : List String) : String :=
  match op, a with
  | "mul", [s, P] =>
    match parseSc s, parsePt P with
    | some s, some P => okExt (extOps.mul (Ext.ofPt P) s)
    | _, _ => "err"
  | "mulbase", [s] =>
    match parseSc s with
    | some s => okExt (extOps.mulBasepoint basepointTable s)
    | none => "err"
  | "dsm", [x, A, y] =>
    match parseSc x, parsePt A, parseSc y with
    | some x, some A, some y => okOpt (extOps.doubleScalarMulBasepointVartime oddMultiplesOfB x (Ext.ofPt A) y)
    | _, _, _ => "err"
  | "xdsm", [x, A, y] =>
    match parseSc x, parsePt A, parseSc y with
    | some x, some A, some y =>
      okOpt (extOps.expandedDoubleScalarMulBasepointVartime oddMultiplesOfB x (extOps.expand (Ext.ofPt A)).2 y)
    | _, _, _ => "err"
  | "msm", ns :: np :: r =>
    msmOp ns np r (fun ss ps => some (extOps.multiscalarMul ss ps))
  | "msmvt", ns :: np :: r =>
    msmOp ns np r (fun ss ps => extOps.multiscalarMulVartime GroupOps.mulPippengerThreshold ss ps)
  | "xmsmvt", nss :: nsp :: nds :: ndp :: r =>
    let nss := nss.toNat!; let nsp := nsp.toNat!; let nds := nds.toNat!; let ndp := ndp.toNat!
    if r.length ≠ nss + nsp + nds + ndp then "bad-op" else
    let ss := r.take nss; let r := r.drop nss
    let sp := r.take nsp; let r := r.drop nsp
    let ds := r.take nds; let dp := r.drop nds
    match parseScs ss, parsePts sp, parseScs ds, parsePts dp with
    | some ss, some sp, some ds, some dp =>
      if !(GroupOps.lengthsOk ss sp && GroupOps.lengthsOk ds dp) then "panic doc" else
      okOpt (extOps.expandedMultiscalarMulVartime GroupOps.mulPippengerThreshold ss
        (sp.map (fun P => extOps.expand (Ext.ofPt P))) ds (dp.map Ext.ofPt))
    | _, _, _, _ => "err"
  | _, _ => "bad-op"
where
  msmOp (ns np : String) (r : List String) (f : List Nat → List Ext → Option Ext) : String :=
    let ns := ns.toNat!; let np := np.toNat!
    if r.length ≠ ns + np then "bad-op" else
    match parseScs (r.take ns), parsePts (r.drop ns) with
    | some ss, some ps =>
      if !GroupOps.lengthsOk ss ps then "panic doc" else okOpt (f ss (ps.map Ext.ofPt))
    | _, _ => "err"

end Voi.Drv
