/- Line-protocol handler for stream T1 (ristretto255, property C11).  All replies come from
`Spec.Ristretto` (RFC 9496).  Where the property states a group-theoretic fact (coset invariance of
the encoding, Equal ↔ same coset of E[4]) the handler evaluates BOTH the RFC formula and the
group-theoretic definition and answers `spec-inconsistent` if they ever differ. -/
import Voi.Spec.Ristretto
namespace Voi.Drv
open Voi Voi.Spec

namespace T1

/-- internal representative from an Edwards encoding and a projective scaling λ (32 bytes, bit 255
ignored, reduced); `none` when the encoding does not decode, a length is wrong, or λ ≡ 0 -/
def fromEd (ed lam : String) : Option Ext :=
  let e := ofHex! ed; let l := ofHex! lam
  if e.size ≠ 32 ∨ l.size ≠ 32 then none else
  match Pt.decode e with
  | none => none
  | some P =>
    let lm := Fp.ofBytes l
    if lm = 0 then none else
    some ⟨Fp.mul lm P.x, Fp.mul lm P.y, lm, Fp.mul lm (Fp.mul P.x P.y)⟩

def dec (s : String) : Option Ext := Ristretto.decode (ofHex! s)

/-- scalar argument: exactly 32 bytes, reduced mod L (scalar.NewFromBytesModOrder) -/
def sc (s : String) : Option Nat :=
  let b := ofHex! s
  if b.size ≠ 32 then none else some (leNat b % L)

def okEnc (P : Ext) : String := "ok " ++ hexOf (Ristretto.encode P)

def allSome {α} : List (Option α) → Option (List α)
  | [] => some []
  | none :: _ => none
  | some x :: r => (allSome r).map (x :: ·)

/-- split `l` into consecutive groups of the given sizes; `none` unless it fits exactly -/
def groups : List Nat → List String → Option (List (List String))
  | [], [] => some []
  | [], _ :: _ => none
  | n :: ns, l => if l.length < n then none else (groups ns (l.drop n)).map (l.take n :: ·)

/-- parse alternating scalar / point groups -/
def parseGroups (cnt : List Nat) (rest : List String) : Option (List (List Nat) × List (List Ext)) :=
  match groups cnt rest with
  | none => none
  | some gs =>
    let idx := List.range gs.length
    let ss := allSome ((gs.zip idx).filterMap (fun (g, i) => if i % 2 = 0 then some (allSome (g.map sc)) else none))
    let ps := allSome ((gs.zip idx).filterMap (fun (g, i) => if i % 2 = 1 then some (allSome (g.map dec)) else none))
    match ss, ps with
    | some s, some p => some (s, p)
    | _, _ => none

end T1

open T1 in
def handleT1 (op : String) (a : List String) : String :=
  match op, a with
  | "r.decode", [b] =>
    match dec b with
    | none => "err"
    | some P => okEnc P
  | "r.unmarshal", [b] =>
    -- the receiver is reset to the identity before anything else ("foot + gun avoidance")
    match dec b with
    | none => "err " ++ hexOf (Ristretto.encode Ristretto.identity)
    | some P => okEnc P
  | "r.cunmarshal", [b] =>
    match dec b with
    | none => "err " ++ hexOf (bzero 32)
    | some _ => "ok " ++ hexOf (ofHex! b)     -- an accepted string is stored unchanged
  | "r.encode", [ed, lam] =>
    match fromEd ed lam with
    | none => "err"
    | some P => okEnc P
  | "r.coset", [e0, l0, e1, l1, e2, l2, e3, l3] =>
    match fromEd e0 l0, fromEd e1 l1, fromEd e2 l2, fromEd e3 l3 with
    | some P0, some P1, some P2, some P3 =>
      -- precondition of the coset-invariance statement: all four lie in P0 + E[4]
      if !(Ristretto.sameCoset P0 P1 && Ristretto.sameCoset P0 P2 && Ristretto.sameCoset P0 P3) then "bad-gen" else
      -- by the theorem the common encoding is that of the first representative
      okEnc P0
    | _, _, _, _ => "err"
  | "r.equal", [eP, lP, eQ, lQ] =>
    match fromEd eP lP, fromEd eQ lQ with
    | some P, some Q =>
      let rfc := Ristretto.equal P Q
      let grp := Ristretto.sameCoset P Q
      let enc := beq (Ristretto.encode P) (Ristretto.encode Q)
      if rfc != grp || rfc != enc then "spec-inconsistent" else "bool " ++ boolStr rfc
    | _, _ => "err"
  | "r.isidentityE", [e, l] =>
    match fromEd e l with
    | none => "err"
    | some P =>
      let rfc := Ristretto.isIdentity P
      if rfc != Ristretto.sameCoset P Ristretto.identity then "spec-inconsistent" else "bool " ++ boolStr rfc
  | "r.uniform", [b] =>
    match Ristretto.fromUniformBytes (ofHex! b) with
    | none => "err"
    | some P => okEnc P
  | "r.add", [x, y] =>
    match dec x, dec y with
    | some P, some Q => okEnc (Ristretto.add P Q)
    | _, _ => "err"
  | "r.sub", [x, y] =>
    match dec x, dec y with
    | some P, some Q => okEnc (Ristretto.sub P Q)
    | _, _ => "err"
  | "r.neg", [x] => match dec x with | some P => okEnc (Ristretto.neg P) | none => "err"
  | "r.set", [x] => match dec x with | some P => okEnc P | none => "err"
  | "r.xpoint", [x] => match dec x with | some P => okEnc P | none => "err"
  | "r.isidentity", [x] =>
    match dec x with
    | some P => "bool " ++ boolStr (Ristretto.isIdentity P)
    | none => "err"
  | "r.condsel", [x, y, c] =>
    match dec x, dec y with
    | some P, some Q => okEnc (if c = "1" then Q else P)
    | _, _ => "err"
  | "r.mul", [s, x] =>
    match sc s, dec x with
    | some n, some P => okEnc (Ristretto.smul n P)
    | _, _ => "err"
  | "r.tblmul", [s, x] =>
    match sc s, dec x with
    | some n, some P => okEnc (Ristretto.smul n P)
    | _, _ => "err"
  | "r.mulbase", [s] =>
    match sc s with
    | some n => okEnc (Ristretto.smul n Ristretto.B)
    | none => "err"
  | "r.dsm", [sa, x, sb] =>
    match sc sa, dec x, sc sb with
    | some na, some A, some nb => okEnc (Ristretto.msm [na, nb] [A, Ristretto.B])
    | _, _, _ => "err"
  | "r.xdsm", [sa, x, sb] =>
    match sc sa, dec x, sc sb with
    | some na, some A, some nb => okEnc (Ristretto.msm [na, nb] [A, Ristretto.B])
    | _, _, _ => "err"
  | "r.tsm", [sa, x, sb, y] =>
    match sc sa, dec x, sc sb, dec y with
    | some na, some A, some nb, some C =>
      -- δ is invertible mod L, so δ·(aA + bB − C) is the identity element iff aA + bB − C is
      "bool " ++ boolStr (Ristretto.isIdentity (Ristretto.sub (Ristretto.msm [na, nb] [A, Ristretto.B]) C))
    | _, _, _, _ => "err"
  | "r.xtsm", [sa, x, sb, y] =>
    match sc sa, dec x, sc sb, dec y with
    | some na, some A, some nb, some C =>
      "bool " ++ boolStr (Ristretto.isIdentity (Ristretto.sub (Ristretto.msm [na, nb] [A, Ristretto.B]) C))
    | _, _, _, _ => "err"
  | "r.msm", n :: m :: rest =>
    match parseGroups [n.toNat!, m.toNat!] rest with
    | some ([ss], [ps]) => if ss.length ≠ ps.length then "panic doc" else okEnc (Ristretto.msm ss ps)
    | _ => "err"
  | "r.msmvt", n :: m :: rest =>
    match parseGroups [n.toNat!, m.toNat!] rest with
    | some ([ss], [ps]) => if ss.length ≠ ps.length then "panic doc" else okEnc (Ristretto.msm ss ps)
    | _ => "err"
  | "r.sum", n :: rest =>
    match allSome (rest.map dec) with
    | some ps => if ps.length ≠ n.toNat! then "err" else okEnc (Ristretto.sum ps)
    | none => "err"
  | "r.xmsm", c0 :: c1 :: c2 :: c3 :: rest =>
    match parseGroups [c0.toNat!, c1.toNat!, c2.toNat!, c3.toNat!] rest with
    | some ([s0, s1], [p0, p1]) =>
      if s0.length ≠ p0.length ∨ s1.length ≠ p1.length then "panic doc" else
      okEnc (Ristretto.add (Ristretto.msm s0 p0) (Ristretto.msm s1 p1))
    | _ => "err"
  | _, _ => "bad-op"

end Voi.Drv
