/-
Line-protocol handler for stream V2: the same requests as V1 (`verify`, `verifyx`, `stdverify`), answered by the
CODE-SHAPED model `Voi.Model.Ed25519` instantiated with the concrete interface (not by the declarative
`Spec.Ed25519.verify`).  Together with V1 this ties model, specification and Go code on every run; the equality
model = specification for all inputs is `Voi.Props.C01.model_eq_spec`.
-/
import Voi.Model.Ed25519
namespace Voi.Drv
open Voi Voi.Spec Voi.Spec.Ed25519 Voi.Model.Ed25519

def v2Flags (s : String) : Option VOpts :=
  if s = "nil" then none else some (VOpts.ofBits s.toNat!)

def v2Hash (s : String) : HashSel :=
  if s = "0" then .zero else if s = "512" then .sha512 else .other

def v2Reply : Outcome → String
  | .panic => "panic doc"
  | .err => "err"
  | .result b => "bool " ++ boolStr b

def handleV2 (op : String) (a : List String) : String :=
  match op, a with
  | "verify", [flags, hash, ctx, pk, msg, sig] =>
    v2Reply (verifyWithOptions concrete (v2Flags flags) (v2Hash hash) (ofHex! ctx) (ofHex! pk) (ofHex! msg) (ofHex! sig))
  | "verifyx", [flags, hash, ctx, pk, msg, sig] =>
    v2Reply (verifyExpandedWithOptions concrete (v2Flags flags) (v2Hash hash) (ofHex! ctx) (ofHex! pk) (ofHex! msg) (ofHex! sig))
  | "stdverify", [pk, msg, sig] =>
    -- the library under its StdLib preset (the Go side runs VerifyWithOptions with VerifyOptionsStdLib)
    v2Reply (verifyWithOptions concrete (some VOpts.stdlib) .zero ByteArray.empty (ofHex! pk) (ofHex! msg) (ofHex! sig))
  | _, _ => "bad-op"

end Voi.Drv
