/- Dispatch table of the driver: stream id → handler. Stateful streams thread `DrvState`. -/
import Voi.Drv.Ed25519
namespace Voi.Drv

structure DrvState where
  dummy : Nat := 0

def dispatch (st : DrvState) (ws : List String) : DrvState × String :=
  match ws with
  | "V1" :: op :: a => (st, handleV1 op a)
  | "K1" :: op :: a => (st, handleK1 op a)
  | _ => (st, "bad-op")

end Voi.Drv
