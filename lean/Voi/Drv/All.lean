/- Dispatch table of the driver: stream id → handler. Stateful streams thread `DrvState`. -/
import Voi.Drv.Ed25519
import Voi.Drv.Scalar
import Voi.Drv.Curve
import Voi.Drv.Merlin
import Voi.Drv.X25519
import Voi.Drv.Ristretto
import Voi.Drv.H2C
import Voi.Drv.ECVRF
import Voi.Drv.Lattice
import Voi.Drv.Batch
import Voi.Drv.T0
import Voi.Drv.FL
import Voi.Drv.Sr25519
import Voi.Drv.Field
import Voi.Drv.Panic
import Voi.Drv.Consts
import Voi.Drv.Ed25519Model
import Voi.Drv.ScalarMulModel
import Voi.Drv.H2CModel
import Voi.Drv.ECVRFModel
namespace Voi.Drv

structure DrvState where
  merlin : MerlinDrv := {}
  batch : BatchDrv := {}
  ir : List IRProg := []
  fl : List FLProg := []
  sr : SrDrv := {}

def dispatch (st : DrvState) (ws : List String) : DrvState × String :=
  match ws with
  | "V1" :: op :: a => (st, handleV1 op a)
  | "K1" :: op :: a => (st, handleK1 op a)
  | "S1" :: op :: a => (st, handleS1 op a)
  | "R1" :: op :: a => (st, handleR1 op a)
  | "D1" :: op :: a => (st, handleD1 op a)
  | "G1" :: op :: a => (st, handleG1 op a)
  | "M1" :: op :: a => let (m, r) := handleM1 st.merlin op a; ({ st with merlin := m }, r)
  | "S0" :: op :: a => (st, handleS0 op a)
  | "M2" :: op :: a => (st, handleM2 op a)
  | "X1" :: op :: a => (st, handleX1 op a)
  | "T1" :: op :: a => (st, handleT1 op a)
  | "H1" :: op :: a => (st, handleH1 op a)
  | "H2" :: op :: a => (st, handleH2 op a)
  | "E1" :: op :: a => (st, handleE1 op a)
  | "L1" :: op :: a => (st, handleL1 op a)
  | "Q1" :: op :: a => let (s, r) := handleQ1 st.sr op a; ({ st with sr := s }, r)
  | "V2" :: op :: a => (st, handleV2 op a)
  | "G2" :: op :: a => (st, handleG2 op a)
  | "H3" :: op :: a => (st, handleH3 op a)
  | "E2" :: op :: a => (st, handleE2 op a)
  | "K0" :: op :: a => (st, handleK0 op a)
  | "P1" :: op :: a => (st, handleP1 op a)
  | "F2" :: op :: a => (st, handleF2 op a)
  | "T0" :: op :: a => (st, handleT0 st.ir op a)
  | "T2" :: op :: a => (st, handleT2 st.fl op a)
  | "B1" :: op :: a => let r := handleBatch st.batch "B1" op a; ({ st with batch := r.1 }, r.2)
  | "C1" :: op :: a => let r := handleBatch st.batch "C1" op a; ({ st with batch := r.1 }, r.2)
  | "C2" :: op :: a => let r := handleBatch st.batch "C2" op a; ({ st with batch := r.1 }, r.2)
  | _ => (st, "bad-op")

end Voi.Drv
