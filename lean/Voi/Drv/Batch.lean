/-
Line-protocol handlers for streams
  B1  batch verifier histories        (Model.Batch)
  C1  caching verifier histories      (Model.CacheVerifier = Model.LRU holding Model.Batch.XKey values + Model.Batch.verifyExpanded)
  C2  LRU cache histories, sequential (Model.LRU) and recorded concurrent ones (Model.Linearize)
All three share one state structure (`BatchDrv`): C1's `c.badd` adds to a B1 batch verifier.

B1  b.new id hint | b.add id flags hash ctx pk msg sig | b.addx id flags hash ctx pk msg sig
    b.addz id flags hash ctx msg sig | b.force id | b.reset id | b.verify id ent | b.only id ent
C1  c.new id cap | c.verify id flags hash ctx pk msg sig | c.addpk id pk | c.badd id bid flags hash ctx pk msg sig
    c.get id pk
C2  lru.new id cap | lru.put id key val|nil | lru.get id key | lru.lin cap ev*   (ev = call,ret,g|p,key,val|-)
    lru.lin cap panic  (the recorded concurrent run crashed: reply `panic runtime`, the Go side always says `bool 1`)
    C1 also accepts b.new / b.reset / b.verify / b.only for the batch verifiers that c.badd fills.
flags/hash/ctx as in stream V1 (`parseFlags`); flags = nil ∧ hash = 0 ∧ ctx = - selects the option-less entry
point (Add / AddExpanded / Verifier.Add).  ent ∈ {r, n, z} (working entropy sources) or f, s (failing / short reader).
-/
import Voi.Drv.Ed25519
import Voi.Model.Batch
import Voi.Model.LRU
import Voi.Model.Linearize
import Voi.Model.CacheVerifier
namespace Voi.Drv
open Voi Voi.Spec Voi.Spec.Ed25519 Voi.Model

structure BatchDrv where
  batches : List (Nat × Batch.State) := []
  caches : List (Nat × Model.LRU.State Bytes Batch.XKey) := []
  lrus : List (Nat × Model.LRU.State Bytes Bytes) := []

def alGet {α : Type} (l : List (Nat × α)) (id : Nat) : Option α :=
  match l with
  | [] => none
  | (i, v) :: t => if i = id then some v else alGet t id

def alSet {α : Type} (l : List (Nat × α)) (id : Nat) (v : α) : List (Nat × α) :=
  (id, v) :: l.filter (fun p => p.1 != id)

def parseOpts (flags hash ctx : String) : Batch.Opts :=
  ⟨parseFlags flags, if hash = "0" then .zero else if hash = "512" then .sha512 else .other, ofHex! ctx⟩

def isPlain (flags hash ctx : String) : Bool := flags = "nil" && hash = "0" && ctx = "-"

def parseEnt (s : String) : Batch.Entropy := if s = "f" || s = "s" then .fail else .ok

def outStr : Batch.Out → String
  | .unit => "ok"
  | .bool b => "bool " ++ boolStr b
  | .bools all bits => "bools " ++ " ".intercalate (boolStr all :: bits.map boolStr)
  | .panicDoc => "panic doc"

def batchOp (st : BatchDrv) (id : String) (op : Batch.Op) : BatchDrv × String :=
  let id := id.toNat!
  match alGet st.batches id with
  | none => (st, "bad-op")
  | some b =>
    let (b', out) := Batch.step b op
    ({ st with batches := alSet st.batches id b' }, outStr out)

def parseEv (t : String) : Option (Linearize.Ev Nat Nat) :=
  match t.splitOn "," with
  | [c, r, "g", k, res] =>
    some ⟨c.toNat!, r.toNat!, .get k.toNat!, if res = "-" then none else some res.toNat!⟩
  | [c, r, "p", k, v] =>
    some ⟨c.toNat!, r.toNat!, .put k.toNat! (if v = "-" then none else some v.toNat!), none⟩
  | _ => none

def handleBatch (st : BatchDrv) (stream op : String) (a : List String) : BatchDrv × String :=
  match stream, op, a with
  -- ---- B1
  | "B1", "b.new", [id, _hint] => ({ st with batches := alSet st.batches id.toNat! Batch.init }, "ok")
  | "B1", "b.add", [id, flags, hash, ctx, pk, msg, sig] =>
    let pk := ofHex! pk; let msg := ofHex! msg; let sig := ofHex! sig
    batchOp st id (if isPlain flags hash ctx then .add pk msg sig
                   else .addWithOptions pk msg sig (parseOpts flags hash ctx))
  | "B1", "b.addx", [id, flags, hash, ctx, pk, msg, sig] =>
    let x := Batch.expand (ofHex! pk); let msg := ofHex! msg; let sig := ofHex! sig
    batchOp st id (if isPlain flags hash ctx then .addExpanded x msg sig
                   else .addExpandedWithOptions x msg sig (parseOpts flags hash ctx))
  | "B1", "b.addz", [id, flags, hash, ctx, msg, sig] =>
    batchOp st id (.addExpandedWithOptions (some Batch.XKey.zeroValue) (ofHex! msg) (ofHex! sig) (parseOpts flags hash ctx))
  | "B1", "b.force", [id] => batchOp st id .forceNoPublicKeyExpansion
  | "B1", "b.reset", [id] => batchOp st id .reset
  | "B1", "b.verify", [id, ent] => batchOp st id (.verify (parseEnt ent))
  | "B1", "b.only", [id, ent] => batchOp st id (.verifyBatchOnly (parseEnt ent))
  -- ---- C1
  | "C1", "c.new", [id, cap] =>
    if cap.toInt! ≤ 0 then (st, "panic doc") else
    ({ st with caches := alSet st.caches id.toNat! (Model.LRU.new cap.toNat!) }, "ok")
  | "C1", "c.verify", [id, flags, hash, ctx, pk, msg, sig] =>
    (match alGet st.caches id.toNat! with
    | none => (st, "bad-op")
    | some c =>
      let (c', r) := CacheVerifier.verify c (ofHex! pk) (ofHex! msg) (ofHex! sig) (parseOpts flags hash ctx)
      -- the cache update persists even when the verification panics
      ({ st with caches := alSet st.caches id.toNat! c' },
       match r with | none => "panic doc" | some b => "bool " ++ boolStr b))
  | "C1", "c.addpk", [id, pk] =>
    (match alGet st.caches id.toNat! with
    | none => (st, "bad-op")
    | some c => ({ st with caches := alSet st.caches id.toNat! (CacheVerifier.addPublicKey c (ofHex! pk)) }, "ok"))
  | "C1", "c.badd", [id, bid, flags, hash, ctx, pk, msg, sig] =>
    (match alGet st.caches id.toNat!, alGet st.batches bid.toNat! with
    | some c, some b =>
      let (c', b') := CacheVerifier.addToBatch c b (ofHex! pk) (ofHex! msg) (ofHex! sig) (parseOpts flags hash ctx)
      ({ st with caches := alSet st.caches id.toNat! c', batches := alSet st.batches bid.toNat! b' }, "ok")
    | _, _ => (st, "bad-op"))
  | "C1", "c.get", [id, pk] =>
    (match alGet st.caches id.toNat! with
    | none => (st, "bad-op")
    | some c =>
      let (c', ox) := Model.LRU.get c (ofHex! pk)
      ({ st with caches := alSet st.caches id.toNat! c' }, "bool " ++ boolStr ox.isSome))
  -- batch verifier ops are also reachable under the C1 prefix (c.badd targets them)
  | "C1", "b.new", [id, _hint] => ({ st with batches := alSet st.batches id.toNat! Batch.init }, "ok")
  | "C1", "b.reset", [id] => batchOp st id .reset
  | "C1", "b.verify", [id, ent] => batchOp st id (.verify (parseEnt ent))
  | "C1", "b.only", [id, ent] => batchOp st id (.verifyBatchOnly (parseEnt ent))
  -- ---- C2
  | "C2", "lru.new", [id, cap] =>
    if cap.toInt! ≤ 0 then (st, "panic doc") else
    ({ st with lrus := alSet st.lrus id.toNat! (Model.LRU.new cap.toNat!) }, "ok")
  | "C2", "lru.put", [id, key, val] =>
    (match alGet st.lrus id.toNat! with
    | none => (st, "bad-op")
    | some c =>
      let v : Option Bytes := if val = "nil" then none else some (ofHex! val)
      ({ st with lrus := alSet st.lrus id.toNat! (Model.LRU.put c (ofHex! key) v) }, "ok"))
  | "C2", "lru.get", [id, key] =>
    (match alGet st.lrus id.toNat! with
    | none => (st, "bad-op")
    | some c =>
      let (c', ov) := Model.LRU.get c (ofHex! key)
      ({ st with lrus := alSet st.lrus id.toNat! c' }, "ok " ++ (match ov with | none => "-" | some v => hexOf v)))
  -- concurrent stress followed by a sequential audit: after `naudit ≥ cap` fresh keys have been put one after the other,
  -- an LRU cache holds exactly the last `cap` of them whatever happened before (every earlier key has been evicted), so
  -- the expected audit is the run of the model from the empty cache; the stress keys all miss
  | "C2", "lru.stress", [cap, nkeys, _, _, _, naudit, nvals] =>
    let cap := cap.toNat!; let naudit := naudit.toNat!; let nvals := nvals.toNat!; let nkeys := nkeys.toNat!
    if naudit < cap ∨ nvals = 0 then (st, "bad-op") else
    let akey (i : Nat) : Bytes := ⟨#[UInt8.ofNat (0xA0 + i)]⟩
    let c1 := (List.range naudit).foldl (fun c i => Model.LRU.put c (akey i) (some ⟨#[UInt8.ofNat (i % nvals)]⟩)) (Model.LRU.new cap)
    let (_, toks) := (List.range naudit).foldl (fun (acc : Model.LRU.State Bytes Bytes × List String) i =>
      let (c', ov) := Model.LRU.get acc.1 (akey i)
      (c', acc.2 ++ [match ov with | none => "-" | some v => toString (v.get! 0).toNat])) (c1, [])
    (st, "ok " ++ " ".intercalate (toks ++ List.replicate nkeys "-"))
  | "C2", "lru.lin", [_, "panic"] => (st, "panic runtime")   -- the recorded concurrent run crashed
  | "C2", "lru.lin", cap :: evs =>
    (match evs.mapM parseEv with
    | none => (st, "bad-op")
    | some h => (st, "bool " ++ boolStr (Linearize.linearizable cap.toNat! h)))
  | _, _, _ => (st, "bad-op")

end Voi.Drv
