/- Line-protocol handler for stream E1 (ECVRF-EDWARDS25519-SHA512-ELL2), property C15. -/
import Voi.Spec.ECVRF
namespace Voi.Drv
open Voi Voi.Spec Voi.Spec.ECVRF

/-- `cur` = RFC 9381 challenge format (with Y), `v10` = draft ≤ 10 (without Y) -/
def vrfWithY (ver : String) : Option Bool :=
  match ver with
  | "cur" => some true
  | "v10" => some false
  | _ => none

def vrfOk (r : Option Bytes) : String :=
  match r with
  | some b => "ok " ++ hexOf b
  | none => "err"

def handleE1 (op : String) (a : List String) : String :=
  match op, a with
  -- Prove / Prove_v10 panic on a private key of the wrong length (the only failure there is)
  | "vrf.prove", [ver, sk, alpha] =>
    match vrfWithY ver with
    | none => "bad-op"
    | some wy =>
      match prove wy none (ofHex! sk) (ofHex! alpha) with
      | some pi => "ok " ++ hexOf pi
      | none => "panic doc"
  -- ProveWithAddedRandomness(_v10) with a reader over `entropy`: exactly 32 bytes are consumed;
  -- fewer than 32 available, or a bad key length, is an error
  | "vrf.provernd", [ver, sk, alpha, ent] =>
    match vrfWithY ver with
    | none => "bad-op"
    | some wy =>
      let e := ofHex! ent
      if e.size < 32 then "err" else
      vrfOk (prove wy (some (bslice e 0 32)) (ofHex! sk) (ofHex! alpha))
  | "vrf.verify", [ver, pk, pi, alpha] =>
    match vrfWithY ver with
    | none => "bad-op"
    | some wy => vrfOk (verify wy (ofHex! pk) (ofHex! pi) (ofHex! alpha))
  | "vrf.hash", [pi] => vrfOk (proofToHash (ofHex! pi))
  | _, _ => "bad-op"

end Voi.Drv
