/-
C07 — X25519 is the RFC 7748 function on every input.

`Voi.Model.Montgomery` is the code-shaped model of curve/montgomery.go `(*MontgomeryPoint).Mul`
(+ `montgomeryDifferentialAddAndDouble`) and of primitives/x25519/x25519.go;
`Voi.Spec.X25519` is the pseudo-code of RFC 7748 §5.  Both are executable and both are compared
with the real Go code on every run (differential stream X1).  This module proves, for ALL inputs
(no bound, no sampling), that the two are the same function:

  1. `step_eq`            one Go differential add-and-double = one RFC ladder step, as field elements
  2. `swap_schedule_eq`   Go's swap-on-`bits[i+1] ⊕ bits[i]` schedule = the RFC's per-iteration `cswap`s
  3. `mul_eq_rfc`, `scalarMult_eq_rfc`
                          `Mul` = the RFC ladder for every 255-bit scalar and every point string;
                          `ScalarMult k u = X25519(k, u)` for all byte strings k, u
  4. `checked_error_iff`  the checked entry point errors exactly on a bad length or an all-zero result
  5. clamping             `clampScalar` = `decodeScalar25519`; exactly bits 0,1,2,255 ↦ 0 and 254 ↦ 1;
                          `edPrivToX25519` = clamp(SHA-512(seed)[0:32])

No curve theory is used: (1)–(4) are identities between two programs over ℤ/p (p need not be
prime for them).  Non-canonical u (≥ p), u with bit 255 set, twist points and low-order points
therefore need no special treatment.

NOT proved here (they need the ladder-as-group-action theorem for the Montgomery curve and the
Edwards ↔ Montgomery isomorphism): "the fixed-base routine equals multiplication of 9" and
"Diffie–Hellman is symmetric".  They are kept as `base_eq_ladder_statement`,
`dh_symmetric_statement`, `ed_pair_statement : Prop` and are covered by stream X1 only.

Mathlib tactics are used; this module must not be imported by Voi/Drv/* or Main.lean.
-/
import Voi.Props.C07.FpRing
import Voi.Props.C07.Ladder
import Voi.Props.C07.Clamp
import Voi.Spec.Ed25519
namespace Voi.Props.C07
open Voi Voi.Spec

/-! ## 1. One step -/

/-- **Step equality.**  Take any RFC state `s`, any scalar `k`, any iteration index `t` and any
`x1`.  Apply the RFC's two `cswap`s (on `swap ⊕ k_t`) to `s`, then the Go function
`montgomeryDifferentialAddAndDouble`: the result is exactly the (x_2, z_2, x_3, z_3) of the RFC's
`ladderStep` — equal representatives in [0, p), not merely projectively equal points.
(RFC: `z_2 = E·(AA + 121665·E)`; Go: `E·(121666·E + BB)`; equal because `E = AA − BB`.) -/
theorem step_eq (x1 k t : Nat) (s : Spec.X25519.State) :
    let sw := s.swap ^^^ ((k >>> t) &&& 1)
    let X := Spec.X25519.cswap sw s.x2 s.x3
    let Z := Spec.X25519.cswap sw s.z2 s.z3
    Model.Montgomery.diffAddAndDouble ⟨X.1, Z.1⟩ ⟨X.2, Z.2⟩ x1 =
      toPair (Spec.X25519.ladderStep x1 k t s) := by
  intro sw X Z
  rw [step_eq_core, ladderStep_unfold]
  rfl

/-- The same in `ZMod p`: the four outputs of the Go step are the RFC's polynomials in the inputs. -/
theorem step_eq_zmod (x1 x2 z2 x3 z3 : Nat) :
    let r := Model.Montgomery.diffAddAndDouble ⟨x2, z2⟩ ⟨x3, z3⟩ x1
    let a := toZ x2; let b := toZ z2; let c := toZ x3; let d := toZ z3
    let AA := (a + b) ^ 2; let BB := (a - b) ^ 2; let E := AA - BB
    let DA := (c - d) * (a + b); let CB := (c + d) * (a - b)
    toZ r.1.U = AA * BB ∧ toZ r.1.W = E * (AA + 121665 * E) ∧
    toZ r.2.U = (DA + CB) ^ 2 ∧ toZ r.2.W = toZ x1 * (DA - CB) ^ 2 := by
  intro r a b c d AA BB E DA CB
  have h5 : toZ 121665 = 121665 := Nat.cast_ofNat
  have hr : r = _ := step_eq_core x1 x2 z2 x3 z3
  rw [hr]
  unfold rfcStep Spec.X25519.a24
  simp only [toZ_add, toZ_sub, toZ_mul, toZ_sq, h5]
  refine ⟨?_, ?_, ?_, ?_⟩ <;> ring

/-! ## 2. The swap schedule -/

/-- **Swap-schedule equality, any number of iterations.**  If before iteration `n − 1` the Go pair
`(P, Q)` is the RFC quadruple `(x_2, z_2, x_3, z_3)`, the RFC's `swap` variable is `bits[n]`, and
the four values are 256-bit numbers, then after the iterations `n − 1, …, 0` the same holds with
`swap = bits[0]`: Go's `conditionalSwap` on `bits[i+1] ⊕ bits[i]` followed by the step is the
RFC's `swap ^= k_i; cswap; cswap; step; swap = k_i` in every iteration.  (Induction over the
loop; invariant `Rel`.) -/
theorem swap_schedule_eq (x1 k n : Nat) (s : Spec.X25519.State) (hb : Bounded s)
    (hs : s.swap = Model.Montgomery.bit k n) :
    Model.Montgomery.mulLoop x1 k n (toPair s) = toPair (Spec.X25519.ladder x1 k n s) ∧
    (Spec.X25519.ladder x1 k n s).swap = Model.Montgomery.bit k 0 ∧
    Bounded (Spec.X25519.ladder x1 k n s) := by
  have h := rel_loop x1 k n (s := s) (st := toPair s) ⟨rfl, hs, hb⟩
  exact ⟨h.eq, h.swap, h.bounded⟩

/-- **Swap-schedule equality for the 255 iterations of `Mul`**, including the final swap: for
every scalar `k < 2^255` and every 256-bit `x1`, the Go loop state after 255 iterations is the
RFC state, and Go's last `conditionalSwap(bits[0])` is the RFC's last pair of `cswap`s. -/
theorem swap_schedule_eq_255 (x1 k : Nat) (hk : k < 2 ^ 255) (hx : x1 < 2 ^ 256) :
    let s := Spec.X25519.ladder x1 k 255 ⟨1, 0, x1, 1, 0⟩
    let st := Model.Montgomery.mulLoop x1 k 255 (Model.Montgomery.ProjPt.identity, ⟨x1, 1⟩)
    st = toPair s ∧
    Model.Montgomery.conditionalSwap st.1 st.2 (Model.Montgomery.bit k 0) =
      (⟨(Spec.X25519.cswap s.swap s.x2 s.x3).1, (Spec.X25519.cswap s.swap s.z2 s.z3).1⟩,
       ⟨(Spec.X25519.cswap s.swap s.x2 s.x3).2, (Spec.X25519.cswap s.swap s.z2 s.z3).2⟩) := by
  intro s st
  have h : Rel k 0 s st := rel_loop x1 k 255 (rel_init hk hx)
  obtain ⟨heq, hsw, hx2, hz2, hx3, hz3⟩ := h
  refine ⟨heq, ?_⟩
  rw [heq, hsw, cswap_eq_ite (bit_lt _ _) hx2 hx3, cswap_eq_ite (bit_lt _ _) hz2 hz3]
  unfold Model.Montgomery.conditionalSwap toPair
  by_cases h1 : Model.Montgomery.bit k 0 = 1
  · simp only [if_pos h1]
  · simp only [if_neg h1]

/-! ## 3. `Mul` and `ScalarMult` are the RFC function -/

theorem mul_unfold (point : Bytes) (s : Nat) :
    Model.Montgomery.mul point s =
      (let affineU := Model.Montgomery.feFromBytes point
       let st := Model.Montgomery.mulLoop affineU s 255
         (Model.Montgomery.ProjPt.identity, ⟨affineU, 1⟩)
       Model.Montgomery.fromProjective
         (Model.Montgomery.conditionalSwap st.1 st.2 (Model.Montgomery.bit s 0)).1) := rfl

theorem x25519Nat_unfold (k x1 : Nat) :
    Spec.X25519.x25519Nat k x1 =
      (let s := Spec.X25519.ladder x1 k 255 ⟨1, 0, x1, 1, 0⟩
       Fp.mul (Spec.X25519.cswap s.swap s.x2 s.x3).1
         (Fp.pow (Spec.X25519.cswap s.swap s.z2 s.z3).1 (p - 2))) := rfl

theorem decodeUCoordinate_lt (u : Bytes) : Spec.X25519.decodeUCoordinate u < p :=
  Nat.mod_lt _ p_pos

/-- **`(*MontgomeryPoint).Mul` is the RFC ladder.**  For every scalar value `s < 2^255` (what
`scalar.SetBits` produces) and every point string (any content: non-canonical, bit 255 set, twist,
low order; indeed any length), the bytes returned by the Go ladder are the RFC's
`encodeUCoordinate (x_2 · z_2^(p−2))` computed by the RFC's ladder on
`decodeUCoordinate point`. -/
theorem mul_eq_rfc (point : Bytes) (s : Nat) (hs : s < 2 ^ 255) :
    Model.Montgomery.mul point s =
      Spec.X25519.encodeUCoordinate
        (Spec.X25519.x25519Nat s (Spec.X25519.decodeUCoordinate point)) := by
  rw [mul_unfold, x25519Nat_unfold]
  have hx : Spec.X25519.decodeUCoordinate point < 2 ^ 256 :=
    Nat.lt_trans (decodeUCoordinate_lt point) p_lt
  have h := (swap_schedule_eq_255 (Spec.X25519.decodeUCoordinate point) s hs hx).2
  show Model.Montgomery.fromProjective
      (Model.Montgomery.conditionalSwap
        (Model.Montgomery.mulLoop (Spec.X25519.decodeUCoordinate point) s 255
          (Model.Montgomery.ProjPt.identity, ⟨Spec.X25519.decodeUCoordinate point, 1⟩)).1
        (Model.Montgomery.mulLoop (Spec.X25519.decodeUCoordinate point) s 255
          (Model.Montgomery.ProjPt.identity, ⟨Spec.X25519.decodeUCoordinate point, 1⟩)).2
        (Model.Montgomery.bit s 0)).1 = _
  rw [h]
  rfl

/-- The same for a reduced field element `u < p` given as a number (its 32-byte encoding). -/
theorem mul_eq_rfc_nat (point : Bytes) (u s : Nat) (hs : s < 2 ^ 255)
    (hu : Spec.X25519.decodeUCoordinate point = u) :
    Model.Montgomery.mul point s =
      Spec.X25519.encodeUCoordinate (Spec.X25519.x25519Nat s u) := by
  rw [mul_eq_rfc point s hs, hu]

/-- `setBits ∘ clampScalar` = RFC 7748 `decodeScalar25519`, for every byte string. -/
theorem setBits_clampScalar (k : Bytes) :
    Model.Montgomery.setBits (Model.Montgomery.clampScalar k) = Spec.X25519.decodeScalar25519 k := by
  unfold Model.Montgomery.setBits
  rw [clampScalar_eq_clampNat, decodeScalar25519_eq_clampNat, Nat.mod_eq_of_lt (clampNat_lt _)]

/-- **`x25519.ScalarMult` is RFC 7748 X25519**, for all byte strings `k`, `u` — in particular for
all 32-byte `k` and all 32-byte `u`, including non-canonical u (≥ p), u with bit 255 set, points
on the twist and low-order points.  (No length hypothesis is needed: the identity holds for the
two functions on every pair of strings.) -/
theorem scalarMult_eq_rfc (k u : Bytes) :
    Model.Montgomery.scalarMult k u = Spec.X25519.x25519 k u := by
  unfold Model.Montgomery.scalarMult Spec.X25519.x25519
  have hlt : Model.Montgomery.setBits (Model.Montgomery.clampScalar k) < 2 ^ 255 := by
    rw [setBits_clampScalar, decodeScalar25519_eq_clampNat]; exact clampNat_lt _
  rw [mul_eq_rfc u _ hlt, setBits_clampScalar]

/-- The form asked for in the property: all 32-byte scalars and all 32-byte u. -/
theorem scalarMult_eq_rfc_32 (k u : Bytes) (_hk : k.size = 32) (_hu : u.size = 32) :
    Model.Montgomery.scalarMult k u = Spec.X25519.x25519 k u := scalarMult_eq_rfc k u

/-- The value returned, in `ZMod p`: `x_2 · z_2^(p−2)` of the RFC ladder's final state. -/
theorem x25519Nat_zmod (k x1 : Nat) :
    let s := Spec.X25519.ladder x1 k 255 ⟨1, 0, x1, 1, 0⟩
    toZ (Spec.X25519.x25519Nat k x1) =
      toZ (Spec.X25519.cswap s.swap s.x2 s.x3).1 *
        toZ (Spec.X25519.cswap s.swap s.z2 s.z3).1 ^ (p - 2) := by
  intro s
  rw [x25519Nat_unfold, toZ_mul, toZ_pow _ _ (by decide)]

/-! ## 4. The checked entry point -/

theorem beq_iff (a b : Bytes) : beq a b = true ↔ a = b := by
  unfold beq
  rw [beq_iff_eq]
  exact ⟨ByteArray.ext, fun h => h ▸ rfl⟩

/-- The checked Go entry point (general-point path) is the Spec's checked function, on all byte
strings of all lengths. -/
theorem checked_eq (k u : Bytes) :
    Model.Montgomery.x25519 k u false = Spec.X25519.x25519Checked k u := by
  unfold Model.Montgomery.x25519 Spec.X25519.x25519Checked
  by_cases hk : k.size ≠ 32
  · simp [hk]
  · by_cases hu : u.size ≠ 32
    · simp [hu]
    · simp only [hk, hu, if_false, or_self, scalarMult_eq_rfc]
      rfl

/-- **Error condition of `X25519(scalar, point)`** (point not the `Basepoint` slice): an error is
returned exactly when a length is not 32 or RFC 7748's X25519(k, u) is the all-zero string — for
all byte strings of all lengths. -/
theorem checked_error_iff (k u : Bytes) :
    Model.Montgomery.x25519 k u false = none ↔
      k.size ≠ 32 ∨ u.size ≠ 32 ∨ Spec.X25519.x25519 k u = bzero 32 := by
  rw [checked_eq]
  unfold Spec.X25519.x25519Checked
  by_cases hl : k.size ≠ 32 ∨ u.size ≠ 32
  · rw [if_pos hl]
    refine ⟨fun _ => ?_, fun _ => rfl⟩
    rcases hl with h | h
    · exact Or.inl h
    · exact Or.inr (Or.inl h)
  · rw [if_neg hl]
    have hk : ¬ k.size ≠ 32 := fun h => hl (Or.inl h)
    have hu : ¬ u.size ≠ 32 := fun h => hl (Or.inr h)
    show (if beq (Spec.X25519.x25519 k u) (bzero 32) = true then none
      else some (Spec.X25519.x25519 k u)) = none ↔ _
    by_cases hz : beq (Spec.X25519.x25519 k u) (bzero 32) = true
    · rw [if_pos hz]
      exact ⟨fun _ => Or.inr (Or.inr ((beq_iff _ _).1 hz)), fun _ => rfl⟩
    · rw [if_neg hz]
      constructor
      · intro h; cases h
      · rintro (h | h | h)
        · exact absurd h hk
        · exact absurd h hu
        · exact absurd ((beq_iff _ _).2 h) hz

/-- … and when no error is returned the result is RFC 7748's X25519(k, u). -/
theorem checked_ok (k u : Bytes) (hk : k.size = 32) (hu : u.size = 32)
    (hz : Spec.X25519.x25519 k u ≠ bzero 32) :
    Model.Montgomery.x25519 k u false = some (Spec.X25519.x25519 k u) := by
  unfold Model.Montgomery.x25519
  have hz' : ¬ beq (Spec.X25519.x25519 k u) (bzero 32) = true := fun h => hz ((beq_iff _ _).1 h)
  simp [hk, hu, scalarMult_eq_rfc, hz']

/-- On the `&point[0] == &Basepoint[0]` path there is no zero check: the only errors are lengths. -/
theorem checked_basepoint_error_iff (k u : Bytes) :
    Model.Montgomery.x25519 k u true = none ↔ k.size ≠ 32 ∨ u.size ≠ 32 := by
  unfold Model.Montgomery.x25519
  by_cases hk : k.size ≠ 32
  · simp [hk]
  · by_cases hu : u.size ≠ 32
    · simp [hu]
    · simp [hk, hu]

/-! ## 5. Clamping -/

/-- `clampScalar` (x25519.go: `s[0] &= 248; s[31] &= 127; s[31] |= 64`) is RFC 7748's
`decodeScalar25519`, for every byte string. -/
theorem clampScalar_eq_decodeScalar (k : Bytes) :
    Model.Montgomery.clampScalar k = Spec.X25519.decodeScalar25519 k := by
  rw [clampScalar_eq_clampNat, decodeScalar25519_eq_clampNat]

/-- the clamped scalar already fits 255 bits: `scalar.SetBits`' masking is a no-op on it -/
theorem clampScalar_lt (k : Bytes) : Model.Montgomery.clampScalar k < 2 ^ 255 := by
  rw [clampScalar_eq_clampNat]; exact clampNat_lt _

/-- **Clamping changes exactly bits 0, 1, 2, 255 (→ 0) and 254 (→ 1).**  For every byte string
`k` and every bit index `i`: bit `i` of the clamped scalar is 0 for `i ∈ {0, 1, 2}` and `i ≥ 255`,
1 for `i = 254`, and bit `i` of `k` (little endian) otherwise. -/
theorem clampScalar_testBit (k : Bytes) (i : Nat) :
    (Model.Montgomery.clampScalar k).testBit i =
      if i < 3 ∨ 255 ≤ i then false else if i = 254 then true else (leNat k).testBit i := by
  rw [clampScalar_eq_clampNat]; exact clampNat_testBit _ _

/-- For a 32-byte string nothing exists above bit 255, so "exactly bits 0, 1, 2, 255, 254" is
literal: every other bit, at every index, is unchanged. -/
theorem clampScalar_testBit_32 (k : Bytes) (hk : k.size = 32) (i : Nat) :
    (Model.Montgomery.clampScalar k).testBit i =
      if i = 0 ∨ i = 1 ∨ i = 2 ∨ i = 255 then false else if i = 254 then true
      else (leNat k).testBit i := by
  rw [clampScalar_testBit]
  by_cases h1 : i < 3 ∨ 255 ≤ i
  · rw [if_pos h1]
    by_cases h2 : i = 0 ∨ i = 1 ∨ i = 2 ∨ i = 255
    · rw [if_pos h2]
    · have hi : 256 ≤ i := by omega
      have h3 : ¬ i = 254 := by omega
      rw [if_neg h2, if_neg h3]
      have hlt : leNat k < 2 ^ i :=
        Nat.lt_of_lt_of_le (leNat_lt k) (Nat.pow_le_pow_right (by decide) (by omega))
      exact (Nat.testBit_lt_two_pow hlt).symm
  · have h2 : ¬ (i = 0 ∨ i = 1 ∨ i = 2 ∨ i = 255) := by omega
    rw [if_neg h1, if_neg h2]

/-- Code-shaped model of `EdPrivateKeyToX25519`: SHA-512 of `privateKey[:32]`, `clampScalar` on
the digest (it touches bytes 0 and 31 only), first 32 bytes. -/
def edPrivateKeyToX25519 (sk : Bytes) : Bytes :=
  natLE (Model.Montgomery.clampScalar (bslice (sha512 (bslice sk 0 32)) 0 32)) 32

/-- `edPrivToX25519 = clamp(SHA-512(seed)[0:32])`, with the Go `clampScalar`. -/
theorem edPrivToX25519_eq (sk : Bytes) :
    Spec.X25519.edPrivToX25519 sk = edPrivateKeyToX25519 sk := by
  unfold Spec.X25519.edPrivToX25519 edPrivateKeyToX25519
  rw [clampScalar_eq_decodeScalar]

/-- `EdPublicKeyToX25519` (Go: `SetBytes`, `SetCompressedY`, `SetEdwards`) is the RFC 7748 §4.1
map u = (1 + y)/(1 − y) on the decoded key, on all byte strings. -/
theorem edPublicKeyToX25519_eq (pk : Bytes) :
    Model.Montgomery.edPublicKeyToX25519 pk = Spec.X25519.edPubToX25519 pk := by
  unfold Model.Montgomery.edPublicKeyToX25519 Spec.X25519.edPubToX25519
  by_cases h : pk.size ≠ 32
  · have : Pt.decode pk = none := by unfold Pt.decode; simp [h]
    simp [h, this]
  · simp only [h, if_false]
    cases Pt.decode pk with
    | none => rfl
    | some A => rfl

/-! ## 6. What is NOT proved (needs Montgomery-curve theory; covered by stream X1 only) -/

/-- "The fixed-base routine equals multiplication of the base point 9": the Edwards fixed-base
multiplication followed by the birational map gives the ladder's result on u = 9.
NOT PROVED: needs (a) the ladder computes x([k]P) on the Montgomery curve (group-action theorem,
incl. the exceptional cases) and (b) the Edwards ↔ Montgomery isomorphism is a group
homomorphism.  Covered by the differential stream X1 only (both sides computed and compared). -/
def base_eq_ladder_statement : Prop :=
  ∀ k : Bytes, k.size = 32 →
    Model.Montgomery.scalarBaseMult k = Spec.X25519.scalarBaseMult k

/-- "Diffie–Hellman is symmetric": X25519(a, X25519(b, 9)) = X25519(b, X25519(a, 9)).
NOT PROVED: needs the ladder-as-group-action theorem ([a][b]P = [b][a]P on x-coordinates).
Covered by the differential stream X1 only. -/
def dh_symmetric_statement : Prop :=
  ∀ a b : Bytes, a.size = 32 → b.size = 32 →
    Spec.X25519.x25519 a (Spec.X25519.scalarBaseMult b) =
      Spec.X25519.x25519 b (Spec.X25519.scalarBaseMult a)

/-- "Converting an Ed25519 key pair yields an X25519 pair whose public key is the X25519 public key
of the converted private key."  NOT PROVED (same missing theory).  Stream X1 only. -/
def ed_pair_statement : Prop :=
  ∀ seed : Bytes, seed.size = 32 →
    Spec.X25519.edPubToX25519 (Ed25519.publicKey seed) =
      some (Spec.X25519.scalarBaseMult (Spec.X25519.edPrivToX25519 (Ed25519.newKeyFromSeed seed)))

/-- What *is* proved about them: given the two statements for the Spec, they transfer to the Go
model (general-point `ScalarMult` and fixed-base `ScalarBaseMult`), because `ScalarMult` is the
RFC function (`scalarMult_eq_rfc`). -/
theorem dh_symmetric_transfer (hbase : base_eq_ladder_statement) (hdh : dh_symmetric_statement)
    (a b : Bytes) (ha : a.size = 32) (hb : b.size = 32) :
    Model.Montgomery.scalarMult a (Model.Montgomery.scalarBaseMult b) =
      Model.Montgomery.scalarMult b (Model.Montgomery.scalarBaseMult a) := by
  rw [scalarMult_eq_rfc, scalarMult_eq_rfc, hbase a ha, hbase b hb]
  exact hdh a b ha hb

/-! ## 7. Instances on concrete values (RFC 7748 §5.2, first vector) -/

/-- RFC 7748 §5.2 vector 1: input scalar, input u-coordinate, output u-coordinate -/
def kRFC : Bytes := ofHex! "a546e36bf0527c9d3b16154b82465edd62144c0ac1fc5a18506a2244ba449ac4"
def uRFC : Bytes := ofHex! "e6db6867583030db3594c1a424b15f7c726624ec26b3353b10a903a6d0ab1c4c"
def rRFC : Bytes := ofHex! "c3da55379de9c6908e94ea4df28d084f32eccf03491c71f754b4075577a28552"
/-- the same three as numbers (scalar after decodeScalar25519; u; result) -/
def kRFCn : Nat := 31029842492115040904895560451863089656472772604678260265531221036453811406496
def uRFCn : Nat := 34426434033919594451155107781188821651316167215306631574996226621102155684838
def rRFCn : Nat := 37325765543539916631701301279660700968428932651319597985674090122993663859395

#guard leNat kRFC == 88925887110773138616681052956207043583107764937498542285260013040410376226469
#guard Spec.X25519.decodeScalar25519 kRFC == kRFCn && Spec.X25519.decodeUCoordinate uRFC == uRFCn
#guard leNat rRFC == rRFCn

-- 1. the first ladder iteration (t = 254, k_254 = 1, so the pairs are swapped) on the RFC vector
example :
    Model.Montgomery.diffAddAndDouble ⟨uRFCn, 1⟩ ⟨1, 0⟩ uRFCn =
      toPair (Spec.X25519.ladderStep uRFCn kRFCn 254 ⟨1, 0, uRFCn, 1, 0⟩) := by
  have h := step_eq uRFCn kRFCn 254 ⟨1, 0, uRFCn, 1, 0⟩
  have e1 : Spec.X25519.cswap ((0 : Nat) ^^^ ((kRFCn >>> 254) &&& 1)) 1 uRFCn = (uRFCn, 1) := by
    decide +kernel
  have e2 : Spec.X25519.cswap ((0 : Nat) ^^^ ((kRFCn >>> 254) &&& 1)) 0 1 = (1, 0) := by
    decide +kernel
  simp only [e1, e2] at h
  exact h
-- … and both sides really are these numbers (kernel evaluation; z_2 uses 121666 on the left, 121665 on the right)
example :
    Model.Montgomery.diffAddAndDouble ⟨uRFCn, 1⟩ ⟨1, 0⟩ uRFCn =
      (⟨10812997290877953414876713771559096076988124789286094484808612862248751257640,
        17057780096276725197266926689719741321978387205345998857384484874814072643392⟩,
       ⟨16951056914812400018644169018809599303786632668765219485878779373433958112465,
        21913646898362182381049446116067378751994684195585962260527322476495493099454⟩) := by
  decide +kernel

-- 2. the swap schedule on the RFC vector's scalar and u: the 255-iteration Go state is the RFC state
example :
    Model.Montgomery.mulLoop uRFCn kRFCn 255 (Model.Montgomery.ProjPt.identity, ⟨uRFCn, 1⟩) =
      toPair (Spec.X25519.ladder uRFCn kRFCn 255 ⟨1, 0, uRFCn, 1, 0⟩) :=
  (swap_schedule_eq_255 uRFCn kRFCn (by decide) (by decide)).1
-- the general form, started in the middle of the loop (iteration 102 downwards, swap = bits[103] = 1)
example : Model.Montgomery.mulLoop 9 kRFCn 103 (⟨2, 3⟩, ⟨4, 5⟩) =
    toPair (Spec.X25519.ladder 9 kRFCn 103 ⟨2, 3, 4, 5, 1⟩) :=
  (swap_schedule_eq 9 kRFCn 103 ⟨2, 3, 4, 5, 1⟩ ⟨by decide, by decide, by decide, by decide⟩
    (by decide +kernel)).1

-- 3. Mul / ScalarMult on the RFC vector
example : Model.Montgomery.mul uRFC kRFCn =
    Spec.X25519.encodeUCoordinate (Spec.X25519.x25519Nat kRFCn (Spec.X25519.decodeUCoordinate uRFC)) :=
  mul_eq_rfc uRFC kRFCn (by decide)
example : Model.Montgomery.scalarMult kRFC uRFC = Spec.X25519.x25519 kRFC uRFC :=
  scalarMult_eq_rfc kRFC uRFC
-- the RFC ladder on the decoded vector gives the RFC's output (kernel evaluation of all 255 steps)
example : Spec.X25519.x25519Nat kRFCn uRFCn = rRFCn := by decide +kernel
#guard Model.Montgomery.scalarMult kRFC uRFC == rRFC && Spec.X25519.x25519 kRFC uRFC == rRFC
-- a non-canonical u with bit 255 set (2^255 + p + 9 ≡ 9), and a low-order u (u = 1, order 4)
example : Model.Montgomery.scalarMult kRFC (natLE (2 ^ 255 + p + 9) 32) =
    Spec.X25519.x25519 kRFC (natLE (2 ^ 255 + p + 9) 32) := scalarMult_eq_rfc _ _
#guard Model.Montgomery.scalarMult kRFC (natLE (2 ^ 255 + p + 9) 32) == Spec.X25519.x25519 kRFC (natLE 9 32)

-- 4. checked entry point: low-order u = 1 gives an error, the RFC vector does not, short input does
example : Model.Montgomery.x25519 kRFC (natLE 1 32) false = none ↔
    kRFC.size ≠ 32 ∨ (natLE 1 32).size ≠ 32 ∨ Spec.X25519.x25519 kRFC (natLE 1 32) = bzero 32 :=
  checked_error_iff kRFC (natLE 1 32)
example : Model.Montgomery.x25519 kRFC uRFC false = Spec.X25519.x25519Checked kRFC uRFC :=
  checked_eq kRFC uRFC
#guard Model.Montgomery.x25519 kRFC (natLE 1 32) false == none
#guard Model.Montgomery.x25519 kRFC uRFC false == some rRFC
#guard Model.Montgomery.x25519 kRFC (natLE 9 31) false == none

-- 5. clamping of the RFC vector's scalar: bits 0, 1, 2, 255 were 1, 0, 1, 1 and bit 254 was 1
example : Model.Montgomery.clampScalar kRFC = Spec.X25519.decodeScalar25519 kRFC :=
  clampScalar_eq_decodeScalar kRFC
example : (Model.Montgomery.clampScalar kRFC).testBit 255 = false := by
  rw [clampScalar_testBit]; rfl
example : (Model.Montgomery.clampScalar kRFC).testBit 254 = true := by
  rw [clampScalar_testBit]; rfl
example : (Model.Montgomery.clampScalar kRFC).testBit 100 = (leNat kRFC).testBit 100 := by
  rw [clampScalar_testBit]; rfl
#guard Model.Montgomery.clampScalar kRFC == kRFCn
example (sk : Bytes) : Spec.X25519.edPrivToX25519 sk =
    natLE (Model.Montgomery.clampScalar (bslice (sha512 (bslice sk 0 32)) 0 32)) 32 :=
  edPrivToX25519_eq sk

/-! ## Axioms -/
#print axioms step_eq
#print axioms step_eq_zmod
#print axioms swap_schedule_eq
#print axioms swap_schedule_eq_255
#print axioms mul_eq_rfc
#print axioms scalarMult_eq_rfc
#print axioms x25519Nat_zmod
#print axioms checked_eq
#print axioms checked_error_iff
#print axioms checked_ok
#print axioms checked_basepoint_error_iff
#print axioms setBits_clampScalar
#print axioms clampScalar_eq_decodeScalar
#print axioms clampScalar_lt
#print axioms clampScalar_testBit
#print axioms clampScalar_testBit_32
#print axioms edPrivToX25519_eq
#print axioms edPublicKeyToX25519_eq
#print axioms dh_symmetric_transfer
#print axioms toZ_inv

end Voi.Props.C07
