/-
Property C09 (caching verifier part): `cache.Verifier` is transparent.  Core Lean tactics only.

Invariant `CacheOK`: every value held by the cache is `NewExpandedPublicKey` of the key it is stored under.
It holds for a fresh cache and is preserved by every `Verifier` operation (`upsert_spec`), for EVERY capacity and
every history of hits, misses and evictions (`cacheOK_run`).  Consequently

* `upsert_spec`            upsertPublicKey(pk) returns exactly `expand pk` (nil when the key has a wrong length or is
                           undecodable) whatever the cache contains;
* `verify_transparent`     VerifyWithOptions through the cache = VerifyExpandedWithOptions(expand pk) or false;
* `verify_eq_spec`         … which is `Spec.Ed25519.verify` of the same inputs under `Spec.Ed25519.modeOf`, with the
                           documented exception that an unusable key gives false BEFORE the options are validated;
* `addToBatch_transparent` Verifier.AddWithOptions adds exactly what AddExpandedWithOptions(expand pk) adds
                           (and `BatchInv.serialVerdict_expand`: that entry's verdict is the plain-key verdict).
-/
import Voi.Model.CacheVerifier
import Voi.Props.LRUInv
import Voi.Props.BatchInv
namespace Voi.Props.CacheInv
open Voi Voi.Spec Voi.Spec.Ed25519 Voi.Model Voi.Model.Batch Voi.Model.CacheVerifier
open Voi.Spec.LRU (lookup eraseKey)
open Voi.Props.LRUInv (lookup_eraseKey)

/-- every cached value is the expansion of its key -/
def CacheOK (c : Cache) : Prop := ∀ k x, lookup k c.store = some (some x) → expand k = some x

theorem cacheOK_new (cap : Nat) : CacheOK (Model.LRU.new cap) := by
  intro k x h; simp [Model.LRU.new, lookup] at h

theorem get_store (c : Cache) (k : Bytes) : (Model.LRU.get c k).1.store = c.store := by
  unfold Model.LRU.get; cases lookup k c.store <;> rfl

theorem get_result (c : Cache) (k : Bytes) (x : XKey) (h : (Model.LRU.get c k).2 = some x) :
    lookup k c.store = some (some x) := by
  unfold Model.LRU.get at h
  cases hl : lookup k c.store with
  | none => simp [hl] at h
  | some ov => simp [hl] at h; rw [h]

theorem cacheOK_get {c : Cache} (h : CacheOK c) (k : Bytes) : CacheOK (Model.LRU.get c k).1 := by
  intro k' x hx; rw [get_store] at hx; exact h k' x hx

theorem evict_lookup (c : Cache) (k : Bytes) (y : Option XKey) (h : lookup k (Model.LRU.evict c).store = some y) :
    lookup k c.store = some y := by
  unfold Model.LRU.evict at h
  split at h
  · split at h
    · rename_i kb _
      simp only at h
      rw [lookup_eraseKey] at h
      by_cases e : k = kb
      · simp [e] at h
      · simpa [e] using h
    · exact h
  · exact h

/-- bindings after `Put`: the new one, or old ones -/
theorem put_lookup (c : Cache) (k k' : Bytes) (ov : Option XKey) (y : XKey)
    (h : lookup k' (Model.LRU.put c k ov).store = some (some y)) :
    (k' = k ∧ ov = some y) ∨ lookup k' c.store = some (some y) := by
  unfold Model.LRU.put at h
  cases hl : lookup k c.store with
  | some w =>
    simp only [hl] at h
    rw [get_store] at h
    exact Or.inr h
  | none =>
    simp only [hl] at h
    simp only [lookup] at h
    by_cases e : k = k'
    · simp only [e, if_true] at h
      exact Or.inl ⟨e.symm, by simpa using h⟩
    · have e' : ¬ k' = k := fun x => e x.symm
      simp only [e, if_false] at h
      rw [lookup_eraseKey] at h
      simp only [e', if_false] at h
      exact Or.inr (evict_lookup c k' _ h)

theorem cacheOK_put {c : Cache} (h : CacheOK c) (k : Bytes) (x : XKey) (hx : expand k = some x) :
    CacheOK (Model.LRU.put c k (some x)) := by
  intro k' y hy
  rcases put_lookup c k k' (some x) y hy with ⟨e, ey⟩ | h2
  · subst e; rw [hx]; exact ey
  · exact h k' y h2

theorem expand_wrong_size (pk : Bytes) (h : pk.size ≠ 32) : expand pk = none := by
  unfold expand Pt.decode; simp [h]

/-- **the upsert returns `expand pk` whatever the cache holds, and keeps the invariant** -/
theorem upsert_spec {c : Cache} (h : CacheOK c) (pk : Bytes) :
    CacheOK (upsert c pk).1 ∧ (upsert c pk).2 = expand pk := by
  unfold upsert
  by_cases hsz : pk.size ≠ 32
  · rw [if_pos hsz]; exact ⟨h, (expand_wrong_size pk hsz).symm⟩
  · rw [if_neg hsz]
    have hg := cacheOK_get h pk
    have hr := get_result c pk
    generalize Model.LRU.get c pk = r at hg hr
    obtain ⟨c1, o⟩ := r
    cases o with
    | some x =>
      exact ⟨hg, (h pk x (hr x rfl)).symm⟩
    | none =>
      cases he : expand pk with
      | none => exact ⟨hg, rfl⟩
      | some x => exact ⟨cacheOK_put hg pk x he, rfl⟩

/-- **transparency of `Verifier.VerifyWithOptions`** -/
theorem verify_transparent {c : Cache} (h : CacheOK c) (pk msg sig : Bytes) (o : Opts) :
    CacheOK (CacheVerifier.verify c pk msg sig o).1 ∧
    (CacheVerifier.verify c pk msg sig o).2 =
      (match expand pk with
       | none => some false
       | some x => verifyExpanded x msg sig o) := by
  unfold CacheVerifier.verify
  obtain ⟨h1, h2⟩ := upsert_spec h pk
  generalize upsert c pk = r at h1 h2
  obtain ⟨c1, ox⟩ := r
  simp only at h1 h2
  subst h2
  cases expand pk <;> exact ⟨h1, rfl⟩

/-- verification with the expansion of `pk` is the Spec's verification of `pk` (`none` = documented panic) -/
theorem verifyExpanded_expand (pk msg sig : Bytes) (o : Opts) (x : XKey) (hx : expand pk = some x) :
    verifyExpanded x msg sig o =
      (match modeOf o.verify o.ctx (decide (o.hash = .sha512)) (decide (o.hash = .other)) msg.size with
       | none => none
       | some f => some (Spec.Ed25519.verify o.vopts f o.ctx pk msg sig)) := by
  rw [BatchInv.modeOf_eq]
  unfold verifyExpanded
  cases h1 : optsVerify o with
  | none => rfl
  | some fb =>
    cases h2 : checkHash fb msg.size o.hash with
    | none => simp [h2]
    | some f =>
      simp only [Option.bind_some, h2]
      unfold expand at hx
      cases hA : Pt.decode pk with
      | none => simp [hA] at hx
      | some A =>
        simp only [hA, Option.some.injEq] at hx
        subst hx
        simp only
        have hk : checkExpandedPublicKey o.vopts ⟨pk, true, A.isSmallOrder, Pt.isCanonicalEnc pk⟩
            = unpackPublicKey o.vopts pk := by
          simp [checkExpandedPublicKey, unpackPublicKey, hA]
        rw [hk]
        by_cases hv : Spec.Ed25519.verify o.vopts f o.ctx pk msg sig = true
        · simp [(BatchInv.verify_true_admissible _ _ _ _ _ _ hv).1]
        · have hv' : Spec.Ed25519.verify o.vopts f o.ctx pk msg sig = false := by simpa using hv
          by_cases hu : unpackPublicKey o.vopts pk = true <;> simp [hu, hv']

/-- **C09, caching verifier = plain verification**, for every cache content satisfying the invariant (hence after
every history, `cacheOK_run`): an unusable key gives false (plain `VerifyWithOptions` panics for a wrong length and
validates the options first); otherwise the result is the Spec's verdict, or the documented panic for bad options. -/
theorem verify_eq_spec {c : Cache} (h : CacheOK c) (pk msg sig : Bytes) (o : Opts) :
    (CacheVerifier.verify c pk msg sig o).2 =
      (if (expand pk).isNone then some false else
       match modeOf o.verify o.ctx (decide (o.hash = .sha512)) (decide (o.hash = .other)) msg.size with
       | none => none
       | some f => some (Spec.Ed25519.verify o.vopts f o.ctx pk msg sig)) := by
  rw [(verify_transparent h pk msg sig o).2]
  cases hx : expand pk with
  | none => rfl
  | some x => simp only [Option.isNone_some, Bool.false_eq_true, if_false]; exact verifyExpanded_expand pk msg sig o x hx

/-- **transparency of `Verifier.AddWithOptions`** -/
theorem addToBatch_transparent {c : Cache} (h : CacheOK c) (b : Batch.State) (pk msg sig : Bytes) (o : Opts) :
    CacheOK (addToBatch c b pk msg sig o).1 ∧
    (addToBatch c b pk msg sig o).2 = addExpandedWithOptions b (expand pk) msg sig o := by
  unfold addToBatch
  obtain ⟨h1, h2⟩ := upsert_spec h pk
  simp only [h2]
  exact ⟨h1, by first | rfl | trivial⟩

/-! ### all histories -/

inductive COp where
  | verify (pk msg sig : Bytes) (o : Opts)
  | addPublicKey (pk : Bytes)
  | get (pk : Bytes)             -- a direct `Get` on the underlying cache (harness op `c.get`)

def cstep (c : Cache) : COp → Cache
  | .verify pk msg sig o => (CacheVerifier.verify c pk msg sig o).1
  | .addPublicKey pk => addPublicKey c pk
  | .get pk => (Model.LRU.get c pk).1

theorem cacheOK_step {c : Cache} (h : CacheOK c) (op : COp) : CacheOK (cstep c op) := by
  cases op with
  | verify pk msg sig o => exact (verify_transparent h pk msg sig o).1
  | addPublicKey pk => exact (upsert_spec h pk).1
  | get pk => exact cacheOK_get h pk

/-- the invariant holds after every history on a fresh cache of any capacity -/
theorem cacheOK_run (cap : Nat) (ops : List COp) : CacheOK (ops.foldl cstep (Model.LRU.new cap)) := by
  have : ∀ c : Cache, CacheOK c → CacheOK (ops.foldl cstep c) := by
    induction ops with
    | nil => intro c h; exact h
    | cons op ops ih => intro c h; exact ih _ (cacheOK_step h op)
  exact this _ (cacheOK_new cap)

/-- … hence after every history the caching verifier decides exactly as the Spec does -/
theorem verify_after_history (cap : Nat) (ops : List COp) (pk msg sig : Bytes) (o : Opts) :
    (CacheVerifier.verify (ops.foldl cstep (Model.LRU.new cap)) pk msg sig o).2 =
      (if (expand pk).isNone then some false else
       match modeOf o.verify o.ctx (decide (o.hash = .sha512)) (decide (o.hash = .other)) msg.size with
       | none => none
       | some f => some (Spec.Ed25519.verify o.vopts f o.ctx pk msg sig)) :=
  verify_eq_spec (cacheOK_run cap ops) pk msg sig o

/-- sanity: the invariant's hypothesis is satisfiable and the wrong-length path is concrete -/
example : (CacheVerifier.verify (Model.LRU.new 1) ByteArray.empty ByteArray.empty ByteArray.empty Opts.default).2
    = some false := by decide

end Voi.Props.CacheInv

#print axioms Voi.Props.CacheInv.upsert_spec
#print axioms Voi.Props.CacheInv.verify_transparent
#print axioms Voi.Props.CacheInv.verifyExpanded_expand
#print axioms Voi.Props.CacheInv.verify_eq_spec
#print axioms Voi.Props.CacheInv.addToBatch_transparent
#print axioms Voi.Props.CacheInv.cacheOK_run
#print axioms Voi.Props.CacheInv.verify_after_history
