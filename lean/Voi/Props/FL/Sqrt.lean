/-
The REGENERATED `(*field.Element).SqrtRatioI` (internal/field/field.go, `go2ir -flevel`) returns exactly what the
specification `Fp.sqrtRatioM1` returns, for all u, v — although the code uses a different formula (RFC 8032 erratum:
r = u·(uv)^((p−5)/8), the Spec follows RFC 9496: r = u v³ (u v⁷)^((p−5)/8)); the two candidate roots differ by a fourth
root of unity, and the three equality tests absorb the difference.  Together with `Proofs/SqrtRatio.sqrtRatioM1_contract`
this gives the documented (was-square, non-negative root) contract for the code as it is, which C10 (decompression) and
C11 (Ristretto decoding) stand on.

The exponentiation inside is the regenerated `pow_p58` (decomposition by `rfl`; its value is `Field.pow_p58_eq`).
-/
import Voi.Props.FL.Field
import Voi.Proofs.SqrtRatio
import Voi.Gen.FL_FieldF64_SqrtRatioI
import Voi.Gen.FL_FieldF64_InvSqrt
namespace Voi.Props.FL
open Voi.Spec Voi.Proofs Voi.Proofs.SqrtRatio Voi.FIR Voi.Gen.FieldF64
open Voi.Props.C07 hiding toZ

local notation "toZ" => Voi.Props.C07.toZ

/-- the constant the code multiplies by is the specification's √−1 -/
def sqrtM1c : Nat := 19681161376707505956807079304988542015446066515923890162744021073123829784752
theorem sqrtM1c_eq : sqrtM1c = Fp.sqrtM1 := by decide +kernel

/-- the body of SqrtRatioI around the exponentiation `t = (u v)^((p−5)/8)` -/
def sqrtTail (u v t : Nat) : List Nat :=
  let r0 := Fp.mul u t
  let c := Fp.mul (Fp.sq r0) v
  let nu := Fp.neg u
  let nui := Fp.mul nu sqrtM1c
  let ok := feq c u
  let fl := feq c nu
  let fi := feq c nui
  let r1 := sel (bor fl fi) r0 (Fp.mul r0 sqrtM1c)
  let r := sel (fisNeg r1) r1 (Fp.neg r1)
  [r, r, bor ok fl]

/-- the same body with the operands of its two ORs in either order (the proof below does not care which one the code uses) -/
def sqrtTailV (f1 f2 : Bool) (u v t : Nat) : List Nat :=
  let r0 := Fp.mul u t
  let c := Fp.mul (Fp.sq r0) v
  let nu := Fp.neg u
  let nui := Fp.mul nu sqrtM1c
  let ok := feq c u
  let fl := feq c nu
  let fi := feq c nui
  let r1 := sel (if f1 then bor fi fl else bor fl fi) r0 (Fp.mul r0 sqrtM1c)
  let r := sel (fisNeg r1) r1 (Fp.neg r1)
  [r, r, if f2 then bor fl ok else bor ok fl]

theorem bor_comm (a b : Nat) : bor a b = bor b a := Nat.or_comm a b

theorem sqrtTailV_eq (f1 f2 : Bool) (u v t : Nat) : sqrtTailV f1 f2 u v t = sqrtTail u v t := by
  unfold sqrtTailV sqrtTail
  cases f1 <;> cases f2 <;> simp only [Bool.false_eq_true, if_false, if_true, bor_comm (feq _ (Fp.mul (Fp.neg u) sqrtM1c)),
    bor_comm (feq _ (Fp.neg u)) (feq _ u)]

/-- the regenerated program is this body around the regenerated `pow_p58` (by `rfl`, for some order of the OR operands) -/
theorem SqrtRatioI_decomp (u v : Nat) :
    SqrtRatioI_sh u v = sqrtTail u v ((pow_p58_sh (Fp.mul u v)).getD 0 0) := by
  have h : ∃ f1 f2, SqrtRatioI_sh u v = sqrtTailV f1 f2 u v ((pow_p58_sh (Fp.mul u v)).getD 0 0) := by
    first
    | exact ⟨false, false, rfl⟩
    | exact ⟨true, false, rfl⟩
    | exact ⟨false, true, rfl⟩
    | exact ⟨true, true, rfl⟩
  obtain ⟨f1, f2, h⟩ := h
  rw [h, sqrtTailV_eq]

theorem feq_eq_one_iff (a b : Nat) : feq a b = 1 ↔ toZ a = toZ b := by
  unfold feq; rw [toZ_eq_iff]; split <;> simp_all
theorem feq_cases (a b : Nat) : (feq a b = 1 ∧ toZ a = toZ b) ∨ (feq a b = 0 ∧ toZ a ≠ toZ b) := by
  unfold feq
  by_cases h : a % p = b % p
  · left; exact ⟨if_pos h, toZ_eq_iff.2 h⟩
  · right; exact ⟨if_neg h, fun h' => h (toZ_eq_iff.1 h')⟩

/-- the sign fix-up is `Fp.abs` on reduced values -/
theorem sel_isNeg_eq_abs {a : Nat} (ha : a < p) : sel (fisNeg a) a (Fp.neg a) = Fp.abs a := by
  unfold sel fisNeg Fp.abs
  by_cases h : Fp.isNeg a = true
  · simp [h]
  · simp [h, Nat.mod_eq_of_lt ha]

/-- non-square companion of `sqrtRatioM1_unique` -/
theorem sqrtRatioM1_unique_ns {u v x : Nat} (hu : toZ u ≠ 0) (hv : toZ v ≠ 0) (hx : x < p)
    (hn : Fp.isNeg x = false) (h : toZ v * toZ x ^ 2 = I * toZ u) : Fp.sqrtRatioM1 u v = (false, x) := by
  have hflag : (Fp.sqrtRatioM1 u v).1 = false := by
    by_contra hc
    rw [Bool.not_eq_false] at hc
    have hs := sqrtRatioM1_ok hu hv hc
    -- v s² = u and v x² = i u, so i = (x / s)²
    set s := toZ (Fp.sqrtRatioM1 u v).2 with hsdef
    have hs0 : s ≠ 0 := by
      intro h0; apply hu; rw [← hs, h0]; ring
    apply I_not_square
    refine ⟨toZ x / s, ?_⟩
    have h1 : toZ v * toZ x ^ 2 = toZ v * (I * (s * s)) := by rw [h, ← hs]; ring
    have h2 := mul_left_cancel₀ hv h1
    rw [div_mul_div_comm, ← pow_two, h2, mul_div_assoc, div_self (mul_ne_zero hs0 hs0), mul_one]
  have hr := sqrtRatioM1_not_ok hu hv hflag
  have hsq : toZ (Fp.sqrtRatioM1 u v).2 ^ 2 = toZ x ^ 2 := by
    apply mul_left_cancel₀ hv
    rw [hr, h]; rfl
  exact Prod.ext hflag (nonneg_root_unique (sqrtRatioM1_lt u v) hx (sqrtRatioM1_nonneg u v) hn hsq)

theorem eq_zero_of_toZ' {a : Nat} (ha : a < p) (h : toZ a = 0) : a = 0 := eq_zero_of_toZ ha h

theorem abs_zero : Fp.abs 0 = 0 := by decide +kernel

/-- **the body of SqrtRatioI computes SQRT_RATIO_M1**, given the exponentiation -/
theorem sqrtTail_eq (u v t : Nat) (ht : toZ t = (toZ u * toZ v) ^ ((p - 5) / 8)) :
    sqrtTail u v t = [(Fp.sqrtRatioM1 u v).2, (Fp.sqrtRatioM1 u v).2, if (Fp.sqrtRatioM1 u v).1 then 1 else 0] := by
  unfold sqrtTail
  simp only [sqrtM1c_eq]
  -- names for the intermediate values and their images
  generalize hr0 : Fp.mul u t = r0
  generalize hc : Fp.mul (Fp.sq r0) v = c
  generalize hnui : Fp.mul (Fp.neg u) Fp.sqrtM1 = nui
  generalize hr0i : Fp.mul r0 Fp.sqrtM1 = r0i
  have r0_lt : r0 < p := hr0 ▸ mul_lt _ _
  have zr0 : toZ r0 = toZ u * (toZ u * toZ v) ^ ((p - 5) / 8) := by rw [← hr0, toZ_mul, ht]
  have zc : toZ c = toZ v * toZ r0 ^ 2 := by rw [← hc, toZ_mul, toZ_sq]; ring
  have zc' : toZ c = toZ u * (toZ u * toZ v) ^ ((p - 1) / 4) := by
    rw [zc, zr0, ← exp_rel]; generalize (p - 5) / 8 = k; ring
  have znu : toZ (Fp.neg u) = -toZ u := toZ_neg u
  have znui : toZ nui = -toZ u * I := by rw [← hnui, toZ_mul, toZ_neg]; rfl
  have zr0i : toZ r0i = toZ r0 * I := by rw [← hr0i, toZ_mul]; rfl
  have r0i_lt : r0i < p := hr0i ▸ mul_lt _ _
  by_cases hu : toZ u = 0
  · -- u ≡ 0: everything vanishes, the flag is set
    have zr : toZ r0 = 0 := by rw [zr0, hu]; ring
    have zcz : toZ c = 0 := by rw [zc, zr]; ring
    have e1 : feq c u = 1 := (feq_eq_one_iff _ _).2 (by rw [zcz, hu])
    have e2 : feq c (Fp.neg u) = 1 := (feq_eq_one_iff _ _).2 (by rw [zcz, znu, hu]; ring)
    have hr1 : r0i = 0 := eq_zero_of_toZ' r0i_lt (by rw [zr0i, zr]; ring)
    rw [sqrtRatioM1_u_zero v hu, e1, e2]
    have : bor 1 (feq c (nui)) ≠ 0 := by
      unfold bor; rcases feq_cases c (nui) with h | h <;> rw [h.1] <;> decide
    simp only [sel, this, if_false, hr1]
    decide
  · by_cases hv : toZ v = 0
    · -- v ≡ 0, u ≢ 0: the candidate is 0, no test succeeds
      have zr : toZ r0 = 0 := by
        rw [zr0, hv, mul_zero, zero_pow (by decide)]; ring
      have hr00 : r0 = 0 := eq_zero_of_toZ' r0_lt zr
      have zcz : toZ c = 0 := by rw [zc, zr]; ring
      have e1 : feq c u = 0 := by
        rcases feq_cases c u with h | h
        · exact absurd (zcz ▸ h.2).symm hu
        · exact h.1
      have e2 : feq c (Fp.neg u) = 0 := by
        rcases feq_cases c (Fp.neg u) with h | h
        · exfalso; apply hu; have := h.2; rw [zcz, znu] at this; exact neg_eq_zero.1 this.symm
        · exact h.1
      have e3 : feq c (nui) = 0 := by
        rcases feq_cases c (nui) with h | h
        · exfalso
          have := h.2; rw [zcz, znui] at this
          rcases mul_eq_zero.1 this.symm with h1 | h1
          · exact hu (neg_eq_zero.1 h1)
          · exact I_ne_zero h1
        · exact h.1
      rw [sqrtRatioM1_v_zero hu hv, e1, e2, e3, hr00]
      have hb : bor 0 0 = 0 := rfl
      simp only [hb, sel, if_true]
      decide
    · -- the generic case: c = u·T with T a fourth root of unity
      have hw : toZ u * toZ v ≠ 0 := mul_ne_zero hu hv
      obtain hT := fourth_root_cases (t := (toZ u * toZ v) ^ ((p - 1) / 4)) (by
        rw [← pow_mul, Nat.mul_comm, four_mul_exp]; exact ZMod.pow_card_sub_one_eq_one hw)
      generalize hTdef : (toZ u * toZ v) ^ ((p - 1) / 4) = T at hT zc'
      have test1 : feq c u = 1 ↔ T = 1 := by
        rw [feq_eq_one_iff, zc']
        constructor
        · intro h
          have : toZ u * (T - 1) = 0 := by linear_combination h
          rcases mul_eq_zero.1 this with h1 | h1
          · exact absurd h1 hu
          · exact sub_eq_zero.1 h1
        · rintro rfl; ring
      have test2 : feq c (Fp.neg u) = 1 ↔ T = -1 := by
        rw [feq_eq_one_iff, zc', znu]
        constructor
        · intro h
          have : toZ u * (T + 1) = 0 := by linear_combination h
          rcases mul_eq_zero.1 this with h1 | h1
          · exact absurd h1 hu
          · exact eq_neg_of_add_eq_zero_left h1
        · rintro rfl; ring
      have test3 : feq c (nui) = 1 ↔ T = -I := by
        rw [feq_eq_one_iff, zc', znui]
        constructor
        · intro h
          have : toZ u * (T + I) = 0 := by linear_combination h
          rcases mul_eq_zero.1 this with h1 | h1
          · exact absurd h1 hu
          · exact eq_neg_of_add_eq_zero_left h1
        · rintro rfl; ring
      have zero_of_not {a b : Nat} (h : ¬ feq a b = 1) : feq a b = 0 := by
        rcases feq_cases a b with h' | h'
        · exact absurd h'.1 h
        · exact h'.1
      have vr : toZ v * toZ r0 ^ 2 = toZ u * T := by rw [← zc, zc']
      rcases hT with rfl | rfl | rfl | rfl
      · -- T = 1: r0 is a root
        have e1 : feq c u = 1 := test1.2 rfl
        have e2 : feq c (Fp.neg u) = 0 := zero_of_not (fun h => one_ne_neg_one (test2.1 h))
        have e3 : feq c (nui) = 0 := zero_of_not (fun h => I_ne_neg_one (by
          have := test3.1 h; rw [eq_neg_iff_add_eq_zero] at this ⊢; linear_combination this))
        rw [e1, e2, e3]
        simp only [bor, sel, Nat.zero_or, if_true]
        have : sel (fisNeg r0) r0 (Fp.neg r0) = Fp.abs r0 := sel_isNeg_eq_abs r0_lt
        simp only [sel] at this
        rw [this, sqrtRatioM1_unique hv (abs_lt r0) (abs_nonneg r0) (by rw [toZ_abs_sq, vr]; ring)]
        rfl
      · -- T = −1: r0·i is a root
        have e1 : feq c u = 0 := zero_of_not (fun h => one_ne_neg_one (test1.1 h).symm)
        have e2 : feq c (Fp.neg u) = 1 := test2.2 rfl
        rw [e1, e2]
        have hb : bor 1 (feq c (nui)) ≠ 0 := by
          unfold bor; rcases feq_cases c (nui) with h | h <;> rw [h.1] <;> decide
        simp only [sel, hb, if_false]
        have : sel (fisNeg (r0i)) (r0i) (Fp.neg (r0i)) = Fp.abs (r0i) :=
          sel_isNeg_eq_abs r0i_lt
        simp only [sel] at this
        rw [this, sqrtRatioM1_unique hv (abs_lt _) (abs_nonneg _) (by
          rw [toZ_abs_sq, zr0i]
          have : toZ v * (toZ r0 * I) ^ 2 = (toZ v * toZ r0 ^ 2) * (I * I) := by ring
          rw [this, vr, I_mul_I]; ring)]
        rfl
      · -- T = i: r0 is a root of i·u/v
        have e1 : feq c u = 0 := zero_of_not (fun h => I_ne_one (test1.1 h))
        have e2 : feq c (Fp.neg u) = 0 := zero_of_not (fun h => I_ne_neg_one (test2.1 h))
        have e3 : feq c (nui) = 0 := zero_of_not (fun h => I_ne_neg_I (test3.1 h))
        rw [e1, e2, e3]
        simp only [bor, sel, Nat.zero_or, if_true]
        have : sel (fisNeg r0) r0 (Fp.neg r0) = Fp.abs r0 := sel_isNeg_eq_abs r0_lt
        simp only [sel] at this
        rw [this, sqrtRatioM1_unique_ns hu hv (abs_lt r0) (abs_nonneg r0) (by rw [toZ_abs_sq, vr]; ring)]
        rfl
      · -- T = −i: r0·i is a root of i·u/v
        have e1 : feq c u = 0 := zero_of_not (fun h => I_ne_neg_one (by
          have := test1.1 h; rw [neg_eq_iff_eq_neg] at this; exact this))
        have e2 : feq c (Fp.neg u) = 0 := zero_of_not (fun h => I_ne_one (by
          have := test2.1 h; exact neg_injective this))
        have e3 : feq c (nui) = 1 := test3.2 rfl
        rw [e1, e2, e3]
        simp only [bor, sel]
        have hne : (0 ||| 1 : Nat) ≠ 0 := by decide
        simp only [hne, if_false]
        have : sel (fisNeg (r0i)) (r0i) (Fp.neg (r0i)) = Fp.abs (r0i) :=
          sel_isNeg_eq_abs r0i_lt
        simp only [sel] at this
        rw [this, sqrtRatioM1_unique_ns hu hv (abs_lt _) (abs_nonneg _) (by
          rw [toZ_abs_sq, zr0i]
          have : toZ v * (toZ r0 * I) ^ 2 = (toZ v * toZ r0 ^ 2) * (I * I) := by ring
          rw [this, vr, I_mul_I]; ring)]
        rfl

/-- **(*field.Element).SqrtRatioI as regenerated = SQRT_RATIO_M1 of the specification**, for all u, v -/
theorem SqrtRatioI_eq (u v : Nat) :
    SqrtRatioI_sh u v = [(Fp.sqrtRatioM1 u v).2, (Fp.sqrtRatioM1 u v).2, if (Fp.sqrtRatioM1 u v).1 then 1 else 0] := by
  rw [SqrtRatioI_decomp]
  exact sqrtTail_eq u v _ (by rw [pow_p58_eq, toZ_mul])

/-- hence the summary instructions `sqrtV` / `sqrtOk` used where SqrtRatioI is called are exact -/
theorem SqrtRatioI_summary (u v : Nat) : SqrtRatioI_sh u v = [sqrtV u v, sqrtV u v, sqrtOk u v] := SqrtRatioI_eq u v

/-- **InvSqrt** = SqrtRatioI(1, x) -/
theorem InvSqrt_eq (x : Nat) : InvSqrt_sh x = [sqrtV 1 x, sqrtV 1 x, sqrtOk 1 x] := rfl

end Voi.Props.FL
